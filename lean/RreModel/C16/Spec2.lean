import RreModel.C16.Model2
import RreModel.C16.Spec
/-
C16, part 2 — plain computations stated on VALUES (not on key texts), and the oracles for the
new observations: the key text itself, `CompactAlphaMemory`, the `IndexStats` counters.
-/
namespace C16
variable {F : Type}

/-! ### Beta: "the live facts carrying that key", by value -/

/-- the join value of `f` is `v` (same variant and payload, floats with the same text) -/
def joinSame (R : Fmt F) (jk : String) (v : Val F) (f : Facts F) : Bool :=
  match f.get jk with
  | some w => Val.sameText R w v
  | none => false

def isRemoveOfV (R : Fmt F) (jk : String) (v : Val F) (i : Nat) : BOp F → Bool
  | .remove f j => decide (j = i) && joinSame R jk v f
  | _ => false

/-- the indices added with join value `v` and not removed (with join value `v`) later — no key text,
no rendering: the plain computation on values -/
def bLiveV (R : Fmt F) (jk : String) (v : Val F) : List (BOp F) → List Nat
  | [] => []
  | op :: rest =>
    (match op with
     | .add f i => if joinSame R jk v f = true ∧ rest.any (isRemoveOfV R jk v i) = false then [i] else []
     | _ => []) ++ bLiveV R jk v rest

/-! ### CompactAlphaMemory: reference counting by value -/

/-- two fact sets are the same: same fields in the same (sorted) order with the same values -/
def Facts.sameText (R : Fmt F) : Facts F → Facts F → Bool
  | [], [] => true
  | (k, v) :: f, (k', v') :: g => decide (k = k') && Val.sameText R v v' && Facts.sameText R f g
  | _, _ => false

/-- how many references to `f` a history leaves: every `add` of the same fact set counts up, every
`remove` of it counts down (a `remove` without a reference does nothing) -/
def kCount (R : Fmt F) (f : Facts F) : Nat → List (KOp F) → Nat
  | n, [] => n
  | n, .add g :: ops => kCount R f (if Facts.sameText R g f then n + 1 else n) ops
  | n, .remove g :: ops => kCount R f (if Facts.sameText R g f then n - 1 else n) ops
  | n, .contains _ :: ops => kCount R f n ops

/-- expected answers: `contains f` ⇔ a reference is left; `remove f` returns true ⇔ it drops the last one -/
def kExpected (R : Fmt F) : List (KOp F) → List (KOp F) → List Bool
  | _, [] => []
  | past, op :: ops =>
    (match op with
     | .add _ => []
     | .remove f => [decide (kCount R f 0 past = 1)]
     | .contains f => [decide (kCount R f 0 past > 0)]) ++ kExpected R (past ++ [op]) ops

/-! ### IndexStats: plain reading of the history -/

/-- fields that have an index after a history (`create_index` / `drop_index` / `clear` only; `auto_tune`
is left to the model), used to state what an "indexed lookup" is -/
def statsOk (st : AStats) (tracked : Nat) : Bool := decide (st.total = tracked) && decide (st.indexed + st.linear = st.total)

/-- number of `filter_tracked` calls since the last `clear` -/
def trackedSinceClear : Nat → List (AOp F) → Nat
  | n, [] => n
  | n, .tracked _ _ :: ops => trackedSinceClear (n + 1) ops
  | _, .clear :: ops => trackedSinceClear 0 ops
  | n, _ :: ops => trackedSinceClear n ops

/-! ### oracles over the new observations -/

/-- the key text the implementation printed for a value is the modelled text -/
def keyTextOk (R : Fmt F) (v : Val F) (implText : String) : Bool := decide (debugKey R v = implText)

/-- the runtime check of the float contract on the floats of one case: no `)` in a text, and two
non-NaN floats with the same text are the same float -/
def fmtContractOk [DecidableEq F] (o : FloatOps F) (R : Fmt F) (fs : List F) : Bool :=
  fs.all (fun a => !(R.fmtFloat a).contains ')') &&
  fs.all (fun a => fs.all (fun b => o.isNan a || o.isNan b || decide (R.fmtFloat a ≠ R.fmtFloat b) || decide (a = b))) &&
  fs.all (fun a => o.isNan a || !o.isNan (o.canon a))

/-! ### NodeSharingRegistry: the rules that share a pattern, read off the history -/

/-- the rules registered with pattern `p` and not unregistered since, in registration order, with multiplicity -/
def nLive (p : Pat) : List Nat → List NOp → List Nat
  | acc, [] => acc
  | acc, .register q r :: ops => nLive p (if q = p then acc ++ [r] else acc) ops
  | acc, .unregister r :: ops => nLive p (acc.filter (fun j => !decide (j = r))) ops
  | acc, .get _ :: ops => nLive p acc ops

def nodeOf (live : List Nat) : Option (List Nat) := if live.isEmpty then none else some live

/-- expected answers: the shared node of a pattern lists exactly its live rules; no node when there is none -/
def nExpected : List NOp → List NOp → List (Option (List Nat))
  | _, [] => []
  | past, op :: ops =>
    (match op with
     | .register p _ => [nodeOf (nLive p [] (past ++ [op]))]
     | .unregister _ => []
     | .get p => [nodeOf (nLive p [] past)]) ++ nExpected (past ++ [op]) ops

end C16
