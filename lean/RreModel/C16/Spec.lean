import RreModel.C16.Model
/-
C16 — the property as (a) the *plain computations* the four shortcuts must agree with, computed from
the operations of a history alone (no index, no cache), (b) the hypotheses under which the keyed
shortcuts are exact, and (c) decidable predicates over API-level observations — the runtime oracle
the driver evaluates on what the implementation returned.
-/
namespace C16
variable {F : Type}

/-! ### Hypotheses on keys -/

/-- what is assumed of `f64`: a NaN is `==` to nothing; on the others the normalisation identifies
exactly the `==`-equal ones (only `0.0`/`-0.0` are `==` with different bit patterns). -/
structure FloatLaws (o : FloatOps F) : Prop where
  nan_left : ∀ a b, o.isNan a = true → o.feq a b = false
  nan_right : ∀ a b, o.isNan b = true → o.feq a b = false
  canon_iff : ∀ a b, o.isNan a = false → o.isNan b = false → (o.canon a = o.canon b ↔ o.feq a b = true)

/-- "the key agrees with `==`": values without a key are equal to nothing, values with keys are
`==` exactly when the keys coincide (DESIGN §6 C16: `key v₁ = key v₂ ↔ v₁ == v₂`). -/
structure KeyLaw {κ : Type} (o : FloatOps F) (key : Val F → Option κ) : Prop where
  none_left : ∀ a b, key a = none → Val.beq o a b = false
  none_right : ∀ a b, key b = none → Val.beq o a b = false
  some_iff : ∀ a b ka kb, key a = some ka → key b = some kb → (ka = kb ↔ Val.beq o a b = true)

/-- "the cache key determines (node, facts)" as far as the evaluation can tell -/
def KeyDetermines {N K : Type} (key : N → Facts F → K) (ev : N → Facts F → Bool) : Prop :=
  ∀ n f n' f', key n f = key n' f' → ev n f = ev n' f'

/-! ### Alpha: the plain computation keeps only the list of facts and scans it -/

def aPlainFacts (fs : List (Facts F)) : AOp F → List (Facts F)
  | .insert f => fs ++ [f]
  | .clear => []
  | _ => fs

/-- the answers a memory *without any index* gives to the `filter`s of a history -/
def aExpected (o : FloatOps F) : List (Facts F) → List (AOp F) → List (List Nat)
  | _, [] => []
  | fs, op :: ops =>
    (match op with
     | .filter φ v => [posEq o φ v 0 fs]
     | .tracked φ v => [posEq o φ v 0 fs]
     | _ => []) ++ aExpected o (aPlainFacts fs op) ops

/-! ### Beta: "added and not removed", read off the history -/

/-- `op` is a `remove` of index `i` filed under key `k` -/
def isRemoveOf (render : Val F → String) (jk : String) (k : String) (i : Nat) : BOp F → Bool
  | .remove f j => decide (j = i) && decide (bKeyOf render jk f = some k)
  | _ => false

/-- the indices added under key `k` and not removed (under that key) later, in order of addition -/
def bLive (render : Val F → String) (jk : String) (k : String) : List (BOp F) → List Nat
  | [] => []
  | op :: rest =>
    (match op with
     | .add f i =>
       if bKeyOf render jk f = some k ∧ rest.any (isRemoveOf render jk k i) = false then [i] else []
     | _ => []) ++ bLive render jk k rest

/-- the expected answer of every `lookup`: the live indices of the history so far -/
def bExpected (render : Val F → String) (jk : String) : List (BOp F) → List (BOp F) → List (List Nat)
  | _, [] => []
  | past, op :: ops =>
    (match op with
     | .lookup k => [bLive render jk k past]
     | _ => []) ++ bExpected render jk (past ++ [op]) ops

/-! ### Conclusion index: completeness w.r.t. the scan -/

def subsetB (xs ys : List String) : Bool := xs.all (fun x => ys.contains x)

/-- every rule the scan finds is proposed by the index -/
def cComplete (tr : List (List String × List String)) : Bool := tr.all (fun p => subsetB p.2 p.1)

/-- the scan answers of a history (second components of `cTrace`, independent of the index) -/
def cExpectedScan : Map String CRule → List COp → List (List String)
  | _, [] => []
  | cur, op :: ops =>
    (match op with
     | .find g => [scanSet cur g]
     | _ => []) ++ cExpectedScan (cCurrent cur op) ops

/-! ### Oracles over observations (what the harness printed for the implementation) -/

/-- alpha: for every filter the implementation's answer, the harness' own `==` scan over
`get_all()`, and the plain computation from the case all coincide -/
def alphaOk (o : FloatOps F) (ops : List (AOp F)) (got lin : List (List Nat)) : Bool :=
  let e := aExpected o [] ops
  decide (got = e) && decide (lin = e)

/-- beta: every lookup returned the live indices (and the harness' own bookkeeping agrees) -/
def betaOk (render : Val F → String) (jk : String) (ops : List (BOp F)) (got ref : List (List Nat)) : Bool :=
  let e := bExpected render jk [] ops
  decide (got = e) && decide (ref = e)

/-- memo: memoised verdicts = direct verdicts, call by call -/
def memoOk (direct memo : List Bool) : Bool := decide (memo = direct)

/-- conclusion index: the implementation's scan equals the plain computation from the case and is
contained in what `find_candidates` returned (both sorted name lists) -/
def conclOk (ops : List COp) (sortNames : List String → List String) (got scan : List (List String)) : Bool :=
  decide (scan = (cExpectedScan [] ops).map sortNames) && decide (got.length = scan.length)
    && cComplete (got.zip scan)

end C16
