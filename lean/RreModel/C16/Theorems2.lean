import RreModel.C16.Theorems
import RreModel.C16.Lemmas2
/-
C16, part 2 — property theorems over the MODELLED KEY TEXT (`format!("{:?}", value)`, Model2.lean).
The injectivity of the `Debug` rendering, assumed so far, is a theorem here; what is left is the
contract of the float formatter (`FmtLaws`: no `)` in the text; non-NaN floats with the same text are
the same float; normalising keeps a non-NaN float non-NaN), the three IEEE facts `FloatLaws`, and
SipHash collision-freeness where a hash of the text is the key. `printable` (the Unicode table) is an
unconstrained parameter: every theorem holds for every table.
-/
namespace C16
variable {F : Type}

/-! ### (0) the key text determines the value -/

/-- **The `Debug` text is a prefix code.** Whatever text follows, the value can be read back up to the
text of its floats: if `dbg v ++ r = dbg w ++ s` then `v` and `w` have the same variant and payload at
every nesting depth (strings equal character by character — quotes, backslashes, `", "`, brackets and
look-alike text inside a string included — integers equal, floats with the same text) and `r = s`.
Only hypothesis: the float text has no `)`. -/
theorem debugKey_prefix_free (R : Fmt F) (hc : ∀ f, ')' ∉ R.fmtFloat f) (v w : Val F) (r s : List Char)
    (h : dbgVal R v ++ r = dbgVal R w ++ s) : Val.sameText R v w = true ∧ r = s :=
  dbgVal_prefix_free R hc v w r s h

/-- two values have the same key text exactly when they are the same value up to the text of their floats -/
theorem debugKey_eq_iff_sameText (R : Fmt F) (hc : ∀ f, ')' ∉ R.fmtFloat f) (v w : Val F) :
    debugKey R v = debugKey R w ↔ Val.sameText R v w = true :=
  debugKey_eq_iff R hc v w

/-- **debugKey_injective.** Under the float formatter contract, two NaN-free values (`Val.canon` is
defined on them) with the same key text are equal — arrays nested to any depth, any string. -/
theorem debugKey_injective (o : FloatOps F) (R : Fmt F) (hl : FmtLaws o R) (v w : Val F)
    (hv : (Val.canon o v).isSome = true) (hw : (Val.canon o w).isSome = true)
    (h : debugKey R v = debugKey R w) : v = w :=
  eq_of_sameText o R hl v w hv hw ((debugKey_eq_iff R hl.no_close v w).1 h)

/-- without floats no contract at all is needed (`Val Empty` = float-free values) -/
theorem debugKey_injective_nofloat (R : Fmt Empty) (v w : Val Empty) (h : debugKey R v = debugKey R w) : v = w :=
  debugKey_injective oEmpty R ⟨fun f => f.elim, fun a => a.elim, fun a => a.elim⟩ v w
    (canon_isSome_nofloat v) (canon_isSome_nofloat w) h

/-! ### (1) alpha memory index with the key the code computes -/

/-- **The key the fixed code computes agrees with `==`**: `index_key(v) = canon(v).map(|c| format!("{:?}", c))`
satisfies `KeyLaw` — from the IEEE facts and the formatter contract; no injectivity assumption. -/
theorem alphaKey_law (o : FloatOps F) (R : Fmt F) (hf : FloatLaws o) (hl : FmtLaws o R) : KeyLaw o (alphaKey o R) where
  none_left a b h := by
    cases hc : Val.canon o a with
    | none => exact canon_none_left o hf a b hc
    | some ka => simp [alphaKey, hc] at h
  none_right a b h := by
    cases hc : Val.canon o b with
    | none => exact canon_none_right o hf a b hc
    | some kb => simp [alphaKey, hc] at h
  some_iff a b ka kb ha hb := by
    cases hca : Val.canon o a with
    | none => simp [alphaKey, hca] at ha
    | some ca =>
      cases hcb : Val.canon o b with
      | none => simp [alphaKey, hcb] at hb
      | some cb =>
        simp only [alphaKey, hca, hcb, Option.map_some, Option.some.injEq] at ha hb
        subst ha; subst hb
        rw [← canon_some_iff o hf a b ca cb hca hcb]
        exact ⟨debugKey_injective o R hl ca cb (canon_canon_isSome o hl.canon_nan a ca hca)
                 (canon_canon_isSome o hl.canon_nan b cb hcb), fun h => by rw [h]⟩

/-- **alpha_filter_index_eq_linear for the real key text**: over every interleaving of insert /
create_index / drop_index / filter / filter_tracked / auto_tune / clear, the memory whose index is
keyed by the `Debug` text of the canonicalised value answers every `filter` like the `==` scan. -/
theorem alpha_filter_index_eq_linear_dbg (o : FloatOps F) (R : Fmt F) (hf : FloatLaws o) (hl : FmtLaws o R)
    (ops : List (AOp F)) :
    aTrace o (alphaKey o R) {} ops = aExpected o [] ops :=
  alpha_filter_index_eq_linear o (alphaKey o R) (alphaKey_law o R hf hl) ops

/-- the `IndexStats` counters: `total_queries` = number of `filter_tracked` calls since the last `clear`,
and every one of them is counted exactly once as an indexed lookup or as a linear scan. -/
theorem alpha_stats_exact {κ : Type} [DecidableEq κ] (key : Val F → Option κ) (ops : List (AOp F)) :
    (aStats key {} {} ops).total = trackedSinceClear 0 ops ∧
    (aStats key {} {} ops).indexed + (aStats key {} {} ops).linear = (aStats key {} {} ops).total :=
  aStats_sound key ops {} {} rfl

/-! ### (2) beta memory index: the letter of the property, on values -/

/-- **beta_lookup_exact for the real key text.** `lookup(format!("{:?}", v))` returns exactly the
indices added with a fact whose join value is `v` and not removed with such a fact since (in order of
addition, with multiplicity) — "is `v`" meaning same variant and payload at every depth, floats with the
same text. The rendering no longer appears in the right-hand side. -/
theorem beta_lookup_value_exact (R : Fmt F) (hc : ∀ f, ')' ∉ R.fmtFloat f) (jk : String) (ops : List (BOp F)) (v : Val F) :
    bLookup (bRun (debugKey R) jk {} ops) (debugKey R v) = bLiveV R jk v ops := by
  rw [beta_bucket_exact, bLive_eq_bLiveV R hc]

/-- … and on NaN-free values "is `v`" is equality -/
theorem beta_joinSame_eq (o : FloatOps F) (R : Fmt F) (hl : FmtLaws o R) (jk : String) (v w : Val F) (f : Facts F)
    (hf : f.get jk = some w) (hv : (Val.canon o v).isSome = true) (hw : (Val.canon o w).isSome = true) :
    joinSame R jk v f = true ↔ w = v := by
  simp only [joinSame, hf]
  exact ⟨eq_of_sameText o R hl w v hw hv, fun h => by subst h; exact (debugKey_eq_iff R hl.no_close w w).1 rfl⟩

/-! ### (2') CompactAlphaMemory: membership and reference counts by value -/

/-- **compact_eq_counting.** For every history of add / remove / contains on a `CompactAlphaMemory`,
`contains f` answers "a reference to `f` is left" and `remove f` returns "this was the last reference",
where references are counted on the fact sets themselves (same fields, same values up to the text of
floats) — the key (`FactKey::from_facts`: field names and `Debug` texts) never confuses two fact sets. -/
theorem compact_eq_counting (R : Fmt F) (hc : ∀ f, ')' ∉ R.fmtFloat f) (ops : List (KOp F)) :
    kTrace R {} ops = kExpected R [] ops :=
  kTrace_eq_expected R hc ops []

/-- state form: the stored reference count of `f` after any history is the count of the history. -/
theorem compact_refs_exact (R : Fmt F) (hc : ∀ f, ')' ∉ R.fmtFloat f) (ops : List (KOp F)) (f : Facts F) :
    (kRun R {} ops).refs.find (factKey R f) = if kCount R f 0 ops > 0 then some (kCount R f 0 ops) else none :=
  kinv_run R hc f ops {} 0 (kinv_init R f)

/-- the pre-image of `FactKey::from_facts` identifies exactly the same fact sets -/
theorem factKey_injective (R : Fmt F) (hc : ∀ f, ')' ∉ R.fmtFloat f) (f g : Facts F) :
    factKey R f = factKey R g ↔ Facts.sameText R f g = true :=
  factKey_eq_iff R hc f g

/-! ### (2'') NodeSharingRegistry: the shared node of a pattern lists exactly its live rules -/

/-- **sharing_eq_live.** For every history of register / unregister_rule / get on a `NodeSharingRegistry`,
`register` returns and `get(pattern)` finds the node listing exactly the rules registered with that
pattern and not unregistered since (registration order, with multiplicity), and no node when there is none. -/
theorem sharing_eq_live (ops : List NOp) : nTrace {} ops = nExpected [] ops :=
  nTrace_eq_expected ops []

/-- state form, with `ref_count` = number of live references -/
theorem sharing_get_exact (ops : List NOp) (p : Pat) :
    nGet (nRun {} ops) p = nodeOf (nLive p [] ops) :=
  nfind_run p ops {} [] (by simp [NInvG, Map.NodupKeys]) (by simp [nodeOf, Map.find])

/-! ### Non-vacuity: a concrete formatter on the four-point float type -/

def R4 : Fmt F4 where
  printable c := decide (32 ≤ c.toNat ∧ c.toNat ≤ 126)
  fmtFloat f := match f with
    | .pz => ['0', '.', '0']
    | .nz => ['-', '0', '.', '0']
    | .nan => ['N', 'a', 'N']
    | .one => ['1', '.', '0']

theorem r4_laws : FmtLaws o4 R4 where
  no_close f := by cases f <;> decide
  inj a b ha hb h := by cases a <;> cases b <;> simp_all [o4, R4]
  canon_nan a h := by cases a <;> simp_all [o4]

/-! ### (3) memoised evaluation with the node key the code computes -/

/-- **The node text determines the node**: `format!("{:?}", node)` of two real nodes (alpha tests, And / Or /
Not to any depth, multifield tests with their optional operator and compare value) coincide only for equal
nodes — whatever the strings inside them contain, for every Unicode table. No hypothesis. -/
theorem nodeKey_injective (pr : Char → Bool) (a b : RNode) (h : nodeKeyText pr a = nodeKeyText pr b) : a = b :=
  nodeKeyText_inj pr a b h

/-- **memo_eq_direct for the key the code computes**: cache key = (`Debug` text of the node, typed
pre-image of the facts). For every history of evaluate / clear over nodes whose literal values are what the
literal parser `pv` yields (`Node.WF pv` — the real node stores only the literal text), the memoised
verdicts are the direct verdicts. The injectivity assumption on the node rendering is gone; what remains
trusted for (3) is SipHash collision-freeness. -/
theorem memo_eq_direct_dbg [DecidableEq F] (o : FloatOps F) (pr : Char → Bool) (pv : String → Val F)
    (ops : List (MOp {n : Node F // n.WF pv} F)) :
    mTrace (memoKey (fun n : {n : Node F // n.WF pv} => nodeKeyText pr n.1.toRaw)) (fun n f => evalNode o n.1 f) {} ops
      = directTrace (fun n f => evalNode o n.1 f) ops :=
  memo_eq_direct_fixed (fun n : {n : Node F // n.WF pv} => nodeKeyText pr n.1.toRaw)
    (fun a b h => Subtype.ext (toRaw_inj pv a.1 b.1 a.2 b.2 (nodeKeyText_inj pr _ _ h)))
    (fun n f => evalNode o n.1 f) ops

/-- the hypothesis `Node.WF` is needed: the real node keeps the literal as text, so two model nodes that
differ only in the value attributed to the same literal text have the same key. -/
theorem memo_dbg_needs_wf :
    nodeKeyText R4.printable (Node.alpha (F := F4) "x" false "5" (.int 5)).toRaw
      = nodeKeyText R4.printable (Node.alpha (F := F4) "x" false "5" (.str "5")).toRaw := rfl

-- the text is the one Rust prints: escapes, `'` kept, `\u{…}` for U+0301 / U+200B / DEL, nesting, `, `
set_option maxRecDepth 8000 in
example : debugKey R4 (.str "a, b\n'\"\\\u0301\u200b\x7f")
    = "String(\"a, b\\n'\\\"\\\\\\u{301}\\u{200b}\\u{7f}\")" := by decide
set_option maxRecDepth 8000 in
example : debugKey R4 (.arr [.int (-5), .flt .nz, .arr [], .arr [.arr [.null]], .bool true])
    = "Array([Integer(-5), Float(-0.0), Array([]), Array([Array([Null])]), Boolean(true)])" := by decide
-- look-alikes have different texts
example : debugKey R4 (.str "1") ≠ debugKey R4 (.int 1) := by decide
example : debugKey R4 (.arr [.str "a, b"]) ≠ debugKey R4 (.arr [.str "a", .str "b"]) := by decide
example : debugKey R4 (.arr [.str "a\"), String(\"b"]) ≠ debugKey R4 (.arr [.str "a", .str "b"]) := by decide
example : debugKey R4 (.str "Integer(5)") ≠ debugKey R4 (.int 5) := by decide
example : debugKey R4 (.arr [.arr [.int 1], .int 2]) ≠ debugKey R4 (.arr [.arr [.int 1, .int 2]]) := by decide
example : debugKey R4 (.str "\\u{301}") ≠ debugKey R4 (.str "\u0301") := by decide
-- the hypotheses of debugKey_injective are met by non-trivial values, and NaN is really excluded
example : (Val.canon o4 (.arr [.flt .nz, .str "x", .arr [.flt .one]])).isSome = true := by decide
example : (Val.canon o4 (.arr [.flt .nan])).isSome = false := by decide
-- alpha with the real key: ±0.0 / NaN / nested arrays / look-alike strings behave like the linear scan
example : aTrace o4 (alphaKey o4 R4) {}
    [.create "x", .insert [("x", .flt .pz)], .insert [("x", .flt .nan)], .insert [("x", .flt .nz)],
     .filter "x" (.flt .nz), .filter "x" (.flt .nan), .drop "x", .insert [("x", .arr [.flt .nz, .str "5"])],
     .create "x", .filter "x" (.arr [.flt .pz, .str "5"]), .filter "x" (.arr [.flt .pz, .int 5]),
     .insert [("x", .str "Integer(5)")], .insert [("x", .int 5)], .filter "x" (.int 5)]
    = [[0, 2], [], [3], [], [5]] := by decide
example : alphaKey o4 R4 (.arr [.flt .nz]) = some "Array([Float(0.0)])" := by decide
example : alphaKey o4 R4 (.arr [.flt .nan]) = none := by decide
-- stats: 2 tracked calls, one linear (no index yet), one indexed
example : aStats (alphaKey o4 R4) {} {} [.insert [("x", .int 1)], .tracked "x" (.int 1), .create "x", .tracked "x" (.int 1)]
    = { total := 2, indexed := 1, linear := 1 } := by decide
-- beta by value: String("5") and Integer(5) are different join values; removal only under the same value
example : bLiveV R4 "k" (.int 5)
    [.add [("k", .int 5)] 0, .add [("k", .str "5")] 1, .add [("k", .int 5)] 2, .remove [("k", .str "5")] 0, .remove [("k", .int 5)] 2]
    = [0] := by decide
-- compact: two references, removed one by one; a look-alike fact set is not contained
example : kTrace R4 {}
    [.add [("x", .int 5)], .add [("x", .int 5)], .contains [("x", .str "5")], .contains [("x", .int 5)],
     .remove [("x", .int 5)], .contains [("x", .int 5)], .remove [("x", .int 5)], .contains [("x", .int 5)], .remove [("x", .int 5)]]
    = [false, true, false, true, true, false, false] := by decide

-- node text as Rust prints it
set_option maxRecDepth 8000 in
example : nodeKeyText R4.printable (Node.and (F := F4) (.alpha "x" true "a\"b" (.str "a\"b")) (.not (.count "y" (some (.ge, -2))))).toRaw
    = "UlAnd(UlAlpha(AlphaNode { field: \"x\", operator: \"!=\", value: \"a\\\"b\" }), UlNot(UlMultiField { field: \"y\", operation: \"count\", value: None, operator: Some(\">=\"), compare_value: Some(\"-2\") }))" := by
  decide
-- memo with the real key: a literal that spells a node separator does not confuse two nodes, and look-alike fact sets stay apart
example : mTrace (memoKey (fun n : Node F4 => nodeKeyText R4.printable n.toRaw)) (evalNode o4) {}
    [.eval (.alpha "x" false "5" (.int 5)) [("x", .int 5)], .eval (.alpha "x" false "5" (.int 5)) [("x", .str "5")],
     .eval (.alpha "x" true "5" (.int 5)) [("x", .int 5)], .eval (.alpha "x" false "5" (.int 5)) [("x", .int 5)]]
    = [true, false, false, true] := by decide
example : (Node.alpha (F := F4) "x" false "5" (.int 5)).WF (fun _ => .int 5) := rfl

-- registry: sharing, duplicates, unregistering one rule everywhere, the node disappears with its last rule
example : nTrace {}
    [.register ("x", "==", "5") 0, .register ("x", "==", "5") 1, .register ("x", "==", "5 ") 0, .register ("x", "==", "5") 0,
     .unregister 0, .get ("x", "==", "5"), .get ("x", "==", "5 "), .unregister 1, .get ("x", "==", "5")]
    = [some [0], some [0, 1], some [0], some [0, 1, 0], some [1], none, none] := by decide

end C16
