/-
C13 — model of `src/streaming/watermark.rs`:
`WatermarkGenerator` (BoundedOutOfOrder, MonotonicAscending, Custom, Periodic), `LateDataHandler`
(Drop, AllowedLateness, SideOutput, RecomputeWindows) and `WatermarkedStream::add_event`.
Timestamps are `Nat` (u64 milliseconds; `saturating_sub` is `Nat` subtraction).
The `Periodic` strategy reads the processing-time clock: every event carries the reading `now`
(milliseconds) the generator's clock shows when the event is offered — an arbitrary number, the
clock may stand still or run backwards — and the state keeps `last_emission` (the generator is
created at reading 0). The correspondence injects the same readings through the `rre_verif` clock hook.
-/
namespace C13

inductive WmStrategy where
  | bounded (delay : Nat)
  | monotonic
  | custom
  | periodic (interval : Nat)
deriving Repr, DecidableEq

inductive LateStrategy where
  | drop
  | allowed (maxLateness : Nat)
  | sideOutput
  | recompute
deriving Repr, DecidableEq

/-- The delay the code works with. `max_delay` / `max_lateness` are `std::time::Duration`s (whole seconds `secs : u64` plus
`nanos < 10^9`); `maybe_generate_watermark` (BoundedOutOfOrder) and `handle_late_event` (AllowedLateness) both convert with the Rust
expression `d.as_millis() as u64`: `Duration::as_millis()` is `secs * 1000 + nanos / 1_000_000 : u128`, i.e. the floor of the total
nanoseconds over 10^6 (no overflow: < 2^74), and `as u64` keeps the low 64 bits. So a sub-millisecond duration is delay 0,
`Duration::MAX` is delay `u64::MAX`, `Duration::from_secs(18446744073709552)` (2^64 ms + 384) is delay 384. The strategies of the model
(`WmStrategy.bounded`, `LateStrategy.allowed`) carry this EFFECTIVE delay; every theorem is parametric in it. -/
def durMillisU64 (secs nanos : Nat) : Nat :=
  ((secs * 1000000000 + nanos) / 1000000) % 18446744073709551616

/-- an event is identified by a caller-chosen id and carries its timestamp -/
structure Ev where
  id : Nat
  ts : Nat
  now : Nat      -- processing-time clock reading at arrival (read by `Periodic` only)
deriving Repr, DecidableEq

structure St where
  wm : Nat := 0
  maxTs : Nat := 0
  events : List Ev := []        -- `WatermarkedStream::events`, oldest first
  side : List Ev := []          -- `LateDataHandler::side_output`
  history : List Nat := []      -- `watermark_history`, oldest first
  late : Nat := 0
  dropped : Nat := 0
  allowed : Nat := 0
  lastEm : Nat := 0             -- `WatermarkGenerator::last_emission` (processing time, ms)
deriving Repr, DecidableEq

def init : St := {}

/-- `maybe_generate_watermark`: the candidate timestamp of the strategy -/
def candidate (w : WmStrategy) (maxTs : Nat) (fires : Bool) : Option Nat :=
  match w with
  | .bounded d => some (maxTs - d)
  | .monotonic => some maxTs
  | .custom => none
  | .periodic _ => if fires then some maxTs else none

/-- `Periodic`: `now.duration_since(last_emission).ok()?` succeeded and `elapsed >= interval` -/
def periodicFires (w : WmStrategy) (last now : Nat) : Bool :=
  match w with
  | .periodic iv => decide (last ≤ now) && decide (iv ≤ now - last)
  | _ => false

/-- `LateDataHandler::handle_late_event` together with the match in `add_event` -/
def handleLate (l : LateStrategy) (s : St) (e : Ev) : St :=
  let s := { s with late := s.late + 1 }
  match l with
  | .drop => { s with dropped := s.dropped + 1 }
  | .allowed m =>
    if s.wm - e.ts ≤ m then { s with allowed := s.allowed + 1, events := s.events ++ [e] }
    else { s with dropped := s.dropped + 1 }
  | .sideOutput => { s with side := s.side ++ [e] }
  | .recompute => { s with allowed := s.allowed + 1, events := s.events ++ [e] }

/-- `maybe_generate_watermark`: the watermark after seeing `maxTs` (it only ever advances) -/
def newWm (w : WmStrategy) (wm maxTs : Nat) (fires : Bool) : Nat :=
  match candidate w maxTs fires with
  | some c => if c > wm then c else wm
  | none => wm

/-- the on-time branch of `add_event`: push, `process_event`, record an emitted watermark -/
def handleOnTime (w : WmStrategy) (s : St) (e : Ev) : St :=
  let maxTs := if e.ts > s.maxTs then e.ts else s.maxTs
  let fires := periodicFires w s.lastEm e.now
  let wm' := newWm w s.wm maxTs fires
  { s with events := s.events ++ [e], maxTs := maxTs, wm := wm',
           history := if wm' > s.wm then s.history ++ [wm'] else s.history,
           -- `last_emission = now` is written whenever the interval has elapsed, also when the
           -- watermark then does not advance
           lastEm := if fires then e.now else s.lastEm }

/-- `WatermarkedStream::add_event` -/
def step (w : WmStrategy) (l : LateStrategy) (s : St) (e : Ev) : St :=
  if e.ts < s.wm then handleLate l s e else handleOnTime w s e

def run (w : WmStrategy) (l : LateStrategy) (es : List Ev) : St :=
  es.foldl (step w l) init

/-- what becomes of one offered event (the observable classification) -/
inductive Outcome where
  | accepted | dropped | side
deriving Repr, DecidableEq

end C13
