import RreModel.C13.Model
/-
C13 — the property as decidable predicates over *observations* (what the API shows after every
`add_event`). The same predicates are proved of the model (Theorems.lean) and evaluated on the
implementation's observations by the driver (oracle mode).
-/
namespace C13

/-- API-level observation after one `add_event` -/
structure Obs where
  wm : Nat
  history : List Nat
  events : List Nat      -- ids
  side : List Nat        -- ids
  late : Nat
  dropped : Nat
  allowed : Nat
  sideCount : Nat
deriving Repr, DecidableEq

def St.obs (s : St) : Obs :=
  { wm := s.wm, history := s.history, events := s.events.map (·.id), side := s.side.map (·.id),
    late := s.late, dropped := s.dropped, allowed := s.allowed, sideCount := s.side.length }

def initObs : Obs := init.obs

/-- the documented fate of an event with timestamp `ts` arriving at watermark `wm` -/
def expectedOutcome (l : LateStrategy) (wm ts : Nat) : Outcome :=
  if ts < wm then
    match l with
    | .drop => .dropped
    | .allowed m => if wm - ts ≤ m then .accepted else .dropped
    | .sideOutput => .side
    | .recompute => .accepted
  else .accepted

def maxList (ts : List Nat) : Nat := ts.foldl max 0

/-- the documented watermark once the largest timestamp seen is `m` -/
def wmOf (w : WmStrategy) (m : Nat) : Nat :=
  match w with
  | .bounded d => m - d
  | .monotonic => m
  | .custom => 0
  | .periodic _ => 0     -- no closed form: depends on the clock (see `wmClause`)

/-- what the watermark after an on-time event must be: the closed form of the strategy; for
`Periodic` (clock-driven) either unchanged or the largest timestamp seen -/
def wmClause (w : WmStrategy) (m wmOld wmNew : Nat) : Bool :=
  match w with
  | .periodic _ => wmNew == wmOld || wmNew == m
  | _ => wmNew == wmOf w m

/-- strictly increasing -/
def strictInc : List Nat → Bool
  | [] => true
  | [_] => true
  | a :: b :: rest => a < b && strictInc (b :: rest)

/-- One-step clause: `o'` is a correct successor of `o` when event `e` is offered.
`seen` = timestamps offered so far *including* `e`. -/
def stepOk (w : WmStrategy) (l : LateStrategy) (seen : List Nat) (o : Obs) (e : Ev) (o' : Obs) : Bool :=
  -- watermarks never move backwards
  o.wm ≤ o'.wm
  -- late exactly when below the current watermark; fate by strategy; exactly one destination
  && (match expectedOutcome l o.wm e.ts with
      | .accepted => o'.events == o.events ++ [e.id] && o'.side == o.side && o'.dropped == o.dropped
      | .dropped  => o'.events == o.events && o'.side == o.side && o'.dropped == o.dropped + 1
      | .side     => o'.events == o.events && o'.side == o.side ++ [e.id] && o'.dropped == o.dropped)
  && o'.late == (if e.ts < o.wm then o.late + 1 else o.late)
  -- a late event never moves the watermark
  && (if e.ts < o.wm then o'.wm == o.wm else true)
  -- bounded out-of-orderness: after an on-time event wm = max seen − delay (not below zero)
  && (if e.ts < o.wm then true else wmClause w (maxList seen) o.wm o'.wm)
  -- history: strictly increasing, extends the old one, ends at the current watermark
  && strictInc o'.history
  && (if o'.wm == o.wm then o'.history == o.history else o'.history == o.history ++ [o'.wm])
  -- statistics add up
  && o'.sideCount == o'.side.length
  && o'.late == o'.dropped + o'.allowed + o'.sideCount
  && seen.length == o'.events.length + o'.dropped + o'.sideCount

/-- whole-run oracle over the observation sequence -/
def runOk (w : WmStrategy) (l : LateStrategy) : List Nat → Obs → List Ev → List Obs → Bool
  | _, _, [], [] => true
  | seen, o, e :: es, o' :: os =>
    stepOk w l (seen ++ [e.ts]) o e o' && runOk w l (seen ++ [e.ts]) o' es os
  | _, _, _, _ => false

/-- the model's observation sequence -/
def trace (w : WmStrategy) (l : LateStrategy) : St → List Ev → List Obs
  | _, [] => []
  | s, e :: es => (step w l s e).obs :: trace w l (step w l s e) es

end C13
