import RreModel.C13.Spec
namespace C13

theorem foldl_max_ge (l : List Nat) (a : Nat) : a ≤ l.foldl max a := by
  induction l generalizing a with
  | nil => simp
  | cons x xs ih => simp only [List.foldl_cons]; exact Nat.le_trans (Nat.le_max_left a x) (ih _)

theorem maxList_append (l : List Nat) (x : Nat) : maxList (l ++ [x]) = max (maxList l) x := by
  simp [maxList, List.foldl_append]

theorem strictInc_append (l : List Nat) (c : Nat) (h : strictInc l = true) (hb : ∀ x ∈ l, x < c) :
    strictInc (l ++ [c]) = true := by
  induction l with
  | nil => simp [strictInc]
  | cons a t ih =>
    cases t with
    | nil => simp [strictInc]; exact hb a (by simp)
    | cons b r =>
      simp only [strictInc, Bool.and_eq_true, decide_eq_true_eq] at h
      simp only [List.cons_append, strictInc, Bool.and_eq_true, decide_eq_true_eq]
      refine ⟨h.1, ?_⟩
      exact ih h.2 (fun x hx => hb x (List.mem_cons_of_mem _ hx))

/-- the invariant carried along a run; `seen` = timestamps offered so far -/
structure Inv (w : WmStrategy) (seen : List Nat) (s : St) : Prop where
  maxTs : s.maxTs = maxList seen
  wm : (∀ iv, w ≠ .periodic iv) → s.wm = wmOf w s.maxTs
  wm_le : s.wm ≤ s.maxTs
  hist_inc : strictInc s.history = true
  hist_le : ∀ x ∈ s.history, x ≤ s.wm
  hist_pos : s.wm = 0 → s.history = []
  hist_last : s.wm ≠ 0 → ∃ pre, s.history = pre ++ [s.wm]
  late : s.late = s.dropped + s.allowed + s.side.length
  total : seen.length = s.events.length + s.dropped + s.side.length

theorem inv_init (w : WmStrategy) : Inv w [] init := by
  constructor <;> simp [init, maxList, strictInc]
  cases w <;> simp [wmOf]

theorem wm_le_maxTs {w seen s} (h : Inv w seen s) : s.wm ≤ s.maxTs := h.wm_le

end C13

namespace C13

theorem step_late_inv {w l seen s e} (h : Inv w seen s) (hl : e.ts < s.wm) :
    Inv w (seen ++ [e.ts]) (handleLate l s e) := by
  have hm := wm_le_maxTs h
  have hmax : maxList (seen ++ [e.ts]) = s.maxTs := by
    rw [maxList_append, ← h.maxTs]; omega
  have h1 := h.late; have h2 := h.total
  cases l with
  | drop =>
    constructor <;> simp [handleLate, hmax, h.hist_inc] <;> first | exact h.wm | exact h.wm_le | exact h.hist_le | exact h.hist_pos | exact h.hist_last | omega
  | allowed m =>
    unfold handleLate
    by_cases hc : s.wm - e.ts ≤ m
    · constructor <;> simp [hc, hmax, h.hist_inc] <;> first | exact h.wm | exact h.wm_le | exact h.hist_le | exact h.hist_pos | exact h.hist_last | omega
    · constructor <;> simp [hc, hmax, h.hist_inc] <;> first | exact h.wm | exact h.wm_le | exact h.hist_le | exact h.hist_pos | exact h.hist_last | omega
  | sideOutput =>
    constructor <;> simp [handleLate, hmax, h.hist_inc] <;> first | exact h.wm | exact h.wm_le | exact h.hist_le | exact h.hist_pos | exact h.hist_last | omega
  | recompute =>
    constructor <;> simp [handleLate, hmax, h.hist_inc] <;> first | exact h.wm | exact h.wm_le | exact h.hist_le | exact h.hist_pos | exact h.hist_last | omega

end C13

namespace C13

theorem step_ontime_inv {w seen s e} (h : Inv w seen s) (hl : ¬ e.ts < s.wm) :
    Inv w (seen ++ [e.ts]) (handleOnTime w s e) := by
  have hm := wm_le_maxTs h
  have hmaxeq : maxList (seen ++ [e.ts]) = (if e.ts > s.maxTs then e.ts else s.maxTs) := by
    rw [maxList_append, ← h.maxTs]; split <;> omega
  have h1 := h.late; have h2 := h.total
  have hw := h.wm
  generalize hM : (if e.ts > s.maxTs then e.ts else s.maxTs) = M at hmaxeq
  generalize hF : periodicFires w s.lastEm e.now = F
  have hMge : s.maxTs ≤ M := by rw [← hM]; split <;> omega
  have hge : s.wm ≤ newWm w s.wm M F := by unfold newWm; split <;> (try split) <;> omega
  have hle : newWm w s.wm M F ≤ M := by
    cases w <;> simp only [newWm, candidate] <;> (repeat' split) <;> (try simp_all) <;> omega
  have hnew : (∀ iv, w ≠ .periodic iv) → newWm w s.wm M F = wmOf w M := by
    intro hnp
    have hw' := hw hnp
    cases w with
    | periodic iv => exact absurd rfl (hnp iv)
    | bounded d => simp only [newWm, candidate, wmOf] at hw' ⊢; split <;> omega
    | monotonic => simp only [newWm, candidate, wmOf] at hw' ⊢; split <;> omega
    | custom => simp only [newWm, candidate, wmOf] at hw' ⊢; omega
  constructor
  · simp [handleOnTime, hM, hmaxeq]
  · simp only [handleOnTime, hM, hF]; exact hnew
  · simp only [handleOnTime, hM, hF]; exact hle
  · simp only [handleOnTime, hM, hF]
    split
    · exact strictInc_append _ _ h.hist_inc (fun x hx => by have := h.hist_le x hx; omega)
    · exact h.hist_inc
  · simp only [handleOnTime, hM, hF]
    split
    · intro x hx
      rcases List.mem_append.mp hx with hx | hx
      · have := h.hist_le x hx; omega
      · simp at hx; omega
    · intro x hx; have := h.hist_le x hx; omega
  · simp only [handleOnTime, hM, hF]
    intro h0
    have : s.wm = 0 := by omega
    rw [if_neg (by omega)]; exact h.hist_pos this
  · simp only [handleOnTime, hM, hF]
    intro h0
    split
    · exact ⟨_, rfl⟩
    · have : newWm w s.wm M F = s.wm := by omega
      rw [this] at h0 ⊢; exact h.hist_last h0
  · simp [handleOnTime]; omega
  · simp [handleOnTime]; omega

theorem step_inv {w l seen s e} (h : Inv w seen s) : Inv w (seen ++ [e.ts]) (step w l s e) := by
  unfold step
  split
  · exact step_late_inv h ‹_›
  · exact step_ontime_inv h ‹_›

end C13

namespace C13

theorem step_ok {w l seen s e} (h : Inv w seen s) :
    stepOk w l (seen ++ [e.ts]) s.obs e (step w l s e).obs = true := by
  have h' : Inv w (seen ++ [e.ts]) (step w l s e) := step_inv h
  have hinc := h'.hist_inc; have hlate := h'.late; have htot := h'.total
  have hwm' := h'.wm; have hmax' := h'.maxTs
  unfold stepOk
  simp only [Bool.and_eq_true, decide_eq_true_eq, beq_iff_eq, St.obs]
  by_cases hl : e.ts < s.wm
  · -- late
    have hs : step w l s e = handleLate l s e := by simp [step, hl]
    rw [hs] at hinc hlate htot ⊢
    simp only [expectedOutcome, hl, if_true]
    cases l with
    | drop => simp [handleLate] at *; simp [*]
    | allowed m =>
      by_cases hc : s.wm - e.ts ≤ m
      · simp [handleLate, hc] at *; simp [*]
      · simp [handleLate, hc] at *; simp [*]
    | sideOutput => simp [handleLate] at *; simp [*]
    | recompute => simp [handleLate] at *; simp [*]
  · -- on time
    have hs : step w l s e = handleOnTime w s e := by simp [step, hl]
    rw [hs] at hinc hlate htot hwm' hmax' ⊢
    have hge : s.wm ≤ (handleOnTime w s e).wm := by
      simp only [handleOnTime, newWm]; split <;> (try split) <;> omega
    simp only [expectedOutcome, hl, if_false]
    refine ⟨⟨⟨⟨⟨⟨⟨⟨⟨decide_eq_true hge, ?_⟩, ?_⟩, ?_⟩, ?_⟩, hinc⟩, ?_⟩, ?_⟩, ?_⟩, ?_⟩
    · simp [handleOnTime]
    · simp [handleOnTime]
    · trivial
    · -- the watermark clause: closed form, or (Periodic) unchanged / the largest timestamp seen
      have hmaxTs : (handleOnTime w s e).maxTs = maxList (seen ++ [e.ts]) := hmax'
      cases w with
      | periodic iv =>
        simp only [wmClause, Bool.or_eq_true, beq_iff_eq]
        rw [← hmaxTs]
        simp only [handleOnTime, newWm, candidate]
        split
        · rename_i c hc
          split at hc
          · simp only [Option.some.injEq] at hc; subst hc; have := h.wm_le; split <;> simp <;> omega
          · simp at hc
        · left; trivial
      | bounded d => simp only [wmClause, beq_iff_eq]; rw [hwm' (by simp), hmax']
      | monotonic => simp only [wmClause, beq_iff_eq]; rw [hwm' (by simp), hmax']
      | custom => simp only [wmClause, beq_iff_eq]; rw [hwm' (by simp), hmax']
    · simp only [handleOnTime] at hge ⊢
      by_cases hq : newWm w s.wm (if e.ts > s.maxTs then e.ts else s.maxTs) (periodicFires w s.lastEm e.now) = s.wm
      · simp [hq]
      · have : newWm w s.wm (if e.ts > s.maxTs then e.ts else s.maxTs) (periodicFires w s.lastEm e.now) > s.wm := by omega
        simp [hq, this]
    · simp
    · simpa using hlate
    · simpa using htot

theorem trace_ok (w : WmStrategy) (l : LateStrategy) (es : List Ev) (seen : List Nat) (s : St)
    (h : Inv w seen s) : runOk w l seen s.obs es (trace w l s es) = true := by
  induction es generalizing seen s with
  | nil => simp [trace, runOk]
  | cons e es ih =>
    simp only [trace, runOk, Bool.and_eq_true]
    exact ⟨step_ok h, ih _ _ (step_inv h)⟩

theorem run_inv (w : WmStrategy) (l : LateStrategy) (es : List Ev) :
    Inv w (es.map (·.ts)) (run w l es) := by
  suffices ∀ seen s, Inv w seen s → Inv w (seen ++ es.map (·.ts)) (es.foldl (step w l) s) by
    simpa [run] using this [] init (inv_init w)
  induction es with
  | nil => intro seen s h; simpa using h
  | cons e es ih =>
    intro seen s h
    have := ih (seen ++ [e.ts]) (step w l s e) (step_inv h)
    simpa [List.append_assoc] using this

end C13
