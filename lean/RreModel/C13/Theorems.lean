import RreModel.C13.Lemmas
/-
C13 — property theorems (only). Helper lemmas live in Lemmas.lean.
"Watermarks are monotone and every late event is accounted for."
All statements quantify over every watermark strategy, late-data strategy and every finite
sequence of events (any length, any timestamps, any order).
-/
namespace C13

/-- **Main theorem.** Every run of the model satisfies the observation-level specification
`runOk` (the same predicate the driver evaluates on the implementation's observations):
monotone watermark, `wm = max seen ∸ delay` after each on-time event, late ⇔ `ts < wm`,
fate by strategy with exactly one destination per event, strictly increasing history,
statistics adding up to the events offered. -/
theorem model_meets_spec (w : WmStrategy) (l : LateStrategy) (es : List Ev) :
    runOk w l [] initObs es (trace w l init es) = true :=
  trace_ok w l es [] init (inv_init w)

/-- Watermarks never move backwards (one step, hence along every history). -/
theorem watermark_monotone (w : WmStrategy) (l : LateStrategy) (es : List Ev) (e : Ev) :
    (run w l es).wm ≤ (run w l (es ++ [e])).wm := by
  have h := run_inv w l es
  have hok := @step_ok w l _ (run w l es) e h
  simp only [run, List.foldl_append, List.foldl_cons, List.foldl_nil]
  simp only [stepOk, Bool.and_eq_true, decide_eq_true_eq, St.obs] at hok
  exact of_decide_eq_true hok.1.1.1.1.1.1.1.1.1

theorem watermark_monotone_prefix (w : WmStrategy) (l : LateStrategy) (es fs : List Ev) :
    (run w l es).wm ≤ (run w l (es ++ fs)).wm := by
  induction fs generalizing es with
  | nil => simp
  | cons f fs ih =>
    have h := ih (es ++ [f])
    rw [List.append_assoc] at h
    exact Nat.le_trans (watermark_monotone w l es f) h

/-- Bounded out-of-orderness: at every moment the watermark is the largest timestamp offered so
far minus the allowed delay, not below zero (so in particular after each on-time event). -/
theorem bounded_watermark_eq (d : Nat) (l : LateStrategy) (es : List Ev) :
    (run (.bounded d) l es).wm = maxList (es.map (·.ts)) - d := by
  have h := run_inv (.bounded d) l es
  rw [h.wm (by simp), h.maxTs]; rfl

theorem monotonic_watermark_eq (l : LateStrategy) (es : List Ev) :
    (run .monotonic l es).wm = maxList (es.map (·.ts)) := by
  have h := run_inv .monotonic l es
  rw [h.wm (by simp), h.maxTs]; rfl

/-- An event is treated as late exactly when its timestamp is below the current watermark, and
its fate is the one the configured strategy prescribes — it ends up in exactly one place. -/
theorem fate_by_strategy (w : WmStrategy) (l : LateStrategy) (s : St) (e : Ev) :
    let s' := step w l s e
    match expectedOutcome l s.wm e.ts with
    | .accepted => s'.events = s.events ++ [e] ∧ s'.side = s.side ∧ s'.dropped = s.dropped
    | .dropped  => s'.events = s.events ∧ s'.side = s.side ∧ s'.dropped = s.dropped + 1
    | .side     => s'.events = s.events ∧ s'.side = s.side ++ [e] ∧ s'.dropped = s.dropped := by
  simp only [step, expectedOutcome]
  by_cases hl : e.ts < s.wm
  · simp only [hl, if_true]
    cases l with
    | drop => simp [handleLate]
    | allowed m => by_cases hc : s.wm - e.ts ≤ m <;> simp [handleLate, hc]
    | sideOutput => simp [handleLate]
    | recompute => simp [handleLate]
  · simp [hl, handleOnTime]

theorem late_counted_iff_below (w : WmStrategy) (l : LateStrategy) (s : St) (e : Ev) :
    (step w l s e).late = (if e.ts < s.wm then s.late + 1 else s.late) := by
  simp only [step]
  by_cases hl : e.ts < s.wm
  · simp only [hl, if_true]
    cases l with
    | allowed m => by_cases hc : s.wm - e.ts ≤ m <;> simp [handleLate, hc]
    | _ => simp [handleLate]
  · simp [hl, handleOnTime]

/-- Conservation: after any history, offered = accepted + dropped + side-output, and the late
statistics add up. -/
theorem conservation (w : WmStrategy) (l : LateStrategy) (es : List Ev) :
    let s := run w l es
    es.length = s.events.length + s.dropped + s.side.length ∧
    s.late = s.dropped + s.allowed + s.side.length := by
  have h := run_inv w l es
  exact ⟨by simpa using h.total, h.late⟩

/-- The watermark history is strictly increasing and ends at the current watermark. -/
theorem history_strictly_increasing (w : WmStrategy) (l : LateStrategy) (es : List Ev) :
    let s := run w l es
    strictInc s.history = true ∧ (∀ x ∈ s.history, x ≤ s.wm) ∧
    (s.wm ≠ 0 → ∃ pre, s.history = pre ++ [s.wm]) := by
  have h := run_inv w l es
  exact ⟨h.hist_inc, h.hist_le, h.hist_last⟩

/-- `Periodic`, for EVERY sequence of clock readings (the clock may stand still, jump or run
backwards): the watermark never exceeds the largest timestamp offered, and an on-time event
either leaves it unchanged or — exactly when the clock reading is at least `interval` past the
last emission — moves it to the largest timestamp offered so far. (Monotonicity, lateness,
fates, history and conservation are the general theorems above: they hold for `Periodic` too.) -/
theorem periodic_watermark_le_max (iv : Nat) (l : LateStrategy) (es : List Ev) :
    (run (.periodic iv) l es).wm ≤ maxList (es.map (·.ts)) := by
  have h := run_inv (.periodic iv) l es
  rw [← h.maxTs]; exact h.wm_le

theorem periodic_step (iv : Nat) (l : LateStrategy) (es : List Ev) (e : Ev)
    (hon : ¬ e.ts < (run (.periodic iv) l es).wm) :
    (if (run (.periodic iv) l es).lastEm ≤ e.now ∧ iv ≤ e.now - (run (.periodic iv) l es).lastEm
      then (run (.periodic iv) l (es ++ [e])).wm = maxList ((es ++ [e]).map (·.ts)) ∧
           (run (.periodic iv) l (es ++ [e])).lastEm = e.now
      else (run (.periodic iv) l (es ++ [e])).wm = (run (.periodic iv) l es).wm ∧
           (run (.periodic iv) l (es ++ [e])).lastEm = (run (.periodic iv) l es).lastEm) := by
  have h := run_inv (.periodic iv) l es
  have hrun : run (.periodic iv) l (es ++ [e]) = step (.periodic iv) l (run (.periodic iv) l es) e := by
    simp [run, List.foldl_append]
  have hle := h.wm_le
  have hmax : maxList ((es ++ [e]).map (·.ts)) =
      (if e.ts > (run (.periodic iv) l es).maxTs then e.ts else (run (.periodic iv) l es).maxTs) := by
    rw [List.map_append, List.map_cons, List.map_nil, maxList_append, ← h.maxTs]; split <;> omega
  rw [hrun, hmax, step, if_neg hon]
  generalize run (.periodic iv) l es = s at hon hle
  by_cases hf : s.lastEm ≤ e.now ∧ iv ≤ e.now - s.lastEm
  · rw [if_pos hf]
    have hF : periodicFires (.periodic iv) s.lastEm e.now = true := by simp [periodicFires, hf.1, hf.2]
    simp only [handleOnTime, hF, newWm, candidate, if_true]
    refine ⟨?_, trivial⟩
    split <;> split <;> omega
  · rw [if_neg hf]
    have hF : periodicFires (.periodic iv) s.lastEm e.now = false := by
      cases hp : periodicFires (.periodic iv) s.lastEm e.now with
      | false => rfl
      | true =>
        simp only [periodicFires, Bool.and_eq_true, decide_eq_true_eq] at hp
        exact absurd hp hf
    simp [handleOnTime, hF, newWm, candidate]

/-! Non-vacuity: a concrete run in which events are late, dropped, allowed and side-output. -/
def exEvents : List Ev := [⟨0, 10, 0⟩, ⟨1, 30, 3⟩, ⟨2, 5, 3⟩, ⟨3, 24, 9⟩, ⟨4, 50, 2⟩, ⟨5, 44, 20⟩]

example : (run (.bounded 5) (.allowed 3) exEvents).obs =
    { wm := 45, history := [5, 25, 45], events := [0, 1, 3, 4, 5], side := [],
      late := 3, dropped := 1, allowed := 2, sideCount := 0 } := by decide
example : (run (.bounded 5) .sideOutput exEvents).obs.side = [2, 3, 5] := by decide
example : (run .monotonic .drop exEvents).obs.dropped = 3 := by decide
-- Periodic, interval 5, clock 0,3,3,9,2,20: emissions at readings 9 and 20 only (the backwards reading 2 emits nothing)
example : (run (.periodic 5) .drop exEvents).obs.history = [30, 50] ∧ (run (.periodic 5) .drop exEvents).lastEm = 20 ∧
    (run (.periodic 5) .drop (exEvents ++ [⟨6, 7, 21⟩])).obs.dropped = 1 := by decide

end C13
