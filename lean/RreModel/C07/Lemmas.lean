import RreModel.C07.Spec
namespace C07

/-! ### the order -/

theorem rank_refl (a : Act) : rank a a = true := by simp [rank]

theorem rank_total (a b : Act) : rank a b = true ∨ rank b a = true := by
  simp only [rank, decide_eq_true_eq]; omega

theorem rank_trans {a b c : Act} (h1 : rank a b = true) (h2 : rank b c = true) : rank a c = true := by
  simp only [rank, decide_eq_true_eq] at *; omega

theorem rank_ordGe {a b : Act} (h : rank a b = true) : ordGe a b = true := by
  simp only [rank, ordGe, decide_eq_true_eq] at *; omega

theorem rank_of_not {a b : Act} (h : ¬ rank a b = true) : rank b a = true := by
  cases rank_total a b with
  | inl h' => exact absurd h' h
  | inr h' => exact h'

/-! ### extractBest = BinaryHeap::pop -/

theorem extractBest_none {l : List Act} (h : extractBest l = none) : l = [] := by
  cases l with
  | nil => rfl
  | cons a t =>
    simp only [extractBest] at h
    cases ht : extractBest t with
    | none => simp [ht] at h
    | some p => simp only [ht] at h; split at h <;> simp at h

theorem extractBest_spec {l : List Act} {m : Act} {r : List Act} (h : extractBest l = some (m, r)) :
    (∀ x, x ∈ l ↔ (x = m ∨ x ∈ r)) ∧ (∀ x ∈ l, rank m x = true) := by
  induction l generalizing m r with
  | nil => simp [extractBest] at h
  | cons a t ih =>
    simp only [extractBest] at h
    cases ht : extractBest t with
    | none =>
      have := extractBest_none ht
      subst this
      simp [ht] at h
      obtain ⟨rfl, rfl⟩ := h
      simp [rank_refl]
    | some p =>
      obtain ⟨m', r'⟩ := p
      obtain ⟨hm, hr⟩ := ih ht
      simp only [ht] at h
      by_cases hc : rank a m' = true
      · rw [if_pos hc] at h
        simp at h
        obtain ⟨rfl, rfl⟩ := h
        constructor
        · intro x
          simp only [List.mem_cons, hm x]
        · intro x hx
          simp only [List.mem_cons] at hx
          cases hx with
          | inl h1 => subst h1; exact rank_refl _
          | inr h1 => exact rank_trans hc (hr x h1)
      · rw [if_neg hc] at h
        simp at h
        obtain ⟨rfl, rfl⟩ := h
        constructor
        · intro x
          simp only [List.mem_cons, hm x]
          constructor
          · rintro (h1 | h1 | h1)
            · exact Or.inr (Or.inl h1)
            · exact Or.inl h1
            · exact Or.inr (Or.inr h1)
          · rintro (h1 | h1 | h1)
            · exact Or.inr (Or.inl h1)
            · exact Or.inl h1
            · exact Or.inr (Or.inr h1)
        · intro x hx
          simp only [List.mem_cons] at hx
          cases hx with
          | inl h1 => subst h1; exact rank_of_not hc
          | inr h1 => exact hr x h1

/-! ### the inner loop -/

theorem popEligibleF_spec (g : Agenda) (n : Nat) : ∀ (heap : List Act), heap.length ≤ n →
    (∀ a rest, popEligibleF g n heap = (some a, rest) →
        a ∈ heap ∧ eligible g a = true ∧ (∀ b ∈ heap, eligible g b = true → rank a b = true) ∧
        (∀ x ∈ rest, x ∈ heap ∧ rank a x = true) ∧ rest.length < heap.length) ∧
    (∀ rest, popEligibleF g n heap = (none, rest) → rest = [] ∧ ∀ b ∈ heap, eligible g b = false) := by
  induction n with
  | zero =>
    intro heap hl
    have : heap = [] := List.eq_nil_of_length_eq_zero (by omega)
    subst this
    simp [popEligibleF]
  | succ n ih =>
    intro heap hl
    simp only [popEligibleF]
    cases h : extractBest heap with
    | none =>
      have := extractBest_none h
      subst this
      simp
    | some p =>
      obtain ⟨m, rest⟩ := p
      obtain ⟨hm, hr⟩ := extractBest_spec h
      have hlen := extractBest_length h
      simp only
      by_cases he : eligible g m = true
      · rw [if_pos he]
        constructor
        · intro a rest' heq
          simp only [Prod.mk.injEq, Option.some.injEq] at heq
          obtain ⟨rfl, rfl⟩ := heq
          exact ⟨(hm m).2 (Or.inl rfl), he, fun b hb _ => hr b hb,
            fun x hx => ⟨(hm x).2 (Or.inr hx), hr x ((hm x).2 (Or.inr hx))⟩, by omega⟩
        · intro rest' heq; simp at heq
      · rw [if_neg he]
        obtain ⟨ih1, ih2⟩ := ih rest (by omega)
        constructor
        · intro a rest' heq
          obtain ⟨h1, h2, h3, h4, h5⟩ := ih1 a rest' heq
          refine ⟨(hm a).2 (Or.inr h1), h2, ?_, fun x hx => ⟨(hm x).2 (Or.inr (h4 x hx).1), (h4 x hx).2⟩, by omega⟩
          intro b hb heb
          cases (hm b).1 hb with
          | inl hbm => subst hbm; exact absurd heb he
          | inr hbr => exact h3 b hbr heb
        · intro rest' heq
          obtain ⟨h1, h2⟩ := ih2 rest' heq
          refine ⟨h1, ?_⟩
          intro b hb
          cases (hm b).1 hb with
          | inl hbm => subst hbm; simpa using he
          | inr hbr => exact h2 b hbr

theorem popEligible_spec (g : Agenda) (heap : List Act) :
    (∀ a rest, popEligible g heap = (some a, rest) →
        a ∈ heap ∧ eligible g a = true ∧ (∀ b ∈ heap, eligible g b = true → rank a b = true) ∧
        (∀ x ∈ rest, x ∈ heap ∧ rank a x = true) ∧ rest.length < heap.length) ∧
    (∀ rest, popEligible g heap = (none, rest) → rest = [] ∧ ∀ b ∈ heap, eligible g b = false) :=
  popEligibleF_spec g heap.length heap (Nat.le_refl _)

/-! ### the outer loop -/

def hasE (g : Agenda) (acts : List Act) (grp : Nat) : Bool := acts.any (fun a => inGroup grp a && eligible g a)

theorem hasEligible_eq (g : Agenda) : hasEligible g = hasE g g.acts := rfl

theorem hasE_false {g : Agenda} {acts : List Act} {c : Nat} :
    hasE g acts c = false ↔ ∀ b ∈ acts, inGroup c b = true → eligible g b = false := by
  simp [hasE]

theorem hasE_true {g : Agenda} {acts : List Act} {c : Nat} :
    hasE g acts c = true ↔ ∃ b ∈ acts, inGroup c b = true ∧ eligible g b = true := by
  simp [hasE]

theorem hasE_filter {g : Agenda} {acts : List Act} {f : Nat} (h : hasE g acts f = false) (c : Nat) :
    hasE g (acts.filter (fun x => !inGroup f x)) c = hasE g acts c := by
  rw [hasE_false] at h
  cases hc : hasE g acts c with
  | false =>
    rw [hasE_false] at hc ⊢
    intro b hb; exact hc b (List.mem_filter.1 hb).1
  | true =>
    rw [hasE_true] at hc ⊢
    obtain ⟨b, hb, h1, h2⟩ := hc
    refine ⟨b, List.mem_filter.2 ⟨hb, ?_⟩, h1, h2⟩
    cases hf : inGroup f b with
    | false => rfl
    | true => have := h b hb hf; simp [this] at h2

theorem filter_split_length (p : Act → Bool) (l : List Act) :
    (l.filter (fun x => !p x)).length + (l.filter p).length = l.length := by
  induction l with
  | nil => rfl
  | cons y ys ih =>
    simp only [List.filter_cons]
    cases p y <;> simp <;> omega

structure NextSpec (g : Agenda) (acts : List Act) (focus : Nat) (stack : List Nat)
    (R : Option Act × List Act × Nat × List Nat) : Prop where
  sub : ∀ x ∈ R.2.1, x ∈ acts
  some_ : ∀ a, R.1 = some a →
    firstWith (hasE g acts) (focus :: stack) = some R.2.2.1 ∧ a ∈ acts ∧ inGroup R.2.2.1 a = true ∧
    eligible g a = true ∧ (∀ b ∈ acts, inGroup R.2.2.1 b = true → eligible g b = true → rank a b = true) ∧
    (∀ x ∈ R.2.1, inGroup R.2.2.1 x = true → rank a x = true) ∧ R.2.1.length < acts.length
  none_ : R.1 = none → firstWith (hasE g acts) (focus :: stack) = none ∧ R.2.2.1 = lastOf focus stack

theorem popEligible_cases (g : Agenda) (heap : List Act) :
    (∃ a rest, popEligible g heap = (some a, rest)) ∨ (∃ rest, popEligible g heap = (none, rest)) := by
  rcases h : popEligible g heap with ⟨_ | a, rest⟩
  · exact Or.inr ⟨rest, rfl⟩
  · exact Or.inl ⟨a, rest, rfl⟩

theorem found_spec (g : Agenda) (acts : List Act) (focus : Nat) (stack : List Nat) (a : Act) (rest : List Act)
    (h : popEligible g (acts.filter (inGroup focus)) = (some a, rest)) :
    NextSpec g acts focus stack (some a, acts.filter (fun x => !inGroup focus x) ++ rest, focus, stack) := by
  obtain ⟨h1, h2, h3, h4, h5⟩ := (popEligible_spec g _).1 a rest h
  have ha := List.mem_filter.1 h1
  constructor
  · intro x hx
    simp only [List.mem_append] at hx
    cases hx with
    | inl hx => exact (List.mem_filter.1 hx).1
    | inr hx => exact (List.mem_filter.1 (h4 x hx).1).1
  · intro a' heq
    simp only [Option.some.injEq] at heq
    subst heq
    refine ⟨?_, ha.1, ha.2, h2, ?_, ?_, ?_⟩
    · have : hasE g acts focus = true := hasE_true.2 ⟨a, ha.1, ha.2, h2⟩
      simp [firstWith, this]
    · intro b hb hg he
      exact h3 b (List.mem_filter.2 ⟨hb, hg⟩) he
    · intro x hx hg
      simp only [List.mem_append] at hx
      cases hx with
      | inl hx => have := (List.mem_filter.1 hx).2; simp [hg] at this
      | inr hx => exact (h4 x hx).2
    · have hlen := filter_split_length (inGroup focus) acts
      simp only [List.length_append]
      omega
  · intro heq; simp at heq

theorem getNextAux_spec (g : Agenda) (stack : List Nat) : ∀ (acts : List Act) (focus : Nat),
    NextSpec g acts focus stack (getNextAux g acts focus stack) := by
  induction stack with
  | nil =>
    intro acts focus
    rcases popEligible_cases g (acts.filter (inGroup focus)) with ⟨a, rest, h⟩ | ⟨rest, h⟩
    · simp only [getNextAux, h]; exact found_spec g acts focus [] a rest h
    · simp only [getNextAux, h]
      obtain ⟨_, h2⟩ := (popEligible_spec g _).2 rest h
      constructor
      · intro x hx; exact (List.mem_filter.1 hx).1
      · intro a heq; simp at heq
      · intro _
        have : hasE g acts focus = false := hasE_false.2 (fun b hb hg => h2 b (List.mem_filter.2 ⟨hb, hg⟩))
        simp [firstWith, this, lastOf]
  | cons f st ih =>
    intro acts focus
    rcases popEligible_cases g (acts.filter (inGroup focus)) with ⟨a, rest, h⟩ | ⟨rest, h⟩
    · simp only [getNextAux, h]; exact found_spec g acts focus (f :: st) a rest h
    · simp only [getNextAux, h]
      obtain ⟨_, h2⟩ := (popEligible_spec g _).2 rest h
      have hno : hasE g acts focus = false := hasE_false.2 (fun b hb hg => h2 b (List.mem_filter.2 ⟨hb, hg⟩))
      have hf := hasE_filter hno
      have IH := ih (acts.filter (fun x => !inGroup focus x)) f
      have hfw : firstWith (hasE g acts) (focus :: f :: st) =
          firstWith (hasE g (acts.filter (fun x => !inGroup focus x))) (f :: st) := by
        have : hasE g (acts.filter (fun x => !inGroup focus x)) = hasE g acts := funext hf
        rw [this]; simp [firstWith, hno]
      constructor
      · intro x hx; exact (List.mem_filter.1 (IH.sub x hx)).1
      · intro a heq
        obtain ⟨h1, h3, h4, h5, h6, h7, h8⟩ := IH.some_ a heq
        refine ⟨by rw [hfw]; exact h1, (List.mem_filter.1 h3).1, h4, h5, ?_, h7, ?_⟩
        · intro b hb hg he
          apply h6 b (List.mem_filter.2 ⟨hb, ?_⟩) hg he
          cases hfb : inGroup focus b with
          | false => rfl
          | true => have := hasE_false.1 hno b hb hfb; simp [this] at he
        · have : (acts.filter (fun x => !inGroup focus x)).length ≤ acts.length := List.length_filter_le _ _
          omega
      · intro heq
        obtain ⟨h1, h3⟩ := IH.none_ heq
        exact ⟨by rw [hfw]; exact h1, by simpa [lastOf] using h3⟩

/-- what `get_next_activation` does, in terms of the state before the call -/
theorem getNext_spec (g : Agenda) :
    NextSpec g g.acts g.focus g.stack (g.getNext.1, g.getNext.2.acts, g.getNext.2.focus, g.getNext.2.stack) := by
  have := getNextAux_spec g g.stack g.acts g.focus
  simpa [Agenda.getNext] using this

theorem getNext_sets (g : Agenda) : g.getNext.2.fired = g.fired ∧ g.getNext.2.firedAG = g.firedAG ∧
    g.getNext.2.locked = g.locked ∧ g.getNext.2.activeRf = g.activeRf ∧ g.getNext.2.nextId = g.nextId := by
  simp [Agenda.getNext]

/-! ### the observation-level clauses hold of `getNext` -/

@[simp] theorem noId_fields (a : Act) : (noId a).rule = a.rule ∧ (noId a).sal = a.sal ∧ (noId a).ag = a.ag ∧
    (noId a).actg = a.actg ∧ (noId a).noLoop = a.noLoop ∧ (noId a).lock = a.lock ∧ (noId a).created = a.created :=
  ⟨rfl, rfl, rfl, rfl, rfl, rfl, rfl⟩

theorem eligible_noId (g : Agenda) (a : Act) : eligible g (noId a) = eligible g a := rfl
theorem inGroup_noId (f : Nat) (a : Act) : inGroup f (noId a) = inGroup f a := rfl
theorem ordGe_noId (a b : Act) : ordGe (noId a) b = ordGe a b := rfl
theorem mark_noId (g : Agenda) (a : Act) : g.mark (noId a) = g.mark a := rfl

theorem eligible_parts {g : Agenda} {a : Act} (h : eligible g a = true) :
    okNoLoop g a = true ∧ okActGroup g a = true ∧ okLock g a = true := by
  simp only [eligible, Bool.and_eq_true] at h
  exact ⟨h.1.1, h.2, h.1.2⟩

theorem popOk_getNext (g : Agenda) : popOk g (g.getNext.1.map noId) g.getNext.2.focus = true := by
  have S := getNext_spec g
  cases h : g.getNext.1 with
  | none =>
    obtain ⟨h1, h2⟩ := S.none_ h
    simp only [popOk, Option.map_none, okFocus, hasEligible_eq, Bool.and_true, Bool.and_eq_true, beq_iff_eq]
    simp only at h1 h2
    exact ⟨h1, h2⟩
  | some a =>
    obtain ⟨h1, h2, h3, h4, h5, _, _⟩ := S.some_ a h
    simp only at h1 h2 h3 h5
    obtain ⟨e1, e2, e3⟩ := eligible_parts h4
    simp only [popOk, Option.map_some, okFocus, hasEligible_eq, Bool.and_eq_true, beq_iff_eq]
    refine ⟨h1, ⟨⟨⟨⟨?_, ?_⟩, ?_⟩, ?_⟩, ?_⟩⟩
    · simp only [okMember, Bool.and_eq_true, List.any_eq_true, beq_iff_eq]
      exact ⟨⟨a, h2, rfl⟩, h3⟩
    · exact e1
    · exact e2
    · exact e3
    · simp only [okMax, List.all_eq_true, Bool.or_eq_true, Bool.not_eq_true', Bool.and_eq_false_iff]
      intro b hb
      cases hg : inGroup g.getNext.2.focus b with
      | false => exact Or.inl (Or.inl rfl)
      | true =>
        cases he : eligible g b with
        | false => exact Or.inl (Or.inr rfl)
        | true => exact Or.inr (by rw [ordGe_noId]; exact rank_ordGe (h5 b hb hg he))

theorem mark_focus (g : Agenda) (a : Act) : (g.mark a).focus = g.focus ∧ (g.mark a).acts = g.acts ∧
    (g.mark a).stack = g.stack ∧ (g.mark a).activeRf = g.activeRf ∧ (g.mark a).nextId = g.nextId := by
  simp [Agenda.mark]

theorem stepOk_model (g : Agenda) (op : Op) : stepOk g op (obsOf op (step g op).1 (step g op).2) = true := by
  have hs : statsOk (step g op).1 (obsOf op (step g op).1 (step g op).2) = true := by simp [statsOk, obsOf]
  simp only [stepOk, hs, Bool.and_true]
  cases op with
  | pop => simp only [obsOf, isPop, if_true, step, Bool.true_and]; exact popOk_getNext g
  | popMark =>
    simp only [obsOf, isPop, if_true, Bool.true_and]
    have := popOk_getNext g
    cases h : g.getNext.1 with
    | none => simp only [step, h]; simpa [h] using this
    | some a => simp only [step, h, (mark_focus _ a).1]; simpa [h] using this
  | _ => simp [obsOf, isPop]

theorem runOk_trace (g : Agenda) (ops : List Op) : runOk g ops (trace g ops) = true := by
  induction ops generalizing g with
  | nil => rfl
  | cons op ops ih => simp only [trace, runOk, stepOk_model, ih, Bool.and_self]

/-! ### the tie-insensitive oracle -/

structure Rel (g w : Agenda) : Prop where
  fired : g.fired = w.fired
  firedAG : g.firedAG = w.firedAG
  locked : g.locked = w.locked
  activeRf : g.activeRf = w.activeRf
  nextId : g.nextId = w.nextId
  sub : ∀ a ∈ g.acts, a ∈ w.acts

theorem rel_eligible {g w : Agenda} (h : Rel g w) (a : Act) : eligible w a = eligible g a := by
  simp [eligible, h.fired, h.firedAG, h.locked]

theorem setFocus_keeps (g : Agenda) (x : Nat) : (g.setFocus x).acts = g.acts ∧ (g.setFocus x).fired = g.fired ∧
    (g.setFocus x).firedAG = g.firedAG ∧ (g.setFocus x).locked = g.locked ∧ (g.setFocus x).activeRf = g.activeRf ∧
    (g.setFocus x).nextId = g.nextId := by
  unfold Agenda.setFocus; split <;> simp

theorem addCore_fields (g : Agenda) (a : Act) :
    (g.addCore a).acts = (if optIn a.actg g.firedAG || optNotIn a.rfg g.activeRf then g.acts
                      else g.acts ++ [{ a with id := g.nextId }]) ∧
    (g.addCore a).nextId = (if optIn a.actg g.firedAG || optNotIn a.rfg g.activeRf then g.nextId else g.nextId + 1) ∧
    (g.addCore a).fired = g.fired ∧ (g.addCore a).firedAG = g.firedAG ∧ (g.addCore a).locked = g.locked ∧
    (g.addCore a).activeRf = g.activeRf ∧ (g.addCore a).focus = g.focus ∧ (g.addCore a).stack = g.stack := by
  unfold Agenda.addCore
  split <;> simp

/-- `add_activation` in terms of the fields it reads -/
theorem add_fields (g : Agenda) (a : Act) :
    (g.add a).acts = (if optIn a.actg g.firedAG || optNotIn a.rfg g.activeRf then g.acts
                      else g.acts ++ [{ a with id := g.nextId }]) ∧
    (g.add a).nextId = (if optIn a.actg g.firedAG || optNotIn a.rfg g.activeRf then g.nextId else g.nextId + 1) ∧
    (g.add a).fired = g.fired ∧ (g.add a).firedAG = g.firedAG ∧ (g.add a).locked = g.locked ∧
    (g.add a).activeRf = g.activeRf := by
  unfold Agenda.add
  by_cases hc : (a.autoFocus && a.ag != g.focus) = true
  · obtain ⟨k1, k2, k3, k4, k5, k6⟩ := setFocus_keeps g a.ag
    obtain ⟨c1, c2, c3, c4, c5, c6, _, _⟩ := addCore_fields (g.setFocus a.ag) a
    rw [if_pos hc, c1, c2, c3, c4, c5, c6, k1, k2, k3, k4, k5, k6]
    exact ⟨rfl, rfl, rfl, rfl, rfl, rfl⟩
  · obtain ⟨c1, c2, c3, c4, c5, c6, _, _⟩ := addCore_fields g a
    rw [if_neg hc, c1, c2, c3, c4, c5, c6]
    exact ⟨rfl, rfl, rfl, rfl, rfl, rfl⟩

theorem rel_add {g w : Agenda} (h : Rel g w) (a : Act) : Rel (g.add a) (w.add a) := by
  obtain ⟨g1, g2, g3, g4, g5, g6⟩ := add_fields g a
  obtain ⟨w1, w2, w3, w4, w5, w6⟩ := add_fields w a
  constructor
  · rw [g3, w3]; exact h.fired
  · rw [g4, w4]; exact h.firedAG
  · rw [g5, w5]; exact h.locked
  · rw [g6, w6]; exact h.activeRf
  · rw [g2, w2, h.firedAG, h.activeRf, h.nextId]
  · rw [g1, w1, h.firedAG, h.activeRf, h.nextId]
    split
    · exact h.sub
    · intro x hx
      simp only [List.mem_append, List.mem_singleton] at hx ⊢
      cases hx with
      | inl hx => exact Or.inl (h.sub x hx)
      | inr hx => exact Or.inr hx

theorem rel_mark {g w : Agenda} (h : Rel g w) (a : Act) : Rel (g.mark a) (w.mark a) := by
  constructor <;> simp only [Agenda.mark, h.fired, h.firedAG, h.locked, h.activeRf, h.nextId]
  exact h.sub

theorem rel_getNext {g w : Agenda} (h : Rel g w) : Rel g.getNext.2 w := by
  obtain ⟨s1, s2, s3, s4, s5⟩ := getNext_sets g
  constructor
  · rw [s1]; exact h.fired
  · rw [s2]; exact h.firedAG
  · rw [s3]; exact h.locked
  · rw [s4]; exact h.activeRf
  · rw [s5]; exact h.nextId
  · intro a ha; exact h.sub a ((getNext_spec g).sub a ha)

theorem rel_step_nonpop {g w : Agenda} (h : Rel g w) (op : Op) (hp : isPop op = false) :
    Rel (step g op).1 (step w op).1 := by
  cases op with
  | pop => simp [isPop] at hp
  | popMark => simp [isPop] at hp
  | add a => exact rel_add h a
  | mark a => exact rel_mark h a
  | focus x =>
    obtain ⟨k1, k2, k3, k4, k5, k6⟩ := setFocus_keeps g x
    obtain ⟨l1, l2, l3, l4, l5, l6⟩ := setFocus_keeps w x
    constructor <;> simp only [step, k1, k2, k3, k4, k5, k6, l1, l2, l3, l4, l5, l6]
    · exact h.fired
    · exact h.firedAG
    · exact h.locked
    · exact h.activeRf
    · exact h.nextId
    · exact h.sub
  | reset => constructor <;> simp [step, Agenda.reset, h.activeRf, h.nextId]; exact h.sub
  | clear => constructor <;> simp [step, Agenda.clear, h.activeRf, h.nextId]
  | rfOn x => constructor <;> simp [step, Agenda.activateRf, h.fired, h.firedAG, h.locked, h.activeRf, h.nextId]; exact h.sub
  | rfOff x => constructor <;> simp [step, Agenda.deactivateRf, h.fired, h.firedAG, h.locked, h.activeRf, h.nextId]; exact h.sub
  | strategy => exact h

theorem wstep_model {g w : Agenda} (h : Rel g w) (op : Op) :
    ∃ w', wstep w op (obsOf op (step g op).1 (step g op).2) = some w' ∧ Rel (step g op).1 w' := by
  by_cases hp : isPop op = true
  · have S := getNext_spec g
    have hop : op = .pop ∨ op = .popMark := by cases op <;> simp [isPop] at hp <;> simp
    cases hg : g.getNext.1 with
    | none =>
      refine ⟨w, ?_, ?_⟩
      · rcases hop with rfl | rfl <;> simp [wstep, obsOf, isPop, step, hg]
      · rcases hop with rfl | rfl <;> simp only [step, hg] <;> exact rel_getNext h
    | some a =>
      obtain ⟨_, h2, h3, h4, _, _, _⟩ := S.some_ a hg
      simp only at h2 h3
      have hmem : (w.acts.any (fun x => noId x == noId a)) = true := by
        simp only [List.any_eq_true, beq_iff_eq]; exact ⟨a, h.sub a h2, rfl⟩
      have hel : eligible w (noId a) = true := by rw [eligible_noId, rel_eligible h]; exact h4
      rcases hop with rfl | rfl
      · refine ⟨w, ?_, ?_⟩
        · simp [wstep, obsOf, isPop, step, hg, hmem, hel, inGroup_noId, h3]
        · simp only [step]; exact rel_getNext h
      · refine ⟨w.mark a, ?_, ?_⟩
        · simp [wstep, obsOf, isPop, step, hg, hmem, hel, inGroup_noId, h3, (mark_focus _ a).1, mark_noId]
        · simp only [step, hg]; exact rel_mark (rel_getNext h) a
  · have hp' : isPop op = false := by simpa using hp
    refine ⟨(step w op).1, ?_, rel_step_nonpop h op hp'⟩
    simp [wstep, obsOf, hp']

theorem runOkWeak_trace {g w : Agenda} (h : Rel g w) (ops : List Op) : runOkWeak w ops (trace g ops) = true := by
  induction ops generalizing g w with
  | nil => rfl
  | cons op ops ih =>
    obtain ⟨w', h1, h2⟩ := wstep_model h op
    simp only [trace, runOkWeak, h1]
    exact ih h2

theorem rel_refl (g : Agenda) : Rel g g := ⟨rfl, rfl, rfl, rfl, rfl, fun _ h => h⟩

/-! ### runs of pops, fired sets along histories -/

def noAdd : Op → Bool
  | .add _ => false
  | _ => true

def noReset : Op → Bool
  | .reset => false
  | .clear => false
  | _ => true

/-- the activations returned along a history, in order -/
def popped (g : Agenda) : List Op → List Act
  | [] => []
  | op :: ops =>
    match (step g op).2 with
    | some a => a :: popped (step g op).1 ops
    | none => popped (step g op).1 ops

theorem step_result (g : Agenda) (op : Op) (a : Act) (h : (step g op).2 = some a) :
    g.getNext.1 = some a ∧ (step g op).1.acts = g.getNext.2.acts := by
  cases op with
  | pop => exact ⟨h, rfl⟩
  | popMark =>
    cases hg : g.getNext.1 with
    | none => simp [step, hg] at h
    | some b =>
      simp only [step, hg] at h ⊢
      simp only [Option.some.injEq] at h
      subst h
      exact ⟨rfl, (mark_focus _ _).2.1⟩
  | _ => simp [step] at h

theorem step_sub (g : Agenda) (op : Op) (h : noAdd op = true) : ∀ x ∈ (step g op).1.acts, x ∈ g.acts := by
  have S := (getNext_spec g).sub
  simp only at S
  cases op with
  | add a => simp [noAdd] at h
  | pop => exact S
  | popMark =>
    cases hg : g.getNext.1 with
    | none => simp only [step, hg]; exact S
    | some b => simp only [step, hg, (mark_focus _ _).2.1]; exact S
  | mark a => simp [step, Agenda.mark]
  | focus x => simp only [step, (setFocus_keeps g x).1]; exact fun _ h => h
  | reset => simp [step, Agenda.reset]
  | clear => simp [step, Agenda.clear]
  | rfOn x => simp [step, Agenda.activateRf]
  | rfOff x => simp [step, Agenda.deactivateRf]
  | strategy => simp [step]

theorem popped_mem (g : Agenda) (ops : List Op) (h : ops.all noAdd = true) : ∀ b ∈ popped g ops, b ∈ g.acts := by
  induction ops generalizing g with
  | nil => simp [popped]
  | cons op ops ih =>
    simp only [List.all_cons, Bool.and_eq_true] at h
    intro b hb
    simp only [popped] at hb
    have hsub := step_sub g op h.1
    cases hr : (step g op).2 with
    | none => rw [hr] at hb; exact hsub b (ih _ h.2 b hb)
    | some a =>
      rw [hr] at hb
      simp only [List.mem_cons] at hb
      cases hb with
      | inl hb =>
        subst hb
        have := ((getNext_spec g).some_ b (step_result g op b hr).1).2.1
        exact this
      | inr hb => exact hsub b (ih _ h.2 b hb)

theorem pop_below (g : Agenda) (op : Op) (a : Act) (h : (step g op).2 = some a) :
    ∀ x ∈ (step g op).1.acts, x.ag = a.ag → rank a x = true := by
  obtain ⟨h1, h2⟩ := step_result g op a h
  obtain ⟨_, _, h3, _, _, h6, _⟩ := (getNext_spec g).some_ a h1
  simp only at h3 h6
  intro x hx hag
  rw [h2] at hx
  apply h6 x hx
  simp only [inGroup, beq_iff_eq] at h3 ⊢
  omega

theorem mem_setInsert {x y : Nat} {l : List Nat} : y ∈ setInsert x l ↔ (y = x ∨ y ∈ l) := by
  unfold setInsert
  split
  · rename_i h
    simp only [List.contains_iff_mem] at h
    constructor
    · exact Or.inr
    · rintro (rfl | h') <;> assumption
  · simp only [List.mem_append, List.mem_singleton]
    constructor
    · rintro (h | h); exact Or.inr h; exact Or.inl h
    · rintro (h | h); exact Or.inr h; exact Or.inl h

theorem step_fired_mono (g : Agenda) (op : Op) (h : noReset op = true) :
    (∀ r ∈ g.fired, r ∈ (step g op).1.fired) ∧ (∀ r ∈ g.firedAG, r ∈ (step g op).1.firedAG) := by
  obtain ⟨s1, s2, _, _, _⟩ := getNext_sets g
  cases op with
  | reset => simp [noReset] at h
  | clear => simp [noReset] at h
  | add a => obtain ⟨_, _, g3, g4, _, _⟩ := add_fields g a; simp only [step, g3, g4]; exact ⟨fun _ h => h, fun _ h => h⟩
  | pop => simp only [step, s1, s2]; exact ⟨fun _ h => h, fun _ h => h⟩
  | popMark =>
    cases hg : g.getNext.1 with
    | none => simp only [step, hg, s1, s2]; exact ⟨fun _ h => h, fun _ h => h⟩
    | some b =>
      simp only [step, hg, Agenda.mark, s1, s2]
      refine ⟨fun r hr => mem_setInsert.2 (Or.inr hr), fun r hr => ?_⟩
      cases b.actg with
      | none => exact hr
      | some x => exact mem_setInsert.2 (Or.inr hr)
  | mark b =>
    simp only [step, Agenda.mark]
    refine ⟨fun r hr => mem_setInsert.2 (Or.inr hr), fun r hr => ?_⟩
    cases b.actg with
    | none => exact hr
    | some x => exact mem_setInsert.2 (Or.inr hr)
  | focus x => obtain ⟨_, k2, k3, _⟩ := setFocus_keeps g x; simp only [step, k2, k3]; exact ⟨fun _ h => h, fun _ h => h⟩
  | rfOn x => simp [step, Agenda.activateRf]
  | rfOff x => simp [step, Agenda.deactivateRf]
  | strategy => simp [step]

theorem run_fired_mono (g : Agenda) (ops : List Op) (h : ops.all noReset = true) :
    (∀ r ∈ g.fired, r ∈ (run g ops).fired) ∧ (∀ r ∈ g.firedAG, r ∈ (run g ops).firedAG) := by
  induction ops generalizing g with
  | nil => exact ⟨fun _ h => h, fun _ h => h⟩
  | cons op ops ih =>
    simp only [List.all_cons, Bool.and_eq_true] at h
    obtain ⟨m1, m2⟩ := step_fired_mono g op h.1
    obtain ⟨i1, i2⟩ := ih (step g op).1 h.2
    exact ⟨fun r hr => i1 r (m1 r hr), fun r hr => i2 r (m2 r hr)⟩

/-! ### the loops: number of firings -/

theorem incLoop_length {σ : Type} (pop : σ → Option Act × σ) (skip : σ → Act → Bool) (size : σ → Nat)
    (body : σ → Act → σ × Nat) :
    ∀ (fuel : Nat) (s : σ) (out : List Nat), (incLoop pop skip size body fuel s out).2.length ≤ out.length + fuel := by
  intro fuel
  induction fuel with
  | zero =>
    intro s out
    unfold incLoop
    rcases incSkip pop skip (size s) s with ⟨_ | a, s'⟩ <;> simp
  | succ n ih =>
    intro s out
    unfold incLoop
    rcases incSkip pop skip (size s) s with ⟨_ | a, s'⟩
    · simp
    · simp only
      have := ih (body s' a).1 (out ++ [(body s' a).2])
      refine Nat.le_trans this ?_
      simp; omega

theorem incSkip_fuel2 {σ : Type} (pop : σ → Option Act × σ) (skip : σ → Act → Bool) (size : σ → Nat)
    (hpop : ∀ s a s', pop s = (some a, s') → size s' < size s) (hnone : ∀ s, size s = 0 → (pop s).1 = none) :
    ∀ (k1 k2 : Nat) (s : σ), size s ≤ k1 → size s ≤ k2 → incSkip pop skip k1 s = incSkip pop skip k2 s := by
  have hz : ∀ (k : Nat) (s : σ), size s = 0 → incSkip pop skip k s = (none, (pop s).2) := by
    intro k s hs
    cases k with
    | zero => rfl
    | succ k =>
      simp only [incSkip]
      have h0 := hnone s hs
      rcases hp : pop s with ⟨_ | a, s'⟩
      · rfl
      · rw [hp] at h0; simp at h0
  intro k1
  induction k1 with
  | zero =>
    intro k2 s h1 _
    rw [hz 0 s (by omega), hz k2 s (by omega)]
  | succ k1 ih =>
    intro k2 s h1 h2
    cases k2 with
    | zero => rw [hz _ s (by omega), hz 0 s (by omega)]
    | succ k2 =>
      simp only [incSkip]
      rcases hp : pop s with ⟨_ | a, s'⟩
      · rfl
      · simp only
        have hlt := hpop s a s' hp
        split
        · exact ih k2 s' (by omega) (by omega)
        · rfl

/-- the inner loop is not cut short by its fuel: when every successful pop removes an activation (`size` decreases), any fuel of
at least `size s` gives the same result — the skipping steps terminate on their own -/
theorem incSkip_fuel {σ : Type} (pop : σ → Option Act × σ) (skip : σ → Act → Bool) (size : σ → Nat)
    (hpop : ∀ s a s', pop s = (some a, s') → size s' < size s) (hnone : ∀ s, size s = 0 → (pop s).1 = none)
    (k : Nat) (s : σ) (h : size s ≤ k) : incSkip pop skip k s = incSkip pop skip (size s) s :=
  incSkip_fuel2 pop skip size hpop hnone k (size s) s h (Nat.le_refl _)

theorem insertByPrio_length (i : Nat) (p : Int) (l : List (Nat × Int)) : (insertByPrio i p l).length = l.length + 1 := by
  induction l with
  | nil => rfl
  | cons x t ih =>
    obtain ⟨j, q⟩ := x
    simp only [insertByPrio]
    split <;> simp [ih]

theorem sortAgenda_length (idx : List (Nat × Int)) : (sortAgenda idx).length = idx.length := by
  have : ∀ (l acc : List (Nat × Int)),
      (l.foldl (fun acc x => insertByPrio x.1 x.2 acc) acc).length = acc.length + l.length := by
    intro l
    induction l with
    | nil => simp
    | cons x t ih => intro acc; simp only [List.foldl_cons, ih, insertByPrio_length, List.length_cons]; omega
  simpa [sortAgenda] using this idx []

theorem selectIdx_length {σ : Type} (keep : URule σ → Bool) (i : Nat) (rs : List (URule σ)) :
    (selectIdx keep i rs).length ≤ rs.length := by
  induction rs generalizing i with
  | nil => simp [selectIdx]
  | cons r rs ih =>
    simp only [selectIdx]
    split
    · simp only [List.length_cons]; have := ih (i + 1); omega
    · simp only [List.length_cons]; have := ih (i + 1); omega

theorem ulFirePass_length {σ : Type} (rules : List (URule σ)) (sf : Nat → σ → σ) (isF : Nat → σ → Bool) :
    ∀ (ag : List (Nat × Int)) (s : σ) (flags out : List Nat),
      (ulFirePass rules sf isF ag s flags out).2.2.length ≤ out.length + ag.length := by
  intro ag
  induction ag with
  | nil => intro s flags out; simp [ulFirePass]
  | cons x t ih =>
    intro s flags out
    obtain ⟨i, p⟩ := x
    simp only [ulFirePass]
    cases rules[i]? with
    | none => simp only [List.length_cons]; have := ih s flags out; omega
    | some r =>
      simp only [List.length_cons]
      split
      · have := ih s flags out; omega
      · have := ih (sf r.name (r.act s)) (setInsert r.name flags) (out ++ [r.name])
        simp only [List.length_append, List.length_singleton] at this
        omega

theorem ulLoop_length {σ : Type} (rules : List (URule σ)) (sf : Nat → σ → σ) (isF : Nat → σ → Bool) :
    ∀ (fuel : Nat) (s : σ) (flags out : List Nat),
      (ulLoop rules sf isF fuel s flags out).2.length ≤ out.length + fuel * rules.length := by
  intro fuel
  induction fuel with
  | zero => intro s flags out; simp [ulLoop]
  | succ n ih =>
    intro s flags out
    simp only [ulLoop]
    split
    · simp
    · have hp := ulFirePass_length rules sf isF
        (sortAgenda (selectIdx (fun r => !flags.contains r.name && !(r.noLoop && isF r.name s) && r.cond s) 0 rules)) s flags out
      rw [sortAgenda_length] at hp
      have hs := selectIdx_length (fun r : URule σ => !flags.contains r.name && !(r.noLoop && isF r.name s) && r.cond s) 0 rules
      have hmul : (n + 1) * rules.length = n * rules.length + rules.length := Nat.succ_mul _ _
      split
      · dsimp only; omega
      · have := ih (ulFirePass rules sf isF (sortAgenda (selectIdx (fun r => !flags.contains r.name && !(r.noLoop && isF r.name s) && r.cond s) 0 rules)) s flags out).1
          (ulFirePass rules sf isF (sortAgenda (selectIdx (fun r => !flags.contains r.name && !(r.noLoop && isF r.name s) && r.cond s) 0 rules)) s flags out).2.1
          (ulFirePass rules sf isF (sortAgenda (selectIdx (fun r => !flags.contains r.name && !(r.noLoop && isF r.name s) && r.cond s) 0 rules)) s flags out).2.2
        omega

theorem typedFirePass_length {σ : Type} (rules : List (URule σ)) (sf : Nat → σ → σ) (isF : Nat → σ → Bool) :
    ∀ (ag : List (Nat × Int)) (s : σ) (flags out : List Nat) (ch : Bool),
      (typedFirePass rules sf isF ag s flags out ch).2.2.1.length ≤ out.length + ag.length := by
  intro ag
  induction ag with
  | nil => intro s flags out ch; simp [typedFirePass]
  | cons x t ih =>
    intro s flags out ch
    obtain ⟨i, p⟩ := x
    simp only [typedFirePass]
    cases rules[i]? with
    | none => simp only [List.length_cons]; have := ih s flags out ch; omega
    | some r =>
      simp only [List.length_cons]
      split
      · have := ih s flags out ch; omega
      · have := ih (sf r.name (r.act s)) (setInsert r.name flags) (out ++ [r.name]) true
        simp only [List.length_append, List.length_singleton] at this
        omega

theorem typedLoop_length {σ : Type} (rules : List (URule σ)) (sf : Nat → σ → σ) (isF : Nat → σ → Bool) :
    ∀ (fuel : Nat) (s : σ) (flags out : List Nat),
      (typedLoop rules sf isF fuel s flags out).2.length ≤ out.length + fuel * rules.length := by
  intro fuel
  induction fuel with
  | zero => intro s flags out; simp [typedLoop]
  | succ n ih =>
    intro s flags out
    simp only [typedLoop]
    have hp := typedFirePass_length rules sf isF
      (sortAgenda (selectIdx (fun r => (!r.noLoop || !(flags.contains r.name || isF r.name s)) && r.cond s) 0 rules)) s flags out false
    rw [sortAgenda_length] at hp
    have hs := selectIdx_length (fun r : URule σ => (!r.noLoop || !(flags.contains r.name || isF r.name s)) && r.cond s) 0 rules
    have hmul : (n + 1) * rules.length = n * rules.length + rules.length := Nat.succ_mul _ _
    split
    · have := ih (typedFirePass rules sf isF (sortAgenda (selectIdx (fun r => (!r.noLoop || !(flags.contains r.name || isF r.name s)) && r.cond s) 0 rules)) s flags out false).1
        (typedFirePass rules sf isF (sortAgenda (selectIdx (fun r => (!r.noLoop || !(flags.contains r.name || isF r.name s)) && r.cond s) 0 rules)) s flags out false).2.1
        (typedFirePass rules sf isF (sortAgenda (selectIdx (fun r => (!r.noLoop || !(flags.contains r.name || isF r.name s)) && r.cond s) 0 rules)) s flags out false).2.2.1
      omega
    · dsimp only; omega

theorem toURules_length (i : Nat) (rs : List CRule) : (toURules i rs).length = rs.length := by
  induction rs generalizing i with
  | nil => rfl
  | cons r rs ih => simp [toURules, ih]

/-! ### engine histories: the no-loop clause over several `fire_all` calls on one engine -/

/-- the flag an activation carries is the flag of its rule -/
def FlagOk (rules : List CRule) (a : Act) : Prop := a.noLoop = isNoLoopOf rules a.rule

theorem enumFrom_get {α : Type} : ∀ (l : List α) (k i : Nat) (x : α), (i, x) ∈ enumFrom k l → k ≤ i ∧ l[i - k]? = some x := by
  intro l
  induction l with
  | nil => intro k i x h; simp [enumFrom] at h
  | cons y ys ih =>
    intro k i x h
    simp only [enumFrom, List.mem_cons, Prod.mk.injEq] at h
    rcases h with ⟨h1, h2⟩ | h
    · subst h1; subst h2; simp
    · obtain ⟨k1, k2⟩ := ih (k + 1) i x h
      refine ⟨by omega, ?_⟩
      have : i - k = (i - (k + 1)) + 1 := by omega
      rw [this]; simpa using k2

theorem add_flag (rules : List CRule) (g : Agenda) (a : Act) (ha : FlagOk rules a) (hg : ∀ x ∈ g.acts, FlagOk rules x) :
    (g.add a).fired = g.fired ∧ ∀ x ∈ (g.add a).acts, FlagOk rules x := by
  obtain ⟨h1, _, h3, _⟩ := add_fields g a
  refine ⟨h3, ?_⟩
  intro x hx
  rw [h1] at hx
  split at hx
  · exact hg x hx
  · rcases List.mem_append.1 hx with h | h
    · exact hg x h
    · simp only [List.mem_singleton] at h; subst h; exact ha

theorem foldl_add_flag (rules : List CRule) (i : Nat) (r : CRule) (hr : rules[i]? = some r) :
    ∀ (ms : List (Nat × Int × Int)) (p : Agenda × Nat), (∀ x ∈ p.1.acts, FlagOk rules x) →
      (ms.foldl (fun (p : Agenda × Nat) f =>
        (p.1.add { rule := i, sal := r.prio, noLoop := r.noLoop, created := p.2, handle := some f.1 }, p.2 + 1)) p).1.fired = p.1.fired ∧
      ∀ x ∈ (ms.foldl (fun (p : Agenda × Nat) f =>
        (p.1.add { rule := i, sal := r.prio, noLoop := r.noLoop, created := p.2, handle := some f.1 }, p.2 + 1)) p).1.acts, FlagOk rules x := by
  intro ms
  induction ms with
  | nil => intro p hp; exact ⟨rfl, hp⟩
  | cons f fs ih =>
    intro p hp
    simp only [List.foldl_cons]
    have hflag : FlagOk rules { rule := i, sal := r.prio, noLoop := r.noLoop, created := p.2, handle := some f.1 } := by
      simp [FlagOk, isNoLoopOf, hr]
    obtain ⟨a1, a2⟩ := add_flag rules p.1 _ hflag hp
    obtain ⟨b1, b2⟩ := ih (p.1.add { rule := i, sal := r.prio, noLoop := r.noLoop, created := p.2, handle := some f.1 }, p.2 + 1) a2
    exact ⟨b1.trans a1, b2⟩

theorem incAddMatches_flag (rules : List CRule) (sk : Bool) (facts : List (Nat × Int × Int)) :
    ∀ (l : List (Nat × CRule)), (∀ ir ∈ l, rules[ir.1]? = some ir.2) → ∀ (g : Agenda) (c : Nat),
      (∀ x ∈ g.acts, FlagOk rules x) →
      (incAddMatches sk l facts g c).1.fired = g.fired ∧ ∀ x ∈ (incAddMatches sk l facts g c).1.acts, FlagOk rules x := by
  intro l
  induction l with
  | nil => intro _ g c hg; exact ⟨rfl, hg⟩
  | cons ir rs ih =>
    intro hl g c hg
    obtain ⟨i, r⟩ := ir
    have hr : rules[i]? = some r := hl (i, r) (by simp)
    have hl' : ∀ ir ∈ rs, rules[ir.1]? = some ir.2 := fun ir h => hl ir (List.mem_cons_of_mem _ h)
    simp only [incAddMatches]
    split
    · exact ih hl' g c hg
    · obtain ⟨a1, a2⟩ := foldl_add_flag rules i r hr (facts.filter (cMatches r)) (g, c) hg
      obtain ⟨b1, b2⟩ := ih hl' _ _ a2
      exact ⟨b1.trans a1, b2⟩

theorem enum_rules (rules : List CRule) : ∀ ir ∈ enumFrom 0 rules, rules[ir.1]? = some ir.2 := by
  intro ir h
  obtain ⟨i, r⟩ := ir
  have := (enumFrom_get rules 0 i r h).2
  simpa using this

/-- invariant of an engine history: `since` (what the observer has seen fire since the last reset) is inside the agenda's
fired-rule set, and every pending activation carries its rule's no-loop flag -/
structure HInv (rules : List CRule) (e : Inc) (since : List Nat) : Prop where
  rules_eq : e.rules = rules
  sub : ∀ n ∈ since, n ∈ e.ag.fired
  flags : ∀ a ∈ e.ag.acts, FlagOk rules a

/-- the skipping steps of `fire_all` keep everything but the pending list, which shrinks; what they return was pending and
passed the no-loop test of `get_next_activation` -/
theorem incSkip_inc : ∀ (k : Nat) (e : Inc),
    (incSkip incPop incStale k e).2.rules = e.rules ∧ (incSkip incPop incStale k e).2.facts = e.facts ∧
    (incSkip incPop incStale k e).2.nextHandle = e.nextHandle ∧ (incSkip incPop incStale k e).2.ag.fired = e.ag.fired ∧
    (∀ x ∈ (incSkip incPop incStale k e).2.ag.acts, x ∈ e.ag.acts) ∧
    (∀ a, (incSkip incPop incStale k e).1 = some a → a ∈ e.ag.acts ∧ okNoLoop e.ag a = true) := by
  intro k
  induction k with
  | zero =>
    intro e
    simp only [incSkip, incPop]
    exact ⟨by trivial, by trivial, by trivial, (getNext_sets e.ag).1, (getNext_spec e.ag).sub, by intro a h; simp at h⟩
  | succ k ih =>
    intro e
    simp only [incSkip, incPop]
    cases hp : e.ag.getNext.1 with
    | none => exact ⟨by trivial, by trivial, by trivial, (getNext_sets e.ag).1, (getNext_spec e.ag).sub, by intro a h; simp at h⟩
    | some a =>
      obtain ⟨_, k2, _, k4, _⟩ := (getNext_spec e.ag).some_ a hp
      simp only
      split
      · obtain ⟨i1, i2, i3, i4, i5, i6⟩ := ih { e with ag := e.ag.getNext.2 }
        refine ⟨i1, i2, i3, i4.trans (getNext_sets e.ag).1, fun x hx => (getNext_spec e.ag).sub x (i5 x hx), ?_⟩
        intro b hb
        obtain ⟨j1, j2⟩ := i6 b hb
        refine ⟨(getNext_spec e.ag).sub b j1, ?_⟩
        simpa [okNoLoop, (getNext_sets e.ag).1] using j2
      · refine ⟨by trivial, by trivial, by trivial, (getNext_sets e.ag).1, (getNext_spec e.ag).sub, ?_⟩
        intro b hb
        simp only [Option.some.injEq] at hb
        subst hb
        exact ⟨k2, (eligible_parts k4).1⟩

/-- one `fire_all` call inside a history: the names it returns pass the no-loop walk that starts from `since`, and the
invariant holds again with the extended set -/
theorem incLoop_hist (rules : List CRule) : ∀ (fuel : Nat) (e : Inc) (out since : List Nat), HInv rules e since →
    ∃ new since', (incLoop incPop incStale (fun e => e.ag.acts.length) incBody fuel e out).2 = out ++ new ∧
      noLoopNames (isNoLoopOf rules) since new = some since' ∧
      HInv rules (incLoop incPop incStale (fun e => e.ag.acts.length) incBody fuel e out).1 since' ∧
      (incLoop incPop incStale (fun e => e.ag.acts.length) incBody fuel e out).1.nextHandle = e.nextHandle := by
  have hstop : ∀ (e e1 : Inc) (since : List Nat), HInv rules e since →
      (incSkip incPop incStale e.ag.acts.length e).2 = e1 → HInv rules e1 since ∧ e1.nextHandle = e.nextHandle := by
    intro e e1 since hI h
    obtain ⟨i1, _, i3, i4, i5, _⟩ := incSkip_inc e.ag.acts.length e
    rw [h] at i1 i3 i4 i5
    exact ⟨⟨i1.trans hI.rules_eq, fun n hn => by rw [i4]; exact hI.sub n hn, fun a ha => hI.flags a (i5 a ha)⟩, i3⟩
  intro fuel
  induction fuel with
  | zero =>
    intro e out since hI
    unfold incLoop
    rcases hsk : incSkip incPop incStale e.ag.acts.length e with ⟨_ | a, e1⟩
    · obtain ⟨h1, h2⟩ := hstop e e1 since hI (by rw [hsk])
      exact ⟨[], since, by simp, rfl, h1, h2⟩
    · obtain ⟨h1, h2⟩ := hstop e e1 since hI (by rw [hsk])
      exact ⟨[], since, by simp, rfl, h1, h2⟩
  | succ n ih =>
    intro e out since hI
    unfold incLoop
    rcases hsk : incSkip incPop incStale e.ag.acts.length e with ⟨_ | a, e1⟩
    · obtain ⟨h1, h2⟩ := hstop e e1 since hI (by rw [hsk])
      exact ⟨[], since, by simp, rfl, h1, h2⟩
    · obtain ⟨hI1, hnh1⟩ := hstop e e1 since hI (by rw [hsk])
      obtain ⟨_, _, _, i4, _, i6⟩ := incSkip_inc e.ag.acts.length e
      rw [hsk] at i4 i6
      simp only at i4
      obtain ⟨hmem, hok⟩ := i6 a rfl
      simp only
      -- the body: global re-propagation, then mark
      obtain ⟨b1, b2⟩ := incAddMatches_flag rules true e1.facts (enumFrom 0 e1.rules)
        (by rw [hI1.rules_eq]; exact enum_rules rules) e1.ag e1.clock hI1.flags
      have hI2 : HInv rules (incBody e1 a).1 (setInsert a.rule since) := by
        refine ⟨hI1.rules_eq, ?_, ?_⟩
        · intro m hm
          simp only [incBody, Agenda.mark]
          rcases mem_setInsert.1 hm with h | h
          · exact mem_setInsert.2 (Or.inl h)
          · exact mem_setInsert.2 (Or.inr (by rw [b1]; exact hI1.sub m h))
        · intro x hx
          simp only [incBody] at hx
          rw [(mark_focus _ a).2.1] at hx
          exact b2 x hx
      have hnh2 : (incBody e1 a).1.nextHandle = e1.nextHandle := rfl
      obtain ⟨new, since', k1, k2, k3, k4⟩ := ih (incBody e1 a).1 (out ++ [(incBody e1 a).2]) (setInsert a.rule since) hI2
      refine ⟨a.rule :: new, since', by rw [k1]; simp [incBody], ?_, k3, by rw [k4, hnh2, hnh1]⟩
      simp only [noLoopNames]
      have hcond : (isNoLoopOf rules a.rule && since.contains a.rule) = false := by
        cases hnl : isNoLoopOf rules a.rule with
        | false => rfl
        | true =>
          have hfl : a.noLoop = true := by rw [hI.flags a hmem]; exact hnl
          have hnc : e.ag.fired.contains a.rule = false := by simpa [okNoLoop, hfl] using hok
          have : ¬ a.rule ∈ since := fun hc => by
            have := hI.sub a.rule hc
            simp_all
          simpa using this
      rw [hcond]
      simpa using k2

/-- propagation after insert / update / retract keeps the invariant (it only adds activations) -/
theorem hinv_propagate (rules : List CRule) (e : Inc) (since : List Nat) (facts : List (Nat × Int × Int)) (nh : Nat)
    (hI : HInv rules e since) :
    HInv rules { e with facts := facts, nextHandle := nh,
                        ag := (incAddMatches false (enumFrom 0 e.rules) facts e.ag e.clock).1,
                        clock := (incAddMatches false (enumFrom 0 e.rules) facts e.ag e.clock).2 } since := by
  obtain ⟨b1, b2⟩ := incAddMatches_flag rules false facts (enumFrom 0 e.rules)
    (by rw [hI.rules_eq]; exact enum_rules rules) e.ag e.clock hI.flags
  exact ⟨hI.rules_eq, fun n hn => by simp only; rw [b1]; exact hI.sub n hn, b2⟩

theorem histOk_trace (rules : List CRule) : ∀ (hops : List HOp) (e : Inc) (since : List Nat), HInv rules e since →
    histOk (isNoLoopOf rules) incBound since e.nextHandle hops (e.htrace hops) = true := by
  intro hops
  induction hops with
  | nil => intro e since _; simp [Inc.htrace, histOk]
  | cons op ops ih =>
    intro e since hI
    cases op with
    | insert a b =>
      simp only [Inc.htrace, Inc.hstep, histOk, beq_self_eq_true, Bool.true_and]
      have := ih (e.insert a b) since (hinv_propagate rules e since _ _ hI)
      simpa [Inc.insert] using this
    | update h a b =>
      simp only [Inc.htrace, Inc.hstep, histOk]
      unfold Inc.update
      split
      · exact ih _ since (hinv_propagate rules e since _ e.nextHandle hI)
      · exact ih _ since hI
    | retract h =>
      simp only [Inc.htrace, Inc.hstep, histOk]
      unfold Inc.retract
      split
      · exact ih _ since (hinv_propagate rules e since _ e.nextHandle hI)
      · exact ih _ since hI
    | fire =>
      simp only [Inc.htrace, Inc.hstep, histOk, Inc.fireAllH]
      obtain ⟨new, since', k1, k2, k3, k4⟩ := incLoop_hist rules incBound e [] since hI
      have hlen := incLoop_length incPop incStale (fun e => e.ag.acts.length) incBody incBound e []
      simp only [List.nil_append] at k1
      rw [k1] at hlen ⊢
      rw [k2]
      simp only [List.length_nil, Nat.zero_add] at hlen
      simp only [Bool.and_eq_true, decide_eq_true_eq]
      refine ⟨hlen, ?_⟩
      rw [← k4]
      exact ih _ since' k3
    | reset =>
      simp only [Inc.htrace, Inc.hstep, histOk]
      have hI' : HInv rules e.reset [] := ⟨hI.rules_eq, by intro n hn; simp at hn, by simpa [Inc.reset, Agenda.reset] using hI.flags⟩
      exact ih e.reset [] hI'

/-! ### named rule sets on the two map engines (`M` cases): the no-loop walk over every history of `fire_all` / `reset_fired_flags` /
`set_fact` calls, duplicate rule names included -/

theorem noLoopNames_append (f : Nat → Bool) (n : Nat) :
    ∀ (xs since : List Nat), noLoopNames f since (xs ++ [n]) =
      (match noLoopNames f since xs with
       | some acc => if f n && acc.contains n then none else some (setInsert n acc)
       | none => none) := by
  intro xs
  induction xs with
  | nil => intro since; simp [noLoopNames]
  | cons x t ih =>
    intro since
    simp only [List.cons_append, noLoopNames]
    split
    · rfl
    · exact ih _

theorem noLoopNamesM_append (f : Nat → Bool) (clr : Nat → Nat → Bool) (n : Nat) :
    ∀ (xs since : List Nat), noLoopNamesM f clr since (xs ++ [n]) =
      (match noLoopNamesM f clr since xs with
       | some acc => if f n && acc.contains n then none else some (setInsert n (acc.filter (fun k => !clr n k)))
       | none => none) := by
  intro xs
  induction xs with
  | nil => intro since; simp [noLoopNamesM]
  | cons x t ih =>
    intro since
    simp only [List.cons_append, noLoopNamesM]
    split
    · rfl
    · exact ih _

/-- what a pass / loop keeps: the names returned so far pass the no-loop walk from `since`, and everything the walk has
accumulated is marked in the facts (`<name>_fired` is read as fired) -/
def MInv (isNL : Nat → Bool) (clr : Nat → Nat → Bool) (since : List Nat) (s : CFacts) (out : List Nat) : Prop :=
  ∃ acc, noLoopNamesM isNL clr since out = some acc ∧ ∀ n, n ∈ acc → n ∈ s.firedFlags

theorem mem_cClearFired {n k : Nat} {s : CFacts} : n ∈ (cClearFired k s).firedFlags ↔ (n ∈ s.firedFlags ∧ n ≠ k) := by
  simp [cClearFired]

theorem cMark_mono (typed : Bool) (k v n : Nat) (s : CFacts) (h : n ∈ s.firedFlags)
    (hk : ¬ (k = n ∧ markerFired typed v = false)) : n ∈ (cMark typed k v s).firedFlags := by
  unfold cMark
  cases hv : markerFired typed v with
  | true => simp only [if_true, cSetFired]; exact mem_setInsert.mpr (Or.inr h)
  | false =>
    simp only [Bool.false_eq_true, if_false]
    refine mem_cClearFired.mpr ⟨h, ?_⟩
    intro hnk
    exact hk ⟨hnk.symm, hv⟩

theorem toNURule_act_mono (typed : Bool) (r : NRule) (s : CFacts) (n : Nat) (h : n ∈ s.firedFlags)
    (hk : ¬ (r.marks = some n ∧ markerFired typed r.mval = false)) : n ∈ ((toNURule typed r).act s).firedFlags := by
  have hb : n ∈ (s.bump r.ak r.inc).firedFlags := by simp only [CFacts.bump]; split <;> exact h
  unfold toNURule
  cases hm : r.marks with
  | none => exact hb
  | some k =>
    simp only []
    apply cMark_mono typed k r.mval n _ hb
    intro ⟨hkn, hv⟩
    exact hk ⟨by rw [hm, hkn], hv⟩

theorem not_clearedBy (fv : Nat → Bool) (rules : List NRule) (r : NRule) (hr : r ∈ rules) (m : Nat)
    (h : clearedBy fv rules r.name m = false) : ¬ (r.marks = some m ∧ fv r.mval = false) := by
  intro ⟨h1, h2⟩
  have : clearedBy fv rules r.name m = true := by
    unfold clearedBy
    apply List.any_eq_true.mpr
    exact ⟨r, hr, by simp [h1, h2]⟩
  rw [this] at h
  exact Bool.noConfusion h

theorem MInv_fire (typed : Bool) (rules : List NRule) (since : List Nat) (s : CFacts) (out : List Nat) (r : NRule) (hr : r ∈ rules)
    (hchk : ¬ (r.noLoop = true ∧ r.name ∈ s.firedFlags))
    (h : MInv (nameNoLoop rules) (clearedBy (markerFired typed) rules) since s out) :
    MInv (nameNoLoop rules) (clearedBy (markerFired typed) rules) since
      (cSetFired r.name ((toNURule typed r).act s)) (out ++ [r.name]) := by
  obtain ⟨acc, hacc, hin⟩ := h
  have hnl : nameNoLoop rules r.name = true → r.noLoop = true := by
    intro hn
    unfold nameNoLoop at hn
    have := List.all_eq_true.mp hn r hr
    simpa using this
  refine ⟨setInsert r.name (acc.filter (fun k => !clearedBy (markerFired typed) rules r.name k)), ?_, ?_⟩
  · rw [noLoopNamesM_append, hacc]
    simp only
    split
    · rename_i hc
      simp only [Bool.and_eq_true, List.contains_iff_mem] at hc
      exact absurd ⟨hnl hc.1, hin _ (by simpa using hc.2)⟩ hchk
    · rfl
  · intro n hn
    simp only [cSetFired]
    apply mem_setInsert.mpr
    rcases mem_setInsert.mp hn with h1 | h1
    · left; exact h1
    · right
      have h2 := List.mem_filter.mp h1
      have h3 : clearedBy (markerFired typed) rules r.name n = false := by simpa using h2.2
      exact toNURule_act_mono typed r s n (hin n h2.1) (not_clearedBy _ rules r hr n h3)

theorem map_toNURule_get (typed : Bool) (rules : List NRule) (i : Nat) (ur : URule CFacts) (h : (rules.map (toNURule typed))[i]? = some ur) :
    ∃ r, r ∈ rules ∧ ur = toNURule typed r := by
  rw [List.getElem?_map] at h
  cases hr : rules[i]? with
  | none => rw [hr] at h; simp at h
  | some r =>
    rw [hr] at h
    simp only [Option.map_some, Option.some.injEq] at h
    exact ⟨r, List.mem_of_getElem? hr, h.symm⟩

theorem chk_of_not (typed : Bool) (r : NRule) (flags : List Nat) (s : CFacts)
    (hc : ¬ ((toNURule typed r).noLoop && (flags.contains (toNURule typed r).name || cIsFired (toNURule typed r).name s)) = true) :
    ¬ (r.noLoop = true ∧ r.name ∈ s.firedFlags) := by
  intro ⟨h1, h2⟩
  apply hc
  simp [toNURule, cIsFired, h1, h2]

theorem typedPass_inv (rules : List NRule) (since : List Nat) :
    ∀ (ag : List (Nat × Int)) (s : CFacts) (flags out : List Nat) (ch : Bool),
      MInv (nameNoLoop rules) (clearedBy (markerFired true) rules) since s out →
      MInv (nameNoLoop rules) (clearedBy (markerFired true) rules) since
        (typedFirePass (rules.map (toNURule true)) cSetFired cIsFired ag s flags out ch).1
        (typedFirePass (rules.map (toNURule true)) cSetFired cIsFired ag s flags out ch).2.2.1 := by
  intro ag
  induction ag with
  | nil => intro s flags out ch h; simpa [typedFirePass] using h
  | cons x t ih =>
    intro s flags out ch h
    obtain ⟨i, p⟩ := x
    simp only [typedFirePass]
    cases hi : (rules.map (toNURule true))[i]? with
    | none => exact ih s flags out ch h
    | some ur =>
      obtain ⟨r, hr, rfl⟩ := map_toNURule_get true rules i ur hi
      simp only []
      split
      · exact ih s flags out ch h
      · rename_i hc
        apply ih
        exact MInv_fire true rules since s out r hr (chk_of_not true r flags s hc) h

theorem ulPass_inv (rules : List NRule) (since : List Nat) :
    ∀ (ag : List (Nat × Int)) (s : CFacts) (flags out : List Nat),
      MInv (nameNoLoop rules) (clearedBy (markerFired false) rules) since s out →
      MInv (nameNoLoop rules) (clearedBy (markerFired false) rules) since
        (ulFirePass (rules.map (toNURule false)) cSetFired cIsFired ag s flags out).1
        (ulFirePass (rules.map (toNURule false)) cSetFired cIsFired ag s flags out).2.2 := by
  intro ag
  induction ag with
  | nil => intro s flags out h; simpa [ulFirePass] using h
  | cons x t ih =>
    intro s flags out h
    obtain ⟨i, p⟩ := x
    simp only [ulFirePass]
    cases hi : (rules.map (toNURule false))[i]? with
    | none => exact ih s flags out h
    | some ur =>
      obtain ⟨r, hr, rfl⟩ := map_toNURule_get false rules i ur hi
      simp only []
      split
      · exact ih s flags out h
      · rename_i hc
        apply ih
        exact MInv_fire false rules since s out r hr (chk_of_not false r flags s hc) h

theorem typedLoop_inv (rules : List NRule) (since : List Nat) :
    ∀ (fuel : Nat) (s : CFacts) (flags out : List Nat),
      MInv (nameNoLoop rules) (clearedBy (markerFired true) rules) since s out →
      MInv (nameNoLoop rules) (clearedBy (markerFired true) rules) since
        (typedLoop (rules.map (toNURule true)) cSetFired cIsFired fuel s flags out).1
        (typedLoop (rules.map (toNURule true)) cSetFired cIsFired fuel s flags out).2 := by
  intro fuel
  induction fuel with
  | zero => intro s flags out h; simpa [typedLoop] using h
  | succ n ih =>
    intro s flags out h
    simp only [typedLoop]
    split
    · exact ih _ _ _ (typedPass_inv rules since _ s flags out false h)
    · exact typedPass_inv rules since _ s flags out false h

theorem ulLoop_inv (rules : List NRule) (since : List Nat) :
    ∀ (fuel : Nat) (s : CFacts) (flags out : List Nat),
      MInv (nameNoLoop rules) (clearedBy (markerFired false) rules) since s out →
      MInv (nameNoLoop rules) (clearedBy (markerFired false) rules) since
        (ulLoop (rules.map (toNURule false)) cSetFired cIsFired fuel s flags out).1
        (ulLoop (rules.map (toNURule false)) cSetFired cIsFired fuel s flags out).2 := by
  intro fuel
  induction fuel with
  | zero => intro s flags out h; simpa [ulLoop] using h
  | succ n ih =>
    intro s flags out h
    simp only [ulLoop]
    split
    · exact h
    · split
      · exact ulPass_inv rules since _ s flags out h
      · exact ih _ _ _ (ulPass_inv rules since _ s flags out h)

theorem mhistOk_trace (typed : Bool) (rules : List NRule) :
    ∀ (ops : List MOp) (s : CFacts) (since : List Nat), (∀ n, n ∈ since → n ∈ s.firedFlags) →
      mhistOk (nameNoLoop rules) (clearedBy (markerFired typed) rules) (markerFired typed)
        ((if typed then typedBound else ulBound) * rules.length) since ops (mtrace typed rules s ops) = true := by
  intro ops
  induction ops with
  | nil => intro s since _; simp [mtrace, mhistOk]
  | cons op ops ih =>
    intro s since hs
    cases op with
    | fire =>
      cases typed with
      | true =>
        have h0 : MInv (nameNoLoop rules) (clearedBy (markerFired true) rules) since s [] := ⟨since, by simp [noLoopNamesM], hs⟩
        obtain ⟨acc, hacc, hin⟩ := typedLoop_inv rules since typedBound s [] [] h0
        have hl := typedLoop_length (rules.map (toNURule true)) cSetFired cIsFired typedBound s [] []
        simp only [List.length_map, List.length_nil, Nat.zero_add] at hl
        simp only [mtrace, mstep, mhistOk, if_true, hacc, Bool.and_eq_true, decide_eq_true_eq]
        exact ⟨hl, ih _ acc hin⟩
      | false =>
        have h0 : MInv (nameNoLoop rules) (clearedBy (markerFired false) rules) since s [] := ⟨since, by simp [noLoopNamesM], hs⟩
        obtain ⟨acc, hacc, hin⟩ := ulLoop_inv rules since ulBound s [] [] h0
        have hl := ulLoop_length (rules.map (toNURule false)) cSetFired cIsFired ulBound s [] []
        simp only [List.length_map, List.length_nil, Nat.zero_add] at hl
        simp only [mtrace, mstep, mhistOk, Bool.false_eq_true, if_false, hacc, Bool.and_eq_true, decide_eq_true_eq]
        exact ⟨hl, ih _ acc hin⟩
    | reset =>
      simp only [mtrace, mstep, mhistOk]
      exact ih _ [] (by intro n hn; simp at hn)
    | set a b =>
      simp only [mtrace, mstep, mhistOk]
      exact ih _ since hs
    | marker k v =>
      simp only [mtrace, mstep, mhistOk]
      apply ih
      intro n hn
      unfold cMark
      cases hv : markerFired typed v with
      | true =>
        rw [hv] at hn
        simp only [if_true] at hn ⊢
        simp only [cSetFired]; exact mem_setInsert.mpr (Or.inr (hs n hn))
      | false =>
        rw [hv] at hn
        simp only [Bool.false_eq_true, if_false] at hn ⊢
        have h2 := List.mem_filter.mp hn
        exact mem_cClearFired.mpr ⟨hs n h2.1, by simpa using h2.2⟩


end C07
