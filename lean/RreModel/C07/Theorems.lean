import RreModel.C07.Lemmas
/-
C07 — property theorems (only).  "RETE agenda order, no-loop, group exclusivity and termination."
Every statement is about an arbitrary agenda state `g` (in particular every state reachable by any history of
add_activation / get_next_activation / mark_rule_fired / set_focus / reset_fired_flags / clear / ruleflow
switches, of any length) or quantifies over histories explicitly.
-/
namespace C07

/-- **pop_is_max.** The activation returned by `get_next_activation` was pending, belongs to the agenda group
that has the focus after the call, passes the three skip tests, and is maximal among the eligible pending
activations of that group: none has a higher salience, and among those of equal salience none was created
earlier. -/
theorem pop_is_max (g : Agenda) (a : Act) (h : g.getNext.1 = some a) :
    a ∈ g.acts ∧ a.ag = g.getNext.2.focus ∧ eligible g a = true ∧
    ∀ b ∈ g.acts, b.ag = g.getNext.2.focus → eligible g b = true →
      (b.sal < a.sal ∨ (b.sal = a.sal ∧ a.created ≤ b.created)) := by
  obtain ⟨_, h2, h3, h4, h5, _, _⟩ := (getNext_spec g).some_ a h
  simp only at h2 h3 h5
  refine ⟨h2, by simpa [inGroup] using h3, h4, ?_⟩
  intro b hb hg he
  have := rank_ordGe (h5 b hb (by simpa [inGroup] using hg) he)
  simp only [ordGe, decide_eq_true_eq] at this
  omega

/-- the same along every history from the empty agenda -/
theorem pop_is_max_history (ops : List Op) (a : Act) (h : (run Agenda.new ops).getNext.1 = some a) :
    ∀ b ∈ (run Agenda.new ops).acts, b.ag = a.ag → eligible (run Agenda.new ops) b = true →
      (b.sal < a.sal ∨ (b.sal = a.sal ∧ a.created ≤ b.created)) := by
  obtain ⟨_, h2, _, h4⟩ := pop_is_max _ a h
  intro b hb hg; exact h4 b hb (by omega)

/-- **drain_sorted.** Along any history without `add_activation` (pops, pop+mark, marks, focus changes, resets …
in any order and number) the activations returned from one agenda group come out by descending salience and,
among equal saliences, in order of creation. -/
theorem drain_sorted (g : Agenda) (ops : List Op) (h : ops.all noAdd = true) :
    (popped g ops).Pairwise (fun a b => a.ag = b.ag → (b.sal < a.sal ∨ (a.sal = b.sal ∧ a.created ≤ b.created))) := by
  induction ops generalizing g with
  | nil => simp [popped]
  | cons op ops ih =>
    simp only [List.all_cons, Bool.and_eq_true] at h
    simp only [popped]
    cases hr : (step g op).2 with
    | none => exact ih _ h.2
    | some a =>
      refine List.Pairwise.cons ?_ (ih _ h.2)
      intro b hb hag
      have hmem := popped_mem _ ops h.2 b hb
      have := rank_ordGe (pop_below g op a hr b hmem hag.symm)
      simp only [ordGe, decide_eq_true_eq] at this
      exact this

/-- **no_loop_once_between_resets.** Once `mark_rule_fired(a)` has been called, then whatever calls follow —
any number of adds, pops, marks, focus changes, ruleflow switches; anything except `reset_fired_flags` / `clear`
— `get_next_activation` never returns a no-loop activation of `a`'s rule. -/
theorem no_loop_once_between_resets (g : Agenda) (a : Act) (ops : List Op) (h : ops.all noReset = true)
    (b : Act) (hb : (run (g.mark a) ops).getNext.1 = some b) (hn : b.noLoop = true) : b.rule ≠ a.rule := by
  have hf : a.rule ∈ (run (g.mark a) ops).fired :=
    (run_fired_mono _ ops h).1 _ (by simp only [Agenda.mark]; exact mem_setInsert.2 (Or.inl rfl))
  obtain ⟨_, _, he, _⟩ := pop_is_max _ b hb
  intro heq
  simp [eligible, hn, heq, hf] at he

/-- **activation_group_once.** Once an activation of activation group `x` has been marked fired, then until the
next `reset_fired_flags` / `clear` no activation of group `x` is returned, and `add_activation` drops new ones. -/
theorem activation_group_once (g : Agenda) (a : Act) (x : Nat) (hx : a.actg = some x) (ops : List Op)
    (h : ops.all noReset = true) :
    (∀ b, (run (g.mark a) ops).getNext.1 = some b → b.actg ≠ some x) ∧
    (∀ b, b.actg = some x → ((run (g.mark a) ops).add b).acts = (run (g.mark a) ops).acts) := by
  have hf : x ∈ (run (g.mark a) ops).firedAG :=
    (run_fired_mono _ ops h).2 _ (by simp only [Agenda.mark, hx]; exact mem_setInsert.2 (Or.inl rfl))
  constructor
  · intro b hb heq
    obtain ⟨_, _, he, _⟩ := pop_is_max _ b hb
    simp [eligible, optIn, heq, hf] at he
  · intro b hb
    rw [(add_fields _ b).1]
    simp [optIn, hb, hf]

/-- **focus_falls_back.** `get_next_activation` serves the first group of `focus :: focus_stack` that has an
eligible pending activation and leaves the focus there; if no group of the chain has one it returns `None` and the
focus rests at the bottom of the stack. -/
theorem focus_falls_back (g : Agenda) :
    (∀ a, g.getNext.1 = some a → firstWith (hasEligible g) (g.focus :: g.stack) = some g.getNext.2.focus) ∧
    (g.getNext.1 = none → firstWith (hasEligible g) (g.focus :: g.stack) = none ∧
        g.getNext.2.focus = lastOf g.focus g.stack) := by
  have S := getNext_spec g
  exact ⟨fun a h => ((S.some_ a h).1), fun h => S.none_ h⟩

/-- **fire_all_bounded (IncrementalEngine, after fix-C06b).** Whatever the loop does with an activation (any skip test, any
re-activation pattern, any rule set), `fire_all` executes at most `max_iterations = 1000` activations; the model loop is total
(structural recursion: the executions are bounded by the count, the skipped activations by the agenda — `fire_all_skips_terminate`). -/
theorem fire_all_bounded_incremental {σ : Type} (pop : σ → Option Act × σ) (skip : σ → Act → Bool) (size : σ → Nat)
    (body : σ → Act → σ × Nat) (s : σ) :
    (incLoop pop skip size body incBound s []).2.length ≤ 1000 := by
  have := incLoop_length pop skip size body incBound s []
  simpa [incBound] using this

/-- **the skipping steps terminate.**  Skipped activations (retracted / stale) are not counted against `max_iterations`; they
cannot loop because `get_next_activation` removes what it returns: on an agenda state the inner loop run with any fuel of at
least the number of pending activations gives the same result as with exactly that number — its fuel never cuts it short. -/
theorem fire_all_skips_terminate (skip : Agenda → Act → Bool) (g : Agenda) (k : Nat) (h : g.acts.length ≤ k) :
    incSkip (fun g => (g.getNext.1, g.getNext.2)) skip k g =
    incSkip (fun g => (g.getNext.1, g.getNext.2)) skip g.acts.length g := by
  apply incSkip_fuel (fun g => (g.getNext.1, g.getNext.2)) skip (fun g => g.acts.length) _ _ k g h
  · intro s a s' hp
    simp only [Prod.mk.injEq] at hp
    obtain ⟨h1, h2⟩ := hp
    subst h2
    exact ((getNext_spec s).some_ a h1).2.2.2.2.2.2
  · intro s hs
    have : s.acts = [] := List.eq_nil_of_length_eq_zero hs
    cases hn : s.getNext.1 with
    | none => rfl
    | some a =>
      have := ((getNext_spec s).some_ a hn).2.1
      simp_all

/-- **fire_all_bounded (ReteUlEngine).** For every rule set, conditions and actions: at most 100 passes, each
firing every rule at most once. -/
theorem fire_all_bounded_ul {σ : Type} (rules : List (URule σ)) (setFired : Nat → σ → σ) (isFired : Nat → σ → Bool) (s : σ) :
    (ulLoop rules setFired isFired ulBound s [] []).2.length ≤ 100 * rules.length := by
  have := ulLoop_length rules setFired isFired ulBound s [] []
  simpa [ulBound] using this

/-- **fire_all_bounded (TypedReteUlEngine, with the guard of fix-C07).** Same bound.  The unchanged code has no
guard: its loop is `while changed`, which `always-true ∧ ¬no_loop` keeps true for ever (finding F-C07). -/
theorem fire_all_bounded_typed {σ : Type} (rules : List (URule σ)) (setFired : Nat → σ → σ) (isFired : Nat → σ → Bool) (s : σ) :
    (typedLoop rules setFired isFired typedBound s [] []).2.length ≤ 100 * rules.length := by
  have := typedLoop_length rules setFired isFired typedBound s [] []
  simpa [typedBound] using this

/-- the bound is attained by one always-true rule without no-loop: exactly 100 firings (so the guard is what stops
the loop, not the rule set) -/
theorem typed_bound_attained :
    (typedFireAll [{ prio := 0, noLoop := false, ck := false, limit := 1, ak := true, inc := 1 }] { a := 0, b := 0 }).2.length = 100 := by
  decide +kernel

/-- **no_loop_once_between_resets, over engine histories.**  One `IncrementalEngine` with any rule set (no-op actions, facts of
one type), driven through ANY sequence of insert / update / retract / fire_all / reset calls: walking through the names returned
by the successive `fire_all` calls, a no-loop rule never appears a second time unless a `reset` came in between — whatever happened
between the calls, in particular when an earlier call stopped at `max_iterations` with activations still pending (the bound stops
the loop; it does not touch the fired-rule set) — every call returns at most 1000 names, and handles are handed out in sequence.
This is the predicate `histOk` the driver evaluates on the implementation's observations of the `H` cases. -/
theorem no_loop_once_engine_history (rules : List CRule) (hops : List HOp) :
    histOk (isNoLoopOf rules) incBound [] 1 hops (({ rules := rules } : Inc).htrace hops) = true :=
  histOk_trace rules hops { rules := rules } [] ⟨rfl, by intro n hn; simp at hn, by intro a ha; simp at ha⟩

/-- **no_loop_once_between_resets, per rule NAME, on the two map engines.**  One `TypedReteUlEngine` (`typed = true`) or
`ReteUlEngine` (after fix-C07c) with ANY list of named rules — the same name may be registered any number of times, with any
saliences — driven through ANY sequence of fire_all / reset_fired_flags / set_fact calls, `<name>_fired` markers set to ANY value
(codes of `markerFired`: "true", "false", "", "0", "TRUE", " true", typed Boolean / Integer / Null …) from outside or by a rule's
action during a cycle included: walking through the names returned by the successive `fire_all` calls, a name all
of whose registrations are no-loop never appears a second time unless `reset_fired_flags` came in between or the name's own
`<name>_fired` fact was overwritten (caller / a rule's action) with a value the engine does not read as fired, and every call returns
at most 100 · (number of registrations) names.  This is the predicate `mhistOk` the driver evaluates on the implementation's
observations of the `M T` / `M U` cases. -/
theorem no_loop_once_named_history (typed : Bool) (rules : List NRule) (a b : Int) (ops : List MOp) :
    mhistOk (nameNoLoop rules) (clearedBy (markerFired typed) rules) (markerFired typed)
      ((if typed then typedBound else ulBound) * rules.length) [] ops
      (mtrace typed rules { a := a, b := b } ops) = true :=
  mhistOk_trace typed rules ops { a := a, b := b } [] (by intro n hn; simp at hn)

/-- **model_meets_spec.** Every history of the model satisfies the observation-level specification `runOk` (the
predicate the driver evaluates on the implementation's observations): each pop obeys focus fall-back, membership,
no-loop, activation-group, lock-on-active and maximality, and the statistics follow. -/
theorem model_meets_spec (g : Agenda) (ops : List Op) : runOk g ops (trace g ops) = true := runOk_trace g ops

/-- … and the tie-insensitive specification `runOkWeak` (used when two activations of a group share salience and
creation tick). -/
theorem model_meets_weak_spec (g : Agenda) (ops : List Op) : runOkWeak g ops (trace g ops) = true :=
  runOkWeak_trace (rel_refl g) ops

/-! Non-vacuity. -/
def exOps : List Op :=
  [.add { rule := 0, sal := 5, created := 0, tag := 0 }, .add { rule := 1, sal := 9, created := 1, tag := 1, noLoop := false },
   .add { rule := 2, sal := 9, created := 2, tag := 2, ag := 1 }, .add { rule := 1, sal := 9, created := 3, tag := 3 },
   .focus 1, .popMark, .popMark, .popMark, .popMark, .pop]

example : (popped Agenda.new exOps).map (·.tag) = [2, 1, 0] := by decide +kernel
example : (run Agenda.new exOps).focus = 0 := by decide +kernel
-- pop_is_max / focus_falls_back: a state with two groups, focus on the empty one
example : ((run Agenda.new [.add { rule := 0, sal := 1, tag := 7 }, .focus 3]).getNext.1.map (·.tag)) = some 7 := by decide +kernel
-- no_loop_once: rule 1 marked, its no-loop activation (tag 3) is skipped, the non-no-loop one (tag 1) is returned
example : (popped (Agenda.new.mark { rule := 1, sal := 0 })
    [.add { rule := 1, sal := 9, created := 1, tag := 1, noLoop := false }, .add { rule := 1, sal := 9, created := 0, tag := 3 },
     .pop, .pop]).map (·.tag) = [1] := by decide +kernel
-- activation_group_once
example : (popped Agenda.new
    [.add { rule := 0, sal := 1, actg := some 4, tag := 0 }, .add { rule := 1, sal := 2, actg := some 4, tag := 1 }, .popMark, .pop]).map (·.tag) = [1] := by decide +kernel
-- the three loops on concrete rule sets
example : (ulFireAll [{ prio := 1, noLoop := false, ck := false, limit := 3, ak := false, inc := 1 },
                      { prio := 7, noLoop := true, ck := false, limit := 3, ak := true, inc := 2 }] { a := 0, b := 0 }).2 = [1, 0] := by decide
example : ((({ rules := [{ prio := 3, noLoop := true, ck := false, limit := 5, ak := false, inc := 0 }] } : Inc).insert 1 1).fireAll).2 = [0] := by
  decide +kernel

-- engine history (small; the histories in which a call stops at the bound are run by the driver: corpus/C07 `H …`): `welcome`
-- (no-loop, salience 10) and `once` (no-loop, `a < 2`): both fire in the first call; after an update — no reset — nothing fires
-- although both have fresh activations; after a reset and another update that keeps only `welcome` true, `welcome` fires again
def welcome : CRule := { prio := 10, noLoop := true, ck := false, limit := 1000000000, ak := false, inc := 0 }
def once : CRule := { prio := 0, noLoop := true, ck := false, limit := 2, ak := false, inc := 0 }
example : (({ rules := [welcome, once] } : Inc).htrace [.insert 1 0, .fire, .update 1 0 5, .fire, .reset, .update 1 3 0, .fire]) =
    [.handle 1, .fired [0, 1], .ok true, .fired [], .unit, .ok true, .fired [0]] := by decide +kernel

-- named rule sets: `N0` registered twice (salience 5 and 3, both no-loop, always true): one firing per call and reset, on both engines
def dup0 : List NRule := [{ name := 0, prio := 5, noLoop := true, ck := false, limit := 1000000000, ak := false, inc := 1 },
                          { name := 0, prio := 3, noLoop := true, ck := false, limit := 1000000000, ak := false, inc := 1 }]
example : mtrace true dup0 { a := 0, b := 0 } [.fire, .fire, .reset, .fire] = [.fired [0] 1 0, .fired [] 1 0, .unit, .fired [0] 2 0] := by decide
example : mtrace false dup0 { a := 0, b := 0 } [.fire, .fire, .reset, .fire] = [.fired [0] 1 0, .fired [] 1 0, .unit, .fired [0] 2 0] := by decide
example : nameNoLoop dup0 0 = true := by decide
-- marker values: a marker preset to "false" (code 2) before the first call does not stop the rule and is overwritten by the
-- firing: the second call fires nothing, on both engines; "TRUE" (code 6) is read as fired by the typed engine only
example : mtrace false dup0 { a := 0, b := 0 } [.marker 0 2, .fire, .fire] = [.unit, .fired [0] 1 0, .fired [] 1 0] := by decide
example : mtrace true dup0 { a := 0, b := 0 } [.marker 0 2, .fire, .fire] = [.unit, .fired [0] 1 0, .fired [] 1 0] := by decide
example : mtrace false dup0 { a := 0, b := 0 } [.marker 0 6, .fire] = [.unit, .fired [0] 1 0] := by decide
example : mtrace true dup0 { a := 0, b := 0 } [.marker 0 6, .fire] = [.unit, .fired [] 0 0] := by decide

end C07
