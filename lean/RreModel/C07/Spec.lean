import RreModel.C07.Model
/-
C07 — the property as decidable predicates over API-level observations: what `get_next_activation` returned
(identified by the caller's tag), `get_focus`, and `stats()` after every call; and what the three `fire_all`s
returned.  The same predicates are proved of the model (Theorems.lean) and evaluated on the implementation's
observations by the driver (oracle mode).
-/
namespace C07

/-- the internal id is private: an observer sees a returned activation up to its id -/
def noId (a : Act) : Act := { a with id := 0 }

/-- observation after one API call -/
structure Obs where
  res : Option (Option Act)   -- none: not a pop; some none: `None`; some (some a): the activation returned (id erased)
  focus : Nat
  total : Nat
  nfired : Nat
  nfiredAG : Nat
deriving Repr, DecidableEq

def isPop : Op → Bool
  | .pop => true
  | .popMark => true
  | _ => false

def obsOf (op : Op) (g' : Agenda) (r : Option Act) : Obs :=
  { res := if isPop op then some (r.map noId) else none,
    focus := g'.focus, total := g'.acts.length, nfired := g'.fired.length, nfiredAG := g'.firedAG.length }

/-- the model's observation sequence -/
def trace (g : Agenda) : List Op → List Obs
  | [] => []
  | o :: os => obsOf o (step g o).1 (step g o).2 :: trace (step g o).1 os

/-! #### clauses for one `get_next_activation` in state `g` returning tag `r`, with focus `f'` afterwards -/

def hasEligible (g : Agenda) (grp : Nat) : Bool := g.acts.any (fun a => inGroup grp a && eligible g a)

def firstWith (p : Nat → Bool) : List Nat → Option Nat
  | [] => none
  | x :: t => if p x then some x else firstWith p t

def lastOf (x : Nat) : List Nat → Nat
  | [] => x
  | y :: t => lastOf y t

/-- focus fall-back: the activation comes from the first group of `focus :: focus_stack` that has an eligible
pending activation; when there is none the answer is `None` and the focus rests at the bottom of the stack -/
def okFocus (g : Agenda) (r : Option Act) (f' : Nat) : Bool :=
  match r with
  | some _ => firstWith (hasEligible g) (g.focus :: g.stack) == some f'
  | none => firstWith (hasEligible g) (g.focus :: g.stack) == none && f' == lastOf g.focus g.stack

/-- the returned activation is pending, in the group that has the focus afterwards -/
def okMember (g : Agenda) (r : Act) (f' : Nat) : Bool := g.acts.any (fun a => noId a == r) && inGroup f' r

/-- no-loop: a no-loop rule marked fired since the last reset is not returned -/
def okNoLoop (g : Agenda) (r : Act) : Bool := !(r.noLoop && g.fired.contains r.rule)

/-- activation group: once a rule of the group fired, no activation of the group is returned -/
def okActGroup (g : Agenda) (r : Act) : Bool := !(optIn r.actg g.firedAG)

def okLock (g : Agenda) (r : Act) : Bool := !(r.lock && g.locked.contains r.ag)

/-- order: the returned activation is at least as urgent (higher salience, then earlier creation) as every
eligible pending activation of the focused group.  (Ids are not mentioned: equal (salience, created) pairs may
come out in either order.) -/
def okMax (g : Agenda) (r : Act) (f' : Nat) : Bool :=
  g.acts.all (fun b => !(inGroup f' b && eligible g b) || ordGe r b)

def popOk (g : Agenda) (r : Option Act) (f' : Nat) : Bool :=
  okFocus g r f' &&
  (match r with
   | none => true
   | some a => okMember g a f' && okNoLoop g a && okActGroup g a && okLock g a && okMax g a f')

def statsOk (g' : Agenda) (o : Obs) : Bool :=
  o.focus == g'.focus && o.total == g'.acts.length && o.nfired == g'.fired.length && o.nfiredAG == g'.firedAG.length

/-- one step of the oracle: the clauses for a pop are evaluated in the state *before* the call; the state is
advanced by the model's `step` (deterministic whenever (salience, created) pairs within a group are distinct). -/
def stepOk (g : Agenda) (op : Op) (o : Obs) : Bool :=
  (match o.res with
   | some r => isPop op && popOk g r o.focus
   | none => !isPop op) &&
  statsOk (step g op).1 o

/-- whole-history oracle (histories without (salience, created) ties inside a group) -/
def runOk : Agenda → List Op → List Obs → Bool
  | _, [], [] => true
  | g, op :: ops, o :: os => stepOk g op o && runOk (step g op).1 ops os
  | _, _, _ => false

/-- no two `add`s of the history share (agenda group, salience, created): then `Ord` is total on what is pending -/
def keysDistinct : List Op → List (Nat × Int × Nat) → Bool
  | [], _ => true
  | .add a :: os, seen => !seen.contains (a.ag, a.sal, a.created) && keysDistinct os ((a.ag, a.sal, a.created) :: seen)
  | _ :: os, seen => keysDistinct os seen

/-! #### tie-insensitive oracle: follows the *observed* pops, so it is valid whatever order `BinaryHeap` gives
to equal elements.  It tracks the fired sets and everything accepted since the last `clear`, and checks that each
returned activation was accepted, sits in the focused group, and is eligible (no-loop once between resets,
activation group once, lock-on-active). -/

/-- weak step: `w.acts` = everything accepted since the last clear (never removed); focus/stack are not tracked -/
def wstep (w : Agenda) (op : Op) (o : Obs) : Option Agenda :=
  if isPop op then
    match o.res with
    | some none => some w
    | some (some r) =>
      if w.acts.any (fun a => noId a == r) && inGroup o.focus r && eligible w r then
        some (if op == .popMark then w.mark r else w)
      else none
    | none => none
  else if o.res == none then some (step w op).1 else none

def runOkWeak : Agenda → List Op → List Obs → Bool
  | _, [], [] => true
  | w, op :: ops, o :: os =>
    match wstep w op o with
    | some w' => runOkWeak w' ops os
    | none => false
  | _, _, _ => false

/-! #### fire loops -/

/-- what a `fire_all` run shows: it returned, having fired `n` rules.  `IncrementalEngine`: at most `bound`
firings; the two map engines: at most `bound` passes of at most one firing per rule each -/
def fireAllOk (bound rules : Nat) (perPass : Bool) (n : Nat) : Bool :=
  if perPass then n ≤ bound * rules else n ≤ bound

/-! #### engine histories (several `fire_all` calls on one `IncrementalEngine`) -/

/-- the no-loop flag of rule `n` of an engine case (rule i is named "R<i>") -/
def isNoLoopOf (rules : List CRule) (n : Nat) : Bool :=
  match rules[n]? with
  | some r => r.noLoop
  | none => false

/-- no-loop inside one returned list: walking through the names, a no-loop rule already in `since` (fired since the last
reset) must not appear; returns the extended set -/
def noLoopNames (isNoLoop : Nat → Bool) : List Nat → List Nat → Option (List Nat)
  | since, [] => some since
  | since, n :: ns => if isNoLoop n && since.contains n then none else noLoopNames isNoLoop (setInsert n since) ns

/-- **a no-loop rule fires at most once between resets**, over a whole history of calls: the set of rules fired since the
last `reset` is carried from one `fire_all` call to the next (whatever happens in between — inserts, updates, retracts, a
call that stopped at the iteration bound) and emptied by `reset` only.  Also every call returns at most `bound` names and
handles are handed out in sequence. -/
def histOk (isNoLoop : Nat → Bool) (bound : Nat) : List Nat → Nat → List HOp → List HRes → Bool
  | _, _, [], [] => true
  | since, next, .fire :: ops, .fired names :: rs =>
    decide (names.length ≤ bound) &&
    (match noLoopNames isNoLoop since names with
     | some since' => histOk isNoLoop bound since' next ops rs
     | none => false)
  | _, next, .reset :: ops, .unit :: rs => histOk isNoLoop bound [] next ops rs
  | since, next, .insert _ _ :: ops, .handle h :: rs => h == next && histOk isNoLoop bound since (next + 1) ops rs
  | since, next, .update _ _ _ :: ops, .ok _ :: rs => histOk isNoLoop bound since next ops rs
  | since, next, .retract _ :: ops, .ok _ :: rs => histOk isNoLoop bound since next ops rs
  | _, _, _, _ => false

/-- which clause of `histOk` fails first, with the index of the call -/
def histBad (isNoLoop : Nat → Bool) (bound : Nat) : Nat → List Nat → Nat → List HOp → List HRes → String
  | _, _, _, [], [] => "histOk"
  | i, since, next, .fire :: ops, .fired names :: rs =>
    if names.length > bound then s!"fire_all_bounded:count:H@{i}" else
    (match noLoopNames isNoLoop since names with
     | some since' => histBad isNoLoop bound (i + 1) since' next ops rs
     | none => s!"no_loop_once_between_resets@{i}")
  | i, _, next, .reset :: ops, .unit :: rs => histBad isNoLoop bound (i + 1) [] next ops rs
  | i, since, next, .insert _ _ :: ops, .handle h :: rs =>
    if h == next then histBad isNoLoop bound (i + 1) since (next + 1) ops rs else s!"handle_sequence@{i}"
  | i, since, next, .update _ _ _ :: ops, .ok _ :: rs => histBad isNoLoop bound (i + 1) since next ops rs
  | i, since, next, .retract _ :: ops, .ok _ :: rs => histBad isNoLoop bound (i + 1) since next ops rs
  | i, _, _, _, _ => s!"shape@{i}"

end C07
