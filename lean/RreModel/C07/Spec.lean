import RreModel.C07.Model
/-
C07 — the property as decidable predicates over API-level observations: what `get_next_activation` returned
(identified by the caller's tag), `get_focus`, and `stats()` after every call; and what the three `fire_all`s
returned.  The same predicates are proved of the model (Theorems.lean) and evaluated on the implementation's
observations by the driver (oracle mode).
-/
namespace C07

/-- the internal id is private: an observer sees a returned activation up to its id -/
def noId (a : Act) : Act := { a with id := 0 }

/-- observation after one API call -/
structure Obs where
  res : Option (Option Act)   -- none: not a pop; some none: `None`; some (some a): the activation returned (id erased)
  focus : Nat
  total : Nat
  nfired : Nat
  nfiredAG : Nat
deriving Repr, DecidableEq

def isPop : Op → Bool
  | .pop => true
  | .popMark => true
  | _ => false

def obsOf (op : Op) (g' : Agenda) (r : Option Act) : Obs :=
  { res := if isPop op then some (r.map noId) else none,
    focus := g'.focus, total := g'.acts.length, nfired := g'.fired.length, nfiredAG := g'.firedAG.length }

/-- the model's observation sequence -/
def trace (g : Agenda) : List Op → List Obs
  | [] => []
  | o :: os => obsOf o (step g o).1 (step g o).2 :: trace (step g o).1 os

/-! #### clauses for one `get_next_activation` in state `g` returning tag `r`, with focus `f'` afterwards -/

def hasEligible (g : Agenda) (grp : Nat) : Bool := g.acts.any (fun a => inGroup grp a && eligible g a)

def firstWith (p : Nat → Bool) : List Nat → Option Nat
  | [] => none
  | x :: t => if p x then some x else firstWith p t

def lastOf (x : Nat) : List Nat → Nat
  | [] => x
  | y :: t => lastOf y t

/-- focus fall-back: the activation comes from the first group of `focus :: focus_stack` that has an eligible
pending activation; when there is none the answer is `None` and the focus rests at the bottom of the stack -/
def okFocus (g : Agenda) (r : Option Act) (f' : Nat) : Bool :=
  match r with
  | some _ => firstWith (hasEligible g) (g.focus :: g.stack) == some f'
  | none => firstWith (hasEligible g) (g.focus :: g.stack) == none && f' == lastOf g.focus g.stack

/-- the returned activation is pending, in the group that has the focus afterwards -/
def okMember (g : Agenda) (r : Act) (f' : Nat) : Bool := g.acts.any (fun a => noId a == r) && inGroup f' r

/-- no-loop: a no-loop rule marked fired since the last reset is not returned -/
def okNoLoop (g : Agenda) (r : Act) : Bool := !(r.noLoop && g.fired.contains r.rule)

/-- activation group: once a rule of the group fired, no activation of the group is returned -/
def okActGroup (g : Agenda) (r : Act) : Bool := !(optIn r.actg g.firedAG)

def okLock (g : Agenda) (r : Act) : Bool := !(r.lock && g.locked.contains r.ag)

/-- order: the returned activation is at least as urgent (higher salience, then earlier creation) as every
eligible pending activation of the focused group.  (Ids are not mentioned: equal (salience, created) pairs may
come out in either order.) -/
def okMax (g : Agenda) (r : Act) (f' : Nat) : Bool :=
  g.acts.all (fun b => !(inGroup f' b && eligible g b) || ordGe r b)

def popOk (g : Agenda) (r : Option Act) (f' : Nat) : Bool :=
  okFocus g r f' &&
  (match r with
   | none => true
   | some a => okMember g a f' && okNoLoop g a && okActGroup g a && okLock g a && okMax g a f')

def statsOk (g' : Agenda) (o : Obs) : Bool :=
  o.focus == g'.focus && o.total == g'.acts.length && o.nfired == g'.fired.length && o.nfiredAG == g'.firedAG.length

/-- one step of the oracle: the clauses for a pop are evaluated in the state *before* the call; the state is
advanced by the model's `step` (deterministic whenever (salience, created) pairs within a group are distinct). -/
def stepOk (g : Agenda) (op : Op) (o : Obs) : Bool :=
  (match o.res with
   | some r => isPop op && popOk g r o.focus
   | none => !isPop op) &&
  statsOk (step g op).1 o

/-- whole-history oracle (histories without (salience, created) ties inside a group) -/
def runOk : Agenda → List Op → List Obs → Bool
  | _, [], [] => true
  | g, op :: ops, o :: os => stepOk g op o && runOk (step g op).1 ops os
  | _, _, _ => false

/-- no two `add`s of the history share (agenda group, salience, created): then `Ord` is total on what is pending -/
def keysDistinct : List Op → List (Nat × Int × Nat) → Bool
  | [], _ => true
  | .add a :: os, seen => !seen.contains (a.ag, a.sal, a.created) && keysDistinct os ((a.ag, a.sal, a.created) :: seen)
  | _ :: os, seen => keysDistinct os seen

/-! #### tie-insensitive oracle: follows the *observed* pops, so it is valid whatever order `BinaryHeap` gives
to equal elements.  It tracks the fired sets and everything accepted since the last `clear`, and checks that each
returned activation was accepted, sits in the focused group, and is eligible (no-loop once between resets,
activation group once, lock-on-active). -/

/-- weak step: `w.acts` = everything accepted since the last clear (never removed); focus/stack are not tracked -/
def wstep (w : Agenda) (op : Op) (o : Obs) : Option Agenda :=
  if isPop op then
    match o.res with
    | some none => some w
    | some (some r) =>
      if w.acts.any (fun a => noId a == r) && inGroup o.focus r && eligible w r then
        some (if op == .popMark then w.mark r else w)
      else none
    | none => none
  else if o.res == none then some (step w op).1 else none

def runOkWeak : Agenda → List Op → List Obs → Bool
  | _, [], [] => true
  | w, op :: ops, o :: os =>
    match wstep w op o with
    | some w' => runOkWeak w' ops os
    | none => false
  | _, _, _ => false

/-! #### fire loops -/

/-- what a `fire_all` run shows: it returned, having fired `n` rules.  `IncrementalEngine`: at most `bound`
firings; the two map engines: at most `bound` passes of at most one firing per rule each -/
def fireAllOk (bound rules : Nat) (perPass : Bool) (n : Nat) : Bool :=
  if perPass then n ≤ bound * rules else n ≤ bound

/-! #### engine histories (several `fire_all` calls on one `IncrementalEngine`) -/

/-- the no-loop flag of rule `n` of an engine case (rule i is named "R<i>") -/
def isNoLoopOf (rules : List CRule) (n : Nat) : Bool :=
  match rules[n]? with
  | some r => r.noLoop
  | none => false

/-- no-loop inside one returned list: walking through the names, a no-loop rule already in `since` (fired since the last
reset) must not appear; returns the extended set -/
def noLoopNames (isNoLoop : Nat → Bool) : List Nat → List Nat → Option (List Nat)
  | since, [] => some since
  | since, n :: ns => if isNoLoop n && since.contains n then none else noLoopNames isNoLoop (setInsert n since) ns

/-- **a no-loop rule fires at most once between resets**, over a whole history of calls: the set of rules fired since the
last `reset` is carried from one `fire_all` call to the next (whatever happens in between — inserts, updates, retracts, a
call that stopped at the iteration bound) and emptied by `reset` only.  Also every call returns at most `bound` names and
handles are handed out in sequence. -/
def histOk (isNoLoop : Nat → Bool) (bound : Nat) : List Nat → Nat → List HOp → List HRes → Bool
  | _, _, [], [] => true
  | since, next, .fire :: ops, .fired names :: rs =>
    decide (names.length ≤ bound) &&
    (match noLoopNames isNoLoop since names with
     | some since' => histOk isNoLoop bound since' next ops rs
     | none => false)
  | _, next, .reset :: ops, .unit :: rs => histOk isNoLoop bound [] next ops rs
  | since, next, .insert _ _ :: ops, .handle h :: rs => h == next && histOk isNoLoop bound since (next + 1) ops rs
  | since, next, .update _ _ _ :: ops, .ok _ :: rs => histOk isNoLoop bound since next ops rs
  | since, next, .retract _ :: ops, .ok _ :: rs => histOk isNoLoop bound since next ops rs
  | _, _, _, _ => false

/-- which clause of `histOk` fails first, with the index of the call -/
def histBad (isNoLoop : Nat → Bool) (bound : Nat) : Nat → List Nat → Nat → List HOp → List HRes → String
  | _, _, _, [], [] => "histOk"
  | i, since, next, .fire :: ops, .fired names :: rs =>
    if names.length > bound then s!"fire_all_bounded:count:H@{i}" else
    (match noLoopNames isNoLoop since names with
     | some since' => histBad isNoLoop bound (i + 1) since' next ops rs
     | none => s!"no_loop_once_between_resets@{i}")
  | i, _, next, .reset :: ops, .unit :: rs => histBad isNoLoop bound (i + 1) [] next ops rs
  | i, since, next, .insert _ _ :: ops, .handle h :: rs =>
    if h == next then histBad isNoLoop bound (i + 1) since (next + 1) ops rs else s!"handle_sequence@{i}"
  | i, since, next, .update _ _ _ :: ops, .ok _ :: rs => histBad isNoLoop bound (i + 1) since next ops rs
  | i, since, next, .retract _ :: ops, .ok _ :: rs => histBad isNoLoop bound (i + 1) since next ops rs
  | i, _, _, _, _ => s!"shape@{i}"

/-! #### liveness over engine histories: what `fire_all` must return given the working memory and agenda the calls so far
produced.  Everything below is computed from the CASE (rules, calls) and the implementation's own OBSERVATIONS (handles, Ok/Err
of update / retract, earlier fired lists) — not from the model. -/

/-- the working memory as the caller knows it: handles returned by `insert`, contents replaced by an `Ok` update, removed by an
`Ok` retract -/
def obsFacts (fs : List (Nat × Int × Int)) : HOp → HRes → List (Nat × Int × Int)
  | .insert a b, .handle h => fs ++ [(h, a, b)]
  | .update h a b, .ok true => fs.map (fun f => if f.1 == h then (h, a, b) else f)
  | .retract h, .ok true => fs.filter (fun f => f.1 != h)
  | _, _ => fs

/-- the call propagated: afterwards EVERY (rule, live fact) pair whose condition holds has a pending activation created for the
fact's current contents (`insert` / `update` / `retract` → `propagate_changes_for_type`, every rule depends on type `C`) -/
def propagates : HOp → HRes → Bool
  | .insert _ _, .handle _ => true
  | .update _ _ _, .ok true => true
  | .retract _, .ok true => true
  | _, _ => false

/-- what is known about the agenda before a `fire_all`: `all` = every current match is pending (a propagating call happened since
the last `fire_all`), `empty` = nothing is pending (the last `fire_all` ran to quiescence and nothing propagated since),
`unknown` = the last `fire_all` stopped at its bound and nothing propagated since -/
inductive Pend where
  | all | empty | unknown
deriving Repr, DecidableEq

/-- rules that have an eligible pending activation in state `Pend.all`: the condition holds for some live fact, and the rule is
not a no-loop rule that fired since the last reset -/
def eligibleRules (rules : List CRule) (facts : List (Nat × Int × Int)) (since : List Nat) : List Nat :=
  (enumFrom 0 rules).filterMap (fun p => if (!p.2.noLoop || !since.contains p.1) && facts.any (cMatches p.2) then some p.1 else none)

def prioOf (rules : List CRule) (n : Nat) : Int :=
  match rules[n]? with
  | some r => r.prio
  | none => 0

/-- descending salience inside one returned list -/
def prioSorted (rules : List CRule) : List Nat → Bool
  | a :: b :: t => decide (prioOf rules b ≤ prioOf rules a) && prioSorted rules (b :: t)
  | _ => true

/-- one `fire_all` that returned `names` (fewer than the bound: it ran to quiescence):
`all`: **every rule with an eligible pending activation fired** (a dropped — stale / retracted — activation of a rule must not
consume the rule: the other pending activations of that rule are still eligible), and the names come **in descending salience**
(actions are no-ops: whatever is re-created during the call was pending before); `empty`: **nothing fires**. -/
def fireLiveOk (rules : List CRule) (bound : Nat) (p : Pend) (facts : List (Nat × Int × Int)) (since names : List Nat) : Bool :=
  decide (names.length ≥ bound) ||
  (match p with
   | .all => (eligibleRules rules facts since).all (fun i => names.contains i) && prioSorted rules names
   | .empty => names.isEmpty
   | .unknown => true)

def liveOk (rules : List CRule) (bound : Nat) : Pend → List (Nat × Int × Int) → List Nat → List HOp → List HRes → Bool
  | _, _, _, [], [] => true
  | p, facts, since, .fire :: ops, .fired names :: rs =>
    fireLiveOk rules bound p facts since names &&
    liveOk rules bound (if names.length ≥ bound then .unknown else .empty) facts (names.foldl (fun s n => setInsert n s) since) ops rs
  | p, facts, _, .reset :: ops, .unit :: rs => liveOk rules bound p facts [] ops rs
  | p, facts, since, op :: ops, r :: rs =>
    liveOk rules bound (if propagates op r then .all else p) (obsFacts facts op r) since ops rs
  | _, _, _, _, _ => false

def liveBad (rules : List CRule) (bound : Nat) : Nat → Pend → List (Nat × Int × Int) → List Nat → List HOp → List HRes → String
  | _, _, _, _, [], [] => "liveOk"
  | i, p, facts, since, .fire :: ops, .fired names :: rs =>
    if !fireLiveOk rules bound p facts since names then
      (match p with
       | .all => if (eligibleRules rules facts since).all (fun i => names.contains i) then s!"fired_in_salience_order:H@{i}"
                 else s!"eligible_pending_activation_fires@{i}"
       | _ => s!"fires_only_pending@{i}")
    else liveBad rules bound (i + 1) (if names.length ≥ bound then .unknown else .empty) facts
      (names.foldl (fun s n => setInsert n s) since) ops rs
  | i, p, facts, _, .reset :: ops, .unit :: rs => liveBad rules bound (i + 1) p facts [] ops rs
  | i, p, facts, since, op :: ops, r :: rs =>
    liveBad rules bound (i + 1) (if propagates op r then .all else p) (obsFacts facts op r) since ops rs
  | i, _, _, _, _, _ => s!"shape@{i}"

/-! #### named rule sets on the two map engines (`M` cases) -/

/-- a no-loop rule NAME: every rule registered under the name is no-loop -/
def nameNoLoop (rules : List NRule) (n : Nat) : Bool := rules.all (fun r => r.name != n || r.noLoop)

/-- firing a registration of name `n` may overwrite the marker of name `k` with a value the engine does NOT read as fired (the
action of some registration of `n` carries `marks = some k` with such a value): that forgets `k`'s no-loop memory exactly like a
`reset_fired_flags` restricted to `k` (when `k = n` the engine's own write after the action wins, see `noLoopNamesM`) -/
def clearedBy (fv : Nat → Bool) (rules : List NRule) (n k : Nat) : Bool :=
  rules.any (fun r => r.name == n && r.marks == some k && !fv r.mval)

/-- `noLoopNames` for the map engines: walking through the returned names, a no-loop name already in `since` is a violation;
otherwise the markers its action may have overwritten with a non-fired value leave `since`, then the name itself enters -/
def noLoopNamesM (isNoLoop : Nat → Bool) (clr : Nat → Nat → Bool) : List Nat → List Nat → Option (List Nat)
  | since, [] => some since
  | since, n :: t =>
    if isNoLoop n && since.contains n then none
    else noLoopNamesM isNoLoop clr (setInsert n (since.filter (fun k => !clr n k))) t

/-- **a no-loop rule name fires at most once between resets** (`reset_fired_flags`, or an overwrite of the name's `<name>_fired`
fact with a value the engine does not read as fired — by the caller (`marker n v` with `fv v = false`) or by a rule's action
(`clr`)), over a whole history of calls on one map engine, whatever the number of registrations of the name; and every call
returns at most `maxFire` names -/
def mhistOk (isNoLoop : Nat → Bool) (clr : Nat → Nat → Bool) (fv : Nat → Bool) (maxFire : Nat) : List Nat → List MOp → List MRes → Bool
  | _, [], [] => true
  | since, .fire :: ops, .fired names _ _ :: rs =>
    decide (names.length ≤ maxFire) &&
    (match noLoopNamesM isNoLoop clr since names with
     | some since' => mhistOk isNoLoop clr fv maxFire since' ops rs
     | none => false)
  | _, .reset :: ops, .unit :: rs => mhistOk isNoLoop clr fv maxFire [] ops rs
  | since, .set _ _ :: ops, .unit :: rs => mhistOk isNoLoop clr fv maxFire since ops rs
  | since, .marker n v :: ops, .unit :: rs =>
    mhistOk isNoLoop clr fv maxFire (if fv v then since else since.filter (· != n)) ops rs
  | _, _, _ => false

def mhistBad (tag : String) (isNoLoop : Nat → Bool) (clr : Nat → Nat → Bool) (fv : Nat → Bool) (maxFire : Nat) :
    Nat → List Nat → List MOp → List MRes → String
  | _, _, [], [] => "mhistOk"
  | i, since, .fire :: ops, .fired names _ _ :: rs =>
    if names.length > maxFire then s!"fire_all_bounded:count:{tag}@{i}" else
    (match noLoopNamesM isNoLoop clr since names with
     | some since' => mhistBad tag isNoLoop clr fv maxFire (i + 1) since' ops rs
     | none => s!"no_loop_once_between_resets:{tag}@{i}")
  | i, _, .reset :: ops, .unit :: rs => mhistBad tag isNoLoop clr fv maxFire (i + 1) [] ops rs
  | i, since, .set _ _ :: ops, .unit :: rs => mhistBad tag isNoLoop clr fv maxFire (i + 1) since ops rs
  | i, since, .marker n v :: ops, .unit :: rs =>
    mhistBad tag isNoLoop clr fv maxFire (i + 1) (if fv v then since else since.filter (· != n)) ops rs
  | i, _, _, _ => s!"shape:{tag}@{i}"

/-! #### rules whose actions retract facts (`K` cases) -/

/-- a no-loop rule NAME of an action rule set: every registration of the name is no-loop -/
def nameNoLoopA (rules : List (Nat × CRule × List RAct)) (n : Nat) : Bool := rules.all (fun r => r.1 != n || r.2.1.noLoop)

end C07
