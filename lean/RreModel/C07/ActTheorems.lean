import RreModel.C07.Lemmas
/-
C07 — the no-loop clause over engine histories of an `IncrementalEngine` whose rules' ACTIONS queue retractions (`K` cases, model
`IncA`): whatever the queued results do — succeed, fail (unknown / already retracted handle), remove the rule's own fact or another
rule's — the rule is marked fired after its action ran, so a no-loop rule name never fires twice between resets.
-/
namespace C07

/-- an activation of a no-loop NAME carries the no-loop flag -/
def FlagA (rules : List (Nat × CRule × List RAct)) (a : Act) : Prop := nameNoLoopA rules a.rule = true → a.noLoop = true

theorem add_flagP (P : Act → Prop) (hid : ∀ (a : Act) (i : Nat), P a → P { a with id := i }) (g : Agenda) (a : Act) (ha : P a)
    (hg : ∀ x ∈ g.acts, P x) : (g.add a).fired = g.fired ∧ ∀ x ∈ (g.add a).acts, P x := by
  obtain ⟨h1, _, h3, _⟩ := add_fields g a
  refine ⟨h3, ?_⟩
  intro x hx
  rw [h1] at hx
  split at hx
  · exact hg x hx
  · rcases List.mem_append.1 hx with h | h
    · exact hg x h
    · simp only [List.mem_singleton] at h; subst h; exact hid a _ ha

theorem flagA_id (rules : List (Nat × CRule × List RAct)) (a : Act) (i : Nat) (h : FlagA rules a) : FlagA rules { a with id := i } := h

theorem foldl_add_flagA (rules : List (Nat × CRule × List RAct)) (i : Nat) (r : CRule)
    (hr : nameNoLoopA rules i = true → r.noLoop = true) :
    ∀ (ms : List (Nat × Int × Int)) (p : Agenda × Nat), (∀ x ∈ p.1.acts, FlagA rules x) →
      (ms.foldl (fun (p : Agenda × Nat) f =>
        (p.1.add { rule := i, sal := r.prio, noLoop := r.noLoop, created := p.2, handle := some f.1 }, p.2 + 1)) p).1.fired = p.1.fired ∧
      ∀ x ∈ (ms.foldl (fun (p : Agenda × Nat) f =>
        (p.1.add { rule := i, sal := r.prio, noLoop := r.noLoop, created := p.2, handle := some f.1 }, p.2 + 1)) p).1.acts, FlagA rules x := by
  intro ms
  induction ms with
  | nil => intro p hp; exact ⟨rfl, hp⟩
  | cons f fs ih =>
    intro p hp
    simp only [List.foldl_cons]
    have hflag : FlagA rules { rule := i, sal := r.prio, noLoop := r.noLoop, created := p.2, handle := some f.1 } := hr
    obtain ⟨a1, a2⟩ := add_flagP (FlagA rules) (flagA_id rules) p.1 _ hflag hp
    obtain ⟨b1, b2⟩ := ih (p.1.add { rule := i, sal := r.prio, noLoop := r.noLoop, created := p.2, handle := some f.1 }, p.2 + 1) a2
    exact ⟨b1.trans a1, b2⟩

theorem incAddMatches_flagA (rules : List (Nat × CRule × List RAct)) (sk : Bool) (facts : List (Nat × Int × Int)) :
    ∀ (l : List (Nat × CRule)), (∀ ir ∈ l, nameNoLoopA rules ir.1 = true → ir.2.noLoop = true) → ∀ (g : Agenda) (c : Nat),
      (∀ x ∈ g.acts, FlagA rules x) →
      (incAddMatches sk l facts g c).1.fired = g.fired ∧ ∀ x ∈ (incAddMatches sk l facts g c).1.acts, FlagA rules x := by
  intro l
  induction l with
  | nil => intro _ g c hg; exact ⟨rfl, hg⟩
  | cons ir rs ih =>
    intro hl g c hg
    obtain ⟨i, r⟩ := ir
    have hr := hl (i, r) (by simp)
    have hl' : ∀ ir ∈ rs, nameNoLoopA rules ir.1 = true → ir.2.noLoop = true := fun ir h => hl ir (List.mem_cons_of_mem _ h)
    simp only [incAddMatches]
    split
    · exact ih hl' g c hg
    · obtain ⟨a1, a2⟩ := foldl_add_flagA rules i r hr (facts.filter (cMatches r)) (g, c) hg
      obtain ⟨b1, b2⟩ := ih hl' _ _ a2
      exact ⟨b1.trans a1, b2⟩

/-- every registration of a no-loop name is no-loop -/
theorem crules_flag (rules : List (Nat × CRule × List RAct)) :
    ∀ ir ∈ rules.map (fun r => (r.1, r.2.1)), nameNoLoopA rules ir.1 = true → ir.2.noLoop = true := by
  intro ir h hn
  obtain ⟨q, hq, rfl⟩ := List.mem_map.1 h
  have := List.all_eq_true.1 hn q hq
  simpa using this

/-- invariant of an action history (`HInv` for `IncA`), with the handle counter -/
structure HInvA (rules : List (Nat × CRule × List RAct)) (nh : Nat) (e : IncA) (since : List Nat) : Prop where
  rules_eq : e.rules = rules
  nh_eq : e.nextHandle = nh
  sub : ∀ n ∈ since, n ∈ e.ag.fired
  flags : ∀ a ∈ e.ag.acts, FlagA rules a

/-- propagation (`propagate_changes` / `propagate_changes_for_type`) only adds activations -/
theorem hinvA_propagate (rules : List (Nat × CRule × List RAct)) (nh : Nat) (e : IncA) (since : List Nat) (sk : Bool)
    (facts ofacts : List (Nat × Int × Int)) (nh' : Nat) (hI : HInvA rules nh e since) :
    HInvA rules nh' { e with facts := facts, nextHandle := nh',
                             ag := (incAddMatches sk e.crules ofacts e.ag e.clock).1,
                             clock := (incAddMatches sk e.crules ofacts e.ag e.clock).2 } since := by
  obtain ⟨b1, b2⟩ := incAddMatches_flagA rules sk ofacts e.crules
    (by rw [IncA.crules, hI.rules_eq]; exact crules_flag rules) e.ag e.clock hI.flags
  exact ⟨hI.rules_eq, rfl, fun n hn => by simp only; rw [b1]; exact hI.sub n hn, b2⟩

theorem hinvA_propagate_same (rules : List (Nat × CRule × List RAct)) (nh : Nat) (e : IncA) (since : List Nat) (sk : Bool)
    (facts ofacts : List (Nat × Int × Int)) (hI : HInvA rules nh e since) :
    HInvA rules nh { e with facts := facts,
                            ag := (incAddMatches sk e.crules ofacts e.ag e.clock).1,
                            clock := (incAddMatches sk e.crules ofacts e.ag e.clock).2 } since := by
  obtain ⟨b1, b2⟩ := incAddMatches_flagA rules sk ofacts e.crules
    (by rw [IncA.crules, hI.rules_eq]; exact crules_flag rules) e.ag e.clock hI.flags
  exact ⟨hI.rules_eq, hI.nh_eq, fun n hn => by simp only; rw [b1]; exact hI.sub n hn, b2⟩

theorem hinvA_retract (rules : List (Nat × CRule × List RAct)) (nh : Nat) (e : IncA) (since : List Nat) (h : Nat)
    (hI : HInvA rules nh e since) : HInvA rules nh (e.retract h).1 since := by
  unfold IncA.retract
  split
  · exact hinvA_propagate_same rules nh e since false (e.facts.filter (fun f => f.1 != h))
      (ordFacts e.perm (e.facts.filter (fun f => f.1 != h))) hI
  · exact hI

theorem hinvA_update (rules : List (Nat × CRule × List RAct)) (nh : Nat) (e : IncA) (since : List Nat) (h : Nat) (a b : Int)
    (hI : HInvA rules nh e since) : HInvA rules nh (e.update h a b).1 since := by
  unfold IncA.update
  split
  · exact hinvA_propagate_same rules nh e since false (e.facts.map (fun f => if f.1 == h then (h, a, b) else f))
      (ordFacts e.perm (e.facts.map (fun f => if f.1 == h then (h, a, b) else f))) hI
  · exact hI

/-- one queued result: a retraction that succeeds propagates, one that fails changes nothing -/
theorem hinvA_applyAct (rules : List (Nat × CRule × List RAct)) (nh : Nat) (e : IncA) (since : List Nat) (a : Act) (x : RAct)
    (hI : HInvA rules nh e since) : HInvA rules nh (e.applyAct a x) since := by
  cases x with
  | own =>
    simp only [IncA.applyAct]
    split
    · exact hinvA_retract rules nh e since _ hI
    · exact hI
  | handle h => exact hinvA_retract rules nh e since h hI
  | byType =>
    simp only [IncA.applyAct]
    split
    · exact hinvA_retract rules nh e since _ hI
    · exact hI

theorem hinvA_foldl (rules : List (Nat × CRule × List RAct)) (nh : Nat) (since : List Nat) (a : Act) :
    ∀ (xs : List RAct) (e : IncA), HInvA rules nh e since → HInvA rules nh (xs.foldl (fun e x => e.applyAct a x) e) since := by
  intro xs
  induction xs with
  | nil => intro e h; exact h
  | cons x xs ih => intro e h; exact ih _ (hinvA_applyAct rules nh e since a x h)

theorem incSkip_incA : ∀ (k : Nat) (e : IncA),
    (incSkip incPopA incStaleA k e).2.rules = e.rules ∧
    (incSkip incPopA incStaleA k e).2.nextHandle = e.nextHandle ∧ (incSkip incPopA incStaleA k e).2.ag.fired = e.ag.fired ∧
    (∀ x ∈ (incSkip incPopA incStaleA k e).2.ag.acts, x ∈ e.ag.acts) ∧
    (∀ a, (incSkip incPopA incStaleA k e).1 = some a → a ∈ e.ag.acts ∧ okNoLoop e.ag a = true) := by
  intro k
  induction k with
  | zero =>
    intro e
    simp only [incSkip, incPopA]
    exact ⟨by trivial, by trivial, (getNext_sets e.ag).1, (getNext_spec e.ag).sub, by intro a h; simp at h⟩
  | succ k ih =>
    intro e
    simp only [incSkip, incPopA]
    cases hp : e.ag.getNext.1 with
    | none => exact ⟨by trivial, by trivial, (getNext_sets e.ag).1, (getNext_spec e.ag).sub, by intro a h; simp at h⟩
    | some a =>
      obtain ⟨_, k2, _, k4, _⟩ := (getNext_spec e.ag).some_ a hp
      simp only
      split
      · obtain ⟨i1, i3, i4, i5, i6⟩ := ih { e with ag := e.ag.getNext.2 }
        refine ⟨i1, i3, i4.trans (getNext_sets e.ag).1, fun x hx => (getNext_spec e.ag).sub x (i5 x hx), ?_⟩
        intro b hb
        obtain ⟨j1, j2⟩ := i6 b hb
        refine ⟨(getNext_spec e.ag).sub b j1, ?_⟩
        simpa [okNoLoop, (getNext_sets e.ag).1] using j2
      · refine ⟨by trivial, by trivial, (getNext_sets e.ag).1, (getNext_spec e.ag).sub, ?_⟩
        intro b hb
        simp only [Option.some.injEq] at hb
        subst hb
        exact ⟨k2, (eligible_parts k4).1⟩

/-- one `fire_all` call inside an action history -/
theorem incLoop_histA (rules : List (Nat × CRule × List RAct)) (nh : Nat) : ∀ (fuel : Nat) (e : IncA) (out since : List Nat),
    HInvA rules nh e since →
    ∃ new since', (incLoop incPopA incStaleA (fun e => e.ag.acts.length) incBodyA fuel e out).2 = out ++ new ∧
      noLoopNames (nameNoLoopA rules) since new = some since' ∧
      HInvA rules nh (incLoop incPopA incStaleA (fun e => e.ag.acts.length) incBodyA fuel e out).1 since' := by
  have hstop : ∀ (e e1 : IncA) (since : List Nat), HInvA rules nh e since →
      (incSkip incPopA incStaleA e.ag.acts.length e).2 = e1 → HInvA rules nh e1 since := by
    intro e e1 since hI h
    obtain ⟨i1, i3, i4, i5, _⟩ := incSkip_incA e.ag.acts.length e
    rw [h] at i1 i3 i4 i5
    exact ⟨i1.trans hI.rules_eq, i3.trans hI.nh_eq, fun n hn => by rw [i4]; exact hI.sub n hn, fun a ha => hI.flags a (i5 a ha)⟩
  intro fuel
  induction fuel with
  | zero =>
    intro e out since hI
    unfold incLoop
    rcases hsk : incSkip incPopA incStaleA e.ag.acts.length e with ⟨_ | a, e1⟩
    · exact ⟨[], since, by simp, rfl, hstop e e1 since hI (by rw [hsk])⟩
    · exact ⟨[], since, by simp, rfl, hstop e e1 since hI (by rw [hsk])⟩
  | succ n ih =>
    intro e out since hI
    unfold incLoop
    rcases hsk : incSkip incPopA incStaleA e.ag.acts.length e with ⟨_ | a, e1⟩
    · exact ⟨[], since, by simp, rfl, hstop e e1 since hI (by rw [hsk])⟩
    · have hI1 := hstop e e1 since hI (by rw [hsk])
      obtain ⟨_, _, i4, _, i6⟩ := incSkip_incA e.ag.acts.length e
      rw [hsk] at i4 i6
      simp only at i4
      obtain ⟨hmem, hok⟩ := i6 a rfl
      simp only
      -- the body: global re-propagation, the queued results, then mark
      have hP := hinvA_propagate_same rules nh e1 since true e1.facts (ordFacts e1.perm e1.facts) hI1
      have hF := hinvA_foldl rules nh since a (e1.actsOf a.rule) _ hP
      have hI2 : HInvA rules nh (incBodyA e1 a).1 (setInsert a.rule since) := by
        refine ⟨hF.rules_eq, hF.nh_eq, ?_, ?_⟩
        · intro m hm
          simp only [incBodyA, Agenda.mark]
          rcases mem_setInsert.1 hm with h | h
          · exact mem_setInsert.2 (Or.inl h)
          · exact mem_setInsert.2 (Or.inr (hF.sub m h))
        · intro x hx
          simp only [incBodyA] at hx
          rw [(mark_focus _ a).2.1] at hx
          exact hF.flags x hx
      obtain ⟨new, since', k1, k2, k3⟩ := ih (incBodyA e1 a).1 (out ++ [(incBodyA e1 a).2]) (setInsert a.rule since) hI2
      refine ⟨a.rule :: new, since', by rw [k1]; simp [incBodyA], ?_, k3⟩
      simp only [noLoopNames]
      have hcond : (nameNoLoopA rules a.rule && since.contains a.rule) = false := by
        cases hnl : nameNoLoopA rules a.rule with
        | false => rfl
        | true =>
          have hfl : a.noLoop = true := hI.flags a hmem hnl
          have hnc : e.ag.fired.contains a.rule = false := by simpa [okNoLoop, hfl] using hok
          have : ¬ a.rule ∈ since := fun hc => by
            have := hI.sub a.rule hc
            simp_all
          simpa using this
      rw [hcond]
      simpa using k2

theorem histOk_traceA (rules : List (Nat × CRule × List RAct)) : ∀ (hops : List HOp) (e : IncA) (since : List Nat),
    HInvA rules e.nextHandle e since →
    histOk (nameNoLoopA rules) incBound since e.nextHandle hops (e.htrace hops) = true := by
  intro hops
  induction hops with
  | nil => intro e since _; simp [IncA.htrace, histOk]
  | cons op ops ih =>
    intro e since hI
    cases op with
    | insert a b =>
      simp only [IncA.htrace, IncA.hstep, histOk, beq_self_eq_true, Bool.true_and]
      have h := hinvA_propagate rules e.nextHandle e since false (e.facts ++ [(e.nextHandle, a, b)])
        (ordFacts e.perm (e.facts ++ [(e.nextHandle, a, b)])) (e.nextHandle + 1) hI
      exact ih (e.insert a b) since h
    | update h a b =>
      simp only [IncA.htrace, IncA.hstep, histOk]
      have h1 := hinvA_update rules e.nextHandle e since h a b hI
      have h2 := ih (e.update h a b).1 since (by rw [h1.nh_eq]; exact h1)
      rw [h1.nh_eq] at h2
      exact h2
    | retract h =>
      simp only [IncA.htrace, IncA.hstep, histOk]
      have h1 := hinvA_retract rules e.nextHandle e since h hI
      have h2 := ih (e.retract h).1 since (by rw [h1.nh_eq]; exact h1)
      rw [h1.nh_eq] at h2
      exact h2
    | fire =>
      simp only [IncA.htrace, IncA.hstep, histOk, IncA.fireAll]
      obtain ⟨new, since', k1, k2, k3⟩ := incLoop_histA rules e.nextHandle incBound e [] since hI
      have hlen := incLoop_length incPopA incStaleA (fun e => e.ag.acts.length) incBodyA incBound e []
      simp only [List.nil_append] at k1
      rw [k1] at hlen ⊢
      rw [k2]
      simp only [List.length_nil, Nat.zero_add] at hlen
      simp only [Bool.and_eq_true, decide_eq_true_eq]
      refine ⟨hlen, ?_⟩
      have h2 := ih _ since' (by rw [k3.nh_eq]; exact k3)
      rw [k3.nh_eq] at h2
      exact h2
    | reset =>
      simp only [IncA.htrace, IncA.hstep, histOk]
      have hI' : HInvA rules e.nextHandle { e with ag := e.ag.reset } [] :=
        ⟨hI.rules_eq, hI.nh_eq, by intro n hn; simp at hn, by simpa [Agenda.reset] using hI.flags⟩
      exact ih { e with ag := e.ag.reset } [] hI'

/-- **no_loop_once_between_resets, over engine histories with actions that retract facts.**  One `IncrementalEngine` with ANY list of
named rules (a name may be registered several times) whose actions queue ANY lists of retractions — of the rule's own matched fact, of
an arbitrary handle (live, already retracted by another rule or by the same action, never existing: the failing retraction is ignored),
of the first fact of the type — with ANY iteration order `perm` of the type index, driven through ANY sequence of insert / update /
retract / fire_all / reset calls: walking through the names returned by the successive `fire_all` calls, a name all of whose
registrations are no-loop never appears a second time unless a `reset` came in between; every call returns at most 1000 names; handles
are handed out in sequence.  This is the predicate `histOk` (with `nameNoLoopA`) the driver evaluates on the implementation's
observations of the `K` cases. -/
theorem no_loop_once_action_history (rules : List (Nat × CRule × List RAct)) (perm : List Nat) (hops : List HOp) :
    histOk (nameNoLoopA rules) incBound [] 1 hops (({ rules := rules, perm := perm } : IncA).htrace hops) = true :=
  histOk_traceA rules hops { rules := rules, perm := perm } []
    ⟨rfl, rfl, by intro n hn; simp at hn, by intro a ha; simp at ha⟩

/-! Non-vacuity: `Settle` (name 1, no-loop, salience 10) queues the retraction of handle 1, which `Release` (name 0, salience 20,
retracts its own fact) has already retracted: the retraction fails, `Settle` is still marked — one firing although two more facts
match it, and none in the next call after a further insert. -/
def release : Nat × CRule × List RAct := (0, { prio := 20, noLoop := true, ck := false, limit := 1, ak := false, inc := 0 }, [.own])
def settle : Nat × CRule × List RAct := (1, { prio := 10, noLoop := true, ck := false, limit := 100, ak := false, inc := 0 }, [.handle 1])
example : (({ rules := [release, settle], perm := [1, 2, 3] } : IncA).htrace [.insert 0 0, .insert 5 5, .fire, .insert 7 7, .fire, .retract 1]) =
    [.handle 1, .handle 2, .fired [0, 1], .handle 3, .fired [], .ok false] := by decide +kernel
example : nameNoLoopA [release, settle] 1 = true := by decide

end C07
