/-
C07 — model of `src/rete/agenda.rs` (`Activation`, `impl Ord for Activation`, `AdvancedAgenda`) and of the
three `fire_all` loops of the RETE family:
  * `IncrementalEngine::fire_all`            (src/rete/propagation.rs, `max_iterations = 1000`)
  * `fire_rete_ul_rules_with_agenda`         (src/rete/network.rs, `max_iterations = 100`; `ReteUlEngine::fire_all`)
  * `TypedReteUlEngine::fire_all`            (src/rete/network.rs; bound 100 added by fix-C07.patch — the
                                              unchanged code has none, and Lean does not accept the unfuelled loop)
Strings (rule names, group names) are `Nat` identifiers (agenda group 0 = "MAIN"); `HashSet<String>` are
duplicate-free lists; the per-group `BinaryHeap`s are one list of pending activations from which `pop`
extracts the maximum w.r.t. `Ord` (the trusted `BinaryHeap` contract).  `created_at : Instant` is a tick count;
when two activations have equal salience and equal tick the Rust order is unspecified — the model breaks the
tie by the internal `id` (see Spec: the order clauses only speak about (salience, created)).
-/
namespace C07

structure Act where
  rule : Nat
  sal : Int
  ag : Nat := 0                 -- agenda_group
  actg : Option Nat := none     -- activation_group
  rfg : Option Nat := none      -- ruleflow_group
  noLoop : Bool := true
  lock : Bool := false          -- lock_on_active
  autoFocus : Bool := false
  created : Nat := 0            -- created_at
  tag : Nat := 0                -- caller-visible identity (harness: `condition_count`); not used by the agenda
  handle : Option Nat := none   -- matched_fact_handle (used by C06)
  id : Nat := 0                 -- internal id, assigned by add_activation
deriving Repr, DecidableEq

/-- `impl Ord for Activation`, made total by the id: `rank a b` = "a pops no later than b". -/
def rank (a b : Act) : Bool :=
  decide (b.sal < a.sal ∨ (a.sal = b.sal ∧ (a.created < b.created ∨ (a.created = b.created ∧ a.id ≤ b.id))))

/-- what `Ord` really compares: higher salience, then earlier creation (`a` at least as urgent as `b`) -/
def ordGe (a b : Act) : Bool :=
  decide (b.sal < a.sal ∨ (a.sal = b.sal ∧ a.created ≤ b.created))

structure Agenda where
  acts : List Act := []         -- every pending activation (all heaps together)
  focus : Nat := 0
  stack : List Nat := []        -- focus_stack, head = top
  fired : List Nat := []        -- fired_rules
  firedAG : List Nat := []      -- fired_activation_groups
  locked : List Nat := []       -- locked_groups
  activeRf : List Nat := []     -- active_ruleflow_groups
  nextId : Nat := 0
deriving Repr, DecidableEq

def Agenda.new : Agenda := {}

def setInsert (x : Nat) (l : List Nat) : List Nat := if l.contains x then l else l ++ [x]

/-- `AdvancedAgenda::set_focus` -/
def Agenda.setFocus (g : Agenda) (grp : Nat) : Agenda :=
  if grp ≠ g.focus then { g with stack := g.focus :: g.stack, focus := grp } else g

def optIn (o : Option Nat) (l : List Nat) : Bool :=
  match o with
  | some x => l.contains x
  | none => false

def optNotIn (o : Option Nat) (l : List Nat) : Bool :=
  match o with
  | some x => !l.contains x
  | none => false

/-- `add_activation` after the auto-focus step: activation-group / ruleflow-group tests, id, push -/
def Agenda.addCore (g : Agenda) (a : Act) : Agenda :=
  if optIn a.actg g.firedAG || optNotIn a.rfg g.activeRf then g
  else { g with acts := g.acts ++ [{ a with id := g.nextId }], nextId := g.nextId + 1 }

/-- `AdvancedAgenda::add_activation` -/
def Agenda.add (g : Agenda) (a : Act) : Agenda :=
  (if a.autoFocus && a.ag != g.focus then g.setFocus a.ag else g).addCore a

/-- the three skip tests of `get_next_activation` -/
def eligible (g : Agenda) (a : Act) : Bool :=
  !(a.noLoop && g.fired.contains a.rule) && !(a.lock && g.locked.contains a.ag) && !(optIn a.actg g.firedAG)

/-- `BinaryHeap::pop` on a list: the element that `rank`s first, and the others -/
def extractBest : List Act → Option (Act × List Act)
  | [] => none
  | a :: t =>
    match extractBest t with
    | none => some (a, [])
    | some (m, r) => if rank a m then some (a, m :: r) else some (m, a :: r)

theorem extractBest_length {l : List Act} {m : Act} {r : List Act} (h : extractBest l = some (m, r)) :
    r.length + 1 = l.length := by
  induction l generalizing m r with
  | nil => simp [extractBest] at h
  | cons a t ih =>
    simp only [extractBest] at h
    cases ht : extractBest t with
    | none =>
      cases t with
      | nil => simp [ht] at h; obtain ⟨_, rfl⟩ := h; simp
      | cons b t' =>
        simp only [extractBest] at ht
        cases h2 : extractBest t' with
        | none => simp [h2] at ht
        | some p => simp [h2] at ht; split at ht <;> simp at ht
    | some p =>
      obtain ⟨m', r'⟩ := p
      have := ih ht
      simp only [ht] at h
      split at h <;> simp at h <;> obtain ⟨_, rfl⟩ := h <;> simp <;> omega

/-- the inner `while let Some(activation) = heap.pop()` of `get_next_activation`: skipped activations are
discarded.  Every iteration removes one element, so `heap.length` iterations suffice (`extractBest_length`):
the fuel is the loop's own termination measure. -/
def popEligibleF (g : Agenda) : Nat → List Act → Option Act × List Act
  | 0, _ => (none, [])
  | n + 1, heap =>
    match extractBest heap with
    | none => (none, [])
    | some (m, rest) => if eligible g m then (some m, rest) else popEligibleF g n rest

def popEligible (g : Agenda) (heap : List Act) : Option Act × List Act := popEligibleF g heap.length heap

def inGroup (grp : Nat) (a : Act) : Bool := a.ag == grp

/-- the outer `loop` of `get_next_activation`: on an exhausted focus pop the focus stack; with an empty stack
return `None` (the focus stays where it is). `acts` = all pending activations. -/
def getNextAux (g : Agenda) : List Act → Nat → List Nat → Option Act × List Act × Nat × List Nat
  | acts, focus, [] =>
    match popEligible g (acts.filter (inGroup focus)) with
    | (some a, rest) => (some a, acts.filter (fun x => !inGroup focus x) ++ rest, focus, [])
    | (none, _) => (none, acts.filter (fun x => !inGroup focus x), focus, [])
  | acts, focus, f :: st =>
    match popEligible g (acts.filter (inGroup focus)) with
    | (some a, rest) => (some a, acts.filter (fun x => !inGroup focus x) ++ rest, focus, f :: st)
    | (none, _) => getNextAux g (acts.filter (fun x => !inGroup focus x)) f st

/-- `AdvancedAgenda::get_next_activation` -/
def Agenda.getNext (g : Agenda) : Option Act × Agenda :=
  let r := getNextAux g g.acts g.focus g.stack
  (r.1, { g with acts := r.2.1, focus := r.2.2.1, stack := r.2.2.2 })

/-- `AdvancedAgenda::mark_rule_fired` -/
def Agenda.mark (g : Agenda) (a : Act) : Agenda :=
  { g with fired := setInsert a.rule g.fired,
           firedAG := (match a.actg with | some x => setInsert x g.firedAG | none => g.firedAG),
           locked := if a.lock then setInsert a.ag g.locked else g.locked }

/-- `AdvancedAgenda::reset_fired_flags` -/
def Agenda.reset (g : Agenda) : Agenda := { g with fired := [], firedAG := [], locked := [] }

/-- `AdvancedAgenda::clear` (active ruleflow groups and `next_id` survive, as in the code) -/
def Agenda.clear (g : Agenda) : Agenda :=
  { g with acts := [], focus := 0, stack := [], fired := [], firedAG := [], locked := [] }

def Agenda.activateRf (g : Agenda) (x : Nat) : Agenda := { g with activeRf := setInsert x g.activeRf }
def Agenda.deactivateRf (g : Agenda) (x : Nat) : Agenda := { g with activeRf := g.activeRf.filter (· != x) }

/-- operations of a history -/
inductive Op where
  | add (a : Act)
  | pop                       -- get_next_activation
  | popMark                   -- get_next_activation, then mark_rule_fired on the result (the engines' pattern)
  | mark (a : Act)            -- mark_rule_fired on an arbitrary activation
  | focus (g : Nat)
  | reset
  | clear
  | rfOn (g : Nat)
  | rfOff (g : Nat)
  | strategy                  -- set_strategy: heaps are rebuilt with the same `Ord` — no observable change
deriving Repr, DecidableEq

/-- one API call: new state and the activation returned (pops only) -/
def step (g : Agenda) : Op → Agenda × Option Act
  | .add a => (g.add a, none)
  | .pop => let r := g.getNext; (r.2, r.1)
  | .popMark =>
    let r := g.getNext
    match r.1 with
    | some a => (r.2.mark a, some a)
    | none => (r.2, none)
  | .mark a => (g.mark a, none)
  | .focus x => (g.setFocus x, none)
  | .reset => (g.reset, none)
  | .clear => (g.clear, none)
  | .rfOn x => (g.activateRf x, none)
  | .rfOff x => (g.deactivateRf x, none)
  | .strategy => (g, none)

def run (g : Agenda) : List Op → Agenda
  | [] => g
  | o :: os => run (step g o).1 os

/-! ### The three fire loops -/

/-- the skipping steps of `IncrementalEngine::fire_all` [after fix-C06b]: `pop` = `self.agenda.get_next_activation()`,
`skip s a` = the tests that `continue` (rule unknown, matched fact retracted, re-validation false): the activation is dropped and
nothing else happens.  These steps are not counted against `max_iterations`; they end because every pop removes an
activation — the fuel of this inner loop is that termination measure (`size s` pending activations, see `incSkip_fuel`). -/
def incSkip {σ : Type} (pop : σ → Option Act × σ) (skip : σ → Act → Bool) : Nat → σ → Option Act × σ
  | 0, s => (none, (pop s).2)
  | k + 1, s =>
    match pop s with
    | (none, s') => (none, s')
    | (some a, s') => if skip s' a then incSkip pop skip k s' else (some a, s')

/-- `IncrementalEngine::fire_all` skeleton, for an arbitrary engine state `σ`: skip to the next activation that passes the
tests; `body` = execution of that activation (it may add any activations; returns the rule name).  `fuel` = executions still
allowed (`max_iterations - iteration_count`): only executed activations are counted; the valid activation that exceeds the
bound is consumed and the loop breaks. -/
def incLoop {σ : Type} (pop : σ → Option Act × σ) (skip : σ → Act → Bool) (size : σ → Nat) (body : σ → Act → σ × Nat) :
    Nat → σ → List Nat → σ × List Nat
  | fuel, s, out =>
    match incSkip pop skip (size s) s with
    | (none, s') => (s', out)
    | (some a, s') =>
      match fuel with
      | 0 => (s', out)
      | n + 1 =>
        let r := body s' a
        incLoop pop skip size body n r.1 (out ++ [r.2])

def incBound : Nat := 1000
def ulBound : Nat := 100
def typedBound : Nat := 100

/-- a rule of the two facts-map engines, over an abstract facts type -/
structure URule (σ : Type) where
  name : Nat
  prio : Int
  noLoop : Bool
  cond : σ → Bool
  act : σ → σ

/-- stable insertion of an index by descending priority (`sort_by_key(|&i| -priority)`, a stable sort) -/
def insertByPrio (i : Nat) (p : Int) : List (Nat × Int) → List (Nat × Int)
  | [] => [(i, p)]
  | (j, q) :: t => if p > q then (i, p) :: (j, q) :: t else (j, q) :: insertByPrio i p t

def sortAgenda (idx : List (Nat × Int)) : List (Nat × Int) :=
  idx.foldl (fun acc x => insertByPrio x.1 x.2 acc) []

/-- indices (with priority) of the rules selected by `keep`, in rule order -/
def selectIdx {σ : Type} (keep : URule σ → Bool) : Nat → List (URule σ) → List (Nat × Int)
  | _, [] => []
  | i, r :: rs => if keep r then (i, r.prio) :: selectIdx keep (i + 1) rs else selectIdx keep (i + 1) rs

/-- "for &i in &agenda" of `fire_rete_ul_rules_with_agenda`: (fix-C07c) skip a no-loop rule whose NAME fired earlier in this call
or whose `<name>_fired` fact is set (`isFired name s`); otherwise execute, record, set the `<name>_fired` fact.
(Before fix-C07c there was no re-check: two registrations of one no-loop name both fired in the same pass — F-C07c.) -/
def ulFirePass {σ : Type} (rules : List (URule σ)) (setFired : Nat → σ → σ) (isFired : Nat → σ → Bool) :
    List (Nat × Int) → σ → List Nat → List Nat → σ × List Nat × List Nat
  | [], s, flags, out => (s, flags, out)
  | (i, _) :: t, s, flags, out =>
    match rules[i]? with
    | some r =>
      if r.noLoop && (flags.contains r.name || isFired r.name s) then ulFirePass rules setFired isFired t s flags out
      else ulFirePass rules setFired isFired t (setFired r.name (r.act s)) (setInsert r.name flags) (out ++ [r.name])
    | none => ulFirePass rules setFired isFired t s flags out

/-- `fire_rete_ul_rules_with_agenda` (`ReteUlEngine::fire_all`); `fuel` = passes still allowed (100).  The agenda holds the
matching rules whose name has not fired in this call and (fix-C07c) that are not no-loop rules whose `<name>_fired` fact is
still set (before fix-C07c the fact was written and removed by `reset_fired_flags` but never read: a no-loop rule fired again
in the next `fire_all` with no reset in between — F-C07c). -/
def ulLoop {σ : Type} (rules : List (URule σ)) (setFired : Nat → σ → σ) (isFired : Nat → σ → Bool) :
    Nat → σ → List Nat → List Nat → σ × List Nat
  | 0, s, _, out => (s, out)
  | n + 1, s, flags, out =>
    let agenda := selectIdx (fun r => !flags.contains r.name && !(r.noLoop && isFired r.name s) && r.cond s) 0 rules
    if agenda.isEmpty then (s, out)
    else
      let r := ulFirePass rules setFired isFired (sortAgenda agenda) s flags out
      if rules.all (·.noLoop) then (r.1, r.2.2) else ulLoop rules setFired isFired n r.1 r.2.1 r.2.2

/-- "for &i in &agenda" of `TypedReteUlEngine::fire_all`; `isFired name s` reads the `<name>_fired` fact -/
def typedFirePass {σ : Type} (rules : List (URule σ)) (setFired : Nat → σ → σ) (isFired : Nat → σ → Bool) :
    List (Nat × Int) → σ → List Nat → List Nat → Bool → σ × List Nat × List Nat × Bool
  | [], s, flags, out, ch => (s, flags, out, ch)
  | (i, _) :: t, s, flags, out, ch =>
    match rules[i]? with
    | some r =>
      if r.noLoop && (flags.contains r.name || isFired r.name s) then
        typedFirePass rules setFired isFired t s flags out ch
      else
        typedFirePass rules setFired isFired t (setFired r.name (r.act s)) (setInsert r.name flags) (out ++ [r.name]) true
    | none => typedFirePass rules setFired isFired t s flags out ch

/-- `TypedReteUlEngine::fire_all` with the iteration guard of fix-C07.patch; `fuel` = passes still allowed.
(Without the guard this `while changed` loop has no decreasing measure: F-C07.) -/
def typedLoop {σ : Type} (rules : List (URule σ)) (setFired : Nat → σ → σ) (isFired : Nat → σ → Bool) :
    Nat → σ → List Nat → List Nat → σ × List Nat
  | 0, s, _, out => (s, out)
  | n + 1, s, flags, out =>
    let agenda := selectIdx
      (fun r => (!r.noLoop || !(flags.contains r.name || isFired r.name s)) && r.cond s) 0 rules
    let r := typedFirePass rules setFired isFired (sortAgenda agenda) s flags out false
    if r.2.2.2 then typedLoop rules setFired isFired n r.1 r.2.1 r.2.2.1 else (r.1, r.2.2.1)

/-! ### Concrete instances run by the driver (correspondence with the three engines) -/

/-- facts of the two map engines in the engine cases: two integer counters `C.a`, `C.b` and the fired flags -/
structure CFacts where
  a : Int
  b : Int
  firedFlags : List Nat := []
deriving Repr, DecidableEq

/-- rule of an engine case: `when C.<ck> < limit then C.<ak> = C.<ak> + inc` -/
structure CRule where
  prio : Int
  noLoop : Bool
  ck : Bool        -- false = a, true = b
  limit : Int
  ak : Bool
  inc : Int
deriving Repr, DecidableEq

def CFacts.get (s : CFacts) (k : Bool) : Int := if k then s.b else s.a
def CFacts.bump (s : CFacts) (k : Bool) (d : Int) : CFacts := if k then { s with b := s.b + d } else { s with a := s.a + d }

def toURule (i : Nat) (r : CRule) : URule CFacts :=
  { name := i, prio := r.prio, noLoop := r.noLoop, cond := fun s => decide (s.get r.ck < r.limit),
    act := fun s => s.bump r.ak r.inc }

def toURules : Nat → List CRule → List (URule CFacts)
  | _, [] => []
  | i, r :: rs => toURule i r :: toURules (i + 1) rs

def cSetFired (n : Nat) (s : CFacts) : CFacts := { s with firedFlags := setInsert n s.firedFlags }
def cIsFired (n : Nat) (s : CFacts) : Bool := s.firedFlags.contains n

def ulFireAll (rules : List CRule) (s : CFacts) : CFacts × List Nat :=
  ulLoop (toURules 0 rules) cSetFired cIsFired ulBound s [] []

def typedFireAll (rules : List CRule) (s : CFacts) : CFacts × List Nat :=
  typedLoop (toURules 0 rules) cSetFired cIsFired typedBound s [] []

/-- `IncrementalEngine` restricted to what the C07 engine cases use: facts of one type `C` that no action
changes (conditions are evaluated per fact, actions are no-ops), so only the agenda traffic matters. -/
structure Inc where
  ag : Agenda := {}
  facts : List (Nat × Int × Int) := []     -- (handle, a, b), all live
  rules : List CRule := []
  nextHandle : Nat := 1
  clock : Nat := 0

def cMatches (r : CRule) (f : Nat × Int × Int) : Bool := decide ((if r.ck then f.2.2 else f.2.1) < r.limit)

/-- add one activation per (rule, fact) pair whose condition holds -/
def incAddMatches (skipFired : Bool) : List (Nat × CRule) → List (Nat × Int × Int) → Agenda → Nat → Agenda × Nat
  | [], _, g, c => (g, c)
  | (i, r) :: rs, facts, g, c =>
    if skipFired && r.noLoop && g.fired.contains i then incAddMatches skipFired rs facts g c
    else
      let ms := facts.filter (cMatches r)
      let g' := ms.foldl (fun (p : Agenda × Nat) f =>
        (p.1.add { rule := i, sal := r.prio, noLoop := r.noLoop, created := p.2, handle := some f.1 }, p.2 + 1)) (g, c)
      incAddMatches skipFired rs facts g'.1 g'.2

def enumFrom {α : Type} : Nat → List α → List (Nat × α)
  | _, [] => []
  | i, x :: xs => (i, x) :: enumFrom (i + 1) xs

/-- `IncrementalEngine::insert` → `propagate_changes_for_type` (every rule depends on type `C`) -/
def Inc.insert (e : Inc) (a b : Int) : Inc :=
  let facts := e.facts ++ [(e.nextHandle, a, b)]
  let r := incAddMatches false (enumFrom 0 e.rules) facts e.ag e.clock
  { e with facts := facts, nextHandle := e.nextHandle + 1, ag := r.1, clock := r.2 }

def incPop (e : Inc) : Option Act × Inc := (e.ag.getNext.1, { e with ag := e.ag.getNext.2 })

/-- body of the loop for a no-op action: the matched fact is live, nothing changes, `propagate_changes`
re-creates every match (skipping no-loop rules that already fired), then the rule is marked fired -/
def incBody (e : Inc) (a : Act) : Inc × Nat :=
  let r := incAddMatches true (enumFrom 0 e.rules) e.facts e.ag e.clock
  ({ e with ag := r.1.mark a, clock := r.2 }, a.rule)

/-- no fact is ever retracted or changed in these cases: no activation is skipped -/
def Inc.fireAll (e : Inc) : Inc × List Nat :=
  incLoop incPop (fun _ _ => false) (fun e => e.ag.acts.length) incBody incBound e []

/-! ### Engine histories: several `fire_all` calls on one `IncrementalEngine`, with inserts / updates / retracts / resets in
between.  What survives a `fire_all` call is the agenda: pending activations (a call that stops at `max_iterations` leaves
the rest of the agenda where it is), the fired-rule set, the focus.  Only `reset` (`reset_fired_flags`) forgets which
no-loop rules have fired. -/

/-- `IncrementalEngine::update` → `propagate_changes_for_type`; `false` = `Err` (unknown or retracted handle) -/
def Inc.update (e : Inc) (h : Nat) (a b : Int) : Inc × Bool :=
  if e.facts.any (·.1 == h) then
    let facts := e.facts.map (fun f => if f.1 == h then (h, a, b) else f)
    let r := incAddMatches false (enumFrom 0 e.rules) facts e.ag e.clock
    ({ e with facts := facts, ag := r.1, clock := r.2 }, true)
  else (e, false)

/-- `IncrementalEngine::retract` → `propagate_changes_for_type` (explicit facts: empty TMS cascade) -/
def Inc.retract (e : Inc) (h : Nat) : Inc × Bool :=
  if e.facts.any (·.1 == h) then
    let facts := e.facts.filter (fun f => f.1 != h)
    let r := incAddMatches false (enumFrom 0 e.rules) facts e.ag e.clock
    ({ e with facts := facts, ag := r.1, clock := r.2 }, true)
  else (e, false)

/-- `IncrementalEngine::reset` -/
def Inc.reset (e : Inc) : Inc := { e with ag := e.ag.reset }

/-- the tests of `fire_all` that `continue`: rule unknown, matched fact retracted, or (fix-C06) the matched fact's current
contents no longer satisfy the rule -/
def incStale (e : Inc) (a : Act) : Bool :=
  match e.rules[a.rule]?, a.handle with
  | some r, some h =>
    (match e.facts.find? (·.1 == h) with
     | some f => !cMatches r f
     | none => true)
  | _, _ => true

/-- `fire_all` in a history: facts may have been updated or retracted since an activation was created -/
def Inc.fireAllH (e : Inc) : Inc × List Nat :=
  incLoop incPop incStale (fun e => e.ag.acts.length) incBody incBound e []

/-! ### activations queued by the CALLER on the engine's own agenda (`engine.agenda_mut().add_activation(…)`, `G` cases) -/

/-- `fire_all` re-validates an activation only when it carries a matched fact handle: an activation of a known rule without one is
executed as it is -/
def incStaleM (e : Inc) (a : Act) : Bool :=
  match e.rules[a.rule]?, a.handle with
  | some _, none => false
  | _, _ => incStale e a

def Inc.fireAllM (e : Inc) : Inc × List Nat :=
  incLoop incPop incStaleM (fun e => e.ag.acts.length) incBody incBound e []

/-- `Activation::new(rule, salience).with_no_loop(nl)[.with_activation_group(x)][.with_matched_fact(h)]` (created now) handed to
`add_activation` of the engine's agenda -/
def Inc.addAct (e : Inc) (rule : Nat) (sal : Int) (actg : Option Nat) (nl : Bool) (h : Option Nat) : Inc :=
  { e with ag := e.ag.add { rule := rule, sal := sal, actg := actg, noLoop := nl, created := e.clock, handle := h },
           clock := e.clock + 1 }

inductive HOp where
  | insert (a b : Int)
  | update (h : Nat) (a b : Int)
  | retract (h : Nat)
  | fire
  | reset
deriving Repr, DecidableEq

inductive HRes where
  | handle (h : Nat)
  | ok (b : Bool)
  | fired (names : List Nat)
  | unit
deriving Repr, DecidableEq

def Inc.hstep (e : Inc) : HOp → Inc × HRes
  | .insert a b => (e.insert a b, .handle e.nextHandle)
  | .update h a b => let r := e.update h a b; (r.1, .ok r.2)
  | .retract h => let r := e.retract h; (r.1, .ok r.2)
  | .fire => let r := e.fireAllH; (r.1, .fired r.2)
  | .reset => (e.reset, .unit)

def Inc.htrace (e : Inc) : List HOp → List HRes
  | [] => []
  | o :: os => (e.hstep o).2 :: Inc.htrace (e.hstep o).1 os

/-! ### Named rule sets on the two map engines, several calls (`M` cases): rule names are explicit, so the SAME name may be
registered more than once (no-loop is tracked by NAME: the per-call `fired_flags` set and the `<name>_fired` fact). -/

structure NRule where
  name : Nat
  prio : Int
  noLoop : Bool
  ck : Bool
  limit : Int
  ak : Bool
  inc : Int
  marks : Option Nat := none  -- the action also sets the fact `N<mk>_fired` (a marker that appears during a cycle) …
  mval : Nat := 0             -- … to the value with this code (see `markerFired`; 0 = the engine's own "fired" value)
deriving Repr, DecidableEq

/-- What each map engine READS as "fired" in a `<name>_fired` fact, per value code of the `M` cases.  The model state
`CFacts.firedFlags` is the set of names whose marker fact is currently read as fired; a marker fact with any other value is
indistinguishable from an absent one for both loops (the value itself is never observed).
* `ReteUlEngine` (`typed = false`; `fire_rete_ul_rules_with_agenda`, filter and re-check): `facts.get(..).map(String::as_str) ==
  Some("true")` — exactly the string "true".  Codes: 0, 1 = "true", 2 = "false", 3 = "", 4 = "0", 5 = "1", 6 = "TRUE", 7 = "True",
  8 = " true", 9 = "true ", 10 = "yes", 11.. = other strings.
* `TypedReteUlEngine` (`typed = true`): `facts.get(..).and_then(|v| v.as_boolean()) == Some(true)` with `FactValue::as_boolean`
  (src/rete/facts.rs): Boolean(b) ↦ b; Integer(i) ↦ i ≠ 0; String(s) ↦ lower-case s ∈ {"true","yes","1"} (true), {"false","no","0"}
  (false), else None; Null ↦ false.  Codes 1..10 = String(the string above), 0, 11 = Boolean(true), 12 = Boolean(false),
  13 = Integer(1), 14 = Integer(0), 15 = Null. -/
def markerFired (typed : Bool) (v : Nat) : Bool :=
  if typed then v == 0 || v == 1 || v == 5 || v == 6 || v == 7 || v == 10 || v == 11 || v == 13
  else v == 0 || v == 1

def cClearFired (n : Nat) (s : CFacts) : CFacts := { s with firedFlags := s.firedFlags.filter (· != n) }

/-- `set_fact("N<n>_fired", value v)` / the same insertion by a rule's action: the fact is overwritten -/
def cMark (typed : Bool) (n v : Nat) (s : CFacts) : CFacts := if markerFired typed v then cSetFired n s else cClearFired n s

def toNURule (typed : Bool) (r : NRule) : URule CFacts :=
  { name := r.name, prio := r.prio, noLoop := r.noLoop, cond := fun s => decide (s.get r.ck < r.limit),
    act := fun s =>
      match r.marks with
      | some k => cMark typed k r.mval (s.bump r.ak r.inc)
      | none => s.bump r.ak r.inc }

inductive MOp where
  | fire                      -- fire_all
  | reset                     -- reset_fired_flags: removes every `*_fired` fact
  | set (a b : Int)           -- set_fact C.a / C.b
  | marker (n : Nat) (v : Nat := 0)  -- set_fact `N<n>_fired = <value with code v>` from outside
deriving Repr, DecidableEq

inductive MRes where
  | fired (names : List Nat) (a b : Int)
  | unit
deriving Repr, DecidableEq

/-- one call on `TypedReteUlEngine` (`typed = true`) / `ReteUlEngine`.  Both read the `<name>_fired` facts for no-loop rules
(`ReteUlEngine` since fix-C07c); `ReteUlEngine` additionally lets every rule NAME fire at most once per call. -/
def mstep (typed : Bool) (rules : List NRule) (s : CFacts) : MOp → CFacts × MRes
  | .fire =>
    let r := if typed then typedLoop (rules.map (toNURule true)) cSetFired cIsFired typedBound s [] []
             else ulLoop (rules.map (toNURule false)) cSetFired cIsFired ulBound s [] []
    (r.1, .fired r.2 r.1.a r.1.b)
  | .reset => ({ s with firedFlags := [] }, .unit)
  | .set a b => ({ s with a := a, b := b }, .unit)
  | .marker n v => (cMark typed n v s, .unit)

def mtrace (typed : Bool) (rules : List NRule) (s : CFacts) : List MOp → List MRes
  | [] => []
  | o :: os => (mstep typed rules s o).2 :: mtrace typed rules (mstep typed rules s o).1 os


/-! ### Named rule sets on `IncrementalEngine` (`M I` cases): `add_rule` accepts any number of rules with one NAME.  An activation
carries the name, the salience and the no-loop flag of the registration that created it; the agenda's fired-rule set is a set of
NAMES; `fire_all` looks the rule up by name and finds the FIRST registration (its node re-validates the activation, its action
runs).  Same loop skeleton (`incLoop`) and agenda as `Inc`; only the rule table is keyed by explicit names. -/

structure IncN where
  ag : Agenda := {}
  facts : List (Nat × Int × Int) := []
  rules : List (Nat × CRule) := []         -- (name, rule) in registration order
  nextHandle : Nat := 1
  clock : Nat := 0

def IncN.insert (e : IncN) (a b : Int) : IncN :=
  let facts := e.facts ++ [(e.nextHandle, a, b)]
  let r := incAddMatches false e.rules facts e.ag e.clock
  { e with facts := facts, nextHandle := e.nextHandle + 1, ag := r.1, clock := r.2 }

def IncN.update (e : IncN) (h : Nat) (a b : Int) : IncN × Bool :=
  if e.facts.any (·.1 == h) then
    let facts := e.facts.map (fun f => if f.1 == h then (h, a, b) else f)
    let r := incAddMatches false e.rules facts e.ag e.clock
    ({ e with facts := facts, ag := r.1, clock := r.2 }, true)
  else (e, false)

def IncN.retract (e : IncN) (h : Nat) : IncN × Bool :=
  if e.facts.any (·.1 == h) then
    let facts := e.facts.filter (fun f => f.1 != h)
    let r := incAddMatches false e.rules facts e.ag e.clock
    ({ e with facts := facts, ag := r.1, clock := r.2 }, true)
  else (e, false)

def incPopN (e : IncN) : Option Act × IncN := (e.ag.getNext.1, { e with ag := e.ag.getNext.2 })

def incBodyN (e : IncN) (a : Act) : IncN × Nat :=
  let r := incAddMatches true e.rules e.facts e.ag e.clock
  ({ e with ag := r.1.mark a, clock := r.2 }, a.rule)

/-- `.find(|(_, r)| r.name == activation.rule_name)`: the first registration of the name -/
def incStaleN (e : IncN) (a : Act) : Bool :=
  match e.rules.find? (fun p => p.1 == a.rule), a.handle with
  | some p, some h =>
    (match e.facts.find? (·.1 == h) with
     | some f => !cMatches p.2 f
     | none => true)
  | _, _ => true

def IncN.fireAll (e : IncN) : IncN × List Nat :=
  incLoop incPopN incStaleN (fun e => e.ag.acts.length) incBodyN incBound e []

def IncN.hstep (e : IncN) : HOp → IncN × HRes
  | .insert a b => (e.insert a b, .handle e.nextHandle)
  | .update h a b => let r := e.update h a b; (r.1, .ok r.2)
  | .retract h => let r := e.retract h; (r.1, .ok r.2)
  | .fire => let r := e.fireAll; (r.1, .fired r.2)
  | .reset => ({ e with ag := e.ag.reset }, .unit)

def IncN.htrace (e : IncN) : List HOp → List HRes
  | [] => []
  | o :: os => (e.hstep o).2 :: IncN.htrace (e.hstep o).1 os

def NRule.toCRule (r : NRule) : CRule := { prio := r.prio, noLoop := r.noLoop, ck := r.ck, limit := r.limit, ak := r.ak, inc := r.inc }

/-! ### Rules whose ACTIONS retract facts on `IncrementalEngine` (`K` cases).  The action of a rule queues `ActionResult::Retract`
/ `RetractByType` results; `fire_all` runs the action, re-propagates (`propagate_changes`), applies the queued results in order
(`process_action_results`: a retraction that fails — unknown or already retracted handle — is logged and ignored) and THEN marks
the rule fired (`mark_rule_fired`) — whatever the results did.  Same loop skeleton (`incLoop`) and agenda as `Inc` / `IncN`.
`WorkingMemory::get_by_type` iterates a `HashSet<FactHandle>`: the order in which the facts of the type are visited (creation
order of the activations of ONE rule, "first fact of the type") is a permutation `perm` of the handles that is fixed for a run with
at most three inserted facts (no rehash); the driver predicts every permutation. -/

inductive RAct where
  | own                 -- Retract(handle of the matched fact)
  | handle (h : Nat)    -- Retract(FactHandle::new(h))
  | byType              -- RetractByType("C"): the first live fact of the type
deriving Repr, DecidableEq

structure IncA where
  ag : Agenda := {}
  facts : List (Nat × Int × Int) := []
  rules : List (Nat × CRule × List RAct) := []    -- (name, rule, queued results) in registration order
  perm : List Nat := []                           -- iteration order of the type index (handles not listed come last)
  nextHandle : Nat := 1
  clock : Nat := 0

def IncA.crules (e : IncA) : List (Nat × CRule) := e.rules.map (fun r => (r.1, r.2.1))

/-- `get_by_type("C")` -/
def ordFacts (perm : List Nat) (facts : List (Nat × Int × Int)) : List (Nat × Int × Int) :=
  perm.filterMap (fun h => facts.find? (·.1 == h)) ++ facts.filter (fun f => !perm.contains f.1)

def IncA.insert (e : IncA) (a b : Int) : IncA :=
  let facts := e.facts ++ [(e.nextHandle, a, b)]
  let r := incAddMatches false e.crules (ordFacts e.perm facts) e.ag e.clock
  { e with facts := facts, nextHandle := e.nextHandle + 1, ag := r.1, clock := r.2 }

def IncA.update (e : IncA) (h : Nat) (a b : Int) : IncA × Bool :=
  if e.facts.any (·.1 == h) then
    let facts := e.facts.map (fun f => if f.1 == h then (h, a, b) else f)
    let r := incAddMatches false e.crules (ordFacts e.perm facts) e.ag e.clock
    ({ e with facts := facts, ag := r.1, clock := r.2 }, true)
  else (e, false)

def IncA.retract (e : IncA) (h : Nat) : IncA × Bool :=
  if e.facts.any (·.1 == h) then
    let facts := e.facts.filter (fun f => f.1 != h)
    let r := incAddMatches false e.crules (ordFacts e.perm facts) e.ag e.clock
    ({ e with facts := facts, ag := r.1, clock := r.2 }, true)
  else (e, false)

def incPopA (e : IncA) : Option Act × IncA := (e.ag.getNext.1, { e with ag := e.ag.getNext.2 })

/-- one queued result of `process_action_results`; a failed retraction changes nothing -/
def IncA.applyAct (e : IncA) (a : Act) : RAct → IncA
  | .own => (match a.handle with | some h => (e.retract h).1 | none => e)
  | .handle h => (e.retract h).1
  | .byType => (match (ordFacts e.perm e.facts).head? with | some f => (e.retract f.1).1 | none => e)

/-- the queued results of the FIRST registration of the activation's rule name (the rule `fire_all` looked up) -/
def IncA.actsOf (e : IncA) (name : Nat) : List RAct :=
  match e.rules.find? (fun p => p.1 == name) with
  | some p => p.2.2
  | none => []

/-- loop body: action (facts unchanged), `propagate_changes`, `process_action_results`, `mark_rule_fired` -/
def incBodyA (e : IncA) (a : Act) : IncA × Nat :=
  let r := incAddMatches true e.crules (ordFacts e.perm e.facts) e.ag e.clock
  let e1 : IncA := { e with ag := r.1, clock := r.2 }
  let e2 := (e.actsOf a.rule).foldl (fun e x => e.applyAct a x) e1
  ({ e2 with ag := e2.ag.mark a }, a.rule)

def incStaleA (e : IncA) (a : Act) : Bool :=
  match e.rules.find? (fun p => p.1 == a.rule), a.handle with
  | some p, some h =>
    (match e.facts.find? (·.1 == h) with
     | some f => !cMatches p.2.1 f
     | none => true)
  | _, _ => true

def IncA.fireAll (e : IncA) : IncA × List Nat :=
  incLoop incPopA incStaleA (fun e => e.ag.acts.length) incBodyA incBound e []

def IncA.hstep (e : IncA) : HOp → IncA × HRes
  | .insert a b => (e.insert a b, .handle e.nextHandle)
  | .update h a b => let r := e.update h a b; (r.1, .ok r.2)
  | .retract h => let r := e.retract h; (r.1, .ok r.2)
  | .fire => let r := e.fireAll; (r.1, .fired r.2)
  | .reset => ({ e with ag := e.ag.reset }, .unit)

def IncA.htrace (e : IncA) : List HOp → List HRes
  | [] => []
  | o :: os => (e.hstep o).2 :: IncA.htrace (e.hstep o).1 os

end C07
