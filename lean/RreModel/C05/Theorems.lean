import RreModel.C05.Lemmas
/-
C05 — property theorems (only).  "No text makes a parser or the expression evaluator panic or hang."

Every statement quantifies over **all** strings `s : Str` (any length, any characters, any UTF-8 widths) and
over every Unicode classification `k : Cls`.  `≠ .panic` = no slice off a char boundary / out of range, no
out-of-range index, no `unwrap` on `None`/`Err` in the modelled kernel; `≠ .oof` = the recursion/loop
terminates within the stated fuel, i.e. recursion depth ≤ number of chars + 1.
The kernels are those of the code *after* `fix-C05.patch`; the `…_counterexample`s record that the same
statements are false of the pre-fix slicing code (witnesses replayed on the implementation: corpus/C05).
-/
namespace C05

/-! ### generic lemmas (restated as the obligations named in DESIGN §6 C05) -/

/-- offsets produced by a char-boundary-preserving scan (`char_indices`) are boundaries -/
theorem boundary_of_charIndices' (p q : Str) : splitAtByte (p ++ q) (blen p) = some (p, q) :=
  boundary_of_charIndices p q

/-- the byte after (and before) an ASCII delimiter located at a boundary is a boundary -/
theorem ascii_delim_boundary' {s : Str} {n : Nat} {p q : Str} {c : Char}
    (h : splitAtByte s n = some (p, c :: q)) (hc : c.utf8Size = 1) :
    splitAtByte s (n + 1) = some (p ++ [c], q) ∧ sliceTo s n = some p :=
  ⟨ascii_delim_boundary h hc, by simp [sliceTo, h]⟩

/-- `find(pat)` and `find(pat) + pat.len()` are boundaries, for every string pattern -/
theorem find_plus_len_boundary {s pat : Str} {i : Nat} (h : findStr s pat = some i) :
    (sliceTo s i).isSome ∧ (sliceFrom s (i + blen pat)).isSome := by
  obtain ⟨p, q, _, h1, h2⟩ := find_str_boundary h
  simp [h1, h2]

/-! ### (a) ExpressionParser (src/backward/expression.rs) -/

/-- **parse_total.** `ExpressionParser::parse` returns `Ok` or `Err` on every input: neither the depth fuel
(`chars + 1`) nor the loop fuels run out, and nothing panics. -/
theorem parse_total (k : Cls) (s : Str) : (∃ e, parseExpr k s = .ok e) ∨ parseExpr k s = .err := by
  have hp : PrimGood (parsePrimary k ((trim k s).length + 1)) (trim k s).length :=
    fun r hr => primary_good k _ r (by omega)
  have h := expr_good k hp (trim k s) (Nat.le_refl _)
  unfold parseExpr
  cases hx : parseExpressionWith k (parsePrimary k ((trim k s).length + 1)) (trim k s) with
  | ok e r => left; exact ⟨e, by simp only [hx]⟩
  | err => right; simp only [hx]
  | panic => rw [hx] at h; exact absurd h (by simp [Good])
  | oof => rw [hx] at h; exact absurd h (by simp [Good])

/-- **index_safe.** No indexing of the char vector is out of range (`self.input[next_pos]` in `peek_word`
is the only computed index; it is guarded). -/
theorem index_safe (k : Cls) (s : Str) : parseExpr k s ≠ .panic := by
  rcases parse_total k s with ⟨e, h⟩ | h <;> simp [h]

/-- **depth_le_length.** `parse_primary` (the only recursive entry: `!…` and `(…`) never needs more nesting
than the number of remaining chars + 1: with that much depth fuel it neither runs out nor panics, and it
never returns more input than it was given. -/
theorem depth_le_length (k : Cls) (d : Nat) (r : Str) (h : r.length < d) :
    parsePrimary k d r ≠ .oof ∧ parsePrimary k d r ≠ .panic ∧
    ∀ e r', parsePrimary k d r = .ok e r' → r'.length ≤ r.length := by
  have g := primary_good k d r h
  cases hx : parsePrimary k d r <;> simp_all [Good]

/-- `str::strip_prefix` never panics: the offset `pat.len()` is a char boundary of every string that starts with `pat`
(`find_plus_len_boundary` at offset 0) — for every pattern, also a multi-byte one -/
theorem stripPrefix_no_panic (pat s : Str) : stripPrefixB pat s ≠ none := by
  unfold stripPrefixB
  split
  · rename_i h
    obtain ⟨r, rfl⟩ := List.isPrefixOf_iff_prefix.mp h
    rw [sliceFrom_append]; simp
  · simp

/-- the NOT keyword of `QueryParser::parse` is cut off without a panic, whatever follows it -/
theorem notPrefix_no_panic (t : Str) : ∃ p, notPrefix t = .ok p := by
  unfold notPrefix
  have h := stripPrefix_no_panic "NOT ".toList t
  cases hs : stripPrefixB "NOT ".toList t with
  | none => exact absurd hs h
  | some o => cases o <;> simp

/-- skipping the separator after NOT with a fixed byte offset is NOT safe once the separator is recognised by a character
class: `NOT` + U+00A0 (two bytes, white space for `char::is_whitespace`) slices `[4..]` inside the character -/
theorem notPrefixFixedOffset_counterexample :
    notPrefixFixedOffset ⟨fun c => c == ' ' || c.toNat == 0xa0, fun _ => false, fun _ => false⟩
      ("NOT".toList ++ [Char.ofNat 0xa0] ++ "X == 1".toList) = .panic := by
  decide +kernel

/-- the backward query parser (`QueryParser::parse`) inherits both, including the byte-level NOT handling -/
theorem parseQuery_total (k : Cls) (s : Str) : parseQuery k s ≠ .panic ∧ parseQuery k s ≠ .oof := by
  unfold parseQuery
  split
  · simp
  · obtain ⟨⟨neg, q⟩, hp⟩ := notPrefix_no_panic (trim k s)
    rw [hp]
    simp only []
    rcases parse_total k q with ⟨e, h⟩ | h <;> simp [h]

/-- … and so does `QueryParser::validate` -/
theorem validateQuery_total (k : Cls) (s : Str) : validateQuery k s ≠ .panic ∧ validateQuery k s ≠ .oof := by
  unfold validateQuery
  have := parseQuery_total k s
  cases h : parseQuery k s <;> simp_all

/-- the numeric attributes of a GRL query (`max-depth:`, `max-solutions:`): no digit run — however long — makes the
extraction panic, and what it returns fits `usize`; a run beyond `usize::MAX` is ignored (the default is kept) -/
theorem numAttr_no_panic (key input : Str) :
    ∃ o, numAttr key input = .ok o ∧ ∀ n, o = some n → n ≤ 18446744073709551615 := by
  unfold numAttr
  cases findNumAttr key input with
  | none => exact ⟨none, rfl, by simp⟩
  | some ds =>
    refine ⟨parseUsizeDigits ds, rfl, ?_⟩
    intro n hn
    unfold parseUsizeDigits at hn
    simp only [] at hn
    split at hn
    · cases hn; assumption
    · cases hn

theorem grlQueryNums_no_panic (k : Cls) (s : Str) : ∃ p, grlQueryNums k s = .ok p := by
  unfold grlQueryNums
  obtain ⟨d, hd, _⟩ := numAttr_no_panic "max-depth".toList (trim k s)
  obtain ⟨m, hm, _⟩ := numAttr_no_panic "max-solutions".toList (trim k s)
  simp only [hd, hm]
  exact ⟨_, rfl⟩

/-- unwrapping the conversion instead (`parse().expect(..)`) panics on the first number above `usize::MAX` -/
theorem numAttrUnwrap_counterexample :
    numAttrUnwrap "max-depth".toList "max-depth: 18446744073709551616".toList = .panic
    ∧ numAttr "max-depth".toList "max-depth: 18446744073709551616".toList = .ok none
    ∧ numAttr "max-depth".toList "max-depth: 18446744073709551615".toList = .ok (some 18446744073709551615) := by
  decide +kernel

/-! ### (b) slicing kernels: `∀ s, f s ≠ panic` -/

/-- src/expression.rs `evaluate_expression` / `find_operator` (fixed): no slice panics, on any path -/
theorem evalExpr_no_panic (k : Cls) (s : Str) : evalExpr k s ≠ .panic := by
  unfold evalExpr
  generalize s.length + 1 = fuel
  induction fuel generalizing s with
  | zero => simp [evalShape]
  | succ n ih =>
    simp only [evalShape]
    cases h1 : findOperator ['+', '-'] (trim k s) with
    | some pos =>
      obtain ⟨l, r, hs, _, _⟩ := splitAtOp_of_OpAt addsub_ascii (findOperator_spec h1)
      simp only [hs]
      exact combine_ne_panic (ih _) (ih _)
    | none =>
      simp only []
      cases h2 : findOperator ['*', '/', '%'] (trim k s) with
      | some pos =>
        obtain ⟨l, r, hs, _, _⟩ := splitAtOp_of_OpAt muldiv_ascii (findOperator_spec h2)
        simp only [hs]
        exact combine_ne_panic (ih _) (ih _)
      | none => exact evalLeaf_ne_panic _

/-- (c) `evaluate_expression` terminates: both operands are strictly shorter, so recursion depth ≤ chars + 1 -/
theorem evalShape_total (k : Cls) : ∀ (fuel : Nat) (s : Str), s.length < fuel → evalShape k fuel s ≠ .oof := by
  intro fuel
  induction fuel with
  | zero => intro s h; omega
  | succ n ih =>
    intro s0 hlen
    have ht := length_trim_le k s0
    simp only [evalShape]
    cases h1 : findOperator ['+', '-'] (trim k s0) with
    | some pos =>
      obtain ⟨l, r, hs, hl, hr⟩ := splitAtOp_of_OpAt addsub_ascii (findOperator_spec h1)
      simp only [hs]
      have := length_trim_le k l
      have := length_trim_le k r
      exact combine_ne_oof (ih _ (by omega)) (ih _ (by omega))
    | none =>
      simp only []
      cases h2 : findOperator ['*', '/', '%'] (trim k s0) with
      | some pos =>
        obtain ⟨l, r, hs, hl, hr⟩ := splitAtOp_of_OpAt muldiv_ascii (findOperator_spec h2)
        simp only [hs]
        have := length_trim_le k l
        have := length_trim_le k r
        exact combine_ne_oof (ih _ (by omega)) (ih _ (by omega))
      | none => exact evalLeaf_ne_oof _

theorem evalExpr_total (k : Cls) (s : Str) : evalExpr k s ≠ .oof :=
  evalShape_total k _ s (by omega)

/-- src/parser/grl.rs `parse_value` / `parse_array_literal` (fixed) -/
theorem parseValue_no_panic (k : Cls) (s : Str) : parseValue k s ≠ .panic := by
  unfold parseValue
  generalize s.length + 1 = fuel
  induction fuel generalizing s with
  | zero => simp [parseValueF]
  | succ n ih =>
    simp only [parseValueF]
    split
    · rename_i h
      obtain ⟨m, hm⟩ := bracket_shape (by decide) h.1 h.2
      rw [hm, slice_inner '[' ']' m rfl rfl]
      simp only []
      split
      · simp
      · have := @collect_ne_panic ((arrayElems k (trim k m)).map (parseValueF k n)) (by
          intro r hr; simp at hr; obtain ⟨e, _, rfl⟩ := hr; exact ih e)
        split <;> simp_all
    · exact parseScalar_ne_panic k _

/-- `parse_value` terminates: array elements are strictly shorter than the array literal -/
theorem parseValueF_total (k : Cls) : ∀ (fuel : Nat) (s : Str), s.length < fuel → parseValueF k fuel s ≠ .oof := by
  intro fuel
  induction fuel with
  | zero => intro s h; omega
  | succ n ih =>
    intro s hlen
    have ht := length_trim_le k s
    simp only [parseValueF]
    split
    · rename_i h
      obtain ⟨m, hm⟩ := bracket_shape (by decide) h.1 h.2
      rw [hm, slice_inner '[' ']' m rfl rfl]
      simp only []
      split
      · simp
      · have hm' : m.length + 2 = (trim k s).length := by rw [hm]; simp
        have := @collect_ne_oof ((arrayElems k (trim k m)).map (parseValueF k n)) (by
          intro r hr; simp at hr; obtain ⟨e, he, rfl⟩ := hr
          have h1 := arrayElems_length k _ e he
          have h2 := length_trim_le k m
          exact ih e (by omega))
        cases hc : collect ((arrayElems k (trim k m)).map (parseValueF k n)) with
        | ok vs => simp
        | err => simp
        | panic => simp
        | oof => exact absurd hc this
    · exact parseScalar_ne_oof k _

theorem parseValue_total (k : Cls) (s : Str) : parseValue k s ≠ .oof :=
  parseValueF_total k _ s (by omega)

/-- src/backward/disjunction.rs `split_top_level_or` (fixed): always returns its parts -/
theorem splitTopLevelOr_ok (k : Cls) (s : Str) : ∃ parts, splitTopLevelOr k s = .ok parts :=
  splitOrGo_ok k s 0 {}

/-- `DisjunctionParser::parse` and `contains_or` -/
theorem disjParse_no_panic (k : Cls) (s : Str) :
    (∃ o, disjParse k s = .ok o) ∧ (∃ b, disjContainsOr k s = .ok b) := by
  constructor
  · unfold disjParse
    simp only []
    split
    · rename_i h
      obtain ⟨m, hm⟩ := bracket_shape (by decide) h.1 h.2
      rw [hm, slice_inner '(' ')' m rfl rfl]
      simp only []
      split
      · exact ⟨_, rfl⟩
      · obtain ⟨ps, hps⟩ := splitTopLevelOr_ok k m
        rw [hps]
        simp only []
        split <;> exact ⟨_, rfl⟩
    · exact ⟨_, rfl⟩
  · unfold disjContainsOr
    obtain ⟨ps, hps⟩ := splitTopLevelOr_ok k s
    rw [hps]
    exact ⟨_, rfl⟩

/-- src/backward/grl_query.rs `extract_goal` / `find_goal_end` (fixed) -/
theorem extractGoal_no_panic (k : Cls) (s : Str) : extractGoal k s ≠ .panic ∧ extractGoal k s ≠ .oof := by
  unfold extractGoal
  cases h1 : findStr s "goal:".toList with
  | none => simp
  | some start =>
    obtain ⟨p, q, _, _, h3⟩ := find_str_boundary h1
    have hb : blen "goal:".toList = 5 := by decide
    rw [hb] at h3
    simp only [h3]
    cases h4 : findGoalEnd q with
    | none => simp
    | some e =>
      obtain ⟨g, hg⟩ := findGoalEnd_boundary h4
      simp only [hg]
      split <;> simp

theorem grlQueryParse_no_panic (k : Cls) (s : Str) : grlQueryParse k s ≠ .panic ∧ grlQueryParse k s ≠ .oof := by
  unfold grlQueryParse
  simp only []
  split
  · exact extractGoal_no_panic k _
  · simp

/-- `GRLQueryParser::parse_queries` / `find_matching_brace` (fixed) -/
theorem grlParseQueries_no_panic (k : Cls) (s : Str) : grlParseQueries k s ≠ .panic := by
  unfold grlParseQueries
  generalize (splitOn s "query".toList).drop 1 = parts
  induction parts with
  | nil => simp [queriesGo]
  | cons part rest ih =>
    simp only [queriesGo]
    cases h1 : findMatchingBrace ("query".toList ++ part) with
    | none => exact ih
    | some e =>
      obtain ⟨g, hg⟩ := findMatchingBrace_boundary h1
      simp only [hg]
      have hq := (grlQueryParse_no_panic k g).1
      split <;> simp_all

/-- src/backward/aggregation.rs `parse_function_call` -/
theorem parseFunctionCall_no_panic (k : Cls) (s : Str) : parseFunctionCall k s ≠ .panic := by
  unfold parseFunctionCall
  simp only []
  cases h1 : findChar (trim k s) '(' with
  | none => simp
  | some o =>
    simp only []
    cases h2 : rfindChar (trim k s) ')' with
    | none => simp
    | some c =>
      simp only []
      split
      · simp
      · rename_i hco
        obtain ⟨p1, q1, hs1, ho⟩ := findChar_spec h1
        obtain ⟨p2, q2, hs2, hc⟩ := rfindChar_spec h2
        obtain ⟨m, hm⟩ := prefix_of_blen_lt p1 '(' q1 p2 (')' :: q2) (by rw [← hs1, ← hs2]) (by omega)
        have e1 : sliceTo (trim k s) o = some p1 := by
          rw [hs1, ho]; exact sliceTo_append _ _
        have e2 : slice (trim k s) (o + 1) c = some m := by
          have := slice_append (p1 ++ ['(']) m (')' :: q2)
          rw [hs2, hm, ho, hc, hm]
          have hu : '('.utf8Size = 1 := rfl
          simpa [blen_append, Nat.add_assoc, hu] using this
        simp [e1, e2]

theorem splitOnce_no_panic (s pat : Str) : splitOnce s pat ≠ .panic := by
  unfold splitOnce
  cases h : findStr s pat with
  | none => simp
  | some i =>
    obtain ⟨p, q, _, h1, h2⟩ := find_str_boundary h
    simp [h1, h2]

/-- `parse_aggregate_query` -/
theorem parseAggregate_no_panic (k : Cls) (s : Str) : parseAggregate k s ≠ .panic := by
  unfold parseAggregate
  simp only []
  cases h1 : splitOnce (trim k s) " WHERE ".toList with
  | panic => exact absurd h1 (splitOnce_no_panic _ _)
  | err => simp
  | oof => simp
  | ok o =>
    cases o with
    | none => simp
    | some pr =>
      obtain ⟨fp, pp⟩ := pr
      simp only []
      cases h2 : parseFunctionCall k (trim k fp) with
      | panic => exact absurd h2 (parseFunctionCall_no_panic _ _)
      | err => simp
      | oof => simp
      | ok fv =>
        obtain ⟨fname, v⟩ := fv
        simp only []
        split
        · simp
        · split
          · simp
          · cases h3 : splitOnce (trim k pp) " AND ".toList with
            | panic => exact absurd h3 (splitOnce_no_panic _ _)
            | err => simp
            | oof => simp
            | ok o2 => cases o2 <;> simp

/-- src/backward/nested.rs `has_nested`, `NestedQueryParser::parse` -/
theorem hasNested_no_panic (s : Str) : hasNested s ≠ .panic := hasNestedGo_ne_panic s 0 false

theorem nestedParse_no_panic (k : Cls) (s : Str) : nestedParse k s ≠ .panic := by
  unfold nestedParse
  cases h : findStr s " WHERE ".toList with
  | none => simp
  | some i =>
    obtain ⟨p, q, _, _, h2⟩ := find_str_boundary h
    have hb : blen " WHERE ".toList = 7 := by decide
    rw [hb] at h2
    simp [h2]

/-- src/parser/grl.rs `extract_directive` (`find(directive) + directive.len()`, then `find`/`len`) -/
theorem extractDirective_no_panic (k : Cls) (text directive : Str) : extractDirective k text directive ≠ .panic := by
  unfold extractDirective
  cases h : findStr text directive with
  | none => simp
  | some pos =>
    obtain ⟨p, after, _, _, h2⟩ := find_str_boundary h
    simp only [h2]
    have key : ∀ e, (e = blen after ∨ ∃ pat, findStr after pat = some e) → ∃ d, sliceTo after e = some d := by
      intro e he
      rcases he with rfl | ⟨pat, hp⟩
      · exact ⟨after, by simpa using sliceTo_append after []⟩
      · obtain ⟨p', _, _, h1, _⟩ := find_str_boundary hp
        exact ⟨p', h1⟩
    cases h3 : findStr after "import:".toList with
    | some e =>
      obtain ⟨d, hd⟩ := key e (Or.inr ⟨_, h3⟩)
      simp [hd]
    | none =>
      cases h4 : findStr after "export:".toList with
      | some e =>
        obtain ⟨d, hd⟩ := key e (Or.inr ⟨_, h4⟩)
        simp [hd]
      | none =>
        obtain ⟨d, hd⟩ := key (blen after) (Or.inl rfl)
        simp [hd]

/-- src/parser/grl.rs `parse_action_statement`: the `+=` / `=` split -/
theorem splitAssign_no_panic (s : Str) : splitAssign s ≠ .panic := by
  unfold splitAssign
  cases h : findStr s "+=".toList with
  | some p =>
    obtain ⟨_, _, _, h1, h2⟩ := find_str_boundary h
    have hb : blen "+=".toList = 2 := by decide
    rw [hb] at h2
    simp [h1, h2]
  | none =>
    simp only []
    cases h' : findChar s '=' with
    | none => simp
    | some p =>
      obtain ⟨pre, q, hs, hp⟩ := findChar_spec h'
      have e1 : sliceTo s p = some pre := by rw [hs, hp]; exact sliceTo_append _ _
      have e2 : sliceFrom s (p + 1) = some q := by
        have := sliceFrom_append (pre ++ ['=']) q
        rw [hs, hp]
        have hu : '='.utf8Size = 1 := rfl
        simpa [blen_append, hu] using this
      simp [e1, e2]

/-! ### (c) `parse_when_clause` (src/parser/grl.rs): slicing skeleton, termination, recursion depth -/

/-- **each recursive call of `parse_when_clause` through `||` / `&&` is on a strictly shorter string**: when
`split_logical_operator` returns at least two parts, every part is at least two chars shorter than the clause. -/
theorem splitLogical_parts_shorter (k : Cls) (op : Char) (clause : Str)
    (h2 : 2 ≤ (splitLogical k op clause).length) :
    ∀ p ∈ splitLogical k op clause, p.length + 2 ≤ clause.length :=
  splitLogical_parts_shorter' k op clause h2

/-- the slices of `parse_when_clause` (outer parentheses, `exists(…)`, `forall(…)`, `accumulate(…)`,
`strip_prefix('!')`) never panic, whatever `parse_single_condition` (regex driven, a parameter) and the body of
`parse_accumulate_condition` return, provided these two do not panic themselves -/
theorem parseWhen_no_panic (k : Cls) (leaf accum : Str → R Unit)
    (hl : ∀ s, leaf s ≠ .panic ∧ leaf s ≠ .oof) (ha : ∀ s, accum s ≠ .panic ∧ accum s ≠ .oof) (w : Str) :
    parseWhen k leaf accum w ≠ .panic :=
  (parseWhenF_good k leaf accum hl ha _ w (by omega)).1

/-- `parse_when_clause` terminates with recursion depth ≤ chars + 1 (every recursive call — parts, `!`,
`exists(`, `forall(` — is on a strictly shorter string) -/
theorem parseWhen_total (k : Cls) (leaf accum : Str → R Unit)
    (hl : ∀ s, leaf s ≠ .panic ∧ leaf s ≠ .oof) (ha : ∀ s, accum s ≠ .panic ∧ accum s ≠ .oof) (w : Str) :
    parseWhen k leaf accum w ≠ .oof :=
  (parseWhenF_good k leaf accum hl ha _ w (by omega)).2

/-! ### pre-fix code: the same statements are false (F-C05a–d), by concrete witnesses -/

/-- the full statement for the pre-fix quote test of `parse_value` / `evaluate_expression` -/
def unquoteOld_full : Prop := ∀ s q, q.utf8Size = 1 → unquoteOld s q ≠ none
theorem unquoteOld_counterexample : ¬ unquoteOld_full := by
  intro h; exact h "é".toList '"' rfl (by decide)

/-- pre-fix `find_operator` returns a char index; slicing `é+1` there panics -/
def findOperatorOld_full : Prop :=
  ∀ s pos, findOperatorOld ['+', '-'] s = some pos → (splitAtOp s pos).isSome
theorem findOperatorOld_counterexample : ¬ findOperatorOld_full := by
  intro h; exact absurd (h "é+1".toList 1 (by decide)) (by decide)

/-- pre-fix `&input[i..i+4]` with a char index: `é OR b`, i = 1 -/
def orSliceOld_full : Prop := ∀ (input : Str) (i : Nat), i + 4 ≤ input.length → (orSliceOld input i).isSome
theorem orSliceOld_counterexample : ¬ orSliceOld_full := by
  intro h; exact absurd (h "é OR b".toList 1 (by decide)) (by decide)

/-- pre-fix `find_goal_end` returns a char index; `&after_goal[..end]` panics on ` é\n` -/
def findGoalEndOld_full : Prop := ∀ s e, findGoalEndOld s = some e → (sliceTo s e).isSome
theorem findGoalEndOld_counterexample : ¬ findGoalEndOld_full := by
  intro h; exact absurd (h " é\n".toList 2 (by decide)) (by decide)

/-! ### non-vacuity: concrete instances -/

/-- a classification for the examples: ASCII classes plus `é` alphabetic -/
def exCls : Cls := ⟨fun c => c == ' ', fun c => c.isAlpha || c == 'é', Char.isDigit⟩

example : parseExpr exCls "!(é == 1) && b".toList =
    .ok (.and (.not (.cmp "Equal" (.field ['é']) (.lit .num))) (.field ['b'])) := by decide
example : evalExpr exCls "é+1".toList = .err := by decide
example : evalExpr exCls "'é' + \"b\"".toList = .fine := by decide
example : (match parseValue exCls "[\"é\", 2]".toList with
    | .ok (.arr [.str ['é'], .int 2]) => true | _ => false) = true := by decide
example : disjParse exCls "(é OR b)".toList = .ok (some [['é'], ['b']]) := by
  decide
example : extractGoal exCls "goal: é\nx".toList = .ok ['é'] := by decide
example : splitLogical exCls '&' "a && (b && c) && !d".toList = ["a".toList, "(b && c)".toList, "!d".toList] := by decide
example : parseWhen exCls (fun _ => .ok ()) (fun _ => .ok ()) "(é > 1 || !exists(b)) && forall(c)".toList = .ok () := by
  decide
example : findOperator ['+', '-'] "é+1".toList = some 2 := by decide
example : splitAtByte "é+1".toList 1 = none := by decide

end C05
