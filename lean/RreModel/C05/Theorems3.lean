import RreModel.C05.Lemmas3
import RreModel.C05.Lemmas4
import RreModel.C05.Theorems2
/-
C05 — property theorems, third part: the round trip of the fixed masker; `parse_when_clause` as the code has it now
(recursion through parentheses) with its depth; `extract_variables`; the argument splitting of actions; `parse_import_spec`.
-/
namespace C05

/-! ### P5: `unmask ∘ mask_string_literals = id` for the masker the code has now (after d181cbd and 1cca318) -/

/-- **what leaves the parser is what was written** — for every text: raw `U+0001` / `U+0002` anywhere (in code, inside
literal bodies, inside unterminated literals), placeholder-looking source text with any digits, both quote kinds, empty
literals, literals cut by a line break.  The table has at most one entry per char.  The only hypothesis is the machine
range of the table index (`literals.len().to_string()` is parsed back by `parse::<usize>()`): a Rust `String` has at most
`isize::MAX < usize::MAX` bytes, so it holds of every input the code can be given. -/
theorem mask_roundtrip (s : Str) (h : s.length ≤ usizeMax) :
    ∃ m lits, maskLiterals s = .ok (m, lits) ∧ lits.length ≤ s.length ∧ unmask lits m = .ok s := by
  obtain ⟨m, lits, hm⟩ := maskLiterals_total s
  obtain ⟨ext, h1, h2, h3⟩ := maskGo_spec _ _ _ _ _ hm
  have h1' : lits = ext := by simpa using h1
  subst h1'
  exact ⟨m, lits, hm, h2, unmaskGo_masks lits (by omega) h3 _ (by omega)⟩

/-- the statement of `Theorems2.lean` (`mask_roundtrip_full maskLiterals`), for every text the code can be given -/
theorem mask_roundtrip_holds (s : Str) (h : s.length ≤ usizeMax) :
    ∃ m lits, maskLiterals s = .ok (m, lits) ∧ unmask lits m = .ok s :=
  let ⟨m, lits, h1, _, h3⟩ := mask_roundtrip s h
  ⟨m, lits, h1, h3⟩

/-- … and through `prepare`: unmasking the prepared text gives the comment-stripped source -/
theorem prepare_roundtrip (s : Str) (h : s.length ≤ usizeMax) :
    ∃ m lits, prepare s = .ok (m, lits) ∧ unmask lits m = .ok (stripComments s) :=
  mask_roundtrip_holds (stripComments s) (Nat.le_trans (stripComments_total s) h)

-- non-vacuity: raw delimiters in code, in a literal body, in an unclosed quote, a forged placeholder, an empty literal
example : (5 : Nat) ≤ usizeMax := by decide
example : maskLiterals "\u0001 \"a\u00010\u0002\" '' '\u0001\n\u00010\u0002".toList =
    .ok ("\u00010\u0002 \"\u00011\u0002\" '' '\u00012\u0002\n\u00013\u00020\u0002".toList,
      [[MASK_START], "a\u00010\u0002".toList, [MASK_START], [MASK_START]]) := by decide
example : unmask [[MASK_START], "a\u00010\u0002".toList, [MASK_START], [MASK_START]]
    "\u00010\u0002 \"\u00011\u0002\" '' '\u00012\u0002\n\u00013\u00020\u0002".toList =
    .ok "\u0001 \"a\u00010\u0002\" '' '\u0001\n\u00010\u0002".toList := by decide

/-! ### W: `parse_when_clause` with the recursion through balanced outer parentheses -/

/-- one call of `parse_when_clause` never slices invalidly (`&trimmed[1..len - 1]`, `&clause[7..len - 1]`,
`strip_prefix('!')`), and **every string it calls itself on is strictly shorter than its argument** — the inner text of
`( … )`, each `||` / `&&` part, the text after `!`, the inside of `exists( … )` / `forall( … )` -/
theorem whenStep_shorter (k : Cls) (w : Str) :
    whenStep k w ≠ .panic ∧ ∀ tag subs, whenStep k w = .recur tag subs → ∀ p ∈ subs, p.length < w.length :=
  whenStep_ok k w

example : whenStep exCls2 " ((A == 1 && B == 2)) ".toList = .recur .paren ["(A == 1 && B == 2)".toList] := by decide
example : whenStep exCls2 "(A) || (é)".toList = .recur .or ["(A)".toList, "(é)".toList] := by decide
example : whenStep exCls2 "!exists(é > 1)".toList = .recur .not ["exists(é > 1)".toList] := by decide

/-- the whole recursion never panics and needs no more depth than `chars + 1`: for every builder `node`, whatever
`parse_single_condition` / `parse_accumulate_condition` return, provided these do not panic themselves -/
theorem whenFold_no_panic {α : Type} (k : Cls) (leaf accum : Str → R α) (node : WTag → List α → α)
    (hl : ∀ s, leaf s ≠ .panic ∧ leaf s ≠ .oof) (ha : ∀ s, accum s ≠ .panic ∧ accum s ≠ .oof) (w : Str) :
    whenFold k leaf accum node (w.length + 1) w ≠ .panic ∧ whenFold k leaf accum node (w.length + 1) w ≠ .oof :=
  whenFold_fine k leaf accum node hl ha _ w (by omega)

/-- the outer-parentheses slice at the head of `parse_single_condition` is valid for every clause -/
theorem leafStrip_no_panic (k : Cls) (clause : Str) : ∃ t, leafStrip k clause = .ok t ∧ t.length ≤ clause.length :=
  leafStrip_ok k clause

example : leafStrip exCls2 " ( é == 1 ) ".toList = .ok "é == 1".toList := by decide
example : leafStrip exCls2 "()".toList = .ok [] := by decide

/-- the tree the driver predicts (`parse_when_clause` with the leaf's own slice) is defined for every text -/
theorem whenShape_total (k : Cls) (w : Str) : whenShape k w ≠ .panic ∧ whenShape k w ≠ .oof := by
  unfold whenShape
  apply whenFold_no_panic
  · intro s
    obtain ⟨t, ht, _⟩ := leafStrip_ok k s
    rw [ht]; simp [mapR]
  · intro s; simp

example : whenShape exCls2 "((A == 1 && !(B == 2))) || exists(C > 3) || D < 4".toList = .ok "O(O(A(L,N(L)),E(L)),L)" := by
  decide

/-- **recursion depth ≤ chars + 1**: the height of the call tree of `parse_when_clause(w)` — through parentheses, `||`,
`&&`, `!`, `exists(`, `forall(` — is at most `chars + 1`, with whatever budget it is computed (so it is the height) -/
theorem whenDepth_le_length (k : Cls) (fuel : Nat) (w : Str) : whenDepthF k fuel w ≤ w.length + 1 :=
  whenDepthF_le k fuel w

/-- a budget beyond `chars + 1` changes nothing: the height is reached within it -/
theorem whenDepth_stable (k : Cls) (fuel : Nat) (w : Str) (h : w.length < fuel) :
    whenDepthF k (fuel + 1) w = whenDepthF k fuel w := whenDepthF_stable k fuel w h

/-- the property's quantifier (≤ 4 KiB, so ≤ 4096 chars): at most 4097 nested calls of `parse_when_clause`; each level is
`parse_when_clause` plus at most one of `parse_or_parts` / `parse_and_parts` / `parse_not_condition` /
`parse_exists_condition` / `parse_forall_condition`, i.e. at most 8194 frames below the entry point -/
theorem whenDepth_4k (k : Cls) (fuel : Nat) (w : Str) (h : w.length ≤ 4096) : 2 * whenDepthF k fuel w ≤ 8194 := by
  have := whenDepthF_le k fuel w
  omega

-- the bound is reached up to the constant: n `!` in front of a leaf are n + 1 levels; n pairs of parentheses are n + 1 levels
example : whenDepthF exCls2 100 "!!!!x".toList = 5 := by decide
example : whenDepthF exCls2 100 "((((x))))".toList = 5 := by decide
example : whenDepthF exCls2 100 "(a && (b || !c)) && d".toList = 7 := by decide

/-! ### NV: `Query::variables` / `extract_variables` (src/backward/nested.rs) -/

/-- the index loop of `extract_variables` (`chars[i]` in both `while` loops) never indexes out of range and terminates
(`i` grows in every iteration), for every pattern -/
theorem extractVars_total (k : Cls) (s : Str) : ∃ vs, extractVars k s = .ok vs := extractVars_ok k s

/-- `NestedQueryParser::parse(s).variables()` for every text -/
theorem queryVars_no_panic (k : Cls) (s : Str) : queryVars k s ≠ .panic ∧ queryVars k s ≠ .oof := by
  unfold queryVars
  have h1 := nestedParse_no_panic k s
  cases hn : nestedParse k s with
  | ok goals =>
    obtain ⟨r, hr⟩ := varsAll_ok k goals []
    simp [bindR, hr]
  | err => simp [bindR]
  | panic => exact absurd hn h1
  | oof => unfold nestedParse at hn; (repeat' split at hn) <;> simp at hn

example : extractVars exCls2 "p(?x, ?é_1, ?x) ??".toList = .ok ["?x".toList, "?é_1".toList, ['?']] := by decide
example : queryVars exCls2 "g(?z) WHERE p(?x, ?y) AND q(?y, ?é)".toList =
    .ok ["?x".toList, "?y".toList, "?é".toList] := by decide

/-! ### FA: argument splitting of actions, `parse_import_spec` -/

/-- `parse_function_args_as_params` / `parse_method_args`: `split(',')`, `trim`, `parse_value` — for every argument text -/
theorem actionArgs_no_panic (k : Cls) (args : Str) :
    (funcArgs k args ≠ .panic ∧ funcArgs k args ≠ .oof) ∧ (methodArgs k args ≠ .panic ∧ methodArgs k args ≠ .oof) :=
  ⟨funcArgs_fine k args, methodArgs_fine k args⟩

example : (match funcArgs exCls2 " 1, é , true,[2".toList with
    | .ok [.int 1, _, .bool true, _] => true
    | _ => false) = true := by decide
example : (match methodArgs exCls2 "a+1, 7".toList with
    | .ok [.str x, .int 7] => x == "a+1".toList
    | _ => false) = true := by decide

/-- `parse_import_spec`: `splitn(2, '(')` yields one or two pieces, so `parts[0]` and `parts[1]` (after the length test)
are valid for every spec -/
theorem importSpec_no_panic (k : Cls) (spec : Str) : ∃ r, importSpec k spec = .ok r := importSpec_ok k spec

example : importSpec exCls2 " SÉNSORS (rules * (templates t))".toList = .ok ("SÉNSORS".toList, true, true) := by decide
example : importSpec exCls2 "A".toList = .ok (['A'], false, false) := by decide

end C05
