import RreModel.C05.Lemmas2
import RreModel.C05.Theorems
/-
C05 — property theorems, second part (follow-up): the text layer of the GRL parser (`strip_comments`,
`mask_string_literals` after fix-C05j, `unmask`), the accumulate kernels, `extract_module_from_context`, the
slices of `parse_rule_attributes`, `evaluate_expression` with the branches of `apply_operator`, and the nom
stream grammar.

As in `Theorems.lean`, every statement is for **all** strings — in particular strings that already contain
`U+0001` / `U+0002`, arbitrarily long digit runs between them, and indices beyond the table — and every Unicode
classification `k`.  `.ok` / `≠ .panic` = no invalid slice, index or unwrap; `≠ .oof` = the loop terminates within
`chars + 1` iterations.
-/
namespace C05

def exCls2 : Cls := ⟨fun c => c == ' ' || c == '\n', fun c => c.isAlpha || c == 'é', Char.isDigit⟩

/-! ### P1–P4: the text layer -/

/-- `strip_comments` is a single pass (structural recursion: each loop iteration consumes a char) that never
writes more than it reads -/
theorem stripComments_total (s : Str) : (stripComments s).length ≤ s.length := by
  have := stripGo_length s .code
  simpa [stripComments] using this

example : stripComments "a /* x */ b // c\n\"q//r\" /*".toList = "a   b \n\"q//r\"  ".toList := by decide

/-- `mask_string_literals` returns `(masked text, table)` for **every** input: none of its four slices
(`rest[end..]`, `rest[..end]`, `rest[..=end]`, `rest[end + 1..]`) can panic, and the loop ends within
`chars + 1` iterations.  (Holds for the pre-fix copy function as well: `maskGo_ok` is generic in it.) -/
theorem maskLiterals_total (s : Str) : ∃ m lits, maskLiterals s = .ok (m, lits) := by
  obtain ⟨⟨m, l⟩, h⟩ := maskGo_ok copyUnmasked (s.length + 1) s [] (by omega)
  exact ⟨m, l, h⟩

example : maskLiterals "x \"é\" \u0001 'b".toList =
    .ok ("x \"\u00010\u0002\" \u00011\u0002 'b".toList, ["é".toList, [MASK_START]]) := by decide

/-- `unmask` returns a string for **every** table and **every** text: a placeholder index that overflows
`usize`, is not a number, or lies beyond the table leaves the text as written (`.ok()?`, `.get(index)?`);
the slices `rest[..start]`, `rest[start + 1..]`, `after[..end]`, `after[end + 1..]` are all valid; each
iteration shortens `rest`. -/
theorem unmask_total (lits : List Str) (s : Str) : ∃ t, unmask lits s = .ok t := unmask_ok lits s

theorem unmask_no_panic (lits : List Str) (s : Str) : unmask lits s ≠ .panic ∧ unmask lits s ≠ .oof :=
  unmask_fine lits s

-- an index beyond the (empty) table, an index that overflows `usize`, a `+`-signed index, a raw `U+0001`
example : unmask [] "\u00015\u0002".toList = .ok "\u00015\u0002".toList := by decide
example : unmask ["ab".toList] "\u000199999999999999999999\u0002 \u0001+0\u0002 \u0001\u00010\u0002".toList =
    .ok "\u000199999999999999999999\u0002 ab \u0001ab".toList := by decide

/-- the whole text path of an entry point that rejects its input (`prepare` → `clean_text` → `unmask` into the
error message) returns -/
theorem notARuleText_total (k : Cls) (s : Str) : ∃ c u, notARuleText k prepare s = .ok (c, u) := by
  unfold notARuleText prepare
  obtain ⟨m, l, h⟩ := maskLiterals_total (stripComments s)
  rw [h]
  obtain ⟨u, hu⟩ := unmask_ok l (cleanText k m)
  simp only [bindR]
  rw [hu]
  exact ⟨_, _, rfl⟩

/-- the round trip the masking layer is meant to have: what leaves the parser is what was written.
Kept as a checked statement; proved false of the pre-fix masker below (fix-C05j) and PROVED of the fixed one in
`Theorems3.lean` (`mask_roundtrip`, `mask_roundtrip_holds`: for every text whose length fits the `usize` table index). -/
def mask_roundtrip_full (mask : Str → R (Str × List Str)) : Prop :=
  ∀ s : Str, ∃ m lits, mask s = .ok (m, lits) ∧ unmask lits m = .ok s

/-- pre-fix: a placeholder-looking piece of *source text* is replaced by an unrelated literal
(`"ab" U+0001 0 U+0002` comes back as `"ab" ab`) — replayed on the implementation: corpus/C05 -/
theorem maskOld_roundtrip_counterexample : ¬ mask_roundtrip_full maskLiteralsOld := by
  intro h
  obtain ⟨m, lits, h1, h2⟩ := h "\"ab\" \u00010\u0002".toList
  have e : maskLiteralsOld "\"ab\" \u00010\u0002".toList =
      .ok ("\"\u00010\u0002\" \u00010\u0002".toList, ["ab".toList]) := by decide
  rw [e] at h1
  simp at h1
  obtain ⟨rfl, rfl⟩ := h1
  revert h2
  decide

-- the fixed masker on the same witness, and on raw delimiters inside an unclosed quote
example : (match maskLiterals "\"ab\" \u00010\u0002".toList with
    | .ok (m, lits) => unmask lits m
    | _ => .err) = .ok "\"ab\" \u00010\u0002".toList := by decide
example : (match maskLiterals "'\u0001\u00017\u0002\n\"\u0001\"".toList with
    | .ok (m, lits) => unmask lits m
    | _ => .err) = .ok "'\u0001\u00017\u0002\n\"\u0001\"".toList := by decide

/-! ### K9: accumulate -/

/-- `split_accumulate_parts`: its only hazard is the `i32` `paren_depth`; below 2^31 chars it cannot overflow -/
theorem splitAccParts_no_panic (k : Cls) (s : Str) (h : s.length < 2147483648) : ∃ ps, splitAccParts k s = .ok ps :=
  splitAccParts_ok k s h

/-- the statement without the size hypothesis … -/
def splitAccParts_no_panic_full : Prop := ∀ (k : Cls) (s : Str), splitAccParts k s ≠ .panic

/-- … is false of a build with overflow checks: 2^31 opening parentheses (a 2 GiB input, far outside the
property's 4 KiB quantifier; not replayable through the regex-driven entry points — recorded as an observation) -/
theorem splitAccParts_i32_counterexample : ¬ splitAccParts_no_panic_full := by
  intro h
  exact h exCls2 (List.replicate 2147483648 '(')
    (splitAccGo_replicate_panic exCls2 2147483648 [] 0 [] (by decide) (by decide))

example : splitAccParts exCls2 "Order($a: a, b == 1), sum($a)".toList =
    .ok ["Order($a: a, b == 1)".toList, "sum($a)".toList] := by decide

/-- `parse_accumulate_pattern`: `&pattern[..paren_pos]`, `&pattern[paren_pos + 1..pattern.len() - 1]`,
`part[colon_pos + 1..]` and the `i32` counter of `split_pattern_parts` -/
theorem parseAccPattern_no_panic (k : Cls) (p : Str) (h : p.length < 2147483648) :
    parseAccPattern k p ≠ .panic ∧ parseAccPattern k p ≠ .oof := parseAccPattern_fine k p h

example : parseAccPattern exCls2 "Évén($x: é, y > 1, z != 'q,r')".toList =
    .ok ("Évén".toList, "é".toList, ["y > 1".toList, "z != 'q,r'".toList]) := by decide

/-- `parse_accumulate_function`: for every string -/
theorem parseAccFunction_no_panic (k : Cls) (f : Str) :
    parseAccFunction k f ≠ .panic ∧ parseAccFunction k f ≠ .oof := parseAccFunction_fine k f

example : parseAccFunction exCls2 " sum( $é ) ".toList = .ok ("sum".toList, "$é".toList) := by decide
example : parseAccFunction exCls2 ")(".toList = .err := by decide

/-- `parse_accumulate_condition` as a whole (test + slice, both splitters, both sub-parsers, five `unmask`s) -/
theorem parseAccCondition_no_panic (k : Cls) (lits : List Str) (clause : Str) (h : clause.length < 2147483648) :
    parseAccCondition k lits clause ≠ .panic ∧ parseAccCondition k lits clause ≠ .oof :=
  parseAccCondition_fine k lits clause h

example : (match parseAccCondition exCls2 ["completed".toList]
      "accumulate(Order($a: amount, status == \"\u00010\u0002\"), sum($a))".toList with
    | .ok a => (a.source, a.field, a.conds, a.func, a.arg) == ("Order".toList, "amount".toList,
        ["status == \"completed\"".toList], "sum".toList, "$a".toList)
    | _ => false) = true := by decide

/-! ### K10, K11 -/

/-- `extract_module_from_context`: for every text and every rule name (`&grl_text[..rule_pos]`,
`&before[module_pos + 10..]`, `&after_module_marker[..end_of_line]`) -/
theorem extractModule_no_panic (k : Cls) (text name : Str) : ∃ m, extractModule k text name = .ok m :=
  extractModule_ok k text name

example : extractModule exCls2 ";; MODULE: SÉNSORS - x\nrule \"r\" {".toList ['r'] = .ok "SÉNSORS".toList := by decide
example : extractModule exCls2 "é;; MODULE:\nrule r".toList ['r'] = .ok MAIN := by decide

/-- the slices of `parse_rule_attributes` (`&attrs_section[rule_pos + 4..]`, `after_rule[first_keyword..]`), for
every header and whatever the regex replacement returns -/
theorem attrsSection_no_panic (removeQuoted : Str → Str) (header : Str) :
    ∃ s, attrsSection removeQuoted header = .ok s := attrsSection_ok removeQuoted header

example : attrsSection id "no-loop rule é salience 5".toList = .ok "salience 5".toList := by decide

/-! ### K1': evaluate_expression including apply_operator -/

/-- `evaluate_expression` never panics — slices *and* arithmetic (`apply_operator` works on `f64`; its only
early exits are errors) — for every expression and every content of the facts -/
theorem evalValue_no_panic (k : Cls) (facts : Str → Option AV) (s : Str) : evalValue k facts s ≠ .panic :=
  (evalValueF_good k facts _ s (by omega)).1

/-- … and its recursion depth is at most `chars + 1` -/
theorem evalValue_total (k : Cls) (facts : Str → Option AV) (s : Str) : evalValue k facts s ≠ .oof :=
  (evalValueF_good k facts _ s (by omega)).2

example : evalValue exCls2 (fun _ => none) "10 % 0".toList = .ok (.numv none) := by decide
example : evalValue exCls2 (fun _ => none) "1 + 9 / 0 * 3".toList = .err := by decide
example : evalValue exCls2 (fun s => if s == ['Z'] then some (.numv (some true)) else none) "7 / Z".toList = .err := by
  decide
example : evalValue exCls2 (fun _ => none) "'é' + \"b\" + 1".toList = .err := by decide

/-! ### N: the nom stream grammar (for every implementation `N` of the primitive combinators) -/

/-- no parser of `stream_syntax.rs` panics, whatever the primitive combinators return (the grammar has no loop and
no recursion; its arithmetic is `checked_mul` and a failed `parse::<u64>()` is mapped to a nom error) -/
theorem streamParsers_no_panic (N : Nom) (k : Cls) (s : Str) :
    (parseStreamPattern N k s ≠ .panic ∧ parseStreamPattern N k s ≠ .oof) ∧
    (parseStreamJoin N k s ≠ .panic ∧ parseStreamJoin N k s ≠ .oof) ∧
    (parseJoinCondition N k s ≠ .panic ∧ parseJoinCondition N k s ≠ .oof) ∧
    (parseStreamSource N s ≠ .panic ∧ parseStreamSource N s ≠ .oof) ∧
    (parseWindowSpec N s ≠ .panic ∧ parseWindowSpec N s ≠ .oof) ∧
    (parseDuration N s ≠ .panic ∧ parseDuration N s ≠ .oof) ∧
    (parseWindowType N s ≠ .panic ∧ parseWindowType N s ≠ .oof) :=
  ⟨parseStreamPattern_fine N k s, parseStreamJoin_fine N k s, parseJoinCondition_fine N k s,
   parseStreamSource_fine N s, parseWindowSpec_fine N s, parseDuration_fine N s, parseWindowType_fine N s⟩

/-- "each combinator consumes input or fails", for the entry points: under the documented contract of the nom
primitives, a successful parse returns as rest a *proper* suffix of its input (so every `&str` it hands out lies on
char boundaries, and a caller that repeats the parser — `many0` — makes progress) -/
theorem streamParsers_consume (N : Nom) (hN : N.Sound) (k : Cls) (s : Str) :
    (∀ a r, parseStreamPattern N k s = .ok a r → ∃ p, s = p ++ r ∧ p ≠ []) ∧
    (∀ a r, parseStreamJoin N k s = .ok a r → ∃ p, s = p ++ r ∧ p ≠ []) ∧
    (∀ a r, parseJoinCondition N k s = .ok a r → ∃ p, s = p ++ r ∧ p ≠ []) ∧
    (∀ a r, parseStreamSource N s = .ok a r → ∃ p, s = p ++ r ∧ p ≠ []) ∧
    (∀ a r, parseWindowSpec N s = .ok a r → ∃ p, s = p ++ r ∧ p ≠ []) ∧
    (∀ a r, parseDuration N s = .ok a r → ∃ p, s = p ++ r ∧ p ≠ []) ∧
    (∀ a r, parseWindowType N s = .ok a r → ∃ p, s = p ++ r ∧ p ≠ []) := by
  have conv : ∀ {α : Type} {i : Str} {x : PR α}, Consumes true i x → ∀ a r, x = .ok a r → ∃ p, i = p ++ r ∧ p ≠ [] :=
    fun h a r hx => let ⟨p, h1, h2⟩ := h a r hx; ⟨p, h1, h2 rfl⟩
  exact ⟨conv (parseStreamPattern_consumes N hN k s), conv (parseStreamJoin_consumes N hN k s),
    conv (parseJoinCondition_consumes N hN k s), conv (parseStreamSource_consumes N hN s),
    conv (parseWindowSpec_consumes N hN s), conv (parseDuration_consumes N hN s),
    conv (parseWindowType_consumes N hN s)⟩

/-- the combinators as documented by nom (the instance the driver predicts with) satisfy the contract -/
theorem nomRef_contract : nomRef.Sound := nomRef_sound

def PR.isErr {α : Type} : PR α → Bool
  | .err => true
  | _ => false
def PR.isPanic {α : Type} : PR α → Bool
  | .panic => true
  | _ => false

example : (match parseStreamPattern nomRef exCls2 "év: T from stream(\"s\") over window(5 min, sliding) x".toList with
    | .ok a r => decide (a = ⟨"év".toList, some ['T'], ['s'], some (300000, .sliding)⟩ ∧ r = " x".toList)
    | _ => false) = true := by decide
example : (parseDuration nomRef "18446744073709551615 min".toList).isErr = true := by decide
example : (parseDuration nomRef "99999999999999999999 ms".toList).isErr = true := by decide

/-- pre-fix `parse_duration` (`value * 60` on `u64`, F-C05f, repaired by 259080b) does panic -/
def parseDurationOld_no_panic_full : Prop := ∀ i : Str, parseDurationOld nomRef i ≠ .panic

theorem parseDurationOld_counterexample : ¬ parseDurationOld_no_panic_full := by
  intro h
  have hp : (parseDurationOld nomRef "18446744073709551615 min".toList).isPanic = true := by decide
  have := h "18446744073709551615 min".toList
  cases hx : parseDurationOld nomRef "18446744073709551615 min".toList <;> simp_all [PR.isPanic]

/-! ### the `SetWorkflowData("key=value")` branch: the text that is unmasked twice -/

/-- the split of the unmasked argument at its first `=` never panics: `=` is ASCII, so both `eq` and `eq + 1` are char
boundaries, whatever the literal body contains (multi-byte text, forged placeholders, no `=` at all) -/
theorem wfDataSplit_no_panic (k : Cls) (lits : List Str) (args : Str) :
    wfDataSplit k lits args ≠ .panic ∧ wfDataSplit k lits args ≠ .oof := by
  unfold wfDataSplit
  obtain ⟨data, hd⟩ := unmask_total lits (trim k args)
  rw [hd]
  simp only [bindR]
  cases h' : findChar data '=' with
  | none => simp
  | some p =>
    obtain ⟨pre, q, hs, hp⟩ := findChar_spec h'
    have e1 : sliceTo data p = some pre := by rw [hs, hp]; exact sliceTo_append _ _
    have e2 : sliceFrom data (p + 1) = some q := by
      have := sliceFrom_append (pre ++ ['=']) q
      rw [hs, hp]
      have hu : '='.utf8Size = 1 := rfl
      simpa [blen_append, hu] using this
    simp [e1, e2]

/-- **the whole branch never panics — for every table and every argument text**, in particular when the literal body carries
`MASK_START <digits> MASK_END` with an index at or beyond the number of literals (the second `unmask` is total because the
table is read with `get`, `unmask_no_panic`) -/
theorem wfData_no_panic (k : Cls) (lits : List Str) (args : Str) :
    wfData k lits args ≠ .panic ∧ wfData k lits args ≠ .oof := by
  unfold wfData
  have h1 := wfDataSplit_no_panic k lits args
  cases hs : wfDataSplit k lits args with
  | panic => exact absurd hs h1.1
  | oof => exact absurd hs h1.2
  | err => simp [bindR]
  | ok kv =>
    simp only [bindR]
    have h2 := parseValue_no_panic k kv.2
    have h3 := parseValue_total k kv.2
    cases hv : parseValue k kv.2 with
    | panic => exact absurd hv h2
    | oof => exact absurd hv h3
    | err => simp
    | ok v =>
      simp only []
      cases v with
      | str x => obtain ⟨y, hy⟩ := unmask_total lits x; simp [unmaskLeaf, hy, bindR]
      | expr x => obtain ⟨y, hy⟩ := unmask_total lits x; simp [unmaskLeaf, hy, bindR]
      | int i => simp [unmaskLeaf]
      | num => simp [unmaskLeaf]
      | bool b => simp [unmaskLeaf]
      | null => simp [unmaskLeaf]
      | arr vs => simp [unmaskLeaf]

/-- a forged placeholder survives the first unmask as ordinary text and is looked up by the second one: the index 7 is
beyond the table, the text stays as written (and `"stage=` + placeholder 1 is replaced by the body of literal 1 only once) -/
example : wfStr (wfData ⟨fun c => c == ' ', fun _ => false, fun _ => false⟩ ["r".toList, "stage=\u00017\u0002".toList]
    "\"\u00011\u0002\"".toList) = some ("stage".toList, "\u00017\u0002\"".toList) := by decide +kernel

/-- indexing the table directly is NOT safe on this path: `SetWorkflowData("stage=<MASK_START>7<MASK_END>")` in a text with
two literals — the first unmask is fine (the masker wrote index 1), the second reads index 7 of a table of length 2 -/
theorem wfDataDirect_counterexample :
    unmaskDirect ["r".toList, "stage=\u00017\u0002".toList] "\"\u00011\u0002\"".toList
        = .ok "\"stage=\u00017\u0002\"".toList
    ∧ wfValueDirect ["r".toList, "stage=\u00017\u0002".toList] "\"\u00011\u0002\"".toList = .panic := by
  decide +kernel

end C05
