import RreModel.C05.Model3
import RreModel.C05.Lemmas2
import RreModel.C05.Theorems
/-
C05 — lemmas for `Model3.lean`: `parse_when_clause` as a step function (every recursive call is on a strictly shorter
string, no slice is invalid), its fold and its depth; `extract_variables`; argument splitting.  Core only.
-/
namespace C05

/-! ## W -/

/-- the step neither panics nor recurses on anything that is not strictly shorter than `n` chars -/
def WStep.Ok (n : Nat) (s : WStep) : Prop :=
  s ≠ .panic ∧ ∀ t subs, s = .recur t subs → ∀ p ∈ subs, p.length < n

theorem WStep.Ok.mono {n m : Nat} {s : WStep} (h : s.Ok n) (hnm : n ≤ m) : s.Ok m :=
  ⟨h.1, fun t subs hs p hp => Nat.lt_of_lt_of_le (h.2 t subs hs p hp) hnm⟩

theorem quantStep_ok (tag : WTag) (kw c : Str) (hkw : kw.getLast? = some '(') : (quantStep tag kw c).Ok c.length := by
  obtain ⟨h1, h2, h3⟩ := @innerOf_spec kw c hkw
  unfold quantStep
  cases hi : innerOf kw c with
  | ok inner =>
    refine ⟨by simp, ?_⟩
    intro t subs hs p hp
    simp at hs
    obtain ⟨_, rfl⟩ := hs
    simp at hp; rw [hp]
    exact h3 inner hi
  | err => exact ⟨by simp, by intro t subs hs; simp at hs⟩
  | panic => exact absurd hi h1
  | oof => exact absurd hi h2

theorem whenBody_ok (k : Cls) (clause : Str) : (whenBody k clause).Ok clause.length := by
  have hts : (trimStart k clause).length ≤ clause.length := length_dropWhile_le _ _
  unfold whenBody
  simp only []
  split
  · rename_i h2
    refine ⟨by simp, ?_⟩
    intro t subs hs p hp
    simp at hs
    obtain ⟨_, rfl⟩ := hs
    have := splitLogical_parts_shorter' k '|' clause h2 p hp
    omega
  · split
    · rename_i h2
      refine ⟨by simp, ?_⟩
      intro t subs hs p hp
      simp at hs
      obtain ⟨_, rfl⟩ := hs
      have := splitLogical_parts_shorter' k '&' clause h2 p hp
      omega
    · split
      · split
        · refine ⟨by simp, ?_⟩
          intro t subs hs p hp
          simp at hs
          obtain ⟨_, rfl⟩ := hs
          simp at hp; subst hp
          simp only [List.length_cons]
          exact Nat.lt_succ_of_le (length_trim_le k _)
        · exact ⟨by simp, by intro t subs hs; simp at hs⟩
      · split
        · exact (quantStep_ok _ _ _ (by decide)).mono hts
        · split
          · exact (quantStep_ok _ _ _ (by decide)).mono hts
          · split
            · exact ⟨by simp, by intro t subs hs; simp at hs⟩
            · exact ⟨by simp, by intro t subs hs; simp at hs⟩

theorem whenStep_ok (k : Cls) (w : Str) : (whenStep k w).Ok w.length := by
  have ht := length_trim_le k w
  unfold whenStep
  simp only []
  split
  · rename_i h
    obtain ⟨m, hm⟩ := bracket_shape (by decide) h.1 h.2
    rw [hm, slice_inner '(' ')' m rfl rfl]
    simp only []
    split
    · refine ⟨by simp, ?_⟩
      intro t subs hs p hp
      simp at hs
      obtain ⟨_, rfl⟩ := hs
      simp at hp; subst hp
      rw [hm] at ht; simp at ht; omega
    · rw [← hm]; exact (whenBody_ok k _).mono ht
  · exact (whenBody_ok k _).mono ht

theorem collectAll_fine {α : Type} : ∀ {rs : List (R α)}, (∀ r ∈ rs, Fine r) → Fine (collectAll rs) := by
  intro rs
  induction rs with
  | nil => intro _; exact fine_ok _
  | cons r rs ih =>
    intro h
    have hr := h r (by simp)
    have hrs := ih (fun x hx => h x (by simp [hx]))
    cases r with
    | ok a =>
      simp only [collectAll]
      cases hc : collectAll rs with
      | ok as => exact fine_ok _
      | err => exact fine_err
      | panic => exact absurd hc hrs.1
      | oof => exact absurd hc hrs.2
    | err => exact fine_err
    | panic => exact absurd rfl hr.1
    | oof => exact absurd rfl hr.2

theorem mapR_fine {α β : Type} (f : α → β) {x : R α} (h : Fine x) : Fine (mapR f x) := by
  cases x with
  | ok a => exact fine_ok _
  | err => exact fine_err
  | panic => exact absurd rfl h.1
  | oof => exact absurd rfl h.2

theorem whenFold_fine {α : Type} (k : Cls) (leaf accum : Str → R α) (node : WTag → List α → α)
    (hl : ∀ s, Fine (leaf s)) (ha : ∀ s, Fine (accum s)) :
    ∀ (fuel : Nat) (w : Str), w.length < fuel → Fine (whenFold k leaf accum node fuel w) := by
  intro fuel
  induction fuel with
  | zero => intro w h; omega
  | succ n ih =>
    intro w hw
    have hs := whenStep_ok k w
    simp only [whenFold]
    cases hst : whenStep k w with
    | panic => exact absurd hst hs.1
    | err => exact fine_err
    | recur tag subs =>
      simp only []
      apply mapR_fine
      apply collectAll_fine
      intro r hr
      simp at hr
      obtain ⟨p, hp, rfl⟩ := hr
      exact ih p (by have := hs.2 tag subs hst p hp; omega)
    | accum c => exact ha c
    | leaf c => exact hl c

theorem maxList_le {l : List Nat} {b : Nat} (h : ∀ x ∈ l, x ≤ b) : maxList l ≤ b := by
  induction l with
  | nil => simp [maxList]
  | cons x xs ih =>
    simp only [maxList]
    have hx := h x (by simp)
    have hxs := ih (fun y hy => h y (by simp [hy]))
    omega

/-- the height of the call tree never exceeds `chars + 1`, whatever the budget it is computed with -/
theorem whenDepthF_le (k : Cls) : ∀ (fuel : Nat) (w : Str), whenDepthF k fuel w ≤ w.length + 1 := by
  intro fuel
  induction fuel with
  | zero => intro w; simp [whenDepthF]
  | succ n ih =>
    intro w
    have hs := whenStep_ok k w
    simp only [whenDepthF]
    cases hst : whenStep k w with
    | recur tag subs =>
      simp only []
      have : maxList (subs.map (whenDepthF k n)) ≤ w.length := by
        apply maxList_le
        intro x hx
        simp at hx
        obtain ⟨p, hp, rfl⟩ := hx
        have := hs.2 tag subs hst p hp
        have := ih p
        omega
      omega
    | panic => simp
    | err => simp
    | accum c => simp
    | leaf c => simp

/-- a budget beyond `chars + 1` is never used: the height computed with any larger budget is the same -/
theorem whenDepthF_stable (k : Cls) : ∀ (fuel : Nat) (w : Str), w.length < fuel →
    whenDepthF k (fuel + 1) w = whenDepthF k fuel w := by
  intro fuel
  induction fuel with
  | zero => intro w h; omega
  | succ n ih =>
    intro w hw
    have hs := whenStep_ok k w
    rw [whenDepthF, whenDepthF]
    cases hst : whenStep k w with
    | recur tag subs =>
      simp only []
      congr 2
      apply List.map_congr_left
      intro p hp
      exact ih p (by have := hs.2 tag subs hst p hp; omega)
    | panic => rfl
    | err => rfl
    | accum c => rfl
    | leaf c => rfl

theorem leafStrip_ok (k : Cls) (clause : Str) : ∃ t, leafStrip k clause = .ok t ∧ t.length ≤ clause.length := by
  have ht := length_trim_le k clause
  unfold leafStrip
  simp only []
  split
  · rename_i h
    obtain ⟨m, hm⟩ := bracket_shape (by decide) h.1 h.2
    rw [hm, slice_inner '(' ')' m rfl rfl]
    refine ⟨_, rfl, ?_⟩
    have := length_trim_le k m
    rw [hm] at ht; simp at ht; omega
  · exact ⟨_, rfl, ht⟩

/-! ## NV -/

theorem varScan_spec (k : Cls) (cs : Str) : ∀ (fuel i : Nat) (var : Str), cs.length - i < fuel → i ≤ cs.length →
    ∃ j v, varScan k cs fuel i var = .ok (j, v) ∧ i ≤ j ∧ j ≤ cs.length := by
  intro fuel
  induction fuel with
  | zero => intro i var h; omega
  | succ n ih =>
    intro i var h hi
    simp only [varScan]
    split
    · rename_i hlt
      rw [List.getElem?_eq_getElem hlt]
      simp only []
      split
      · obtain ⟨j, v, h1, h2, h3⟩ := ih (i + 1) (var ++ [cs[i]]) (by omega) (by omega)
        exact ⟨j, v, h1, by omega, h3⟩
      · exact ⟨i, var, rfl, Nat.le_refl _, hi⟩
    · exact ⟨i, var, rfl, Nat.le_refl _, hi⟩

theorem varsGo_ok (k : Cls) (cs : Str) : ∀ (fuel i : Nat) (vars : List Str), cs.length - i < fuel → i ≤ cs.length →
    ∃ r, varsGo k cs fuel i vars = .ok r := by
  intro fuel
  induction fuel with
  | zero => intro i vars h; omega
  | succ n ih =>
    intro i vars h hi
    simp only [varsGo]
    split
    · rename_i hlt
      rw [List.getElem?_eq_getElem hlt]
      simp only []
      split
      · obtain ⟨j, v, h1, h2, h3⟩ := varScan_spec k cs (cs.length + 1) (i + 1) ['?'] (by omega) (by omega)
        rw [h1]
        exact ih j _ (by omega) h3
      · exact ih (i + 1) vars (by omega) (by omega)
    · exact ⟨_, rfl⟩

theorem extractVars_ok (k : Cls) (s : Str) : ∃ r, extractVars k s = .ok r :=
  varsGo_ok k s _ 0 [] (by omega) (by omega)

theorem varsAll_ok (k : Cls) : ∀ (gs : List Str) (acc : List Str), ∃ r, varsAll k gs acc = .ok r := by
  intro gs
  induction gs with
  | nil => intro acc; exact ⟨_, rfl⟩
  | cons g gs ih =>
    intro acc
    obtain ⟨vs, hv⟩ := extractVars_ok k g
    simp only [varsAll, hv, bindR]
    exact ih _

/-! ## FA -/

theorem funcArgs_fine (k : Cls) (args : Str) : Fine (funcArgs k args) := by
  unfold funcArgs
  split
  · exact fine_ok _
  · apply collectAll_fine
    intro r hr
    simp at hr
    obtain ⟨p, _, rfl⟩ := hr
    exact ⟨parseValue_no_panic k _, parseValue_total k _⟩

theorem methodArg_fine (k : Cls) (p : Str) : Fine (methodArg k p) := by
  unfold methodArg
  simp only []
  split
  · exact fine_ok _
  · exact ⟨parseValue_no_panic k _, parseValue_total k _⟩

theorem methodArgs_fine (k : Cls) (args : Str) : Fine (methodArgs k args) := by
  unfold methodArgs
  split
  · exact fine_ok _
  · apply collectAll_fine
    intro r hr
    simp at hr
    obtain ⟨p, _, rfl⟩ := hr
    exact methodArg_fine k p

theorem splitn2_length (s : Str) (d : Char) : 1 ≤ (splitn2 s d).length ∧ (splitn2 s d).length ≤ 2 := by
  unfold splitn2
  split <;> simp

theorem importSpec_ok (k : Cls) (spec : Str) : ∃ r, importSpec k spec = .ok r := by
  have hl := splitn2_length spec '('
  unfold importSpec
  simp only []
  generalize splitn2 spec '(' = parts at hl
  match parts, hl with
  | [a], _ => simp [bindR]
  | [a, b], _ => simp [bindR]

end C05
