/-
C05 — "No text makes a parser or the expression evaluator panic or hang".

Executable model of the *hazardous kernels* of the parsers (the places where a `&str` is sliced at a
computed byte offset, a vector is indexed, a `Result` is unwrapped, or a function recurses on its
input), after the repairs of `fix-C05.patch`.

Representation.  A Rust `&str` is modelled as `Str = List Char`; every `Char` has its UTF-8 width
`Char.utf8Size ∈ {1,2,3,4}`; byte offsets are `Nat`; `blen` is `str::len()`.  A byte offset is a char
boundary iff it is the byte length of a prefix of the char list (`splitAtByte` succeeds).  This *is*
`ValidUtf8` as a representation invariant: a `List Char` denotes exactly one valid UTF-8 byte string
(std's invariant on `str`), and slicing is the partial operation `&s[a..b]` that **panics**
(`none` / `.panic`) when `a > b`, `b > len` or an end is not a boundary.  The byte/char distinction is
kept: `chars().enumerate()` yields char indices, `char_indices()` / `find` yield byte offsets.

Rust's Unicode classification (`char::is_whitespace`, `is_alphabetic`, `is_numeric`) is a *parameter*
(`Cls`): no theorem depends on what it says.
-/
namespace C05

abbrev Str := List Char

/-- Rust's `char::is_whitespace / is_alphabetic / is_numeric` (std Unicode tables) — a parameter -/
structure Cls where
  white : Char → Bool
  alpha : Char → Bool
  numeric : Char → Bool

def Cls.alnum (k : Cls) (c : Char) : Bool := k.alpha c || k.numeric c

/-! ## bytes, boundaries, slices -/

/-- `str::len()` in bytes -/
def blen : Str → Nat
  | [] => 0
  | c :: cs => c.utf8Size + blen cs

/-- `str::split_at(n)` for a byte offset: `none` = `n` out of range or not a char boundary (Rust panics) -/
def splitAtByte : Str → Nat → Option (Str × Str)
  | [], n => if n = 0 then some ([], []) else none
  | c :: cs, n =>
    if n = 0 then some ([], c :: cs)
    else if c.utf8Size ≤ n then (splitAtByte cs (n - c.utf8Size)).map (fun p => (c :: p.1, p.2))
    else none

/-- `&s[..b]` -/
def sliceTo (s : Str) (b : Nat) : Option Str := (splitAtByte s b).map (·.1)
/-- `&s[a..]` -/
def sliceFrom (s : Str) (a : Nat) : Option Str := (splitAtByte s a).map (·.2)
/-- `&s[a..b]` -/
def slice (s : Str) (a b : Nat) : Option Str :=
  if a ≤ b then (splitAtByte s a).bind (fun p => sliceTo p.2 (b - a)) else none

/-- `v[a..b]` on a `Vec<char>` / `[char]` (char indices): `none` = out of range (Rust panics) -/
def sliceC (cs : Str) (a b : Nat) : Option Str :=
  if a ≤ b ∧ b ≤ cs.length then some ((cs.drop a).take (b - a)) else none

def trimStart (k : Cls) (s : Str) : Str := s.dropWhile k.white
def trimEnd (k : Cls) (s : Str) : Str := (s.reverse.dropWhile k.white).reverse
/-- `str::trim()` -/
def trim (k : Cls) (s : Str) : Str := trimEnd k (trimStart k s)

/-- `s.contains(pat)` for a string pattern -/
def containsStr : Str → Str → Bool
  | [], pat => pat.isEmpty
  | c :: cs, pat => pat.isPrefixOf (c :: cs) || containsStr cs pat

/-- `s.find(pat)`: byte offset of the first occurrence (scan at char starts; `off` = bytes consumed) -/
def findStrGo (pat : Str) : Str → Nat → Option Nat
  | [], off => if pat.isEmpty then some off else none
  | c :: cs, off => if pat.isPrefixOf (c :: cs) then some off else findStrGo pat cs (off + c.utf8Size)
def findStr (s pat : Str) : Option Nat := findStrGo pat s 0

/-- `s.find(|c| p c)` for a char predicate: byte offset of the first hit -/
def findCharGo (p : Char → Bool) : Str → Nat → Option Nat
  | [], _ => none
  | c :: cs, off => if p c then some off else findCharGo p cs (off + c.utf8Size)
def findChar (s : Str) (c : Char) : Option Nat := findCharGo (· == c) s 0

/-- `s.rfind(c)`: byte offset of the last occurrence -/
def rfindCharGo (c : Char) : Str → Nat → Option Nat → Option Nat
  | [], _, last => last
  | d :: cs, off, last => rfindCharGo c cs (off + d.utf8Size) (if d == c then some off else last)
def rfindChar (s : Str) (c : Char) : Option Nat := rfindCharGo c s 0 none

/-- the observable outcome class of one call -/
inductive R (α : Type) where
  | ok (a : α)
  | err
  | panic
  | oof          -- model fuel exhausted (proved unreachable: `*_total`)
deriving Repr, DecidableEq

/-! ## numeric literal grammars (`str::parse::<i64>` / `::<f64>`): accepted language only -/

def isDigit (c : Char) : Bool := '0' ≤ c && c ≤ '9'
def digitsVal (ds : Str) : Nat := ds.foldl (fun a c => a * 10 + (c.toNat - 48)) 0

/-- `s.parse::<i64>()`: optional sign, ≥ 1 ASCII digit, in range -/
def parseI64 (s : Str) : Option Int :=
  let (neg, ds) := match s with
    | '-' :: t => (true, t)
    | '+' :: t => (false, t)
    | t => (false, t)
  if ds.isEmpty || !ds.all isDigit then none
  else
    let v := digitsVal ds
    if neg then (if v ≤ 9223372036854775808 then some (-(v : Int)) else none)
    else (if v ≤ 9223372036854775807 then some (v : Int) else none)

def lowerAscii (c : Char) : Char := if 'A' ≤ c && c ≤ 'Z' then Char.ofNat (c.toNat + 32) else c

/-- exponent part after the mantissa: empty, or `e|E [+-]? digit+` -/
def isExpPart (s : Str) : Bool :=
  match s with
  | [] => true
  | c :: t =>
    if c == 'e' || c == 'E' then
      let ds := match t with
        | '+' :: u => u
        | '-' :: u => u
        | u => u
      !ds.isEmpty && ds.all isDigit
    else false

/-- `s.parse::<f64>().is_ok()` (core::num::dec2flt grammar) -/
def isF64 (s : Str) : Bool :=
  let body := match s with
    | '-' :: t => t
    | '+' :: t => t
    | t => t
  let low := body.map lowerAscii
  if low == "inf".toList || low == "infinity".toList || low == "nan".toList then true
  else
    let ip := body.takeWhile isDigit
    let r1 := body.dropWhile isDigit
    match r1 with
    | '.' :: r2 =>
      let fp := r2.takeWhile isDigit
      let r3 := r2.dropWhile isDigit
      (!ip.isEmpty || !fp.isEmpty) && isExpPart r3
    | _ => !ip.isEmpty && isExpPart r1

/-! ## the quoted-literal test shared by `parse_value` (grl.rs) and `evaluate_expression` (fixed code):
`len >= 2 && starts_with(q) && ends_with(q)` is tested *before* `&s[1..len-1]` -/

/-- `none` = the slice panicked; `some none` = not a `q…q` literal; `some (some u)` = literal `u` -/
def unquote (s : Str) (q : Char) : Option (Option Str) :=
  if 2 ≤ blen s ∧ s.head? = some q ∧ s.getLast? = some q then
    match slice s 1 (blen s - 1) with
    | none => none
    | some u => if u.contains q then some none else some (some u)
  else some none

/-- pre-fix code: `&s[1..len-1]` is computed first whenever `len >= 2` (F-C05a / F-C05b) -/
def unquoteOld (s : Str) (q : Char) : Option (Option Str) :=
  if 2 ≤ blen s then
    match slice s 1 (blen s - 1) with
    | none => none
    | some u => if s.head? = some q ∧ s.getLast? = some q ∧ !u.contains q then some (some u) else some none
  else some none

/-! ## K1 — src/expression.rs `find_operator`, `evaluate_expression` -/

/-- `find_operator` (fixed: `char_indices`): byte offset of the last operator char at paren depth 0 -/
def findOpGo (ops : List Char) : Str → Nat → Int → Option Nat → Option Nat
  | [], _, _, last => last
  | c :: cs, off, d, last =>
    if c = '(' then findOpGo ops cs (off + c.utf8Size) (d + 1) last
    else if c = ')' then findOpGo ops cs (off + c.utf8Size) (d - 1) last
    else if d = 0 ∧ ops.contains c = true then findOpGo ops cs (off + c.utf8Size) d (some off)
    else findOpGo ops cs (off + c.utf8Size) d last
def findOperator (ops : List Char) (s : Str) : Option Nat := findOpGo ops s 0 0 none

/-- pre-fix `find_operator` (`chars().enumerate()`): the *char index* is returned (F-C05b) -/
def findOpOldGo (ops : List Char) : Str → Nat → Int → Option Nat → Option Nat
  | [], _, _, last => last
  | c :: cs, i, d, last =>
    if c = '(' then findOpOldGo ops cs (i + 1) (d + 1) last
    else if c = ')' then findOpOldGo ops cs (i + 1) (d - 1) last
    else if d = 0 ∧ ops.contains c = true then findOpOldGo ops cs (i + 1) d (some i)
    else findOpOldGo ops cs (i + 1) d last
def findOperatorOld (ops : List Char) (s : Str) : Option Nat := findOpOldGo ops s 0 0 none

/-- the three slices `&expr[..pos]`, `&expr[pos..pos+1]`, `&expr[pos+1..]`; `none` = one of them panicked -/
def splitAtOp (s : Str) (pos : Nat) : Option (Str × Str) :=
  match sliceTo s pos, slice s pos (pos + 1), sliceFrom s (pos + 1) with
  | some l, some _, some r => some (l, r)
  | _, _, _ => none

/-- outcome class of `evaluate_expression(expr, &Facts::new())`.
`fine` = returns `Ok` or `Err` (which one depends on arithmetic on values, not modelled here — C01 does);
`ok` / `err` are exact. The right operand is explored even where the code would not evaluate it (an
over-approximation of the executed slices: the no-panic theorem is about *every* slice on every path). -/
inductive Shape where
  | ok | err | fine | panic | oof
deriving Repr, DecidableEq

def combine (l r : Shape) : Shape :=
  match l with
  | .panic => .panic
  | .oof => .oof
  | .err => .err          -- `?` on the left operand: the right one is not evaluated
  | .ok => match r with
    | .panic => .panic | .oof => .oof | .err => .err | _ => .fine
  | .fine => match r with
    | .panic => .panic | .oof => .oof | _ => .fine

/-- leaf of `evaluate_expression`: string literal, number, else a lookup in the (empty) facts -/
def evalLeaf (s : Str) : Shape :=
  match unquote s '"' with
  | none => .panic
  | some (some _) => .ok
  | some none =>
    match unquote s '\'' with
    | none => .panic
    | some (some _) => .ok
    | some none => if isF64 s then .ok else .err

def evalShape (k : Cls) : Nat → Str → Shape
  | 0, _ => .oof
  | fuel + 1, s0 =>
    let s := trim k s0
    match findOperator ['+', '-'] s with
    | some pos =>
      match splitAtOp s pos with
      | none => .panic
      | some (l, r) => combine (evalShape k fuel (trim k l)) (evalShape k fuel (trim k r))
    | none =>
      match findOperator ['*', '/', '%'] s with
      | some pos =>
        match splitAtOp s pos with
        | none => .panic
        | some (l, r) => combine (evalShape k fuel (trim k l)) (evalShape k fuel (trim k r))
      | none => evalLeaf s

/-- `evaluate_expression`: recursion depth is bounded by the number of chars + 1 (`evalShape_total`) -/
def evalExpr (k : Cls) (s : Str) : Shape := evalShape k (s.length + 1) s

/-! ## K2 — src/parser/grl.rs `parse_value`, `parse_array_literal`, `is_identifier`, `is_expression` -/

inductive Val where
  | str (s : Str)
  | int (i : Int)
  | num
  | bool (b : Bool)
  | null
  | expr (s : Str)
  | arr (vs : List Val)
deriving Repr

def eqIgnoreAsciiCase (s : Str) (w : String) : Bool := s.map lowerAscii == w.toList

def hasArithOp (s : Str) : Bool :=
  s.contains '+' || s.contains '-' || s.contains '*' || s.contains '/' || s.contains '%'

def isExpression (s : Str) : Bool := hasArithOp s && (s.contains '.' || s.contains ' ')

def isIdentifier (k : Cls) (s : Str) : Bool :=
  match s with
  | [] => false
  | c :: _ => (k.alpha c || c == '_') && s.all (fun c => k.alnum c || c == '_')

/-- element splitter of `parse_array_literal` (commas outside quotes; trimmed, non-empty elements) -/
def arrayElemsGo (k : Cls) : Str → Str → Bool → Char → List Str → List Str
  | [], cur, _, _, acc =>
    let t := trim k cur.reverse
    (if t.isEmpty then acc else t :: acc).reverse
  | c :: cs, cur, inq, qc, acc =>
    if (c == '"' || c == '\'') && !inq then arrayElemsGo k cs (c :: cur) true c acc
    else if inq && c == qc then arrayElemsGo k cs (c :: cur) false qc acc
    else if c == ',' && !inq then
      let t := trim k cur.reverse
      arrayElemsGo k cs [] inq qc (if t.isEmpty then acc else t :: acc)
    else arrayElemsGo k cs (c :: cur) inq qc acc
def arrayElems (k : Cls) (inner : Str) : List Str := arrayElemsGo k inner [] false ' ' []

/-- the non-array part of `parse_value` on an already trimmed string -/
def parseScalar (k : Cls) (t : Str) : R Val :=
  match unquote t '"' with
  | none => .panic
  | some (some u) => .ok (.str u)
  | some none =>
    match unquote t '\'' with
    | none => .panic
    | some (some u) => .ok (.str u)
    | some none =>
      if eqIgnoreAsciiCase t "true" then .ok (.bool true)
      else if eqIgnoreAsciiCase t "false" then .ok (.bool false)
      else if eqIgnoreAsciiCase t "null" then .ok .null
      else match parseI64 t with
        | some i => .ok (.int i)
        | none =>
          if isF64 t then .ok .num
          else if isExpression t then .ok (.expr t)
          else if t.contains '.' then .ok (.expr t)
          else if isIdentifier k t then .ok (.expr t)
          else .ok (.str t)

def collect : List (R Val) → R (List Val)
  | [] => .ok []
  | r :: rs =>
    match r with
    | .ok v => (match collect rs with
      | .ok vs => .ok (v :: vs)
      | .err => .err | .panic => .panic | .oof => .oof)
    | .err => .err
    | .panic => .panic
    | .oof => .oof

/-- `parse_value` (fixed). Recursion through `parse_array_literal` is on strictly shorter strings. -/
def parseValueF (k : Cls) : Nat → Str → R Val
  | 0, _ => .oof
  | fuel + 1, s =>
    let t := trim k s
    if t.head? = some '[' ∧ t.getLast? = some ']' then
      -- parse_array_literal: `content[1..content.len() - 1].trim()`
      match slice t 1 (blen t - 1) with
      | none => .panic
      | some inner0 =>
        let inner := trim k inner0
        if inner.isEmpty then .ok (.arr [])
        else match collect ((arrayElems k inner).map (parseValueF k fuel)) with
          | .ok vs => .ok (.arr vs)
          | .err => .err | .panic => .panic | .oof => .oof
    else parseScalar k t

def parseValue (k : Cls) (s : Str) : R Val := parseValueF k (s.length + 1) s

/-! ## K4 — src/backward/disjunction.rs `split_top_level_or` (fixed), `DisjunctionParser::parse` -/

structure OrSt where
  parts : List Str := []     -- reversed
  cur : Str := []            -- reversed
  depth : Int := 0
  inStr : Bool := false

def pushPart (k : Cls) (st : OrSt) : List Str :=
  let t := trim k st.cur.reverse
  if t.isEmpty then st.parts else t :: st.parts

/-- the `while i < len` loop over `chars: Vec<char>`; `rest` = `chars[i..]`, `skip` = chars still to be
jumped over after `i += 4`. `chars[i..i + 4]` is the partial `sliceC`, guarded by `i + 4 <= len`. -/
def splitOrGo (k : Cls) : Str → Nat → OrSt → R (List Str)
  | [], _, st => .ok (pushPart k st).reverse
  | _ :: rest, skip + 1, st => splitOrGo k rest skip st
  | c :: rest, 0, st =>
    if c == '"' then splitOrGo k rest 0 { st with inStr := !st.inStr, cur := c :: st.cur }
    else if c == '(' && !st.inStr then splitOrGo k rest 0 { st with depth := st.depth + 1, cur := c :: st.cur }
    else if c == ')' && !st.inStr then splitOrGo k rest 0 { st with depth := st.depth - 1, cur := c :: st.cur }
    else if c == ' ' && !st.inStr && st.depth == 0 then
      if 4 ≤ (c :: rest).length then
        match sliceC (c :: rest) 0 4 with
        | none => .panic
        | some w =>
          if w == " OR ".toList then splitOrGo k rest 3 { st with parts := pushPart k st, cur := [] }
          else splitOrGo k rest 0 { st with cur := c :: st.cur }
      else splitOrGo k rest 0 { st with cur := c :: st.cur }
    else splitOrGo k rest 0 { st with cur := c :: st.cur }

def splitTopLevelOr (k : Cls) (s : Str) : R (List Str) := splitOrGo k s 0 {}

/-- pre-fix: `&input[i..i + 4]` with the *char* index `i` used as a byte offset (F-C05c); only the slice -/
def orSliceOld (input : Str) (i : Nat) : Option Str := slice input i (i + 4)

/-- `DisjunctionParser::parse`: `ok none` / `ok (some branches)` -/
def disjParse (k : Cls) (s : Str) : R (Option (List Str)) :=
  let p := trim k s
  if p.head? = some '(' ∧ p.getLast? = some ')' then
    match slice p 1 (blen p - 1) with
    | none => .panic
    | some inner =>
      if !containsStr inner " OR ".toList then .ok none
      else match splitTopLevelOr k inner with
        | .ok parts => if parts.length < 2 then .ok none else .ok (some (parts.map (trim k)))
        | .err => .err | .panic => .panic | .oof => .oof
  else .ok none

def disjContainsOr (k : Cls) (s : Str) : R Bool :=
  match splitTopLevelOr k s with
  | .ok parts => .ok (decide (1 < parts.length))
  | .err => .err | .panic => .panic | .oof => .oof

/-! ## K5 — src/backward/grl_query.rs `find_goal_end`, `extract_goal`, `find_matching_brace`, `parse_queries` -/

/-- `find_goal_end` (fixed: byte offsets). `none` = Err; `some off` = Ok(off) -/
def goalEndGo : Str → Nat → Nat → Bool → Bool → Option Nat
  | [], off, depth, inStr, _ => if inStr then none else if 0 < depth then none else some off
  | c :: cs, off, depth, inStr, esc =>
    let off' := off + c.utf8Size
    if esc then goalEndGo cs off' depth inStr false
    else if c == '\\' && inStr then goalEndGo cs off' depth inStr true
    else if c == '"' then goalEndGo cs off' depth (!inStr) false
    else if c == '(' && !inStr then goalEndGo cs off' (depth + 1) inStr false
    else if c == ')' && !inStr then (if depth = 0 then none else goalEndGo cs off' (depth - 1) inStr false)
    else if c == '\n' && !inStr && depth = 0 then some off
    else goalEndGo cs off' depth inStr false
def findGoalEnd (s : Str) : Option Nat := goalEndGo s 0 0 false false

/-- pre-fix: the *char index* is returned (F-C05d); `bl` = byte length of the whole input -/
def goalEndOldGo (bl : Nat) : Str → Nat → Nat → Bool → Bool → Option Nat
  | [], _, depth, inStr, _ => if inStr then none else if 0 < depth then none else some bl
  | c :: cs, i, depth, inStr, esc =>
    if esc then goalEndOldGo bl cs (i + 1) depth inStr false
    else if c == '\\' && inStr then goalEndOldGo bl cs (i + 1) depth inStr true
    else if c == '"' then goalEndOldGo bl cs (i + 1) depth (!inStr) false
    else if c == '(' && !inStr then goalEndOldGo bl cs (i + 1) (depth + 1) inStr false
    else if c == ')' && !inStr then (if depth = 0 then none else goalEndOldGo bl cs (i + 1) (depth - 1) inStr false)
    else if c == '\n' && !inStr && depth = 0 then some i
    else goalEndOldGo bl cs (i + 1) depth inStr false
def findGoalEndOld (s : Str) : Option Nat := goalEndOldGo (blen s) s 0 0 false false

/-- `extract_goal` -/
def extractGoal (k : Cls) (input : Str) : R Str :=
  match findStr input "goal:".toList with
  | none => .err
  | some start =>
    match sliceFrom input (start + 5) with
    | none => .panic
    | some after =>
      match findGoalEnd after with
      | none => .err
      | some e =>
        match sliceTo after e with
        | none => .panic
        | some g => let g := trim k g; if g.isEmpty then .err else .ok g

/-- `\s` of the regex engine (`rexile`), as observed: blank, tab, CR, LF — not VT / FF, not Unicode white space -/
def reWhite (c : Char) : Bool := c == ' ' || c == '\t' || c == '\n' || c == '\r'

/-- scanner standing for the regex `query\s+"([^"]+)"\s*\{` (unanchored); agreement with `rexile` is
covered by the correspondence check only -/
def nameAt (r : Str) : Bool :=
  if "query".toList.isPrefixOf r then
    let r1 := r.drop 5
    let r2 := r1.dropWhile reWhite
    if r2.length < r1.length then
      match r2 with
      | '"' :: r3 =>
        let nm := r3.takeWhile (· != '"')
        match r3.dropWhile (· != '"') with
        | '"' :: r4 => !nm.isEmpty && (r4.dropWhile reWhite).head? == some '{'
        | _ => false
      | _ => false
    else false
  else false
def hasQueryName : Str → Bool
  | [] => false
  | c :: cs => nameAt (c :: cs) || hasQueryName cs

/-- `GRLQueryParser::parse` as far as ok/err/panic and the goal go -/
def grlQueryParse (k : Cls) (s : Str) : R Str :=
  let input := trim k s
  if hasQueryName input then extractGoal k input else .err

/-! ### numeric attributes `max-depth:` / `max-solutions:` (`extract_max_depth`, `extract_max_solutions`) -/

/-- scanner standing for the regex `<key>:\s*(\d+)` at one position: the captured (ASCII) digit run -/
def numAttrAt (key : Str) (r : Str) : Option Str :=
  if (key ++ [':']).isPrefixOf r then
    let ds := ((r.drop (key.length + 1)).dropWhile reWhite).takeWhile isDigit
    if ds.isEmpty then none else some ds
  else none

/-- leftmost match (`Pattern::captures`) -/
def findNumAttr (key : Str) : Str → Option Str
  | [] => none
  | c :: cs => match numAttrAt key (c :: cs) with
    | some ds => some ds
    | none => findNumAttr key cs

/-- `caps[1].parse::<usize>()`: the outcome of the CONVERSION of a digit run (64-bit target) -/
def parseUsizeDigits (ds : Str) : Option Nat :=
  let v := digitsVal ds
  if v ≤ 18446744073709551615 then some v else none

/-- `re.captures(input).and_then(|caps| caps[1].parse().ok())`: a run that does not fit `usize` is IGNORED (`.ok()`), never
unwrapped — `R` so that the no-panic statement is about this code path (`numAttrUnwrap` is the unwrapping variant) -/
def numAttr (key : Str) (input : Str) : R (Option Nat) :=
  match findNumAttr key input with
  | none => .ok none
  | some ds => .ok (parseUsizeDigits ds)

/-- the variant that unwraps the conversion (`.map(|caps| caps[1].parse().expect(..))`): refuted by `numAttrUnwrap_counterexample` -/
def numAttrUnwrap (key : Str) (input : Str) : R (Option Nat) :=
  match findNumAttr key input with
  | none => .ok none
  | some ds => match parseUsizeDigits ds with
    | some n => .ok (some n)
    | none => .panic

/-- `(query.max_depth, query.max_solutions)` after `GRLQueryParser::parse`: defaults 10 and 1 (`GRLQuery::new`) -/
def grlQueryNums (k : Cls) (s : Str) : R (Nat × Nat) :=
  let input := trim k s
  match numAttr "max-depth".toList input, numAttr "max-solutions".toList input with
  | .ok d, .ok m => .ok (d.getD 10, m.getD 1)
  | .panic, _ => .panic
  | _, .panic => .panic
  | _, _ => .err

/-- `find_matching_brace` (fixed: byte offsets): `Some(i + 1)` -/
def braceGo : Str → Nat → Int → Bool → Bool → Option Nat
  | [], _, _, _, _ => none
  | c :: cs, off, depth, inStr, esc =>
    let off' := off + c.utf8Size
    if esc then braceGo cs off' depth inStr false
    else if c == '\\' then braceGo cs off' depth inStr true
    else if c == '"' then braceGo cs off' depth (!inStr) false
    else if c == '{' && !inStr then braceGo cs off' (depth + 1) inStr false
    else if c == '}' && !inStr then (if depth - 1 = 0 then some (off + 1) else braceGo cs off' (depth - 1) inStr false)
    else braceGo cs off' depth inStr false
def findMatchingBrace (s : Str) : Option Nat := braceGo s 0 0 false false

/-- `str::split(pat)` for a non-empty string pattern -/
def splitOnGo (pat : Str) : Str → Nat → Str → List Str → List Str
  | [], _, cur, acc => (cur.reverse :: acc).reverse
  | _ :: cs, skip + 1, cur, acc => splitOnGo pat cs skip cur acc
  | c :: cs, 0, cur, acc =>
    if pat.isPrefixOf (c :: cs) then splitOnGo pat cs (pat.length - 1) [] (cur.reverse :: acc)
    else splitOnGo pat cs 0 (c :: cur) acc
def splitOn (s pat : Str) : List Str := splitOnGo pat s 0 [] []

def queriesGo (k : Cls) : List Str → R (List Str)
  | [] => .ok []
  | part :: rest =>
    let q := "query".toList ++ part
    match findMatchingBrace q with
    | none => queriesGo k rest
    | some e =>
      match sliceTo q e with
      | none => .panic
      | some complete =>
        match grlQueryParse k complete, queriesGo k rest with
        | .panic, _ => .panic
        | _, .panic => .panic
        | .ok g, .ok gs => .ok (g :: gs)
        | _, r => r

/-- `GRLQueryParser::parse_queries` -/
def grlParseQueries (k : Cls) (s : Str) : R (List Str) := queriesGo k ((splitOn s "query".toList).drop 1)

/-! ## K6 — src/backward/aggregation.rs `parse_function_call`, `parse_aggregate_query` -/

/-- `parse_function_call`: `(func_name, var_name)` -/
def parseFunctionCall (k : Cls) (s0 : Str) : R (Str × Str) :=
  let s := trim k s0
  match findChar s '(' with
  | none => .err
  | some o =>
    match rfindChar s ')' with
    | none => .err
    | some c =>
      if c ≤ o then .err
      else match sliceTo s o, slice s (o + 1) c with
        | some f, some v =>
          let v := trim k v
          .ok (trim k f, match v with | '?' :: t => t | _ => v)
        | _, _ => .panic

structure Agg where
  func : String
  var : Option Str
  pattern : Str
  filter : Option Str

/-- `splitn(2, pat)`: `none` when the pattern does not occur -/
def splitOnce (s pat : Str) : R (Option (Str × Str)) :=
  match findStr s pat with
  | none => .ok none
  | some i =>
    match sliceTo s i, sliceFrom s (i + blen pat) with
    | some a, some b => .ok (some (a, b))
    | _, _ => .panic

def parseAggregate (k : Cls) (q0 : Str) : R Agg :=
  let q := trim k q0
  match splitOnce q " WHERE ".toList with
  | .panic => .panic | .err => .err | .oof => .oof
  | .ok none => .err
  | .ok (some (fp, pp)) =>
    match parseFunctionCall k (trim k fp) with
    | .panic => .panic | .err => .err | .oof => .oof
    | .ok (fname, v) =>
      let name := String.ofList (fname.map lowerAscii)
      let needVar := name == "sum" || name == "avg" || name == "min" || name == "max"
      let known := needVar || name == "count" || name == "first" || name == "last"
      if !known then .err
      else if needVar && v.isEmpty then .err
      else
        let pp := trim k pp
        match splitOnce pp " AND ".toList with
        | .panic => .panic | .err => .err | .oof => .oof
        | .ok none => .ok ⟨name, if needVar then some v else none, pp, none⟩
        | .ok (some (a, b)) => .ok ⟨name, if needVar then some v else none, trim k a, some (trim k b)⟩

/-! ## K7 — src/backward/nested.rs `has_nested`, `NestedQueryParser::parse` -/

/-- `has_nested`: `rest` = `chars[i..]`; `chars[i..i + 5]` guarded by `i + 5 < chars.len()` -/
def hasNestedGo : Str → Int → Bool → R Bool
  | [], _, _ => .ok false
  | c :: rest, depth, inP =>
    if c == '(' then hasNestedGo rest (depth + 1) true
    else if c == ')' then hasNestedGo rest (depth - 1) (if depth - 1 == 0 then false else inP)
    else if c == 'W' && inP && decide (0 < depth) && decide (5 < (c :: rest).length) then
      match sliceC (c :: rest) 0 5 with
      | none => .panic
      | some w => if w == "WHERE".toList then .ok true else hasNestedGo rest depth inP
    else hasNestedGo rest depth inP
def hasNested (s : Str) : R Bool := hasNestedGo s 0 false

/-- `NestedQueryParser::parse`: the goal patterns -/
def nestedParse (k : Cls) (s : Str) : R (List Str) :=
  match findStr s " WHERE ".toList with
  | none => .ok []
  | some i =>
    match sliceFrom s (i + 7) with
    | none => .panic
    | some c =>
      let conds := (splitOn (trim k c) " AND ".toList).map (trim k)
      .ok (conds.filter (fun c => !containsStr c " WHERE ".toList && !c.isEmpty && c.head? != some '('))

/-! ## K8 — `find(ASCII pattern) + pattern.len()` sites of src/parser/grl.rs -/

/-- `extract_directive(text, directive)` (`directive` is `"export:"` / `"import:"`) -/
def extractDirective (k : Cls) (text directive : Str) : R (Option Str) :=
  match findStr text directive with
  | none => .ok none
  | some pos =>
    match sliceFrom text (pos + blen directive) with
    | none => .panic
    | some after =>
      let e := match findStr after "import:".toList with
        | some e => e
        | none => match findStr after "export:".toList with
          | some e => e
          | none => blen after
      match sliceTo after e with
      | none => .panic
      | some d => .ok (some (trim k d))

/-- the assignment / append split of `parse_action_statement`: `find("+=")`, `find('=')` -/
def splitAssign (s : Str) : R (Option (Str × Str)) :=
  match findStr s "+=".toList with
  | some p =>
    (match sliceTo s p, sliceFrom s (p + 2) with
     | some f, some v => .ok (some (f, v))
     | _, _ => .panic)
  | none =>
    match findChar s '=' with
    | some p =>
      (match sliceTo s p, sliceFrom s (p + 1) with
       | some f, some v => .ok (some (f, v))
       | _, _ => .panic)
    | none => .ok none

/-! ## (a) — src/backward/expression.rs `ExpressionParser` (complete model)

The parser state `(input: Vec<char>, position)` is represented by the remaining input
`r = input[position..]`; `position <= input.len()` is immediate in the code (`consume_char` is guarded,
the only other assignment restores an earlier position), so `self.input[self.position..]` is `r`.
The one index computed by arithmetic, `self.input[next_pos]` in `peek_word`, is kept as an explicit
partial access (`none` ↦ `.panic`). Recursion (`!`, `(`) spends one unit of depth fuel per consumed char;
the `while peek_operator(..)` loops have their own iteration fuel. -/

inductive Lit where
  | bool (b : Bool)
  | null
  | str (s : Str)
  | num
deriving Repr, DecidableEq

inductive Expr where
  | field (n : Str)
  | lit (l : Lit)
  | cmp (op : String) (l r : Expr)
  | and (l r : Expr)
  | or (l r : Expr)
  | not (e : Expr)
  | var (n : Str)
deriving Repr, DecidableEq

/-- result of a parser function: value and remaining input -/
inductive PR (α : Type) where
  | ok (a : α) (rest : Str)
  | err
  | panic
  | oof
deriving Repr

def skipWs (k : Cls) (r : Str) : Str := r.dropWhile k.white

/-- `peek_operator(op)`: skips whitespace (a state change), then `starts_with` -/
def peekOp (k : Cls) (op : String) (r : Str) : Bool × Str :=
  let r' := skipWs k r
  (op.toList.isPrefixOf r', r')

/-- `consume_operator(op)`: `op.len()` guarded `consume_char`s after skipping whitespace -/
def consumeOp (k : Cls) (op : String) (r : Str) : Str := (skipWs k r).drop op.length

/-- `peek_word(word)` on whitespace-skipped input; `none` = `self.input[next_pos]` out of range -/
def peekWord (k : Cls) (word : String) (r : Str) : Option Bool :=
  if word.toList.isPrefixOf r then
    if r.length ≤ word.length then some true      -- `next_pos >= self.input.len()`
    else match r[word.length]? with
      | none => none
      | some c => some (!k.alnum c && c != '_')
  else some false

/-- the string-literal scanner of `try_parse_literal` (after the opening quote) -/
def scanString : Str → Str → Bool → Option (Str × Str)
  | [], _, _ => none                                  -- unterminated
  | c :: cs, acc, esc =>
    if esc then
      let e := if c == 'n' then '\n' else if c == 't' then '\t' else if c == 'r' then '\r' else c
      scanString cs (e :: acc) false
    else if c == '\\' then scanString cs acc true
    else if c == '"' then some (acc.reverse, cs)
    else scanString cs (c :: acc) false

/-- the number scanner of `try_parse_literal`: `(num_str, has_dot, rest)` -/
def scanNumber (k : Cls) : Str → Str → Bool → Str × Bool × Str
  | [], acc, dot => (acc.reverse, dot, [])
  | c :: cs, acc, dot =>
    if k.numeric c then scanNumber k cs (c :: acc) dot
    else if c == '.' && !dot then scanNumber k cs (c :: acc) true
    else if c == '-' && acc.isEmpty then scanNumber k cs (c :: acc) dot
    else (acc.reverse, dot, c :: cs)

/-- `try_parse_literal`: `ok none r` = no literal here (position restored) -/
def tryLiteral (k : Cls) (r0 : Str) : PR (Option Lit) :=
  let r := skipWs k r0
  match peekWord k "true" r with
  | none => .panic
  | some true => .ok (some (.bool true)) (r.drop 4)
  | some false =>
  match peekWord k "false" r with
  | none => .panic
  | some true => .ok (some (.bool false)) (r.drop 5)
  | some false =>
  match peekWord k "null" r with
  | none => .panic
  | some true => .ok (some .null) (r.drop 4)
  | some false =>
  match r with
  | [] => .ok none r
  | c :: cs =>
    if c == '"' then
      match scanString cs [] false with
      | some (s, rest) => .ok (some (.str s)) rest
      | none => .err
    else if k.numeric c || c == '-' then
      let sn := scanNumber k r [] false      -- (num_str, has_dot, rest)
      if !sn.1.isEmpty && sn.1 != ['-'] && (if sn.2.1 then isF64 sn.1 else (parseI64 sn.1).isSome) then
        .ok (some .num) sn.2.2
      else .ok none r
    else .ok none r

def takeIdent (k : Cls) (dotOk : Bool) (r : Str) : Str × Str :=
  (r.takeWhile (fun c => k.alnum c || c == '_' || (dotOk && c == '.')),
   r.dropWhile (fun c => k.alnum c || c == '_' || (dotOk && c == '.')))

def cmpOps : List (String × String) :=
  [("==", "Equal"), ("!=", "NotEqual"), (">=", "GreaterThanOrEqual"), ("<=", "LessThanOrEqual"),
   (">", "GreaterThan"), ("<", "LessThan")]

/-- first comparison operator present (in the code's order); whitespace is skipped by the first peek -/
def findCmp (r' : Str) : List (String × String) → Option (String × String)
  | [] => none
  | (op, nm) :: rest => if op.toList.isPrefixOf r' then some (op, nm) else findCmp r' rest

/-- `parse_comparison` over a given `parse_primary` -/
def parseComparisonWith (k : Cls) (prim : Str → PR Expr) (r : Str) : PR Expr :=
  match prim r with
  | .ok left r1 =>
    let r2 := skipWs k r1
    match findCmp r2 cmpOps with
    | none => .ok left r2
    | some (op, nm) =>
      match prim (r2.drop op.length) with
      | .ok right r3 => .ok (.cmp nm left right) r3
      | .err => .err | .panic => .panic | .oof => .oof
  | .err => .err | .panic => .panic | .oof => .oof

/-- the `while self.peek_operator("&&")` loop -/
def andLoop (k : Cls) (prim : Str → PR Expr) : Nat → Expr → Str → PR Expr
  | 0, _, _ => .oof
  | n + 1, left, r =>
    let r' := skipWs k r                      -- peek_operator("&&") skips whitespace first
    if "&&".toList.isPrefixOf r' then
      match parseComparisonWith k prim (r'.drop 2) with
      | .ok right r2 => andLoop k prim n (.and left right) r2
      | .err => .err | .panic => .panic | .oof => .oof
    else .ok left r'

def parseAndWith (k : Cls) (prim : Str → PR Expr) (r : Str) : PR Expr :=
  match parseComparisonWith k prim r with
  | .ok left r1 => andLoop k prim (r1.length + 1) left r1
  | .err => .err | .panic => .panic | .oof => .oof

/-- the `while self.peek_operator("||")` loop -/
def orLoop (k : Cls) (prim : Str → PR Expr) : Nat → Expr → Str → PR Expr
  | 0, _, _ => .oof
  | n + 1, left, r =>
    let r' := skipWs k r                      -- peek_operator("||") skips whitespace first
    if "||".toList.isPrefixOf r' then
      match parseAndWith k prim (r'.drop 2) with
      | .ok right r2 => orLoop k prim n (.or left right) r2
      | .err => .err | .panic => .panic | .oof => .oof
    else .ok left r'

/-- `parse_expression` over a given `parse_primary` -/
def parseExpressionWith (k : Cls) (prim : Str → PR Expr) (r : Str) : PR Expr :=
  match parseAndWith k prim r with
  | .ok left r1 => orLoop k prim (r1.length + 1) left r1
  | .err => .err | .panic => .panic | .oof => .oof

/-- `parse_primary`; the first argument is the remaining recursion depth -/
def parsePrimary (k : Cls) : Nat → Str → PR Expr
  | 0, _ => .oof
  | d + 1, r0 =>
    let r := skipWs k r0
    match r with
    | '!' :: t =>
      (match parsePrimary k d t with
       | .ok e r' => .ok (.not e) r'
       | .err => .err | .panic => .panic | .oof => .oof)
    | '(' :: t =>
      (match parseExpressionWith k (parsePrimary k d) t with
       | .ok e r' =>
         (match skipWs k r' with
          | ')' :: r'' => .ok e r''
          | _ => .err)
       | .err => .err | .panic => .panic | .oof => .oof)
    | '?' :: t =>
      let ti := takeIdent k false t            -- consume_identifier
      if ti.1.isEmpty then .err else .ok (.var ('?' :: ti.1)) ti.2
    | _ =>
      match tryLiteral k r with
      | .ok (some l) rest => .ok (.lit l) rest
      | .ok none rest =>
        let ti := takeIdent k true rest          -- consume_field_path
        if ti.1.isEmpty then .err else .ok (.field ti.1) ti.2
      | .err => .err | .panic => .panic | .oof => .oof

/-- `ExpressionParser::parse`: depth fuel = number of chars + 1 (`parse_total`, `depth_le_length`) -/
def parseExpr (k : Cls) (s : Str) : R Expr :=
  let t := trim k s
  match parseExpressionWith k (parsePrimary k (t.length + 1)) t with
  | .ok e _ => .ok e
  | .err => .err | .panic => .panic | .oof => .oof

/-- `str::strip_prefix(pat)` at byte level: `starts_with(pat)`, then the slice `&s[pat.len()..]`.
`none` = the slice panicked (never: `stripPrefix_no_panic`); `some none` = no such prefix -/
def stripPrefixB (pat s : Str) : Option (Option Str) :=
  if pat.isPrefixOf s then
    match sliceFrom s (blen pat) with
    | some r => some (some r)
    | none => none
  else some none

/-- the NOT keyword of `QueryParser::parse`: `trimmed.strip_prefix("NOT ")` — `(is_negated, actual_query)` -/
def notPrefix (t : Str) : R (Bool × Str) :=
  match stripPrefixB "NOT ".toList t with
  | none => .panic
  | some (some rest) => .ok (true, rest)
  | some none => .ok (false, t)

/-- a variant that recognises the keyword by a test on a character CLASS (`starts_with("NOT") && trimmed[3..].starts_with(
char::is_whitespace)`) and then skips the separator with the FIXED byte offset `&trimmed[4..]`: refuted by
`notPrefixFixedOffset_counterexample` (a multi-byte white space character after NOT) -/
def notPrefixFixedOffset (k : Cls) (t : Str) : R (Bool × Str) :=
  if "NOT".toList.isPrefixOf t && ((t.drop 3).head?.map k.white).getD false then
    match sliceFrom t 4 with
    | some rest => .ok (true, trimStart k rest)
    | none => .panic
  else .ok (false, t)

/-- `QueryParser::parse`: `(is_negated, expression)` -/
def parseQuery (k : Cls) (s : Str) : R (Bool × Expr) :=
  if s.isEmpty then .err
  else
    match notPrefix (trim k s) with
    | .ok (neg, q) =>
      (match parseExpr k q with
       | .ok e => .ok (neg, e)
       | .err => .err | .panic => .panic | .oof => .oof)
    | .err => .err | .panic => .panic | .oof => .oof

/-- `QueryParser::validate`: `parse(query).map(|_| ())` -/
def validateQuery (k : Cls) (s : Str) : R Unit :=
  match parseQuery k s with
  | .ok _ => .ok ()
  | .err => .err | .panic => .panic | .oof => .oof

/-! ## K3 / (c) — src/parser/grl.rs `parse_when_clause`: slicing skeleton and recursion
(`parse_single_condition` — regex driven — and the body of `parse_accumulate_condition` are parameters) -/

/-- `is_balanced_parentheses` -/
def isBalancedGo : Str → Int → Bool
  | [], n => n == 0
  | c :: cs, n =>
    if c == '(' then isBalancedGo cs (n + 1)
    else if c == ')' then (if n - 1 < 0 then false else isBalancedGo cs (n - 1))
    else isBalancedGo cs n
def isBalanced (s : Str) : Bool := isBalancedGo s 0

/-- `split_logical_operator(clause, "&&" | "||")` (`op` = `'&'` / `'|'`): every part pushed at an operator
(trimmed, possibly empty) and the non-empty trimmed tail -/
def finishParts (k : Cls) (cur : Str) (acc : List Str) : List Str :=
  (if (trim k cur.reverse).isEmpty then acc else trim k cur.reverse :: acc).reverse

def splitLogicalGo (k : Cls) (op : Char) : Str → Str → Int → List Str → List Str
  | [], cur, _, acc => finishParts k cur acc
  | [c], cur, _, acc => finishParts k (c :: cur) acc
  | c :: c2 :: cs, cur, d, acc =>
    if c == op && d == 0 && c2 == op then splitLogicalGo k op cs [] d (trim k cur.reverse :: acc)
    else splitLogicalGo k op (c2 :: cs) (c :: cur) (if c == '(' then d + 1 else if c == ')' then d - 1 else d) acc
def splitLogical (k : Cls) (op : Char) (clause : Str) : List Str := splitLogicalGo k op clause [] 0 []

/-- sequential `?` over the parts -/
def allOk : List (R Unit) → R Unit
  | [] => .ok ()
  | r :: rs =>
    match r with
    | .ok _ => allOk rs
    | .err => .err
    | .panic => .panic
    | .oof => .oof

/-- `&clause[n..clause.len() - 1]` after `starts_with(kw)` (`kw` = `exists(` / `forall(` / `accumulate(`,
`n = kw.len()`) and `ends_with(")")` have been tested; `.err` when the test fails -/
def innerOf (kw : Str) (c : Str) : R Str :=
  if kw.isPrefixOf c ∧ c.getLast? = some ')' then
    match slice c (blen kw) (blen c - 1) with
    | none => .panic
    | some inner => .ok inner
  else .err

/-- strip outer parentheses: `&trimmed[1..trimmed.len() - 1]` after `starts_with('(') && ends_with(')')` -/
def stripOuter (t : Str) : R Str :=
  if t.head? = some '(' ∧ t.getLast? = some ')' then
    match slice t 1 (blen t - 1) with
    | none => .panic
    | some inner => .ok (if isBalanced inner then inner else t)
  else .ok t

/-- `parse_when_clause` -/
def parseWhenF (k : Cls) (leaf accum : Str → R Unit) : Nat → Str → R Unit
  | 0, _ => .oof
  | fuel + 1, w =>
    match stripOuter (trim k w) with
    | .panic => .panic
    | .err => .err
    | .oof => .oof
    | .ok clause =>
      let orParts := splitLogical k '|' clause
      if 2 ≤ orParts.length then allOk (orParts.map (parseWhenF k leaf accum fuel))
      else
        let andParts := splitLogical k '&' clause
        if 2 ≤ andParts.length then allOk (andParts.map (parseWhenF k leaf accum fuel))
        else
          let c := trimStart k clause
          if c.head? = some '!' then
            -- parse_not_condition: `clause.strip_prefix('!')` (on the un-trimmed clause), then `.trim()`
            match clause with
            | '!' :: inner => parseWhenF k leaf accum fuel (trim k inner)
            | _ => .err
          else if "exists(".toList.isPrefixOf c then
            match innerOf "exists(".toList c with
            | .ok inner => parseWhenF k leaf accum fuel inner
            | .err => .err | .panic => .panic | .oof => .oof
          else if "forall(".toList.isPrefixOf c then
            match innerOf "forall(".toList c with
            | .ok inner => parseWhenF k leaf accum fuel inner
            | .err => .err | .panic => .panic | .oof => .oof
          else if "accumulate(".toList.isPrefixOf c then
            match innerOf "accumulate(".toList c with
            | .ok inner => accum inner
            | .err => .err | .panic => .panic | .oof => .oof
          else leaf clause

def parseWhen (k : Cls) (leaf accum : Str → R Unit) (w : Str) : R Unit := parseWhenF k leaf accum (w.length + 1) w

end C05
