import RreModel.C05.Model4
import RreModel.C05.Lemmas2
import RreModel.C05.Theorems2
/-
C05 — property theorems, fourth part: the COST of `evaluate_expression`.

`evalValue_total` bounds the recursion depth by `chars + 1`; the theorems here bound the NUMBER of calls by `2 * chars + 1`
for every text, every Unicode classification and every content of the facts, so "always terminates" for the evaluator means
at most 8193 calls on a 4 KiB text (each of which scans its own text a constant number of times) - a statement about the
model, tied to the code by the differential check and by the CHAIN family of the generator (operator chains of 8 .. 2047
terms under a per-case deadline), not a watchdog observation.  The variant of seeded change C05-13 (retry the text at the
other precedence level when the left operand fails) is refuted: its call count grows by x2.6 per term.
-/
namespace C05

/-- the three slices around a one-byte operator: the operands and the operator are disjoint parts of the text -/
theorem splitAtOp_lengths {ops : List Char} (hops : ∀ c, ops.contains c = true → c.utf8Size = 1)
    {s : Str} {pos : Nat} (h : OpAt ops s pos) :
    ∃ l r, splitAtOp s pos = some (l, r) ∧ l.length + r.length + 1 = s.length := by
  obtain ⟨l, r, hs, _, _⟩ := splitAtOp_of_OpAt hops h
  obtain ⟨p, c, q, rfl, rfl, hc⟩ := h
  have h1 := hops c hc
  have e1 : sliceTo (p ++ c :: q) (blen p) = some p := sliceTo_append p (c :: q)
  have e3 : sliceFrom (p ++ c :: q) (blen p + 1) = some q := by
    have := sliceFrom_append (p ++ [c]) q
    simpa [blen_append, h1] using this
  refine ⟨p, q, ?_, by simp; omega⟩
  have : l = p ∧ r = q := by
    simp [splitAtOp, e1, e3] at hs
    split at hs <;> simp_all
  rw [hs, this.1, this.2]

theorem evalValueC_value (k : Cls) (facts : Str → Option AV) :
    ∀ (fuel : Nat) (s : Str), (evalValueC k facts fuel s).1 = evalValueF k facts fuel s := by
  intro fuel
  induction fuel with
  | zero => intro s; simp [evalValueC, evalValueF]
  | succ n ih =>
    intro s
    simp only [evalValueC, evalValueF]
    cases h1 : findOperator ['+', '-'] (trim k s) with
    | some pos =>
      simp only []
      cases h : splitAtOp (trim k s) pos with
      | none => rfl
      | some p => obtain ⟨l, r⟩ := p; simp [ih]
    | none =>
      simp only []
      cases h2 : findOperator ['*', '/', '%'] (trim k s) with
      | some pos =>
        simp only []
        cases h : splitAtOp (trim k s) pos with
        | none => rfl
        | some p => obtain ⟨l, r⟩ := p; simp [ih]
      | none => rfl

theorem evalValueC_calls (k : Cls) (facts : Str → Option AV) :
    ∀ (fuel : Nat) (s : Str), (evalValueC k facts fuel s).2 ≤ 2 * s.length + 1 := by
  intro fuel
  induction fuel with
  | zero => intro s; simp [evalValueC]
  | succ n ih =>
    intro s
    have ht := length_trim_le k s
    simp only [evalValueC]
    cases h1 : findOperator ['+', '-'] (trim k s) with
    | some pos =>
      obtain ⟨l, r, hs, hlen⟩ := splitAtOp_lengths addsub_ascii (findOperator_spec h1)
      simp only [hs]
      have hl := ih (trim k l)
      have hr := ih (trim k r)
      have := length_trim_le k l
      have := length_trim_le k r
      omega
    | none =>
      simp only []
      cases h2 : findOperator ['*', '/', '%'] (trim k s) with
      | some pos =>
        obtain ⟨l, r, hs, hlen⟩ := splitAtOp_lengths muldiv_ascii (findOperator_spec h2)
        simp only [hs]
        have hl := ih (trim k l)
        have hr := ih (trim k r)
        have := length_trim_le k l
        have := length_trim_le k r
        omega
      | none => simp

/-- the instrumented evaluator is the model the driver predicts with -/
theorem evalCalls_value (k : Cls) (facts : Str → Option AV) (s : Str) :
    (evalValueC k facts (s.length + 1) s).1 = evalValue k facts s :=
  evalValueC_value k facts _ s

/-- `evaluate_expression` makes at most `2 * chars + 1` calls of itself: each call splits its text at one operator
position and evaluates each side once -/
theorem evalCalls_linear (k : Cls) (facts : Str → Option AV) (s : Str) : evalCalls k facts s ≤ 2 * s.length + 1 :=
  evalValueC_calls k facts _ s

/-- at the 4 KiB bound of the property's quantifier -/
theorem evalCalls_4k (k : Cls) (facts : Str → Option AV) (s : Str) (h : s.length ≤ 4096) : evalCalls k facts s ≤ 8193 := by
  have := evalCalls_linear k facts s
  omega

example : evalCalls exCls2 (fun _ => none) "1 + 2 * 3".toList = 5 := by decide
example : evalCalls exCls2 (fun _ => none) "x-1*2-1*2-1*2".toList = 13 := by decide
example : evalValue exCls2 (fun _ => none) "x-1*2-1*2-1*2".toList = .err := by decide

/-- the bound is false of the fall-through variant (C05-13): 53 calls on 13 chars, 1017 on 25 (x2.6 per `-1*2`) -/
def evalFallThrough_linear_full : Prop :=
  ∀ (k : Cls) (facts : Str → Option AV) (s : Str), (evalValueFT k facts (s.length + 1) s).2 ≤ 2 * s.length + 1

theorem evalFallThrough_counterexample : ¬ evalFallThrough_linear_full := by
  intro h
  have := h exCls2 (fun _ => none) "x-1*2-1*2-1*2".toList
  revert this
  decide

example : (evalValueFT exCls2 (fun _ => none) 26 "x-1*2-1*2-1*2-1*2-1*2-1*2".toList).2 = 1017 := by decide +kernel
/-- what the variant was for: `2 * -3` evaluates -/
example : (evalValueFT exCls2 (fun _ => none) 7 "2 * -3".toList).1 = .ok (.numv none) := by decide
example : evalValue exCls2 (fun _ => none) "2 * -3".toList = .err := by decide

end C05
