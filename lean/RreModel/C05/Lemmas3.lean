import RreModel.C05.Lemmas2
/-
C05 — lemmas for the round trip of the fixed masker (`mask_string_literals` after d181cbd + 1cca318, `unmask`):
`unmask lits (mask s) = s` for every text.  Core only.

The invariant is the relation `Masks lits m s` ("`m` is `s` with some pieces replaced by placeholders that the table
`lits` resolves to exactly those pieces, and every `MASK_START` of `m` starts such a placeholder"), in the shape of
`unmask`'s loop: a `MASK_START`-free run, then a placeholder, then the rest.
-/
namespace C05

/-! ## scans -/

theorem findCharGo_first (f : Char → Bool) : ∀ (p : Str) (c : Char) (q : Str) (off : Nat),
    (∀ x ∈ p, f x = false) → f c = true → findCharGo f (p ++ c :: q) off = some (off + blen p) := by
  intro p
  induction p with
  | nil => intro c q off _ hc; simp [findCharGo, hc]
  | cons d p ih =>
    intro c q off hp hc
    have hd : f d = false := hp d (by simp)
    simp only [List.cons_append, findCharGo, hd]
    rw [ih c q _ (fun x hx => hp x (by simp [hx])) hc]
    simp [blen]; omega

theorem findCharGo_absent (f : Char → Bool) : ∀ (cs : Str) (off : Nat),
    (∀ x ∈ cs, f x = false) → findCharGo f cs off = none := by
  intro cs
  induction cs with
  | nil => intro off _; rfl
  | cons c cs ih =>
    intro off h
    have hc : f c = false := h c (by simp)
    simp only [findCharGo, hc]
    exact ih _ (fun x hx => h x (by simp [hx]))

theorem findChar_first (p q : Str) (c : Char) (hp : c ∉ p) : findChar (p ++ c :: q) c = some (blen p) := by
  unfold findChar
  rw [findCharGo_first (· == c) p c q 0 (fun x hx => by simp; rintro rfl; exact hp hx) (by simp)]
  simp

theorem findChar_absent (s : Str) (c : Char) (hs : c ∉ s) : findChar s c = none :=
  findCharGo_absent _ s 0 (fun x hx => by simp; rintro rfl; exact hs hx)

/-! ## the decimal round trip of a table index -/

theorem isDigit_eq (c : Char) : isDigit c = c.isDigit := by
  unfold isDigit Char.isDigit
  simp [Char.le_def, UInt32.le_iff_toNat_le]

theorem decimal_isDigit (n : Nat) : ∀ c ∈ decimal n, isDigit c = true := by
  intro c hc
  rw [isDigit_eq]
  exact Nat.isDigit_of_mem_toDigits (by decide) (by decide) hc

theorem digitsVal_snoc (xs : Str) (d : Char) : digitsVal (xs ++ [d]) = digitsVal xs * 10 + (d.toNat - 48) := by
  simp [digitsVal, List.foldl_append]

theorem digitsVal_decimal (n : Nat) : digitsVal (decimal n) = n := by
  unfold decimal
  induction n using Nat.strongRecOn with
  | _ n ih =>
    rw [Nat.toDigits_eq_if (by decide)]
    split
    · rename_i h
      have := Nat.toNat_digitChar_sub_48_of_lt_ten h
      simp [digitsVal, this]
    · rename_i h
      rw [digitsVal_snoc, ih (n / 10) (by omega)]
      have := Nat.toNat_digitChar_sub_48_of_lt_ten (Nat.mod_lt n (by decide : 10 > 0))
      rw [this]; omega

theorem isDigit_ne {c : Char} (h : isDigit c = true) : c ≠ '+' ∧ c ≠ MASK_END ∧ c ≠ MASK_START := by
  refine ⟨?_, ?_, ?_⟩ <;> (intro e; subst e; revert h; decide)

theorem parseUsize_digits (s : Str) (hd : ∀ c ∈ s, isDigit c = true) (hne : s ≠ []) (hv : digitsVal s ≤ usizeMax) :
    parseUsize s = some (digitsVal s) := by
  cases s with
  | nil => exact absurd rfl hne
  | cons c cs =>
    have hplus := (isDigit_ne (hd c (by simp))).1
    have h2 : (c :: cs).all isDigit = true := by
      rw [List.all_eq_true]; exact hd
    unfold parseUsize
    split
    · rename_i heq; simp at heq; exact absurd heq.1 hplus
    · simp only [List.isEmpty_cons, h2, Bool.not_true, Bool.or_self, Bool.false_eq_true, if_false, hv, if_true]

theorem parseUsize_decimal (n : Nat) (hn : n ≤ usizeMax) : parseUsize (decimal n) = some n := by
  have := parseUsize_digits (decimal n) (decimal_isDigit n) Nat.toDigits_ne_nil (by rw [digitsVal_decimal]; exact hn)
  rw [this, digitsVal_decimal]

/-! ## `Masks lits m s` -/

inductive Masks (lits : List Str) : Str → Str → Prop where
  | done (pre : Str) : MASK_START ∉ pre → Masks lits pre pre
  | ph (pre : Str) (i : Nat) (b : Str) {m s : Str} : MASK_START ∉ pre → lits[i]? = some b → Masks lits m s →
      Masks lits (pre ++ placeholder i ++ m) (pre ++ b ++ s)

theorem Masks.nil (lits : List Str) : Masks lits [] [] := .done [] (by simp)

theorem Masks.raw {lits : List Str} {m s : Str} (c : Char) (hc : c ≠ MASK_START) (h : Masks lits m s) :
    Masks lits (c :: m) (c :: s) := by
  cases h with
  | done _ hp => exact .done _ (by simp [hp, Ne.symm hc])
  | ph pre i b hp hb hm =>
    have := Masks.ph (c :: pre) i b (by simp [hp, Ne.symm hc]) hb hm
    simpa using this

theorem Masks.plain {lits : List Str} {m s : Str} (pre : Str) (hp : MASK_START ∉ pre) (h : Masks lits m s) :
    Masks lits (pre ++ m) (pre ++ s) := by
  induction pre with
  | nil => simpa using h
  | cons c pre ih =>
    have hc : c ≠ MASK_START := by intro e; subst e; simp at hp
    exact Masks.raw c hc (ih (by intro hx; exact hp (by simp [hx])))

theorem Masks.ph' {lits : List Str} {m s : Str} (i : Nat) (b : Str) (hb : lits[i]? = some b) (h : Masks lits m s) :
    Masks lits (placeholder i ++ m) (b ++ s) := by
  simpa using Masks.ph [] i b (by simp) hb h

theorem Masks.append {lits : List Str} {m1 s1 m2 s2 : Str} (h1 : Masks lits m1 s1) (h2 : Masks lits m2 s2) :
    Masks lits (m1 ++ m2) (s1 ++ s2) := by
  induction h1 with
  | done pre hp => exact Masks.plain pre hp h2
  | ph pre i b hp hb _ ih =>
    have := Masks.ph pre i b hp hb ih
    simpa [List.append_assoc] using this

/-- a longer table resolves the same placeholders -/
theorem Masks.mono {lits : List Str} {m s : Str} (ext : List Str) (h : Masks lits m s) : Masks (lits ++ ext) m s := by
  induction h with
  | done pre hp => exact .done pre hp
  | ph pre i b hp hb _ ih =>
    refine .ph pre i b hp ?_ ih
    have hi : i < lits.length := by
      rcases Nat.lt_or_ge i lits.length with h | h
      · exact h
      · rw [List.getElem?_eq_none h] at hb; simp at hb
    rw [List.getElem?_append_left hi]; exact hb

/-! ## `unmask` inverts `Masks` -/

theorem prependS_prependS (a b : Str) (x : R Str) : prependS a (prependS b x) = prependS (a ++ b) x := by
  cases x <;> simp [prependS]

/-- the closure of `unmask` on a placeholder the masker wrote -/
theorem unmaskBody_placeholder (lits : List Str) (i : Nat) (b m : Str) (hi : i ≤ usizeMax) (hb : lits[i]? = some b) :
    unmaskBody lits (decimal i ++ MASK_END :: m) = .ok (some (b, blen (decimal i))) := by
  unfold unmaskBody
  have hno : MASK_END ∉ decimal i := fun hx => (isDigit_ne (decimal_isDigit i _ hx)).2.1 rfl
  rw [findChar_first _ _ _ hno]
  simp only [(delim_slices (decimal i) m MASK_END MASK_END_size).1, parseUsize_decimal i hi, hb]

theorem unmaskGo_masks (lits : List Str) (hl : lits.length ≤ usizeMax + 1) {m s : Str} (h : Masks lits m s) :
    ∀ fuel, m.length < fuel → unmaskGo lits fuel m = .ok s := by
  induction h with
  | done pre hp =>
    intro fuel hf
    cases fuel with
    | zero => omega
    | succ n => simp [unmaskGo, findChar_absent pre _ hp]
  | @ph pre i b m s hp hb _ ih =>
    intro fuel hf
    cases fuel with
    | zero => omega
    | succ n =>
      have hi : i ≤ usizeMax := by
        rcases Nat.lt_or_ge i lits.length with h | h
        · omega
        · rw [List.getElem?_eq_none h] at hb; simp at hb
      have e : pre ++ placeholder i ++ m = pre ++ MASK_START :: (decimal i ++ MASK_END :: m) := by
        simp [placeholder]
      rw [e]
      simp only [unmaskGo]
      rw [findChar_first _ _ _ hp]
      obtain ⟨h1, _, _, h4⟩ := delim_slices pre (decimal i ++ MASK_END :: m) MASK_START MASK_START_size
      simp only [MASK_START_size, h1, h4, unmaskBody_placeholder lits i b m hi hb, MASK_END_size,
        (delim_slices (decimal i) m MASK_END MASK_END_size).2.2.2]
      have hlen : m.length < n := by
        rw [e] at hf; simp at hf; omega
      rw [ih n hlen]
      simp [prependS]

/-! ## the masker establishes `Masks` -/

theorem copyUnmasked_spec : ∀ (t : Str) (lits : List Str),
    ∃ ext, (copyUnmasked t lits).2 = lits ++ ext ∧ ext.length ≤ t.length ∧
      Masks (copyUnmasked t lits).2 (copyUnmasked t lits).1 t := by
  intro t
  induction t with
  | nil => intro lits; exact ⟨[], by simp [copyUnmasked], by simp, by simpa [copyUnmasked] using Masks.nil lits⟩
  | cons c cs ih =>
    intro lits
    simp only [copyUnmasked]
    split
    · rename_i hc
      have hc' : c = MASK_START := by simpa using hc
      obtain ⟨ext, h1, h2, h3⟩ := ih (lits ++ [[c]])
      refine ⟨[c] :: ext, by simp [h1], by simp; omega, ?_⟩
      simp only []
      have hb : (copyUnmasked cs (lits ++ [[c]])).2[lits.length]? = some [c] := by
        rw [h1]; simp
      exact Masks.ph' lits.length [c] hb h3
    · rename_i hc
      have hc' : c ≠ MASK_START := by simpa using hc
      obtain ⟨ext, h1, h2, h3⟩ := ih lits
      exact ⟨ext, h1, by simp; omega, Masks.raw c hc' h3⟩

/-- `prependR` on an `.ok` -/
theorem prependR_eq_ok {pre : Str} {x : R (Str × List Str)} {m : Str} {l : List Str} (h : prependR pre x = .ok (m, l)) :
    ∃ t, x = .ok (t, l) ∧ m = pre ++ t := by
  cases x with
  | ok r => obtain ⟨t, l'⟩ := r; simp [prependR] at h; exact ⟨t, by simp [h.2], h.1.symm⟩
  | err => simp [prependR] at h
  | panic => simp [prependR] at h
  | oof => simp [prependR] at h

theorem maskGo_spec : ∀ (fuel : Nat) (s : Str) (lits : List Str) (m : Str) (lits' : List Str),
    maskGo copyUnmasked fuel s lits = .ok (m, lits') →
      ∃ ext, lits' = lits ++ ext ∧ ext.length ≤ s.length ∧ Masks lits' m s := by
  intro fuel
  induction fuel with
  | zero => intro s lits m lits' h; simp [maskGo] at h
  | succ n ih =>
    intro s lits m lits' h
    cases s with
    | nil =>
      simp [maskGo] at h
      obtain ⟨rfl, rfl⟩ := h
      exact ⟨[], by simp, by simp, Masks.nil _⟩
    | cons ch rest =>
      simp only [maskGo] at h
      -- the head character, copied through `copy_unmasked`
      obtain ⟨e0, hc1, hc2, hc3⟩ := copyUnmasked_spec [ch] lits
      generalize hh : copyUnmasked [ch] lits = h0 at h hc1 hc2 hc3
      obtain ⟨hm, hl⟩ := h0
      simp only [] at h hc1 hc2 hc3
      simp at hc2
      split at h
      · rename_i hq
        have hch : ch.utf8Size = 1 := isQuote_ascii hq
        cases hf : findCharGo (fun c => c == ch || c == '\n') rest 0 with
        | none =>
          rw [hf] at h
          simp only [R.ok.injEq, Prod.mk.injEq] at h
          obtain ⟨rfl, rfl⟩ := h
          obtain ⟨e1, hr1, hr2, hr3⟩ := copyUnmasked_spec rest hl
          refine ⟨e0 ++ e1, by rw [hr1, hc1]; simp, by simp; omega, ?_⟩
          have := Masks.append (by rw [hr1]; exact Masks.mono e1 hc3) hr3
          simpa using this
        | some e =>
          rw [hf] at h
          obtain ⟨p, c, q, hr, hfc, he, _⟩ := findCharGo_spec' _ _ _ _ hf
          have hc1' : c.utf8Size = 1 := by
            simp at hfc
            rcases hfc with rfl | rfl
            · exact hch
            · rfl
          simp at he
          subst hr; subst he
          obtain ⟨h1, h2, h3, h4⟩ := delim_slices p q c hc1'
          simp only [h1, h2, h3, h4] at h
          split at h
          · rename_i hhead
            have hcc : c = ch := by simpa using hhead
            subst hcc
            split at h
            · -- a complete literal with a non-empty body
              obtain ⟨t, ht, rfl⟩ := prependR_eq_ok h
              obtain ⟨e1, hr1, hr2, hr3⟩ := ih _ _ _ _ ht
              refine ⟨e0 ++ [p] ++ e1, by rw [hr1, hc1]; simp, by simp; omega, ?_⟩
              have hb : lits'[hl.length]? = some p := by rw [hr1]; simp
              have hq' : c ≠ MASK_START := by
                intro e; subst e; revert hq; decide
              have hmid : Masks lits' (placeholder hl.length ++ c :: t) (p ++ c :: q) :=
                Masks.ph' hl.length p hb (Masks.raw c hq' hr3)
              have hhd : Masks lits' hm [c] := by
                rw [hr1, List.append_assoc]; exact Masks.mono _ hc3
              have := Masks.append hhd hmid
              simpa [List.append_assoc] using this
            · -- an empty literal: nothing is masked
              rename_i he0
              obtain ⟨t, ht, rfl⟩ := prependR_eq_ok h
              obtain ⟨e1, hr1, hr2, hr3⟩ := ih _ _ _ _ ht
              have hp0 : p = [] := by
                cases p with
                | nil => rfl
                | cons x xs =>
                  exfalso; apply he0
                  have : 0 < x.utf8Size := Char.utf8Size_pos x
                  simp [blen]; omega
              subst hp0
              refine ⟨e0 ++ e1, by rw [hr1, hc1]; simp, by simp; omega, ?_⟩
              have hq' : c ≠ MASK_START := by
                intro e; subst e; revert hq; decide
              have hhd : Masks lits' hm [c] := by rw [hr1]; exact Masks.mono _ hc3
              have := Masks.append hhd (Masks.raw c hq' hr3)
              simpa [List.append_assoc] using this
          · -- not closed on its line: `rest[..=end]` goes through `copy_unmasked`
            obtain ⟨e1, hr1, hr2, hr3⟩ := copyUnmasked_spec (p ++ [c]) hl
            generalize hh2 : copyUnmasked (p ++ [c]) hl = r0 at h hr1 hr2 hr3
            obtain ⟨rm, rl⟩ := r0
            simp only [] at h hr1 hr2 hr3
            obtain ⟨t, ht, rfl⟩ := prependR_eq_ok h
            obtain ⟨e2, hs1, hs2, hs3⟩ := ih _ _ _ _ ht
            refine ⟨e0 ++ e1 ++ e2, by rw [hs1, hr1, hc1]; simp, by simp at hr2 ⊢; omega, ?_⟩
            have hhd : Masks lits' hm [ch] := by
              rw [hs1, hr1, List.append_assoc]; exact Masks.mono _ hc3
            have hmid : Masks lits' rm (p ++ [c]) := by rw [hs1]; exact Masks.mono _ hr3
            have := Masks.append (Masks.append hhd hmid) hs3
            simpa [List.append_assoc] using this
      · obtain ⟨t, ht, rfl⟩ := prependR_eq_ok h
        obtain ⟨e1, hr1, hr2, hr3⟩ := ih _ _ _ _ ht
        refine ⟨e0 ++ e1, by rw [hr1, hc1]; simp, by simp; omega, ?_⟩
        have hhd : Masks lits' hm [ch] := by rw [hr1]; exact Masks.mono _ hc3
        have := Masks.append hhd hr3
        simpa using this

end C05
