import RreModel.C05.Model
/-
C05 — the property as a decidable predicate over API-level observations (`observe_at`: return value /
panic payload / exit status of a child process that runs one batch of inputs).  It is also the runtime
oracle: the driver evaluates `Spec.holds` on what the implementation did.
-/
namespace C05

/-- what one call of an entry point was observed to do -/
inductive Obs where
  | ok (detail : String)      -- returned `Ok(..)` / `Some(..)` / a value
  | err                       -- returned `Err(..)`
  | panic (msg : String)      -- unwound with a panic payload
  | crash (status : String)   -- the process died (stack overflow = SIGSEGV, abort = SIGABRT)
  | hang                      -- no answer within the watchdog
deriving Repr, DecidableEq

/-- "returns a value or an error; never panics, never overflows the stack, always terminates" -/
def Spec.holds : Obs → Bool
  | .ok _ => true
  | .err => true
  | .panic _ => false
  | .crash _ => false
  | .hang => false

/-- the violated clause, for the replay file -/
def Spec.clause : Obs → String
  | .panic _ => "panic"
  | .crash _ => "crash"
  | .hang => "hang"
  | _ => "-"

/-- outcome class predicted by the model (`fine` = `ok` or `err`, not decided by the slicing model) -/
inductive Pred where
  | ok (detail : String)
  | err
  | fine
  | panic
  | oof
deriving Repr, DecidableEq

/-- does an observation agree with a prediction (class and, where predicted, the detail) -/
def Pred.agrees : Pred → Obs → Bool
  | .ok d, .ok d' => d == d'
  | .err, .err => true
  | .fine, .ok _ => true
  | .fine, .err => true
  | .panic, .panic _ => true
  | _, _ => false

/-- a case is *non-trivial* when byte offsets and char indices differ somewhere before an ASCII
delimiter the parsers look for (a multi-byte char is followed by a delimiter/operator/quote), or when it is
a prefix chain / nesting of depth ≥ 32 -/
def delims : List Char := "()[]{}\"'+-*/%=<>!&|,;: \n".toList

def multibyteBeforeDelim : Str → Bool → Bool
  | [], _ => false
  | c :: cs, seen => (seen && delims.contains c) || multibyteBeforeDelim cs (seen || c.utf8Size > 1)

def maxRun : Str → Option Char → Nat → Nat → Nat
  | [], _, cur, best => max cur best
  | c :: cs, prev, cur, best =>
    if some c == prev then maxRun cs prev (cur + 1) best else maxRun cs (some c) 1 (max cur best)

/-- … or when it carries a raw `U+0001` (the delimiter of the parser's own string-literal placeholders) -/
def nontrivial (s : Str) : Bool :=
  multibyteBeforeDelim s false || 32 ≤ maxRun s none 0 0 || s.contains (Char.ofNat 1)

end C05
