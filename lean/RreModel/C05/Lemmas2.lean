import RreModel.C05.Lemmas
import RreModel.C05.Model2
/-
C05 — lemmas for the second part of the model (`Model2.lean`): text layer (strip / mask / unmask),
accumulate kernels, module context, attribute section, stream grammar.  Core only.
-/
namespace C05

/-! ## generic: results, scans, slices at an ASCII delimiter -/

/-- neither a panic nor exhausted fuel -/
def Fine {α : Type} (x : R α) : Prop := x ≠ .panic ∧ x ≠ .oof

theorem fine_ok {α : Type} (a : α) : Fine (R.ok a) := ⟨by simp, by simp⟩
theorem fine_err {α : Type} : Fine (R.err : R α) := ⟨by simp, by simp⟩

theorem bindR_fine {α β : Type} {x : R α} {f : α → R β} (hx : Fine x) (hf : ∀ a, x = .ok a → Fine (f a)) :
    Fine (bindR x f) := by
  cases x with
  | ok a => exact hf a rfl
  | err => exact fine_err
  | panic => exact absurd rfl hx.1
  | oof => exact absurd rfl hx.2

theorem findCharGo_spec' (f : Char → Bool) : ∀ (cs : Str) (off i : Nat),
    findCharGo f cs off = some i →
      ∃ p c q, cs = p ++ c :: q ∧ f c = true ∧ i = off + blen p ∧ ∀ x ∈ p, f x = false := by
  intro cs
  induction cs with
  | nil => intro off i h; simp [findCharGo] at h
  | cons c cs ih =>
    intro off i h
    simp only [findCharGo] at h
    split at h
    · rename_i hc
      simp at h
      exact ⟨[], c, cs, by simp, hc, by simp [h], by simp⟩
    · rename_i hc
      obtain ⟨p, d, q, hcs, hd, hi, hp⟩ := ih _ _ h
      refine ⟨c :: p, d, q, by simp [hcs], hd, by simp [hi]; omega, ?_⟩
      intro x hx
      simp at hx
      rcases hx with rfl | hx
      · simpa using hc
      · exact hp x hx

theorem findCharGo_none (f : Char → Bool) : ∀ (cs : Str) (off : Nat),
    findCharGo f cs off = none → ∀ x ∈ cs, f x = false := by
  intro cs
  induction cs with
  | nil => intro off _ x hx; simp at hx
  | cons c cs ih =>
    intro off h x hx
    simp only [findCharGo] at h
    split at h
    · simp at h
    · rename_i hc
      simp at hx
      rcases hx with rfl | hx
      · simpa using hc
      · exact ih _ h x hx

/-- the four slices at a one-byte delimiter `c` found at byte offset `blen p` -/
theorem delim_slices (p q : Str) (c : Char) (hc : c.utf8Size = 1) :
    sliceTo (p ++ c :: q) (blen p) = some p ∧ sliceFrom (p ++ c :: q) (blen p) = some (c :: q) ∧
    sliceTo (p ++ c :: q) (blen p + 1) = some (p ++ [c]) ∧ sliceFrom (p ++ c :: q) (blen p + 1) = some q := by
  refine ⟨sliceTo_append _ _, sliceFrom_append _ _, ?_, ?_⟩
  · have := sliceTo_append (p ++ [c]) q
    simpa [blen_append, blen, hc] using this
  · have := sliceFrom_append (p ++ [c]) q
    simpa [blen_append, blen, hc] using this

theorem isQuote_ascii {c : Char} (h : isQuote c = true) : c.utf8Size = 1 := by
  simp [isQuote] at h
  rcases h with rfl | rfl <;> rfl

theorem MASK_START_size : MASK_START.utf8Size = 1 := by decide
theorem MASK_END_size : MASK_END.utf8Size = 1 := by decide

/-! ## P1 — strip_comments: the output is never longer than the input (plus the pending separator) -/

theorem stripGo_length (s : Str) (st : CState) :
    (stripGo s st).length ≤ s.length + (match st with | .block _ => 1 | _ => 0) := by
  fun_induction stripGo s st <;> simp_all <;> (try split) <;> (try simp_all) <;> omega

/-! ## P2 — mask_string_literals -/

theorem prependR_ok (pre : Str) {x : R (Str × List Str)} (h : ∃ r, x = .ok r) : ∃ r, prependR pre x = .ok r := by
  obtain ⟨⟨t, l⟩, rfl⟩ := h
  exact ⟨_, rfl⟩

theorem maskGo_ok (copy : Str → List Str → Str × List Str) :
    ∀ (fuel : Nat) (s : Str) (lits : List Str), s.length < fuel → ∃ r, maskGo copy fuel s lits = .ok r := by
  intro fuel
  induction fuel with
  | zero => intro s lits h; omega
  | succ n ih =>
    intro s lits h
    cases s with
    | nil => exact ⟨([], lits), by simp [maskGo]⟩
    | cons ch rest =>
      simp only [maskGo]
      have hrest : rest.length < n := by simp at h; omega
      split
      · rename_i hq
        have hch : ch.utf8Size = 1 := isQuote_ascii hq
        cases hf : findCharGo (fun c => c == ch || c == '\n') rest 0 with
        | none => exact ⟨_, rfl⟩
        | some e =>
          obtain ⟨p, c, q, hr, hfc, he, _⟩ := findCharGo_spec' _ _ _ _ hf
          have hc1 : c.utf8Size = 1 := by
            simp at hfc
            rcases hfc with rfl | rfl
            · exact hch
            · rfl
          simp at he
          subst hr; subst he
          obtain ⟨h1, h2, h3, h4⟩ := delim_slices p q c hc1
          have hq' : q.length < n := by simp at hrest; omega
          simp only [h1, h2, h3, h4]
          split
          · split
            · exact prependR_ok _ (ih _ _ hq')
            · exact prependR_ok _ (ih _ _ hq')
          · exact prependR_ok _ (ih _ _ hq')
      · exact prependR_ok _ (ih _ _ hrest)

/-! ## P3 — unmask -/

theorem prependS_ok (pre : Str) {x : R Str} (h : ∃ r, x = .ok r) : ∃ r, prependS pre x = .ok r := by
  obtain ⟨t, rfl⟩ := h
  exact ⟨_, rfl⟩

/-- the closure never panics; when it yields `(body, end)`, `end` is the offset of a `MASK_END` -/
theorem unmaskBody_spec (lits : List Str) (after : Str) :
    unmaskBody lits after = .ok none ∨
      ∃ b p q, unmaskBody lits after = .ok (some (b, blen p)) ∧ after = p ++ MASK_END :: q := by
  unfold unmaskBody
  cases hf : findChar after MASK_END with
  | none => left; rfl
  | some e =>
    obtain ⟨p, q, hpq, he⟩ := findChar_spec hf
    subst hpq; subst he
    simp only [(delim_slices p q MASK_END MASK_END_size).1]
    cases parseUsize p with
    | none => left; rfl
    | some idx =>
      simp only []
      cases lits[idx]? with
      | none => left; rfl
      | some b => right; exact ⟨b, p, q, rfl, rfl⟩

theorem unmaskGo_ok (lits : List Str) :
    ∀ (fuel : Nat) (s : Str), s.length < fuel → ∃ t, unmaskGo lits fuel s = .ok t := by
  intro fuel
  induction fuel with
  | zero => intro s h; omega
  | succ n ih =>
    intro s h
    simp only [unmaskGo]
    cases hf : findChar s MASK_START with
    | none => exact ⟨_, rfl⟩
    | some st =>
      obtain ⟨p, q, hpq, he⟩ := findChar_spec hf
      subst hpq; subst he
      obtain ⟨h1, _, _, h4⟩ := delim_slices p q MASK_START MASK_START_size
      simp only [MASK_START_size, h1, h4]
      have hq : q.length < n := by simp at h; omega
      rcases unmaskBody_spec lits q with hb | ⟨b, p2, q2, hb, hq2⟩
      · rw [hb]; exact prependS_ok _ (ih _ hq)
      · rw [hb]
        subst hq2
        simp only [MASK_END_size, (delim_slices p2 q2 MASK_END MASK_END_size).2.2.2]
        exact prependS_ok _ (ih _ (by simp at hq; omega))

theorem unmask_ok (lits : List Str) (s : Str) : ∃ t, unmask lits s = .ok t :=
  unmaskGo_ok lits _ s (by omega)

theorem unmask_fine (lits : List Str) (s : Str) : Fine (unmask lits s) := by
  obtain ⟨t, h⟩ := unmask_ok lits s
  rw [h]; exact fine_ok _

/-! ## K9 — accumulate -/

/-- the `i32` depth counter cannot overflow on fewer than 2^31 chars: `|d|` grows by at most one per char -/
theorem splitAccGo_ok (k : Cls) : ∀ (cs cur : Str) (d : Int) (acc : List Str),
    i32Min + cs.length ≤ d → d + cs.length ≤ i32Max → ∃ ps, splitAccGo k cs cur d acc = .ok ps := by
  intro cs
  induction cs with
  | nil => intro cur d acc _ _; exact ⟨_, rfl⟩
  | cons c cs ih =>
    intro cur d acc h1 h2
    simp only [splitAccGo]
    simp only [List.length_cons] at h1 h2
    split
    · rw [if_neg (by omega)]; exact ih _ _ _ (by omega) (by omega)
    · split
      · rw [if_neg (by omega)]; exact ih _ _ _ (by omega) (by omega)
      · split
        · exact ih _ _ _ (by omega) (by omega)
        · exact ih _ _ _ (by omega) (by omega)

theorem splitAccParts_ok (k : Cls) (s : Str) (h : s.length < 2147483648) : ∃ ps, splitAccParts k s = .ok ps :=
  splitAccGo_ok k s [] 0 [] (by simp [i32Min]; omega) (by simp [i32Max]; omega)

/-- 2^31 opening parentheses do overflow the counter -/
theorem splitAccGo_replicate_panic (k : Cls) : ∀ (n : Nat) (cur : Str) (d : Int) (acc : List Str),
    d ≤ i32Max → i32Max < d + n → splitAccGo k (List.replicate n '(') cur d acc = .panic := by
  intro n
  induction n with
  | zero => intro cur d acc h1 h2; simp at h2; omega
  | succ n ih =>
    intro cur d acc h1 h2
    simp only [List.replicate_succ, splitAccGo]
    simp only [beq_self_eq_true, if_true]
    split
    · rfl
    · exact ih _ _ _ (by omega) (by omega)

theorem splitPatGo_ok (k : Cls) : ∀ (cs cur : Str) (d : Int) (inq : Bool) (qc : Char) (acc : List Str),
    i32Min + cs.length ≤ d → d + cs.length ≤ i32Max → ∃ ps, splitPatGo k cs cur d inq qc acc = .ok ps := by
  intro cs
  induction cs with
  | nil => intro cur d inq qc acc _ _; exact ⟨_, rfl⟩
  | cons c cs ih =>
    intro cur d inq qc acc h1 h2
    simp only [splitPatGo]
    simp only [List.length_cons] at h1 h2
    split
    · exact ih _ _ _ _ _ (by omega) (by omega)
    · split
      · exact ih _ _ _ _ _ (by omega) (by omega)
      · split
        · rw [if_neg (by omega)]; exact ih _ _ _ _ _ (by omega) (by omega)
        · split
          · rw [if_neg (by omega)]; exact ih _ _ _ _ _ (by omega) (by omega)
          · split
            · exact ih _ _ _ _ _ (by omega) (by omega)
            · exact ih _ _ _ _ _ (by omega) (by omega)

theorem splitPatParts_ok (k : Cls) (s : Str) (h : s.length < 2147483648) : ∃ ps, splitPatParts k s = .ok ps :=
  splitPatGo_ok k s [] 0 false ' ' [] (by simp [i32Min]; omega) (by simp [i32Max]; omega)

/-- `name( … )`: both slices are valid, the inner text is strictly shorter -/
theorem callShape_spec (s : Str) :
    Fine (callShape s) ∧ ∀ hd inner, callShape s = .ok (hd, inner) → inner.length < s.length := by
  unfold callShape
  cases hf : findChar s '(' with
  | none => exact ⟨fine_err, by simp⟩
  | some pp =>
    obtain ⟨p, q, hpq, hpp⟩ := findChar_spec hf
    subst hpq; subst hpp
    have hpar : '('.utf8Size = 1 := rfl
    simp only [(delim_slices p q '(' hpar).1]
    split
    · rename_i hl
      -- the last char is `)`, so `q = m ++ [')']`
      rw [List.getLast?_append] at hl
      have hq : ∃ m, q = m ++ [')'] := by
        cases hq : q.getLast? with
        | none =>
          have : q = [] := by simpa using hq
          subst this; simp at hl
        | some x =>
          obtain ⟨m, hm⟩ := List.getLast?_eq_some_iff.mp hq
          subst hm
          rw [show '(' :: (m ++ [x]) = ('(' :: m) ++ [x] from by simp, List.getLast?_append] at hl
          simp at hl
          exact ⟨m, by rw [hl]⟩
      obtain ⟨m, rfl⟩ := hq
      have e1 : blen (p ++ '(' :: (m ++ [')'])) - 1 = blen (p ++ ['(']) + blen m := by
        have : ')'.utf8Size = 1 := rfl
        simp [blen_append, blen, hpar, this]; omega
      have e2 : blen p + 1 = blen (p ++ ['(']) := by simp [blen_append, blen, hpar]
      have := slice_append (p ++ ['(']) m [')']
      have e3 : p ++ '(' :: (m ++ [')']) = p ++ ['('] ++ m ++ [')'] := by simp
      rw [e1, e2, e3, this]
      refine ⟨fine_ok _, ?_⟩
      intro hd inner h
      simp at h
      rw [← h.2]; simp; omega
    · exact ⟨fine_err, by simp⟩

theorem accPartsGo_fine (k : Cls) : ∀ (ps : List Str) (ef : Str) (conds : List Str), Fine (accPartsGo k ps ef conds) := by
  intro ps
  induction ps with
  | nil => intro ef conds; exact fine_ok _
  | cons p0 ps ih =>
    intro ef conds
    simp only [accPartsGo]
    split
    · cases hf : findChar (trim k p0) ':' with
      | none => exact ih _ _
      | some cp =>
        obtain ⟨p, q, hpq, hcp⟩ := findChar_spec hf
        have hcol : ':'.utf8Size = 1 := rfl
        simp only [hpq, hcp, (delim_slices p q ':' hcol).2.2.2]
        exact ih _ _
    · split
      · exact ih _ _
      · exact ih _ _

theorem parseAccPattern_fine (k : Cls) (p : Str) (h : p.length < 2147483648) : Fine (parseAccPattern k p) := by
  unfold parseAccPattern
  refine bindR_fine (callShape_spec _).1 ?_
  intro hi hhi
  have hlen : hi.2.length < 2147483648 := by
    have := (callShape_spec (trim k p)).2 hi.1 hi.2 hhi
    have := length_trim_le k p
    omega
  obtain ⟨ps, hps⟩ := splitPatParts_ok k hi.2 hlen
  rw [hps]
  refine bindR_fine (fine_ok _) ?_
  intro _ _
  exact bindR_fine (accPartsGo_fine k _ _ _) (fun _ _ => fine_ok _)

theorem parseAccFunction_fine (k : Cls) (f : Str) : Fine (parseAccFunction k f) := by
  unfold parseAccFunction
  exact bindR_fine (callShape_spec _).1 (fun _ _ => fine_ok _)

theorem unmaskAll_fine (lits : List Str) : ∀ ss : List Str, Fine (unmaskAll lits ss) := by
  intro ss
  induction ss with
  | nil => exact fine_ok _
  | cons s ss ih =>
    simp only [unmaskAll]
    exact bindR_fine (unmask_fine _ _) (fun _ _ => bindR_fine ih (fun _ _ => fine_ok _))

/-- every part returned by the splitter is no longer than the text it was cut from -/
theorem finishTrimmed_mem (k : Cls) (cur : Str) (acc : List Str) (n : Nat)
    (hc : cur.length ≤ n) (ha : ∀ p ∈ acc, p.length ≤ n) : ∀ p ∈ finishTrimmed k cur acc, p.length ≤ n := by
  intro p hp
  unfold finishTrimmed at hp
  split at hp
  · exact ha p (by simpa using hp)
  · simp at hp
    rcases hp with hp | hp
    · exact ha p hp
    · subst hp
      have := length_trim_le k cur.reverse
      simp at this; omega

theorem splitAccGo_mem (k : Cls) : ∀ (cs cur : Str) (d : Int) (acc : List Str) (n : Nat) (ps : List Str),
    cur.length + cs.length ≤ n → (∀ p ∈ acc, p.length ≤ n) → splitAccGo k cs cur d acc = .ok ps →
    ∀ p ∈ ps, p.length ≤ n := by
  intro cs
  induction cs with
  | nil =>
    intro cur d acc n ps hc ha h
    simp [splitAccGo] at h
    subst h
    exact finishTrimmed_mem k cur acc n (by simpa using hc) ha
  | cons c cs ih =>
    intro cur d acc n ps hc ha h
    simp only [splitAccGo] at h
    simp only [List.length_cons] at hc
    split at h
    · split at h
      · simp at h
      · exact ih _ _ _ _ _ (by simp; omega) ha h
    · split at h
      · split at h
        · simp at h
        · exact ih _ _ _ _ _ (by simp; omega) ha h
      · split at h
        · refine ih _ _ _ _ _ (by simp; omega) ?_ h
          intro p hp
          simp at hp
          rcases hp with hp | hp
          · subst hp
            have := length_trim_le k cur.reverse
            simp at this; omega
          · exact ha p hp
        · exact ih _ _ _ _ _ (by simp; omega) ha h

theorem parseAccCondition_fine (k : Cls) (lits : List Str) (clause : Str) (h : clause.length < 2147483648) :
    Fine (parseAccCondition k lits clause) := by
  unfold parseAccCondition
  have hkw : "accumulate(".toList.getLast? = some '(' := by decide
  have hin := innerOf_spec (kw := "accumulate(".toList) (c := trimStart k clause) hkw
  refine bindR_fine ⟨hin.1, hin.2.1⟩ ?_
  intro inner hinner
  have hl1 : inner.length < 2147483648 := by
    have := hin.2.2 inner hinner
    have := length_dropWhile_le k.white clause
    unfold trimStart at *
    omega
  obtain ⟨ps, hps⟩ := splitAccParts_ok k inner hl1
  rw [hps]
  refine bindR_fine (fine_ok _) ?_
  intro parts hparts
  simp at hparts; subst hparts
  split
  · rename_i p0 p1
    have hmem := splitAccGo_mem k inner [] 0 [] inner.length _ (by simp) (by simp) hps
    have hp0 : (trim k p0).length < 2147483648 := by
      have := hmem p0 (by simp)
      have := length_trim_le k p0
      omega
    refine bindR_fine (parseAccPattern_fine k _ hp0) ?_
    intro _ _
    refine bindR_fine (parseAccFunction_fine k _) ?_
    intro _ _
    refine bindR_fine (unmask_fine _ _) (fun _ _ => ?_)
    refine bindR_fine (unmask_fine _ _) (fun _ _ => ?_)
    refine bindR_fine (unmaskAll_fine _ _) (fun _ _ => ?_)
    refine bindR_fine (unmask_fine _ _) (fun _ _ => ?_)
    exact bindR_fine (unmask_fine _ _) (fun _ _ => fine_ok _)
  · exact fine_err

/-! ## K10 — extract_module_from_context -/

theorem rfindStrGo_spec (pat : Str) (s : Str) : ∀ (cs pre : Str) (off : Nat) (last : Option Nat) (i : Nat),
    s = pre ++ cs → off = blen pre → (∀ l, last = some l → ∃ p q, s = p ++ pat ++ q ∧ l = blen p) →
    rfindStrGo pat cs off last = some i → ∃ p q, s = p ++ pat ++ q ∧ i = blen p := by
  intro cs
  induction cs with
  | nil =>
    intro pre off last i hs hoff hl h
    simp only [rfindStrGo] at h
    split at h
    · rename_i hp
      simp at h
      have : pat = [] := by simpa using hp
      exact ⟨pre, [], by simp [hs, this], by omega⟩
    · exact hl _ h
  | cons d cs ih =>
    intro pre off last i hs hoff hl h
    simp only [rfindStrGo] at h
    refine ih (pre ++ [d]) _ _ _ (by simp [hs]) (by simp [blen_append, blen, hoff]) ?_ h
    intro l hl'
    split at hl'
    · rename_i hp
      simp at hl'; subst hl'
      obtain ⟨t, ht⟩ := List.isPrefixOf_iff_prefix.mp hp
      exact ⟨pre, t, by rw [hs, ← ht]; simp, hoff⟩
    · exact hl _ hl'

theorem rfindStr_spec {s pat : Str} {i : Nat} (h : rfindStr s pat = some i) :
    ∃ p q, s = p ++ pat ++ q ∧ i = blen p :=
  rfindStrGo_spec pat s s [] 0 none i (by simp) (by simp [blen]) (by simp) h

theorem rulePos_boundary {text name : Str} {rp : Nat} (h : rulePos text name = some rp) :
    ∃ p q, text = p ++ q ∧ rp = blen p := by
  unfold rulePos at h
  split at h
  · rename_i p hp
    simp at h; subst h
    obtain ⟨a, b, h1, h2⟩ := findStr_spec hp
    exact ⟨a, ("rule \"".toList ++ name ++ ['"']) ++ b, by rw [h1]; simp, h2⟩
  · obtain ⟨a, b, h1, h2⟩ := findStr_spec h
    exact ⟨a, ("rule ".toList ++ name) ++ b, by rw [h1]; simp, h2⟩

theorem extractModuleAt_ok (k : Cls) (text : Str) (pos : Option Nat)
    (hpos : ∀ rp, pos = some rp → ∃ p q, text = p ++ q ∧ rp = blen p) : ∃ m, extractModuleAt k text pos = .ok m := by
  cases pos with
  | none => exact ⟨_, rfl⟩
  | some rp =>
    obtain ⟨p, q, rfl, rfl⟩ := hpos rp rfl
    simp only [extractModuleAt, sliceTo_append]
    cases hr : rfindStr p ";; MODULE:".toList with
    | none => exact ⟨_, rfl⟩
    | some mp =>
      obtain ⟨a, b, hab, hmp⟩ := rfindStr_spec hr
      subst hab; subst hmp
      have hs : sliceFrom (a ++ ";; MODULE:".toList ++ b) (blen a + 10) = some b := by
        have := sliceFrom_append (a ++ ";; MODULE:".toList) b
        have e : blen (a ++ ";; MODULE:".toList) = blen a + 10 := by
          rw [blen_append]; congr 1
        rw [e] at this; exact this
      simp only [hs]
      cases hf : findChar b '\n' with
      | none => exact ⟨_, rfl⟩
      | some e =>
        obtain ⟨c, d, hcd, he⟩ := findChar_spec hf
        subst hcd; subst he
        have hnl : '\n'.utf8Size = 1 := rfl
        simp only [(delim_slices c d '\n' hnl).1]
        exact ⟨_, rfl⟩

theorem extractModule_ok (k : Cls) (text name : Str) : ∃ m, extractModule k text name = .ok m :=
  extractModuleAt_ok k text _ (fun _ h => rulePos_boundary h)

/-! ## K11 — parse_rule_attributes -/

theorem firstKeyword_spec (s : Str) : ∀ (kws : List Str) (fk : Nat),
    firstKeyword s kws = some fk → ∃ p q, s = p ++ q ∧ fk = blen p := by
  intro kws
  induction kws with
  | nil => intro fk h; simp [firstKeyword] at h
  | cons kw kws ih =>
    intro fk h
    simp only [firstKeyword] at h
    split at h
    · rename_i p hp
      simp at h; subst h
      obtain ⟨a, b, h1, h2⟩ := findStr_spec hp
      exact ⟨a, kw ++ b, by rw [h1]; simp, h2⟩
    · exact ih _ h

theorem attrsSection_ok (removeQuoted : Str → Str) (header : Str) : ∃ s, attrsSection removeQuoted header = .ok s := by
  unfold attrsSection
  simp only []
  cases hf : findStr (removeQuoted header) "rule".toList with
  | none => exact ⟨_, rfl⟩
  | some rp =>
    obtain ⟨a, b, hab, _, hs⟩ := find_str_boundary hf
    have e : blen "rule".toList = 4 := rfl
    rw [e] at hs
    simp only [hs]
    cases hk : firstKeyword b attrKeywords with
    | none => exact ⟨_, rfl⟩
    | some fk =>
      obtain ⟨c, d, hcd, hfk⟩ := firstKeyword_spec b _ _ hk
      subst hcd; subst hfk
      simp only [sliceFrom_append]
      exact ⟨_, rfl⟩

/-! ## K1' — evaluate_expression with apply_operator -/

theorem applyOp_ne_panic (op : Char) (l r : AV) : applyOp op l r ≠ .panic := by
  unfold applyOp
  repeat' split
  all_goals simp

theorem applyOp_ne_oof (op : Char) (l r : AV) : applyOp op l r ≠ .oof := by
  unfold applyOp
  repeat' split
  all_goals simp

theorem combineV_ne_panic {op : Char} {l r : EV} (hl : l ≠ .panic) (hr : r ≠ .panic) : combineV op l r ≠ .panic := by
  cases l <;> cases r <;> simp_all [combineV, applyOp_ne_panic]

theorem combineV_ne_oof {op : Char} {l r : EV} (hl : l ≠ .oof) (hr : r ≠ .oof) : combineV op l r ≠ .oof := by
  cases l <;> cases r <;> simp_all [combineV, applyOp_ne_oof]

theorem evalLeafV_ne_panic (facts : Str → Option AV) (s : Str) : evalLeafV facts s ≠ .panic := by
  unfold evalLeafV
  have h1 := unquote_ne_none s '"' rfl
  have h2 := unquote_ne_none s '\'' rfl
  repeat' split
  all_goals first | contradiction | simp

theorem evalLeafV_ne_oof (facts : Str → Option AV) (s : Str) : evalLeafV facts s ≠ .oof := by
  unfold evalLeafV
  repeat' split
  all_goals simp

theorem evalValueF_good (k : Cls) (facts : Str → Option AV) : ∀ (fuel : Nat) (s : Str), s.length < fuel →
    evalValueF k facts fuel s ≠ .panic ∧ evalValueF k facts fuel s ≠ .oof := by
  intro fuel
  induction fuel with
  | zero => intro s h; omega
  | succ n ih =>
    intro s h
    simp only [evalValueF]
    have ht := length_trim_le k s
    cases h1 : findOperator ['+', '-'] (trim k s) with
    | some pos =>
      obtain ⟨l, r, hs, hl, hr⟩ := splitAtOp_of_OpAt addsub_ascii (findOperator_spec h1)
      simp only [hs]
      have hl' := ih (trim k l) (by have := length_trim_le k l; omega)
      have hr' := ih (trim k r) (by have := length_trim_le k r; omega)
      exact ⟨combineV_ne_panic hl'.1 hr'.1, combineV_ne_oof hl'.2 hr'.2⟩
    | none =>
      simp only []
      cases h2 : findOperator ['*', '/', '%'] (trim k s) with
      | some pos =>
        obtain ⟨l, r, hs, hl, hr⟩ := splitAtOp_of_OpAt muldiv_ascii (findOperator_spec h2)
        simp only [hs]
        have hl' := ih (trim k l) (by have := length_trim_le k l; omega)
        have hr' := ih (trim k r) (by have := length_trim_le k r; omega)
        exact ⟨combineV_ne_panic hl'.1 hr'.1, combineV_ne_oof hl'.2 hr'.2⟩
      | none => exact ⟨evalLeafV_ne_panic _ _, evalLeafV_ne_oof _ _⟩

/-! ## N — the stream grammar: no step panics; every parser returns a proper suffix of its input or fails -/

def FineP {α : Type} (x : PR α) : Prop := x ≠ .panic ∧ x ≠ .oof

/-- "consumes or fails": on success the rest is what follows a prefix `p` of the input; `strict` = `p ≠ []` -/
def Consumes {α : Type} (strict : Bool) (i : Str) (x : PR α) : Prop :=
  ∀ a r, x = .ok a r → ∃ p, i = p ++ r ∧ (strict = true → p ≠ [])

theorem bindP_fine {α β : Type} {x : PR α} {f : α → Str → PR β} (hx : FineP x) (hf : ∀ a r, FineP (f a r)) :
    FineP (bindP x f) := by
  cases x with
  | ok a r => exact hf a r
  | err => exact ⟨by simp [bindP], by simp [bindP]⟩
  | panic => exact absurd rfl hx.1
  | oof => exact absurd rfl hx.2

theorem liftP_fine {α : Type} (x : Option (α × Str)) : FineP (liftP x) := by
  unfold liftP; split <;> exact ⟨by simp, by simp⟩

theorem ws0_fine (N : Nom) (i : Str) : FineP (ws0 N i) := ⟨by simp [ws0], by simp [ws0]⟩

theorem optP_fine {α : Type} {x : PR α} (i : Str) (hx : FineP x) : FineP (optP x i) := by
  cases x with
  | ok a r => exact ⟨by simp [optP], by simp [optP]⟩
  | err => exact ⟨by simp [optP], by simp [optP]⟩
  | panic => exact absurd rfl hx.1
  | oof => exact absurd rfl hx.2

theorem okP_fine {α : Type} (a : α) (r : Str) : FineP (PR.ok a r) := ⟨by simp, by simp⟩
theorem errP_fine {α : Type} : FineP (PR.err : PR α) := ⟨by simp, by simp⟩

theorem bindP_consumes {α β : Type} {s1 s2 : Bool} {i : Str} {x : PR α} {f : α → Str → PR β}
    (hx : Consumes s1 i x) (hf : ∀ a r, x = .ok a r → Consumes s2 r (f a r)) :
    Consumes (s1 || s2) i (bindP x f) := by
  intro b r' h
  cases x with
  | ok a r =>
    obtain ⟨p1, hp1, hs1⟩ := hx a r rfl
    obtain ⟨p2, hp2, hs2⟩ := hf a r rfl b r' h
    refine ⟨p1 ++ p2, by rw [hp1, hp2]; simp, ?_⟩
    intro hs
    simp at hs
    rcases hs with hs | hs
    · have := hs1 hs; simp [this]
    · have := hs2 hs; simp [this]
  | err => simp [bindP] at h
  | panic => simp [bindP] at h
  | oof => simp [bindP] at h

theorem consumes_weaken {α : Type} {s : Bool} {i : Str} {x : PR α} (h : Consumes s i x) : Consumes false i x := by
  intro a r hx
  obtain ⟨p, hp, _⟩ := h a r hx
  exact ⟨p, hp, by simp⟩

theorem liftP_consumes {α : Type} {i : Str} {x : Option (α × Str)} (strict : Bool)
    (h : ∀ a r, x = some (a, r) → ∃ p, i = p ++ r ∧ (strict = true → p ≠ [])) : Consumes strict i (liftP x) := by
  intro a r hx
  unfold liftP at hx
  split at hx
  · rename_i a' r' _
    simp at hx
    obtain ⟨rfl, rfl⟩ := hx
    exact h _ _ rfl
  · simp at hx

theorem ws0_consumes (N : Nom) (hN : N.Sound) (i : Str) : Consumes false i (ws0 N i) := by
  intro a r h
  simp [ws0] at h
  exact ⟨(N.multispace0 i).1, by rw [← h.2]; exact (hN.ms0 i).symm, by simp⟩

theorem okP_consumes {α : Type} (a : α) (i : Str) : Consumes false i (PR.ok a i) := by
  intro b r h
  simp at h
  exact ⟨[], by simp [h.2], by simp⟩

theorem errP_consumes {α : Type} (s : Bool) (i : Str) : Consumes s i (PR.err : PR α) := by
  intro b r h; simp at h

theorem optP_consumes {α : Type} {s : Bool} {i : Str} {x : PR α} (hx : Consumes s i x) : Consumes false i (optP x i) := by
  intro b r h
  cases x with
  | ok a r' =>
    simp [optP] at h
    obtain ⟨p, hp, _⟩ := hx a r' rfl
    exact ⟨p, by rw [← h.2]; exact hp, by simp⟩
  | err => simp [optP] at h; exact ⟨[], by simp [h.2], by simp⟩
  | panic => simp [optP] at h
  | oof => simp [optP] at h

section stream
variable (N : Nom) (hN : N.Sound)
include hN

theorem ms1_c (i : Str) : Consumes true i (liftP (N.multispace1 i)) :=
  liftP_consumes true (fun a r h => ⟨a, ((hN.ms1 i a r h).1).symm, fun _ => (hN.ms1 i a r h).2⟩)
theorem dg1_c (i : Str) : Consumes true i (liftP (N.digit1 i)) :=
  liftP_consumes true (fun a r h => ⟨a, ((hN.dg1 i a r h).1).symm, fun _ => (hN.dg1 i a r h).2⟩)
theorem al1_c (i : Str) : Consumes true i (liftP (N.alpha1 i)) :=
  liftP_consumes true (fun a r h => ⟨a, ((hN.al1 i a r h).1).symm, fun _ => (hN.al1 i a r h).2⟩)
theorem tw1_c (p : Char → Bool) (i : Str) : Consumes true i (liftP (N.takeWhile1 p i)) :=
  liftP_consumes true (fun a r h => ⟨a, ((hN.tw1 p i a r h).1).symm, fun _ => (hN.tw1 p i a r h).2⟩)
theorem ch_c (c : Char) (i : Str) : Consumes true i (liftP (N.char c i)) :=
  liftP_consumes true (fun a r h => ⟨a, ((hN.ch c i a r h).1).symm, fun _ => by rw [(hN.ch c i a r h).2]; simp⟩)
theorem tag_c (t : Str) (i : Str) : Consumes false i (liftP (N.tag t i)) :=
  liftP_consumes false (fun a r h => ⟨a, ((hN.tg t i a r h).1).symm, by simp⟩)
theorem tag_c1 (t : Str) (ht : t ≠ []) (i : Str) : Consumes true i (liftP (N.tag t i)) :=
  liftP_consumes true (fun a r h => ⟨a, ((hN.tg t i a r h).1).symm, fun _ => by rw [(hN.tg t i a r h).2]; exact ht⟩)

end stream

theorem bindP_consumes_f {α β : Type} {i : Str} {x : PR α} {f : α → Str → PR β}
    (hx : Consumes false i x) (hf : ∀ a r, x = .ok a r → Consumes false r (f a r)) : Consumes false i (bindP x f) :=
  bindP_consumes (s1 := false) (s2 := false) hx hf

theorem bindP_consumes_l {α β : Type} {i : Str} {x : PR α} {f : α → Str → PR β}
    (hx : Consumes true i x) (hf : ∀ a r, x = .ok a r → Consumes false r (f a r)) : Consumes true i (bindP x f) :=
  bindP_consumes (s1 := true) (s2 := false) hx hf

theorem bindP_consumes_r {α β : Type} {i : Str} {x : PR α} {f : α → Str → PR β}
    (hx : Consumes false i x) (hf : ∀ a r, x = .ok a r → Consumes true r (f a r)) : Consumes true i (bindP x f) :=
  bindP_consumes (s1 := false) (s2 := true) hx hf

/-- one primitive step, as "consumes or fails" -/
macro "cprim" : tactic => `(tactic| first
  | exact ws0_consumes _ (by assumption) _
  | exact consumes_weaken (ms1_c _ (by assumption) _)
  | exact consumes_weaken (dg1_c _ (by assumption) _)
  | exact consumes_weaken (al1_c _ (by assumption) _)
  | exact consumes_weaken (tw1_c _ (by assumption) _ _)
  | exact consumes_weaken (ch_c _ (by assumption) _ _)
  | exact tag_c _ (by assumption) _ _
  | exact okP_consumes _ _
  | exact errP_consumes _ _)
macro "cchain" : tactic => `(tactic| repeat' (first | cprim | (refine bindP_consumes_f ?_ (fun _ _ _ => ?_))))

macro "fprim" : tactic => `(tactic| first
  | exact liftP_fine _ | exact ws0_fine _ _ | exact okP_fine _ _ | exact errP_fine)
macro "fchain" : tactic => `(tactic| repeat' (first | fprim | (refine bindP_fine ?_ (fun _ _ => ?_))))

section stream2
variable (N : Nom)

theorem parseDuration_fine (i : Str) : FineP (parseDuration N i) := by
  unfold parseDuration
  fchain
  all_goals (try dsimp only)
  repeat' split
  all_goals fprim

theorem parseWindowType_fine (i : Str) : FineP (parseWindowType N i) := by
  unfold parseWindowType
  fchain
  all_goals (try dsimp only)
  repeat' split
  all_goals fprim

theorem parseWindowSpec_fine (i : Str) : FineP (parseWindowSpec N i) := by
  unfold parseWindowSpec
  repeat' (first | fprim | exact parseDuration_fine N _ | exact parseWindowType_fine N _
                 | (refine bindP_fine ?_ (fun _ _ => ?_)))

theorem parseStreamSource_fine (i : Str) : FineP (parseStreamSource N i) := by
  unfold parseStreamSource
  repeat' (first | fprim | exact optP_fine _ (parseWindowSpec_fine N _) | (refine bindP_fine ?_ (fun _ _ => ?_)))

theorem optEventType_fine (k : Cls) (i : Str) : FineP (optEventType N k i) := by
  unfold optEventType
  repeat' split
  all_goals fprim

theorem parseStreamPattern_fine (k : Cls) (i : Str) : FineP (parseStreamPattern N k i) := by
  unfold parseStreamPattern
  repeat' (first | fprim | exact parseStreamSource_fine N _ | exact optEventType_fine N k _
                 | (refine bindP_fine ?_ (fun _ _ => ?_)))

theorem parseStreamJoin_fine (k : Cls) (i : Str) : FineP (parseStreamJoin N k i) := by
  unfold parseStreamJoin
  repeat' (first | fprim | exact parseStreamPattern_fine N k _ | (refine bindP_fine ?_ (fun _ _ => ?_)))

theorem altTags_fine (i : Str) : ∀ ts : List String, FineP (altTags N i ts) := by
  intro ts
  induction ts with
  | nil => exact errP_fine
  | cons t ts ih =>
    simp only [altTags]
    split
    · exact okP_fine _ _
    · exact ih

theorem parseJoinCondition_fine (k : Cls) (i : Str) : FineP (parseJoinCondition N k i) := by
  unfold parseJoinCondition
  repeat' (first | fprim | exact altTags_fine N _ _ | (refine bindP_fine ?_ (fun _ _ => ?_)))
  all_goals (try dsimp only)
  repeat' split
  all_goals fprim

variable (hN : N.Sound)
include hN

theorem parseDuration_consumes (i : Str) : Consumes true i (parseDuration N i) := by
  unfold parseDuration
  refine bindP_consumes_l (dg1_c N hN i) (fun _ _ _ => ?_)
  cchain
  all_goals (try dsimp only)
  repeat' split
  all_goals cprim

theorem parseWindowType_consumes (i : Str) : Consumes true i (parseWindowType N i) := by
  unfold parseWindowType
  refine bindP_consumes_l (al1_c N hN i) (fun _ _ _ => ?_)
  repeat' split
  all_goals cprim

theorem parseWindowSpec_consumes (i : Str) : Consumes true i (parseWindowSpec N i) := by
  unfold parseWindowSpec
  refine bindP_consumes_r (ws0_consumes N hN i) (fun _ _ _ => ?_)
  refine bindP_consumes_l (tag_c1 N hN _ (by decide) _) (fun _ _ _ => ?_)
  repeat' (first | cprim | exact consumes_weaken (parseDuration_consumes N hN _)
                 | exact consumes_weaken (parseWindowType_consumes N hN _)
                 | (refine bindP_consumes_f ?_ (fun _ _ _ => ?_)))

theorem parseStreamSource_consumes (i : Str) : Consumes true i (parseStreamSource N i) := by
  unfold parseStreamSource
  refine bindP_consumes_r (ws0_consumes N hN i) (fun _ _ _ => ?_)
  refine bindP_consumes_l (tag_c1 N hN _ (by decide) _) (fun _ _ _ => ?_)
  repeat' (first | cprim | exact optP_consumes (parseWindowSpec_consumes N hN _)
                 | (refine bindP_consumes_f ?_ (fun _ _ _ => ?_)))

theorem optEventType_consumes (k : Cls) (i : Str) : Consumes false i (optEventType N k i) := by
  unfold optEventType
  split
  · rename_i name r hh
    split
    · intro a r' h
      simp at h
      exact ⟨name, by rw [← h.2]; exact ((hN.tw1 _ _ _ _ hh).1).symm, by simp⟩
    · exact okP_consumes _ _
  · exact okP_consumes _ _

theorem parseStreamPattern_consumes (k : Cls) (i : Str) : Consumes true i (parseStreamPattern N k i) := by
  unfold parseStreamPattern
  refine bindP_consumes_l (tw1_c N hN _ i) (fun _ _ _ => ?_)
  repeat' (first | cprim | exact optEventType_consumes N hN k _
                 | exact consumes_weaken (parseStreamSource_consumes N hN _)
                 | (refine bindP_consumes_f ?_ (fun _ _ _ => ?_)))

theorem parseStreamJoin_consumes (k : Cls) (i : Str) : Consumes true i (parseStreamJoin N k i) := by
  unfold parseStreamJoin
  refine bindP_consumes_l (parseStreamPattern_consumes N hN k i) (fun _ _ _ => ?_)
  repeat' (first | cprim | exact consumes_weaken (parseStreamPattern_consumes N hN k _)
                 | (refine bindP_consumes_f ?_ (fun _ _ _ => ?_)))

theorem altTags_consumes (i : Str) : ∀ ts : List String, Consumes false i (altTags N i ts) := by
  intro ts
  induction ts with
  | nil => exact errP_consumes _ _
  | cons t ts ih =>
    simp only [altTags]
    split
    · rename_i o r hh
      intro a r' h
      simp at h
      exact ⟨o, by rw [← h.2]; exact ((hN.tg _ _ _ _ hh).1).symm, by simp⟩
    · exact ih

theorem parseJoinCondition_consumes (k : Cls) (i : Str) : Consumes true i (parseJoinCondition N k i) := by
  unfold parseJoinCondition
  refine bindP_consumes_l (tw1_c N hN _ i) (fun _ _ _ => ?_)
  repeat' (first | cprim | exact altTags_consumes N hN _ _ | (refine bindP_consumes_f ?_ (fun _ _ _ => ?_)))
  all_goals (try dsimp only)
  repeat' split
  all_goals cprim

end stream2

/-- the reference combinators satisfy the contract -/
theorem span1_sound (p : Char → Bool) (i o r : Str) (h : span1 p i = some (o, r)) : o ++ r = i ∧ o ≠ [] := by
  unfold span1 at h
  split at h
  · simp at h
  · rename_i hne
    simp at h
    obtain ⟨rfl, rfl⟩ := h
    exact ⟨List.takeWhile_append_dropWhile, by simpa using hne⟩

theorem nomRef_sound : nomRef.Sound where
  ms0 i := List.takeWhile_append_dropWhile
  ms1 i o r h := span1_sound _ i o r h
  dg1 i o r h := span1_sound _ i o r h
  al1 i o r h := span1_sound _ i o r h
  tw1 p i o r h := span1_sound p i o r h
  tg t i o r h := by
    simp only [nomRef] at h
    split at h
    · rename_i hp
      simp at h
      obtain ⟨rfl, rfl⟩ := h
      obtain ⟨q, hq⟩ := List.isPrefixOf_iff_prefix.mp hp
      exact ⟨by rw [← hq]; simp, rfl⟩
    · simp at h
  ch c i o r h := by
    simp only [nomRef] at h
    split at h
    · split at h
      · rename_i hd
        simp at h
        obtain ⟨rfl, rfl⟩ := h
        simp at hd
        exact ⟨by simp [hd], rfl⟩
      · simp at h
    · simp at h

end C05
