import RreModel.C05.Model
/-
C05 — helper lemmas: byte offsets / char boundaries, the two generic boundary lemmas
(`boundary_of_charIndices`, `ascii_delim_boundary`), and per-kernel invariants.
-/
namespace C05

/-! ## bytes and boundaries -/

theorem utf8Size_pos' (c : Char) : 1 ≤ c.utf8Size := Char.utf8Size_pos c

@[simp] theorem blen_nil : blen [] = 0 := rfl
@[simp] theorem blen_cons (c : Char) (cs : Str) : blen (c :: cs) = c.utf8Size + blen cs := rfl

theorem blen_append (p q : Str) : blen (p ++ q) = blen p + blen q := by
  induction p with
  | nil => simp
  | cons c p ih => simp [ih]; omega

theorem length_le_blen (s : Str) : s.length ≤ blen s := by
  induction s with
  | nil => simp
  | cons c s ih => have := utf8Size_pos' c; simp; omega

/-- **boundary_of_charIndices.** The byte length of any prefix of the char sequence — i.e. any offset
produced by `char_indices()` / by a scan that advances by `len_utf8()` per char — is a char boundary:
splitting there succeeds and yields exactly that prefix and the rest. -/
theorem boundary_of_charIndices (p q : Str) : splitAtByte (p ++ q) (blen p) = some (p, q) := by
  induction p with
  | nil => cases q <;> simp [splitAtByte]
  | cons c p ih =>
    have h := utf8Size_pos' c
    have h1 : c.utf8Size + blen p ≠ 0 := by omega
    have h2 : c.utf8Size ≤ c.utf8Size + blen p := by omega
    simp [splitAtByte, ih]
    omega

/-- conversely, a successful split is at the byte length of a prefix -/
theorem splitAtByte_eq_some {s : Str} {n : Nat} {p q : Str} (h : splitAtByte s n = some (p, q)) :
    s = p ++ q ∧ n = blen p := by
  induction s generalizing n p q with
  | nil =>
    simp only [splitAtByte] at h
    split at h
    · simp at h; obtain ⟨rfl, rfl⟩ := h; simp_all
    · simp at h
  | cons c cs ih =>
    simp only [splitAtByte] at h
    split at h
    · simp at h; obtain ⟨rfl, rfl⟩ := h; simp_all
    · split at h
      · cases hs : splitAtByte cs (n - c.utf8Size) with
        | none => simp [hs] at h
        | some pq =>
          obtain ⟨p', q'⟩ := pq
          simp [hs] at h
          obtain ⟨rfl, rfl⟩ := h
          obtain ⟨h1, h2⟩ := ih hs
          subst h1
          refine ⟨rfl, ?_⟩
          simp; omega
      · simp at h

/-- **ascii_delim_boundary.** If a one-byte (ASCII) char `c` sits at boundary `n`, then `n + 1` — the byte
after the delimiter found by `find` — is a boundary as well (and `n`, the byte before it, is one by
hypothesis). -/
theorem ascii_delim_boundary {s : Str} {n : Nat} {p q : Str} {c : Char}
    (h : splitAtByte s n = some (p, c :: q)) (hc : c.utf8Size = 1) :
    splitAtByte s (n + 1) = some (p ++ [c], q) := by
  obtain ⟨rfl, rfl⟩ := splitAtByte_eq_some h
  have : blen p + 1 = blen (p ++ [c]) := by simp [blen_append, hc]
  rw [this]
  have : p ++ c :: q = (p ++ [c]) ++ q := by simp
  rw [this]
  exact boundary_of_charIndices _ _

theorem sliceTo_append (p q : Str) : sliceTo (p ++ q) (blen p) = some p := by
  simp [sliceTo, boundary_of_charIndices]

theorem sliceFrom_append (p q : Str) : sliceFrom (p ++ q) (blen p) = some q := by
  simp [sliceFrom, boundary_of_charIndices]

/-- `&s[a..b]` with both ends at prefix lengths -/
theorem slice_append (p m q : Str) : slice (p ++ m ++ q) (blen p) (blen p + blen m) = some m := by
  have h : blen p ≤ blen p + blen m := by omega
  simp only [slice, h, if_true, List.append_assoc]
  rw [boundary_of_charIndices]
  simp [sliceTo_append]

theorem slice_eq_some {s : Str} {a b : Nat} {m : Str} (h : slice s a b = some m) :
    ∃ p q, s = p ++ m ++ q ∧ a = blen p ∧ b = blen p + blen m := by
  unfold slice at h
  split at h
  · cases h1 : splitAtByte s a with
    | none => simp [h1] at h
    | some pq =>
      obtain ⟨p, r⟩ := pq
      simp [h1, sliceTo] at h
      obtain ⟨q, h2⟩ := h
      obtain ⟨rfl, rfl⟩ := splitAtByte_eq_some h1
      obtain ⟨rfl, h3⟩ := splitAtByte_eq_some h2
      exact ⟨p, q, by simp, rfl, by omega⟩
  · simp at h

/-! ## trimming only shortens -/

theorem length_dropWhile_le (p : Char → Bool) (s : Str) : (s.dropWhile p).length ≤ s.length :=
  (List.dropWhile_sublist p).length_le

theorem length_trim_le (k : Cls) (s : Str) : (trim k s).length ≤ s.length := by
  unfold trim trimEnd trimStart
  have h1 := length_dropWhile_le k.white s
  have h2 := length_dropWhile_le k.white (s.dropWhile k.white).reverse
  simp at h2 ⊢
  omega

/-! ## the quote test (parse_value, evaluate_expression — fixed code) -/

/-- the shape `q m q` that `len >= 2 && starts_with(q) && ends_with(q)` establishes for a one-byte `q` -/
theorem quoted_shape {s : Str} {q : Char} (hq : q.utf8Size = 1)
    (h2 : 2 ≤ blen s) (hh : s.head? = some q) (hl : s.getLast? = some q) :
    ∃ m, s = [q] ++ m ++ [q] := by
  cases s with
  | nil => simp at hh
  | cons c t =>
    simp at hh; subst hh
    cases t with
    | nil => simp [hq] at h2
    | cons d t' =>
      have : (d :: t').getLast? = some c := by simpa using hl
      obtain ⟨m, hm⟩ := List.getLast?_eq_some_iff.mp this
      exact ⟨m, by simp [hm]⟩

/-- `&s[1..len-1]` between two one-byte chars never panics -/
theorem slice_inner (q1 q2 : Char) (m : Str) (h1 : q1.utf8Size = 1) (h2 : q2.utf8Size = 1) :
    slice ([q1] ++ m ++ [q2]) 1 (blen ([q1] ++ m ++ [q2]) - 1) = some m := by
  have e1 : (1 : Nat) = blen [q1] := by simp [h1]
  have e2 : blen ([q1] ++ m ++ [q2]) - 1 = blen [q1] + blen m := by simp [blen_append, h1, h2]; omega
  rw [e2, e1, slice_append]

theorem unquote_ne_none (s : Str) (q : Char) (hq : q.utf8Size = 1) : unquote s q ≠ none := by
  unfold unquote
  split
  · rename_i h
    obtain ⟨h2, hh, hl⟩ := h
    obtain ⟨m, rfl⟩ := quoted_shape hq h2 hh hl
    rw [slice_inner q q m hq hq]
    simp only []
    split <;> simp
  · simp

/-! ## K1 — find_operator returns the byte offset of an operator char -/

/-- `pos` is the byte offset of a char of `ops` inside `s` -/
def OpAt (ops : List Char) (s : Str) (pos : Nat) : Prop :=
  ∃ p c q, s = p ++ c :: q ∧ pos = blen p ∧ ops.contains c = true

theorem findOpGo_spec (ops : List Char) (s : Str) :
    ∀ (cs pre : Str) (off : Nat) (d : Int) (last : Option Nat) (pos : Nat),
      s = pre ++ cs → off = blen pre → (∀ l, last = some l → OpAt ops s l) →
      findOpGo ops cs off d last = some pos → OpAt ops s pos := by
  intro cs
  induction cs with
  | nil =>
    intro pre off d last pos _ _ hl h
    simp [findOpGo] at h
    exact hl _ h
  | cons c cs ih =>
    intro pre off d last pos hs hoff hl h
    have hs' : s = (pre ++ [c]) ++ cs := by simp [hs]
    have hoff' : off + c.utf8Size = blen (pre ++ [c]) := by simp [blen_append, hoff]
    simp only [findOpGo] at h
    split at h
    · exact ih _ _ _ _ _ hs' hoff' hl h
    · split at h
      · exact ih _ _ _ _ _ hs' hoff' hl h
      · split at h
        · rename_i hc
          refine ih _ _ _ _ _ hs' hoff' ?_ h
          intro l hl'
          simp at hl'
          subst hl'
          exact ⟨pre, c, cs, hs, hoff, hc.2⟩
        · exact ih _ _ _ _ _ hs' hoff' hl h

theorem findOperator_spec {ops : List Char} {s : Str} {pos : Nat}
    (h : findOperator ops s = some pos) : OpAt ops s pos :=
  findOpGo_spec ops s s [] 0 0 none pos (by simp) (by simp) (by simp) h

/-- all three slices around a one-byte operator succeed, and both operands are strictly shorter -/
theorem splitAtOp_of_OpAt {ops : List Char} (hops : ∀ c, ops.contains c = true → c.utf8Size = 1)
    {s : Str} {pos : Nat} (h : OpAt ops s pos) :
    ∃ l r, splitAtOp s pos = some (l, r) ∧ l.length < s.length ∧ r.length < s.length := by
  obtain ⟨p, c, q, rfl, rfl, hc⟩ := h
  have h1 := hops c hc
  refine ⟨p, q, ?_, by simp, by simp; omega⟩
  have e1 : sliceTo (p ++ c :: q) (blen p) = some p := sliceTo_append p (c :: q)
  have e2 : slice (p ++ c :: q) (blen p) (blen p + 1) = some [c] := by
    have := slice_append p [c] q
    simpa [h1] using this
  have e3 : sliceFrom (p ++ c :: q) (blen p + 1) = some q := by
    have := sliceFrom_append (p ++ [c]) q
    simpa [blen_append, h1] using this
  simp [splitAtOp, e1, e2, e3]

theorem addsub_ascii : ∀ c, ['+', '-'].contains c = true → c.utf8Size = 1 := by
  intro c h
  simp at h
  rcases h with rfl | rfl <;> rfl

theorem muldiv_ascii : ∀ c, ['*', '/', '%'].contains c = true → c.utf8Size = 1 := by
  intro c h
  simp at h
  rcases h with rfl | rfl | rfl <;> rfl

theorem evalLeaf_ne_panic (s : Str) : evalLeaf s ≠ .panic := by
  unfold evalLeaf
  have h1 := unquote_ne_none s '"' rfl
  have h2 := unquote_ne_none s '\'' rfl
  split
  · contradiction
  · simp
  · split
    · contradiction
    · simp
    · split <;> simp

theorem evalLeaf_ne_oof (s : Str) : evalLeaf s ≠ .oof := by
  unfold evalLeaf
  split
  · simp
  · simp
  · split
    · simp
    · simp
    · split <;> simp

theorem combine_ne_panic {l r : Shape} (hl : l ≠ .panic) (hr : r ≠ .panic) : combine l r ≠ .panic := by
  cases l <;> cases r <;> simp_all [combine]

theorem combine_ne_oof {l r : Shape} (hl : l ≠ .oof) (hr : r ≠ .oof) : combine l r ≠ .oof := by
  cases l <;> cases r <;> simp_all [combine]

/-! ## K2 — parse_value -/

theorem bracket_shape {t : Str} {a b : Char} (hab : a ≠ b)
    (hh : t.head? = some a) (hl : t.getLast? = some b) : ∃ m, t = [a] ++ m ++ [b] := by
  cases t with
  | nil => simp at hh
  | cons c t' =>
    simp at hh; subst hh
    cases t' with
    | nil => simp at hl; exact absurd hl hab
    | cons d t'' =>
      have : (d :: t'').getLast? = some b := by simpa using hl
      obtain ⟨m, hm⟩ := List.getLast?_eq_some_iff.mp this
      exact ⟨m, by simp [hm]⟩

theorem parseScalar_ne_panic (k : Cls) (t : Str) : parseScalar k t ≠ .panic := by
  unfold parseScalar
  have h1 := unquote_ne_none t '"' rfl
  have h2 := unquote_ne_none t '\'' rfl
  split
  · contradiction
  · simp
  · split
    · contradiction
    · simp
    · repeat' split
      all_goals simp

theorem parseScalar_ne_oof (k : Cls) (t : Str) : parseScalar k t ≠ .oof := by
  unfold parseScalar
  repeat' split
  all_goals simp

theorem collect_ne_panic {rs : List (R Val)} (h : ∀ r ∈ rs, r ≠ .panic) : collect rs ≠ .panic := by
  induction rs with
  | nil => simp [collect]
  | cons r rs ih =>
    have hr := h r (by simp)
    have ih' := ih (fun x hx => h x (by simp [hx]))
    simp only [collect]
    cases r <;> simp_all
    cases hc : collect rs <;> simp_all

theorem collect_ne_oof {rs : List (R Val)} (h : ∀ r ∈ rs, r ≠ .oof) : collect rs ≠ .oof := by
  induction rs with
  | nil => simp [collect]
  | cons r rs ih =>
    have hr := h r (by simp)
    have ih' := ih (fun x hx => h x (by simp [hx]))
    simp only [collect]
    cases r <;> simp_all
    cases hc : collect rs <;> simp_all

theorem arrayElemsGo_length (k : Cls) : ∀ (cs cur : Str) (inq : Bool) (qc : Char) (acc : List Str) (e : Str),
    e ∈ arrayElemsGo k cs cur inq qc acc → e ∈ acc ∨ e.length ≤ cur.length + cs.length := by
  intro cs
  induction cs with
  | nil =>
    intro cur inq qc acc e h
    simp only [arrayElemsGo] at h
    have ht := length_trim_le k cur.reverse
    split at h
    · left; simpa using h
    · simp at h
      rcases h with h | h
      · left; exact h
      · right; subst h; simp at ht ⊢; omega
  | cons c cs ih =>
    intro cur inq qc acc e h
    simp only [arrayElemsGo] at h
    split at h
    · rcases ih _ _ _ _ _ h with h | h
      · left; exact h
      · right; simp at h ⊢; omega
    · split at h
      · rcases ih _ _ _ _ _ h with h | h
        · left; exact h
        · right; simp at h ⊢; omega
      · split at h
        · have ht := length_trim_le k cur.reverse
          rcases ih _ _ _ _ _ h with h | h
          · split at h
            · left; exact h
            · simp at h
              rcases h with h | h
              · right; subst h; simp at ht ⊢; omega
              · left; exact h
          · right; simp at h ⊢; omega
        · rcases ih _ _ _ _ _ h with h | h
          · left; exact h
          · right; simp at h ⊢; omega

theorem arrayElems_length (k : Cls) (inner e : Str) (h : e ∈ arrayElems k inner) : e.length ≤ inner.length := by
  rcases arrayElemsGo_length k inner [] false ' ' [] e h with h | h
  · simp at h
  · simpa using h


/-! ## generic scans: find / rfind return prefix byte lengths -/

theorem findStrGo_spec (pat : Str) : ∀ (cs : Str) (off i : Nat),
    findStrGo pat cs off = some i → ∃ p q, cs = p ++ pat ++ q ∧ i = off + blen p := by
  intro cs
  induction cs with
  | nil =>
    intro off i h
    simp only [findStrGo] at h
    split at h
    · rename_i hp
      simp at h
      exact ⟨[], [], by simp_all, by simp [h]⟩
    · simp at h
  | cons c cs ih =>
    intro off i h
    simp only [findStrGo] at h
    split at h
    · rename_i hp
      simp at h
      obtain ⟨t, ht⟩ := List.isPrefixOf_iff_prefix.mp hp
      exact ⟨[], t, by simp [ht], by simp [h]⟩
    · obtain ⟨p, q, hcs, hi⟩ := ih _ _ h
      exact ⟨c :: p, q, by simp [hcs], by simp [hi]; omega⟩

theorem findStr_spec {s pat : Str} {i : Nat} (h : findStr s pat = some i) :
    ∃ p q, s = p ++ pat ++ q ∧ i = blen p := by
  obtain ⟨p, q, h1, h2⟩ := findStrGo_spec pat s 0 i h
  exact ⟨p, q, h1, by omega⟩

/-- **find(pattern) + pattern.len()**: both ends of the first occurrence of a string pattern are boundaries -/
theorem find_str_boundary {s pat : Str} {i : Nat} (h : findStr s pat = some i) :
    ∃ p q, s = p ++ pat ++ q ∧ sliceTo s i = some p ∧ sliceFrom s (i + blen pat) = some q := by
  obtain ⟨p, q, rfl, rfl⟩ := findStr_spec h
  refine ⟨p, q, rfl, ?_, ?_⟩
  · rw [List.append_assoc]; exact sliceTo_append _ _
  · have := sliceFrom_append (p ++ pat) q
    simpa [blen_append] using this

theorem findCharGo_spec (f : Char → Bool) : ∀ (cs : Str) (off i : Nat),
    findCharGo f cs off = some i → ∃ p c q, cs = p ++ c :: q ∧ f c = true ∧ i = off + blen p := by
  intro cs
  induction cs with
  | nil => intro off i h; simp [findCharGo] at h
  | cons c cs ih =>
    intro off i h
    simp only [findCharGo] at h
    split at h
    · rename_i hc
      simp at h
      exact ⟨[], c, cs, by simp, hc, by simp [h]⟩
    · obtain ⟨p, d, q, hcs, hd, hi⟩ := ih _ _ h
      exact ⟨c :: p, d, q, by simp [hcs], hd, by simp [hi]; omega⟩

theorem findChar_spec {s : Str} {c : Char} {i : Nat} (h : findChar s c = some i) :
    ∃ p q, s = p ++ c :: q ∧ i = blen p := by
  obtain ⟨p, d, q, h1, h2, h3⟩ := findCharGo_spec _ s 0 i h
  simp at h2; subst h2
  exact ⟨p, q, h1, by omega⟩

theorem rfindCharGo_spec (c : Char) (s : Str) : ∀ (cs pre : Str) (off : Nat) (last : Option Nat) (i : Nat),
    s = pre ++ cs → off = blen pre → (∀ l, last = some l → ∃ p q, s = p ++ c :: q ∧ l = blen p) →
    rfindCharGo c cs off last = some i → ∃ p q, s = p ++ c :: q ∧ i = blen p := by
  intro cs
  induction cs with
  | nil => intro pre off last i _ _ hl h; simp [rfindCharGo] at h; exact hl _ h
  | cons d cs ih =>
    intro pre off last i hs hoff hl h
    simp only [rfindCharGo] at h
    refine ih (pre ++ [d]) _ _ _ (by simp [hs]) (by simp [blen_append, hoff]) ?_ h
    intro l hl'
    split at hl'
    · rename_i hd
      simp at hd hl'; subst hd; subst hl'
      exact ⟨pre, cs, hs, hoff⟩
    · exact hl _ hl'

theorem rfindChar_spec {s : Str} {c : Char} {i : Nat} (h : rfindChar s c = some i) :
    ∃ p q, s = p ++ c :: q ∧ i = blen p :=
  rfindCharGo_spec c s s [] 0 none i (by simp) (by simp) (by simp) h

/-- two prefixes of the same string: the one with fewer bytes is a proper prefix of the other -/
theorem prefix_of_blen_lt : ∀ (p1 : Str) (c1 : Char) (q1 p2 q2 : Str),
    p1 ++ c1 :: q1 = p2 ++ q2 → blen p1 < blen p2 → ∃ m, p2 = p1 ++ c1 :: m := by
  intro p1
  induction p1 with
  | nil =>
    intro c1 q1 p2 q2 h hb
    cases p2 with
    | nil => simp at hb
    | cons d p2' => simp at h; exact ⟨p2', by simp [h.1]⟩
  | cons a p1 ih =>
    intro c1 q1 p2 q2 h hb
    cases p2 with
    | nil => simp at hb
    | cons d p2' =>
      simp at h hb
      obtain ⟨rfl, h⟩ := h
      obtain ⟨m, hm⟩ := ih c1 q1 p2' q2 h (by omega)
      exact ⟨m, by simp [hm]⟩

/-! ## K4 — split_top_level_or -/

theorem sliceC_isSome {cs : Str} {a b : Nat} (h1 : a ≤ b) (h2 : b ≤ cs.length) : ∃ w, sliceC cs a b = some w := by
  simp [sliceC, h1, h2]

theorem splitOrGo_ok (k : Cls) : ∀ (cs : Str) (skip : Nat) (st : OrSt), ∃ ps, splitOrGo k cs skip st = .ok ps := by
  intro cs
  induction cs with
  | nil => intro skip st; exact ⟨(pushPart k st).reverse, by simp [splitOrGo]⟩
  | cons c rest ih =>
    intro skip st
    cases skip with
    | succ n => simp only [splitOrGo]; exact ih _ _
    | zero =>
      simp only [splitOrGo]
      split
      · exact ih _ _
      · split
        · exact ih _ _
        · split
          · exact ih _ _
          · split
            · split
              · rename_i hlen
                obtain ⟨w, hw⟩ := @sliceC_isSome (c :: rest) 0 4 (by omega) hlen
                rw [hw]
                simp only []
                split
                · exact ih _ _
                · exact ih _ _
              · exact ih _ _
            · exact ih _ _

/-! ## K5 — find_goal_end / find_matching_brace -/

theorem goalEndGo_spec : ∀ (cs : Str) (off depth : Nat) (inStr esc : Bool) (e : Nat),
    goalEndGo cs off depth inStr esc = some e → ∃ n, n ≤ cs.length ∧ e = off + blen (cs.take n) := by
  intro cs
  induction cs with
  | nil =>
    intro off depth inStr esc e h
    simp only [goalEndGo] at h
    split at h
    · simp at h
    · split at h
      · simp at h
      · simp at h; exact ⟨0, by simp, by simp [h]⟩
  | cons c cs ih =>
    intro off depth inStr esc e h
    have step : ∀ {d' i' e'}, goalEndGo cs (off + c.utf8Size) d' i' e' = some e →
        ∃ n, n ≤ (c :: cs).length ∧ e = off + blen ((c :: cs).take n) := by
      intro d' i' e' h'
      obtain ⟨n, hn, he⟩ := ih _ _ _ _ _ h'
      exact ⟨n + 1, by simp; omega, by simp [he]; omega⟩
    simp only [goalEndGo] at h
    split at h
    · exact step h
    · split at h
      · exact step h
      · split at h
        · exact step h
        · split at h
          · exact step h
          · split at h
            · split at h
              · simp at h
              · exact step h
            · split at h
              · simp at h; exact ⟨0, by simp, by simp [h]⟩
              · exact step h

theorem findGoalEnd_boundary {s : Str} {e : Nat} (h : findGoalEnd s = some e) : ∃ g, sliceTo s e = some g := by
  obtain ⟨n, _, he⟩ := goalEndGo_spec s 0 0 false false e h
  refine ⟨s.take n, ?_⟩
  have := sliceTo_append (s.take n) (s.drop n)
  simp at this
  simpa [he] using this

theorem braceGo_spec : ∀ (cs : Str) (off : Nat) (depth : Int) (inStr esc : Bool) (e : Nat),
    braceGo cs off depth inStr esc = some e → ∃ p q, cs = p ++ '}' :: q ∧ e = off + blen p + 1 := by
  intro cs
  induction cs with
  | nil => intro off depth inStr esc e h; simp [braceGo] at h
  | cons c cs ih =>
    intro off depth inStr esc e h
    have step : ∀ {d' i' e'}, braceGo cs (off + c.utf8Size) d' i' e' = some e →
        ∃ p q, c :: cs = p ++ '}' :: q ∧ e = off + blen p + 1 := by
      intro d' i' e' h'
      obtain ⟨p, q, hcs, he⟩ := ih _ _ _ _ _ h'
      exact ⟨c :: p, q, by simp [hcs], by simp [he]; omega⟩
    simp only [braceGo] at h
    split at h
    · exact step h
    · split at h
      · exact step h
      · split at h
        · exact step h
        · split at h
          · exact step h
          · split at h
            · rename_i hc
              split at h
              · simp at h hc
                exact ⟨[], cs, by simp [hc.1], by simp [h]⟩
              · exact step h
            · exact step h

theorem findMatchingBrace_boundary {s : Str} {e : Nat} (h : findMatchingBrace s = some e) :
    ∃ g, sliceTo s e = some g := by
  obtain ⟨p, q, rfl, he⟩ := braceGo_spec s 0 0 false false e h
  refine ⟨p ++ ['}'], ?_⟩
  have := sliceTo_append (p ++ ['}']) q
  have hb : blen (p ++ ['}']) = e := by simp [blen_append, he]; rfl
  simpa [hb] using this

/-! ## K7 — has_nested -/

theorem hasNestedGo_ne_panic : ∀ (cs : Str) (d : Int) (b : Bool), hasNestedGo cs d b ≠ .panic := by
  intro cs
  induction cs with
  | nil => intro d b; simp [hasNestedGo]
  | cons c rest ih =>
    intro d b
    simp only [hasNestedGo]
    split
    · exact ih _ _
    · split
      · exact ih _ _
      · split
        · rename_i hc
          simp at hc
          obtain ⟨w, hw⟩ := @sliceC_isSome (c :: rest) 0 5 (by omega) (by have := hc.2; simp at this ⊢; omega)
          rw [hw]
          simp only []
          split
          · simp
          · exact ih _ _
        · exact ih _ _

/-! ## (a) ExpressionParser -/

/-- a parser result is *good* for input `r`: it is `err`, or `ok` with a remaining input no longer than `r` -/
def Good {α : Type} (r : Str) : PR α → Prop
  | .ok _ r' => r'.length ≤ r.length
  | .err => True
  | .panic => False
  | .oof => False

theorem Good.mono {α : Type} {r1 r2 : Str} {x : PR α} (h : Good r1 x) (hl : r1.length ≤ r2.length) : Good r2 x := by
  cases x <;> simp_all [Good]; omega

/-- `prim` behaves on every input of length ≤ n -/
def PrimGood (prim : Str → PR Expr) (n : Nat) : Prop := ∀ r, r.length ≤ n → Good r (prim r)

theorem good_ite {α : Type} {r : Str} {c : Prop} [Decidable c] {a b : PR α}
    (ha : Good r a) (hb : Good r b) : Good r (if c then a else b) := by
  split <;> assumption

theorem length_skipWs_le (k : Cls) (r : Str) : (skipWs k r).length ≤ r.length := length_dropWhile_le _ _

theorem cmp_good (k : Cls) {prim : Str → PR Expr} {n : Nat} (hp : PrimGood prim n) :
    ∀ r, r.length ≤ n → Good r (parseComparisonWith k prim r) := by
  intro r hr
  have h1 := hp r hr
  unfold parseComparisonWith
  cases hx : prim r with
  | ok left r1 =>
    rw [hx] at h1
    simp only [Good] at h1
    simp only []
    have h2 := length_skipWs_le k r1
    cases hc : findCmp (skipWs k r1) cmpOps with
    | none => simp only [Good]; omega
    | some on =>
      obtain ⟨op, nm⟩ := on
      simp only []
      have h3 : ((skipWs k r1).drop op.length).length ≤ n := by simp; omega
      have h4 := hp _ h3
      cases hy : prim ((skipWs k r1).drop op.length) with
      | ok right r3 =>
        rw [hy] at h4; simp only [Good] at h4 ⊢
        simp at h4; omega
      | err => simp [Good]
      | panic => rw [hy] at h4; exact h4
      | oof => rw [hy] at h4; exact h4
  | err => simp [Good]
  | panic => rw [hx] at h1; exact h1
  | oof => rw [hx] at h1; exact h1

theorem prefix_length_le {a b : Str} (h : a.isPrefixOf b = true) : a.length ≤ b.length := by
  obtain ⟨t, ht⟩ := List.isPrefixOf_iff_prefix.mp h
  rw [← ht]; simp

theorem andLoop_good (k : Cls) {prim : Str → PR Expr} {n : Nat} (hp : PrimGood prim n) :
    ∀ (fuel : Nat) (left : Expr) (r : Str), r.length ≤ n → r.length < fuel → Good r (andLoop k prim fuel left r) := by
  intro fuel
  induction fuel with
  | zero => intro left r _ h; omega
  | succ m ih =>
    intro left r hr hf
    simp only [andLoop]
    have h2 := length_skipWs_le k r
    by_cases hb : "&&".toList.isPrefixOf (skipWs k r) = true
    · rw [if_pos hb]
      have h3 := prefix_length_le hb
      have hlen : ("&&".toList).length = 2 := rfl
      have h4 : ((skipWs k r).drop 2).length ≤ n := by simp; omega
      have h5 := cmp_good k hp _ h4
      cases hy : parseComparisonWith k prim ((skipWs k r).drop 2) with
      | ok right r2 =>
        rw [hy] at h5; simp only [Good] at h5; simp at h5
        simp only []
        exact (ih _ r2 (by omega) (by omega)).mono (by omega)
      | err => simp [Good]
      | panic => rw [hy] at h5; exact h5
      | oof => rw [hy] at h5; exact h5
    · rw [if_neg hb]; simp only [Good]; omega

theorem and_good (k : Cls) {prim : Str → PR Expr} {n : Nat} (hp : PrimGood prim n) :
    ∀ r, r.length ≤ n → Good r (parseAndWith k prim r) := by
  intro r hr
  have h1 := cmp_good k hp r hr
  unfold parseAndWith
  cases hx : parseComparisonWith k prim r with
  | ok left r1 =>
    rw [hx] at h1; simp only [Good] at h1
    simp only []
    exact (andLoop_good k hp _ left r1 (by omega) (by omega)).mono h1
  | err => simp [Good]
  | panic => rw [hx] at h1; exact h1
  | oof => rw [hx] at h1; exact h1

theorem orLoop_good (k : Cls) {prim : Str → PR Expr} {n : Nat} (hp : PrimGood prim n) :
    ∀ (fuel : Nat) (left : Expr) (r : Str), r.length ≤ n → r.length < fuel → Good r (orLoop k prim fuel left r) := by
  intro fuel
  induction fuel with
  | zero => intro left r _ h; omega
  | succ m ih =>
    intro left r hr hf
    simp only [orLoop]
    have h2 := length_skipWs_le k r
    by_cases hb : "||".toList.isPrefixOf (skipWs k r) = true
    · rw [if_pos hb]
      have h3 := prefix_length_le hb
      have hlen : ("||".toList).length = 2 := rfl
      have h4 : ((skipWs k r).drop 2).length ≤ n := by simp; omega
      have h5 := and_good k hp _ h4
      cases hy : parseAndWith k prim ((skipWs k r).drop 2) with
      | ok right r2 =>
        rw [hy] at h5; simp only [Good] at h5; simp at h5
        simp only []
        exact (ih _ r2 (by omega) (by omega)).mono (by omega)
      | err => simp [Good]
      | panic => rw [hy] at h5; exact h5
      | oof => rw [hy] at h5; exact h5
    · rw [if_neg hb]; simp only [Good]; omega

theorem expr_good (k : Cls) {prim : Str → PR Expr} {n : Nat} (hp : PrimGood prim n) :
    ∀ r, r.length ≤ n → Good r (parseExpressionWith k prim r) := by
  intro r hr
  have h1 := and_good k hp r hr
  unfold parseExpressionWith
  cases hx : parseAndWith k prim r with
  | ok left r1 =>
    rw [hx] at h1; simp only [Good] at h1
    simp only []
    exact (orLoop_good k hp _ left r1 (by omega) (by omega)).mono h1
  | err => simp [Good]
  | panic => rw [hx] at h1; exact h1
  | oof => rw [hx] at h1; exact h1

/-- `self.input[next_pos]` in `peek_word` is guarded by `next_pos >= self.input.len()` -/
theorem peekWord_ne_none (k : Cls) (w : String) (r : Str) : peekWord k w r ≠ none := by
  unfold peekWord
  split
  · split
    · simp
    · rename_i h
      have : w.length < r.length := by omega
      simp [List.getElem?_eq_getElem this]
  · simp

theorem scanString_length : ∀ (cs acc : Str) (esc : Bool) (s rest : Str),
    scanString cs acc esc = some (s, rest) → rest.length ≤ cs.length := by
  intro cs
  induction cs with
  | nil => intro acc esc s rest h; simp [scanString] at h
  | cons c cs ih =>
    intro acc esc s rest h
    simp only [scanString] at h
    split at h
    · have := ih _ _ _ _ h; simp; omega
    · split at h
      · have := ih _ _ _ _ h; simp; omega
      · split at h
        · simp at h; simp [h.2]
        · have := ih _ _ _ _ h; simp; omega

theorem scanNumber_length (k : Cls) : ∀ (cs acc : Str) (dot : Bool),
    (scanNumber k cs acc dot).2.2.length ≤ cs.length := by
  intro cs
  induction cs with
  | nil => intro acc dot; simp [scanNumber]
  | cons c cs ih =>
    intro acc dot
    simp only [scanNumber]
    split
    · have := ih (c :: acc) dot; simp; omega
    · split
      · have := ih (c :: acc) true; simp; omega
      · split
        · have := ih (c :: acc) dot; simp; omega
        · simp

theorem tryLiteral_good (k : Cls) (r0 : Str) : Good r0 (tryLiteral k r0) := by
  have hs := length_skipWs_le k r0
  unfold tryLiteral
  simp only []
  have p1 := peekWord_ne_none k "true" (skipWs k r0)
  have p2 := peekWord_ne_none k "false" (skipWs k r0)
  have p3 := peekWord_ne_none k "null" (skipWs k r0)
  split
  · contradiction
  · simp only [Good]; simp; omega
  · split
    · contradiction
    · simp only [Good]; simp; omega
    · split
      · contradiction
      · simp only [Good]; simp; omega
      · split
        · simp only [Good]; omega
        · rename_i c cs hr
          split
          · cases hsc : scanString cs [] false with
            | none => simp [Good]
            | some p =>
              obtain ⟨s, rest⟩ := p
              have := scanString_length _ _ _ _ _ hsc
              simp only [Good]
              have : (c :: cs).length ≤ r0.length := by rw [← hr]; exact hs
              simp at this; omega
          · have hn := scanNumber_length k (skipWs k r0) [] false
            split
            · exact good_ite (by simp only [Good]; omega) (by simp only [Good]; omega)
            · simp only [Good]; omega

theorem primary_good (k : Cls) : ∀ (d : Nat) (r : Str), r.length < d → Good r (parsePrimary k d r) := by
  intro d
  induction d with
  | zero => intro r h; omega
  | succ d ih =>
    intro r0 hd
    have hs := length_skipWs_le k r0
    simp only [parsePrimary]
    split
    · rename_i t ht
      rw [ht] at hs; simp at hs
      have h1 := ih t (by omega)
      cases hx : parsePrimary k d t with
      | ok e r' => rw [hx] at h1; simp only [Good] at h1 ⊢; omega
      | err => simp [Good]
      | panic => rw [hx] at h1; exact h1
      | oof => rw [hx] at h1; exact h1
    · rename_i t ht
      rw [ht] at hs; simp at hs
      have hp : PrimGood (parsePrimary k d) t.length := fun x hx => ih x (by omega)
      have h1 := expr_good k hp t (Nat.le_refl _)
      cases hx : parseExpressionWith k (parsePrimary k d) t with
      | ok e r' =>
        rw [hx] at h1; simp only [Good] at h1
        simp only []
        have h2 := length_skipWs_le k r'
        split
        · rename_i r'' hr''
          rw [hr''] at h2; simp at h2
          simp only [Good]; omega
        · simp [Good]
      | err => simp [Good]
      | panic => rw [hx] at h1; exact h1
      | oof => rw [hx] at h1; exact h1
    · rename_i t ht
      rw [ht] at hs; simp at hs
      simp only [takeIdent]
      have := length_dropWhile_le (fun c => k.alnum c || c == '_' || (false && c == '.')) t
      exact good_ite (by simp [Good]) (by simp only [Good]; omega)
    · have h1 := tryLiteral_good k (skipWs k r0)
      cases hx : tryLiteral k (skipWs k r0) with
      | ok o rest =>
        rw [hx] at h1; simp only [Good] at h1
        cases o with
        | some l => simp only [Good]; omega
        | none =>
          simp only [takeIdent]
          have := length_dropWhile_le (fun c => k.alnum c || c == '_' || (true && c == '.')) rest
          exact good_ite (by simp [Good]) (by simp only [Good]; omega)
      | err => simp [Good]
      | panic => rw [hx] at h1; exact h1
      | oof => rw [hx] at h1; exact h1

/-! ## K3 / (c) — parse_when_clause -/

theorem finishParts_mem (k : Cls) (cur : Str) (acc : List Str) :
    ∀ p ∈ finishParts k cur acc, p ∈ acc ∨ p.length ≤ cur.length := by
  intro p hp
  have ht := length_trim_le k cur.reverse
  unfold finishParts at hp
  split at hp
  · left; simpa using hp
  · simp at hp
    rcases hp with hp | hp
    · left; exact hp
    · right; subst hp; simp at ht ⊢; omega

theorem finishParts_length (k : Cls) (cur : Str) : (finishParts k cur []).length ≤ 1 := by
  unfold finishParts; split <;> simp

theorem splitLogicalGo_mem (k : Cls) (op : Char) (cs cur : Str) (d : Int) (acc : List Str) :
    ∀ p ∈ splitLogicalGo k op cs cur d acc, p ∈ acc ∨ p.length ≤ cur.length + cs.length := by
  fun_induction splitLogicalGo k op cs cur d acc with
  | case1 cur d acc =>
    intro p hp
    rcases finishParts_mem k cur acc p hp with h | h
    · left; exact h
    · right; simp; omega
  | case2 c cur d acc =>
    intro p hp
    rcases finishParts_mem k (c :: cur) acc p hp with h | h
    · left; exact h
    · right; simp at h ⊢; omega
  | case3 c c2 cs cur d acc h ih =>
    intro p hp
    have ht := length_trim_le k cur.reverse
    rcases ih p hp with h1 | h1
    · simp at h1
      rcases h1 with h1 | h1
      · right; subst h1; simp at ht ⊢; omega
      · left; exact h1
    · right; simp at h1 ⊢; omega
  | case4 c c2 cs cur d acc h ih =>
    intro p hp
    rcases ih p hp with h1 | h1
    · left; exact h1
    · right; simp at h1 ⊢; omega

theorem splitLogicalGo_strict (k : Cls) (op : Char) (cs cur : Str) (d : Int) (acc : List Str) (hacc : acc = []) :
    (splitLogicalGo k op cs cur d acc).length ≤ 1 ∨
    ∀ p ∈ splitLogicalGo k op cs cur d acc, p.length + 2 ≤ cur.length + cs.length := by
  fun_induction splitLogicalGo k op cs cur d acc with
  | case1 cur d acc => left; subst hacc; exact finishParts_length k cur
  | case2 c cur d acc => left; subst hacc; exact finishParts_length k (c :: cur)
  | case3 c c2 cs cur d acc h ih =>
    right
    intro p hp
    have ht := length_trim_le k cur.reverse
    subst hacc
    rcases splitLogicalGo_mem k op cs [] d [trim k cur.reverse] p hp with h1 | h1
    · simp at h1; subst h1; simp at ht ⊢; omega
    · simp at h1 ⊢; omega
  | case4 c c2 cs cur d acc h ih =>
    rcases ih hacc with h1 | h1
    · left; exact h1
    · right; intro p hp; have := h1 p hp; simp at this ⊢; omega

theorem innerOf_spec {kw c : Str} (hkw : kw.getLast? = some '(') :
    innerOf kw c ≠ .panic ∧ innerOf kw c ≠ .oof ∧ ∀ inner, innerOf kw c = .ok inner → inner.length < c.length := by
  unfold innerOf
  split
  · rename_i h
    obtain ⟨hp, hl⟩ := h
    obtain ⟨rest, hrest⟩ := List.isPrefixOf_iff_prefix.mp hp
    subst hrest
    rw [List.getLast?_append] at hl
    cases hr : rest.getLast? with
    | none => rw [hr, hkw] at hl; simp at hl
    | some x =>
      rw [hr] at hl; simp at hl; subst hl
      obtain ⟨m, hm⟩ := List.getLast?_eq_some_iff.mp hr
      subst hm
      have e : blen (kw ++ (m ++ [')'])) - 1 = blen kw + blen m := by
        have : ')'.utf8Size = 1 := rfl
        simp [blen_append, this]
      have := slice_append kw m [')']
      rw [e]
      rw [List.append_assoc] at this
      rw [this]
      refine ⟨by simp, by simp, ?_⟩
      intro inner hi
      simp at hi; subst hi; simp; omega
  · simp

theorem allOk_ne_panic {rs : List (R Unit)} (h : ∀ r ∈ rs, r ≠ .panic) : allOk rs ≠ .panic := by
  induction rs with
  | nil => simp [allOk]
  | cons r rs ih =>
    have hr := h r (by simp)
    have ih' := ih (fun x hx => h x (by simp [hx]))
    simp only [allOk]
    cases r <;> simp_all

theorem allOk_ne_oof {rs : List (R Unit)} (h : ∀ r ∈ rs, r ≠ .oof) : allOk rs ≠ .oof := by
  induction rs with
  | nil => simp [allOk]
  | cons r rs ih =>
    have hr := h r (by simp)
    have ih' := ih (fun x hx => h x (by simp [hx]))
    simp only [allOk]
    cases r <;> simp_all

theorem splitLogical_parts_shorter' (k : Cls) (op : Char) (clause : Str)
    (h2 : 2 ≤ (splitLogical k op clause).length) : ∀ p ∈ splitLogical k op clause, p.length + 2 ≤ clause.length := by
  rcases splitLogicalGo_strict k op clause [] 0 [] rfl with h | h
  · unfold splitLogical at h2; omega
  · intro p hp; have := h p hp; simpa using this

theorem stripOuter_spec (t : Str) : ∃ clause, stripOuter t = .ok clause ∧ clause.length ≤ t.length := by
  unfold stripOuter
  split
  · rename_i h
    obtain ⟨m, hm⟩ := bracket_shape (by decide) h.1 h.2
    rw [hm, slice_inner '(' ')' m rfl rfl]
    simp only []
    split
    · exact ⟨m, rfl, by simp; omega⟩
    · exact ⟨_, rfl, Nat.le_refl _⟩
  · exact ⟨_, rfl, Nat.le_refl _⟩

/-- what `parse_when_clause` does once the outer parentheses are handled, as a predicate on the result -/
theorem parseWhenF_good (k : Cls) (leaf accum : Str → R Unit)
    (hl : ∀ s, leaf s ≠ .panic ∧ leaf s ≠ .oof) (ha : ∀ s, accum s ≠ .panic ∧ accum s ≠ .oof) :
    ∀ (fuel : Nat) (w : Str), w.length < fuel →
      parseWhenF k leaf accum fuel w ≠ .panic ∧ parseWhenF k leaf accum fuel w ≠ .oof := by
  intro fuel
  induction fuel with
  | zero => intro w h; omega
  | succ n ih =>
    intro w hw
    have ht := length_trim_le k w
    simp only [parseWhenF]
    obtain ⟨clause, hc, hcl⟩ := stripOuter_spec (trim k w)
    rw [hc]
    simp only []
    have hparts : ∀ op, 2 ≤ (splitLogical k op clause).length →
        allOk ((splitLogical k op clause).map (parseWhenF k leaf accum n)) ≠ .panic ∧
        allOk ((splitLogical k op clause).map (parseWhenF k leaf accum n)) ≠ .oof := by
      intro op h2
      have hs := splitLogical_parts_shorter' k op clause h2
      constructor
      · apply allOk_ne_panic
        intro r hr; simp at hr; obtain ⟨p, hp, rfl⟩ := hr
        exact (ih p (by have := hs p hp; omega)).1
      · apply allOk_ne_oof
        intro r hr; simp at hr; obtain ⟨p, hp, rfl⟩ := hr
        exact (ih p (by have := hs p hp; omega)).2
    have hinner : ∀ kw : Str, kw.getLast? = some '(' →
        (match innerOf kw (trimStart k clause) with
          | .ok inner => parseWhenF k leaf accum n inner
          | .err => .err | .panic => .panic | .oof => .oof) ≠ .panic ∧
        (match innerOf kw (trimStart k clause) with
          | .ok inner => parseWhenF k leaf accum n inner
          | .err => .err | .panic => .panic | .oof => .oof) ≠ .oof := by
      intro kw hkw
      obtain ⟨h1, h2, h3⟩ := @innerOf_spec kw (trimStart k clause) hkw
      have hts : (trimStart k clause).length ≤ clause.length := length_dropWhile_le _ _
      cases hi : innerOf kw (trimStart k clause) with
      | ok inner =>
        have := h3 inner hi
        exact ih inner (by omega)
      | err => simp
      | panic => exact absurd hi h1
      | oof => exact absurd hi h2
    split
    · exact hparts '|' ‹_›
    · split
      · exact hparts '&' ‹_›
      · split
        · split
          · exact ih _ (Nat.lt_of_le_of_lt (length_trim_le k _) (by simp at hcl; omega))
          · simp
        · split
          · exact hinner _ (by decide)
          · split
            · exact hinner _ (by decide)
            · split
              · obtain ⟨h1, h2, _⟩ := @innerOf_spec "accumulate(".toList (trimStart k clause) (by decide)
                cases hi : innerOf "accumulate(".toList (trimStart k clause) with
                | ok inner => exact ha inner
                | err => simp
                | panic => exact absurd hi h1
                | oof => exact absurd hi h2
              · exact hl clause

end C05
