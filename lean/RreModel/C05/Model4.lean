import RreModel.C05.Model2
/-
C05 — fourth part of the model: the COST of `evaluate_expression` (src/expression.rs).

"Always terminates" for the evaluator was so far the statement that the recursion DEPTH is at most `chars + 1`
(`evalValue_total`).  Depth says nothing about the NUMBER of calls: a variant that evaluates an operand twice, or that
retries the text at the other precedence level after a failure, has the same depth and exponentially many calls (seconds
at 16 terms, beyond any watchdog at 20).  Here the model is instrumented: the same recursion as `evalValueF`, returning
the value together with the number of calls of `evaluate_expression` made (this one included).  `Theorems4` proves that the
instrumented evaluator computes exactly `evalValueF`'s value and that the count is at most `2 * chars + 1`: each call
splits its text at ONE operator position and evaluates each side ONCE, the two sides and the operator are disjoint parts
of the text.  (As in `evalValueF` the right operand is counted even where `?` on the left operand skips it: an upper bound.)
-/
namespace C05

/-- `evaluate_expression(expr, facts)` with its call count: `(value, calls)` -/
def evalValueC (k : Cls) (facts : Str → Option AV) : Nat → Str → EV × Nat
  | 0, _ => (.oof, 1)
  | fuel + 1, s0 =>
    let s := trim k s0
    match findOperator ['+', '-'] s with
    | some pos =>
      match splitAtOp s pos with
      | none => (.panic, 1)
      | some (l, r) =>
        let a := evalValueC k facts fuel (trim k l)
        let b := evalValueC k facts fuel (trim k r)
        (combineV (opCharAt s pos) a.1 b.1, 1 + a.2 + b.2)
    | none =>
      match findOperator ['*', '/', '%'] s with
      | some pos =>
        match splitAtOp s pos with
        | none => (.panic, 1)
        | some (l, r) =>
          let a := evalValueC k facts fuel (trim k l)
          let b := evalValueC k facts fuel (trim k r)
          (combineV (opCharAt s pos) a.1 b.1, 1 + a.2 + b.2)
      | none => (evalLeafV facts s, 1)

/-- number of calls of `evaluate_expression` made for `evaluate_expression(s, facts)` -/
def evalCalls (k : Cls) (facts : Str → Option AV) (s : Str) : Nat := (evalValueC k facts (s.length + 1) s).2

/-- the variant "a sign is a binary operator only when something evaluates on its left" (seeded change C05-13): when the
left operand of the `+ -` split is an `Err`, the error is dropped and the SAME text is split again at its last `* / %` -
whose left part is again almost the whole text -/
def evalValueFT (k : Cls) (facts : Str → Option AV) : Nat → Str → EV × Nat
  | 0, _ => (.oof, 1)
  | fuel + 1, s0 =>
    let s := trim k s0
    let mul : Option (EV × Nat) :=
      match findOperator ['*', '/', '%'] s with
      | some pos =>
        match splitAtOp s pos with
        | none => some (.panic, 0)
        | some (l, r) =>
          let a := evalValueFT k facts fuel (trim k l)
          let b := evalValueFT k facts fuel (trim k r)
          some (combineV (opCharAt s pos) a.1 b.1, a.2 + b.2)
      | none => none
    let second (c : Nat) : EV × Nat :=
      match mul with
      | some (v, n) => (v, c + n)
      | none => (evalLeafV facts s, c)
    match findOperator ['+', '-'] s with
    | some pos =>
      match splitAtOp s pos with
      | none => (.panic, 1)
      | some (l, r) =>
        let a := evalValueFT k facts fuel (trim k l)
        if a.1 = .err then second (1 + a.2)
        else
          let b := evalValueFT k facts fuel (trim k r)
          (combineV (opCharAt s pos) a.1 b.1, 1 + a.2 + b.2)
    | none => second 1

end C05
