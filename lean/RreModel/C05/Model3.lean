import RreModel.C05.Model2
/-
C05, third part of the executable model:

  W    src/parser/grl.rs `parse_when_clause` AS THE CODE HAS IT NOW: after stripping balanced outer parentheses the
       function calls ITSELF on the inner text (`return self.parse_when_clause(inner)`; `((A && B))`), so nesting of
       parentheses is recursion depth as well (the `parseWhenF` of `Model.lean` strips once and goes on).  One call is
       `whenStep` (what it slices and what it recurses on); `whenFold` is the recursion with the sequential `?` of
       `parse_or_parts` / `parse_and_parts`; `whenDepthF` is the height of the whole call tree; `leafStrip` is the
       outer-parentheses slice at the head of `parse_single_condition`.
  NV   src/backward/nested.rs `Query::variables` / `extract_variables`: the `chars[i]` index loop.
  FA   src/parser/grl.rs `parse_function_args_as_params` / `parse_method_args`: the `split(',')` argument splitting
       and the `parts[0]` / `parts[1]` of `parse_import_spec` (`splitn(2, '(')`).

Conventions as in `Model.lean` / `Model2.lean`.
-/
namespace C05

/-! ## W — `parse_when_clause` -/

inductive WTag where
  | paren | or | and | not | ex | fa
deriving Repr, DecidableEq

/-- what one call of `parse_when_clause` does with its argument -/
inductive WStep where
  | panic                                   -- an invalid slice
  | err                                     -- `Err(..)` without recursion
  | recur (tag : WTag) (subs : List Str)    -- calls itself on each of `subs`, in order, stopping at the first `Err`
  | accum (clause : Str)                    -- `parse_accumulate_condition(clause)` (K9)
  | leaf (clause : Str)                     -- `parse_single_condition(clause)`
deriving Repr, DecidableEq

/-- `parse_exists_condition` / `parse_forall_condition`: test, `&clause[7..clause.len() - 1]`, recursion -/
def quantStep (tag : WTag) (kw : Str) (c : Str) : WStep :=
  match innerOf kw c with
  | .ok inner => .recur tag [inner]
  | .err => .err
  | .panic => .panic
  | .oof => .panic

/-- `parse_when_clause` below the outer-parentheses test -/
def whenBody (k : Cls) (clause : Str) : WStep :=
  let orParts := splitLogical k '|' clause
  if 2 ≤ orParts.length then .recur .or orParts
  else
    let andParts := splitLogical k '&' clause
    if 2 ≤ andParts.length then .recur .and andParts
    else
      let c := trimStart k clause
      if c.head? = some '!' then
        -- parse_not_condition: `clause.strip_prefix('!')` (on the un-trimmed clause), then `.trim()`
        match clause with
        | '!' :: inner => .recur .not [trim k inner]
        | _ => .err
      else if "exists(".toList.isPrefixOf c then quantStep .ex "exists(".toList c
      else if "forall(".toList.isPrefixOf c then quantStep .fa "forall(".toList c
      else if "accumulate(".toList.isPrefixOf c then .accum clause
      else .leaf clause

/-- one call of `parse_when_clause`: `trim`, `&trimmed[1..trimmed.len() - 1]` after `starts_with('(') &&
ends_with(')')`, the balance test, and — when balanced — the recursive call on the inner text -/
def whenStep (k : Cls) (w : Str) : WStep :=
  let t := trim k w
  if t.head? = some '(' ∧ t.getLast? = some ')' then
    match slice t 1 (blen t - 1) with
    | none => .panic
    | some inner => if isBalanced inner then .recur .paren [inner] else whenBody k t
  else whenBody k t

/-- sequential `?`: the first `Err` (or panic) ends the loop, later elements are not evaluated -/
def collectAll {α : Type} : List (R α) → R (List α)
  | [] => .ok []
  | r :: rs =>
    match r with
    | .ok a =>
      (match collectAll rs with
       | .ok as => .ok (a :: as)
       | .err => .err
       | .panic => .panic
       | .oof => .oof)
    | .err => .err
    | .panic => .panic
    | .oof => .oof

def mapR {α β : Type} (f : α → β) : R α → R β
  | .ok a => .ok (f a)
  | .err => .err
  | .panic => .panic
  | .oof => .oof

/-- the recursion of `parse_when_clause` with depth budget `fuel` (`.oof` = budget exceeded): `leaf` / `accum` stand for
`parse_single_condition` / `parse_accumulate_condition`, `node` builds the `ConditionGroup` -/
def whenFold {α : Type} (k : Cls) (leaf accum : Str → R α) (node : WTag → List α → α) : Nat → Str → R α
  | 0, _ => .oof
  | fuel + 1, w =>
    match whenStep k w with
    | .panic => .panic
    | .err => .err
    | .recur tag subs => mapR (node tag) (collectAll (subs.map (whenFold k leaf accum node fuel)))
    | .accum c => accum c
    | .leaf c => leaf c

def maxList : List Nat → Nat
  | [] => 0
  | x :: xs => max x (maxList xs)

/-- height of the whole call tree of `parse_when_clause(w)` (no short cut at an `Err`: an upper bound of the depth any
run reaches), computed with budget `fuel` -/
def whenDepthF (k : Cls) : Nat → Str → Nat
  | 0, _ => 0
  | fuel + 1, w =>
    match whenStep k w with
    | .recur _ subs => 1 + maxList (subs.map (whenDepthF k fuel))
    | _ => 1

/-- the head of `parse_single_condition`: `trimmed_clause[1..trimmed_clause.len() - 1].trim()` after
`starts_with('(') && ends_with(')')` -/
def leafStrip (k : Cls) (clause : Str) : R Str :=
  let t := trim k clause
  if t.head? = some '(' ∧ t.getLast? = some ')' then
    match slice t 1 (blen t - 1) with
    | none => .panic
    | some inner => .ok (trim k inner)
  else .ok t

/-- the shape of the `ConditionGroup` built by `parse_or_parts` / `parse_and_parts` (left fold), `ConditionGroup::not`,
`::exists`, `::forall`; a parenthesised clause is its content -/
def shapeNode : WTag → List String → String
  | .paren, [x] => x
  | .not, [x] => "N(" ++ x ++ ")"
  | .ex, [x] => "E(" ++ x ++ ")"
  | .fa, [x] => "F(" ++ x ++ ")"
  | .or, x :: xs => xs.foldl (fun a b => "O(" ++ a ++ "," ++ b ++ ")") x
  | .and, x :: xs => xs.foldl (fun a b => "A(" ++ a ++ "," ++ b ++ ")") x
  | _, _ => "?"

/-- the tree `parse_when_clause(w)` returns if every leaf parses (`L` = single condition, `C` = accumulate) -/
def whenShape (k : Cls) (w : Str) : R String :=
  whenFold k (fun c => mapR (fun _ => "L") (leafStrip k c)) (fun _ => .ok "C") shapeNode (w.length + 1) w

/-! ## NV — src/backward/nested.rs `extract_variables`, `Query::variables` -/

/-- the inner `while i < chars.len() && (chars[i].is_alphanumeric() || chars[i] == '_')`; `chars[i]` is an indexing
(`none` ↦ `.panic`) -/
def varScan (k : Cls) (cs : Str) : Nat → Nat → Str → R (Nat × Str)
  | 0, _, _ => .oof
  | fuel + 1, i, var =>
    if i < cs.length then
      match cs[i]? with
      | none => .panic
      | some c => if k.alnum c || c == '_' then varScan k cs fuel (i + 1) (var ++ [c]) else .ok (i, var)
    else .ok (i, var)

def pushNew (vars : List Str) (v : Str) : List Str := if vars.contains v then vars else vars ++ [v]

/-- the outer `while i < chars.len()` of `extract_variables` -/
def varsGo (k : Cls) (cs : Str) : Nat → Nat → List Str → R (List Str)
  | 0, _, _ => .oof
  | fuel + 1, i, vars =>
    if i < cs.length then
      match cs[i]? with
      | none => .panic
      | some c =>
        if c == '?' then
          match varScan k cs (cs.length + 1) (i + 1) ['?'] with
          | .ok (j, var) => varsGo k cs fuel j (pushNew vars var)
          | .err => .err
          | .panic => .panic
          | .oof => .oof
        else varsGo k cs fuel (i + 1) vars
    else .ok vars

/-- `Query::extract_variables(pattern)` -/
def extractVars (k : Cls) (s : Str) : R (List Str) := varsGo k s (s.length + 1) 0 []

/-- `Query::variables`: over the goals, without duplicates, in order of first occurrence -/
def varsAll (k : Cls) : List Str → List Str → R (List Str)
  | [], acc => .ok acc
  | g :: gs, acc => bindR (extractVars k g) fun vs => varsAll k gs (vs.foldl pushNew acc)

/-- `NestedQueryParser::parse(s).variables()` -/
def queryVars (k : Cls) (s : Str) : R (List Str) := bindR (nestedParse k s) fun goals => varsAll k goals []

/-! ## FA — argument splitting of actions; `parse_import_spec` -/

/-- `s.split(c)` for a char: `n` occurrences give `n + 1` pieces (empty ones included) -/
def splitCharGo (d : Char) : Str → Str → List Str
  | [], cur => [cur.reverse]
  | c :: cs, cur => if c == d then cur.reverse :: splitCharGo d cs [] else splitCharGo d cs (c :: cur)
def splitChar (s : Str) (d : Char) : List Str := splitCharGo d s []

/-- `parse_function_args_as_params`: `split(',')`, `trim`, `parse_value` on each piece (`?`), keyed by position -/
def funcArgs (k : Cls) (args : Str) : R (List Val) :=
  if (trim k args).isEmpty then .ok []
  else collectAll ((splitChar args ',').map fun p => parseValue k (trim k p))

/-- one argument of `parse_method_args`: text with an arithmetic operator is kept as a string -/
def methodArg (k : Cls) (p : Str) : R Val :=
  let t := trim k p
  if t.contains '+' || t.contains '-' || t.contains '*' || t.contains '/' then .ok (.str t) else parseValue k t

/-- `parse_method_args` -/
def methodArgs (k : Cls) (args : Str) : R (List Val) :=
  if (trim k args).isEmpty then .ok [] else collectAll ((splitChar args ',').map (methodArg k))

/-- `spec.splitn(2, '(')` -/
def splitn2 (s : Str) (d : Char) : List Str :=
  match s.span (· != d) with
  | (a, []) => [a]
  | (a, _ :: b) => [a, b]

/-- `parse_import_spec`: `parts[0].trim()`, `parts[1]` when there is one; returns
`(source module, imports rules, imports templates)`; `parts[0]` is an indexing (`none` ↦ `.panic`) -/
def importSpec (k : Cls) (spec : Str) : R (Str × Bool × Bool) :=
  let parts := splitn2 spec '('
  if parts.isEmpty then .err
  else
    match parts[0]? with
    | none => .panic
    | some p0 =>
      let rest : R Str := if 1 < parts.length then (match parts[1]? with | some r => .ok r | none => .panic) else .ok []
      bindR rest fun r => .ok (trim k p0, containsStr r "rules".toList, containsStr r "templates".toList)

end C05
