import RreModel.C05.Model
/-
C05, second part of the executable model (follow-up work):

  P1–P4  src/parser/grl.rs  `strip_comments`, `mask_string_literals` (after fix-C05j), `unmask`, `clean_text`,
         `prepare` — the text layer every GRL entry point runs first / last;
  K9     `split_accumulate_parts`, `split_pattern_parts`, `parse_accumulate_pattern`,
         `parse_accumulate_function`, `parse_accumulate_condition`;
  K10    `extract_module_from_context`;   K11  the slicing part of `parse_rule_attributes`;
  N      src/parser/grl/stream_syntax.rs — the whole nom grammar, over an abstract `Nom` (the primitive
         combinators of the dependency, with their documented contract `Nom.Sound`) and the reference
         instance `nomRef` the driver predicts with.

Conventions are those of `Model.lean`: `Str = List Char`, byte offsets are `Nat`, every `&s[a..b]` is the partial
`slice*` (`none` ↦ `.panic`), loops that continue on a slice of their input take fuel `chars + 1` and return
`.oof` when it runs out (`*_total`: it never does).  Counters that are `i32` in the code (`paren_depth`) are `Int`s
with an explicit overflow test (`.panic`, as in a build with overflow checks).
-/
namespace C05

/-! ## P1 — `strip_comments` (a one-pass scanner: no slicing, no indexing) -/

/-- the scanner's control state: plain code, inside `'…'`/`"…"` (`quote = Some(q)`), inside the inner loop of a
`//` comment, inside the inner loop of a `/* */` comment (`prev`) -/
inductive CState where
  | code
  | quote (q : Char)
  | line
  | block (prev : Char)
deriving Repr, DecidableEq

/-- `strip_comments`: the `while let Some(ch) = chars.next()` loop with its two inner loops, as one structural
recursion on the remaining chars (every iteration of every loop consumes one char). -/
def stripGo : Str → CState → Str
  | [], .block _ => [' ']                       -- unterminated block comment: the separator is still pushed
  | [], _ => []
  | c :: cs, .quote q => c :: stripGo cs (if c == q || c == '\n' then .code else .quote q)
  | c :: cs, .line => if c == '\n' then c :: stripGo cs .code else stripGo cs .line
  | c :: cs, .block prev => if prev == '*' && c == '/' then ' ' :: stripGo cs .code else stripGo cs (.block c)
  | [c], .code => [c]                                -- a quote, or a `/` with nothing to peek at, is pushed
  | c :: c2 :: cs, .code =>
    if c == '"' || c == '\'' then c :: stripGo (c2 :: cs) (.quote c)
    else if c == '/' && c2 == '/' then stripGo (c2 :: cs) .line     -- the 2nd '/' is skipped by the inner loop
    else if c == '/' && c2 == '*' then stripGo cs (.block ' ')
    else c :: stripGo (c2 :: cs) .code

def stripComments (s : Str) : Str := stripGo s .code

/-! ## P2 — `mask_string_literals` (after fix-C05j: a `MASK_START` of the source is masked as well) -/

def MASK_START : Char := Char.ofNat 1
def MASK_END : Char := Char.ofNat 2

/-- `n.to_string()` for a `usize` -/
def decimal (n : Nat) : Str := Nat.toDigits 10 n

/-- `MASK_START <index> MASK_END` -/
def placeholder (n : Nat) : Str := MASK_START :: (decimal n ++ [MASK_END])

/-- `copy_unmasked` (fix-C05j): text outside complete literals is copied as written, except that a
`MASK_START` already in the source becomes a table entry of its own. Returns `(written text, table)` -/
def copyUnmasked : Str → List Str → Str × List Str
  | [], lits => ([], lits)
  | c :: cs, lits =>
    if c == MASK_START then
      let r := copyUnmasked cs (lits ++ [[c]])
      (placeholder lits.length ++ r.1, r.2)
    else
      let r := copyUnmasked cs lits
      (c :: r.1, r.2)

/-- pre-fix `mask_string_literals` copied such text verbatim (`out.push_str`) -/
def copyVerbatim (s : Str) (lits : List Str) : Str × List Str := (s, lits)

def isQuote (c : Char) : Bool := c == '"' || c == '\''

/-- sequencing on results that carry `(text, table)` : prepend what was already written -/
def prependR (pre : Str) : R (Str × List Str) → R (Str × List Str)
  | .ok (t, l) => .ok (pre ++ t, l)
  | .err => .err
  | .panic => .panic
  | .oof => .oof

/-- the `while let Some(ch) = chars.next()` loop of `mask_string_literals`; `copy` = `copyUnmasked` (fixed code)
or `copyVerbatim` (pre-fix). The slices are `rest[end..]`, `rest[..end]`, `rest[..=end]`, `rest[end + 1..]` with
`end = rest.find(|c| c == ch || c == '\n')`. Returns `(masked text, table)`. -/
def maskGo (copy : Str → List Str → Str × List Str) : Nat → Str → List Str → R (Str × List Str)
  | 0, _, _ => .oof
  | _ + 1, [], lits => .ok ([], lits)
  | fuel + 1, ch :: rest, lits =>
    let h := copy [ch] lits
    if isQuote ch then
      match findCharGo (fun c => c == ch || c == '\n') rest 0 with
      | none =>
        let r := copy rest h.2
        .ok (h.1 ++ r.1, r.2)
      | some e =>
        match sliceFrom rest e, sliceFrom rest (e + 1) with
        | some tailE, some next =>
          if tailE.head? = some ch then
            -- a complete literal `ch body ch`
            if 0 < e then
              match sliceTo rest e with
              | none => .panic
              | some body =>
                prependR (h.1 ++ placeholder h.2.length ++ [ch]) (maskGo copy fuel next (h.2 ++ [body]))
            else prependR (h.1 ++ [ch]) (maskGo copy fuel next h.2)
          else
            -- not closed on its line: `rest[..=end]` is copied
            match sliceTo rest (e + 1) with
            | none => .panic
            | some raw =>
              let r := copy raw h.2
              prependR (h.1 ++ r.1) (maskGo copy fuel next r.2)
        | _, _ => .panic
    else prependR h.1 (maskGo copy fuel rest h.2)

/-- `mask_string_literals` (fixed) -/
def maskLiterals (s : Str) : R (Str × List Str) := maskGo copyUnmasked (s.length + 1) s []
/-- `mask_string_literals` before fix-C05j -/
def maskLiteralsOld (s : Str) : R (Str × List Str) := maskGo copyVerbatim (s.length + 1) s []

/-! ## P3 — `unmask` -/

def usizeMax : Nat := 18446744073709551615

/-- `s.parse::<usize>()` / `::<u64>()` (`core::num::from_str_radix`, 64-bit target): an optional `+`, at least one
ASCII digit, no overflow -/
def parseUsize (s : Str) : Option Nat :=
  let ds := match s with
    | '+' :: t => t
    | t => t
  if ds.isEmpty || !ds.all isDigit then none
  else if digitsVal ds ≤ usizeMax then some (digitsVal ds) else none

/-- the closure of `unmask`: `after.find(MASK_END).and_then(|end| { let index = after[..end].parse::<usize>().ok()?;
Some((self.literals.get(index)?, end)) })`; `.panic` only if `after[..end]` is not a valid slice -/
def unmaskBody (lits : List Str) (after : Str) : R (Option (Str × Nat)) :=
  match findChar after MASK_END with
  | none => .ok none
  | some e =>
    match sliceTo after e with
    | none => .panic
    | some ds =>
      match parseUsize ds with
      | none => .ok none                          -- not a number, or overflow: `.ok()?`
      | some idx =>
        match lits[idx]? with
        | none => .ok none                        -- index beyond the table: `.get(index)?`
        | some b => .ok (some (b, e))

def prependS (pre : Str) : R Str → R Str
  | .ok t => .ok (pre ++ t)
  | .err => .err
  | .panic => .panic
  | .oof => .oof

/-- the `while let Some(start) = rest.find(MASK_START)` loop of `unmask` -/
def unmaskGo (lits : List Str) : Nat → Str → R Str
  | 0, _ => .oof
  | fuel + 1, rest =>
    match findChar rest MASK_START with
    | none => .ok rest
    | some st =>
      match sliceTo rest st, sliceFrom rest (st + MASK_START.utf8Size) with
      | some pre, some after =>
        match unmaskBody lits after with
        | .ok (some (body, e)) =>
          (match sliceFrom after (e + MASK_END.utf8Size) with
           | none => .panic
           | some rest' => prependS (pre ++ body) (unmaskGo lits fuel rest'))
        | .ok none => prependS (pre ++ [MASK_START]) (unmaskGo lits fuel after)
        | .err => .err
        | .panic => .panic
        | .oof => .oof
      | _, _ => .panic

/-- `GRLParser::unmask` with `self.literals = lits` -/
def unmask (lits : List Str) (s : Str) : R Str := unmaskGo lits (s.length + 1) s

/-! ## P4 — `clean_text`, `prepare`, and the text that leaves the parser in the "not a rule" error -/

/-- `str::lines()`: split at `\n`, a `\r` directly before it is dropped; no final empty line -/
def linesGo : Str → Str → List Str
  | [], cur => if cur.isEmpty then [] else [cur.reverse]
  | c :: cs, cur =>
    if c == '\n' then
      (match cur with
       | '\r' :: t => t.reverse
       | _ => cur.reverse) :: linesGo cs []
    else linesGo cs (c :: cur)
def linesOf (s : Str) : List Str := linesGo s []

/-- `clean_text` -/
def cleanText (k : Cls) (s : Str) : Str :=
  [' '].intercalate (((linesOf s).map (trim k)).filter (fun l => !l.isEmpty && !"//".toList.isPrefixOf l))

/-- `prepare`: `mask_string_literals(strip_comments(text))` -/
def prepare (s : Str) : R (Str × List Str) := maskLiterals (stripComments s)
def prepareOld (s : Str) : R (Str × List Str) := maskLiteralsOld (stripComments s)

def bindR {α β : Type} (x : R α) (f : α → R β) : R β :=
  match x with
  | .ok a => f a
  | .err => .err
  | .panic => .panic
  | .oof => .oof

/-- what `parse_rule` shows of a text that does not match the rule regex:
`(cleaned, unmask(cleaned))` — the message is `"Invalid GRL rule format. Input: " + unmask(cleaned)` -/
def notARuleText (k : Cls) (prep : Str → R (Str × List Str)) (s : Str) : R (Str × Str) :=
  bindR (prep s) fun ml =>
    let cleaned := cleanText k ml.1
    bindR (unmask ml.2 cleaned) fun u => .ok (cleaned, u)

/-! ## K9 — accumulate: `split_accumulate_parts`, `split_pattern_parts`, `parse_accumulate_pattern`,
`parse_accumulate_function`, `parse_accumulate_condition` -/

def i32Max : Int := 2147483647
def i32Min : Int := -2147483648

/-- `parts.push(current.trim())` at the end when the trimmed rest is not empty -/
def finishTrimmed (k : Cls) (cur : Str) (acc : List Str) : List Str :=
  (if (trim k cur.reverse).isEmpty then acc else trim k cur.reverse :: acc).reverse

/-- `split_accumulate_parts`: `paren_depth` is an `i32` (`+= 1` / `-= 1` panic on overflow in a checked build) -/
def splitAccGo (k : Cls) : Str → Str → Int → List Str → R (List Str)
  | [], cur, _, acc => .ok (finishTrimmed k cur acc)
  | c :: cs, cur, d, acc =>
    if c == '(' then (if d + 1 > i32Max then .panic else splitAccGo k cs (c :: cur) (d + 1) acc)
    else if c == ')' then (if d - 1 < i32Min then .panic else splitAccGo k cs (c :: cur) (d - 1) acc)
    else if c == ',' && d == 0 then splitAccGo k cs [] d (trim k cur.reverse :: acc)
    else splitAccGo k cs (c :: cur) d acc
def splitAccParts (k : Cls) (s : Str) : R (List Str) := splitAccGo k s [] 0 []

/-- `split_pattern_parts`: the same with quotes (`in_quotes`, `quote_char`) -/
def splitPatGo (k : Cls) : Str → Str → Int → Bool → Char → List Str → R (List Str)
  | [], cur, _, _, _, acc => .ok (finishTrimmed k cur acc)
  | c :: cs, cur, d, inq, qc, acc =>
    if isQuote c && !inq then splitPatGo k cs (c :: cur) d true c acc
    else if isQuote c && inq && c == qc then splitPatGo k cs (c :: cur) d false qc acc
    else if c == '(' && !inq then (if d + 1 > i32Max then .panic else splitPatGo k cs (c :: cur) (d + 1) inq qc acc)
    else if c == ')' && !inq then (if d - 1 < i32Min then .panic else splitPatGo k cs (c :: cur) (d - 1) inq qc acc)
    else if c == ',' && !inq && d == 0 then splitPatGo k cs [] d inq qc (trim k cur.reverse :: acc)
    else splitPatGo k cs (c :: cur) d inq qc acc
def splitPatParts (k : Cls) (s : Str) : R (List Str) := splitPatGo k s [] 0 false ' ' []

/-- `name( … )` : `find('(')`, `&s[..paren_pos]`, `ends_with(')')`, `&s[paren_pos + 1..s.len() - 1]`
(shared shape of `parse_accumulate_pattern` and `parse_accumulate_function`): `(head, inner)` -/
def callShape (s : Str) : R (Str × Str) :=
  match findChar s '(' with
  | none => .err
  | some pp =>
    match sliceTo s pp with
    | none => .panic
    | some head =>
      if s.getLast? = some ')' then
        match slice s (pp + 1) (blen s - 1) with
        | none => .panic
        | some inner => .ok (head, inner)
      else .err

def isCondPart (p : Str) : Bool :=
  containsStr p "==".toList || containsStr p "!=".toList || containsStr p ">=".toList || containsStr p "<=".toList
    || p.contains '>' || p.contains '<'

/-- the `for part in parts` loop of `parse_accumulate_pattern`: `(extract_field, source_conditions)` -/
def accPartsGo (k : Cls) : List Str → Str → List Str → R (Str × List Str)
  | [], ef, conds => .ok (ef, conds.reverse)
  | p0 :: ps, ef, conds =>
    let p := trim k p0
    if p.contains ':' && p.head? == some '$' then
      match findChar p ':' with
      | some cp =>
        (match sliceFrom p (cp + 1) with
         | none => .panic
         | some f => accPartsGo k ps (trim k f) conds)
      | none => accPartsGo k ps ef conds
    else if isCondPart p then accPartsGo k ps ef (p :: conds)
    else accPartsGo k ps ef conds

/-- `parse_accumulate_pattern`: `(source_pattern, extract_field, source_conditions)` -/
def parseAccPattern (k : Cls) (p0 : Str) : R (Str × Str × List Str) :=
  bindR (callShape (trim k p0)) fun hi =>
    bindR (splitPatParts k hi.2) fun parts =>
      bindR (accPartsGo k parts [] []) fun ec => .ok (trim k hi.1, ec.1, ec.2)

/-- `parse_accumulate_function`: `(function_name, function_arg)` -/
def parseAccFunction (k : Cls) (f0 : Str) : R (Str × Str) :=
  bindR (callShape (trim k f0)) fun hi => .ok (trim k hi.1, trim k hi.2)

structure Acc where
  source : Str
  field : Str
  conds : List Str
  func : Str
  arg : Str

def unmaskAll (lits : List Str) : List Str → R (List Str)
  | [] => .ok []
  | s :: ss => bindR (unmask lits s) fun u => bindR (unmaskAll lits ss) fun us => .ok (u :: us)

/-- `parse_accumulate_condition` (the `accumulate(` / `)` test and slice are `innerOf` of `Model.lean`) -/
def parseAccCondition (k : Cls) (lits : List Str) (clause0 : Str) : R Acc :=
  bindR (innerOf "accumulate(".toList (trimStart k clause0)) fun inner =>
    bindR (splitAccParts k inner) fun parts =>
      match parts with
      | [p0, p1] =>
        bindR (parseAccPattern k (trim k p0)) fun pat =>
          bindR (parseAccFunction k (trim k p1)) fun fn =>
            bindR (unmask lits pat.1) fun sp =>
              bindR (unmask lits pat.2.1) fun ef =>
                bindR (unmaskAll lits pat.2.2) fun cs =>
                  bindR (unmask lits fn.1) fun f =>
                    bindR (unmask lits fn.2) fun a => .ok ⟨sp, ef, cs, f, a⟩
      | _ => .err

/-! ## K10 — `extract_module_from_context` -/

/-- `s.rfind(pat)` for a string pattern: byte offset of the last occurrence -/
def rfindStrGo (pat : Str) : Str → Nat → Option Nat → Option Nat
  | [], off, last => if pat.isEmpty then some off else last
  | c :: cs, off, last =>
    rfindStrGo pat cs (off + c.utf8Size) (if pat.isPrefixOf (c :: cs) then some off else last)
def rfindStr (s pat : Str) : Option Nat := rfindStrGo pat s 0 none

def MAIN : Str := "MAIN".toList

/-- `grl_text.find(&format!("rule \"{}\"", rule_name)).or_else(|| grl_text.find(&format!("rule {}", rule_name)))` -/
def rulePos (text name : Str) : Option Nat :=
  match findStr text ("rule \"".toList ++ name ++ ['"']) with
  | some p => some p
  | none => findStr text ("rule ".toList ++ name)

/-- the rest of `extract_module_from_context`, given the position found -/
def extractModuleAt (k : Cls) (text : Str) : Option Nat → R Str
  | none => .ok MAIN
  | some rp =>
    match sliceTo text rp with
    | none => .panic
    | some before =>
      match rfindStr before ";; MODULE:".toList with
      | none => .ok MAIN
      | some mp =>
        match sliceFrom before (mp + 10) with
        | none => .panic
        | some after =>
          match findChar after '\n' with
          | none => .ok MAIN
          | some e =>
            match sliceTo after e with
            | none => .panic
            | some line =>
              let w := (trim k line).takeWhile (fun c => !k.white c)    -- split_whitespace().next()
              .ok (if w.isEmpty then MAIN else w)

/-- `extract_module_from_context(grl_text, rule_name)` -/
def extractModule (k : Cls) (text name : Str) : R Str := extractModuleAt k text (rulePos text name)

/-! ## K11 — `parse_rule_attributes`: the `find("rule") + 4` / first keyword slices.
`removeQuoted` stands for `quoted_regex.replace_all(header, "")` (regex engine: a parameter). -/

def attrKeywords : List Str :=
  ["salience", "no-loop", "lock-on-active", "agenda-group", "activation-group", "date-effective", "date-expires"].map
    String.toList

/-- `.find(k1).or_else(|| .find(k2))…` -/
def firstKeyword (s : Str) : List Str → Option Nat
  | [] => none
  | kw :: kws =>
    match findStr s kw with
    | some p => some p
    | none => firstKeyword s kws

/-- the `attrs_section` on which the boolean attribute regexes are run -/
def attrsSection (removeQuoted : Str → Str) (header : Str) : R Str :=
  let a := removeQuoted header
  match findStr a "rule".toList with
  | none => .ok a
  | some rp =>
    match sliceFrom a (rp + 4) with
    | none => .panic
    | some afterRule =>
      match firstKeyword afterRule attrKeywords with
      | none => .ok a
      | some fk =>
        match sliceFrom afterRule fk with
        | none => .panic
        | some s => .ok s

/-! ## N — src/parser/grl/stream_syntax.rs over the primitive combinators of `nom` -/

/-- The primitive `nom` parsers the grammar uses, on `&str` input.  A result `some (out, rest)` is
`Ok((rest, out))`, `none` is `Err(nom::Err::Error(_))` (the `complete` parsers never return `Incomplete`).
`opt`, `delimited`, tuples and `alt` are sequencing glue and are written out in the definitions below
(`opt(p)`: `Ok((input, None))` when `p` returns `Error`). -/
structure Nom where
  multispace0 : Str → Str × Str
  multispace1 : Str → Option (Str × Str)
  digit1 : Str → Option (Str × Str)
  alpha1 : Str → Option (Str × Str)
  takeWhile1 : (Char → Bool) → Str → Option (Str × Str)
  tag : Str → Str → Option (Str × Str)
  char : Char → Str → Option (Str × Str)

/-- the documented contract: the output is a prefix of the input and the rest is what follows it; the `…1`
parsers and `tag`/`char` of a non-empty pattern consume at least one char when they succeed -/
structure Nom.Sound (N : Nom) : Prop where
  ms0 : ∀ i, (N.multispace0 i).1 ++ (N.multispace0 i).2 = i
  ms1 : ∀ i o r, N.multispace1 i = some (o, r) → o ++ r = i ∧ o ≠ []
  dg1 : ∀ i o r, N.digit1 i = some (o, r) → o ++ r = i ∧ o ≠ []
  al1 : ∀ i o r, N.alpha1 i = some (o, r) → o ++ r = i ∧ o ≠ []
  tw1 : ∀ p i o r, N.takeWhile1 p i = some (o, r) → o ++ r = i ∧ o ≠ []
  tg : ∀ t i o r, N.tag t i = some (o, r) → o ++ r = i ∧ o = t
  ch : ∀ c i o r, N.char c i = some (o, r) → o ++ r = i ∧ o = [c]

def span1 (p : Char → Bool) (i : Str) : Option (Str × Str) :=
  if (i.takeWhile p).isEmpty then none else some (i.takeWhile p, i.dropWhile p)

def nomSpace (c : Char) : Bool := c == ' ' || c == '\t' || c == '\r' || c == '\n'
def asciiAlpha (c : Char) : Bool := ('a' ≤ c && c ≤ 'z') || ('A' ≤ c && c ≤ 'Z')

/-- the combinators as nom 8 documents them (`character::complete`, `bytes::complete`) -/
def nomRef : Nom where
  multispace0 i := (i.takeWhile nomSpace, i.dropWhile nomSpace)
  multispace1 := span1 nomSpace
  digit1 := span1 isDigit
  alpha1 := span1 asciiAlpha
  takeWhile1 := span1
  tag t i := if t.isPrefixOf i then some (t, i.drop t.length) else none
  char c i := match i with
    | d :: r => if d == c then some ([c], r) else none
    | [] => none

def bindP {α β : Type} (x : PR α) (f : α → Str → PR β) : PR β :=
  match x with
  | .ok a r => f a r
  | .err => .err
  | .panic => .panic
  | .oof => .oof

/-- an `Option`-valued primitive as a parser step -/
def liftP {α : Type} (x : Option (α × Str)) : PR α :=
  match x with
  | some (a, r) => .ok a r
  | none => .err

def ws0 (N : Nom) (i : Str) : PR Str := .ok (N.multispace0 i).1 (N.multispace0 i).2

def u64Max : Nat := 18446744073709551615

/-- `parse_duration` (after the `checked_mul` repair 259080b): the duration in milliseconds (`as_millis()`) -/
def parseDuration (N : Nom) (i : Str) : PR Nat :=
  bindP (liftP (N.digit1 i)) fun v i1 =>
  bindP (liftP (N.multispace1 i1)) fun _ i2 =>
  bindP (liftP (N.alpha1 i2)) fun u i3 =>
    match parseUsize v with                        -- `value.parse::<u64>()`, mapped to a nom error
    | none => .err
    | some value =>
      let unit := String.ofList u
      if unit == "ms" || unit == "milliseconds" || unit == "millisecond" then .ok value i3
      else if unit == "sec" || unit == "second" || unit == "seconds" then .ok (value * 1000) i3
      else if unit == "min" || unit == "minute" || unit == "minutes" then
        (if value * 60 ≤ u64Max then .ok (value * 60 * 1000) i3 else .err)        -- checked_mul(60)
      else if unit == "hour" || unit == "hours" then
        (if value * 3600 ≤ u64Max then .ok (value * 3600 * 1000) i3 else .err)    -- checked_mul(3600)
      else .err

/-- pre-fix `parse_duration`: `value * 60` / `value * 3600` on `u64` (F-C05f: panics in a checked build) -/
def parseDurationOld (N : Nom) (i : Str) : PR Nat :=
  bindP (liftP (N.digit1 i)) fun v i1 =>
  bindP (liftP (N.multispace1 i1)) fun _ i2 =>
  bindP (liftP (N.alpha1 i2)) fun u i3 =>
    match parseUsize v with
    | none => .err
    | some value =>
      let unit := String.ofList u
      if unit == "ms" || unit == "milliseconds" || unit == "millisecond" then .ok value i3
      else if unit == "sec" || unit == "second" || unit == "seconds" then .ok (value * 1000) i3
      else if unit == "min" || unit == "minute" || unit == "minutes" then
        (if value * 60 ≤ u64Max then .ok (value * 60 * 1000) i3 else .panic)
      else if unit == "hour" || unit == "hours" then
        (if value * 3600 ≤ u64Max then .ok (value * 3600 * 1000) i3 else .panic)
      else .err

inductive WType where
  | sliding | tumbling
deriving Repr, DecidableEq

/-- `parse_window_type` -/
def parseWindowType (N : Nom) (i : Str) : PR WType :=
  bindP (liftP (N.alpha1 i)) fun t i1 =>
    if String.ofList t == "sliding" then .ok .sliding i1
    else if String.ofList t == "tumbling" then .ok .tumbling i1
    else .err

/-- `parse_window_spec`: `(millis, type)` -/
def parseWindowSpec (N : Nom) (i : Str) : PR (Nat × WType) :=
  bindP (ws0 N i) fun _ i =>
  bindP (liftP (N.tag "over".toList i)) fun _ i =>
  bindP (liftP (N.multispace1 i)) fun _ i =>
  bindP (liftP (N.tag "window".toList i)) fun _ i =>
  bindP (ws0 N i) fun _ i =>
  bindP (liftP (N.char '(' i)) fun _ i =>
  bindP (ws0 N i) fun _ i =>
  bindP (parseDuration N i) fun d i =>
  bindP (ws0 N i) fun _ i =>
  bindP (liftP (N.char ',' i)) fun _ i =>
  bindP (ws0 N i) fun _ i =>
  bindP (parseWindowType N i) fun t i =>
  bindP (ws0 N i) fun _ i =>
  bindP (liftP (N.char ')' i)) fun _ i => .ok (d, t) i

/-- `opt(p)`: an `Error` of `p` becomes `None` on the unchanged input -/
def optP {α : Type} (x : PR α) (i : Str) : PR (Option α) :=
  match x with
  | .ok a r => .ok (some a) r
  | .err => .ok none i
  | .panic => .panic
  | .oof => .oof

/-- `parse_stream_source`: `(stream_name, window)` -/
def parseStreamSource (N : Nom) (i : Str) : PR (Str × Option (Nat × WType)) :=
  bindP (ws0 N i) fun _ i =>
  bindP (liftP (N.tag "from".toList i)) fun _ i =>
  bindP (liftP (N.multispace1 i)) fun _ i =>
  bindP (liftP (N.tag "stream".toList i)) fun _ i =>
  bindP (ws0 N i) fun _ i =>
  -- delimited((char('('), multispace0, char('"')), take_while1(|c| c != '"'), (char('"'), multispace0, char(')')))
  bindP (liftP (N.char '(' i)) fun _ i =>
  bindP (ws0 N i) fun _ i =>
  bindP (liftP (N.char '"' i)) fun _ i =>
  bindP (liftP (N.takeWhile1 (fun c => c != '"') i)) fun name i =>
  bindP (liftP (N.char '"' i)) fun _ i =>
  bindP (ws0 N i) fun _ i =>
  bindP (liftP (N.char ')' i)) fun _ i =>
  bindP (optP (parseWindowSpec N i) i) fun w i => .ok (name, w) i

structure SPat where
  var : Str
  etype : Option Str
  stream : Str
  window : Option (Nat × WType)
deriving Repr, DecidableEq

def identChar (k : Cls) (c : Char) : Bool := k.alnum c || c == '_'

/-- the optional event type of `parse_stream_pattern`: an identifier that is not the keyword `from`; otherwise
nothing is consumed (`checkpoint`) -/
def optEventType (N : Nom) (k : Cls) (i : Str) : PR (Option Str) :=
  match N.takeWhile1 (identChar k) i with
  | some (name, r) => if name != "from".toList then .ok (some name) r else .ok none i
  | none => .ok none i

/-- `parse_stream_pattern` -/
def parseStreamPattern (N : Nom) (k : Cls) (i : Str) : PR SPat :=
  bindP (liftP (N.takeWhile1 (identChar k) i)) fun var i =>
  bindP (ws0 N i) fun _ i =>
  bindP (liftP (N.char ':' i)) fun _ i =>
  bindP (ws0 N i) fun _ i =>
  bindP (optEventType N k i) fun et i =>
  bindP (ws0 N i) fun _ i =>
  bindP (parseStreamSource N i) fun src i => .ok ⟨var, et, src.1, src.2⟩ i

/-- `parse_stream_join_pattern` -/
def parseStreamJoin (N : Nom) (k : Cls) (i : Str) : PR (SPat × SPat) :=
  bindP (parseStreamPattern N k i) fun l i =>
  bindP (ws0 N i) fun _ i =>
  bindP (liftP (N.tag "&&".toList i)) fun _ i =>
  bindP (ws0 N i) fun _ i =>
  bindP (parseStreamPattern N k i) fun r i => .ok (l, r) i

inductive JoinCond where
  | eq (l r : Str)
  | expr (e : Str)
  | temporal (op : String) (l r : Str)
deriving Repr, DecidableEq

/-- `alt((tag("=="), tag("!="), tag("<="), tag(">="), tag("<"), tag(">")))` -/
def altTags (N : Nom) (i : Str) : List String → PR Str
  | [] => .err
  | t :: ts =>
    match N.tag t.toList i with
    | some (o, r) => .ok o r
    | none => altTags N i ts

/-- `parse_join_condition` -/
def parseJoinCondition (N : Nom) (k : Cls) (i : Str) : PR JoinCond :=
  bindP (liftP (N.takeWhile1 (identChar k) i)) fun lv i =>
  bindP (liftP (N.char '.' i)) fun _ i =>
  bindP (liftP (N.takeWhile1 (identChar k) i)) fun lf i =>
  bindP (ws0 N i) fun _ i =>
  bindP (altTags N i ["==", "!=", "<=", ">=", "<", ">"]) fun op i =>
  bindP (ws0 N i) fun _ i =>
  bindP (liftP (N.takeWhile1 (identChar k) i)) fun rv i =>
  bindP (liftP (N.char '.' i)) fun _ i =>
  bindP (liftP (N.takeWhile1 (identChar k) i)) fun rf i =>
    let l := lv ++ ['.'] ++ lf
    let r := rv ++ ['.'] ++ rf
    let timey := containsStr lf "time".toList || containsStr rf "time".toList
    let ops := String.ofList op
    if ops == "==" then .ok (.eq l r) i
    else if ops == ">" then (if timey then .ok (.temporal "after" l r) i else .ok (.expr (l ++ " > ".toList ++ r)) i)
    else if ops == "<" then (if timey then .ok (.temporal "before" l r) i else .ok (.expr (l ++ " < ".toList ++ r)) i)
    else .ok (.expr (l ++ [' '] ++ op ++ [' '] ++ r)) i

/-! ## K1' — src/expression.rs `evaluate_expression` with the control flow of `apply_operator`
(`Model.evalShape` leaves `ok`-or-`err` open at every operator; here the branches of `apply_operator` and
`value_to_number` are followed, so the prediction is `ok` / `err` wherever floating-point values are not needed) -/

/-- what `apply_operator` looks at in a `Value`: a string (exact), a number (`Integer`/`Number`; only whether it
is `0.0` matters, and only for `/`), or any other variant (not convertible to a number) -/
inductive AV where
  | str (s : Str)
  | numv (zero : Option Bool)      -- `none` = not tracked (a computed value, or a literal near the f64 underflow)
  | other
deriving Repr, DecidableEq

inductive EV where
  | ok (v : AV)
  | err
  | fine            -- `Ok` or `Err`, not decided by this model
  | panic
  | oof
deriving Repr, DecidableEq

/-- is the f64 denoted by a literal accepted by `isF64` equal to `0.0`?  `none` = a non-zero mantissa that
could underflow (negative exponent, or no integer digit) — left open -/
def f64Zero (s : Str) : Option Bool :=
  let body := match s with
    | '-' :: t => t
    | '+' :: t => t
    | t => t
  let low := body.map lowerAscii
  if low == "inf".toList || low == "infinity".toList || low == "nan".toList then some false
  else
    let ip := body.takeWhile isDigit
    let r1 := body.dropWhile isDigit
    let fp := match r1 with
      | '.' :: r2 => r2.takeWhile isDigit
      | _ => []
    let ex := match r1 with
      | '.' :: r2 => r2.dropWhile isDigit
      | _ => r1
    if (ip ++ fp).all (· == '0') then some true
    else if ip.any (· != '0') && !ex.contains '-' then some false
    else none

/-- `value_to_number(v).is_ok()` -/
def AV.numeric : AV → Bool
  | .str s => isF64 s
  | .numv _ => true
  | .other => false

/-- `value_to_number(v) == 0.0` where known -/
def AV.zero : AV → Option Bool
  | .str s => f64Zero s
  | .numv z => z
  | .other => none

/-- `apply_operator(left, op, right)`: no operation in it can panic (f64 arithmetic, a saturating `as i64`) -/
def applyOp (op : Char) (l r : AV) : EV :=
  if op == '+' && (!l.numeric || !r.numeric) then
    match l, r with
    | .str a, .str b => .ok (.str (a ++ b))          -- concatenation
    | _, _ => .err
  else if !l.numeric then .err                       -- `left_num?`
  else if !r.numeric then .err                       -- `right_num?`
  else if op == '/' then
    match r.zero with
    | some true => .err                              -- "Division by zero"
    | some false => .ok (.numv none)
    | none => .fine
  else .ok (.numv none)                              -- `+ - * %` on f64 (`% 0.0` is NaN, a value)

def combineV (op : Char) (l r : EV) : EV :=
  match l with
  | .panic => .panic
  | .oof => .oof
  | .err => .err                                     -- `?` on the left operand: the right one is not evaluated
  | .ok lv => (match r with
    | .panic => .panic | .oof => .oof | .err => .err | .fine => .fine
    | .ok rv => applyOp op lv rv)
  | .fine => (match r with
    | .panic => .panic | .oof => .oof | _ => .fine)

/-- leaf of `evaluate_expression`: string literal, i64, f64, else a lookup in the facts
(`facts.get(expr).or_else(|| facts.get_nested(expr))`, a parameter) -/
def evalLeafV (facts : Str → Option AV) (s : Str) : EV :=
  match unquote s '"' with
  | none => .panic
  | some (some u) => .ok (.str u)
  | some none =>
    match unquote s '\'' with
    | none => .panic
    | some (some u) => .ok (.str u)
    | some none =>
      match parseI64 s with
      | some i => .ok (.numv (some (i == 0)))
      | none =>
        if isF64 s then .ok (.numv (f64Zero s))
        else match facts s with
          | some v => .ok v
          | none => .err

/-- the operator char at byte offset `pos` (`&expr[pos..pos + 1]`) -/
def opCharAt (s : Str) (pos : Nat) : Char :=
  match slice s pos (pos + 1) with
  | some [c] => c
  | _ => ' '

def evalValueF (k : Cls) (facts : Str → Option AV) : Nat → Str → EV
  | 0, _ => .oof
  | fuel + 1, s0 =>
    let s := trim k s0
    match findOperator ['+', '-'] s with
    | some pos =>
      match splitAtOp s pos with
      | none => .panic
      | some (l, r) =>
        combineV (opCharAt s pos) (evalValueF k facts fuel (trim k l)) (evalValueF k facts fuel (trim k r))
    | none =>
      match findOperator ['*', '/', '%'] s with
      | some pos =>
        match splitAtOp s pos with
        | none => .panic
        | some (l, r) =>
          combineV (opCharAt s pos) (evalValueF k facts fuel (trim k l)) (evalValueF k facts fuel (trim k r))
      | none => evalLeafV facts s

/-- `evaluate_expression(expr, facts)` -/
def evalValue (k : Cls) (facts : Str → Option AV) (s : Str) : EV := evalValueF k facts (s.length + 1) s

/-! ## P9 — the `SetWorkflowData("key=value")` / `set_workflow_data(..)` branch of `parse_action_statement`
The one place where text is unmasked TWICE: the argument is unmasked, cut at its first `=` (two byte slices), the key is
trimmed, and the value part — now ORDINARY text, in which the bytes of a literal body may look like a placeholder — goes through
`parse_value`, which unmasks the strings it returns again. So `unmask` meets placeholder indices that the masker never wrote. -/

/-- `str::trim_matches('"')` -/
def trimMatchesQuote (s : Str) : Str := ((s.dropWhile (· == '"')).reverse.dropWhile (· == '"')).reverse

/-- `data_str = unmask(args.trim())`, `data_str.find('=')`, `data_str[..eq].trim().trim_matches('"')`, `data_str[eq + 1..].trim()`:
`(key, value text)`; `.err` = no `=` -/
def wfDataSplit (k : Cls) (lits : List Str) (args : Str) : R (Str × Str) :=
  bindR (unmask lits (trim k args)) fun data =>
    match findChar data '=' with
    | none => .err
    | some p =>
      match sliceTo data p, sliceFrom data (p + 1) with
      | some kx, some vx => .ok (trimMatchesQuote (trim k kx), trim k vx)
      | _, _ => .panic

/-- the second unmask, as `parse_value` applies it to the strings it returns: `self.unmask(..)` on the unquoted literal / the
expression text (one level: arrays inside a workflow value are unmasked element-wise by the driver) -/
def unmaskLeaf (lits : List Str) : Val → R Val
  | .str x => bindR (unmask lits x) fun y => .ok (.str y)
  | .expr x => bindR (unmask lits x) fun y => .ok (.expr y)
  | v => .ok v

/-- the whole branch: `(key, value)` of `ActionType::SetWorkflowData` -/
def wfData (k : Cls) (lits : List Str) (args : Str) : R (Str × Val) :=
  bindR (wfDataSplit k lits args) fun kv =>
    bindR (parseValue k kv.2) fun v =>
      bindR (unmaskLeaf lits v) fun v' => .ok (kv.1, v')

/-- projection used by examples (`Val` has no decidable equality): key and string value -/
def wfStr : R (Str × Val) → Option (Str × Str)
  | .ok (key, .str v) => some (key, v)
  | _ => none

/-- `unmask` with the table indexed DIRECTLY (`&self.literals[index]` instead of `self.literals.get(index)?`): sound only if every
`MASK_START` of the text was written by the masker — refuted on the second unmask by `wfDataDirect_counterexample` -/
def unmaskBodyDirect (lits : List Str) (after : Str) : R (Option (Str × Nat)) :=
  match findChar after MASK_END with
  | none => .ok none
  | some e =>
    match sliceTo after e with
    | none => .panic
    | some ds =>
      match parseUsize ds with
      | none => .ok none
      | some idx =>
        match lits[idx]? with
        | none => .panic                          -- index out of bounds
        | some b => .ok (some (b, e))

def unmaskDirectGo (lits : List Str) : Nat → Str → R Str
  | 0, _ => .oof
  | fuel + 1, rest =>
    match findChar rest MASK_START with
    | none => .ok rest
    | some st =>
      match sliceTo rest st, sliceFrom rest (st + MASK_START.utf8Size) with
      | some pre, some after =>
        match unmaskBodyDirect lits after with
        | .ok (some (body, e)) =>
          (match sliceFrom after (e + MASK_END.utf8Size) with
           | none => .panic
           | some rest' => prependS (pre ++ body) (unmaskDirectGo lits fuel rest'))
        | .ok none => prependS (pre ++ [MASK_START]) (unmaskDirectGo lits fuel after)
        | .err => .err
        | .panic => .panic
        | .oof => .oof
      | _, _ => .panic

def unmaskDirect (lits : List Str) (s : Str) : R Str := unmaskDirectGo lits (s.length + 1) s

/-- the value part of the branch with the direct-index `unmask` (first and second unmask) -/
def wfValueDirect (lits : List Str) (args : Str) : R Str :=
  bindR (unmaskDirect lits args) fun data =>
    match findChar data '=' with
    | none => .err
    | some p =>
      match sliceFrom data (p + 1) with
      | some vx => unmaskDirect lits vx
      | none => .panic

end C05
