import RreModel.C17.Model
/-
C17 — the property, stated over the **history of operations only** (no graph, no index, no
reverse edges). Histories are lists of `Op` with the NEWEST operation FIRST (`op :: H` = "`H`
happened, then `op`"), so that "the history so far" is a tail.

Part 1 is the declarative definition (inductive `Dead`, `Proven`, `WellFormed`).
Part 2 is an executable reference (`deadSet` by naive fixpoint iteration, `provenB`, `wfB`,
`specObs`) — the runtime oracle. `Theorems.lean` proves Part 2 = Part 1 and model = Part 1.
-/
namespace C17

/-! ## Part 1 — declarative -/

/-- premises of the justifications inserted for handle `h` so far (newest first) -/
def justsFor : List Op → Nat → List (List Nat)
  | [], _ => []
  | .ins h' _ ps :: H, h => if h' = h then ps :: justsFor H h else justsFor H h
  | .inv _ :: H, h => justsFor H h

/-- `Dead H p`: after history `H` handle `p` has been invalidated —
* `direct`: by `invalidate_handle(p)`;
* `lost`: it is a cached proof (has been inserted) and *every* justification inserted for it so
  far has a dead premise (`w` picks one per justification);
* `older`: it was already dead earlier — dead handles stay dead ("handles are never reused").
Being inductive, this is the least such set: a cycle of proofs does not kill itself. -/
inductive Dead : List Op → Nat → Prop
  | direct (H : List Op) (p : Nat) : Dead (.inv p :: H) p
  | older (op : Op) (H : List Op) (p : Nat) : Dead H p → Dead (op :: H) p
  | lost (H : List Op) (h : Nat) (w : List Nat → Nat) :
      justsFor H h ≠ [] → (∀ P ∈ justsFor H h, w P ∈ P) → (∀ P ∈ justsFor H h, Dead H (w P)) → Dead H h

/-- a justification is live iff none of its premises is dead -/
def LiveJ (H : List Op) (P : List Nat) : Prop := ∀ q ∈ P, ¬ Dead H q

/-- `h` was invalidated directly and not inserted again since -/
def dirInv : List Op → Nat → Bool
  | [], _ => false
  | .inv p :: H, h => p == h || dirInv H h
  | .ins h' _ _ :: H, h => if h' = h then false else dirInv H h

/-- the cached proof `h` must be reported valid -/
def Proven (H : List Op) (h : Nat) : Prop := (∃ P ∈ justsFor H h, LiveJ H P) ∧ dirInv H h = false

def InsertedUnder (H : List Op) (k h : Nat) : Prop := ∃ ps, Op.ins h k ps ∈ H

/-- the key `k` must be reported proven -/
def ProvenKey (H : List Op) (k : Nat) : Prop := ∃ h, InsertedUnder H k h ∧ Proven H h

/-- the property's restriction: no handle that is dead is used as a premise of a later insertion -/
def WellFormed : List Op → Prop
  | [] => True
  | .ins _ _ ps :: H => LiveJ H ps ∧ WellFormed H
  | .inv _ :: H => WellFormed H

/-! ## Part 2 — executable reference (the oracle) -/

/-- every justification inserted so far as `(conclusion, premises)` -/
def allJusts : List Op → List (Nat × List Nat)
  | [] => []
  | .ins h _ ps :: H => (h, ps) :: allJusts H
  | .inv _ :: H => allJusts H

/-- every justification for `h` in `J` has a premise in `D` -/
def lostAll (J : List (Nat × List Nat)) (D : List Nat) (h : Nat) : Bool :=
  J.all (fun j => j.1 != h || j.2.any (fun q => D.contains q))

/-- the cached proofs that are not yet in `D` but have lost all their justifications w.r.t. `D` -/
def newDead (J : List (Nat × List Nat)) (D : List Nat) : List Nat :=
  (J.map (·.1)).filter (fun h => !D.contains h && lostAll J D h)

/-- naive fixpoint iteration, at most `n` rounds -/
def closeN (J : List (Nat × List Nat)) : Nat → List Nat → List Nat
  | 0, D => D
  | n + 1, D => if newDead J D = [] then D else closeN J n (D ++ newDead J D)

def directOf : Op → List Nat
  | .inv p => [p]
  | .ins _ _ _ => []

/-- the dead handles after `H` -/
def deadSet : List Op → List Nat
  | [] => []
  | op :: H => closeN (allJusts (op :: H)) (allJusts (op :: H)).length (directOf op ++ deadSet H)

def liveJB (D : List Nat) (P : List Nat) : Bool := P.all (fun q => !D.contains q)

def provenWith (D : List Nat) (H : List Op) (h : Nat) : Bool :=
  (justsFor H h).any (liveJB D) && !dirInv H h

def provenB (H : List Op) (h : Nat) : Bool := provenWith (deadSet H) H h

/-- handles inserted under key `k` (with repetitions) -/
def handlesUnder : List Op → Nat → List Nat
  | [], _ => []
  | .ins h k' _ :: H, k => if k' = k then h :: handlesUnder H k else handlesUnder H k
  | .inv _ :: H, k => handlesUnder H k

def wfB : List Op → Bool
  | [] => true
  | .ins _ _ ps :: H => liveJB (deadSet H) ps && wfB H
  | .inv _ :: H => wfB H

/-- API-level observation after an operation, over a handle universe `U` and key universe `K` -/
structure Obs where
  valid : List (Option Bool)     -- per handle: `get_node(h).map(|n| n.valid)`
  proven : List Bool             -- per key: `is_proven(k)`
  look : List (List Bool)        -- per key, per handle: does `lookup_by_key(k)` return the node of `h`
deriving Repr, DecidableEq

/-- what the model shows -/
def obsOf (s : St) (U K : List Nat) : Obs :=
  { valid := U.map (nodeValid s),
    proven := K.map (isProven s),
    look := K.map (fun k => U.map (fun h => (lookup s k).contains h)) }

/-- what the property prescribes, from the history alone -/
def specObs (H : List Op) (U K : List Nat) : Obs :=
  let D := deadSet H
  { valid := U.map (fun h => if (justsFor H h).isEmpty then none else some (provenWith D H h)),
    proven := K.map (fun k => (handlesUnder H k).any (provenWith D H)),
    look := K.map (fun k => U.map (fun h => (handlesUnder H k).contains h && provenWith D H h)) }

/-- observations after every operation, newest first -/
def specTrace (U K : List Nat) : List Op → List Obs
  | [] => []
  | op :: H => specObs (op :: H) U K :: specTrace U K H

def modelTrace (ord : List Nat → List Nat) (U K : List Nat) : List Op → List Obs
  | [] => []
  | op :: H => obsOf (runH ord (op :: H)) U K :: modelTrace ord U K H

end C17
