/-
C17 — model of `src/backward/proof_graph.rs` (`ProofGraph`), after fix-C17 (every hop of the
invalidation uses the global reverse index `dependencies`).

Handles (`FactHandle`) and keys (`FactKey`) are `Nat`. The three hash maps are lists:
  nodes_by_handle  ↦ `St.nodes`  (one `Node` per handle, found by `getNode`)
  index_by_key     ↦ `St.index`  (`(key, handle)` pairs in push order — the code pushes on every insert)
  dependencies     ↦ `St.deps`   (`(premise, dependent)` pairs, no duplicates: a `HashSet` per premise)
The order in which the code walks a `HashSet` of dependents is not determined; every function
that iterates takes the enumeration `ord` as a parameter and the theorems hold for every `ord`
that keeps the members.
-/
namespace C17

inductive Op where
  /-- `insert_proof(handle, key, _, premises, _)` -/
  | ins (h k : Nat) (ps : List Nat)
  /-- `invalidate_handle(handle)` -/
  | inv (h : Nat)
deriving Repr, DecidableEq

/-- `ProofGraphNode` (the fields that influence behaviour) -/
structure Node where
  handle : Nat
  key : Nat
  justs : List (List Nat)      -- `justifications[i].premises`, oldest first
  dependents : List Nat        -- per-node `dependents` (written by `insert_proof`; not read after the fix)
  valid : Bool
deriving Repr, DecidableEq

structure St where
  nodes : List Node := []
  index : List (Nat × Nat) := []
  deps : List (Nat × Nat) := []
deriving Repr, DecidableEq

def init : St := {}

/-- `nodes_by_handle.get(h)` -/
def getNode (s : St) (h : Nat) : Option Node := s.nodes.find? (fun n => n.handle == h)

theorem getNode_handle {s : St} {h : Nat} {n : Node} (hn : getNode s h = some n) : n.handle = h := by
  unfold getNode at hn
  have := List.find?_some hn
  simpa using this

theorem getNode_mem {s : St} {h : Nat} {n : Node} (hn : getNode s h = some n) : n ∈ s.nodes := by
  unfold getNode at hn; exact List.mem_of_find?_eq_some hn

/-- `nodes_by_handle.get_mut(h)` followed by an in-place update -/
def mapNode (s : St) (h : Nat) (f : Node → Node) : St :=
  { s with nodes := s.nodes.map (fun n => if n.handle == h then f n else n) }

/-- `dependencies.get(p)` as a list -/
def depsOf (s : St) (p : Nat) : List Nat := (s.deps.filter (fun e => e.1 == p)).map (·.2)

/-- `index_by_key.get(k)` -/
def keyHandles (s : St) (k : Nat) : List Nat := (s.index.filter (fun e => e.1 == k)).map (·.2)

def insertSet (l : List Nat) (x : Nat) : List Nat := if l.contains x then l else l ++ [x]

/-- `ProofGraphNode::add_justification` -/
def addJust (ps : List Nat) (n : Node) : Node := { n with justs := n.justs ++ [ps], valid := true }

/-- `entry(handle).or_insert_with(ProofGraphNode::new(key))`: the key of an existing node is kept -/
def ensureNode (s : St) (h k : Nat) : St :=
  match getNode s h with
  | some _ => s
  | none => { s with nodes := s.nodes ++ [{ handle := h, key := k, justs := [], dependents := [], valid := true }] }

/-- `dependencies.entry(p).or_default().insert(h)` for every premise -/
def addDeps (d : List (Nat × Nat)) (h : Nat) (ps : List Nat) : List (Nat × Nat) :=
  ps.foldl (fun d p => if d.contains (p, h) then d else d ++ [(p, h)]) d

/-- "also update the premise node's dependents" — only premises that are nodes *now* -/
def markDependents (s : St) (h : Nat) (ps : List Nat) : St :=
  { s with nodes := s.nodes.map (fun n =>
      if ps.contains n.handle then { n with dependents := insertSet n.dependents h } else n) }

/-- `ProofGraph::insert_proof` -/
def insertProof (s : St) (h k : Nat) (ps : List Nat) : St :=
  let s1 := mapNode (ensureNode s h k) h (addJust ps)
  let s2 := { s1 with index := s1.index ++ [(k, h)], deps := addDeps s1.deps h ps }
  markDependents s2 h ps

/-- `ProofGraphNode::remove_justifications_with_premise` (the node part) -/
def removePrem (prem : Nat) (n : Node) : Node :=
  { n with justs := n.justs.filter (fun j => !j.contains prem),
           valid := if (n.justs.filter (fun j => !j.contains prem)).isEmpty then false else n.valid }

/-- body of `propagate_invalidation(dep, prem)` without the recursive calls: the new graph and
whether the code goes on to the dependents of `dep` (`changed && !node.valid`) -/
def applyOne (s : St) (dep prem : Nat) : St × Bool :=
  match getNode s dep with
  | none => (s, false)
  | some n =>
    (mapNode s dep (removePrem prem),
     ((removePrem prem n).justs.length != n.justs.length) && !(removePrem prem n).valid)

/-- number of stored justifications: the quantity every recursive descent decreases -/
def totalJusts (s : St) : Nat := (s.nodes.map (fun n => n.justs.length)).sum

theorem sum_map_le (l : List Node) (g : Node → Node)
    (hle : ∀ m, (g m).justs.length ≤ m.justs.length) :
    ((l.map g).map (fun n => n.justs.length)).sum ≤ (l.map (fun n => n.justs.length)).sum := by
  induction l with
  | nil => simp
  | cons a l ih => have := hle a; simp only [List.map_cons, List.sum_cons]; omega

theorem sum_map_lt (l : List Node) (g : Node → Node)
    (hle : ∀ m, (g m).justs.length ≤ m.justs.length)
    (hex : ∃ n ∈ l, (g n).justs.length < n.justs.length) :
    ((l.map g).map (fun n => n.justs.length)).sum < (l.map (fun n => n.justs.length)).sum := by
  induction l with
  | nil => obtain ⟨_, h, _⟩ := hex; cases h
  | cons a l ih =>
    have h1 := hle a
    have h2 := sum_map_le l g hle
    obtain ⟨n, hn, hlt⟩ := hex
    simp only [List.map_cons, List.sum_cons]
    rcases List.mem_cons.mp hn with rfl | hn'
    · omega
    · have := ih ⟨n, hn', hlt⟩; omega

theorem removePrem_le (prem : Nat) (m : Node) : (removePrem prem m).justs.length ≤ m.justs.length := by
  simp only [removePrem]; exact List.length_filter_le _ _

theorem applyOne_le (s : St) (dep prem : Nat) : totalJusts (applyOne s dep prem).1 ≤ totalJusts s := by
  unfold applyOne
  split
  · exact Nat.le_refl _
  · simp only [totalJusts, mapNode]
    apply sum_map_le
    intro m; split
    · exact removePrem_le prem m
    · exact Nat.le_refl _

/-- a descent removes at least one stored justification -/
theorem applyOne_lt (s : St) (dep prem : Nat) (h : (applyOne s dep prem).2 = true) :
    totalJusts (applyOne s dep prem).1 < totalJusts s := by
  unfold applyOne at h ⊢
  split
  · rename_i hn; rw [hn] at h; simp at h
  · rename_i n hn
    rw [hn] at h
    simp only [Bool.and_eq_true, bne_iff_ne, ne_eq] at h
    simp only [totalJusts, mapNode]
    apply sum_map_lt
    · intro m; split
      · exact removePrem_le prem m
      · exact Nat.le_refl _
    · have hmem : n ∈ s.nodes := getNode_mem hn
      have hh : (n.handle == dep) = true := by simp [getNode_handle hn]
      refine ⟨n, hmem, ?_⟩
      rw [if_pos hh]
      have := removePrem_le prem n
      omega

/-- `propagate_invalidation`, as the explicit-stack machine that performs the recursive calls of
the code in the code's order: pop `(dep, prem)`, remove from `dep` every justification that
mentions `prem`; if something was removed and `dep` is not valid, the pairs `(d, dep)` for the
dependents `d` of `dep` (global index, in the order `ord`) are processed *before* the rest.
Well-founded on (stored justifications, stack length): the code's own termination argument. -/
def loop (ord : List Nat → List Nat) (s : St) (stack : List (Nat × Nat)) : St :=
  match stack with
  | [] => s
  | e :: rest =>
    if _h : (applyOne s e.1 e.2).2 = true then
      loop ord (applyOne s e.1 e.2).1 ((ord (depsOf s e.1)).map (fun d => (d, e.1)) ++ rest)
    else
      loop ord (applyOne s e.1 e.2).1 rest
termination_by (totalJusts s, stack.length)
decreasing_by
  · exact Prod.Lex.left _ _ (applyOne_lt s e.1 e.2 _h)
  · rcases Nat.lt_or_eq_of_le (applyOne_le s e.1 e.2) with hlt | heq
    · exact Prod.Lex.left _ _ hlt
    · rw [heq]; exact Prod.Lex.right _ (by simp)

/-- `ProofGraph::invalidate_handle` -/
def invalidate (ord : List Nat → List Nat) (s : St) (p : Nat) : St :=
  loop ord (mapNode s p (fun n => { n with valid := false })) ((ord (depsOf s p)).map (fun d => (d, p)))

def step (ord : List Nat → List Nat) (s : St) : Op → St
  | .ins h k ps => insertProof s h k ps
  | .inv p => invalidate ord s p

/-- the graph after a history given **newest operation first** -/
def runH (ord : List Nat → List Nat) : List Op → St
  | [] => init
  | op :: H => step ord (runH ord H) op

/-- the graph after the operations `ops` in chronological order -/
def run (ord : List Nat → List Nat) (ops : List Op) : St := ops.foldl (step ord) init

/-- `get_node(h).map(|n| n.valid)` -/
def nodeValid (s : St) (h : Nat) : Option Bool := (getNode s h).map (·.valid)

def validB (s : St) (h : Nat) : Bool := (getNode s h).any (·.valid)

/-- `lookup_by_key(k)`: handles of the nodes returned (index order, with repetitions) -/
def lookup (s : St) (k : Nat) : List Nat := (keyHandles s k).filter (validB s)

/-- `is_proven(k)` -/
def isProven (s : St) (k : Nat) : Bool := !(lookup s k).isEmpty

/-! ### The same machine with a step counter (structural recursion: evaluable by `decide`), and the
pre-fix variant whose later hops read the per-node `dependents` (`legacy := true`). -/

def nextHops (legacy : Bool) (s : St) (dep : Nat) : List Nat :=
  if legacy then (match getNode s dep with | some n => n.dependents | none => []) else depsOf s dep

def loopF (legacy : Bool) (ord : List Nat → List Nat) : Nat → St → List (Nat × Nat) → Option St
  | _, s, [] => some s
  | 0, _, _ :: _ => none
  | n + 1, s, e :: rest =>
    if (applyOne s e.1 e.2).2 = true then
      loopF legacy ord n (applyOne s e.1 e.2).1 ((ord (nextHops legacy s e.1)).map (fun d => (d, e.1)) ++ rest)
    else
      loopF legacy ord n (applyOne s e.1 e.2).1 rest

def invalidateF (legacy : Bool) (ord : List Nat → List Nat) (fuel : Nat) (s : St) (p : Nat) : Option St :=
  loopF legacy ord fuel (mapNode s p (fun n => { n with valid := false })) ((ord (depsOf s p)).map (fun d => (d, p)))

def stepF (legacy : Bool) (ord : List Nat → List Nat) (fuel : Nat) (s : St) : Op → Option St
  | .ins h k ps => some (insertProof s h k ps)
  | .inv p => invalidateF legacy ord fuel s p

def runF (legacy : Bool) (ord : List Nat → List Nat) (fuel : Nat) (ops : List Op) : Option St :=
  ops.foldlM (stepF legacy ord fuel) init

end C17
