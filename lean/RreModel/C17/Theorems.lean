import RreModel.C17.Lemmas
/-
C17 — property theorems (only). "Cached proofs are valid exactly while a justification survives."

Every statement quantifies over **all** finite histories of `insert_proof` / `invalidate_handle`
(any length, any handles, keys, premise lists, any insertion order, cycles included) that are
well-formed in the property's sense (no dead handle is used as a premise of a later insertion),
and over **every** order `ord` in which the sets of dependents may be walked (`hord`: `ord` keeps
the members). `H` is a history with the newest operation first; `ops` is chronological.
The specification (`Dead`, `Proven`, `ProvenKey`, `WellFormed` in Spec.lean) mentions the
history only — no graph.
-/
namespace C17

theorem runH_eq_foldl (ord : List Nat → List Nat) : ∀ H : List Op, runH ord H = H.reverse.foldl (step ord) init
  | [] => rfl
  | op :: H => by simp [runH, runH_eq_foldl ord H, List.foldl_append]

/-- chronological and newest-first presentations of the model run agree -/
theorem run_eq_runH (ord : List Nat → List Nat) (ops : List Op) : run ord ops = runH ord ops.reverse := by
  rw [runH_eq_foldl, List.reverse_reverse]; rfl

/-- `get_node(h)` is `Some` exactly for the handles that have been inserted. -/
theorem node_exists_iff_inserted (ord : List Nat → List Nat) (hord : ∀ l x, x ∈ ord l ↔ x ∈ l)
    (H : List Op) (hwf : WellFormed H) (h : Nat) :
    (getNode (runH ord H) h).isSome = true ↔ justsFor H h ≠ [] := by
  have hi := runH_inv ord hord H hwf
  cases hn : getNode (runH ord H) h with
  | none => have := (hi.node_iff h).mp hn; simp [this]
  | some n =>
    have : justsFor H h ≠ [] := by
      intro e; have := (hi.node_iff h).mpr e; rw [hn] at this; cases this
    simp [this]

/-- **`get_node(h).valid` is true exactly when the specification says `h` is proven**:
some justification inserted for `h` has no dead premise, and `h` was not invalidated directly since
its most recent insertion. -/
theorem node_valid_iff_spec (ord : List Nat → List Nat) (hord : ∀ l x, x ∈ ord l ↔ x ∈ l)
    (H : List Op) (hwf : WellFormed H) (h : Nat) :
    nodeValid (runH ord H) h = some true ↔ Proven H h := by
  have hi := runH_inv ord hord H hwf
  unfold nodeValid Proven
  constructor
  · intro hv
    cases hn : getNode (runH ord H) h with
    | none => rw [hn] at hv; cases hv
    | some n =>
      rw [hn] at hv
      have hval : n.valid = true := by simpa using hv
      obtain ⟨hne, hd⟩ := (hi.valid_iff h n hn).mp hval
      cases hj : n.justs with
      | nil => exact absurd hj hne
      | cons P tl =>
        have hP := (hi.justs_iff h n hn P).mp (by rw [hj]; exact List.mem_cons_self ..)
        exact ⟨⟨P, hP.1, hP.2⟩, hd⟩
  · rintro ⟨⟨P, hP, hl⟩, hd⟩
    cases hn : getNode (runH ord H) h with
    | none =>
      have := (hi.node_iff h).mp hn
      rw [this] at hP; cases hP
    | some n =>
      have hin := (hi.justs_iff h n hn P).mpr ⟨hP, hl⟩
      have hne : n.justs ≠ [] := by intro e; rw [e] at hin; cases hin
      have := (hi.valid_iff h n hn).mpr ⟨hne, hd⟩
      simp [this]

theorem validB_iff (ord : List Nat → List Nat) (hord : ∀ l x, x ∈ ord l ↔ x ∈ l)
    (H : List Op) (hwf : WellFormed H) (h : Nat) : validB (runH ord H) h = true ↔ Proven H h := by
  rw [← node_valid_iff_spec ord hord H hwf h]
  unfold validB nodeValid
  cases getNode (runH ord H) h <;> simp

/-- `lookup_by_key(k)` returns the node of `h` exactly when `h` was inserted under `k` and is proven. -/
theorem lookup_iff_spec (ord : List Nat → List Nat) (hord : ∀ l x, x ∈ ord l ↔ x ∈ l)
    (H : List Op) (hwf : WellFormed H) (k h : Nat) :
    h ∈ lookup (runH ord H) k ↔ (InsertedUnder H k h ∧ Proven H h) := by
  have hi := runH_inv ord hord H hwf
  unfold lookup
  rw [List.mem_filter, mem_keyHandles, hi.index_ok, validB_iff ord hord H hwf]

/-- **Main theorem (newest-first form).** `is_proven(k)` holds exactly when some cached proof
inserted under `k` has a justification none of whose premises is dead — invalidated directly or
through cached proofs that lost all their justifications — and was not itself invalidated since. -/
theorem is_proven_iff_specH (ord : List Nat → List Nat) (hord : ∀ l x, x ∈ ord l ↔ x ∈ l)
    (H : List Op) (hwf : WellFormed H) (k : Nat) :
    isProven (runH ord H) k = true ↔ ProvenKey H k := by
  unfold isProven ProvenKey
  constructor
  · intro hp
    cases hl : lookup (runH ord H) k with
    | nil => rw [hl] at hp; simp at hp
    | cons h tl =>
      have : h ∈ lookup (runH ord H) k := by rw [hl]; exact List.mem_cons_self ..
      exact ⟨h, (lookup_iff_spec ord hord H hwf k h).mp this⟩
  · rintro ⟨h, hh⟩
    have := (lookup_iff_spec ord hord H hwf k h).mpr hh
    cases hl : lookup (runH ord H) k with
    | nil => rw [hl] at this; cases this
    | cons _ _ => rfl

/-- **Main theorem (chronological form)**: after any well-formed sequence `ops` of insertions and
invalidations, whatever the insertion order and whatever the order in which dependents are
walked, `is_proven` agrees with the history-only specification. -/
theorem is_proven_iff_spec (ord : List Nat → List Nat) (hord : ∀ l x, x ∈ ord l ↔ x ∈ l)
    (ops : List Op) (hwf : WellFormed ops.reverse) (k : Nat) :
    isProven (run ord ops) k = true ↔ ProvenKey ops.reverse k := by
  rw [run_eq_runH]; exact is_proven_iff_specH ord hord ops.reverse hwf k

/-- The oracle's executable dead set is the inductive specification `Dead` (for every history). -/
theorem oracle_dead_iff (H : List Op) (q : Nat) : q ∈ deadSet H ↔ Dead H q := mem_deadSet_iff H q

theorem oracle_proven_iff (H : List Op) (h : Nat) : provenB H h = true ↔ Proven H h := provenB_iff H h

theorem oracle_wf_iff (H : List Op) : wfB H = true ↔ WellFormed H := wfB_iff H

theorem obs_eq (ord : List Nat → List Nat) (hord : ∀ l x, x ∈ ord l ↔ x ∈ l)
    (U K : List Nat) (H : List Op) (hwf : WellFormed H) : obsOf (runH ord H) U K = specObs H U K := by
  have hi := runH_inv ord hord H hwf
  have hv : ∀ h, validB (runH ord H) h = provenWith (deadSet H) H h := by
    intro h
    rw [Bool.eq_iff_iff, validB_iff ord hord H hwf h]
    exact (provenB_iff H h).symm
  unfold obsOf specObs
  simp only [Obs.mk.injEq]
  refine ⟨?_, ?_, ?_⟩
  · apply List.map_congr_left
    intro h _
    cases hn : getNode (runH ord H) h with
    | none =>
      have := (hi.node_iff h).mp hn
      simp [nodeValid, hn, this]
    | some n =>
      have hne : justsFor H h ≠ [] := by
        intro e; have := (hi.node_iff h).mpr e; rw [hn] at this; cases this
      have hiso : (justsFor H h).isEmpty = false := by
        cases hj : justsFor H h with
        | nil => exact absurd hj hne
        | cons _ _ => rfl
      have := hv h
      simp only [validB, hn, Option.any_some] at this
      simp [nodeValid, hn, hiso, this]
  · apply List.map_congr_left
    intro k _
    rw [Bool.eq_iff_iff, is_proven_iff_specH ord hord H hwf k]
    unfold ProvenKey
    simp only [List.any_eq_true, mem_handlesUnder]
    constructor
    · rintro ⟨h, h1, h2⟩; exact ⟨h, h1, (provenB_iff H h).mpr h2⟩
    · rintro ⟨h, h1, h2⟩; exact ⟨h, h1, (provenB_iff H h).mp h2⟩
  · apply List.map_congr_left
    intro k _
    apply List.map_congr_left
    intro h _
    rw [Bool.eq_iff_iff]
    simp only [List.contains_iff_mem, Bool.and_eq_true, lookup_iff_spec ord hord H hwf k h,
      mem_handlesUnder]
    constructor
    · rintro ⟨h1, h2⟩; exact ⟨h1, (provenB_iff H h).mpr h2⟩
    · rintro ⟨h1, h2⟩; exact ⟨h1, (provenB_iff H h).mp h2⟩

/-- **The model meets the executable specification**: on every history the oracle accepts as
well-formed, the model's observations after *every* operation — `get_node(h).valid` for every
handle of `U`, `is_proven(k)` and `lookup_by_key(k)` for every key of `K` — are exactly what
`specTrace` (the predicate the driver evaluates on the implementation's observations) prescribes. -/
theorem model_meets_spec (ord : List Nat → List Nat) (hord : ∀ l x, x ∈ ord l ↔ x ∈ l) (U K : List Nat) :
    ∀ (H : List Op), wfB H = true → modelTrace ord U K H = specTrace U K H
  | [], _ => rfl
  | op :: H, hwf => by
    have hw : WellFormed (op :: H) := (wfB_iff _).mp hwf
    have hw' : WellFormed H := by cases op <;> simp only [WellFormed] at hw <;> first | exact hw.2 | exact hw
    simp only [modelTrace, specTrace]
    rw [obs_eq ord hord U K (op :: H) hw, model_meets_spec ord hord U K H ((wfB_iff _).mpr hw')]

/-- Under the property's restriction an insertion never makes a handle dead. -/
theorem insert_kills_nothing (h k : Nat) (ps : List Nat) (H : List Op)
    (hwf : WellFormed (.ins h k ps :: H)) (q : Nat) : Dead (.ins h k ps :: H) q ↔ Dead H q :=
  dead_ins_iff h k ps H hwf.1 q

/-- **Re-proving revives.** Whatever happened to `h` before (invalidated directly, or it lost all
its justifications), after `insert_proof(h, k, ps)` with live premises `get_node(h).valid` is true
and `is_proven(k)` holds. -/
theorem reproof_revives (ord : List Nat → List Nat) (hord : ∀ l x, x ∈ ord l ↔ x ∈ l)
    (H : List Op) (h k : Nat) (ps : List Nat) (hwf : WellFormed (.ins h k ps :: H)) :
    nodeValid (runH ord (.ins h k ps :: H)) h = some true ∧
    isProven (runH ord (.ins h k ps :: H)) k = true := by
  have hp : Proven (.ins h k ps :: H) h := by
    refine ⟨⟨ps, by simp [justsFor], ?_⟩, by simp [dirInv]⟩
    exact (liveJ_ins_iff h k ps H hwf.1 ps).mpr hwf.1
  refine ⟨(node_valid_iff_spec ord hord _ hwf h).mpr hp, ?_⟩
  apply (is_proven_iff_specH ord hord _ hwf k).mpr
  exact ⟨h, ⟨ps, List.mem_cons_self ..⟩, hp⟩

/-- **Stale justifications do not prove.** Whatever happened to `h` before — invalidated directly,
justifications lost while it was invalid, re-proved any number of times — once every justification
ever inserted for it has a dead premise, `get_node(h).valid` is false. (The history class of the
constructive re-proof family of the generator: nothing but the premises of the justifications
counts, neither the `valid` flag at the time a premise died nor the order of the invalidations.) -/
theorem stale_justifications_do_not_prove (ord : List Nat → List Nat) (hord : ∀ l x, x ∈ ord l ↔ x ∈ l)
    (H : List Op) (hwf : WellFormed H) (h : Nat)
    (hstale : ∀ P ∈ justsFor H h, ∃ q ∈ P, Dead H q) : validB (runH ord H) h = false := by
  cases hv : validB (runH ord H) h with
  | false => rfl
  | true =>
    obtain ⟨⟨P, hP, hl⟩, _⟩ := (validB_iff ord hord H hwf h).mp hv
    obtain ⟨q, hq, hd⟩ := hstale P hP
    exact absurd hd (hl q hq)

/-- **The reverse index never forgets an edge.** After any well-formed history the global reverse
index (`ProofGraph::dependencies`) lists `h` among the dependents of every premise of every
justification ever inserted for `h` — also while `h` is invalid (invalidated directly but still
holding justifications): an invalid node can be re-proved, and then its surviving justifications
count again, so their premises must still reach it. -/
theorem reverse_index_complete (ord : List Nat → List Nat) (hord : ∀ l x, x ∈ ord l ↔ x ∈ l)
    (H : List Op) (hwf : WellFormed H) (h : Nat) (P : List Nat) (hP : P ∈ justsFor H h)
    (q : Nat) (hq : q ∈ P) : h ∈ depsOf (runH ord H) q := by
  have hd := (runH_inv ord hord H hwf).deps_ok h P hP q hq
  unfold depsOf
  exact List.mem_map.mpr ⟨(q, h), List.mem_filter.mpr ⟨hd, by simp⟩, rfl⟩

/-- Every recursive descent of `propagate_invalidation` (taken only when a justification was
removed) strictly decreases the number of stored justifications — the reason the recursion of the
code, which has no depth bound of its own, terminates; it is also what Lean checked to accept the
definition of `loop` (well-founded on (stored justifications, pending calls)). -/
theorem descent_removes_justification (s : St) (dep prem : Nat) (h : (applyOne s dep prem).2 = true) :
    totalJusts (applyOne s dep prem).1 < totalJusts s := applyOne_lt s dep prem h

/-- **Propagation terminates**: the step-counting machine `loopF` (same transitions, one pending
call per step) halts after finitely many steps, in the state the model's `loop` returns — from every
graph (cyclic dependencies included) and every stack of pending calls. -/
theorem propagate_terminates (ord : List Nat → List Nat) (s : St) (stack : List (Nat × Nat)) :
    ∃ n, loopF false ord n s stack = some (loop ord s stack) := by
  fun_induction loop ord s stack with
  | case1 s => exact ⟨0, by simp [loopF]⟩
  | case2 s e rest hflag ih =>
    obtain ⟨n, hn⟩ := ih
    exact ⟨n + 1, by simp only [loopF, hflag, if_true, nextHops]; exact hn⟩
  | case3 s e rest hflag ih =>
    obtain ⟨n, hn⟩ := ih
    exact ⟨n + 1, by simp only [loopF, hflag]; exact hn⟩

/-- the step-counting machine computes the model (used to evaluate examples by `decide`) -/
theorem loopF_sound (ord : List Nat → List Nat) : ∀ (n : Nat) (s : St) (stack : List (Nat × Nat)) (s' : St),
    loopF false ord n s stack = some s' → loop ord s stack = s' := by
  intro n s stack s' h
  obtain ⟨m, hm⟩ := propagate_terminates ord s stack
  -- both runs are runs of the same deterministic machine: more fuel does not change a result
  have mono : ∀ (a : Nat) (s : St) (st : List (Nat × Nat)) (r : St), loopF false ord a s st = some r →
      ∀ b, loopF false ord (a + b) s st = some r := by
    intro a
    induction a with
    | zero =>
      intro s st r h b
      cases st with
      | nil => cases b <;> simpa [loopF] using h
      | cons _ _ => simp [loopF] at h
    | succ a ih =>
      intro s st r h b
      cases st with
      | nil => rw [show a + 1 + b = (a + b) + 1 by omega]; simpa [loopF] using h
      | cons e rest =>
        rw [show a + 1 + b = (a + b) + 1 by omega]
        simp only [loopF] at h ⊢
        split
        · rename_i hf; rw [if_pos hf] at h; exact ih _ _ _ h b
        · rename_i hf; rw [if_neg hf] at h; exact ih _ _ _ h b
  have h1 := mono n s stack s' h m
  have h2 := mono m s stack _ hm n
  rw [Nat.add_comm] at h2
  rw [h1] at h2
  exact (Option.some.inj h2).symm

theorem runF_sound (ord : List Nat → List Nat) (n : Nat) : ∀ (ops : List Op) (s0 s : St),
    ops.foldlM (stepF false ord n) s0 = some s → ops.foldl (step ord) s0 = s
  | [], s0, s, h => by simpa using h
  | op :: ops, s0, s, h => by
    simp only [List.foldlM_cons, List.foldl_cons] at h ⊢
    cases hs : stepF false ord n s0 op with
    | none => rw [hs] at h; simp at h
    | some s1 =>
      rw [hs] at h
      have : step ord s0 op = s1 := by
        cases op with
        | ins h k ps => simpa [stepF, step] using hs
        | inv p => exact loopF_sound ord n _ _ _ hs
      rw [this]
      exact runF_sound ord n ops s1 s h

/-! ### The pre-fix code (later hops read the per-node `dependents`) violates the property -/

/-- F-C17: insert C←B, then B←A, invalidate A (C = 3, B = 2, A = 1). The legacy variant of the
propagation leaves C valid although the specification says it is not proven; the fixed variant
(the model) invalidates it. -/
theorem legacy_counterexample :
    (runF true id 10 [.ins 3 2 [2], .ins 2 1 [1], .inv 1]).map (fun s => validB s 3) = some true ∧
    ¬ Proven [.inv 1, .ins 2 1 [1], .ins 3 2 [2]] 3 ∧
    WellFormed [.inv 1, .ins 2 1 [1], .ins 3 2 [2]] ∧
    (runF false id 10 [.ins 3 2 [2], .ins 2 1 [1], .inv 1]).map (fun s => validB s 3) = some false := by
  refine ⟨by decide, ?_, ?_, by decide⟩
  · rw [← provenB_iff]; decide
  · rw [← wfB_iff]; decide

/-! ### Non-vacuity -/

/-- diamond D←{B,C}, B←A, C←A with D inserted first, a second justification D←E, then A dies:
D survives through E; then E dies: D is gone; then D is re-proved. (A=1,B=2,C=3,D=4,E=5) -/
def exOps : List Op :=
  [.ins 4 0 [2, 3], .ins 2 1 [1], .ins 3 1 [1], .ins 4 0 [5], .inv 1, .inv 5, .ins 4 0 []]

example : WellFormed exOps.reverse := by rw [← wfB_iff]; decide
example : (specTrace [1, 2, 3, 4, 5] [0, 1] exOps.reverse).reverse.map (·.proven) =
    [[true, false], [true, true], [true, true], [true, true], [true, false], [false, false], [true, false]] := by
  decide
-- the model (through the step-counting machine) shows the same observations
example : (runF false id 20 exOps).map (fun s => obsOf s [1, 2, 3, 4, 5] [0, 1]) =
    some (specObs exOps.reverse [1, 2, 3, 4, 5] [0, 1]) := by decide
-- re-proof: handle 4 was dead (lost every justification) and is proven again by the last insertion
example : Dead (exOps.reverse.drop 1) 4 ∧ Proven exOps.reverse 4 := by
  constructor
  · rw [← mem_deadSet_iff]; decide
  · rw [← provenB_iff]; decide
-- a cycle does not kill itself, and dies from outside
example : Proven [.ins 2 0 [1], .ins 1 0 [2]] 1 ∧ ¬ Proven [.inv 2, .ins 2 0 [1], .ins 1 0 [2]] 1 := by
  constructor
  · rw [← provenB_iff]; decide
  · rw [← provenB_iff]; decide
-- a descent really happens (so `descent_removes_justification` is not vacuous)
example : (applyOne (run id [.ins 2 0 [1]]) 2 1).2 = true := by decide

-- node 1 with justifications [2] and [3] is invalidated directly, loses [2] while invalid, is re-proved
-- through 4; then 3 and 4 die in either order: nothing proves it any more (model and specification),
-- although it was valid in between — `stale_justifications_do_not_prove` on a concrete history
def exReproof (a b : Nat) : List Op :=
  [.ins 1 0 [2], .ins 1 0 [3], .inv 1, .inv 2, .ins 1 0 [4], .inv a, .inv b]

example : WellFormed (exReproof 3 4).reverse ∧ WellFormed (exReproof 4 3).reverse := by
  constructor <;> (rw [← wfB_iff]; decide)
example : ∀ P ∈ justsFor (exReproof 3 4).reverse 1, ∃ q ∈ P, q ∈ deadSet (exReproof 3 4).reverse := by decide
example : (runF false id 20 (exReproof 3 4)).map (fun s => validB s 1) = some false ∧
    (runF false id 20 (exReproof 4 3)).map (fun s => validB s 1) = some false ∧
    (runF false id 20 ((exReproof 3 4).take 6)).map (fun s => validB s 1) = some true ∧
    (runF false id 20 ((exReproof 3 4).take 4)).map (fun s => (validB s 1, depsOf s 3)) = some (false, [1]) := by decide

end C17
