import RreModel.C17.Spec
/-
C17 — helper lemmas: node-list bookkeeping, facts about the inductive `Dead`, the invariant `Inv`
relating the graph to the history, the loop invariant `LI` of the propagation, and the
correctness of the executable reference (`deadSet` = `Dead`).
-/
namespace C17

/-! ### node list -/

theorem find_map_handle (l : List Node) (g : Node → Node) (hg : ∀ n, (g n).handle = n.handle) (h : Nat) :
    (l.map g).find? (fun n => n.handle == h) = (l.find? (fun n => n.handle == h)).map g := by
  induction l with
  | nil => rfl
  | cons a l ih =>
    simp only [List.map_cons, List.find?_cons, hg]
    cases hh : (a.handle == h) <;> simp [ih]

theorem getNode_mapNode (s : St) (h : Nat) (f : Node → Node) (hf : ∀ n, (f n).handle = n.handle) (h' : Nat) :
    getNode (mapNode s h f) h' = if h' = h then (getNode s h').map f else getNode s h' := by
  unfold getNode mapNode
  simp only
  rw [find_map_handle _ _ (by intro n; split <;> simp [hf])]
  cases hn : s.nodes.find? (fun n => n.handle == h') with
  | none => simp
  | some n =>
    have hh : n.handle = h' := by simpa using List.find?_some hn
    by_cases e : h' = h
    · subst e; simp [hh]
    · have : ¬ n.handle = h := by rw [hh]; exact e
      simp [e, this]

theorem removePrem_handle (prem : Nat) (n : Node) : (removePrem prem n).handle = n.handle := rfl

theorem getNode_removePrem (s : St) (dep prem h' : Nat) :
    getNode (mapNode s dep (removePrem prem)) h' =
      if h' = dep then (getNode s h').map (removePrem prem) else getNode s h' :=
  getNode_mapNode s dep _ (removePrem_handle prem) h'

theorem mem_depsOf (s : St) (p d : Nat) : d ∈ depsOf s p ↔ (p, d) ∈ s.deps := by
  unfold depsOf
  simp only [List.mem_map, List.mem_filter, beq_iff_eq]
  constructor
  · rintro ⟨⟨a, b⟩, ⟨hm, ha⟩, hb⟩; simp at ha hb; subst ha; subst hb; exact hm
  · intro hm; exact ⟨(p, d), ⟨hm, rfl⟩, rfl⟩

theorem mem_keyHandles (s : St) (k h : Nat) : h ∈ keyHandles s k ↔ (k, h) ∈ s.index := by
  unfold keyHandles
  simp only [List.mem_map, List.mem_filter, beq_iff_eq]
  constructor
  · rintro ⟨⟨a, b⟩, ⟨hm, ha⟩, hb⟩; simp at ha hb; subst ha; subst hb; exact hm
  · intro hm; exact ⟨(k, h), ⟨hm, rfl⟩, rfl⟩

/-! ### history -/

@[simp] theorem justsFor_inv (p : Nat) (H : List Op) (h : Nat) : justsFor (.inv p :: H) h = justsFor H h := rfl

theorem not_dead_nil (q : Nat) : ¬ Dead [] q := by
  intro hd
  cases hd
  rename_i hne _ _
  exact hne rfl

/-- `Dead (op :: H)` is the least set that contains the handle `op` invalidates and the handles
dead before, and is closed under "every justification has a premise in the set" -/
theorem dead_least (op : Op) (H : List Op) (S : Nat → Prop)
    (h1 : ∀ q ∈ directOf op, S q) (h2 : ∀ q, Dead H q → S q)
    (h3 : ∀ q, justsFor (op :: H) q ≠ [] → (∀ P ∈ justsFor (op :: H) q, ∃ x ∈ P, S x) → S q) :
    ∀ q, Dead (op :: H) q → S q := by
  intro q hd
  generalize hH : op :: H = H' at hd
  induction hd with
  | direct H0 p => cases hH; exact h1 _ (by simp [directOf])
  | older op0 H0 p hd0 _ => cases hH; exact h2 _ hd0
  | lost H0 h w hne hw _ ih => subst hH; exact h3 h hne (fun P hP => ⟨w P, hw P hP, ih P hP rfl⟩)

/-- the `lost` rule with existential premises -/
theorem Dead.lost' {H : List Op} {h : Nat} (hne : justsFor H h ≠ [])
    (hall : ∀ P ∈ justsFor H h, ∃ x ∈ P, Dead H x) : Dead H h := by
  classical
  refine Dead.lost H h (fun P => if hP : ∃ x ∈ P, Dead H x then Classical.choose hP else 0) hne ?_ ?_
  · intro P hP
    have h := hall P hP
    simp only [dif_pos h]; exact (Classical.choose_spec h).1
  · intro P hP
    have h := hall P hP
    simp only [dif_pos h]; exact (Classical.choose_spec h).2

theorem not_liveJ {H : List Op} {P : List Nat} (h : ¬ LiveJ H P) : ∃ x ∈ P, Dead H x := by
  classical
  unfold LiveJ at h
  simp only [Classical.not_forall, Classical.not_not] at h
  obtain ⟨x, hx, hd⟩ := h
  exact ⟨x, hx, hd⟩

theorem dirInv_dead : ∀ (H : List Op) (h : Nat), dirInv H h = true → Dead H h
  | [], _, hd => by simp [dirInv] at hd
  | .inv p :: H, h, hd => by
    simp only [dirInv, Bool.or_eq_true, beq_iff_eq] at hd
    rcases hd with rfl | hd
    · exact Dead.direct H p
    · exact Dead.older _ H h (dirInv_dead H h hd)
  | .ins h' k ps :: H, h, hd => by
    simp only [dirInv] at hd
    split at hd
    · cases hd
    · exact Dead.older _ H h (dirInv_dead H h hd)

theorem dirInv_inv_ne {p h : Nat} (H : List Op) (e : p ≠ h) : dirInv (.inv p :: H) h = dirInv H h := by
  have : (p == h) = false := by simpa using e
  simp [dirInv, this]

/-- under the well-formedness condition an insertion makes no handle dead -/
theorem dead_ins_iff (h k : Nat) (ps : List Nat) (H : List Op) (hwf : LiveJ H ps) (q : Nat) :
    Dead (.ins h k ps :: H) q ↔ Dead H q := by
  constructor
  · apply dead_least (.ins h k ps) H (fun q => Dead H q)
    · intro q hq; simp [directOf] at hq
    · exact fun _ hd => hd
    · intro q hne hall
      by_cases e : h = q
      · subst e
        obtain ⟨x, hx, hd⟩ := hall ps (by simp [justsFor])
        exact absurd hd (hwf x hx)
      · simp only [justsFor, if_neg e] at hne hall
        exact Dead.lost' hne hall
  · exact Dead.older _ H q

/-! ### the invariant between operations -/

/-- what the graph `s` records after the history `H` -/
structure Inv (H : List Op) (s : St) : Prop where
  node_iff : ∀ h, getNode s h = none ↔ justsFor H h = []
  justs_iff : ∀ h n, getNode s h = some n → ∀ P, P ∈ n.justs ↔ (P ∈ justsFor H h ∧ LiveJ H P)
  valid_iff : ∀ h n, getNode s h = some n → (n.valid = true ↔ n.justs ≠ [] ∧ dirInv H h = false)
  deps_ok : ∀ h P, P ∈ justsFor H h → ∀ q ∈ P, (q, h) ∈ s.deps
  index_ok : ∀ k h, (k, h) ∈ s.index ↔ InsertedUnder H k h

/-- loop invariant of the propagation started by `invalidate_handle(p)` after history `H`;
`stack` holds the pending calls `propagate_invalidation(dependent, premise)` -/
structure LI (H : List Op) (p : Nat) (s : St) (stack : List (Nat × Nat)) : Prop where
  node_iff : ∀ h, getNode s h = none ↔ justsFor H h = []
  sub : ∀ h n, getNode s h = some n → ∀ P ∈ n.justs, P ∈ justsFor H h ∧ LiveJ H P
  removed : ∀ h n, getNode s h = some n → ∀ P ∈ justsFor H h, LiveJ H P → P ∉ n.justs →
    ∃ q ∈ P, Dead (.inv p :: H) q
  empty_dead : ∀ h n, getNode s h = some n → n.justs = [] → Dead (.inv p :: H) h
  pending : ∀ q, (q = p ∨ ∃ m, getNode s q = some m ∧ m.justs = []) →
    ∀ h n P, getNode s h = some n → P ∈ n.justs → q ∈ P → (h, q) ∈ stack
  stack_dead : ∀ e ∈ stack, Dead (.inv p :: H) e.2
  valid_iff : ∀ h n, getNode s h = some n → (n.valid = true ↔ n.justs ≠ [] ∧ dirInv (.inv p :: H) h = false)
  deps_ok : ∀ h P, P ∈ justsFor H h → ∀ q ∈ P, (q, h) ∈ s.deps
  index_ok : ∀ k h, (k, h) ∈ s.index ↔ InsertedUnder H k h

theorem inv_empty_dead {H : List Op} {s : St} (hi : Inv H s) {h : Nat} {n : Node}
    (hn : getNode s h = some n) (he : n.justs = []) : Dead H h := by
  have hne : justsFor H h ≠ [] := by
    intro e; have := (hi.node_iff h).mpr e; rw [hn] at this; cases this
  apply Dead.lost' hne
  intro P hP
  apply not_liveJ
  intro hl
  have := (hi.justs_iff h n hn P).mpr ⟨hP, hl⟩
  rw [he] at this; cases this

theorem li_init (ord : List Nat → List Nat) (hord : ∀ l x, x ∈ ord l ↔ x ∈ l)
    {H : List Op} {s : St} (hi : Inv H s) (p : Nat) :
    LI H p (mapNode s p (fun n => { n with valid := false })) ((ord (depsOf s p)).map (fun d => (d, p))) := by
  have hg : ∀ h', getNode (mapNode s p (fun n => { n with valid := false })) h' =
      if h' = p then (getNode s h').map (fun n => { n with valid := false }) else getNode s h' :=
    getNode_mapNode s p _ (fun _ => rfl)
  -- every node of the new graph comes from a node with the same justifications
  have hback : ∀ h n', getNode (mapNode s p (fun n => { n with valid := false })) h = some n' →
      ∃ n, getNode s h = some n ∧ n'.justs = n.justs ∧ (n'.valid = if h = p then false else n.valid) := by
    intro h n' hn'
    rw [hg] at hn'
    by_cases e : h = p
    · rw [if_pos e] at hn'
      cases hn : getNode s h with
      | none => rw [hn] at hn'; cases hn'
      | some n => rw [hn] at hn'; cases hn'; exact ⟨n, rfl, rfl, by simp [e]⟩
    · rw [if_neg e] at hn'
      exact ⟨n', hn', rfl, by simp [e]⟩
  refine ⟨?_, ?_, ?_, ?_, ?_, ?_, ?_, hi.deps_ok, hi.index_ok⟩
  · intro h
    rw [hg, ← hi.node_iff h]
    split <;> simp
  · intro h n' hn' P hP
    obtain ⟨n, hn, hj, _⟩ := hback h n' hn'
    rw [hj] at hP
    exact (hi.justs_iff h n hn P).mp hP
  · intro h n' hn' P hP hl hnot
    obtain ⟨n, hn, hj, _⟩ := hback h n' hn'
    rw [hj] at hnot
    exact absurd ((hi.justs_iff h n hn P).mpr ⟨hP, hl⟩) hnot
  · intro h n' hn' he
    obtain ⟨n, hn, hj, _⟩ := hback h n' hn'
    rw [hj] at he
    exact Dead.older _ H h (inv_empty_dead hi hn he)
  · intro q hq h n' P hn' hP hqP
    obtain ⟨n, hn, hj, _⟩ := hback h n' hn'
    rw [hj] at hP
    have hPj := (hi.justs_iff h n hn P).mp hP
    rcases hq with rfl | ⟨m', hm', hme⟩
    · have hd : (q, h) ∈ s.deps := hi.deps_ok h P hPj.1 q hqP
      apply List.mem_map.mpr
      exact ⟨h, (hord _ _).mpr ((mem_depsOf s q h).mpr hd), rfl⟩
    · obtain ⟨m, hm, hmj, _⟩ := hback q m' hm'
      rw [hmj] at hme
      exact absurd (inv_empty_dead hi hm hme) (hPj.2 q hqP)
  · intro e he
    obtain ⟨d, _, rfl⟩ := List.mem_map.mp he
    exact Dead.direct H p
  · intro h n' hn'
    obtain ⟨n, hn, hj, hv⟩ := hback h n' hn'
    rw [hj, hv]
    by_cases e : h = p
    · subst e; simp [dirInv]
    · have : ¬ p = h := fun x => e x.symm
      rw [if_neg e, dirInv_inv_ne H this]
      exact hi.valid_iff h n hn

theorem mem_rp (prem : Nat) (m : Node) (P : List Nat) :
    P ∈ (removePrem prem m).justs ↔ P ∈ m.justs ∧ prem ∉ P := by
  simp [removePrem, List.mem_filter]

theorem rp_valid (prem : Nat) (n : Node) :
    (removePrem prem n).valid = (if (removePrem prem n).justs.isEmpty then false else n.valid) := rfl

theorem rp_nonempty {prem : Nat} {n : Node} (h : (removePrem prem n).justs ≠ []) : n.justs ≠ [] := by
  intro e; apply h; simp [removePrem, e]

/-- one transition of the stack machine keeps the loop invariant; `stack'` is the new stack -/
theorem li_step {H : List Op} {p : Nat} {s : St} {e : Nat × Nat} {rest : List (Nat × Nat)}
    (hli : LI H p s (e :: rest)) (stack' : List (Nat × Nat))
    (hsub : ∀ x ∈ rest, x ∈ stack')
    (hnew : (applyOne s e.1 e.2).2 = true → ∀ d, (e.1, d) ∈ s.deps → (d, e.1) ∈ stack')
    (hold : ∀ x ∈ stack', x ∈ rest ∨ ((applyOne s e.1 e.2).2 = true ∧ x.2 = e.1)) :
    LI H p (applyOne s e.1 e.2).1 stack' := by
  obtain ⟨dep, prem⟩ := e
  simp only at hnew hold ⊢
  cases hn : getNode s dep with
  | none =>
    have ha : applyOne s dep prem = (s, false) := by simp [applyOne, hn]
    rw [ha] at hnew hold ⊢
    refine ⟨hli.node_iff, hli.sub, hli.removed, hli.empty_dead, ?_, ?_, hli.valid_iff, hli.deps_ok, hli.index_ok⟩
    · intro q hq h m P hm hP hqP
      have := hli.pending q hq h m P hm hP hqP
      rcases List.mem_cons.mp this with heq | hr
      · cases heq; rw [hn] at hm; cases hm
      · exact hsub _ hr
    · intro x hx
      rcases hold x hx with hr | ⟨hf, _⟩
      · exact hli.stack_dead x (List.mem_cons_of_mem _ hr)
      · cases hf
  | some n =>
    have ha1 : (applyOne s dep prem).1 = mapNode s dep (removePrem prem) := by simp [applyOne, hn]
    have ha2 : (applyOne s dep prem).2 =
        (((removePrem prem n).justs.length != n.justs.length) && !(removePrem prem n).valid) := by
      simp [applyOne, hn]
    rw [ha1]; rw [ha2] at hnew hold
    have hback : ∀ h m', getNode (mapNode s dep (removePrem prem)) h = some m' →
        ∃ m, getNode s h = some m ∧ m' = (if h = dep then removePrem prem m else m) := by
      intro h m' hm'
      rw [getNode_removePrem] at hm'
      by_cases e : h = dep
      · rw [if_pos e] at hm'
        cases hm : getNode s h with
        | none => rw [hm] at hm'; cases hm'
        | some m => rw [hm] at hm'; cases hm'; exact ⟨m, rfl, by simp [e]⟩
      · rw [if_neg e] at hm'; exact ⟨m', hm', by simp [e]⟩
    have hdepnode : getNode (mapNode s dep (removePrem prem)) dep = some (removePrem prem n) := by
      rw [getNode_removePrem, if_pos rfl, hn]; rfl
    have hremoved : ∀ h m', getNode (mapNode s dep (removePrem prem)) h = some m' →
        ∀ P ∈ justsFor H h, LiveJ H P → P ∉ m'.justs → ∃ q ∈ P, Dead (.inv p :: H) q := by
      intro h m' hm' P hP hl hnot
      obtain ⟨m, hm, hm'e⟩ := hback h m' hm'
      by_cases e : h = dep
      · rw [if_pos e] at hm'e; subst hm'e
        by_cases hin : P ∈ m.justs
        · have hc : prem ∈ P := by
            apply Classical.byContradiction; intro hc
            exact hnot ((mem_rp prem m P).mpr ⟨hin, hc⟩)
          exact ⟨prem, hc, hli.stack_dead (dep, prem) (List.mem_cons_self ..)⟩
        · exact hli.removed h m hm P hP hl hin
      · rw [if_neg e] at hm'e; subst hm'e
        exact hli.removed h m' hm P hP hl hnot
    have hempty : ∀ h m', getNode (mapNode s dep (removePrem prem)) h = some m' → m'.justs = [] →
        Dead (.inv p :: H) h := by
      intro h m' hm' he
      obtain ⟨m, hm, hm'e⟩ := hback h m' hm'
      by_cases e : h = dep
      · have hne : justsFor H h ≠ [] := by
          intro x; have := (hli.node_iff h).mpr x; rw [hm] at this; cases this
        apply Dead.lost' (H := .inv p :: H) (by simpa using hne)
        intro P hP
        simp only [justsFor_inv] at hP
        by_cases hl : LiveJ H P
        · exact hremoved h m' hm' P hP hl (by rw [he]; simp)
        · obtain ⟨x, hx, hd⟩ := not_liveJ hl
          exact ⟨x, hx, Dead.older _ H x hd⟩
      · rw [if_neg e] at hm'e; subst hm'e
        exact hli.empty_dead h m' hm he
    refine ⟨?_, ?_, hremoved, hempty, ?_, ?_, ?_, hli.deps_ok, hli.index_ok⟩
    · intro h
      rw [getNode_removePrem, ← hli.node_iff h]
      split <;> simp
    · intro h m' hm' P hP
      obtain ⟨m, hm, hm'e⟩ := hback h m' hm'
      by_cases e : h = dep
      · rw [if_pos e] at hm'e; subst hm'e
        exact hli.sub h m hm P ((mem_rp prem m P).mp hP).1
      · rw [if_neg e] at hm'e; subst hm'e
        exact hli.sub h m' hm P hP
    · -- pending
      intro q hq h m' P hm' hP hqP
      obtain ⟨m, hm, hm'e⟩ := hback h m' hm'
      have hPm : P ∈ m.justs ∧ (h = dep → prem ∉ P) := by
        by_cases e : h = dep
        · rw [if_pos e] at hm'e; subst hm'e
          have := (mem_rp prem m P).mp hP
          exact ⟨this.1, fun _ => this.2⟩
        · rw [if_neg e] at hm'e; subst hm'e
          exact ⟨hP, fun x => absurd x e⟩
      have hcase : (q = p ∨ ∃ mq, getNode s q = some mq ∧ mq.justs = []) ∨
          (q = dep ∧ n.justs ≠ [] ∧ (removePrem prem n).justs = []) := by
        rcases hq with rfl | ⟨mq', hmq', hmqe⟩
        · exact Or.inl (Or.inl rfl)
        · obtain ⟨mq, hmq, hmq'e⟩ := hback q mq' hmq'
          by_cases eq : q = dep
          · subst eq
            rw [hn] at hmq; cases hmq
            rw [if_pos rfl] at hmq'e; subst hmq'e
            by_cases hne : n.justs = []
            · exact Or.inl (Or.inr ⟨n, hn, hne⟩)
            · exact Or.inr ⟨rfl, hne, hmqe⟩
          · rw [if_neg eq] at hmq'e; subst hmq'e
            exact Or.inl (Or.inr ⟨mq', hmq, hmqe⟩)
      rcases hcase with hpend | ⟨rfl, hne, hemp⟩
      · have := hli.pending q hpend h m P hm hPm.1 hqP
        rcases List.mem_cons.mp this with heq | hr
        · cases heq
          exact absurd hqP (hPm.2 rfl)
        · exact hsub _ hr
      · apply hnew
        · have hv : (removePrem prem n).valid = false := by rw [rp_valid, hemp]; rfl
          have hl : n.justs.length ≠ 0 := by
            intro x; exact hne (List.eq_nil_of_length_eq_zero x)
          rw [hv, hemp]
          simp only [List.length_nil, Bool.not_false, Bool.and_true, bne_iff_ne, ne_eq]
          exact fun x => hl x.symm
        · exact hli.deps_ok h P (hli.sub h m hm P hPm.1).1 q hqP
    · -- stack_dead
      intro x hx
      rcases hold x hx with hr | ⟨hf, hx2⟩
      · exact hli.stack_dead x (List.mem_cons_of_mem _ hr)
      · rw [hx2]
        simp only [Bool.and_eq_true, bne_iff_ne, ne_eq, Bool.not_eq_eq_eq_not, Bool.not_true] at hf
        by_cases hemp : (removePrem prem n).justs = []
        · exact hempty dep _ hdepnode hemp
        · have hiso : (removePrem prem n).justs.isEmpty = false := by
            cases hj : (removePrem prem n).justs with
            | nil => exact absurd hj hemp
            | cons _ _ => rfl
          have hv := hf.2
          rw [rp_valid, hiso] at hv
          simp only [Bool.false_eq_true, if_false] at hv
          have hvi := hli.valid_iff dep n hn
          apply dirInv_dead
          cases hd : dirInv (.inv p :: H) dep with
          | true => rfl
          | false =>
            have := hvi.mpr ⟨rp_nonempty hemp, hd⟩
            rw [hv] at this; cases this
    · -- valid_iff
      intro h m' hm'
      obtain ⟨m, hm, hm'e⟩ := hback h m' hm'
      by_cases e : h = dep
      · subst e
        rw [hn] at hm; cases hm
        rw [if_pos rfl] at hm'e; subst hm'e
        by_cases hemp : (removePrem prem n).justs = []
        · rw [rp_valid, hemp]; simp
        · have hiso : (removePrem prem n).justs.isEmpty = false := by
            cases hj : (removePrem prem n).justs with
            | nil => exact absurd hj hemp
            | cons _ _ => rfl
          rw [rp_valid, hiso]
          simp only [Bool.false_eq_true, if_false]
          rw [hli.valid_iff h n hn]
          constructor
          · rintro ⟨_, hd⟩; exact ⟨hemp, hd⟩
          · rintro ⟨_, hd⟩; exact ⟨rp_nonempty hemp, hd⟩
      · rw [if_neg e] at hm'e; subst hm'e
        exact hli.valid_iff h m' hm

theorem insertedUnder_inv (p : Nat) (H : List Op) (k h : Nat) :
    InsertedUnder (.inv p :: H) k h ↔ InsertedUnder H k h := by
  unfold InsertedUnder
  constructor
  · rintro ⟨ps, hm⟩
    rcases List.mem_cons.mp hm with e | hm'
    · cases e
    · exact ⟨ps, hm'⟩
  · rintro ⟨ps, hm⟩; exact ⟨ps, List.mem_cons_of_mem _ hm⟩

/-- when nothing is pending the graph records the history extended by the invalidation -/
theorem li_final {H : List Op} {p : Nat} {s : St} (hli : LI H p s []) : Inv (.inv p :: H) s := by
  -- completeness: everything the specification calls dead is visibly dead in the graph
  have hcomplete : ∀ q, Dead (.inv p :: H) q →
      (q = p ∨ Dead H q ∨ ∃ m, getNode s q = some m ∧ m.justs = []) := by
    apply dead_least (.inv p) H
    · intro q hq; simp [directOf] at hq; exact Or.inl hq
    · intro q hd; exact Or.inr (Or.inl hd)
    · intro q hne hall
      simp only [justsFor_inv] at hne hall
      cases hm : getNode s q with
      | none => exact absurd ((hli.node_iff q).mp hm) hne
      | some m =>
        right; right
        refine ⟨m, rfl, ?_⟩
        cases hj : m.justs with
        | nil => rfl
        | cons P tl =>
          exfalso
          have hP : P ∈ m.justs := by rw [hj]; exact List.mem_cons_self ..
          have hs := hli.sub q m hm P hP
          obtain ⟨x, hx, hS⟩ := hall P hs.1
          rcases hS with rfl | hd | hemp
          · have := hli.pending x (Or.inl rfl) q m P hm hP hx; cases this
          · exact hs.2 x hx hd
          · have := hli.pending x (Or.inr hemp) q m P hm hP hx; cases this
  refine ⟨?_, ?_, hli.valid_iff, ?_, ?_⟩
  · intro h; simpa using hli.node_iff h
  · intro h m hm P
    simp only [justsFor_inv]
    constructor
    · intro hP
      have hs := hli.sub h m hm P hP
      refine ⟨hs.1, ?_⟩
      intro x hx hd
      rcases hcomplete x hd with rfl | hd' | hemp
      · have := hli.pending x (Or.inl rfl) h m P hm hP hx; cases this
      · exact hs.2 x hx hd'
      · have := hli.pending x (Or.inr hemp) h m P hm hP hx; cases this
    · rintro ⟨hP, hl⟩
      apply Classical.byContradiction
      intro hnot
      have hl' : LiveJ H P := fun x hx hd => hl x hx (Dead.older _ H x hd)
      obtain ⟨x, hx, hd⟩ := hli.removed h m hm P hP hl' hnot
      exact hl x hx hd
  · intro h P hP; exact hli.deps_ok h P (by simpa using hP)
  · intro k h; rw [insertedUnder_inv]; exact hli.index_ok k h

/-- the whole propagation -/
theorem loop_inv (ord : List Nat → List Nat) (hord : ∀ l x, x ∈ ord l ↔ x ∈ l)
    {H : List Op} {p : Nat} (s : St) (stack : List (Nat × Nat)) (hli : LI H p s stack) :
    Inv (.inv p :: H) (loop ord s stack) := by
  fun_induction loop ord s stack with
  | case1 s => exact li_final hli
  | case2 s e rest hflag ih =>
    apply ih
    apply li_step hli
    · intro x hx; exact List.mem_append_right _ hx
    · intro _ d hd
      apply List.mem_append_left
      exact List.mem_map.mpr ⟨d, (hord _ _).mpr ((mem_depsOf s e.1 d).mpr hd), rfl⟩
    · intro x hx
      rcases List.mem_append.mp hx with h1 | h2
      · obtain ⟨d, _, rfl⟩ := List.mem_map.mp h1
        exact Or.inr ⟨hflag, rfl⟩
      · exact Or.inl h2
  | case3 s e rest hflag ih =>
    apply ih
    apply li_step hli
    · intro x hx; exact hx
    · intro hf; exact absurd hf hflag
    · intro x hx; exact Or.inl hx

theorem invalidate_inv (ord : List Nat → List Nat) (hord : ∀ l x, x ∈ ord l ↔ x ∈ l)
    {H : List Op} {s : St} (hi : Inv H s) (p : Nat) : Inv (.inv p :: H) (invalidate ord s p) :=
  loop_inv ord hord _ _ (li_init ord hord hi p)

/-! ### insertion -/

def newNode (h k : Nat) : Node := { handle := h, key := k, justs := [], dependents := [], valid := true }

def gdep (h : Nat) (ps : List Nat) (n : Node) : Node :=
  if ps.contains n.handle then { n with dependents := insertSet n.dependents h } else n

theorem gdep_handle (h : Nat) (ps : List Nat) (n : Node) : (gdep h ps n).handle = n.handle := by
  unfold gdep; split <;> rfl
theorem gdep_justs (h : Nat) (ps : List Nat) (n : Node) : (gdep h ps n).justs = n.justs := by
  unfold gdep; split <;> rfl
theorem gdep_valid (h : Nat) (ps : List Nat) (n : Node) : (gdep h ps n).valid = n.valid := by
  unfold gdep; split <;> rfl

theorem getNode_ensureNode (s : St) (h k h' : Nat) :
    getNode (ensureNode s h k) h' =
      if h' = h then some ((getNode s h).getD (newNode h k)) else getNode s h' := by
  unfold ensureNode
  cases hn : getNode s h with
  | some n =>
    simp only [Option.getD_some]
    by_cases e : h' = h
    · subst e; simp [hn]
    · simp [e]
  | none =>
    simp only [Option.getD_none]
    unfold getNode at hn ⊢
    simp only [List.find?_append]
    by_cases e : h' = h
    · subst e; simp [hn, newNode]
    · have : ¬ h = h' := fun x => e x.symm
      simp [e, this]

theorem ensureNode_deps (s : St) (h k : Nat) : (ensureNode s h k).deps = s.deps := by
  unfold ensureNode; split <;> rfl
theorem ensureNode_index (s : St) (h k : Nat) : (ensureNode s h k).index = s.index := by
  unfold ensureNode; split <;> rfl

theorem insertProof_deps (s : St) (h k : Nat) (ps : List Nat) :
    (insertProof s h k ps).deps = addDeps s.deps h ps := by
  simp [insertProof, markDependents, mapNode, ensureNode_deps]
theorem insertProof_index (s : St) (h k : Nat) (ps : List Nat) :
    (insertProof s h k ps).index = s.index ++ [(k, h)] := by
  simp [insertProof, markDependents, mapNode, ensureNode_index]

theorem getNode_insertProof (s : St) (h k : Nat) (ps : List Nat) (h' : Nat) :
    getNode (insertProof s h k ps) h' =
      if h' = h then some (gdep h ps (addJust ps ((getNode s h).getD (newNode h k))))
      else (getNode s h').map (gdep h ps) := by
  have h1 : getNode (insertProof s h k ps) h' =
      (getNode (mapNode (ensureNode s h k) h (addJust ps)) h').map (gdep h ps) := by
    unfold insertProof markDependents getNode
    exact find_map_handle _ (gdep h ps) (gdep_handle h ps) h'
  rw [h1, getNode_mapNode (ensureNode s h k) h (addJust ps) (fun _ => rfl) h', getNode_ensureNode]
  by_cases e : h' = h
  · simp [e]
  · simp [e]

theorem addDeps_sub (h : Nat) (ps : List Nat) : ∀ (d : List (Nat × Nat)) x, x ∈ d → x ∈ addDeps d h ps := by
  induction ps with
  | nil => intro d x hx; exact hx
  | cons a ps ih =>
    intro d x hx
    simp only [addDeps, List.foldl_cons]
    apply ih
    split
    · exact hx
    · exact List.mem_append_left _ hx

theorem addDeps_new (h : Nat) (ps : List Nat) : ∀ (d : List (Nat × Nat)) q, q ∈ ps → (q, h) ∈ addDeps d h ps := by
  induction ps with
  | nil => intro d q hq; cases hq
  | cons a ps ih =>
    intro d q hq
    simp only [addDeps, List.foldl_cons]
    rcases List.mem_cons.mp hq with rfl | hq'
    · apply addDeps_sub
      split
      · rename_i hc; simpa using hc
      · simp
    · exact ih _ q hq'

theorem liveJ_ins_iff (h k : Nat) (ps : List Nat) (H : List Op) (hwf : LiveJ H ps) (P : List Nat) :
    LiveJ (.ins h k ps :: H) P ↔ LiveJ H P := by
  unfold LiveJ
  constructor
  · intro hl q hq hd; exact hl q hq ((dead_ins_iff h k ps H hwf q).mpr hd)
  · intro hl q hq hd; exact hl q hq ((dead_ins_iff h k ps H hwf q).mp hd)

theorem insertedUnder_ins (h k : Nat) (ps : List Nat) (H : List Op) (k' h' : Nat) :
    InsertedUnder (.ins h k ps :: H) k' h' ↔ ((k', h') = (k, h) ∨ InsertedUnder H k' h') := by
  unfold InsertedUnder
  constructor
  · rintro ⟨ps', hm⟩
    rcases List.mem_cons.mp hm with e | hm'
    · cases e; exact Or.inl rfl
    · exact Or.inr ⟨ps', hm'⟩
  · rintro (e | ⟨ps', hm⟩)
    · cases e; exact ⟨ps, List.mem_cons_self ..⟩
    · exact ⟨ps', List.mem_cons_of_mem _ hm⟩

theorem insert_inv {H : List Op} {s : St} (hi : Inv H s) (h k : Nat) (ps : List Nat) (hwf : LiveJ H ps) :
    Inv (.ins h k ps :: H) (insertProof s h k ps) := by
  -- the justifications of the node of `h` before the insertion (none if it is new)
  have hbase : ∀ P, P ∈ ((getNode s h).getD (newNode h k)).justs ↔ (P ∈ justsFor H h ∧ LiveJ H P) := by
    intro P
    cases hn : getNode s h with
    | some n => simpa using hi.justs_iff h n hn P
    | none =>
      have := (hi.node_iff h).mp hn
      simp [newNode, this]
  refine ⟨?_, ?_, ?_, ?_, ?_⟩
  · intro h'
    rw [getNode_insertProof]
    by_cases e : h' = h
    · subst e; simp [justsFor]
    · have : ¬ h = h' := fun x => e x.symm
      simp only [if_neg e, justsFor, if_neg this, Option.map_eq_none_iff]
      exact hi.node_iff h'
  · intro h' n' hn' P
    rw [getNode_insertProof] at hn'
    rw [liveJ_ins_iff h k ps H hwf]
    by_cases e : h' = h
    · subst e
      rw [if_pos rfl] at hn'; cases hn'
      simp only [gdep_justs, addJust, List.mem_append, justsFor, if_true, List.mem_cons, hbase, List.not_mem_nil, or_false]
      constructor
      · rintro (⟨h1, h2⟩ | rfl)
        · exact ⟨Or.inr h1, h2⟩
        · exact ⟨Or.inl rfl, hwf⟩
      · rintro ⟨rfl | h1, h2⟩
        · exact Or.inr rfl
        · exact Or.inl ⟨h1, h2⟩
    · have hne : ¬ h = h' := fun x => e x.symm
      rw [if_neg e] at hn'
      cases hm : getNode s h' with
      | none => rw [hm] at hn'; cases hn'
      | some m =>
        rw [hm] at hn'; cases hn'
        simp only [gdep_justs, justsFor, if_neg hne]
        exact hi.justs_iff h' m hm P
  · intro h' n' hn'
    rw [getNode_insertProof] at hn'
    by_cases e : h' = h
    · subst e
      rw [if_pos rfl] at hn'; cases hn'
      simp [gdep_justs, gdep_valid, addJust, dirInv]
    · have hne : ¬ h = h' := fun x => e x.symm
      rw [if_neg e] at hn'
      cases hm : getNode s h' with
      | none => rw [hm] at hn'; cases hn'
      | some m =>
        rw [hm] at hn'; cases hn'
        simp only [gdep_justs, gdep_valid, dirInv, if_neg hne]
        exact hi.valid_iff h' m hm
  · intro h' P hP q hq
    rw [insertProof_deps]
    by_cases e : h = h'
    · subst e
      simp only [justsFor, if_true, List.mem_cons] at hP
      rcases hP with rfl | hP
      · exact addDeps_new h P _ q hq
      · exact addDeps_sub h ps _ _ (hi.deps_ok h P hP q hq)
    · simp only [justsFor, if_neg e] at hP
      exact addDeps_sub h ps _ _ (hi.deps_ok h' P hP q hq)
  · intro k' h'
    rw [insertProof_index, insertedUnder_ins, List.mem_append, List.mem_singleton, hi.index_ok]
    constructor
    · rintro (h1 | h2)
      · exact Or.inr h1
      · exact Or.inl h2
    · rintro (h1 | h2)
      · exact Or.inr h1
      · exact Or.inl h2

theorem init_inv : Inv [] init := by
  refine ⟨?_, ?_, ?_, ?_, ?_⟩
  · intro h; simp [getNode, init, justsFor]
  · intro h n hn; simp [getNode, init] at hn
  · intro h n hn; simp [getNode, init] at hn
  · intro h P hP; simp [justsFor] at hP
  · intro k h; simp [init, InsertedUnder]

/-- the graph after any well-formed history records exactly that history -/
theorem runH_inv (ord : List Nat → List Nat) (hord : ∀ l x, x ∈ ord l ↔ x ∈ l) :
    ∀ (H : List Op), WellFormed H → Inv H (runH ord H)
  | [], _ => init_inv
  | .ins h k ps :: H, hwf => insert_inv (runH_inv ord hord H hwf.2) h k ps hwf.1
  | .inv p :: H, hwf => invalidate_inv ord hord (runH_inv ord hord H hwf) p

/-! ### the executable reference computes the inductive specification -/

theorem countP_lt {α} (p q : α → Bool) (l : List α) (himp : ∀ x, q x = true → p x = true)
    (hex : ∃ x ∈ l, p x = true ∧ q x = false) : l.countP q < l.countP p := by
  induction l with
  | nil => obtain ⟨x, hx, _⟩ := hex; cases hx
  | cons a l ih =>
    have hle : l.countP q ≤ l.countP p := List.countP_mono_left (fun x _ => himp x)
    obtain ⟨x, hx, hp, hq⟩ := hex
    simp only [List.countP_cons]
    rcases List.mem_cons.mp hx with rfl | hx'
    · simp [hp, hq]; omega
    · have := ih ⟨x, hx', hp, hq⟩
      by_cases hqa : q a = true
      · simp [hqa, himp a hqa]; omega
      · simp [hqa]; split <;> omega

theorem contains_false_iff (D : List Nat) (x : Nat) : D.contains x = false ↔ x ∉ D := by
  rw [← Bool.not_eq_true, List.contains_iff_mem]

theorem mem_allJusts : ∀ (H : List Op) (h : Nat) (P : List Nat), (h, P) ∈ allJusts H ↔ P ∈ justsFor H h
  | [], h, P => by simp [allJusts, justsFor]
  | .inv _ :: H, h, P => by simp [allJusts, mem_allJusts H]
  | .ins h' k ps :: H, h, P => by
    simp only [allJusts, justsFor, List.mem_cons, Prod.mk.injEq, mem_allJusts H]
    by_cases e : h' = h
    · subst e; simp
    · have : ¬ h = h' := fun x => e x.symm
      simp [e, this]

theorem justsFor_ne_nil_iff (H : List Op) (h : Nat) : justsFor H h ≠ [] ↔ ∃ P, (h, P) ∈ allJusts H := by
  constructor
  · intro hne
    cases hj : justsFor H h with
    | nil => exact absurd hj hne
    | cons P _ => exact ⟨P, (mem_allJusts H h P).mpr (by rw [hj]; exact List.mem_cons_self ..)⟩
  · rintro ⟨P, hP⟩ e
    have := (mem_allJusts H h P).mp hP
    rw [e] at this; cases this

theorem lostAll_iff (J : List (Nat × List Nat)) (D : List Nat) (h : Nat) :
    lostAll J D h = true ↔ ∀ P, (h, P) ∈ J → ∃ x ∈ P, x ∈ D := by
  unfold lostAll
  simp only [List.all_eq_true, Bool.or_eq_true, bne_iff_ne, ne_eq, List.any_eq_true, List.contains_iff_mem]
  constructor
  · intro hall P hP
    rcases hall (h, P) hP with h1 | h2
    · exact absurd rfl h1
    · exact h2
  · intro hall j hj
    by_cases e : j.1 = h
    · right; subst e; exact hall j.2 hj
    · left; exact e

theorem mem_newDead (J : List (Nat × List Nat)) (D : List Nat) (x : Nat) :
    x ∈ newDead J D ↔ (∃ P, (x, P) ∈ J) ∧ x ∉ D ∧ lostAll J D x = true := by
  unfold newDead
  simp only [List.mem_filter, List.mem_map, Bool.and_eq_true, Bool.not_eq_eq_eq_not, Bool.not_true,
    contains_false_iff]
  constructor
  · rintro ⟨⟨⟨a, P⟩, hm, rfl⟩, h2, h3⟩; exact ⟨⟨P, hm⟩, h2, h3⟩
  · rintro ⟨⟨P, hm⟩, h2, h3⟩; exact ⟨⟨(x, P), hm, rfl⟩, h2, h3⟩

theorem closeN_sub (J : List (Nat × List Nat)) : ∀ (n : Nat) (D : List Nat) x, x ∈ D → x ∈ closeN J n D := by
  intro n
  induction n with
  | zero => intro D x hx; exact hx
  | succ n ih =>
    intro D x hx
    simp only [closeN]
    split
    · exact hx
    · exact ih _ x (List.mem_append_left _ hx)

theorem closeN_dead (H : List Op) : ∀ (n : Nat) (D : List Nat), (∀ x ∈ D, Dead H x) →
    ∀ x ∈ closeN (allJusts H) n D, Dead H x := by
  intro n
  induction n with
  | zero => intro D hD x hx; exact hD x hx
  | succ n ih =>
    intro D hD x hx
    simp only [closeN] at hx
    split at hx
    · exact hD x hx
    · apply ih _ _ x hx
      intro y hy
      rcases List.mem_append.mp hy with h1 | h2
      · exact hD y h1
      · obtain ⟨hex, _, hl⟩ := (mem_newDead _ _ _).mp h2
        apply Dead.lost' ((justsFor_ne_nil_iff H y).mpr hex)
        intro P hP
        obtain ⟨z, hz, hzD⟩ := (lostAll_iff _ _ _).mp hl P ((mem_allJusts H y P).mpr hP)
        exact ⟨z, hz, hD z hzD⟩

/-- cached proofs not yet in `D`: what the fixpoint iteration can still add -/
def todo (J : List (Nat × List Nat)) (D : List Nat) : Nat := (J.map (·.1)).countP (fun h => !D.contains h)

theorem newDead_nil_of_todo_zero (J : List (Nat × List Nat)) (D : List Nat) (h : todo J D = 0) :
    newDead J D = [] := by
  unfold todo at h
  rw [List.countP_eq_zero] at h
  unfold newDead
  rw [List.filter_eq_nil_iff]
  intro a ha
  have := h a ha
  simp only [Bool.not_eq_true, Bool.and_eq_true, not_and] at this ⊢
  intro h1; rw [h1] at this; cases this

theorem todo_lt (J : List (Nat × List Nat)) (D : List Nat) (h : newDead J D ≠ []) :
    todo J (D ++ newDead J D) < todo J D := by
  unfold todo
  apply countP_lt
  · intro x hx
    simp only [Bool.not_eq_eq_eq_not, Bool.not_true, contains_false_iff, List.mem_append, not_or] at hx ⊢
    exact hx.1
  · cases hnd : newDead J D with
    | nil => exact absurd hnd h
    | cons x tl =>
      have hx : x ∈ newDead J D := by rw [hnd]; exact List.mem_cons_self ..
      obtain ⟨⟨P, hP⟩, hnot, _⟩ := (mem_newDead _ _ _).mp hx
      refine ⟨x, List.mem_map.mpr ⟨(x, P), hP, rfl⟩, ?_, ?_⟩
      · simpa using hnot
      · rw [← hnd]; simp [hx]

theorem closeN_closed (J : List (Nat × List Nat)) : ∀ (n : Nat) (D : List Nat), todo J D ≤ n →
    newDead J (closeN J n D) = [] := by
  intro n
  induction n with
  | zero => intro D h; exact newDead_nil_of_todo_zero J D (Nat.le_zero.mp h)
  | succ n ih =>
    intro D h
    simp only [closeN]
    split
    · assumption
    · rename_i hne
      apply ih
      have := todo_lt J D hne
      omega

theorem todo_le (J : List (Nat × List Nat)) (D : List Nat) : todo J D ≤ J.length := by
  unfold todo
  have := List.countP_le_length (p := fun h => !D.contains h) (l := J.map (·.1))
  simpa using this

/-- **the oracle's dead set is the inductive `Dead`** (every history, well-formed or not) -/
theorem mem_deadSet_iff : ∀ (H : List Op) (q : Nat), q ∈ deadSet H ↔ Dead H q
  | [], q => by simp [deadSet, not_dead_nil]
  | op :: H, q => by
    constructor
    · apply closeN_dead (op :: H)
      intro x hx
      rcases List.mem_append.mp hx with h1 | h2
      · cases op with
        | ins h k ps => simp [directOf] at h1
        | inv p => simp [directOf] at h1; subst h1; exact Dead.direct H x
      · exact Dead.older _ H x ((mem_deadSet_iff H x).mp h2)
    · apply dead_least op H (fun q => q ∈ deadSet (op :: H))
      · intro q hq; exact closeN_sub _ _ _ q (List.mem_append_left _ hq)
      · intro q hd
        exact closeN_sub _ _ _ q (List.mem_append_right _ ((mem_deadSet_iff H q).mpr hd))
      · intro q hne hall
        apply Classical.byContradiction
        intro hq
        have hcl := closeN_closed (allJusts (op :: H)) (allJusts (op :: H)).length
          (directOf op ++ deadSet H) (todo_le _ _)
        have hmem : q ∈ newDead (allJusts (op :: H)) (deadSet (op :: H)) := by
          apply (mem_newDead _ _ _).mpr
          refine ⟨(justsFor_ne_nil_iff _ q).mp hne, hq, ?_⟩
          apply (lostAll_iff _ _ _).mpr
          intro P hP
          exact hall P ((mem_allJusts _ q P).mp hP)
        have : newDead (allJusts (op :: H)) (deadSet (op :: H)) = [] := hcl
        rw [this] at hmem; cases hmem

theorem liveJB_iff (H : List Op) (P : List Nat) : liveJB (deadSet H) P = true ↔ LiveJ H P := by
  unfold liveJB LiveJ
  simp only [List.all_eq_true, Bool.not_eq_eq_eq_not, Bool.not_true, contains_false_iff, mem_deadSet_iff]

theorem provenB_iff (H : List Op) (h : Nat) : provenB H h = true ↔ Proven H h := by
  unfold provenB provenWith Proven
  simp only [Bool.and_eq_true, List.any_eq_true, liveJB_iff, Bool.not_eq_eq_eq_not, Bool.not_true]

theorem wfB_iff : ∀ (H : List Op), wfB H = true ↔ WellFormed H
  | [] => by simp [wfB, WellFormed]
  | .inv _ :: H => by simp only [wfB, WellFormed]; exact wfB_iff H
  | .ins _ _ ps :: H => by
    simp only [wfB, WellFormed, Bool.and_eq_true, liveJB_iff, wfB_iff H]

theorem mem_handlesUnder : ∀ (H : List Op) (k h : Nat), h ∈ handlesUnder H k ↔ InsertedUnder H k h
  | [], k, h => by simp [handlesUnder, InsertedUnder]
  | .inv p :: H, k, h => by
    rw [insertedUnder_inv]; simp only [handlesUnder]; exact mem_handlesUnder H k h
  | .ins h' k' ps :: H, k, h => by
    rw [insertedUnder_ins]
    simp only [handlesUnder]
    by_cases e : k' = k
    · subst e
      simp only [if_true, List.mem_cons, mem_handlesUnder H, Prod.mk.injEq, true_and]
    · have : ¬ k = k' := fun x => e x.symm
      simp only [if_neg e, mem_handlesUnder H, Prod.mk.injEq, this, false_and, false_or]

end C17
