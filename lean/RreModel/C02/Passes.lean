import RreModel.C02.Spec
import RreModel.C03.Spec
/-
C02 — the per-pass clauses of the property evaluated on the firing log of a call that made ANY number of passes.

The observable log of one `execute` is the concatenation of the logs of its passes; the pass borders are not in it.
`segCycles` recovers them by walking, pass after pass, the salience-sorted rule vector next to the log, exactly as
`execute_at_time` does (src/engine/engine.rs): a pass ends when the vector is exhausted; the call ends after a pass
that fired nothing or when the fuel (the observed `cycle_count`) is used up. The state it keeps is reference
bookkeeping derived from the observations only:
  facts   the caller's facts: as observed before the call, then the fired rules' actions applied (as `execAction` does)
  foc     the focused agenda group (as observed before the call, then the `ActivateAgendaGroup` actions of fired rules)
  R       the reference sets of `C02.Ref` (no-loop names since the last reset, lock-on-active (group, rule) since the last
          activation of the group) — they persist across passes and calls
  af      the activation groups that fired — reset at the start of every pass (`reset_cycle`)
At a rule's turn the property's letter decides whether it fires: it is enabled, inside its date window, in the focused
group, not held back by no-loop / lock-on-active (`C03.refGate`), its activation group has not fired in THIS pass, and
its condition holds on the facts of that moment (`RSt.should`). If so the log must continue with this rule's firing
(`notFired` otherwise: "the one that fires is not the first eligible one with a true condition" when the rule has an
activation group); if not the rule is passed over. Firings that no pass explains are `leftover` (a rule fired although
it was disabled / outside its dates / outside the focus / held back / its activation group had fired in the pass /
its condition was false, or out of vector order). A call that returned `Err` is replayed the same way up to the rule
whose action fails (`segAcceptErr`). By construction every recovered pass is a subsequence of the sorted
vector with at most one rule per activation group; the theorems (Theorems2.lean) show that the model's multi-pass
`exec` is accepted with exactly its own passes as the segmentation.
No Mathlib; evaluated by the driver on the implementation's log.
-/
namespace C02

/-- observable log event: rule `n` fired / an `ActivateAgendaGroup(g)` action ran -/
inductive LEv where
  | fire (n : Nat)
  | act (g : Nat)
deriving Repr, DecidableEq

def levOfEv : Ev → LEv
  | .fire r _ => .fire r.name
  | .act g => .act g

/-- reference state of the replay -/
structure RSt where
  facts : List (Nat × Int)
  foc : Nat
  R : Ref
  af : List Nat := []
deriving Repr, DecidableEq

/-- a recorded activation of group `g` -/
def RSt.focus (s : RSt) (g : Nat) : RSt :=
  { s with foc := g, R := { s.R with lk := s.R.lk.filter (fun p => p.1 ≠ g) } }

/-- one action of a fired rule on the reference state (`execAction` on the facts; an activation is a focus event);
`none`: the action returns `Err` -/
def RSt.applyAction (s : RSt) : Action → Option RSt
  | .set f v => some { s with facts := fset s.facts f v }
  | .add f k =>
    match fget s.facts f with
    | some x => some { s with facts := fset s.facts f (x + k) }
    | none => none
  | .activate g => some (s.focus g)

def RSt.applyActions : RSt → List Action → Option RSt
  | s, [] => some s
  | s, a :: as =>
    match s.applyAction a with
    | some s' => s'.applyActions as
    | none => none

/-- the `act` events a rule's actions leave in the log -/
def actsOf : List Action → List LEv
  | [] => []
  | .activate g :: as => .act g :: actsOf as
  | .set _ _ :: as => actsOf as
  | .add _ _ :: as => actsOf as

/-- the `act` events of the actions that run before the first failing one -/
def RSt.partialActs : RSt → List Action → List LEv
  | _, [] => []
  | s, a :: as =>
    match s.applyAction a with
    | some s' => actsOf [a] ++ s'.partialActs as
    | none => []

/-- the reference state after the actions that run before the first failing one -/
def RSt.partialState : RSt → List Action → RSt
  | s, [] => s
  | s, a :: as =>
    match s.applyAction a with
    | some s' => s'.partialState as
    | none => s

/-- the rule's activation group has already fired in this pass -/
def blocked (af : List Nat) (r : Rule) : Bool :=
  match r.actGroup with
  | some a => af.contains a
  | none => false

/-- the property's letter at a rule's turn: it fires iff … -/
def RSt.should (s : RSt) (t : Nat) (r : Rule) : Bool :=
  !blocked s.af r && C03.refGate s.R s.foc t r && r.cond.holds s.facts

/-- bookkeeping of a firing (what `Ref.step (.fire r)` does when it accepts; the activation group is taken) -/
def RSt.mark (s : RSt) (r : Rule) : RSt :=
  { s with R := { nl := if r.noLoop then r.name :: s.R.nl else s.R.nl,
                  lk := if r.lock then (r.group, r.name) :: s.R.lk else s.R.lk },
           af := match r.actGroup with
                 | some a => a :: s.af
                 | none => s.af }

def stripPrefix : List LEv → List LEv → Option (List LEv)
  | [], evs => some evs
  | _ :: _, [] => none
  | a :: as, e :: es => if a = e then stripPrefix as es else none

inductive SegErr where
  /-- an eligible rule with a true condition did not fire at its turn (`ag`: it has an activation group, which was free) -/
  | notFired (n : Nat) (ag : Bool)
  /-- an action of rule `n`, which is due to fire, fails on the reference facts: the call returns `Err` here. `exact`: the
  events that remain are exactly the `act` events of the actions that ran before the failing one (a call that returned
  `Ok` must not get here at all); `s`: the reference state after those actions (the rule is not marked as fired) -/
  | actionFailed (n : Nat) (exact : Bool) (s : RSt)
  /-- events that no pass explains -/
  | leftover
  /-- the reference made fewer passes than `cycle_count` (a pass that fires nothing ends the call) -/
  | cycleCount
  /-- the call returned before the bound although its last pass fired a rule -/
  | earlyStopAfterFiring
deriving Repr, DecidableEq

/-- result of (part of) a replay: state, events not yet explained, what was recovered -/
structure SegOut (α : Type) where
  s : RSt
  rest : List LEv
  val : α
deriving Repr, DecidableEq

/-- one pass over the sorted vector; `val` = the names fired, in order -/
def segPass (t : Nat) : List Rule → RSt → List LEv → Except SegErr (SegOut (List Nat))
  | [], s, evs => .ok { s := s, rest := evs, val := [] }
  | r :: rs, s, evs =>
    if s.should t r then
      match s.applyActions r.actions with
      | none => .error (.actionFailed r.name (evs == s.partialActs r.actions) (s.partialState r.actions))
      | some s' =>
        match stripPrefix (actsOf r.actions ++ [.fire r.name]) evs with
        | none => .error (.notFired r.name r.actGroup.isSome)
        | some evs' =>
          match segPass t rs (s'.mark r) evs' with
          | .error e => .error e
          | .ok o => .ok { o with val := r.name :: o.val }
    else segPass t rs s evs

/-- the cycle loop with the given fuel; `val` = (the passes, the last pass made fired nothing) -/
def segCycles (t : Nat) (vec : List Rule) : Nat → RSt → List LEv → Except SegErr (SegOut (List (List Nat) × Bool))
  | 0, s, evs => .ok { s := s, rest := evs, val := ([], false) }
  | n + 1, s, evs =>
    match segPass t vec { s with af := [] } evs with
    | .error e => .error e
    | .ok p =>
      if p.val.isEmpty then .ok { s := p.s, rest := p.rest, val := ([[]], true) }
      else
        match segCycles t vec n p.s p.rest with
        | .error e => .error e
        | .ok o => .ok { o with val := (p.val :: o.val.1, o.val.2) }

/-- **the segmented predicate** on one `execute` that returned `Ok` with `cycle_count = c` under `max_cycles = maxc`:
the log is exactly `c` passes of the reference, and a return before the bound comes after a pass that fired nothing.
Returns the reference state after the call and the recovered passes. -/
def segAccept (maxc t : Nat) (vec : List Rule) (c : Nat) (s : RSt) (evs : List LEv) :
    Except SegErr (RSt × List (List Nat)) :=
  match segCycles t vec c s evs with
  | .error e => .error e
  | .ok o =>
    if !o.rest.isEmpty then .error .leftover
    else if o.val.1.length != c then .error .cycleCount
    else if c < maxc && !o.val.2 then .error .earlyStopAfterFiring
    else .ok (o.s, o.val.1)

/-- **the segmented predicate on an `execute` that returned `Err`** (its `cycle_count` is not observable: the fuel is the
bound): every pass before the failure is a pass of the reference that fired, and the log ends, inside a pass, exactly
at the first rule due to fire one of whose actions fails on the reference facts, after the `act` events of the actions
before the failing one; returns the reference state the call leaves behind -/
def segAcceptErr (maxc t : Nat) (vec : List Rule) (s : RSt) (evs : List LEv) : Option RSt :=
  match segCycles t vec maxc s evs with
  | .error (.actionFailed _ true sp) => some sp
  | _ => none

/-- `execute_workflow(groups)`: per group a recorded activation and an `execute` (whose `cycle_count` is not
observable: the reference runs until a silent pass or `maxc` passes); stops after a step that fired nothing.
`val` = the recovered passes of the steps made. -/
def segWorkflow (maxc t : Nat) (vec : List Rule) : List Nat → RSt → List LEv →
    Except SegErr (SegOut (List (List (List Nat))))
  | [], s, evs => .ok { s := s, rest := evs, val := [] }
  | g :: gs, s, evs =>
    match segCycles t vec maxc (s.focus g) evs with
    | .error e => .error e
    | .ok o =>
      if o.val.1.all (·.isEmpty) then .ok { s := o.s, rest := o.rest, val := [o.val.1] }
      else
        match segWorkflow maxc t vec gs o.s o.rest with
        | .error e => .error e
        | .ok w => .ok { w with val := o.val.1 :: w.val }

/-! ### the single-pass clauses on a recovered pass (evaluated by the driver on every segment) -/

/-- names → the rules of the vector -/
def rulesOfNames (vec : List Rule) (ns : List Nat) : List Rule :=
  ns.filterMap (fun n => vec.find? (fun r => r.name == n))

/-- a pass is a subsequence of the sorted vector (descending salience, vector order among equals) and fires at most
one rule per activation group -/
def passClausesOk (vec : List Rule) (ns : List Nat) : Bool :=
  ns.isSublist (vec.map (·.name)) && onePerActGroup (rulesOfNames vec ns)

end C02
