import RreModel.C02.Lemmas
import RreModel.C02.ApiLemmas
import RreModel.C02.Passes
import RreModel.C03.Lemmas
/-
C02 — the segmented replay (`Passes.lean`) against the model: the reference state of the replay is an EXACT image of the
engine's bookkeeping (`Rel`), so at every rule's turn the property's letter (`RSt.should`) and the code's gate + condition
agree, and the replay of the model's own log recovers the model's own passes.
-/
namespace C02

/-- the reference state is an exact image of the engine state: same facts, same focus, the reference sets have the same
members as `fired_rules_global` / `fired_rules_per_activation` / `ActivationGroupManager::fired_groups`; the agenda
manager's own invariant (a group with a fired-entry has been activated) and an empty workflow queue (as inside `execute`
after `sync`) -/
structure Rel (s : RSt) (st : St) : Prop where
  facts : s.facts = st.facts
  foc : s.foc = st.agenda.active
  nl : ∀ n, n ∈ s.R.nl ↔ n ∈ st.firedGlobal
  lk : ∀ p, p ∈ s.R.lk ↔ p ∈ st.agenda.firedPer
  inv : ∀ p ∈ st.agenda.firedPer, p.1 ∈ st.agenda.activated
  af : ∀ a, a ∈ s.af ↔ a ∈ st.actFired
  q : st.queue = []

theorem shouldEvaluate_eq (a : Agenda) (r : Rule) : a.shouldEvaluate r = (r.group == a.active) := by
  unfold Agenda.shouldEvaluate Rule.group
  cases r.agenda with
  | none => rw [Bool.eq_iff_iff, beq_iff_eq, beq_iff_eq]; exact eq_comm
  | some g => rfl

theorem canFire_eq {s : RSt} {st : St} (h : Rel s st) (r : Rule) :
    st.agenda.canFire r = !(r.lock && s.R.lk.contains (r.group, r.name)) := by
  unfold Agenda.canFire
  by_cases hl : r.lock = true
  · by_cases hm : (r.group, r.name) ∈ st.agenda.firedPer
    · have h1 := h.inv _ hm
      have h2 := (h.lk _).mpr hm
      simp [hl, hm, h1, h2]
    · have h2 : (r.group, r.name) ∉ s.R.lk := fun x => hm ((h.lk _).mp x)
      simp [hl, hm, h2]
  · simp [hl]

theorem actCanFire_eq {s : RSt} {st : St} (h : Rel s st) (r : Rule) :
    actCanFire st.actFired r = !blocked s.af r := by
  unfold actCanFire blocked
  cases r.actGroup with
  | none => rfl
  | some a =>
    by_cases hm : a ∈ st.actFired
    · have := (h.af a).mpr hm; simp [hm, this]
    · have : a ∉ s.af := fun x => hm ((h.af a).mp x)
      simp [hm, this]

theorem noLoop_eq {s : RSt} {st : St} (h : Rel s st) (r : Rule) :
    st.firedGlobal.contains r.name = s.R.nl.contains r.name := by
  by_cases hm : r.name ∈ st.firedGlobal
  · have := (h.nl _).mpr hm; simp [hm, this]
  · have : r.name ∉ s.R.nl := fun x => hm ((h.nl _).mp x)
    simp [hm, this]

/-- at every rule's turn the code's gate and condition say what the property's letter says -/
theorem gate_eq_should {s : RSt} {st : St} (h : Rel s st) (t : Nat) (r : Rule) :
    (gate st t r && r.cond.holds st.facts) = s.should t r := by
  unfold gate RSt.should C03.refGate
  rw [shouldEvaluate_eq, canFire_eq h, actCanFire_eq h, noLoop_eq h, h.facts, h.foc]
  cases r.enabled <;> cases (r.group == st.agenda.active) <;> cases r.activeAt t <;> cases blocked s.af r <;>
    cases (r.noLoop && s.R.nl.contains r.name) <;> cases (r.lock && s.R.lk.contains (r.group, r.name)) <;> simp

/-! ### actions -/

theorem rel_applyAction {s : RSt} {st st' : St} {a : Action} (h : Rel s st) (hx : execAction st a = some st') :
    ∃ s', s.applyAction a = some s' ∧ Rel s' st' ∧ s'.af = s.af := by
  cases a with
  | set f v =>
    simp only [execAction, Option.some.injEq] at hx
    subst hx
    exact ⟨_, rfl, ⟨by simp [h.facts], h.foc, h.nl, h.lk, h.inv, h.af, h.q⟩, rfl⟩
  | add f k =>
    simp only [execAction] at hx
    cases hg : fget st.facts f with
    | none => simp [hg] at hx
    | some x =>
      simp only [hg, Option.some.injEq] at hx
      subst hx
      refine ⟨{ s with facts := fset s.facts f (x + k) }, ?_, ⟨by simp [h.facts], h.foc, h.nl, h.lk, h.inv, h.af, h.q⟩, rfl⟩
      simp [RSt.applyAction, h.facts, hg]
  | activate g =>
    simp only [execAction, Option.some.injEq] at hx
    subst hx
    refine ⟨s.focus g, rfl, ⟨h.facts, rfl, h.nl, ?_, ?_, h.af, h.q⟩, rfl⟩
    · intro p
      simp only [RSt.focus, Agenda.setFocus, List.mem_filter, h.lk p]
    · intro p hp
      simp only [Agenda.setFocus, List.mem_filter] at hp
      exact mem_activated_setFocus (h.inv p hp.1)

theorem rel_applyActions {s : RSt} {st : St} (as : List Action) (h : Rel s st) (hok : (execActions st as).2.2 = true) :
    ∃ s', s.applyActions as = some s' ∧ Rel s' (execActions st as).1 ∧ s'.af = s.af ∧
      (execActions st as).2.1.map levOfEv = actsOf as := by
  induction as generalizing s st with
  | nil => exact ⟨s, rfl, h, rfl, rfl⟩
  | cons a rest ih =>
    unfold execActions at hok ⊢
    cases hx : execAction st a with
    | none => simp [hx] at hok
    | some st' =>
      simp only [hx] at hok ⊢
      obtain ⟨s1, h1, h2, h3⟩ := rel_applyAction h hx
      obtain ⟨s2, h4, h5, h6, h7⟩ := ih h2 hok
      refine ⟨s2, by simp [RSt.applyActions, h1, h4], h5, by rw [h6, h3], ?_⟩
      rw [List.map_append, h7]
      cases a <;> simp [actEv, actsOf, levOfEv]

theorem rel_applyActions_fail {s : RSt} {st : St} (as : List Action) (h : Rel s st)
    (hok : (execActions st as).2.2 = false) :
    s.applyActions as = none ∧ (execActions st as).2.1.map levOfEv = s.partialActs as ∧
      Rel (s.partialState as) (execActions st as).1 := by
  induction as generalizing s st with
  | nil => simp [execActions] at hok
  | cons a rest ih =>
    unfold execActions at hok ⊢
    cases hx : execAction st a with
    | none =>
      have hn : s.applyAction a = none := by
        cases a with
        | set f v => simp [execAction] at hx
        | activate g => simp [execAction] at hx
        | add f k =>
          simp only [execAction] at hx
          cases hg : fget st.facts f with
          | none => simp [RSt.applyAction, h.facts, hg]
          | some x => simp [hg] at hx
      refine ⟨by simp [RSt.applyActions, hn], by simp [RSt.partialActs, hn], ?_⟩
      simp only [RSt.partialState, hn]
      exact h
    | some st' =>
      simp only [hx] at hok ⊢
      obtain ⟨s1, h1, h2, _⟩ := rel_applyAction h hx
      obtain ⟨h4, h5, h6⟩ := ih h2 hok
      refine ⟨by simp [RSt.applyActions, h1, h4], ?_, by simpa [RSt.partialState, h1] using h6⟩
      simp only [RSt.partialActs, h1, List.map_append, h5]
      cases a <;> simp [actEv, actsOf, levOfEv]

theorem rel_mark {s : RSt} {st : St} (r : Rule) (h : Rel s st) : Rel (s.mark r) (markAll st r) := by
  refine ⟨h.facts, ?_, ?_, ?_, ?_, ?_, h.q⟩
  · simp only [RSt.mark, markAll, Agenda.markFired]
    split <;> exact h.foc
  · intro n
    simp only [RSt.mark, markAll]
    by_cases hl : r.noLoop = true
    · simp only [hl, if_true, List.mem_cons]
      split
      · rename_i hc
        have hc' : r.name ∈ st.firedGlobal := by simpa using hc
        constructor
        · rintro (rfl | hn)
          · exact hc'
          · exact (h.nl n).mp hn
        · intro hn; exact Or.inr ((h.nl n).mpr hn)
      · simp only [List.mem_cons, h.nl n]
    · simp only [hl]; exact h.nl n
  · intro p
    simp only [RSt.mark, markAll, Agenda.markFired]
    by_cases hl : r.lock = true
    · simp only [hl, if_true, List.mem_cons]
      split
      · rename_i hc
        have hc' : (r.group, r.name) ∈ st.agenda.firedPer := by simpa using hc
        constructor
        · rintro (rfl | hn)
          · exact hc'
          · exact (h.lk p).mp hn
        · intro hn; exact Or.inr ((h.lk p).mpr hn)
      · simp only [List.mem_cons, h.lk p]
    · simp only [hl]; exact h.lk p
  · intro p hp
    simp only [markAll, Agenda.markFired] at hp ⊢
    by_cases hl : r.lock = true
    · simp only [hl, if_true] at hp ⊢
      have hp' : p = (r.group, r.name) ∨ p ∈ st.agenda.firedPer := by
        split at hp
        · exact Or.inr hp
        · simpa using hp
      rcases hp' with rfl | hp'
      · split
        · rename_i hc; simpa using hc
        · simp
      · have := h.inv p hp'
        split <;> simp [this]
    · simp only [hl] at hp ⊢; exact h.inv p hp
  · intro a
    simp only [RSt.mark, markAll]
    cases hg : r.actGroup with
    | none => exact h.af a
    | some g =>
      simp only
      split
      · rename_i hc
        have hc' : g ∈ st.actFired := by simpa using hc
        simp only [List.mem_cons]
        constructor
        · rintro (rfl | hn)
          · exact hc'
          · exact (h.af a).mp hn
        · intro hn; exact Or.inr ((h.af a).mpr hn)
      · simp only [List.mem_cons, h.af a]

/-! ### the log -/

theorem stripPrefix_append (a b : List LEv) : stripPrefix a (a ++ b) = some b := by
  induction a with
  | nil => rfl
  | cons x xs ih => simp [stripPrefix, ih]

theorem names_append (a b : List Ev) :
    (firedRules (a ++ b)).map (·.name) = (firedRules a).map (·.name) ++ (firedRules b).map (·.name) := by
  rw [firedRules_append, List.map_append]

/-- **one pass**: the replay of the log of a completed pass of the model explains it exactly, recovers the names it fired
and ends in the exact image of the state the pass ended in -/
theorem segPass_model (t : Nat) (rs : List Rule) (st : St) (s : RSt) (rest : List LEv) (h : Rel s st)
    (hok : (passLoop t rs st).ok = true) :
    ∃ s', segPass t rs s ((passLoop t rs st).log.map levOfEv ++ rest) =
        .ok { s := s', rest := rest, val := (firedRules (passLoop t rs st).log).map (·.name) } ∧
      Rel s' (passLoop t rs st).st := by
  induction rs generalizing st s with
  | nil => exact ⟨s, by simp [passLoop, segPass, firedRules], by simpa [passLoop] using h⟩
  | cons r rs ih =>
    have hgs := gate_eq_should h t r
    simp only [passLoop] at hok ⊢
    rcases ruleStep_cases t st r with c | c | c
    · -- the rule fires
      simp only [c.1, if_true] at hok ⊢
      have hsh : s.should t r = true := by rw [← hgs, c.2.2.2.1, c.2.2.2.2.1]; rfl
      obtain ⟨s1, h1, h2, h3, h4⟩ := rel_applyActions r.actions h c.2.2.2.2.2.1
      have hrel : Rel (s1.mark r) (ruleStep t st r).st := by rw [c.2.2.2.2.2.2.1]; exact rel_mark r h2
      have hok' : (passLoop t rs (ruleStep t st r).st).ok = true := by simpa [PassOut.andThen] using hok
      obtain ⟨s2, h5, h6⟩ := ih _ _ hrel hok'
      refine ⟨s2, ?_, by simpa [PassOut.andThen] using h6⟩
      have hlog : ((ruleStep t st r).andThen (passLoop t rs (ruleStep t st r).st)).log.map levOfEv ++ rest =
          (actsOf r.actions ++ [LEv.fire r.name]) ++
            ((passLoop t rs (ruleStep t st r).st).log.map levOfEv ++ rest) := by
        simp only [PassOut.andThen, c.2.2.2.2.2.2.2, List.map_append, h4, List.map_cons, List.map_nil, levOfEv,
          List.append_assoc]
      have hnames : (firedRules ((ruleStep t st r).andThen (passLoop t rs (ruleStep t st r).st)).log).map (·.name) =
          r.name :: (firedRules (passLoop t rs (ruleStep t st r).st).log).map (·.name) := by
        simp only [PassOut.andThen, names_append, ruleStep_firedRules, c.2.1, if_true, List.map_cons, List.map_nil,
          List.singleton_append]
      rw [hlog, hnames]
      simp only [segPass, hsh, if_true, stripPrefix_append, h1, h5]
    · -- an action failed: the pass is not completed
      simp [c.1] at hok
    · -- the rule is passed over
      simp only [c.1, if_true] at hok ⊢
      have hsh : s.should t r = false := by rw [← hgs]; exact c.2.2.2.1
      have hrel : Rel s (ruleStep t st r).st := by rw [c.2.2.2.2.1]; exact h
      have hok' : (passLoop t rs (ruleStep t st r).st).ok = true := by simpa [PassOut.andThen] using hok
      obtain ⟨s2, h5, h6⟩ := ih _ _ hrel hok'
      refine ⟨s2, ?_, by simpa [PassOut.andThen] using h6⟩
      simp only [PassOut.andThen, c.2.2.2.2.2, List.nil_append] at h5 ⊢
      simp only [segPass, hsh, Bool.false_eq_true, if_false]
      exact h5

/-! ### the cycle loop -/

theorem rel_reset {s : RSt} {st : St} (h : Rel s st) : Rel { s with af := [] } { st with actFired := [] } :=
  ⟨h.facts, h.foc, h.nl, h.lk, h.inv, by simp, h.q⟩

theorem names_nil_of_fired_zero {t : Nat} {rs : List Rule} {st : St} (hf : (passLoop t rs st).fired = 0) :
    (firedRules (passLoop t rs st).log).map (·.name) = [] := by
  have := C03.passLoop_fired_eq t rs st
  rw [hf, fireCount_eq_length] at this
  have : firedRules (passLoop t rs st).log = [] := List.eq_nil_of_length_eq_zero this.symm
  rw [this]; rfl

theorem names_ne_nil_of_fired {t : Nat} {rs : List Rule} {st : St} (hf : (passLoop t rs st).fired ≠ 0) :
    ((firedRules (passLoop t rs st).log).map (·.name)).isEmpty = false := by
  have := C03.passLoop_fired_eq t rs st
  rw [fireCount_eq_length] at this
  cases hl : firedRules (passLoop t rs st).log with
  | nil => rw [hl] at this; simp at this; exact absurd this hf
  | cons a as => rfl

/-- **all passes**: the replay, with the call's own `cycle_count` as fuel, of the log of a completed `execute` loop of the
model recovers exactly the model's passes, ends in the exact image of the final state, makes `cycle_count` passes, and
reports a silent last pass whenever the loop returned before its bound -/
theorem segCycles_model (t n : Nat) (st : St) (s : RSt) (rest : List LEv)
    (h : Rel { s with af := [] } { st with actFired := [] }) (hok : (cycles t n st).ok = true) :
    ∃ s' b, segCycles t (sortSal st.rules) (cycles t n st).cycles s ((cycles t n st).passes.flatten.map levOfEv ++ rest) =
        .ok { s := s', rest := rest, val := ((cycles t n st).passes.map (fun p => (firedRules p).map (·.name)), b) } ∧
      Rel { s' with af := [] } { (cycles t n st).st with actFired := [] } ∧
      (cycles t n st).passes.length = (cycles t n st).cycles ∧
      ((cycles t n st).cycles < n → b = true) := by
  induction n generalizing st s with
  | zero => exact ⟨s, false, by simp [cycles, segCycles], by simpa [cycles] using h, by simp [cycles], by simp [cycles]⟩
  | succ n ih =>
    by_cases hpok : (C03.firstPass t st).ok = true
    · obtain ⟨s1, h1, h2⟩ := segPass_model t (sortSal st.rules) { st with actFired := [] } { s with af := [] }
        ((cycles t (n + 1) st).passes.tail.flatten.map levOfEv ++ rest) h hpok
      by_cases hf : (C03.firstPass t st).fired = 0
      · rw [C03.cycles_succ_silent hpok hf]
        rw [C03.cycles_succ_silent hpok hf] at h1
        refine ⟨s1, true, ?_, rel_reset h2, rfl, fun _ => rfl⟩
        have hn := names_nil_of_fired_zero hf
        simp only [List.tail_cons, List.flatten_nil, List.map_nil, List.nil_append, hn, C03.firstPass] at h1
        simp only [segCycles, List.flatten_cons, List.flatten_nil, List.append_nil, C03.firstPass, h1,
          List.isEmpty_nil, if_true, List.map_cons, List.map_nil, hn]
      · have hmore := C03.cycles_succ_more (n := n) hpok hf
        rw [hmore] at hok h1
        have hsync : sync (C03.firstPass t st).st = (C03.firstPass t st).st := sync_of_queue_nil h2.q
        have hrules : (sync (C03.firstPass t st).st).rules = st.rules := C03.firstPass_rules t st
        have hrel : Rel { s1 with af := [] } { sync (C03.firstPass t st).st with actFired := [] } := by
          rw [hsync]; exact rel_reset h2
        obtain ⟨s2, b, h3, h4, h5, h6⟩ := ih (sync (C03.firstPass t st).st) s1 hrel hok
        rw [hrules] at h3
        rw [hmore]
        refine ⟨s2, b, ?_, h4, by simp [h5], fun hlt => h6 (by simpa using hlt)⟩
        have hn := names_ne_nil_of_fired hf
        simp only [List.tail_cons, C03.firstPass] at h1
        simp only [segCycles, List.flatten_cons, List.map_append, List.append_assoc, C03.firstPass, h1, hn,
          Bool.false_eq_true, if_false, List.map_cons]
        simp only [C03.firstPass] at h3
        rw [h3]
    · have hpf : (C03.firstPass t st).ok = false := by simpa using hpok
      rw [C03.cycles_succ_err hpf] at hok
      simp at hok

/-! ### calls that return `Err` -/

/-- a pass that is aborted by a failing action: the replay of its log stops at that rule, with exactly the `act` events
of the actions before the failing one left, in the exact image of the state the pass ended in -/
theorem segPass_model_err (t : Nat) (rs : List Rule) (st : St) (s : RSt) (h : Rel s st)
    (hok : (passLoop t rs st).ok = false) :
    ∃ n sp, segPass t rs s ((passLoop t rs st).log.map levOfEv) = .error (.actionFailed n true sp) ∧
      Rel sp (passLoop t rs st).st := by
  induction rs generalizing st s with
  | nil => simp [passLoop] at hok
  | cons r rs ih =>
    have hgs := gate_eq_should h t r
    simp only [passLoop] at hok ⊢
    rcases ruleStep_cases t st r with c | c | c
    · simp only [c.1, if_true] at hok ⊢
      have hsh : s.should t r = true := by rw [← hgs, c.2.2.2.1, c.2.2.2.2.1]; rfl
      obtain ⟨s1, h1, h2, _, h4⟩ := rel_applyActions r.actions h c.2.2.2.2.2.1
      have hrel : Rel (s1.mark r) (ruleStep t st r).st := by rw [c.2.2.2.2.2.2.1]; exact rel_mark r h2
      have hok' : (passLoop t rs (ruleStep t st r).st).ok = false := by simpa [PassOut.andThen] using hok
      obtain ⟨n, sp, h5, h6⟩ := ih _ _ hrel hok'
      refine ⟨n, sp, ?_, by simpa [PassOut.andThen] using h6⟩
      have hlog : ((ruleStep t st r).andThen (passLoop t rs (ruleStep t st r).st)).log.map levOfEv =
          (actsOf r.actions ++ [LEv.fire r.name]) ++ (passLoop t rs (ruleStep t st r).st).log.map levOfEv := by
        simp only [PassOut.andThen, c.2.2.2.2.2.2.2, List.map_append, h4, List.map_cons, List.map_nil, levOfEv]
      rw [hlog]
      simp only [segPass, hsh, if_true, stripPrefix_append, h1, h5]
    · have hsh : s.should t r = true := by rw [← hgs, c.2.2.2.1, c.2.2.2.2.1]; rfl
      obtain ⟨h1, h2, h3⟩ := rel_applyActions_fail r.actions h c.2.2.2.2.2.1
      refine ⟨r.name, s.partialState r.actions, ?_, ?_⟩
      · simp only [c.1, Bool.false_eq_true, if_false, c.2.2.2.2.2.2.2, h2, segPass, hsh, if_true, h1, beq_self_eq_true]
      · simp only [c.1, Bool.false_eq_true, if_false, c.2.2.2.2.2.2.1]; exact h3
    · simp only [c.1, if_true] at hok ⊢
      have hsh : s.should t r = false := by rw [← hgs]; exact c.2.2.2.1
      have hrel : Rel s (ruleStep t st r).st := by rw [c.2.2.2.2.1]; exact h
      have hok' : (passLoop t rs (ruleStep t st r).st).ok = false := by simpa [PassOut.andThen] using hok
      obtain ⟨n, sp, h5, h6⟩ := ih _ _ hrel hok'
      refine ⟨n, sp, ?_, by simpa [PassOut.andThen] using h6⟩
      simp only [PassOut.andThen, c.2.2.2.2.2, List.nil_append] at h5 ⊢
      simp only [segPass, hsh, Bool.false_eq_true, if_false]
      exact h5

/-- an `execute` loop that returns `Err`: the replay with the bound as fuel explains every pass before the failure and
stops exactly at the failing rule, in the exact image of the state the call leaves behind -/
theorem segCycles_model_err (t n : Nat) (st : St) (s : RSt)
    (h : Rel { s with af := [] } { st with actFired := [] }) (hok : (cycles t n st).ok = false) :
    ∃ m sp, segCycles t (sortSal st.rules) n s ((cycles t n st).passes.flatten.map levOfEv) =
        .error (.actionFailed m true sp) ∧
      Rel { sp with af := [] } { (cycles t n st).st with actFired := [] } := by
  induction n generalizing st s with
  | zero => simp [cycles] at hok
  | succ n ih =>
    by_cases hpok : (C03.firstPass t st).ok = true
    · by_cases hf : (C03.firstPass t st).fired = 0
      · rw [C03.cycles_succ_silent hpok hf] at hok; simp at hok
      · have hmore := C03.cycles_succ_more (n := n) hpok hf
        rw [hmore] at hok
        obtain ⟨s1, h1, h2⟩ := segPass_model t (sortSal st.rules) { st with actFired := [] } { s with af := [] }
          ((cycles t n (sync (C03.firstPass t st).st)).passes.flatten.map levOfEv) h hpok
        have hsync : sync (C03.firstPass t st).st = (C03.firstPass t st).st := sync_of_queue_nil h2.q
        have hrules : (sync (C03.firstPass t st).st).rules = st.rules := C03.firstPass_rules t st
        have hrel : Rel { s1 with af := [] } { sync (C03.firstPass t st).st with actFired := [] } := by
          rw [hsync]; exact rel_reset h2
        obtain ⟨m, sp, h3, h4⟩ := ih (sync (C03.firstPass t st).st) s1 hrel hok
        rw [hrules] at h3
        rw [hmore]
        refine ⟨m, sp, ?_, h4⟩
        have hn := names_ne_nil_of_fired hf
        simp only [C03.firstPass] at h1 h3
        simp only [segCycles, List.flatten_cons, List.map_append, C03.firstPass, h1, hn, Bool.false_eq_true, if_false, h3]
    · have hpf : (C03.firstPass t st).ok = false := by simpa using hpok
      obtain ⟨m, sp, h1, h2⟩ := segPass_model_err t (sortSal st.rules) { st with actFired := [] } { s with af := [] } h hpf
      rw [C03.cycles_succ_err hpf]
      refine ⟨m, sp, ?_, rel_reset h2⟩
      simp only [segCycles, List.flatten_cons, List.flatten_nil, List.append_nil, C03.firstPass, h1]

/-! ### histories: the reference sets the oracle carries from call to call -/

/-- exactness between calls (the workflow queue may hold activations made by `activate_agenda_group`; they concern no
group the reference still tracks, so their re-application at the next `execute` changes no fired-set) -/
structure ExactQ (R : Ref) (st : St) : Prop where
  nl : ∀ n, n ∈ R.nl ↔ n ∈ st.firedGlobal
  lk : ∀ p, p ∈ R.lk ↔ p ∈ st.agenda.firedPer
  inv : ∀ p ∈ st.agenda.firedPer, p.1 ∈ st.agenda.activated
  q : ∀ g ∈ st.queue, ∀ p ∈ R.lk, p.1 ≠ g

/-- the reference state the oracle starts an `execute` from: the facts and the focus as observed (the focus after the
queue drain: the last group queued by `activate_agenda_group`, else `get_active_agenda_group`), the sets carried -/
def refAt (R : Ref) (st : St) : RSt := { facts := st.facts, foc := (sync st).agenda.active, R := R, af := [] }

/-- the replay of the `execute_at_time(t)` call made in state `st` -/
def replayExec (maxc t : Nat) (R : Ref) (st : St) : Except SegErr (RSt × List (List Nat)) :=
  segAccept maxc t (sortSal st.rules) (exec maxc t st).cycles (refAt R st) ((exec maxc t st).passes.flatten.map levOfEv)

/-- the replay of the `execute_at_time(t)` call made in state `st` when it returns `Err` -/
def replayErr (maxc t : Nat) (R : Ref) (st : St) : Option RSt :=
  segAcceptErr maxc t (sortSal st.rules) (refAt R st) ((exec maxc t st).passes.flatten.map levOfEv)

/-- how the oracle updates the carried sets on each call (it sees whether an `execute` returned `Ok` or `Err`) -/
def refOp (maxc : Nat) (R : Ref) (st : St) : Op → Ref
  | .focus g => { R with lk := R.lk.filter (fun p => p.1 ≠ g) }
  | .activate g => { R with lk := R.lk.filter (fun p => p.1 ≠ g) }
  | .resetNoLoop => { R with nl := [] }
  | .exec t =>
    if (exec maxc t st).ok then
      match replayExec maxc t R st with
      | .ok r => r.1.R
      | .error _ => R
    else
      match replayErr maxc t R st with
      | some sp => sp.R
      | none => R
  | _ => R

/-- the call, if it is an `execute`, is accepted by the segmented predicate (for `Ok`: the replay recovers its passes) -/
def execAccepted (maxc : Nat) (R : Ref) (st : St) : Op → Bool
  | .exec t =>
    if (exec maxc t st).ok then
      match replayExec maxc t R st with
      | .ok r => r.2 == (exec maxc t st).passes.map (fun p => (firedRules p).map (·.name))
      | .error _ => false
    else (replayErr maxc t R st).isSome
  | _ => true

/-- every `execute` of the history is accepted, the reference sets being carried by `refOp` -/
def refRun (maxc : Nat) : Ref → St → List Op → Bool
  | _, _, [] => true
  | R, st, op :: ops => execAccepted maxc R st op && refRun maxc (refOp maxc R st op) (step maxc st op).1 ops

theorem foldl_setFocus_firedPer (q : List Nat) (a : Agenda) (p : Nat × Nat) :
    p ∈ (q.foldl Agenda.setFocus a).firedPer ↔ p ∈ a.firedPer ∧ ∀ g ∈ q, p.1 ≠ g := by
  induction q generalizing a with
  | nil => simp
  | cons g gs ih =>
    simp only [List.foldl_cons, ih, Agenda.setFocus, List.mem_filter, List.mem_cons, forall_eq_or_imp]
    constructor
    · rintro ⟨⟨h1, h2⟩, h3⟩; exact ⟨h1, by simpa using h2, h3⟩
    · rintro ⟨h1, h2, h3⟩; exact ⟨⟨h1, by simpa using h2⟩, h3⟩

theorem foldl_setFocus_activated (q : List Nat) (a : Agenda) {x : Nat} (h : x ∈ a.activated) :
    x ∈ (q.foldl Agenda.setFocus a).activated := by
  induction q generalizing a with
  | nil => simpa using h
  | cons g gs ih => exact ih _ (mem_activated_setFocus h)

theorem rel_of_exactQ {R : Ref} {st : St} (h : ExactQ R st) :
    Rel { refAt R st with af := [] } { sync st with actFired := [] } := by
  refine ⟨rfl, rfl, h.nl, ?_, ?_, by simp, rfl⟩
  · intro p
    simp only [refAt, sync, foldl_setFocus_firedPer]
    constructor
    · intro hp; exact ⟨(h.lk p).mp hp, fun g hg => h.q g hg p hp⟩
    · intro hp; exact (h.lk p).mpr hp.1
  · intro p hp
    simp only [sync, foldl_setFocus_firedPer] at hp
    exact foldl_setFocus_activated _ _ (h.inv p hp.1)

theorem exactQ_of_rel {s : RSt} {st : St} (h : Rel { s with af := [] } { st with actFired := [] }) : ExactQ s.R st :=
  ⟨h.nl, h.lk, h.inv, fun g hg => by have := h.q; simp only at this; rw [this] at hg; simp at hg⟩

theorem exactQ_focus {R : Ref} {st : St} (g : Nat) (h : ExactQ R st) :
    ExactQ { R with lk := R.lk.filter (fun p => p.1 ≠ g) } { st with agenda := st.agenda.setFocus g } := by
  refine ⟨h.nl, ?_, ?_, ?_⟩
  · intro p
    simp only [Agenda.setFocus, List.mem_filter, h.lk p]
  · intro p hp
    simp only [Agenda.setFocus, List.mem_filter] at hp
    exact mem_activated_setFocus (h.inv p hp.1)
  · intro g' hg' p hp
    simp only [List.mem_filter] at hp
    exact h.q g' hg' p hp.1

/-! ### `execute_workflow`: the steps' `cycle_count` is not observable, the replay runs with the bound as fuel -/

/-- a replay that ended with a silent pass does the same with more fuel -/
theorem segCycles_mono {t : Nat} {vec : List Rule} {c : Nat} {s : RSt} {evs : List LEv}
    {o : SegOut (List (List Nat) × Bool)} (h : segCycles t vec c s evs = .ok o) (hb : o.val.2 = true)
    (n : Nat) (hn : c ≤ n) : segCycles t vec n s evs = .ok o := by
  induction c generalizing n s evs o with
  | zero =>
    simp only [segCycles, Except.ok.injEq] at h
    subst h
    simp at hb
  | succ c ih =>
    obtain ⟨m, rfl⟩ : ∃ m, n = m + 1 := ⟨n - 1, by omega⟩
    simp only [segCycles] at h ⊢
    cases hp : segPass t vec { s with af := [] } evs with
    | error e => simp [hp] at h
    | ok p =>
      simp only [hp] at h ⊢
      by_cases he : p.val.isEmpty = true
      · simp only [he, if_true] at h ⊢; exact h
      · simp only [he, Bool.false_eq_true, if_false] at h ⊢
        cases hc : segCycles t vec c p.s p.rest with
        | error e => simp [hc] at h
        | ok o' =>
          simp only [hc, Except.ok.injEq] at h
          subst h
          rw [ih hc hb m (by omega)]

/-- the replay of a completed `execute` loop of the model with the bound `n` as fuel -/
theorem segCycles_model_bound (t n : Nat) (st : St) (s : RSt) (rest : List LEv)
    (h : Rel { s with af := [] } { st with actFired := [] }) (hok : (cycles t n st).ok = true) :
    ∃ s' b, segCycles t (sortSal st.rules) n s ((cycles t n st).passes.flatten.map levOfEv ++ rest) =
        .ok { s := s', rest := rest, val := ((cycles t n st).passes.map (fun p => (firedRules p).map (·.name)), b) } ∧
      Rel { s' with af := [] } { (cycles t n st).st with actFired := [] } := by
  obtain ⟨s', b, h1, h2, _, h4⟩ := segCycles_model t n st s rest h hok
  refine ⟨s', b, ?_, h2⟩
  by_cases hlt : (cycles t n st).cycles < n
  · exact segCycles_mono h1 (h4 hlt) n (by omega)
  · have : (cycles t n st).cycles = n := by have := (C03.cycles_count t n st).1; omega
    rw [this] at h1; exact h1

theorem names_all_empty (ps : List (List Ev)) :
    (ps.map (fun p => (firedRules p).map (·.name))).all (·.isEmpty) = decide (fireCount ps.flatten = 0) := by
  induction ps with
  | nil => simp [fireCount]
  | cons p ps ih =>
    simp only [List.map_cons, List.all_cons, ih, List.flatten_cons, fireCount_eq_length, firedRules_append]
    cases hp : firedRules p <;> simp

theorem cycles_rules (t n : Nat) (st : St) : (cycles t n st).st.rules = st.rules := by
  induction n generalizing st with
  | zero => simp [cycles]
  | succ n ih =>
    have h1 : (passLoop t (sortSal st.rules) { st with actFired := [] }).st.rules = st.rules := (passLoop_rules _ _ _).1
    simp only [cycles]
    split
    · exact h1
    · split
      · exact h1
      · rw [ih]; exact h1

/-- **every step of a workflow**: the step-by-step replay of the log of `execute_workflow` recovers the steps the model
made and, inside every step, its passes; it ends in the exact image of the final state -/
theorem segWorkflow_model (maxc now : Nat) (gs : List Nat) (st : St) (s : RSt) (rest : List LEv)
    (h : Rel { s with af := [] } { st with actFired := [] }) (hok : (wfLoop maxc now st gs).2.2 = true) :
    ∃ s', segWorkflow maxc now (sortSal st.rules) gs s
        (((wfLoop maxc now st gs).2.1.map (fun o => o.passes.flatten)).flatten.map levOfEv ++ rest) =
        .ok { s := s', rest := rest,
              val := (wfLoop maxc now st gs).2.1.map (fun o => o.passes.map (fun p => (firedRules p).map (·.name))) } ∧
      Rel { s' with af := [] } { (wfLoop maxc now st gs).1 with actFired := [] } := by
  induction gs generalizing st s rest with
  | nil => exact ⟨s, by simp [wfLoop, segWorkflow], by simpa [wfLoop] using h⟩
  | cons g gs ih =>
    -- the step: a recorded activation, then an `execute`
    have hx : execAction { st with actFired := [] } (.activate g) =
        some { st with actFired := [], agenda := st.agenda.setFocus g } := rfl
    obtain ⟨sf, hf1, hf2, _⟩ := rel_applyAction h hx
    have hsf : sf = { s.focus g with af := [] } := by
      simp only [RSt.applyAction, Option.some.injEq] at hf1; rw [← hf1]; rfl
    subst hsf
    have hq : st.queue = [] := h.q
    have hsync : sync (step maxc st (.focus g)).1 = (step maxc st (.focus g)).1 := sync_of_queue_nil hq
    have hrel : Rel { s.focus g with af := [] } { sync (step maxc st (.focus g)).1 with actFired := [] } := by
      rw [hsync]; exact hf2
    have hout := wfStep_out maxc now st g
    have hst := wfStep_state maxc now st g
    have hrules : (wfStep maxc now st g).1.rules = st.rules := by
      rw [hst]; simp only [exec]; rw [cycles_rules]; rfl
    simp only [wfLoop] at hok ⊢
    by_cases hsok : (wfStep maxc now st g).2.ok = true
    · have hexok : (cycles now maxc (sync (step maxc st (.focus g)).1)).ok = true := by
        rw [hout] at hsok; exact hsok
      by_cases hfz : (wfStep maxc now st g).2.fired = 0
      · -- the step fired nothing: the workflow stops
        simp only [hsok, Bool.not_true, Bool.false_eq_true, if_false, hfz, if_true] at hok ⊢
        obtain ⟨s1, b, h1, h2⟩ := segCycles_model_bound now maxc _ (s.focus g) rest hrel hexok
        have hr : (sync (step maxc st (.focus g)).1).rules = st.rules := rfl
        rw [hr] at h1
        refine ⟨s1, ?_, by rw [hst]; exact h2⟩
        have hall : ((cycles now maxc (sync (step maxc st (.focus g)).1)).passes.map
            (fun p => (firedRules p).map (·.name))).all (·.isEmpty) = true := by
          rw [names_all_empty, ← C03.cycles_fired]
          rw [hout] at hfz; simpa [exec] using hfz
        simp only [List.map_cons, List.map_nil, List.flatten_cons, List.flatten_nil, List.append_nil, hout, exec,
          segWorkflow, h1, hall, if_true]
      · -- the step fired: the workflow goes on from the state it reached
        simp only [hsok, Bool.not_true, Bool.false_eq_true, if_false, hfz] at hok ⊢
        obtain ⟨s1, b, h1, h2⟩ := segCycles_model_bound now maxc _ (s.focus g)
          ((((wfLoop maxc now (wfStep maxc now st g).1 gs).2.1.map (fun o => o.passes.flatten)).flatten.map levOfEv) ++ rest)
          hrel hexok
        have hr : (sync (step maxc st (.focus g)).1).rules = st.rules := rfl
        rw [hr] at h1
        have hrel2 : Rel { s1 with af := [] } { (wfStep maxc now st g).1 with actFired := [] } := by rw [hst]; exact h2
        obtain ⟨s2, h3, h4⟩ := ih (wfStep maxc now st g).1 s1 rest hrel2 hok
        rw [hrules] at h3
        refine ⟨s2, ?_, h4⟩
        have hall : ((cycles now maxc (sync (step maxc st (.focus g)).1)).passes.map
            (fun p => (firedRules p).map (·.name))).all (·.isEmpty) = false := by
          rw [names_all_empty, ← C03.cycles_fired]
          rw [hout] at hfz; simpa [exec] using hfz
        simp only [List.map_cons, List.flatten_cons, List.map_append, List.append_assoc, hout, exec] at h1 ⊢
        simp only [segWorkflow, h1, hall, Bool.false_eq_true, if_false]
        rw [h3]
    · simp [hsok] at hok

end C02
