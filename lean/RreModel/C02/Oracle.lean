import RreModel.C02.Wire
import RreModel.C03.Spec
/-
Oracle of C02/C03: the Spec clauses evaluated on the *implementation's* observations of one history.
The only state it keeps is reference bookkeeping derived from the observations themselves:
the knowledge base (from the add/remove/enable calls of the case), the scan `Ref` of C02.Spec
(from the firing log and the activations), the focused group and the facts as last observed.
Glue — nothing here is used by a theorem; the predicates it calls (`Ref.scan`, `onePerActGroup`,
`runCount`, `countersOk`, `fixpointOk`, `sortSal`) are the ones the theorems are about.
-/
namespace C02.Oracle
open C02 C02.Wire

structure OSt where
  rules : List Rule
  R : Ref := {}
  active : Nat := 0
  pending : Option Nat := none        -- last group queued by `activate_agenda_group` since the last execute
  facts : List (Nat × Int)
  tags : List String := []
  /-- how the previous execute of this history ended (0 none yet, 1 before the bound, 2 at the bound, 3 `Err`) and
  whether the knowledge base was edited since — only used for the coverage tags -/
  prevExec : Nat := 0
  kbEdited : Bool := false
  /-- an `execute_workflow` call was made: its per-step results are not observable, so the reference bookkeeping cannot be
  carried across it; the rest of the history is covered by the model diff only -/
  blind : Bool := false
  /-- `set_debug_mode` was called since the previous execute (coverage tag only) -/
  debugSet : Bool := false

def findRule (rules : List Rule) (n : Nat) : Option Rule := rules.find? (fun r => r.name == n)

def toHEv (rules : List Rule) : List OEv → Option (List HEv)
  | [] => some []
  | .fire n :: es => do
    let r ← findRule rules n
    let rest ← toHEv rules es
    pure (.fire r :: rest)
  | .act g :: es => do
    let rest ← toHEv rules es
    pure (.focus g :: rest)

/-- fired rules are enabled, inside their date window and in the focused group at the moment they were
selected (`foc`; the activations executed by a rule's own actions come before its firing event and
only count from the next rule on: `cur`) -/
def eligWalk (t : Nat) : Nat → Nat → List HEv → Except String Nat
  | _, cur, [] => .ok cur
  | foc, cur, .fire r :: es =>
    if !r.enabled then .error "fired_disabled"
    else if !r.activeAt t then .error "fired_outside_dates"
    else if r.group != foc then .error "fired_outside_focus"
    else eligWalk t cur cur es
  | foc, _, .focus g :: es => eligWalk t foc g es
  | foc, cur, .reset :: es => eligWalk t foc cur es

def applyFacts (fs : List (Nat × Int)) : List Action → List (Nat × Int)
  | [] => fs
  | a :: as =>
    match execAction { init with facts := fs } a with
    | some st => applyFacts st.facts as
    | none => fs

def lastActivate (foc : Nat) : List Action → Nat
  | [] => foc
  | .activate g :: as => lastActivate g as
  | _ :: as => lastActivate foc as

def nextFire : List OEv → Option Nat
  | [] => none
  | .fire n :: _ => some n
  | .act _ :: es => nextFire es

def dropThroughFire : List OEv → List OEv
  | [] => []
  | .fire _ :: es => es
  | .act _ :: es => dropThroughFire es

/-- single-pass replay: walks the sorted vector next to the log. A rule that does not fire although the
reference gate and its condition hold is a failure: for a rule of an activation group whose group is
still free this is "the one that fires is not the first eligible one with a true condition". -/
def replay (t : Nat) : List Rule → List OEv → List (Nat × Int) → Nat → Ref → List Nat → Option String
  | [], evs, _, _, _, _ => if (nextFire evs).isSome then some "order" else none
  | r :: rs, evs, fs, foc, R, af =>
    if nextFire evs == some r.name then
      -- the rule's own activations are applied before it is marked as fired
      let R1 := r.actions.foldl (fun R a => match a with
                                           | .activate g => { R with lk := R.lk.filter (fun p => p.1 ≠ g) }
                                           | _ => R) R
      let R3 := match R1.step (.fire r) with
                | .ok R2 => R2
                | .error _ => R1
      let af' := match r.actGroup with
                 | some a => a :: af
                 | none => af
      replay t rs (dropThroughFire evs) (applyFacts fs r.actions) (lastActivate foc r.actions) R3 af'
    else
      let blocked := match r.actGroup with
                     | some a => af.contains a
                     | none => false
      if !blocked && C03.refGate R foc t r && r.cond.holds fs then
        some (if r.actGroup.isSome then "activation_group_not_first" else "eligible_true_not_fired")
      else replay t rs evs fs foc R af

def positions (vec : List Rule) (names : List Nat) : List Nat :=
  names.filterMap (fun n => vec.findIdx? (fun r => r.name == n))

def firedNames : List OEv → List Nat
  | [] => []
  | .fire n :: es => n :: firedNames es
  | .act _ :: es => firedNames es

def addTag (o : OSt) (c : Bool) (t : String) : OSt :=
  if c && !o.tags.contains t then { o with tags := t :: o.tags } else o

/-- all clauses on one execute call -/
def checkExec (maxc t : Nat) (o : OSt) (ob : OpObs) : Except String OSt := do
  let some hevs := toHEv o.rules ob.events | .error "fired_unknown_rule"
  let R' ← match o.R.scan hevs with
    | .ok R' => pure R'
    | .error .noLoopTwice => .error "no_loop_twice"
    | .error .lockTwice => .error "lock_twice"
  let foc0 := match o.pending with
    | some g => g
    | none => o.active
  let foc ← eligWalk t foc0 foc0 hevs
  if foc != ob.active then .error "focus_mismatch"
  let names := firedNames ob.events
  let vec := sortSal o.rules
  let fired := hevs.filterMap (fun e => match e with | .fire r => some r | _ => none)
  let mut o := o
  o := addTag o (o.rules.length ≥ 33) "kb_ge_33"
  o := addTag o (o.rules.length ≥ 65) "kb_ge_65"
  o := addTag o (o.rules.length ≥ 129) "kb_ge_129"
  o := addTag o (o.prevExec != 0 && o.kbEdited) "exec_after_kb_edit"
  o := addTag o (o.prevExec == 2) "exec_after_bound"
  o := addTag o (o.prevExec == 3) "exec_after_err"
  o := addTag o o.debugSet "exec_after_set_debug"
  match ob.res with
  | .ok c e f =>
    if !C03.countersOk maxc c e f names.length o.rules.length then .error "counters"
    if maxc = 0 && !ob.events.isEmpty then .error "events_at_zero"
    if runCount (positions vec names) > c then .error "order_runs"
    let single := c = 1 || (c = 2 && maxc > 2)
    if single then
      if !(names.isSublist (vec.map (·.name))) then .error "order"
      if !onePerActGroup fired then .error "activation_group_twice"
      match replay t vec ob.events o.facts foc0 o.R [] with
      | some cl => .error cl
      | none => pure ()
    if c < maxc && !C03.fixpointOk R' ob.active t o.rules ob.facts then .error "not_fixpoint"
    -- a return before the bound comes after a pass that fired nothing (`C03.early_stop_iff`): the firings are those
    -- of the c - 1 passes before it, each of which walks the sorted vector once
    if c < maxc && runCount (positions vec names) + 1 > c then .error "early_stop_after_firing_pass"
    o := addTag o single "single_pass_checked"
    o := addTag o (c < maxc) "early_stop"
    o := addTag o (c == maxc && maxc > 0) "at_bound"
    o := addTag o (c ≥ 3) "cycles_ge_3"
    o := addTag o (c ≥ 10) "cycles_ge_10"
    o := addTag o (maxc == 0) "max_cycles_0"
    o := addTag o (f == 0) "exec_silent"
    o := { o with prevExec := if c < maxc then 1 else 2 }
  | .err => o := { addTag o true "err" with prevExec := 3 }
  | .other s => .error s!"bad_result:{s}"
  o := addTag o (!fired.isEmpty) "fired"
  o := addTag o (fired.any (·.noLoop)) "noloop_fire"
  o := addTag o (fired.any (·.lock)) "lock_fire"
  o := addTag o (fired.any (·.actGroup.isSome)) "actgroup_fire"
  o := addTag o (fired.any (fun r => r.effective.isSome || r.expires.isSome)) "dated_fire"
  o := addTag o (fired.any (fun r => r.agenda.isSome && r.group != 0)) "grouped_fire"
  o := addTag o (ob.events.any (fun e => match e with | .act _ => true | _ => false)) "activate_action"
  o := addTag o (o.rules.any (fun r => !C03.refGate R' ob.active t r && r.cond.holds ob.facts)) "gate_blocks_true_rule"
  pure { o with R := R', active := ob.active, pending := none, facts := ob.facts, kbEdited := false, debugSet := false }

def expectRes (ob : OpObs) (s : List String) : Except String Unit :=
  match ob.res with
  | .other r => if s.contains r then pure () else .error s!"bad_result:{r}"
  | _ => .error "bad_result"

/-- one API call against its observation -/
def checkOp (maxc : Nat) (o : OSt) (op : Op) (ob : OpObs) : Except String OSt := do
  match op with
  | .exec t => checkExec maxc t o ob
  | _ =>
    if !ob.events.isEmpty then .error "events_outside_execute"
    let o1 : OSt ← match op with
      | .focus g =>
        if ob.active != g then .error "focus_mismatch"
        pure { addTag o (o.active == g && o.pending.isNone) "refocus_active" with R := { o.R with lk := o.R.lk.filter (fun p => p.1 ≠ g) } }
      | .activate g =>
        if ob.active != g then .error "focus_mismatch"
        pure { o with R := { o.R with lk := o.R.lk.filter (fun p => p.1 ≠ g) }, pending := some g }
      | .clear =>
        if ob.active != 0 then .error "focus_mismatch"
        pure o
      | .resetNoLoop => pure { o with R := { o.R with nl := [] } }
      | .add _ | .remove _ | .enable _ _ =>
        -- the knowledge-base semantics itself is C15's; here the reference KB follows the calls
        let s := step maxc { init with rules := o.rules } op
        expectRes ob [showRes s.2]
        pure { o with rules := s.1.rules, kbEdited := o.kbEdited || s.1.rules != o.rules }
      | _ => pure o
    pure (addTag { o1 with active := ob.active, facts := ob.facts } true "api_op")

/-- one public call (`C02.Call`) against its observation -/
def checkCall (maxc : Nat) (o : OSt) (c : Call) (ob : OpObs) : Except String OSt := do
  if o.blind then return o
  match c with
  | .op op => checkOp maxc o op ob
  | .viaMut op => checkOp maxc (addTag o true "kb_mut") op ob
  | .execNow => checkExec maxc nowT (addTag o true "execute_plain") ob
  | .setAnalytics _ =>
    if !ob.events.isEmpty then .error "events_outside_execute"
    expectRes ob ["u"]
    if ob.active != o.active then .error "focus_mismatch"
    pure (addTag { o with facts := ob.facts } true "set_analytics")
  | .setDebug _ =>
    -- the letter of C03: the setter is not an execute and leaves focus and facts alone; the bound it must leave alone is
    -- checked by `countersOk` on every later execute
    if !ob.events.isEmpty then .error "events_outside_execute"
    expectRes ob ["u"]
    if ob.active != o.active then .error "focus_mismatch"
    pure (addTag { o with debugSet := true, facts := ob.facts } true "set_debug")
  | .kbClear =>
    if !ob.events.isEmpty then .error "events_outside_execute"
    expectRes ob ["u"]
    if ob.active != o.active then .error "focus_mismatch"
    pure (addTag { o with rules := [], kbEdited := o.kbEdited || !o.rules.isEmpty, facts := ob.facts } true "kb_clear")
  | .wfStep g =>
    -- `set_agenda_focus(g)` (a new activation of `g`), then `execute`
    let o1 := { o with R := { o.R with lk := o.R.lk.filter (fun p => p.1 ≠ g) }, active := g }
    checkExec maxc nowT (addTag (addTag o1 (o.active == g) "refocus_active") true "workflow_step") ob
  | .workflow gs =>
    match ob.res with
    | .err => pure { addTag o true "workflow" with blind := true }
    | .other r =>
      match (r.drop 1).toString.toNat? with
      | some k =>
        if !r.startsWith "w" then .error s!"bad_result:{r}"
        if k > gs.length || (k = 0 && !gs.isEmpty) then .error "workflow_steps"
        -- each step is one `execute`: at most `max_cycles` passes over the knowledge base (`C03.countersOk` per step)
        if (firedNames ob.events).length > k * maxc * o.rules.length then .error "workflow_counters"
        pure { addTag o true "workflow" with blind := true }
      | none => .error s!"bad_result:{r}"
    | _ => .error "bad_result"

def checkAll (maxc : Nat) : OSt → List Call → List OpObs → Nat → Except String OSt
  | o, [], [], _ => .ok o
  | o, op :: ops, ob :: obs, i =>
    match checkCall maxc o op ob with
    | .ok o' => checkAll maxc o' ops obs (i + 1)
    | .error c => .error s!"{c}@{i}"
  | _, _, _, _ => .error "length"

/-- `ok <tags>` / `fail <clause>@<op index>`; `nontrivialTag` decides what counts as non-trivial -/
def oracleLine (nontrivial : List String → Bool) (line : String) : String :=
  match line.splitOn " | " with
  | [c, obsS] =>
    match parseCase? c with
    | none => "bad-input"
    | some cs =>
      match cs.start?, parseObs? obsS.trimAscii.toString with
      | some st, some obs =>
        match checkAll cs.maxc { rules := st.rules, facts := cs.facts } cs.ops obs 0 with
        | .ok o =>
          let tags := o.tags.reverse
          Proto.joinSp ("ok" :: tags ++ (if nontrivial tags then ["nontrivial"] else []))
        | .error c => s!"fail {c}"
      | none, _ => if obsS.trimAscii.toString = "bad-case-dup" then "ok" else "bad-input"
      | _, none => s!"fail unparsable_observation"
  | _ => "bad-input"

end C02.Oracle
