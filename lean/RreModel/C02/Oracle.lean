import RreModel.C02.Wire
import RreModel.C03.Spec
import RreModel.C02.Passes
/-
Oracle of C02/C03: the Spec clauses evaluated on the *implementation's* observations of one history.
The only state it keeps is reference bookkeeping derived from the observations themselves:
the knowledge base (from the add/remove/enable calls of the case), the scan `Ref` of C02.Spec
(from the firing log and the activations), the focused group and the facts as last observed.
Glue — nothing here is used by a theorem; the predicates it calls (`Ref.scan`, `segAccept`, `segWorkflow`, `passClausesOk`,
`onePerActGroup`, `runCount`, `countersOk`, `fixpointOk`, `sortSal`) are the ones the theorems are about.
-/
namespace C02.Oracle
open C02 C02.Wire

structure OSt where
  rules : List Rule
  R : Ref := {}
  active : Nat := 0
  pending : Option Nat := none        -- last group queued by `activate_agenda_group` since the last execute
  facts : List (Nat × Int)
  tags : List String := []
  /-- how the previous execute of this history ended (0 none yet, 1 before the bound, 2 at the bound, 3 `Err`) and
  whether the knowledge base was edited since — only used for the coverage tags -/
  prevExec : Nat := 0
  kbEdited : Bool := false
  /-- never set any more (kept for the record format): every call — `execute_workflow` included, whether it returns `Ok` or
  `Err` — is replayed step by step / pass by pass, so the oracle keeps exact reference bookkeeping over the whole history -/
  blind : Bool := false
  /-- (rule name, side) pairs seen so far: on which side of / at which boundary of a rule's date window an `execute_at_time`
  timestamp of this history fell (coverage tags only) -/
  dateSides : List (Nat × Nat) := []
  /-- `set_debug_mode` was called since the previous execute (coverage tag only) -/
  debugSet : Bool := false

def findRule (rules : List Rule) (n : Nat) : Option Rule := rules.find? (fun r => r.name == n)

def toHEv (rules : List Rule) : List OEv → Option (List HEv)
  | [] => some []
  | .fire n :: es => do
    let r ← findRule rules n
    let rest ← toHEv rules es
    pure (.fire r :: rest)
  | .act g :: es => do
    let rest ← toHEv rules es
    pure (.focus g :: rest)

/-- fired rules are enabled, inside their date window and in the focused group at the moment they were
selected (`foc`; the activations executed by a rule's own actions come before its firing event and
only count from the next rule on: `cur`) -/
def eligWalk (t : Nat) : Nat → Nat → List HEv → Except String Nat
  | _, cur, [] => .ok cur
  | foc, cur, .fire r :: es =>
    if !r.enabled then .error "fired_disabled"
    else if !r.activeAt t then .error "fired_outside_dates"
    else if r.group != foc then .error "fired_outside_focus"
    else eligWalk t cur cur es
  | foc, _, .focus g :: es => eligWalk t foc g es
  | foc, cur, .reset :: es => eligWalk t foc cur es

def levOf : OEv → LEv
  | .fire n => .fire n
  | .act g => .act g

/-- position-increasing runs of a log of names (only used to name the clause once the segmented replay has failed) -/
def runsOf (vec : List Rule) : List Nat → List (List Nat)
  | [] => []
  | n :: ns =>
    match runsOf vec ns with
    | [] => [[n]]
    | run :: runs =>
      match run with
      | m :: _ =>
        if (vec.findIdx? (fun r => r.name == n)).getD 0 < (vec.findIdx? (fun r => r.name == m)).getD 0 then (n :: run) :: runs
        else [n] :: run :: runs
      | [] => [n] :: runs

/-- the clause behind a failed segmented replay -/
def segErrName (vec : List Rule) (names : List Nat) : SegErr → String
  | .notFired _ true => "activation_group_not_first"
  | .notFired _ false => "eligible_true_not_fired"
  | .actionFailed _ _ _ => "ok_with_failing_action"
  | .cycleCount => "pass_after_silent_pass"
  | .earlyStopAfterFiring => "early_stop_after_firing_pass"
  | .leftover =>
    -- a firing that no pass of the reference explains: two rules of one activation group inside one walk of the vector,
    -- or a rule fired out of vector order / although its condition is false on the reference facts
    if (runsOf vec names).any (fun run => !onePerActGroup (rulesOfNames vec run)) then "activation_group_twice"
    else "unexplained_firing"

/-- side of the date window `[e, x)` of a rule on which `t` falls: 0 before, 1 `t = e`, 2 inside, 3 `t = x`, 4 after -/
def dateSide (r : Rule) (t : Nat) : Option Nat :=
  match r.effective, r.expires with
  | some e, some x =>
    if e < x then
      some (if t < e then 0 else if t = e then 1 else if t < x then 2 else if t = x then 3 else 4)
    else none
  | _, _ => none

def positions (vec : List Rule) (names : List Nat) : List Nat :=
  names.filterMap (fun n => vec.findIdx? (fun r => r.name == n))

def firedNames : List OEv → List Nat
  | [] => []
  | .fire n :: es => n :: firedNames es
  | .act _ :: es => firedNames es

def addTag (o : OSt) (c : Bool) (t : String) : OSt :=
  if c && !o.tags.contains t then { o with tags := t :: o.tags } else o

/-- all clauses on one execute call -/
def checkExec (maxc t : Nat) (o : OSt) (ob : OpObs) : Except String OSt := do
  let some hevs := toHEv o.rules ob.events | .error "fired_unknown_rule"
  let R' ← match o.R.scan hevs with
    | .ok R' => pure R'
    | .error .noLoopTwice => .error "no_loop_twice"
    | .error .lockTwice => .error "lock_twice"
  let foc0 := match o.pending with
    | some g => g
    | none => o.active
  let foc ← eligWalk t foc0 foc0 hevs
  if foc != ob.active then .error "focus_mismatch"
  let names := firedNames ob.events
  let vec := sortSal o.rules
  let fired := hevs.filterMap (fun e => match e with | .fire r => some r | _ => none)
  let mut o := o
  let mut Rnext := R'
  o := addTag o (o.rules.length ≥ 33) "kb_ge_33"
  o := addTag o (o.rules.length ≥ 65) "kb_ge_65"
  o := addTag o (o.rules.length ≥ 129) "kb_ge_129"
  o := addTag o (o.prevExec != 0 && o.kbEdited) "exec_after_kb_edit"
  o := addTag o (o.prevExec == 2) "exec_after_bound"
  o := addTag o (o.prevExec == 3) "exec_after_err"
  o := addTag o o.debugSet "exec_after_set_debug"
  match ob.res with
  | .ok c e f =>
    if !C03.countersOk maxc c e f names.length o.rules.length then .error "counters"
    if maxc = 0 && !ob.events.isEmpty then .error "events_at_zero"
    if runCount (positions vec names) > c then .error "order_runs"
    -- every pass of the call, recovered by the segmented replay, satisfies the single-pass clauses
    let s0 : RSt := { facts := o.facts, foc := foc0, R := o.R }
    let (s1, segs) ← match segAccept maxc t vec c s0 (ob.events.map levOf) with
      | .error e => .error (segErrName vec names e)
      | .ok (s', segs) =>
        if s'.foc != ob.active then .error "focus_mismatch"
        pure (s', segs)
    -- the reference sets carried to the next call are the replay's (`C02.exec_passes_accepted_rel`: an exact image of the
    -- engine's bookkeeping; `C02.history_passes_accepted`: along every history whose executes return `Ok`)
    Rnext := s1.R
    if segs.any (fun ns => !passClausesOk vec ns) then .error "pass_clauses"
    let firing := (segs.filter (fun ns => !ns.isEmpty)).length
    o := addTag o true "all_passes_checked"
    o := addTag o (firing ≥ 2) "multi_pass_segmented"
    o := addTag o (firing ≥ 2 && fired.any (·.actGroup.isSome)) "multi_pass_actgroup"
    if c < maxc && !C03.fixpointOk R' ob.active t o.rules ob.facts then .error "not_fixpoint"
    -- a return before the bound comes after a pass that fired nothing (`C03.early_stop_iff`): the firings are those
    -- of the c - 1 passes before it, each of which walks the sorted vector once
    if c < maxc && runCount (positions vec names) + 1 > c then .error "early_stop_after_firing_pass"
    o := addTag o (c = 1 || (c = 2 && maxc > 2)) "single_firing_pass"
    o := addTag o (c < maxc) "early_stop"
    o := addTag o (c == maxc && maxc > 0) "at_bound"
    o := addTag o (c ≥ 3) "cycles_ge_3"
    o := addTag o (c ≥ 10) "cycles_ge_10"
    o := addTag o (maxc == 0) "max_cycles_0"
    o := addTag o (f == 0) "exec_silent"
    o := { o with prevExec := if c < maxc then 1 else 2 }
  | .err =>
    -- the call failed: every pass before the failure is a firing pass of the reference and the log ends, inside a pass, exactly
    -- at the first rule due to fire one of whose actions fails on the reference facts (`C02.exec_err_accepted`)
    let s0 : RSt := { facts := o.facts, foc := foc0, R := o.R }
    match segCycles t vec maxc s0 (ob.events.map levOf) with
    | .error (.actionFailed _ true sp) =>
      if sp.foc != ob.active then .error "focus_mismatch"
      -- the sets carried on are the replay's, as after a call that returned `Ok` (`C02.history_passes_accepted`)
      Rnext := sp.R
    | .error (.actionFailed _ false _) => .error "err_events_mismatch"
    | .error e => .error (segErrName vec names e)
    | .ok _ => .error "err_without_failing_action"
    o := { addTag (addTag o true "err") true "err_call_replayed" with prevExec := 3 }
  | .other s => .error s!"bad_result:{s}"
  o := addTag o (!fired.isEmpty) "fired"
  o := addTag o (fired.any (·.noLoop)) "noloop_fire"
  o := addTag o (fired.any (·.lock)) "lock_fire"
  o := addTag o (fired.any (·.actGroup.isSome)) "actgroup_fire"
  o := addTag o (fired.any (fun r => r.effective.isSome || r.expires.isSome)) "dated_fire"
  o := addTag o (fired.any (fun r => r.agenda.isSome && r.group != 0)) "grouped_fire"
  o := addTag o (ob.events.any (fun e => match e with | .act _ => true | _ => false)) "activate_action"
  o := addTag o (o.rules.any (fun r => !C03.refGate R' ob.active t r && r.cond.holds ob.facts)) "gate_blocks_true_rule"
  -- date windows: where the timestamp of this call falls relative to the rules' windows
  o := addTag o (fired.any (fun r => r.effective == some t)) "fired_at_effective"
  o := addTag o (o.rules.any (fun r => r.enabled && r.expires == some t && r.cond.holds o.facts)) "true_rule_at_expires"
  o := addTag o (o.rules.any (fun r => r.enabled && (match r.effective with | some e => t < e && e ≤ t + NS | none => false) && r.cond.holds o.facts))
        "true_rule_just_before_effective"
  o := addTag o (fired.any (fun r => match r.expires with | some x => t < x && x ≤ t + NS | none => false)) "fired_just_before_expires"
  -- a bound of a rule with a true condition falls into the same second / millisecond / microsecond as the timestamp without
  -- being equal to it (a comparison on truncated instants gets these wrong)
  let bounds := (o.rules.filter (fun r => r.enabled && r.cond.holds o.facts)).flatMap (fun r => r.effective.toList ++ r.expires.toList)
  o := addTag o (bounds.any (fun b => b != t && b / NS == t / NS)) "bound_in_same_second"
  o := addTag o (bounds.any (fun b => b != t && b / 1000000 == t / 1000000)) "bound_in_same_millisecond"
  o := addTag o (bounds.any (fun b => b != t && b / 1000 == t / 1000)) "bound_in_same_microsecond"
  let sides := o.rules.filterMap (fun r => (dateSide r t).map (fun sd => (r.name, sd)))
  let ds := sides.foldl (fun acc p => if acc.contains p then acc else p :: acc) o.dateSides
  o := addTag o (o.rules.any (fun r => [0, 1, 2, 3, 4].all (fun sd => ds.contains (r.name, sd)))) "window_all_five_sides"
  pure { o with R := Rnext, active := ob.active, pending := none, facts := ob.facts, kbEdited := false, debugSet := false, dateSides := ds }

def expectRes (ob : OpObs) (s : List String) : Except String Unit :=
  match ob.res with
  | .other r => if s.contains r then pure () else .error s!"bad_result:{r}"
  | _ => .error "bad_result"

/-- one API call against its observation -/
def checkOp (maxc : Nat) (o : OSt) (op : Op) (ob : OpObs) : Except String OSt := do
  match op with
  | .exec t => checkExec maxc t o ob
  | _ =>
    if !ob.events.isEmpty then .error "events_outside_execute"
    let o1 : OSt ← match op with
      | .focus g =>
        if ob.active != g then .error "focus_mismatch"
        pure { addTag o (o.active == g && o.pending.isNone) "refocus_active" with R := { o.R with lk := o.R.lk.filter (fun p => p.1 ≠ g) } }
      | .activate g =>
        if ob.active != g then .error "focus_mismatch"
        pure { o with R := { o.R with lk := o.R.lk.filter (fun p => p.1 ≠ g) }, pending := some g }
      | .clear =>
        if ob.active != 0 then .error "focus_mismatch"
        pure o
      | .resetNoLoop => pure { o with R := { o.R with nl := [] } }
      | .add _ | .remove _ | .enable _ _ =>
        -- the knowledge-base semantics itself is C15's; here the reference KB follows the calls
        let s := step maxc { init with rules := o.rules } op
        expectRes ob [showRes s.2]
        pure { o with rules := s.1.rules, kbEdited := o.kbEdited || s.1.rules != o.rules }
      | _ => pure o
    pure (addTag { o1 with active := ob.active, facts := ob.facts } true "api_op")

/-- one public call (`C02.Call`) against its observation -/
def checkCall (maxc : Nat) (o : OSt) (c : Call) (ob : OpObs) : Except String OSt := do
  if o.blind then return o
  match c with
  | .op op => checkOp maxc o op ob
  | .viaMut op => checkOp maxc (addTag o true "kb_mut") op ob
  | .execNow => checkExec maxc nowT (addTag o true "execute_plain") ob
  | .setAnalytics _ =>
    if !ob.events.isEmpty then .error "events_outside_execute"
    expectRes ob ["u"]
    if ob.active != o.active then .error "focus_mismatch"
    pure (addTag { o with facts := ob.facts } true "set_analytics")
  | .setDebug _ =>
    -- the letter of C03: the setter is not an execute and leaves focus and facts alone; the bound it must leave alone is
    -- checked by `countersOk` on every later execute
    if !ob.events.isEmpty then .error "events_outside_execute"
    expectRes ob ["u"]
    if ob.active != o.active then .error "focus_mismatch"
    pure (addTag { o with debugSet := true, facts := ob.facts } true "set_debug")
  | .kbClear =>
    if !ob.events.isEmpty then .error "events_outside_execute"
    expectRes ob ["u"]
    if ob.active != o.active then .error "focus_mismatch"
    pure (addTag { o with rules := [], kbEdited := o.kbEdited || !o.rules.isEmpty, facts := ob.facts } true "kb_clear")
  | .kbReplace rs =>
    if !ob.events.isEmpty then .error "events_outside_execute"
    expectRes ob ["u"]
    if ob.active != o.active then .error "focus_mismatch"
    -- the reference knowledge base follows the call: the rules of the new base in the order they were added (a second
    -- rule of the same name is refused by `add_rule`); the carried sets are the engine's, not the knowledge base's
    let rules' := (callStep maxc nowT { init with rules := o.rules } c).1.rules
    let o := addTag o (rules'.length > o.rules.length) "kb_replace_larger"
    let o := addTag o (o.prevExec != 0) "kb_replace_after_exec"
    pure (addTag { o with rules := rules', kbEdited := true, facts := ob.facts } true "kb_replace")
  | .wfStep g =>
    -- `set_agenda_focus(g)` (a new activation of `g`), then `execute`
    let o1 := { o with R := { o.R with lk := o.R.lk.filter (fun p => p.1 ≠ g) }, active := g }
    checkExec maxc nowT (addTag (addTag o1 (o.active == g) "refocus_active") true "workflow_step") ob
  | .workflow gs =>
    -- the clauses that need no segmentation, on the whole log: fired rules are known, enabled and inside their dates
    let some hevs := toHEv o.rules ob.events | .error "fired_unknown_rule"
    for e in hevs do
      match e with
      | .fire r =>
        if !r.enabled then .error "fired_disabled"
        if !r.activeAt nowT then .error "fired_outside_dates"
      | _ => pure ()
    -- step-by-step replay: every step is a recorded activation of its group followed by an `execute` whose passes are
    -- recovered as for a plain call (its `cycle_count` is not observable: the reference runs to a silent pass or the bound).
    -- An activation still queued by `activate_agenda_group` is re-applied by the first step's `execute` (after the step's own
    -- `set_agenda_focus`), so the first step runs under that group's focus.
    let vec := sortSal o.rules
    let names := firedNames ob.events
    let s0 : RSt := { facts := o.facts, foc := o.active, R := o.R }
    let (s1, groups) := match o.pending, gs with
      | some g', g1 :: rest => (s0.focus g1, g' :: rest)
      | _, _ => (s0, gs)
    let replay := segWorkflow maxc nowT vec groups s1 (ob.events.map levOf)
    let pending' := if gs.isEmpty then o.pending else none
    match ob.res with
    | .err =>
      -- `Err`: `steps_executed` is not reported; the replay must stop, inside some step, exactly at a rule whose action fails
      match replay with
      | .error (.actionFailed _ true sp) =>
        if sp.foc != ob.active then .error "focus_mismatch"
        let o := addTag (addTag (addTag o true "workflow") true "workflow_err_replayed") true "err"
        pure { o with R := sp.R, active := ob.active, pending := pending', facts := ob.facts, prevExec := 3, kbEdited := false, debugSet := false }
      | .error (.actionFailed _ false _) => .error "err_events_mismatch"
      | .error e => .error (segErrName vec names e)
      | .ok _ => .error "err_without_failing_action"
    | .other r =>
      match (r.drop 1).toString.toNat? with
      | some k =>
        if !r.startsWith "w" then .error s!"bad_result:{r}"
        if k > gs.length || (k = 0 && !gs.isEmpty) then .error "workflow_steps"
        -- each step is one `execute`: at most `max_cycles` passes over the knowledge base (`C03.countersOk` per step)
        if names.length > k * maxc * o.rules.length then .error "workflow_counters"
        match replay with
        | .error e => .error (segErrName vec names e)
        | .ok w =>
          if !w.rest.isEmpty then .error (segErrName vec names .leftover)
          if w.val.length != k then .error "workflow_steps"
          if w.s.foc != ob.active then .error "focus_mismatch"
          if w.val.any (fun step => step.any (fun ns => !passClausesOk vec ns)) then .error "pass_clauses"
          let o := addTag (addTag o true "workflow") true "workflow_steps_replayed"
          let o := addTag o (k ≥ 2) "workflow_ge_2_steps"
          let o := addTag o (w.val.any (fun step => (step.filter (fun ns => !ns.isEmpty)).length ≥ 2)) "workflow_multi_pass_step"
          pure { o with R := w.s.R, active := ob.active, pending := pending', facts := ob.facts,
                        prevExec := 0, kbEdited := false, debugSet := false }
      | none => .error s!"bad_result:{r}"
    | _ => .error "bad_result"

/-- one of the caller's undo-frame calls against its observation: it is not an execute (no events, result `u`, focus
untouched); begin / commit leave the facts alone, a rollback puts back the facts observed at the matching begin (`frames`:
the facts as OBSERVED at each open `begin_undo_frame`) -/
def checkFrame (o : OSt) (frames : List (List (Nat × Int))) (w : WCall) (ob : OpObs) (nf : Nat) :
    Except String (OSt × List (List (Nat × Int))) := do
  if !ob.events.isEmpty then .error "events_outside_execute"
  expectRes ob ["u"]
  if ob.active != o.active then .error "focus_mismatch"
  let f := frameStep o.facts frames w
  if showFacts nf ob.facts != showFacts nf f.1 then
    .error (match w with | .frameRollback => "rollback_not_restored" | _ => "frame_call_changed_facts")
  let o := match w with
    | .frameBegin => addTag o true "undo_frame_begin"
    | .frameCommit => addTag o (!frames.isEmpty) "undo_frame_commit"
    | .frameRollback => addTag (addTag o (!frames.isEmpty) "undo_frame_rollback") (!frames.isEmpty && showFacts nf o.facts != showFacts nf f.1) "rollback_undid_writes"
    | .call _ => o
  pure ({ o with facts := ob.facts }, f.2)

def checkAll (maxc nf : Nat) : OSt → List (List (Nat × Int)) → List WCall → List OpObs → Nat → Except String OSt
  | o, _, [], [], _ => .ok o
  | o, frames, .call op :: ops, ob :: obs, i =>
    let isExec := match op with | .op (.exec _) | .execNow | .wfStep _ | .workflow _ => true | _ => false
    match checkCall maxc (addTag o (isExec && !frames.isEmpty) "exec_in_undo_frame") op ob with
    | .ok o' => checkAll maxc nf o' frames ops obs (i + 1)
    | .error c => .error s!"{c}@{i}"
  | o, frames, w :: ops, ob :: obs, i =>
    match checkFrame o frames w ob nf with
    | .ok (o', frames') => checkAll maxc nf o' frames' ops obs (i + 1)
    | .error c => .error s!"{c}@{i}"
  | _, _, _, _, _ => .error "length"

/-- `ok <tags>` / `fail <clause>@<op index>`; `nontrivialTag` decides what counts as non-trivial -/
def oracleLine (nontrivial : List String → Bool) (line : String) : String :=
  match line.splitOn " | " with
  | [c, obsS] =>
    match parseCase? c with
    | none => "bad-input"
    | some cs =>
      match cs.start?, parseObs? obsS.trimAscii.toString with
      | some st, some obs =>
        match checkAll cs.maxc cs.nf { rules := st.rules, facts := cs.facts } [] cs.ops obs 0 with
        | .ok o =>
          let tags := o.tags.reverse
          Proto.joinSp ("ok" :: tags ++ (if nontrivial tags then ["nontrivial"] else []))
        | .error c => s!"fail {c}"
      | none, _ => if obsS.trimAscii.toString = "bad-case-dup" then "ok" else "bad-input"
      | _, none => s!"fail unparsable_observation"
  | _ => "bad-input"

end C02.Oracle
