import RreModel.C02.Api
import RreModel.C02.Lemmas
/-
C02 / C03 — helper lemmas about the wrapper calls of `RreModel/C02/Api.lean`: each call is a history of primitive operations.
-/
namespace C02

theorem sync_of_queue_nil {st : St} (h : st.queue = []) : sync st = st := by
  cases st
  simp only [sync] at *
  subst h
  rfl

theorem cycles_queue (t n : Nat) (st : St) (h : st.queue = []) : (cycles t n st).st.queue = [] := by
  induction n generalizing st with
  | zero => simpa [cycles] using h
  | succ n ih =>
    have hq1 : (passLoop t (sortSal st.rules) { st with actFired := [] }).st.queue = [] := by
      rw [(passLoop_rules _ _ _).2]; exact h
    simp only [cycles]
    split
    · exact hq1
    · split
      · exact hq1
      · exact ih _ rfl

theorem exec_queue (maxc t : Nat) (st : St) : (exec maxc t st).st.queue = [] :=
  cycles_queue t maxc (sync st) rfl

/-- after an `execute` the activation queue is empty: the drain in `process_workflow_actions` finds nothing -/
theorem processWorkflow_exec (maxc t : Nat) (st : St) : processWorkflow (exec maxc t st).st = (exec maxc t st).st :=
  sync_of_queue_nil (exec_queue maxc t st)

theorem wfStep_out (maxc now : Nat) (st : St) (g : Nat) :
    (wfStep maxc now st g).2 = exec maxc now (step maxc st (.focus g)).1 := by
  simp only [wfStep]
  split <;> rfl

theorem wfStep_state (maxc now : Nat) (st : St) (g : Nat) :
    (wfStep maxc now st g).1 = (exec maxc now (step maxc st (.focus g)).1).st := by
  simp only [wfStep]
  split
  · exact processWorkflow_exec _ _ _
  · rfl

theorem run_stepOps (maxc now : Nat) (st : St) (g : Nat) :
    run maxc st (stepOps now g) = ((wfStep maxc now st g).1, [.unit, .exec (wfStep maxc now st g).2]) := by
  rw [wfStep_state, wfStep_out]
  rfl

theorem run_append (maxc : Nat) (st : St) (a b : List Op) :
    (run maxc st (a ++ b)).1 = (run maxc (run maxc st a).1 b).1 := by
  induction a generalizing st with
  | nil => rfl
  | cons o a ih => simp only [List.cons_append, run]; exact ih _

theorem wfLoop_state (maxc now : Nat) (st : St) (gs : List Nat) :
    (wfLoop maxc now st gs).1 = (run maxc st ((wfVisited maxc now st gs).flatMap (stepOps now))).1 := by
  induction gs generalizing st with
  | nil => rfl
  | cons g gs ih =>
    simp only [wfLoop, wfVisited]
    split
    · simp [run_stepOps]
    · split
      · simp [run_stepOps]
      · simp only [List.flatMap_cons, run_append, run_stepOps]
        exact ih _

/-- removing a list of names one by one -/
theorem run_removes (maxc : Nat) (st : St) (ns : List Nat) :
    (run maxc st (ns.map Op.remove)).1 = { st with rules := st.rules.filter (fun r => !ns.contains r.name) } := by
  induction ns generalizing st with
  | nil =>
    cases st
    simp only [List.map_nil, run, List.contains_nil, Bool.not_false]
    congr 1
    exact (List.filter_eq_self.mpr (fun _ _ => rfl)).symm
  | cons n ns ih =>
    simp only [List.map_cons, run, step]
    rw [ih]
    simp only [List.filter_filter]
    congr 1
    apply List.filter_congr
    intro r _
    by_cases h : r.name = n <;> simp [h]

theorem run_clear (maxc : Nat) (st : St) :
    (run maxc st (st.rules.map (fun r => Op.remove r.name))).1 = { st with rules := [] } := by
  have : st.rules.map (fun r => Op.remove r.name) = (st.rules.map (·.name)).map Op.remove := by
    simp [List.map_map]
  rw [this, run_removes]
  congr 1
  rw [List.filter_eq_nil_iff]
  intro r hr
  simp only [Bool.not_eq_true, Bool.not_eq_false', List.contains_eq_mem, decide_eq_true_eq, List.mem_map]
  exact ⟨r, hr, rfl⟩

theorem callStep_state (maxc now : Nat) (st : St) (c : Call) :
    (callStep maxc now st c).1 = (run maxc st (c.ops maxc now st)).1 := by
  cases c with
  | op o => rfl
  | execNow => rfl
  | setDebug b => rfl
  | setAnalytics b => rfl
  | viaMut o => rfl
  | kbClear => exact (run_clear maxc st).symm
  | kbReplace rs => simp only [callStep, Call.ops, run_append, run_clear]
  | wfStep g => simp [callStep, Call.ops, run_stepOps]
  | workflow gs => exact wfLoop_state maxc now st gs

theorem callsRun_state (maxc now : Nat) (st : St) (cs : List Call) :
    (callsRun maxc now st cs).1 = (run maxc st (callsOps maxc now st cs)).1 := by
  induction cs generalizing st with
  | nil => rfl
  | cons c cs ih =>
    simp only [callsRun, callsOps, run_append]
    rw [ih, callStep_state]

/-- every `execute` made by `execute_workflow` is `exec maxc now` from some state -/
theorem wfLoop_outs (maxc now : Nat) (st : St) (gs : List Nat) :
    ∀ o ∈ (wfLoop maxc now st gs).2.1, ∃ s, o = exec maxc now s := by
  induction gs generalizing st with
  | nil => intro o h; simp [wfLoop] at h
  | cons g gs ih =>
    intro o h
    simp only [wfLoop] at h
    split at h
    · simp only [List.mem_singleton] at h; exact ⟨_, h.trans (wfStep_out _ _ _ _)⟩
    · split at h
      · simp only [List.mem_singleton] at h; exact ⟨_, h.trans (wfStep_out _ _ _ _)⟩
      · simp only [List.mem_cons] at h
        rcases h with h | h
        · exact ⟨_, h.trans (wfStep_out _ _ _ _)⟩
        · exact ih _ o h

end C02
