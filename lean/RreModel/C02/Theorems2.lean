import RreModel.C02.Theorems
import RreModel.C02.PassesLemmas
/-
C02 — property theorems, part 2: the per-pass clauses on calls that make ANY number of passes (the segmented replay of
`Passes.lean` is a theorem about the model and a runtime check on the implementation), and the boundary semantics of the
date window.
-/
namespace C02

/-! ## every pass of a multi-pass call -/

/-- the reference state read off an engine state -/
def refOf (st : St) : RSt :=
  { facts := st.facts, foc := st.agenda.active, R := { nl := st.firedGlobal, lk := st.agenda.firedPer }, af := [] }

/-- the agenda manager's own invariant: a group with a fired-entry has been activated (`mark_rule_fired` inserts both,
`set_focus` removes the entries and keeps the group, nothing else writes them) -/
def AgendaInv (st : St) : Prop := ∀ p ∈ st.agenda.firedPer, p.1 ∈ st.agenda.activated

theorem rel_refOf {st : St} (hinv : AgendaInv st) (hq : st.queue = []) :
    Rel { refOf st with af := [] } { st with actFired := [] } :=
  ⟨rfl, rfl, fun _ => Iff.rfl, fun _ => Iff.rfl, hinv, by simp, hq⟩

/-- **exec_passes_accepted (general form).** For every engine state, rule set, timestamp and `max_cycles`: if the
reference state `s` is an exact image of the state `execute` starts from (after the queue drain), the log of a call that
returns `Ok` is accepted by the segmented predicate with the call's own `cycle_count` as fuel; the segmentation it
recovers is exactly the sequence of passes the call made; the reference state it ends in is an exact image of the final
engine state (so the next call of the history starts exact again); and every recovered pass satisfies the single-pass
clauses: it is a sublist of the salience-sorted vector — descending salience, vector (= insertion) order among equals —
and fires at most one rule of every activation group. (That the one that fires is the first eligible one with a true
condition, no-loop and lock-on-active are what `segPass` demands at every rule's turn: `gate_eq_should`.) -/
theorem exec_passes_accepted_rel (maxc t : Nat) (st : St) (s : RSt)
    (h : Rel { s with af := [] } { sync st with actFired := [] }) (hok : (exec maxc t st).ok = true) :
    ∃ s', segAccept maxc t (sortSal st.rules) (exec maxc t st).cycles s ((exec maxc t st).passes.flatten.map levOfEv) =
        .ok (s', (exec maxc t st).passes.map (fun p => (firedRules p).map (·.name))) ∧
      Rel { s' with af := [] } { (exec maxc t st).st with actFired := [] } ∧
      ∀ p ∈ (exec maxc t st).passes,
        (firedRules p).Sublist (sortSal st.rules) ∧
        (firedRules p).Pairwise (fun a b => b.salience ≤ a.salience) ∧
        (∀ sal : Int, ((firedRules p).filter (fun r => r.salience = sal)).Sublist (st.rules.filter (fun r => r.salience = sal))) ∧
        ∀ a, (p.filter (isActFire a)).length ≤ 1 := by
  obtain ⟨s', b, h1, h2, h3, h4⟩ := segCycles_model t maxc (sync st) s [] h hok
  have hr : (sync st).rules = st.rules := rfl
  rw [hr, List.append_nil] at h1
  refine ⟨s', ?_, h2, fun p hp => ?_⟩
  · have hlen : ((exec maxc t st).passes.map (fun p => (firedRules p).map (·.name))).length = (exec maxc t st).cycles := by
      rw [List.length_map]; exact h3
    have hb : ((exec maxc t st).cycles < maxc && !b) = false := by
      by_cases hlt : (exec maxc t st).cycles < maxc
      · rw [h4 hlt]; simp
      · simp [hlt]
    simp only [exec] at h1 hlen hb ⊢
    simp only [segAccept, h1, List.isEmpty_nil, Bool.not_true, Bool.false_eq_true, if_false, hlen, bne_self_eq_false]
    simpa using h4
  · obtain ⟨o1, o2, o3⟩ := exec_pass_order maxc t st p hp
    exact ⟨o1, o2, o3, fun a => activation_group_one_per_pass hp a⟩

/-- **exec_passes_accepted.** The same with the reference state read off the engine state: for EVERY state whose agenda
manager satisfies its own invariant, every rule set, timestamp and `max_cycles`, the multi-pass run of the model satisfies
the segmented predicate, and the recovered passes are the passes it made. -/
theorem exec_passes_accepted (maxc t : Nat) (st : St) (hinv : AgendaInv (sync st)) (hok : (exec maxc t st).ok = true) :
    ∃ s', segAccept maxc t (sortSal st.rules) (exec maxc t st).cycles (refOf (sync st))
        ((exec maxc t st).passes.flatten.map levOfEv) =
        .ok (s', (exec maxc t st).passes.map (fun p => (firedRules p).map (·.name))) ∧
      Rel { s' with af := [] } { (exec maxc t st).st with actFired := [] } :=
  let ⟨s', h1, h2, _⟩ := exec_passes_accepted_rel maxc t st (refOf (sync st)) (rel_refOf hinv rfl) hok
  ⟨s', h1, h2⟩

/-- **exec_err_accepted.** A call that returns `Err` (an action of a rule that was due to fire fails; `cycle_count` is not
observable) is accepted by the segmented predicate for failing calls: the replay with the bound as fuel explains every
pass before the failure as a firing pass of the reference and stops, inside a pass, exactly at the first rule due to fire
one of whose actions fails on the reference facts, the log ending with the `act` events of the actions before it; the
reference state it returns is an exact image of the state the failed call leaves behind. -/
theorem exec_err_accepted (maxc t : Nat) (st : St) (s : RSt)
    (h : Rel { s with af := [] } { sync st with actFired := [] }) (herr : (exec maxc t st).ok = false) :
    ∃ sp, segAcceptErr maxc t (sortSal st.rules) s ((exec maxc t st).passes.flatten.map levOfEv) = some sp ∧
      Rel { sp with af := [] } { (exec maxc t st).st with actFired := [] } := by
  obtain ⟨m, sp, h1, h2⟩ := segCycles_model_err t maxc (sync st) s h herr
  have hr : (sync st).rules = st.rules := rfl
  rw [hr] at h1
  exact ⟨sp, by simp only [exec, segAcceptErr, h1], h2⟩

/-- what acceptance means at a rule's turn, spelled out: under an exact reference state the code's gate and condition
coincide with the property's letter — enabled, inside the date window, in the focused group, not held back by no-loop /
lock-on-active, activation group free in this pass, condition true -/
theorem should_iff {s : RSt} {st : St} (h : Rel s st) (t : Nat) (r : Rule) :
    s.should t r = true ↔ (gate st t r = true ∧ r.cond.holds st.facts = true) := by
  rw [← gate_eq_should h t r, Bool.and_eq_true]

/-- a pass recovered by the replay is, by construction, a subsequence of the names of the vector it walked (whatever
the log was): an accepted log cannot contain a pass that is out of salience / insertion order -/
theorem segPass_sublist {t : Nat} {rs : List Rule} {s : RSt} {evs : List LEv} {o : SegOut (List Nat)}
    (h : segPass t rs s evs = .ok o) : o.val.Sublist (rs.map (·.name)) := by
  induction rs generalizing s evs o with
  | nil => simp only [segPass, Except.ok.injEq] at h; subst h; simp
  | cons r rs ih =>
    simp only [segPass] at h
    split at h
    · split at h
      · simp at h
      · split at h
        · simp at h
        · split at h
          · simp at h
          · rename_i o' ho'
            simp only [Except.ok.injEq] at h
            subst h
            exact List.Sublist.cons_cons _ (ih ho')
    · exact List.Sublist.cons _ (ih h)

/-! ## histories: the reference sets carried from call to call stay exact -/

theorem exactQ_step {maxc : Nat} {R : Ref} {st : St} (op : Op) (h : ExactQ R st) :
    execAccepted maxc R st op = true ∧ ExactQ (refOp maxc R st op) (step maxc st op).1 := by
  cases op with
  | exec t =>
    by_cases hok : (exec maxc t st).ok = true
    · obtain ⟨s', h1, h2, _⟩ := exec_passes_accepted_rel maxc t st (refAt R st) (rel_of_exactQ h) hok
      have hr : replayExec maxc t R st = .ok (s', (exec maxc t st).passes.map (fun p => (firedRules p).map (·.name))) := h1
      refine ⟨by simp [execAccepted, hok, hr], ?_⟩
      simp only [refOp, hok, if_true, hr, step]
      exact exactQ_of_rel h2
    · have herr : (exec maxc t st).ok = false := by simpa using hok
      obtain ⟨sp, h1, h2⟩ := exec_err_accepted maxc t st (refAt R st) (rel_of_exactQ h) herr
      have hr : replayErr maxc t R st = some sp := h1
      refine ⟨by simp [execAccepted, herr, hr], ?_⟩
      simp only [refOp, herr, Bool.false_eq_true, if_false, hr, step]
      exact exactQ_of_rel h2
  | focus g => exact ⟨rfl, exactQ_focus g h⟩
  | pop =>
    refine ⟨rfl, h.nl, ?_, ?_, h.q⟩
    · intro p
      simp only [refOp, step, Agenda.pop]
      split
      · split <;> exact h.lk p
      · exact h.lk p
    · intro p
      simp only [step, Agenda.pop]
      split
      · split <;> exact h.inv p
      · exact h.inv p
  | clear => exact ⟨rfl, h.nl, h.lk, h.inv, h.q⟩
  | resetNoLoop => exact ⟨rfl, by simp [refOp, step], h.lk, h.inv, h.q⟩
  | activate g =>
    have h' := exactQ_focus g h
    refine ⟨rfl, h'.nl, h'.lk, h'.inv, ?_⟩
    intro g' hg' p hp
    simp only [step, List.mem_append, List.mem_singleton] at hg'
    rcases hg' with hg' | rfl
    · exact h'.q g' hg' p hp
    · simp only [refOp, List.mem_filter] at hp; simpa using hp.2
  | add r =>
    simp only [step]
    split
    · exact ⟨rfl, h⟩
    · exact ⟨rfl, h.nl, h.lk, h.inv, h.q⟩
  | remove n => exact ⟨rfl, h.nl, h.lk, h.inv, h.q⟩
  | enable n b => exact ⟨rfl, h.nl, h.lk, h.inv, h.q⟩
  | setFact f v => exact ⟨rfl, h.nl, h.lk, h.inv, h.q⟩

theorem refRun_of_exactQ (maxc : Nat) (R : Ref) (st : St) (ops : List Op) (h : ExactQ R st) :
    refRun maxc R st ops = true := by
  induction ops generalizing R st with
  | nil => rfl
  | cons op ops ih =>
    obtain ⟨h1, h2⟩ := exactQ_step (maxc := maxc) op h
    simp only [refRun, h1, Bool.true_and]
    exact ih _ _ h2

/-- **history_passes_accepted.** Over EVERY history of API calls on a fresh engine (every rule set, every edit of the
knowledge base between the calls, every focus history, every timestamp, every `max_cycles`, calls that return `Err`
included): the reference sets the oracle carries from call to call (updated by the recorded activations, the resets and
the replay of each `execute`) are, before every call, an exact image of the engine's no-loop and lock-on-active
bookkeeping, and EVERY `execute` of the history — however many passes it makes — is accepted by the segmented predicate
started from the observed facts, the observed focus and those carried sets: a call that returns `Ok` by `segAccept`, the
replay recovering exactly its passes; a call that returns `Err` by `segAcceptErr`. By `calls_are_history` the same holds
for the histories of wrapper calls (`execute_workflow_step`, `execute_workflow`, knowledge-base replacement, …). -/
theorem history_passes_accepted (maxc : Nat) (ops : List Op) : refRun maxc {} init ops = true :=
  refRun_of_exactQ maxc {} init ops ⟨by simp [init], by simp [init], by simp [init], by simp [init]⟩

/-! ## `execute_workflow` -/

/-- **workflow_steps_accepted.** For every state (exact reference state, empty activation queue), rule set, group list and
`max_cycles`: the log of an `execute_workflow` call that returns `Ok` is accepted by the step-by-step replay — per group
a recorded activation and an `execute` whose passes are recovered with the bound as fuel (the steps' `cycle_count` is not
observable) — which recovers exactly the steps made (`steps_executed` of them) and, inside every step, exactly its
passes; the reference state it ends in is an exact image of the final engine state, so the oracle need not go blind
after a workflow call. -/
theorem workflow_steps_accepted (maxc now : Nat) (gs : List Nat) (st : St) (s : RSt)
    (h : Rel { s with af := [] } { st with actFired := [] }) (hok : (wfLoop maxc now st gs).2.2 = true) :
    ∃ s', segWorkflow maxc now (sortSal st.rules) gs s
        (((wfLoop maxc now st gs).2.1.map (fun o => o.passes.flatten)).flatten.map levOfEv) =
        .ok { s := s', rest := [],
              val := (wfLoop maxc now st gs).2.1.map (fun o => o.passes.map (fun p => (firedRules p).map (·.name))) } ∧
      Rel { s' with af := [] } { (wfLoop maxc now st gs).1 with actFired := [] } := by
  have := segWorkflow_model maxc now gs st s [] h hok
  simpa using this

/-! ## the date window at its boundaries -/

/-- **activeAt_boundaries.** `Rule::is_active_at` as the code has it (`now < effective → false`, `now >= expires → false`):
the effective instant itself is inside the window, the expiry instant itself is outside; one tick before the effective
instant is outside, one tick before the expiry instant is inside (when the window has started); an empty window
(`expires ≤ effective`) is never active; between the boundaries the answer does not change. -/
theorem activeAt_boundaries (r : Rule) (e x : Nat) :
    (r.effective = some e → r.expires = some x → e < x → r.activeAt e = true) ∧
    (r.effective = some e → r.expires = none → r.activeAt e = true) ∧
    (r.expires = some x → r.activeAt x = false) ∧
    (r.effective = some e → ∀ t, t < e → r.activeAt t = false) ∧
    (r.expires = some x → ∀ t, x ≤ t → r.activeAt t = false) ∧
    (r.effective = some e → r.expires = some x → ∀ t, e ≤ t → t < x → r.activeAt t = true) ∧
    (r.effective = some e → r.expires = some x → x ≤ e → ∀ t, r.activeAt t = false) ∧
    (r.effective = none → r.expires = some x → ∀ t, t < x → r.activeAt t = true) ∧
    (r.effective = some e → r.expires = none → ∀ t, e ≤ t → r.activeAt t = true) := by
  unfold Rule.activeAt
  refine ⟨?_, ?_, ?_, ?_, ?_, ?_, ?_, ?_, ?_⟩
  · intro h1 h2 h; simp [h1, h2]; omega
  · intro h1 h2; simp [h1, h2]
  · intro h2; simp [h2]
  · intro h1 t h; simp [h1]; intro; omega
  · intro h2 t h; simp [h2]; intro; omega
  · intro h1 h2 t ha hb; simp [h1, h2]; omega
  · intro h1 h2 h t; simp [h1, h2]; omega
  · intro h1 h2 t h; simp [h1, h2]; omega
  · intro h1 h2 t h; simp [h1, h2]; omega

/-- …hence over every call of every history: at timestamp `t` no pass fires a rule whose expiry is `≤ t` (in particular
`expires == t`) or whose effective date is `> t`; `effective == t` does not exclude a rule. -/
theorem exec_date_boundaries {maxc t : Nat} {st : St} {p : List Ev} (hp : p ∈ (exec maxc t st).passes)
    {r : Rule} {foc : Nat} (h : Ev.fire r foc ∈ p) :
    (∀ x, r.expires = some x → x ≠ t ∧ t < x) ∧ (∀ e, r.effective = some e → e ≤ t) := by
  obtain ⟨_, _, h3, h4, _⟩ := exec_fired_was_eligible hp h
  exact ⟨fun x hx => ⟨by have := h4 x hx; omega, h4 x hx⟩, h3⟩

/-! ## non-vacuity -/

/-- `ra` and `rb` share activation group 0. Pass 1 fires `ra` (which falsifies its own condition) and holds `rb` back,
pass 2 fires `rb` at a turn where the group is free again and `rb` falsifies its own condition, pass 3 is silent:
`cycle_count = 3 < 5`. -/
def ra : Rule :=
  { name := 0, salience := 7, enabled := true, noLoop := false, lock := false, agenda := none, actGroup := some 0,
    effective := some 10, expires := some 12, cond := .eq 0 0, actions := [.set 0 1] }
def rb : Rule :=
  { name := 1, salience := 0, enabled := true, noLoop := true, lock := true, agenda := none, actGroup := some 0,
    effective := none, expires := none, cond := .eq 1 0, actions := [.activate 0, .set 1 1] }
def stAB : St := (run 5 init [.setFact 0 0, .setFact 1 0, .add rb, .add ra]).1

example : (exec 5 10 stAB).ok = true ∧ (exec 5 10 stAB).cycles = 3 ∧
    (exec 5 10 stAB).passes.map (fun p => (firedRules p).map (·.name)) = [[0], [1], []] := by decide +kernel
example : AgendaInv (sync stAB) := by
  have h0 : (sync stAB).agenda.firedPer = [] := by decide +kernel
  intro p hp; rw [h0] at hp; simp at hp
example : (segAccept 5 10 (sortSal stAB.rules) 3 (refOf (sync stAB)) [.fire 0, .act 0, .fire 1]).toOption.map (·.2) =
    some [[0], [1], []] := by decide +kernel
/-- the same log is rejected when it claims that both rules of the group fired in ONE pass (`cycle_count = 2`), when the
order inside a pass is wrong, and when an eligible rule with a true condition is missing -/
example : (segAccept 5 10 (sortSal stAB.rules) 2 (refOf (sync stAB)) [.fire 0, .act 0, .fire 1]).toOption = none := by
  decide +kernel
example : (segAccept 5 10 (sortSal stAB.rules) 3 (refOf (sync stAB)) [.act 0, .fire 1, .fire 0]).toOption = none := by
  decide +kernel
example : (segAccept 5 10 (sortSal stAB.rules) 2 (refOf (sync stAB)) [.fire 0]).toOption = none := by decide +kernel
/-- a history: `rb` (no-loop, lock-on-active in MAIN, re-arming itself by `ActivateAgendaGroup(MAIN)`) and `ra`; three
executes with an `activate_agenda_group`, a reset and a re-focus in between; all accepted -/
def histAB : List Op :=
  [.setFact 0 0, .setFact 1 0, .add rb, .add ra, .exec 10, .setFact 0 0, .setFact 1 0, .activate 0, .focus 1, .exec 11,
   .resetNoLoop, .focus 0, .exec 11]
example : refRun 5 {} init histAB = true := by decide +kernel
example : ((run 5 init histAB).2.filterMap fun | .exec o => some (o.passes.map (fun p => (firedRules p).map (·.name))) | _ => none) =
    [[[0], [1], []], [[0], []], [[1], []]] := by decide +kernel
/-- a workflow over the groups [1, 1, 2]: step 1 fires `rW` (group 1), step 2 fires it again (a new activation of its
group) … the replay recovers the three steps and their passes -/
def rW : Rule :=
  { name := 7, salience := 0, enabled := true, noLoop := false, lock := true, agenda := some 1, actGroup := none,
    effective := none, expires := none, cond := .eq 0 0, actions := [] }
def stW : St := (run 3 init [.setFact 0 0, .add rW]).1
example : (wfLoop 3 50 stW [1, 1, 2]).2.2 = true ∧
    (wfLoop 3 50 stW [1, 1, 2]).2.1.map (fun o => o.passes.map (fun p => (firedRules p).map (·.name))) =
      [[[7], []], [[7], []], [[]]] := by decide +kernel
example : (segWorkflow 3 50 (sortSal stW.rules) [1, 1, 2] (refOf stW) [.fire 7, .fire 7]).toOption.map (·.val) =
    some [[[7], []], [[7], []], [[]]] := by decide +kernel
/-- an `execute` that returns `Err`: pass 1 fires `ra`; in pass 2 `rErr` (condition `f0 = 1`, true after `ra`) runs
`ActivateAgendaGroup(2)` and then `f5 := f5 + 1` on an absent field — the log ends with the activation event -/
def rErr : Rule :=
  { name := 3, salience := 9, enabled := true, noLoop := false, lock := false, agenda := none, actGroup := none,
    effective := none, expires := none, cond := .eq 0 1, actions := [.activate 2, .add 5 1] }
def stErr : St := (run 5 init [.setFact 0 0, .add ra, .add rErr]).1
example : (exec 5 10 stErr).ok = false ∧ (exec 5 10 stErr).passes.flatten.map levOfEv = [.fire 0, .act 2] := by decide +kernel
example : (segAcceptErr 5 10 (sortSal stErr.rules) (refOf (sync stErr)) [.fire 0, .act 2]).map (·.foc) = some 2 ∧
    segAcceptErr 5 10 (sortSal stErr.rules) (refOf (sync stErr)) [.fire 0] = none ∧
    segAcceptErr 5 10 (sortSal stErr.rules) (refOf (sync stErr)) [.act 2] = none := by decide +kernel
/-- a history through a failing call: the failed `execute` leaves group 2 focused; the field is repaired, the focus set
back, the next `execute` fires `rErr`; all accepted -/
example : refRun 5 {} init [.setFact 0 0, .add ra, .add rErr, .exec 10, .setFact 5 0, .focus 0, .exec 10, .exec 10] = true := by
  decide +kernel
/-- the window of `ra` is `[10, 12)`: active at 10 and 11, not at 9 and 12 -/
example : [9, 10, 11, 12, 13].map ra.activeAt = [false, true, true, false, false] := by decide
example : ((run 1 stAB [.exec 9, .exec 12, .exec 11]).2.map fun | .exec o => (firedRules o.passes.flatten).map (·.name) | _ => []) =
    [[1], [], [0]] := by decide +kernel

end C02
