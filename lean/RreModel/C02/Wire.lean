import RreModel.Proto
import RreModel.C02.Model
import RreModel.C02.Api
/-
Line protocol of C02/C03 (shared by Driver/C02.lean and Driver/C03.lean): parsing of case lines and
observation lines, printing of the model's prediction. Format: see harness/src/bin/c02.rs.
Glue only — nothing here is used by a theorem.
-/
namespace C02.Wire
open Proto C02

def optNat? (s : String) : Option (Option Nat) :=
  if s = "_" then some none else s.toNat?.map some

/-- nanoseconds per abstract second: the model's time unit is the nanosecond (`DateTime<Utc>` resolution), so that
instants inside one second / millisecond / microsecond are distinct -/
def NS : Nat := 1000000000

/-- an instant: `<sec>` | `<sec>f<nanos>` ↦ nanoseconds -/
def parseInstant? (s : String) : Option Nat :=
  match s.splitOn "f" with
  | [a] => a.toNat?.map (· * NS)
  | [a, n] => do
    let a ← a.toNat?
    let n ← n.toNat?
    if n < NS then some (a * NS + n) else none
  | _ => none

/-- a date attribute: `_` | inst | inst@<how>. `<how>` (`u`, `+hhmm`, `-hhmm`) only tells the harness through
which builder twin and in which textual form (UTC offset) the SAME abstract instant is handed to the rule; the
model sees the instant (in nanoseconds). -/
def optDate? (s : String) : Option (Option Nat) :=
  match s.splitOn "@" with
  | [a] => if a = "_" then some none else (parseInstant? a).map some
  | [a, h] =>
    let okHow := h = "u" ||
      ((h.startsWith "+" || h.startsWith "-") && h.length = 5 && (h.drop 1).toString.toList.all Char.isDigit)
    if okHow then (parseInstant? a).map some else none
  | _ => none

def parseCond? (s : String) : Option Cond :=
  match s.splitOn "." with
  | [k, f, v] => do
    let f ← f.toNat?
    let v ← v.toInt?
    if k = "E" then some (.eq f v) else if k = "L" then some (.lt f v) else if k = "G" then some (.gt f v) else none
  | _ => none

def parseAct? (s : String) : Option Action :=
  match s.splitOn "." with
  | [k, a, b] => do
    let a ← a.toNat?
    let b ← b.toInt?
    if k = "S" then some (.set a b) else if k = "A" then some (.add a b) else none
  | [k, g] => if k = "F" then g.toNat?.map .activate else none
  | _ => none

/-- the action list of a rule. `W.<k>` (k ≤ 2: `ScheduleRule`, `CompleteWorkflow`, `SetWorkflowData`) is a workflow
bookkeeping action: `execute_action` hands it to the `WorkflowEngine` (a task list / workflow table that `execute` never
reads), it cannot fail and touches neither the facts nor the agenda nor the loop control — the model sees the rule
without it (a rule whose actions are all of this kind is, to the model, a rule with an empty action list: it fires and
keeps the cycle loop alive like any other firing). -/
def parseActs? (s : String) : Option (List Action) :=
  if s = "-" then some []
  else (s.splitOn "/").foldr (fun a acc => do
    let rest ← acc
    match a.splitOn "." with
    | ["W", k] => do
      let k ← k.toNat?
      if k ≤ 2 then pure rest else none
    -- `O.<k>.<v>`: a dotted-path `Set` (`o0.x` / `o1.x` / `o0.y.z`, harness/src/bin/c02.rs) on facts no condition reads: it
    -- cannot fail (`set_nested`, else the flat key) and touches neither the integer fields nor the agenda — skipped like `W`
    | ["O", k, v] => do
      let k ← k.toNat?
      let _ ← v.toInt?
      if k ≤ 2 then pure rest else none
    | _ => do
      let x ← parseAct? a
      pure (x :: rest)) (some [])

def parseRule? (s : String) : Option Rule :=
  match s.splitOn ":" with
  | [n, sal, fl, ag, actg, eff, exp, c, acts] => do
    let n ← n.toNat?
    let sal ← sal.toInt?
    let fl ← fl.toNat?
    let ag ← optNat? ag
    let actg ← optNat? actg
    let eff ← optDate? eff
    let exp ← optDate? exp
    let c ← parseCond? c
    let acts ← parseActs? acts
    pure { name := n, salience := sal, enabled := fl % 2 = 1, noLoop := (fl / 2) % 2 = 1, lock := (fl / 4) % 2 = 1,
           agenda := ag, actGroup := actg, effective := eff, expires := exp, cond := c, actions := acts }
  | _ => none

/-- abstract time of `execute_with_callback` (= now), in nanoseconds -/
def nowT : Nat := 50 * NS

def parseOp? (s : String) : Option Op :=
  let rest := (s.drop 1).toString
  if s = "C" then some (.exec nowT)
  else if s = "P" then some .pop
  else if s = "Z" then some .clear
  else if s = "N" then some .resetNoLoop
  -- `X<t>u`: the same instant, handed over as a `DateTime<Utc>` built by arithmetic (harness/src/bin/c02.rs)
  else if s.startsWith "X" then (parseInstant? (if rest.endsWith "u" then (rest.dropEnd 1).toString else rest)).map .exec
  else if s.startsWith "F" then rest.toNat?.map .focus
  else if s.startsWith "V" then rest.toNat?.map .activate
  else if s.startsWith "A" then (parseRule? rest).map .add
  else if s.startsWith "R" then rest.toNat?.map .remove
  else if s.startsWith "E" then rest.toNat?.map (.enable · true)
  else if s.startsWith "D" then rest.toNat?.map (.enable · false)
  else if s.startsWith "S" then
    match rest.splitOn "." with
    | [f, v] => do
      let f ← f.toNat?
      let v ← v.toInt?
      pure (.setFact f v)
    | _ => none
  else none

def isKbOp : Op → Bool
  | .add _ | .remove _ | .enable _ _ => true
  | _ => false

/-- a case op: the primitive ops, plus `T` execute | `B0` / `B1` set_debug_mode | `Q0` / `Q1` disable / enable analytics | `M<A|R|E|D>…` the knowledge-base call
through `knowledge_base_mut()` | `K` knowledge_base().clear() | `H<l|s|g>&rule&…` `*knowledge_base_mut() = new_kb` | `W<g>` execute_workflow_step | `Y<g>.<g>.…` execute_workflow -/
def parseCall? (s : String) : Option Call :=
  let rest := (s.drop 1).toString
  if s = "T" then some .execNow
  else if s = "K" then some .kbClear
  else if s = "B0" then some (.setDebug false)
  else if s = "B1" then some (.setDebug true)
  else if s = "Q0" then some (.setAnalytics false)
  else if s = "Q1" then some (.setAnalytics true)
  else if s.startsWith "M" then do
    let o ← parseOp? rest
    if isKbOp o then some (.viaMut o) else none
  else if s.startsWith "H" then
    -- `H<mode>` | `H<mode>&rule&rule…`, mode = `l` / `s` / `g`: how the new base's version counter compares (harness only)
    match rest.splitOn "&" with
    | m :: rs => if m = "l" || m = "s" || m = "g" then (rs.mapM parseRule?).map .kbReplace else none
    | [] => none
  else if s.startsWith "W" then rest.toNat?.map .wfStep
  else if s.startsWith "Y" then ((rest.splitOn ".").mapM String.toNat?).map .workflow
  else (parseOp? s).map .op

/-- a case op: a public call of the engine, or one of the CALLER's undo-frame calls on the `Facts` handed to `execute`
(`Ub` begin_undo_frame / `Uc` commit_undo_frame / `Ur` rollback_undo_frame, src/engine/facts.rs) -/
inductive WCall where
  | call (c : Call)
  | frameBegin
  | frameCommit
  | frameRollback
deriving Repr

def parseWCall? (s : String) : Option WCall :=
  if s = "Ub" then some .frameBegin
  else if s = "Uc" then some .frameCommit
  else if s = "Ur" then some .frameRollback
  else (parseCall? s).map .call

/-- `Facts` undo frames as the caller of `execute` sees them: every write of the engine goes through `Facts::set` /
`Facts::set_nested`, both of which record the previous value of the key in the innermost open frame (once per key), and
`commit_undo_frame` merges the entries into the enclosing frame (first recorded value wins) — so `rollback_undo_frame` restores
the store to what it was at the matching `begin_undo_frame`. The frame stack is therefore a stack of stores; commit / rollback
with no frame open do nothing. Returns the new (facts, frames). -/
def frameStep (facts : List (Nat × Int)) (frames : List (List (Nat × Int))) : WCall → List (Nat × Int) × List (List (Nat × Int))
  | .call _ => (facts, frames)
  | .frameBegin => (facts, facts :: frames)
  | .frameCommit => (facts, frames.drop 1)
  | .frameRollback =>
    match frames with
    | snap :: rest => (snap, rest)
    | [] => (facts, [])

/-- facts token: `-` | v,v,… with `_` for an absent field -/
def parseFacts? (s : String) : Option (List (Option Int)) :=
  if s = "-" then some [] else (s.splitOn ",").mapM (fun x => if x = "_" then some none else x.toInt?.map some)

def factsOf (vs : List (Option Int)) : List (Nat × Int) :=
  ((List.range vs.length).zip vs).filterMap (fun (i, v) => v.map (fun x => (i, x)))

structure Case where
  maxc : Nat
  nf : Nat
  facts : List (Nat × Int)
  rules : List Rule
  ops : List WCall

def parseCase? (line : String) : Option Case :=
  match tokens line with
  | [m, f, rs, os] => do
    -- `d`: the engine is built with `RustRuleEngine::new` (default configuration)
    let m ← if m = "d" then some defaultMaxCycles else m.toNat?
    let f ← parseFacts? f
    let rs ← if rs = "-" then some [] else (rs.splitOn ";").mapM parseRule?
    let os ← if os = "-" then some [] else (os.splitOn ";").mapM parseWCall?
    pure { maxc := m, nf := f.length, facts := factsOf f, rules := rs, ops := os }
  | _ => none

/-- the engine state after the initial knowledge base has been loaded; `none` = duplicate names -/
def Case.start? (c : Case) : Option St :=
  let r := run c.maxc { init with facts := c.facts } (c.rules.map Op.add)
  if r.2.all (· == Res.added true) then some r.1 else none

/-! ### printing -/

def showEv : Ev → String
  | .fire r _ => s!"f{r.name}"
  | .act g => s!"a{g}"

def showEvents (es : List Ev) : String :=
  if es.isEmpty then "-" else ",".intercalate (es.map showEv)

def showFacts (nf : Nat) (fs : List (Nat × Int)) : String :=
  if nf = 0 then "-"
  else ",".intercalate ((List.range nf).map fun i => match fget fs i with | some v => toString v | none => "_")

def showRes : Res → String
  | .exec o => if o.ok then s!"ok,{o.cycles},{o.evaluated},{o.fired}" else "err"
  | .popped (some g) => s!"p{g}"
  | .popped none => "p_"
  | .added true => "a1"
  | .added false => "a0"
  | .found true => "b1"
  | .found false => "b0"
  | .unit => "u"

def resEvents : Res → List Ev
  | .exec o => o.passes.flatten
  | _ => []

def showCRes : CRes → String
  | .res r => showRes r
  | .workflow outs ok => if ok then s!"w{outs.length}" else "err"

def cresEvents : CRes → List Ev
  | .res r => resEvents r
  | .workflow outs _ => (outs.map (fun o => o.passes.flatten)).flatten

/-- the model's observation line -/
def modelObs (c : Case) (st : St) : String :=
  let rec go (st : St) (frames : List (List (Nat × Int))) : List WCall → List String
    | [] => []
    | .call op :: ops =>
      let s := callStep c.maxc nowT st op
      s!"{showCRes s.2}/{showEvents (cresEvents s.2)}/{s.1.agenda.active}/{showFacts c.nf s.1.facts}" :: go s.1 frames ops
    | w :: ops =>
      let f := frameStep st.facts frames w
      let st' := { st with facts := f.1 }
      s!"u/-/{st'.agenda.active}/{showFacts c.nf st'.facts}" :: go st' f.2 ops
  let l := go st [] c.ops
  if l.isEmpty then "-" else ";".intercalate l

/-! ### observations of the implementation -/

/-- observable event: rule name fired / group activated by an action -/
inductive OEv where
  | fire (n : Nat)
  | act (g : Nat)
deriving Repr, DecidableEq

inductive ORes where
  | ok (cycles evaluated fired : Nat)
  | err
  | other (s : String)
deriving Repr, DecidableEq

structure OpObs where
  res : ORes
  events : List OEv
  active : Nat
  facts : List (Nat × Int)
deriving Repr

def parseOEv? (s : String) : Option OEv :=
  if s.startsWith "f" then (s.drop 1).toString.toNat?.map .fire
  else if s.startsWith "a" then (s.drop 1).toString.toNat?.map .act
  else none

def parseORes (s : String) : ORes :=
  match s.splitOn "," with
  | ["ok", c, e, f] =>
    match c.toNat?, e.toNat?, f.toNat? with
    | some c, some e, some f => .ok c e f
    | _, _, _ => .other s
  | ["err"] => .err
  | _ => .other s

def parseOpObs? (s : String) : Option OpObs :=
  match s.splitOn "/" with
  | [r, ev, a, f] => do
    let ev ← if ev = "-" then some [] else (ev.splitOn ",").mapM parseOEv?
    let a ← a.toNat?
    let f ← parseFacts? f
    pure { res := parseORes r, events := ev, active := a, facts := factsOf f }
  | _ => none

def parseObs? (s : String) : Option (List OpObs) :=
  if s = "-" then some [] else (s.splitOn ";").mapM parseOpObs?

end C02.Wire
