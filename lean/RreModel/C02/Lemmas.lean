import RreModel.C02.Spec
/-
C02 — helper lemmas: the stable descending sort, composition of passes, preservation facts.
-/
namespace C02

/-! ### stable sort by descending salience -/

/-- descending salience -/
def Desc (l : List Rule) : Prop := l.Pairwise (fun a b => b.salience ≤ a.salience)

theorem mem_insertSal {r x : Rule} {l : List Rule} : x ∈ insertSal r l ↔ x = r ∨ x ∈ l := by
  induction l with
  | nil => simp [insertSal]
  | cons y ys ih =>
    unfold insertSal
    split
    · simp only [List.mem_cons, ih]; grind
    · simp only [List.mem_cons]

theorem foldl_insertSal_mem (l acc : List Rule) (x : Rule) :
    x ∈ l.foldl (fun acc r => insertSal r acc) acc ↔ x ∈ acc ∨ x ∈ l := by
  induction l generalizing acc with
  | nil => simp
  | cons y ys ih => simp only [List.foldl_cons, ih, mem_insertSal, List.mem_cons]; grind

theorem mem_sortSal {x : Rule} {l : List Rule} : x ∈ sortSal l ↔ x ∈ l := by
  simp [sortSal, foldl_insertSal_mem]

theorem insertSal_desc {r : Rule} {l : List Rule} (h : Desc l) : Desc (insertSal r l) := by
  induction l with
  | nil => simp [insertSal, Desc]
  | cons y ys ih =>
    unfold Desc at h ih ⊢
    rw [List.pairwise_cons] at h
    unfold insertSal
    split
    · rename_i hle
      rw [List.pairwise_cons]
      refine ⟨?_, ih h.2⟩
      intro a ha
      rcases mem_insertSal.mp ha with rfl | ha
      · exact hle
      · exact h.1 a ha
    · rename_i hlt
      rw [List.pairwise_cons, List.pairwise_cons]
      refine ⟨?_, h⟩
      intro a ha
      rcases List.mem_cons.mp ha with rfl | ha
      · omega
      · have := h.1 a ha; omega

theorem foldl_insertSal_desc (l acc : List Rule) (h : Desc acc) :
    Desc (l.foldl (fun acc r => insertSal r acc) acc) := by
  induction l generalizing acc with
  | nil => simpa
  | cons y ys ih => exact ih _ (insertSal_desc h)

theorem sortSal_desc (l : List Rule) : Desc (sortSal l) :=
  foldl_insertSal_desc l [] (by simp [Desc])

/-- inserting into a descending list puts the new element after its equals -/
theorem insertSal_filter {r : Rule} {l : List Rule} (h : Desc l) (s : Int) :
    (insertSal r l).filter (fun x => x.salience = s) =
      l.filter (fun x => x.salience = s) ++ [r].filter (fun x => x.salience = s) := by
  induction l with
  | nil => simp [insertSal]
  | cons y ys ih =>
    unfold Desc at h ih
    rw [List.pairwise_cons] at h
    unfold insertSal
    split
    · rw [List.filter_cons, List.filter_cons, ih h.2]
      split <;> simp
    · rename_i hlt
      -- everything in `y :: ys` is strictly below `r`
      have hall : ∀ a ∈ y :: ys, a.salience < r.salience := by
        intro a ha
        rcases List.mem_cons.mp ha with rfl | ha
        · omega
        · have := h.1 a ha; omega
      by_cases hs : r.salience = s
      · have : (y :: ys).filter (fun x => decide (x.salience = s)) = [] := by
          rw [List.filter_eq_nil_iff]
          intro a ha
          have := hall a ha
          simp; omega
        rw [List.filter_cons, this]; simp [hs]
      · rw [List.filter_cons]; simp [hs]

theorem foldl_insertSal_filter (l acc : List Rule) (h : Desc acc) (s : Int) :
    (l.foldl (fun acc r => insertSal r acc) acc).filter (fun x => x.salience = s) =
      acc.filter (fun x => x.salience = s) ++ l.filter (fun x => x.salience = s) := by
  induction l generalizing acc with
  | nil => simp
  | cons y ys ih =>
    rw [List.foldl_cons, ih _ (insertSal_desc h), insertSal_filter h, List.append_assoc]
    congr 1
    rw [List.filter_cons, List.filter_cons]
    split <;> simp

/-- stability: rules of equal salience keep their relative order -/
theorem sortSal_stable (l : List Rule) (s : Int) :
    (sortSal l).filter (fun x => x.salience = s) = l.filter (fun x => x.salience = s) := by
  simp [sortSal, foldl_insertSal_filter l [] (by simp [Desc]) s]

theorem insertSal_of_all_ge {r : Rule} {l : List Rule} (h : ∀ a ∈ l, r.salience ≤ a.salience) :
    insertSal r l = l ++ [r] := by
  induction l with
  | nil => simp [insertSal]
  | cons y ys ih =>
    unfold insertSal
    rw [if_pos (h y (by simp)), ih (fun a ha => h a (by simp [ha]))]; simp

end C02

namespace C02

/-! ### logs -/

theorem firedRules_append (a b : List Ev) : firedRules (a ++ b) = firedRules a ++ firedRules b := by
  induction a with
  | nil => simp [firedRules]
  | cons e es ih => cases e <;> simp [firedRules, ih]

theorem fireCount_append (a b : List Ev) : fireCount (a ++ b) = fireCount a + fireCount b := by
  simp [fireCount]

theorem fireCount_eq_length (l : List Ev) : fireCount l = (firedRules l).length := by
  induction l with
  | nil => simp [fireCount, firedRules]
  | cons e es ih =>
    cases e with
    | fire r f => simp only [fireCount, firedRules, List.length_cons] at ih ⊢; simp [List.filter_cons, Ev.isFire, ih]
    | act g => simp only [fireCount, firedRules] at ih ⊢; simp [Ev.isFire, ih]

theorem mem_firedRules {l : List Ev} {r : Rule} : r ∈ firedRules l ↔ ∃ foc, Ev.fire r foc ∈ l := by
  induction l with
  | nil => simp [firedRules]
  | cons e es ih =>
    cases e with
    | fire r' f =>
      simp only [firedRules, List.mem_cons, ih]
      constructor
      · rintro (rfl | ⟨foc, h⟩)
        · exact ⟨f, Or.inl rfl⟩
        · exact ⟨foc, Or.inr h⟩
      · rintro ⟨foc, h | h⟩
        · injection h with h1 h2; exact Or.inl h1
        · exact Or.inr ⟨foc, h⟩
    | act g => simp [firedRules, ih]

/-! ### actions -/

theorem actEv_noFire (a : Action) : firedRules (actEv a) = [] := by
  cases a <;> simp [actEv, firedRules]

theorem execActions_noFire (st : St) (as : List Action) : firedRules (execActions st as).2.1 = [] := by
  induction as generalizing st with
  | nil => simp [execActions, firedRules]
  | cons a rest ih =>
    unfold execActions
    cases h : execAction st a with
    | none => simp [firedRules]
    | some st' => simp [firedRules_append, actEv_noFire, ih]

/-- what actions never touch -/
theorem execAction_frame {st st' : St} {a : Action} (h : execAction st a = some st') :
    st'.rules = st.rules ∧ st'.firedGlobal = st.firedGlobal ∧ st'.actFired = st.actFired ∧ st'.queue = st.queue := by
  cases a with
  | set f v => simp [execAction] at h; subst h; simp
  | add f k =>
    simp only [execAction] at h
    cases hg : fget st.facts f with
    | none => simp [hg] at h
    | some x => simp [hg] at h; subst h; simp
  | activate g => simp [execAction] at h; subst h; simp

theorem execActions_frame (st : St) (as : List Action) :
    (execActions st as).1.rules = st.rules ∧ (execActions st as).1.firedGlobal = st.firedGlobal ∧
    (execActions st as).1.actFired = st.actFired ∧ (execActions st as).1.queue = st.queue := by
  induction as generalizing st with
  | nil => simp [execActions]
  | cons a rest ih =>
    unfold execActions
    cases h : execAction st a with
    | none => simp
    | some st' =>
      have h1 := execAction_frame h
      have h2 := ih st'
      simp only
      exact ⟨h2.1.trans h1.1, h2.2.1.trans h1.2.1, h2.2.2.1.trans h1.2.2.1, h2.2.2.2.trans h1.2.2.2⟩

/-! ### one rule, one pass -/

theorem ruleStep_cases (t : Nat) (st : St) (r : Rule) :
    ((ruleStep t st r).ok = true ∧ (ruleStep t st r).fired = 1 ∧ (ruleStep t st r).evaluated = 1 ∧
        gate st t r = true ∧ r.cond.holds st.facts = true ∧ (execActions st r.actions).2.2 = true ∧
        (ruleStep t st r).st = markAll (execActions st r.actions).1 r ∧
        (ruleStep t st r).log = (execActions st r.actions).2.1 ++ [Ev.fire r st.agenda.active]) ∨
    ((ruleStep t st r).ok = false ∧ (ruleStep t st r).fired = 0 ∧ (ruleStep t st r).evaluated = 1 ∧
        gate st t r = true ∧ r.cond.holds st.facts = true ∧ (execActions st r.actions).2.2 = false ∧
        (ruleStep t st r).st = (execActions st r.actions).1 ∧
        (ruleStep t st r).log = (execActions st r.actions).2.1) ∨
    ((ruleStep t st r).ok = true ∧ (ruleStep t st r).fired = 0 ∧
        (ruleStep t st r).evaluated = (if gate st t r then 1 else 0) ∧
        (gate st t r && r.cond.holds st.facts) = false ∧
        (ruleStep t st r).st = st ∧ (ruleStep t st r).log = []) := by
  unfold ruleStep
  by_cases hg : gate st t r = true
  · by_cases hc : r.cond.holds st.facts = true
    · by_cases he : (execActions st r.actions).2.2 = true
      · left; simp [hg, hc, he]
      · right; left; simp [hg, hc, he]
    · right; right; simp [hg, hc]
  · right; right; simp [hg]

theorem ruleStep_firedRules (t : Nat) (st : St) (r : Rule) :
    firedRules (ruleStep t st r).log = if (ruleStep t st r).fired = 1 then [r] else [] := by
  rcases ruleStep_cases t st r with h | h | h
  · rw [h.2.2.2.2.2.2.2, firedRules_append, execActions_noFire]; simp [h.2.1, firedRules]
  · rw [h.2.2.2.2.2.2.2, execActions_noFire]; simp [h.2.1]
  · rw [h.2.2.2.2.2]; simp [h.2.1, firedRules]

theorem PassOut.andThen_assoc (a b c : PassOut) : (a.andThen b).andThen c = a.andThen (b.andThen c) := by
  simp [PassOut.andThen, Nat.add_assoc]

/-- a pass over `pre ++ post` is the pass over `pre` followed (unless an action failed) by the pass over
`post` from the state reached -/
theorem passLoop_append (t : Nat) (pre post : List Rule) (st : St) :
    passLoop t (pre ++ post) st =
      if (passLoop t pre st).ok then (passLoop t pre st).andThen (passLoop t post (passLoop t pre st).st)
      else passLoop t pre st := by
  induction pre generalizing st with
  | nil => simp [passLoop, PassOut.andThen]
  | cons r rs ih =>
    simp only [List.cons_append, passLoop]
    by_cases ho : (ruleStep t st r).ok = true
    · simp only [ho, if_true]
      rw [ih]
      by_cases h2 : (passLoop t rs (ruleStep t st r).st).ok = true
      · simp [h2, PassOut.andThen, Nat.add_assoc]
      · simp [h2, PassOut.andThen]
    · simp [ho]

theorem passLoop_rules (t : Nat) (rs : List Rule) (st : St) :
    (passLoop t rs st).st.rules = st.rules ∧ (passLoop t rs st).st.queue = st.queue := by
  induction rs generalizing st with
  | nil => simp [passLoop]
  | cons r rs ih =>
    have hstep : (ruleStep t st r).st.rules = st.rules ∧ (ruleStep t st r).st.queue = st.queue := by
      have hf := execActions_frame st r.actions
      rcases ruleStep_cases t st r with h | h | h
      · rw [h.2.2.2.2.2.2.1]; simp [markAll, hf.1, hf.2.2.2]
      · rw [h.2.2.2.2.2.2.1]; exact ⟨hf.1, hf.2.2.2⟩
      · rw [h.2.2.2.2.1]; simp
    simp only [passLoop]
    split
    · simp only [PassOut.andThen]
      exact ⟨(ih _).1.trans hstep.1, (ih _).2.trans hstep.2⟩
    · exact hstep

end C02

namespace C02

/-! ### the reference scan simulates the engine's bookkeeping -/

theorem scan_append (R : Ref) (a b : List HEv) :
    R.scan (a ++ b) = (match R.scan a with
                       | .ok R' => R'.scan b
                       | .error c => .error c) := by
  induction a generalizing R with
  | nil => simp [Ref.scan]
  | cons e es ih =>
    simp only [List.cons_append, Ref.scan]
    cases R.step e with
    | error c => simp
    | ok R' => simp [ih]

/-- the scan's sets are contained in the engine's sets; nothing queued concerns a tracked group -/
structure Sim (R : Ref) (st : St) : Prop where
  nl : ∀ n ∈ R.nl, n ∈ st.firedGlobal
  lk : ∀ p ∈ R.lk, p ∈ st.agenda.firedPer ∧ p.1 ∈ st.agenda.activated
  q : ∀ g ∈ st.queue, ∀ p ∈ R.lk, p.1 ≠ g

theorem mem_activated_setFocus {a : Agenda} {g x : Nat} (h : x ∈ a.activated) : x ∈ (a.setFocus g).activated := by
  simp only [Agenda.setFocus]; split <;> simp [h]

/-- a `set_focus` that the history does not record (re-application from the queue) -/
theorem agenda_silent {R : Ref} {a : Agenda} {g : Nat}
    (h : ∀ p ∈ R.lk, p ∈ a.firedPer ∧ p.1 ∈ a.activated) (hg : ∀ p ∈ R.lk, p.1 ≠ g) :
    ∀ p ∈ R.lk, p ∈ (a.setFocus g).firedPer ∧ p.1 ∈ (a.setFocus g).activated := by
  intro p hp
  refine ⟨?_, mem_activated_setFocus (h p hp).2⟩
  simp only [Agenda.setFocus, List.mem_filter]
  exact ⟨(h p hp).1, by simpa using hg p hp⟩

theorem agenda_foldl_silent {R : Ref} (q : List Nat) (a : Agenda)
    (h : ∀ p ∈ R.lk, p ∈ a.firedPer ∧ p.1 ∈ a.activated) (hq : ∀ g ∈ q, ∀ p ∈ R.lk, p.1 ≠ g) :
    ∀ p ∈ R.lk, p ∈ (q.foldl Agenda.setFocus a).firedPer ∧ p.1 ∈ (q.foldl Agenda.setFocus a).activated := by
  induction q generalizing a with
  | nil => simpa using h
  | cons g gs ih =>
    simp only [List.foldl_cons]
    exact ih _ (agenda_silent h (hq g (by simp))) (fun g' hg' => hq g' (by simp [hg']))

theorem sim_sync {R : Ref} {st : St} (h : Sim R st) : Sim R (sync st) ∧ (sync st).queue = [] := by
  refine ⟨⟨h.nl, ?_, by simp [sync]⟩, rfl⟩
  exact agenda_foldl_silent st.queue st.agenda h.lk h.q

/-- a recorded activation -/
theorem sim_focus {R : Ref} {st : St} (g : Nat) (h : Sim R st) :
    Sim { R with lk := R.lk.filter (fun p => p.1 ≠ g) } { st with agenda := st.agenda.setFocus g } := by
  refine ⟨h.nl, ?_, ?_⟩
  · intro p hp
    simp only [List.mem_filter] at hp
    refine ⟨?_, mem_activated_setFocus (h.lk p hp.1).2⟩
    simp only [Agenda.setFocus, List.mem_filter]
    exact ⟨(h.lk p hp.1).1, hp.2⟩
  · intro g' hg' p hp
    simp only [List.mem_filter] at hp
    exact h.q g' hg' p hp.1

theorem sim_execActions {R : Ref} (st : St) (as : List Action) (h : Sim R st) :
    ∃ R', R.scan ((execActions st as).2.1.map hevOfEv) = .ok R' ∧ Sim R' (execActions st as).1 ∧
      R'.nl = R.nl ∧ (∀ p ∈ R'.lk, p ∈ R.lk) := by
  induction as generalizing st R with
  | nil => exact ⟨R, by simp [execActions, Ref.scan], h, rfl, fun _ hp => hp⟩
  | cons a rest ih =>
    unfold execActions
    cases hx : execAction st a with
    | none => exact ⟨R, by simp [Ref.scan], h, rfl, fun _ hp => hp⟩
    | some st' =>
      cases a with
      | set f v =>
        simp [execAction] at hx; subst hx
        have h' : Sim R { st with facts := fset st.facts f v } := ⟨h.nl, h.lk, h.q⟩
        obtain ⟨R', h1, h2, h3, h4⟩ := ih _ h'
        exact ⟨R', by simpa [actEv] using h1, h2, h3, h4⟩
      | add f k =>
        simp only [execAction] at hx
        cases hg : fget st.facts f with
        | none => simp [hg] at hx
        | some x =>
          simp [hg] at hx; subst hx
          have h' : Sim R { st with facts := fset st.facts f (x + k) } := ⟨h.nl, h.lk, h.q⟩
          obtain ⟨R', h1, h2, h3, h4⟩ := ih _ h'
          exact ⟨R', by simpa [actEv] using h1, h2, h3, h4⟩
      | activate g =>
        simp [execAction] at hx; subst hx
        obtain ⟨R', h1, h2, h3, h4⟩ := ih _ (sim_focus g h)
        refine ⟨R', ?_, h2, h3, ?_⟩
        · simpa [actEv, hevOfEv, Ref.scan, Ref.step] using h1
        · intro p hp
          have := h4 p hp
          simp only [List.mem_filter] at this
          exact this.1

theorem sim_markAll {R : Ref} {st : St} {r : Rule} (h : Sim R st) (hq0 : st.queue = []) :
    Sim { nl := if r.noLoop then r.name :: R.nl else R.nl, lk := if r.lock then (r.group, r.name) :: R.lk else R.lk }
        (markAll st r) := by
  refine ⟨?_, ?_, ?_⟩
  · intro n hn
    simp only [markAll]
    by_cases hl : r.noLoop = true
    · simp only [hl, if_true, List.mem_cons] at hn ⊢
      rcases hn with rfl | hn
      · split
        · rename_i hc; simpa using hc
        · simp
      · have := h.nl n hn
        split <;> simp [this]
    · simp only [hl] at hn ⊢; exact h.nl n hn
  · intro p hp
    simp only [markAll, Agenda.markFired]
    by_cases hl : r.lock = true
    · simp only [hl, if_true, List.mem_cons] at hp ⊢
      rcases hp with rfl | hp
      · constructor
        · split
          · rename_i hc; simpa using hc
          · simp
        · split
          · rename_i hc; simpa using hc
          · simp
      · have := h.lk p hp
        constructor
        · split <;> simp [this.1]
        · split <;> simp [this.2]
    · simp only [hl] at hp ⊢; exact h.lk p hp
  · intro g hg
    have hq : (markAll st r).queue = st.queue := rfl
    rw [hq, hq0] at hg
    simp at hg

end C02

namespace C02

theorem gate_parts {st : St} {t : Nat} {r : Rule} (h : gate st t r = true) :
    r.enabled = true ∧ st.agenda.shouldEvaluate r = true ∧ r.activeAt t = true ∧ st.agenda.canFire r = true ∧
    actCanFire st.actFired r = true ∧ (r.noLoop = true → r.name ∉ st.firedGlobal) := by
  simp only [gate, Bool.and_eq_true, Bool.not_eq_true', Bool.and_eq_false_iff] at h
  refine ⟨h.1.1.1.1.1, h.1.1.1.1.2, h.1.1.1.2, h.1.1.2, h.1.2, ?_⟩
  intro hn
  rcases h.2 with h2 | h2
  · simp [hn] at h2
  · simpa using h2

theorem canFire_lock {a : Agenda} {r : Rule} (h : a.canFire r = true) (hl : r.lock = true) :
    ¬ ((r.group, r.name) ∈ a.firedPer ∧ r.group ∈ a.activated) := by
  simp only [Agenda.canFire, hl, Bool.not_true] at h
  intro ⟨h1, h2⟩
  simp [h1, h2] at h

theorem sim_ruleStep {R : Ref} (t : Nat) (st : St) (r : Rule) (h : Sim R st) (hq : st.queue = []) :
    ∃ R', R.scan ((ruleStep t st r).log.map hevOfEv) = .ok R' ∧ Sim R' (ruleStep t st r).st := by
  obtain ⟨R1, h1, h2, h3, h4⟩ := sim_execActions st r.actions h
  have hq1 : (execActions st r.actions).1.queue = [] := by rw [(execActions_frame st r.actions).2.2.2, hq]
  rcases ruleStep_cases t st r with c | c | c
  · rw [c.2.2.2.2.2.2.2, c.2.2.2.2.2.2.1, List.map_append, scan_append, h1]
    have hg := gate_parts c.2.2.2.1
    have hnl : ¬ (r.noLoop = true ∧ r.name ∈ R1.nl) := by
      intro ⟨a, b⟩
      rw [h3] at b
      exact hg.2.2.2.2.2 a (h.nl _ b)
    have hlk : ¬ (r.lock = true ∧ (r.group, r.name) ∈ R1.lk) := by
      intro ⟨a, b⟩
      have := h.lk _ (h4 _ b)
      exact canFire_lock hg.2.2.2.1 a this
    refine ⟨_, ?_, sim_markAll h2 hq1⟩
    simp only [List.map_cons, List.map_nil, hevOfEv, Ref.scan, Ref.step]
    simp [hnl, hlk]
  · rw [c.2.2.2.2.2.2.2, c.2.2.2.2.2.2.1]; exact ⟨R1, h1, h2⟩
  · rw [c.2.2.2.2.2, c.2.2.2.2.1]; exact ⟨R, by simp [Ref.scan], h⟩

theorem ruleStep_queue (t : Nat) (st : St) (r : Rule) : (ruleStep t st r).st.queue = st.queue := by
  have := passLoop_rules t [r] st
  simp only [passLoop] at this
  split at this
  · simpa [PassOut.andThen] using this.2
  · exact this.2

theorem sim_passLoop {R : Ref} (t : Nat) (rs : List Rule) (st : St) (h : Sim R st) (hq : st.queue = []) :
    ∃ R', R.scan ((passLoop t rs st).log.map hevOfEv) = .ok R' ∧ Sim R' (passLoop t rs st).st := by
  induction rs generalizing st R with
  | nil => exact ⟨R, by simp [passLoop, Ref.scan], h⟩
  | cons r rs ih =>
    obtain ⟨R1, h1, h2⟩ := sim_ruleStep t st r h hq
    simp only [passLoop]
    split
    · obtain ⟨R2, h3, h4⟩ := ih _ h2 (by rw [ruleStep_queue, hq])
      exact ⟨R2, by simp [PassOut.andThen, scan_append, h1, h3], h4⟩
    · exact ⟨R1, h1, h2⟩

theorem sim_cycles {R : Ref} (t n : Nat) (st : St) (h : Sim R st) (hq : st.queue = []) :
    ∃ R', R.scan ((cycles t n st).passes.flatten.map hevOfEv) = .ok R' ∧ Sim R' (cycles t n st).st ∧
      (cycles t n st).st.queue = [] := by
  induction n generalizing st R with
  | zero => exact ⟨R, by simp [cycles, Ref.scan], h, hq⟩
  | succ n ih =>
    have h0 : Sim R { st with actFired := [] } := ⟨h.nl, h.lk, h.q⟩
    obtain ⟨R1, h1, h2⟩ := sim_passLoop t (sortSal st.rules) { st with actFired := [] } h0 hq
    have hq1 : (passLoop t (sortSal st.rules) { st with actFired := [] }).st.queue = [] := by
      rw [(passLoop_rules _ _ _).2]; exact hq
    simp only [cycles]
    split
    · exact ⟨R1, by simpa using h1, h2, hq1⟩
    · split
      · exact ⟨R1, by simpa using h1, h2, hq1⟩
      · obtain ⟨h3, h4⟩ := sim_sync h2
        obtain ⟨R2, h5, h6, h7⟩ := ih _ h3 h4
        refine ⟨R2, ?_, h6, h7⟩
        rw [List.flatten_cons, List.map_append, scan_append, h1]; exact h5

theorem sim_step {R : Ref} (maxc : Nat) (st : St) (op : Op) (h : Sim R st) :
    ∃ R', R.scan (opTrace op (step maxc st op).2) = .ok R' ∧ Sim R' (step maxc st op).1 := by
  cases op with
  | exec t =>
    obtain ⟨h1, h2⟩ := sim_sync h
    obtain ⟨R', h3, h4, _⟩ := sim_cycles t maxc _ h1 h2
    exact ⟨R', by simpa [step, opTrace, exec] using h3, by simpa [step, exec] using h4⟩
  | focus g => exact ⟨_, by simp [step, opTrace, Ref.scan, Ref.step], sim_focus g h⟩
  | pop =>
    refine ⟨R, by simp [step, opTrace, Ref.scan], h.nl, ?_, h.q⟩
    intro p hp
    simp only [step, Agenda.pop]
    split
    · split <;> exact h.lk p hp
    · exact h.lk p hp
  | clear => exact ⟨R, by simp [step, opTrace, Ref.scan], h.nl, h.lk, h.q⟩
  | resetNoLoop =>
    exact ⟨{ R with nl := [] }, by simp [step, opTrace, Ref.scan, Ref.step], by simp, h.lk, h.q⟩
  | activate g =>
    refine ⟨{ R with lk := R.lk.filter (fun p => p.1 ≠ g) }, by simp [opTrace, Ref.scan, Ref.step], ?_⟩
    have h' := sim_focus g h
    refine ⟨h'.nl, h'.lk, ?_⟩
    intro g' hg' p hp
    simp only [step, List.mem_append, List.mem_singleton] at hg'
    rcases hg' with hg' | rfl
    · exact h'.q g' hg' p hp
    · simp only [List.mem_filter] at hp; simpa using hp.2
  | add r =>
    simp only [step]
    split
    · exact ⟨R, by simp [opTrace, Ref.scan], h⟩
    · exact ⟨R, by simp [opTrace, Ref.scan], h.nl, h.lk, h.q⟩
  | remove n => exact ⟨R, by simp [step, opTrace, Ref.scan], h.nl, h.lk, h.q⟩
  | enable n b => exact ⟨R, by simp [step, opTrace, Ref.scan], h.nl, h.lk, h.q⟩
  | setFact f v => exact ⟨R, by simp [step, opTrace, Ref.scan], h.nl, h.lk, h.q⟩

theorem sim_run {R : Ref} (maxc : Nat) (st : St) (ops : List Op) (h : Sim R st) :
    ∃ R', R.scan (trace maxc st ops) = .ok R' := by
  induction ops generalizing st R with
  | nil => exact ⟨R, by simp [trace, Ref.scan]⟩
  | cons op ops ih =>
    obtain ⟨R1, h1, h2⟩ := sim_step maxc st op h
    obtain ⟨R2, h3⟩ := ih _ h2
    exact ⟨R2, by simp [trace, scan_append, h1, h3]⟩

end C02

namespace C02

/-! ### what an accepted scan means, in counting terms -/

theorem scan_count_noLoop {R R' : Ref} {tr : List HEv} (h : R.scan tr = .ok R') (hr : HEv.reset ∉ tr) (n : Nat) :
    (n ∈ R.nl → (tr.filter (isNoLoopFire n)).length = 0) ∧ (tr.filter (isNoLoopFire n)).length ≤ 1 := by
  induction tr generalizing R with
  | nil => simp
  | cons e es ih =>
    simp only [Ref.scan] at h
    cases hs : R.step e with
    | error c => simp [hs] at h
    | ok R1 =>
      simp only [hs] at h
      have hr' : HEv.reset ∉ es := fun hh => hr (List.mem_cons_of_mem _ hh)
      have ih' := ih h hr'
      cases e with
      | reset => simp at hr
      | focus g =>
        simp only [Ref.step, Except.ok.injEq] at hs
        subst hs
        simpa [List.filter_cons, isNoLoopFire] using ih'
      | fire r =>
        simp only [Ref.step] at hs
        split at hs
        · simp at hs
        · rename_i hnl
          split at hs
          · simp at hs
          · simp only [Except.ok.injEq] at hs
            subst hs
            by_cases hf : isNoLoopFire n (.fire r) = true
            · simp only [isNoLoopFire, Bool.and_eq_true, beq_iff_eq] at hf
              obtain ⟨hf1, hf2⟩ := hf
              subst hf2
              have hnot : r.name ∉ R.nl := by
                intro hm; simp [hf1, hm] at hnl
              have h0 := ih'.1 (by simp [hf1])
              refine ⟨fun hm => absurd hm hnot, ?_⟩
              simp [List.filter_cons, isNoLoopFire, hf1] at h0 ⊢
              omega
            · have hf' : isNoLoopFire n (.fire r) = false := by simpa using hf
              simp only [List.filter_cons, hf']
              refine ⟨fun hm => ih'.1 ?_, ih'.2⟩
              simp only
              split
              · exact List.mem_cons_of_mem _ hm
              · exact hm

theorem scan_count_lock {R R' : Ref} {tr : List HEv} (g : Nat) (h : R.scan tr = .ok R') (hr : HEv.focus g ∉ tr)
    (n : Nat) :
    ((g, n) ∈ R.lk → (tr.filter (isLockFire g n)).length = 0) ∧ (tr.filter (isLockFire g n)).length ≤ 1 := by
  induction tr generalizing R with
  | nil => simp
  | cons e es ih =>
    simp only [Ref.scan] at h
    cases hs : R.step e with
    | error c => simp [hs] at h
    | ok R1 =>
      simp only [hs] at h
      have hr' : HEv.focus g ∉ es := fun hh => hr (List.mem_cons_of_mem _ hh)
      have ih' := ih h hr'
      cases e with
      | reset =>
        simp only [Ref.step, Except.ok.injEq] at hs
        subst hs
        simpa [List.filter_cons, isLockFire] using ih'
      | focus g' =>
        simp only [Ref.step, Except.ok.injEq] at hs
        subst hs
        have hne : g ≠ g' := by
          intro he; subst he; simp at hr
        simp only [List.filter_cons, isLockFire]
        refine ⟨fun hm => ih'.1 ?_, ih'.2⟩
        simp only [List.mem_filter]
        exact ⟨hm, by simpa using hne⟩
      | fire r =>
        simp only [Ref.step] at hs
        split at hs
        · simp at hs
        · split at hs
          · simp at hs
          · rename_i hlk
            simp only [Except.ok.injEq] at hs
            subst hs
            by_cases hf : isLockFire g n (.fire r) = true
            · simp only [isLockFire, Bool.and_eq_true, beq_iff_eq] at hf
              obtain ⟨⟨hf1, hf2⟩, hf3⟩ := hf
              subst hf2 hf3
              have hnot : (r.group, r.name) ∉ R.lk := by
                intro hm; simp [hf1, hm] at hlk
              have h0 := ih'.1 (by simp [hf1])
              refine ⟨fun hm => absurd hm hnot, ?_⟩
              simp [List.filter_cons, isLockFire, hf1] at h0 ⊢
              omega
            · have hf' : isLockFire g n (.fire r) = false := by simpa using hf
              simp only [List.filter_cons, hf']
              refine ⟨fun hm => ih'.1 ?_, ih'.2⟩
              simp only
              split
              · exact List.mem_cons_of_mem _ hm
              · exact hm

/-- an accepted history is accepted on every segment, from the bookkeeping reached there -/
theorem scan_segment {R R' : Ref} {pre mid post : List HEv} (h : R.scan (pre ++ mid ++ post) = .ok R') :
    ∃ R1 R2 : Ref, Ref.scan R1 mid = Except.ok R2 := by
  rw [scan_append, scan_append] at h
  cases h1 : R.scan pre with
  | error c => simp [h1] at h
  | ok R1 =>
    simp only [h1] at h
    cases h2 : R1.scan mid with
    | error c => simp [h2] at h
    | ok R2 => exact ⟨R1, R2, h2⟩

end C02

namespace C02

/-! ### activation groups within a pass -/

def isActFire (a : Nat) : Ev → Bool
  | .fire r _ => r.actGroup == some a
  | .act _ => false

theorem execActions_noActFire (a : Nat) (st : St) (as : List Action) :
    (execActions st as).2.1.filter (isActFire a) = [] := by
  induction as generalizing st with
  | nil => simp [execActions]
  | cons x rest ih =>
    unfold execActions
    cases h : execAction st x with
    | none => simp
    | some st' => cases x <;> simp [actEv, isActFire, ih]

theorem fire_not_mem_execActions (st : St) (as : List Action) (r : Rule) (foc : Nat) :
    Ev.fire r foc ∉ (execActions st as).2.1 := by
  intro h
  have : r ∈ firedRules (execActions st as).2.1 := mem_firedRules.mpr ⟨foc, h⟩
  rw [execActions_noFire] at this
  simp at this

theorem mem_actFired_markAll {st : St} {r : Rule} {a : Nat} (h : a ∈ st.actFired) : a ∈ (markAll st r).actFired := by
  simp only [markAll]
  split
  · split <;> simp [h]
  · exact h

theorem actGroup_mem_markAll {st : St} {r : Rule} {a : Nat} (h : r.actGroup = some a) : a ∈ (markAll st r).actFired := by
  simp only [markAll, h]
  split
  · rename_i hc; simpa using hc
  · simp

theorem ruleStep_actFired_mono (t : Nat) (st : St) (r : Rule) {a : Nat} (h : a ∈ st.actFired) :
    a ∈ (ruleStep t st r).st.actFired := by
  have hf := (execActions_frame st r.actions).2.2.1
  rcases ruleStep_cases t st r with c | c | c
  · rw [c.2.2.2.2.2.2.1]; exact mem_actFired_markAll (by rw [hf]; exact h)
  · rw [c.2.2.2.2.2.2.1, hf]; exact h
  · rw [c.2.2.2.2.1]; exact h

theorem passLoop_actFired_mono (t : Nat) (rs : List Rule) (st : St) {a : Nat} (h : a ∈ st.actFired) :
    a ∈ (passLoop t rs st).st.actFired := by
  induction rs generalizing st with
  | nil => simpa [passLoop]
  | cons r rs ih =>
    simp only [passLoop]
    split
    · simp only [PassOut.andThen]; exact ih _ (ruleStep_actFired_mono t st r h)
    · exact ruleStep_actFired_mono t st r h

theorem gate_blocked {st : St} {t : Nat} {r : Rule} {a : Nat} (h : a ∈ st.actFired) (hr : r.actGroup = some a) :
    gate st t r = false := by
  simp [gate, actCanFire, hr, h]

theorem ruleStep_actCount (t : Nat) (st : St) (r : Rule) (a : Nat) :
    ((ruleStep t st r).log.filter (isActFire a)).length ≤ 1 ∧
    (a ∈ st.actFired → ((ruleStep t st r).log.filter (isActFire a)).length = 0) ∧
    (((ruleStep t st r).log.filter (isActFire a)).length = 1 → a ∈ (ruleStep t st r).st.actFired) := by
  rcases ruleStep_cases t st r with c | c | c
  · rw [c.2.2.2.2.2.2.2, c.2.2.2.2.2.2.1, List.filter_append, execActions_noActFire]
    by_cases hr : r.actGroup = some a
    · refine ⟨by simp [List.filter_cons, isActFire, hr], ?_, fun _ => actGroup_mem_markAll hr⟩
      intro hm
      have := gate_blocked (t := t) hm hr
      rw [c.2.2.2.1] at this; simp at this
    · simp [List.filter_cons, isActFire, hr]
  · rw [c.2.2.2.2.2.2.2, execActions_noActFire]; simp
  · rw [c.2.2.2.2.2]; simp

theorem passLoop_actCount (t : Nat) (rs : List Rule) (st : St) (a : Nat) :
    ((passLoop t rs st).log.filter (isActFire a)).length ≤ 1 ∧
    (a ∈ st.actFired → ((passLoop t rs st).log.filter (isActFire a)).length = 0) := by
  induction rs generalizing st with
  | nil => simp [passLoop]
  | cons r rs ih =>
    have hs := ruleStep_actCount t st r a
    simp only [passLoop]
    split
    · simp only [PassOut.andThen, List.filter_append, List.length_append]
      have ih' := ih (ruleStep t st r).st
      constructor
      · by_cases h1 : ((ruleStep t st r).log.filter (isActFire a)).length = 1
        · have := ih'.2 (hs.2.2 h1); omega
        · have := hs.1; have := ih'.1; omega
      · intro hm
        have := hs.2.1 hm
        have := ih'.2 (ruleStep_actFired_mono t st r hm)
        omega
    · exact ⟨hs.1, hs.2.1⟩

/-! ### the state at a rule's turn -/

/-- a firing in the log of a pass happened at some position of the rule vector, from the state reached
by the pass over the rules before it -/
theorem fired_decompose {t : Nat} {rs : List Rule} {st : St} {r : Rule} {foc : Nat}
    (h : Ev.fire r foc ∈ (passLoop t rs st).log) :
    ∃ pre post, rs = pre ++ r :: post ∧ (passLoop t pre st).ok = true ∧
      gate (passLoop t pre st).st t r = true ∧ r.cond.holds (passLoop t pre st).st.facts = true ∧
      foc = (passLoop t pre st).st.agenda.active := by
  induction rs generalizing st with
  | nil => simp [passLoop] at h
  | cons r0 rs ih =>
    simp only [passLoop] at h
    have hhead : Ev.fire r foc ∈ (ruleStep t st r0).log →
        r = r0 ∧ foc = st.agenda.active ∧ gate st t r0 = true ∧ r0.cond.holds st.facts = true := by
      intro hm
      rcases ruleStep_cases t st r0 with c | c | c
      · rw [c.2.2.2.2.2.2.2, List.mem_append] at hm
        rcases hm with hm | hm
        · exact absurd hm (fire_not_mem_execActions _ _ _ _)
        · simp only [List.mem_singleton] at hm
          injection hm with e1 e2
          exact ⟨e1, e2, c.2.2.2.1, c.2.2.2.2.1⟩
      · rw [c.2.2.2.2.2.2.2] at hm; exact absurd hm (fire_not_mem_execActions _ _ _ _)
      · rw [c.2.2.2.2.2] at hm; simp at hm
    by_cases ho : (ruleStep t st r0).ok = true
    · simp only [ho, if_true, PassOut.andThen, List.mem_append] at h
      rcases h with h | h
      · obtain ⟨e1, e2, e3, e4⟩ := hhead h
        subst e1
        exact ⟨[], rs, rfl, by simp [passLoop], by simpa [passLoop] using e3, by simpa [passLoop] using e4,
          by simpa [passLoop] using e2⟩
      · obtain ⟨pre, post, h1, h2, h3, h4, h5⟩ := ih h
        refine ⟨r0 :: pre, post, by rw [h1]; rfl, ?_, ?_, ?_, ?_⟩ <;>
          simp only [passLoop, ho, if_true, PassOut.andThen] <;> assumption
    · simp only [ho] at h
      obtain ⟨e1, e2, e3, e4⟩ := hhead h
      subst e1
      exact ⟨[], rs, rfl, by simp [passLoop], by simpa [passLoop] using e3, by simpa [passLoop] using e4,
        by simpa [passLoop] using e2⟩

/-- every pass of an execution is a pass over the salience-sorted rule vector from a state with the
activation groups reset -/
theorem cycles_passes {t n : Nat} {st : St} {p : List Ev} (h : p ∈ (cycles t n st).passes) :
    ∃ s : St, s.rules = st.rules ∧ s.actFired = [] ∧ p = (passLoop t (sortSal st.rules) s).log := by
  induction n generalizing st with
  | zero => simp [cycles] at h
  | succ n ih =>
    have hself : ∃ s : St, s.rules = st.rules ∧ s.actFired = [] ∧
        (passLoop t (sortSal st.rules) { st with actFired := [] }).log = (passLoop t (sortSal st.rules) s).log :=
      ⟨{ st with actFired := [] }, rfl, rfl, rfl⟩
    simp only [cycles] at h
    split at h
    · simp only [List.mem_singleton] at h; subst h; obtain ⟨s, a, b, c⟩ := hself; exact ⟨s, a, b, c⟩
    · split at h
      · simp only [List.mem_singleton] at h; subst h; obtain ⟨s, a, b, c⟩ := hself; exact ⟨s, a, b, c⟩
      · simp only [List.mem_cons] at h
        rcases h with h | h
        · subst h; obtain ⟨s, a, b, c⟩ := hself; exact ⟨s, a, b, c⟩
        · obtain ⟨s, a, b, c⟩ := ih h
          have hr : (sync (passLoop t (sortSal st.rules) { st with actFired := [] }).st).rules = st.rules := by
            simp only [sync]; exact (passLoop_rules _ _ _).1
          rw [hr] at a c
          exact ⟨s, a, b, c⟩

end C02
