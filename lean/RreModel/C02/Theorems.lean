import RreModel.C02.Lemmas
import RreModel.C02.ApiLemmas
/-
C02 — property theorems (only). "Firing order and rule attributes are honoured on every run."
All statements quantify over every rule set, every engine state / every history of API calls from the
initial engine, every evaluation timestamp and every `max_cycles`.
-/
namespace C02

/-! ## order within a pass -/

/-- **pass_log_sublist.** The rules fired by one pass, in firing order, form a sublist of the rule
vector the pass iterates over. -/
theorem pass_log_sublist (t : Nat) (rs : List Rule) (st : St) :
    (firedRules (passLoop t rs st).log).Sublist rs := by
  induction rs generalizing st with
  | nil => simp [passLoop, firedRules]
  | cons r rs ih =>
    simp only [passLoop]
    have hs := ruleStep_firedRules t st r
    split
    · simp only [PassOut.andThen, firedRules_append, hs]
      split
      · exact List.Sublist.cons_cons r (ih _)
      · exact List.Sublist.cons r (by simpa using ih _)
    · rw [hs]
      split
      · exact List.Sublist.cons_cons r (List.nil_sublist _)
      · exact List.nil_sublist _

/-- …hence, for every pass of every `execute`: the firing order follows the salience-sorted vector
(`get_rules_by_salience`), salience never increases along the log, and rules of equal salience fire in
the order in which they stand in the knowledge base's rule vector (stability of the sort). -/
theorem exec_pass_order (maxc t : Nat) (st : St) (p : List Ev) (hp : p ∈ (exec maxc t st).passes) :
    (firedRules p).Sublist (sortSal st.rules) ∧
    (firedRules p).Pairwise (fun a b => b.salience ≤ a.salience) ∧
    ∀ s : Int, ((firedRules p).filter (fun r => r.salience = s)).Sublist (st.rules.filter (fun r => r.salience = s)) := by
  obtain ⟨s0, h1, _, h3⟩ := cycles_passes hp
  have hr : (sync st).rules = st.rules := rfl
  rw [hr] at h3
  have hsub : (firedRules p).Sublist (sortSal st.rules) := by rw [h3]; exact pass_log_sublist _ _ _
  refine ⟨hsub, List.Pairwise.sublist hsub (sortSal_desc st.rules), fun s => ?_⟩
  have := List.Sublist.filter (fun r : Rule => decide (r.salience = s)) hsub
  rwa [sortSal_stable] at this

/-- the sort is a stable descending sort of the rule vector (so "vector order" above means: descending
salience, ties in the order of the vector) -/
theorem sortSal_spec (l : List Rule) :
    (sortSal l).Pairwise (fun a b => b.salience ≤ a.salience) ∧ (∀ r, r ∈ sortSal l ↔ r ∈ l) ∧
    ∀ s : Int, (sortSal l).filter (fun r => r.salience = s) = l.filter (fun r => r.salience = s) :=
  ⟨sortSal_desc l, fun _ => mem_sortSal, sortSal_stable l⟩

/-- **Insertion order among equals.** `add_rule` leaves the vector in descending salience and puts the
new rule after every rule of the same salience already there; `remove_rule` and `set_rule_enabled` keep
the relative order. Together with `exec_pass_order`: rules of equal salience fire in the order they
were added. -/
theorem kb_add_after_equals (maxc : Nat) (st : St) (r : Rule) (h : hasName st.rules r.name = false) (s : Int) :
    ((step maxc st (.add r)).1.rules).Pairwise (fun a b => b.salience ≤ a.salience) ∧
    ((step maxc st (.add r)).1.rules).filter (fun x => x.salience = s) =
      st.rules.filter (fun x => x.salience = s) ++ [r].filter (fun x => x.salience = s) := by
  simp only [step, h, Bool.false_eq_true, if_false]
  exact ⟨sortSal_desc _, by rw [sortSal_stable, List.filter_append]⟩

theorem kb_remove_enable_keep_order (maxc : Nat) (st : St) (n : Nat) (b : Bool) :
    ((step maxc st (.remove n)).1.rules).Sublist st.rules ∧
    ((step maxc st (.enable n b)).1.rules).map (·.salience) = st.rules.map (·.salience) ∧
    ((step maxc st (.enable n b)).1.rules).map (·.name) = st.rules.map (·.name) := by
  refine ⟨List.filter_sublist, ?_, ?_⟩
  · simp only [step, List.map_map]
    apply List.map_congr_left
    intro r _
    simp only [Function.comp]
    split <;> rfl
  · simp only [step, List.map_map]
    apply List.map_congr_left
    intro r _
    simp only [Function.comp]
    split <;> rfl

/-! ## eligibility of what fires -/

/-- `Rule::is_active_at` is the window `effective ≤ t < expires` -/
theorem activeAt_iff (r : Rule) (t : Nat) :
    r.activeAt t = true ↔ (∀ e, r.effective = some e → e ≤ t) ∧ (∀ x, r.expires = some x → t < x) := by
  unfold Rule.activeAt
  cases r.effective <;> cases r.expires <;> simp <;> omega

/-- **fired_was_eligible.** A rule that fires in a pass stands at some position of the rule vector,
and in the state reached at its turn (the pass over the rules before it) it is enabled, inside its date
window at the evaluation timestamp, its agenda group (MAIN when it has none) is the focused group at
that moment, it is not blocked by lock-on-active, activation group or no-loop, and its condition holds
on the facts of that moment. -/
theorem fired_was_eligible {t : Nat} {rs : List Rule} {st : St} {r : Rule} {foc : Nat}
    (h : Ev.fire r foc ∈ (passLoop t rs st).log) :
    ∃ pre post, rs = pre ++ r :: post ∧ (passLoop t pre st).ok = true ∧
      let s := (passLoop t pre st).st
      r.enabled = true ∧
      ((∀ e, r.effective = some e → e ≤ t) ∧ (∀ x, r.expires = some x → t < x)) ∧
      r.group = s.agenda.active ∧ foc = s.agenda.active ∧
      s.agenda.canFire r = true ∧ actCanFire s.actFired r = true ∧
      (r.noLoop = true → r.name ∉ s.firedGlobal) ∧
      r.cond.holds s.facts = true := by
  obtain ⟨pre, post, h1, h2, h3, h4, h5⟩ := fired_decompose h
  have g := gate_parts h3
  refine ⟨pre, post, h1, h2, g.1, (activeAt_iff r t).mp g.2.2.1, ?_, h5, g.2.2.2.1, g.2.2.2.2.1, g.2.2.2.2.2, h4⟩
  have := g.2.1
  simp only [Agenda.shouldEvaluate] at this
  unfold Rule.group
  cases ha : r.agenda with
  | none => simp [ha] at this; exact this.symm
  | some g' => simp [ha] at this; exact this

/-- the same for every pass of every `execute` (each pass runs over the sorted vector of the engine's
rules) -/
theorem exec_fired_was_eligible {maxc t : Nat} {st : St} {p : List Ev} (hp : p ∈ (exec maxc t st).passes)
    {r : Rule} {foc : Nat} (h : Ev.fire r foc ∈ p) :
    r ∈ st.rules ∧ r.enabled = true ∧ (∀ e, r.effective = some e → e ≤ t) ∧ (∀ x, r.expires = some x → t < x) ∧
    r.group = foc := by
  obtain ⟨s0, _, _, h3⟩ := cycles_passes hp
  have hr : (sync st).rules = st.rules := rfl
  rw [hr] at h3
  rw [h3] at h
  obtain ⟨pre, post, h1, _, h5, h6, h7, h8, _⟩ := fired_was_eligible h
  refine ⟨?_, h5, h6.1, h6.2, by rw [h7, h8]⟩
  have : r ∈ sortSal st.rules := by rw [h1]; simp
  exact mem_sortSal.mp this

/-! ## no-loop and lock-on-active over histories -/

/-- **Main history theorem.** The event history of every sequence of API calls on a fresh engine is
accepted by the reference scan: no no-loop rule fires twice without a reset in between and no
lock-on-active rule fires twice without an activation of its group in between. -/
theorem history_accepted (maxc : Nat) (ops : List Op) : Ref.accepts {} (trace maxc init ops) = true := by
  obtain ⟨R', h⟩ := sim_run (R := {}) maxc init ops ⟨by simp, by simp, by simp⟩
  simp [Ref.accepts, h]

/-- **no_loop_once.** In any stretch of any history that contains no `reset_no_loop_tracking`, a
no-loop rule name fires at most once (across passes, `execute` calls, knowledge-base edits and focus
changes). -/
theorem no_loop_once (maxc : Nat) (ops : List Op) (pre mid post : List HEv)
    (h : trace maxc init ops = pre ++ mid ++ post) (hr : HEv.reset ∉ mid) (n : Nat) :
    (mid.filter (isNoLoopFire n)).length ≤ 1 := by
  obtain ⟨R', hs⟩ := sim_run (R := {}) maxc init ops ⟨by simp, by simp, by simp⟩
  rw [h] at hs
  obtain ⟨R1, R2, h2⟩ := scan_segment hs
  exact (scan_count_noLoop h2 hr n).2

/-- **lock_on_active_once.** Between two user-level activations of agenda group `g` (calls of
`set_agenda_focus(g)` / `activate_agenda_group(g)` or executed `ActivateAgendaGroup(g)` actions) — and
before the first, and after the last — a lock-on-active rule of group `g` fires at most once. -/
theorem lock_on_active_once (maxc : Nat) (ops : List Op) (pre mid post : List HEv)
    (h : trace maxc init ops = pre ++ mid ++ post) (g : Nat) (hr : HEv.focus g ∉ mid) (n : Nat) :
    (mid.filter (isLockFire g n)).length ≤ 1 := by
  obtain ⟨R', hs⟩ := sim_run (R := {}) maxc init ops ⟨by simp, by simp, by simp⟩
  rw [h] at hs
  obtain ⟨R1, R2, h2⟩ := scan_segment hs
  exact (scan_count_lock g h2 hr n).2

/-! ## the wrapper calls of `RustRuleEngine` (RreModel/C02/Api.lean) -/

/-- **set_debug_transparent.** `set_debug_mode` (and enabling / disabling analytics) changes nothing the engine's control reads (in particular not the bound
`max_cycles` the later `execute` calls run with: `maxc` is the same parameter before and after), and the plain `execute` and
the `knowledge_base_mut()` path are their twins by definition. -/
theorem set_debug_transparent (maxc now : Nat) (st : St) (b : Bool) (cs : List Call) :
    callStep maxc now st (.setDebug b) = (st, .res .unit) ∧
    callStep maxc now st (.setAnalytics b) = (st, .res .unit) ∧
    (callsRun maxc now st (.setDebug b :: cs)).1 = (callsRun maxc now st cs).1 ∧
    (callsRun maxc now st (.setDebug b :: cs)).2 = .res .unit :: (callsRun maxc now st cs).2 ∧
    callStep maxc now st .execNow = callStep maxc now st (.op (.exec now)) ∧
    (∀ o, callStep maxc now st (.viaMut o) = callStep maxc now st (.op o)) :=
  ⟨rfl, rfl, rfl, rfl, rfl, fun _ => rfl⟩

/-- **workflow_step_is_focus_then_execute.** `execute_workflow_step(g)` is the two-call history `set_agenda_focus(g)`,
`execute`: same final state, and its result is that `execute`'s result (the queue drain of `process_workflow_actions`
finds the queue empty). -/
theorem workflow_step_is_focus_then_execute (maxc now : Nat) (st : St) (g : Nat) :
    run maxc st [.focus g, .exec now] = ((wfStep maxc now st g).1, [.unit, .exec (wfStep maxc now st g).2]) :=
  run_stepOps maxc now st g

/-- **calls_are_history.** Every history of public calls (primitive operations, `execute`, `set_debug_mode`,
`knowledge_base_mut()` edits, `knowledge_base().clear()`, `execute_workflow_step`, `execute_workflow`) drives the engine
through exactly the states of a history of primitive operations (`callsOps`), so every statement about all histories of
primitive operations holds for it — in particular the reference scan accepts its event history: no no-loop rule fires
twice without a reset, no lock-on-active rule twice without an activation of its group. -/
theorem calls_are_history (maxc now : Nat) (cs : List Call) :
    (callsRun maxc now init cs).1 = (run maxc init (callsOps maxc now init cs)).1 ∧
    Ref.accepts {} (trace maxc init (callsOps maxc now init cs)) = true :=
  ⟨callsRun_state maxc now init cs, history_accepted maxc _⟩

/-! ## activation groups -/

/-- **activation_group_one_per_pass.** In every pass of every `execute`, at most one rule of each
activation group fires. -/
theorem activation_group_one_per_pass {maxc t : Nat} {st : St} {p : List Ev} (hp : p ∈ (exec maxc t st).passes)
    (a : Nat) : (p.filter (isActFire a)).length ≤ 1 := by
  obtain ⟨s0, _, _, h3⟩ := cycles_passes hp
  rw [h3]
  exact (passLoop_actCount _ _ _ a).1

/-- **activation_group_fires_first_true.** If a rule `r` of activation group `a` fires in a pass, then
every rule `r'` of the same group standing before it in the vector had, at its own turn, the group
still free and nevertheless did not qualify: its gate (enabled, focused group, date window,
lock-on-active, no-loop) or its condition was false on the state and facts of that moment. So the rule
that fires is the first one of its group, in vector order, that is eligible with a true condition. -/
theorem activation_group_fires_first_true {t : Nat} {rs : List Rule} {st : St} {r : Rule} {foc a : Nat}
    (h : Ev.fire r foc ∈ (passLoop t rs st).log) (ha : r.actGroup = some a) :
    ∃ pre post, rs = pre ++ r :: post ∧ (passLoop t pre st).ok = true ∧
      gate (passLoop t pre st).st t r = true ∧
      ∀ p1 r' p2, pre = p1 ++ r' :: p2 → r'.actGroup = some a →
        a ∉ (passLoop t p1 st).st.actFired ∧
        (gate (passLoop t p1 st).st t r' && r'.cond.holds (passLoop t p1 st).st.facts) = false := by
  obtain ⟨pre, post, h1, h2, h3, _, _⟩ := fired_decompose h
  refine ⟨pre, post, h1, h2, h3, ?_⟩
  intro p1 r' p2 hpre ha'
  -- at `r`'s turn the group is still free
  have hfree : a ∉ (passLoop t pre st).st.actFired := by
    have := (gate_parts h3).2.2.2.2.1
    simpa [actCanFire, ha] using this
  -- split the pass over `pre` at `r'`
  have happ := passLoop_append t p1 (r' :: p2) st
  rw [← hpre] at happ
  by_cases hok1 : (passLoop t p1 st).ok = true
  · simp only [hok1, if_true] at happ
    have hst : (passLoop t pre st).st = (passLoop t (r' :: p2) (passLoop t p1 st).st).st := by
      rw [happ]; rfl
    have hok : (passLoop t (r' :: p2) (passLoop t p1 st).st).ok = true := by
      rw [happ] at h2; exact h2
    constructor
    · intro hm
      exact hfree (by rw [hst]; exact passLoop_actFired_mono _ _ _ hm)
    · rcases ruleStep_cases t (passLoop t p1 st).st r' with c | c | c
      · -- `r'` fired: then the group is taken for the rest of the pass
        exfalso
        apply hfree
        rw [hst]
        simp only [passLoop, c.1, if_true, PassOut.andThen]
        apply passLoop_actFired_mono
        rw [c.2.2.2.2.2.2.1]
        exact actGroup_mem_markAll ha'
      · -- an action of `r'` failed: the pass over `pre` would not be ok
        exfalso
        simp only [passLoop, c.1] at hok
        simp [c.1] at hok
      · exact c.2.2.2.1
  · simp only [hok1] at happ
    rw [happ] at h2
    exact absurd h2 hok1

/-! ## non-vacuity -/

def rGo : Rule :=
  { name := 0, salience := 7, enabled := true, noLoop := true, lock := false, agenda := none, actGroup := none,
    effective := none, expires := none, cond := .eq 0 0, actions := [.activate 1] }
def rL : Rule :=
  { name := 1, salience := 0, enabled := true, noLoop := false, lock := true, agenda := some 1, actGroup := none,
    effective := none, expires := none, cond := .eq 0 0, actions := [] }
def exOps : List Op := [.setFact 0 0, .add rL, .add rGo, .exec 10, .exec 10, .focus 1, .exec 10]

/-- the witness of F-C02 on the fixed code: `Go` activates G, the lock-on-active rule `L` of G fires
once (the unfixed code fired it twice), a second `execute` does not fire it again, a new activation
of G lets it fire once more -/
example : trace 3 init exOps = [.focus 1, .fire rGo, .fire rL, .focus 1, .fire rL] := by decide +kernel
example : ((run 3 init exOps).2.map fun | .exec o => (o.cycles, o.evaluated, o.fired) | _ => (0, 0, 0)) =
    [(0,0,0), (0,0,0), (0,0,0), (2,2,2), (1,0,0), (0,0,0), (2,1,1)] := by decide +kernel

/-- re-focusing the group that already has the focus is a new activation: `L` fires again; `set_debug_mode` in between is
not one; a workflow over `[1, 1]` makes two steps (the second fires `L` again) -/
example : ((callsRun 3 50 init [.op (.setFact 0 0), .op (.add rL), .op (.focus 1), .execNow, .setDebug true, .execNow,
      .op (.focus 1), .execNow, .wfStep 1, .workflow [1, 1, 1]]).2.map fun
        | .res (.exec o) => [o.fired] | .workflow outs _ => outs.map (·.fired) | _ => []) =
    [[], [], [], [1], [], [0], [], [1], [1], [1, 1, 1]] := by decide +kernel

/-- activation group 0: `a1` stands first but its condition is false, `a2` fires, `a3` (true condition)
is then blocked; all three have salience 7 and fire in insertion order after the `i32::MAX` rule -/
def mkA (n : Nat) (sal : Int) (c : Cond) (g : Option Nat) : Rule :=
  { name := n, salience := sal, enabled := true, noLoop := false, lock := false, agenda := none, actGroup := g,
    effective := some 10, expires := some 20, cond := c, actions := [] }
def exKb : List Op :=
  [.setFact 0 0, .add (mkA 1 7 (.eq 0 5) (some 0)), .add (mkA 2 7 (.eq 0 0) (some 0)), .add (mkA 3 7 (.eq 0 0) (some 0)),
   .add (mkA 4 2147483647 (.eq 0 0) none), .add (mkA 5 (-2147483648) (.eq 0 0) none), .exec 10, .exec 19, .exec 20]
example : ((run 1 init exKb).2.filterMap fun | .exec o => some ((firedRules o.passes.flatten).map (·.name)) | _ => none) =
    [[4, 2, 5], [4, 2, 5], []] := by decide +kernel

end C02
