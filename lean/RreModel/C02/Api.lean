import RreModel.C02.Model
/-
C02 / C03 — the remaining public calls of `RustRuleEngine` (src/engine/engine.rs) that touch what the two properties
talk about (max_cycles, the focus stack, the lock-on-active / no-loop / activation-group bookkeeping, the rule list).
Each of them is a wrapper around the primitive operations of `C02.Op` (Model.lean):
  `execute(facts)`                      = `execute_at_time(facts, Utc::now())`
  `set_debug_mode(b)`                   writes `config.debug_mode` only (`max_cycles`, `timeout` are not touched)
  `enable_analytics(a)` / `disable_analytics()`  set the `analytics` slot; `execute_at_time` records into it after each evaluation
                                        (`execute_with_callback` does not), the loop control never reads it
  `knowledge_base_mut().f(..)`          the same `KnowledgeBase` method as through `knowledge_base()` (they take `&self`)
  `knowledge_base().clear()`            empties the rule vector (the engine's own bookkeeping is not touched)
  `*knowledge_base_mut() = new_kb`      replaces the WHOLE knowledge base by a freshly built one (`knowledge_base_mut()` hands out
                                        `&mut KnowledgeBase`, so the assignment is plain public API): the rule vector becomes the new
                                        one's (its rules added in order to an empty base); the engine's own bookkeeping (no-loop set,
                                        agenda manager, activation queue) is not touched. The new base's `version()` counter — equal
                                        to, smaller or larger than the old one's — is nothing `execute` may depend on: the model has none.
  `execute_workflow_step(g, facts)`     `set_agenda_focus(g)`; `execute(facts)?`; `process_workflow_actions(facts)?`
  `execute_workflow(groups, facts)`     `execute_workflow_step` per group, stops after a step that fired nothing; `?` on `Err`
  `RustRuleEngine::new(kb)`             `with_config(kb, EngineConfig::default())`: `max_cycles = 100` (`defaultMaxCycles`)
`process_workflow_actions` drains the workflow engine's activation queue through `set_agenda_focus` (= `sync`) and then runs the
scheduled tasks that are ready; scheduled tasks are outside C02/C03 (the cases never have a ready task when it runs).
`now` is the abstract instant of `Utc::now()`.
-/
namespace C02

/-- `EngineConfig::default().max_cycles` (what `RustRuleEngine::new` uses) -/
def defaultMaxCycles : Nat := 100

inductive Call where
  | op (o : Op)                     -- a primitive operation
  | execNow                         -- `execute`
  | setDebug (b : Bool)             -- `set_debug_mode`
  | setAnalytics (b : Bool)         -- `enable_analytics(RuleAnalytics::new(default))` / `disable_analytics()`
  | viaMut (o : Op)                 -- a knowledge-base operation through `knowledge_base_mut()`
  | kbClear                         -- `knowledge_base().clear()`
  | kbReplace (rs : List Rule)      -- `*knowledge_base_mut() = <a new KnowledgeBase with the rules rs added in order>`
  | wfStep (g : Nat)                -- `execute_workflow_step`
  | workflow (gs : List Nat)        -- `execute_workflow`
deriving Repr, DecidableEq

inductive CRes where
  | res (r : Res)
  /-- `execute_workflow`: the results of the `execute` calls made; `ok = false`: the last one returned `Err` (propagated);
  otherwise `WorkflowResult.steps_executed = outs.length` -/
  | workflow (outs : List ExecOut) (ok : Bool)
deriving Repr, DecidableEq

/-- `process_workflow_actions`: `while let Some(group) = get_next_agenda_group() { set_agenda_focus(&group) }` -/
def processWorkflow (st : St) : St := sync st

/-- `execute_workflow_step` -/
def wfStep (maxc now : Nat) (st : St) (g : Nat) : St × ExecOut :=
  let st1 := (step maxc st (.focus g)).1
  let o := exec maxc now st1
  if o.ok then (processWorkflow o.st, o) else (o.st, o)

/-- `execute_workflow`: (final state, results of the executes made, no `Err`) -/
def wfLoop (maxc now : Nat) : St → List Nat → St × List ExecOut × Bool
  | st, [] => (st, [], true)
  | st, g :: gs =>
    let s := wfStep maxc now st g
    if !s.2.ok then (s.1, [s.2], false)
    else if s.2.fired = 0 then (s.1, [s.2], true)
    else
      let r := wfLoop maxc now s.1 gs
      (r.1, s.2 :: r.2.1, r.2.2)

def callStep (maxc now : Nat) (st : St) : Call → St × CRes
  | .op o => let s := step maxc st o; (s.1, .res s.2)
  | .execNow => let s := step maxc st (.exec now); (s.1, .res s.2)
  | .setDebug _ => (st, .res .unit)
  | .setAnalytics _ => (st, .res .unit)
  | .viaMut o => let s := step maxc st o; (s.1, .res s.2)
  | .kbClear => ({ st with rules := [] }, .res .unit)
  | .kbReplace rs => ((run maxc { st with rules := [] } (rs.map Op.add)).1, .res .unit)
  | .wfStep g => let s := wfStep maxc now st g; (s.1, .res (.exec s.2))
  | .workflow gs => let r := wfLoop maxc now st gs; (r.1, .workflow r.2.1 r.2.2)

/-- run a history of calls -/
def callsRun (maxc now : Nat) : St → List Call → St × List CRes
  | st, [] => (st, [])
  | st, c :: cs =>
    let s := callStep maxc now st c
    let r := callsRun maxc now s.1 cs
    (r.1, s.2 :: r.2)

/-! ### every call is a history of primitive operations -/

/-- the groups `execute_workflow` visits -/
def wfVisited (maxc now : Nat) : St → List Nat → List Nat
  | _, [] => []
  | st, g :: gs =>
    let s := wfStep maxc now st g
    if !s.2.ok then [g]
    else if s.2.fired = 0 then [g]
    else g :: wfVisited maxc now s.1 gs

def stepOps (now g : Nat) : List Op := [.focus g, .exec now]

/-- the primitive operations a call performs from state `st` -/
def Call.ops (maxc now : Nat) (st : St) : Call → List Op
  | .op o => [o]
  | .execNow => [.exec now]
  | .setDebug _ => []
  | .setAnalytics _ => []
  | .viaMut o => [o]
  | .kbClear => st.rules.map (fun r => Op.remove r.name)
  | .kbReplace rs => st.rules.map (fun r => Op.remove r.name) ++ rs.map Op.add
  | .wfStep g => stepOps now g
  | .workflow gs => (wfVisited maxc now st gs).flatMap (stepOps now)

def callsOps (maxc now : Nat) : St → List Call → List Op
  | _, [] => []
  | st, c :: cs => c.ops maxc now st ++ callsOps maxc now (callStep maxc now st c).1 cs

end C02
