/-
C02 / C03 — executable model of the forward-chaining engine's control:
  src/engine/engine.rs      `execute_at_time`, `execute_with_callback` (same loop, twin entry points),
                            `execute_action` (Set / Set with `field ± k` expression / ActivateAgendaGroup),
                            `sync_workflow_agenda_activations`, `reset_no_loop_tracking`,
                            `set_agenda_focus`, `pop_agenda_focus`, `clear_agenda_focus`, `activate_agenda_group`
  src/engine/agenda.rs      `AgendaManager`, `ActivationGroupManager`
  src/engine/workflow.rs    `agenda_activation_queue`
  src/engine/knowledge_base.rs `add_rule` (stable sort by Reverse(salience)), `remove_rule`,
                            `set_rule_enabled`, `get_rules_by_salience` (stable index sort)
  src/engine/rule.rs        `Rule::is_active_at`

Conventions: rule names, agenda groups, activation groups and fact fields are `Nat` identifiers
(agenda group 0 is the string "MAIN"); salience and fact values are `Int`; timestamps are `Nat` — nanoseconds (the resolution of `DateTime<Utc>`; `is_active_at` compares the full instants).
Condition semantics is deliberately small (C01 models it in depth): `field == k`, `field < k`,
`field > k` over a flat integer fact store, a missing field compares false (`Value::Null`).
The model follows the code *after* fix-C02.patch: the `ActivateAgendaGroup` action focuses the group
immediately and no longer also queues the same activation.
-/
namespace C02

inductive Cond where
  | eq (f : Nat) (v : Int)
  | lt (f : Nat) (v : Int)
  | gt (f : Nat) (v : Int)
deriving Repr, DecidableEq

inductive Action where
  | set (f : Nat) (v : Int)        -- `ActionType::Set { field, value: Integer(v) }`
  | add (f : Nat) (k : Int)        -- `ActionType::Set { field, value: Expression("field + k") }`
  | activate (g : Nat)             -- `ActionType::ActivateAgendaGroup { group }`
deriving Repr, DecidableEq

structure Rule where
  name : Nat
  salience : Int
  enabled : Bool
  noLoop : Bool
  lock : Bool                      -- lock_on_active
  agenda : Option Nat              -- agenda_group; `some 0` is the explicit string "MAIN"
  actGroup : Option Nat            -- activation_group
  effective : Option Nat           -- date_effective
  expires : Option Nat             -- date_expires
  cond : Cond
  actions : List Action
deriving Repr, DecidableEq

/-- `rule.agenda_group.as_ref().unwrap_or(&"MAIN")` -/
def Rule.group (r : Rule) : Nat :=
  match r.agenda with
  | some g => g
  | none => 0

/-- `Rule::is_active_at` -/
def Rule.activeAt (r : Rule) (t : Nat) : Bool :=
  (match r.effective with
   | some e => !(t < e)
   | none => true)
  &&
  (match r.expires with
   | some x => !(t ≥ x)
   | none => true)

/-! ### facts: a flat store of integers (`Facts` restricted to `Value::Integer`) -/

def fget : List (Nat × Int) → Nat → Option Int
  | [], _ => none
  | (k, v) :: rest, f => if k = f then some v else fget rest f

def fset : List (Nat × Int) → Nat → Int → List (Nat × Int)
  | [], f, v => [(f, v)]
  | (k, x) :: rest, f, v => if k = f then (k, v) :: rest else (k, x) :: fset rest f v

/-- `evaluate_single_condition` on an integer field: missing field = `Value::Null`, which is neither
equal to an integer nor convertible to a number. -/
def Cond.holds (c : Cond) (fs : List (Nat × Int)) : Bool :=
  match c with
  | .eq f v => (match fget fs f with | some x => x == v | none => false)
  | .lt f v => (match fget fs f with | some x => x < v | none => false)
  | .gt f v => (match fget fs f with | some x => x > v | none => false)

/-! ### AgendaManager -/

structure Agenda where
  active : Nat := 0
  stack : List Nat := [0]                 -- focus_stack, top is the last element
  activated : List Nat := []              -- activated_groups (a set)
  /-- `fired_rules_per_activation` as a set of (group, rule) pairs; an entry with an empty set and a
  missing entry are not distinguished (`can_fire_rule` treats them alike). -/
  firedPer : List (Nat × Nat) := []
deriving Repr, DecidableEq

/-- `AgendaManager::set_focus` -/
def Agenda.setFocus (a : Agenda) (g : Nat) : Agenda :=
  { active := g,
    stack := a.stack.filter (· ≠ g) ++ [g],
    activated := if a.activated.contains g then a.activated else g :: a.activated,
    firedPer := a.firedPer.filter (fun p => p.1 ≠ g) }

/-- `AgendaManager::should_evaluate_rule` -/
def Agenda.shouldEvaluate (a : Agenda) (r : Rule) : Bool :=
  match r.agenda with
  | some g => g == a.active
  | none => a.active == 0

/-- `AgendaManager::can_fire_rule` -/
def Agenda.canFire (a : Agenda) (r : Rule) : Bool :=
  if !r.lock then true
  else if !a.activated.contains r.group then true
  else !a.firedPer.contains (r.group, r.name)

/-- `AgendaManager::mark_rule_fired` -/
def Agenda.markFired (a : Agenda) (r : Rule) : Agenda :=
  if r.lock then
    { a with activated := if a.activated.contains r.group then a.activated else r.group :: a.activated,
             firedPer := if a.firedPer.contains (r.group, r.name) then a.firedPer
                         else (r.group, r.name) :: a.firedPer }
  else a

/-- `AgendaManager::pop_focus` (returns the new active group when something was popped) -/
def Agenda.pop (a : Agenda) : Agenda × Option Nat :=
  if a.stack.length > 1 then
    let s := a.stack.dropLast
    match s.getLast? with
    | some p => ({ a with stack := s, active := p }, some p)
    | none => ({ a with stack := s }, none)
  else (a, none)

/-- `AgendaManager::clear_focus` -/
def Agenda.clear (a : Agenda) : Agenda := { a with stack := [0], active := 0 }

/-! ### engine state -/

structure St where
  rules : List Rule := []                 -- `KnowledgeBase::rules` (kept sorted by `add_rule`)
  firedGlobal : List Nat := []            -- `fired_rules_global`
  agenda : Agenda := {}
  actFired : List Nat := []               -- `ActivationGroupManager::fired_groups`
  queue : List Nat := []                  -- `WorkflowEngine::agenda_activation_queue`
  facts : List (Nat × Int) := []          -- the caller's `Facts` (one store for the whole history)
deriving Repr, DecidableEq

def init : St := {}

/-- firing-log events of one pass. `fire r foc`: rule `r` fired (all its actions ran; this is where the
callback is called); `foc` is the focused agenda group at the moment the rule passed the gate.
`act g`: an `ActivateAgendaGroup(g)` action was executed. -/
inductive Ev where
  | fire (r : Rule) (foc : Nat)
  | act (g : Nat)
deriving Repr, DecidableEq

def Ev.isFire : Ev → Bool
  | .fire _ _ => true
  | .act _ => false

/-- number of firings in a log -/
def fireCount (l : List Ev) : Nat := (l.filter Ev.isFire).length

/-- the rules fired, in order -/
def firedRules : List Ev → List Rule
  | [] => []
  | .fire r _ :: es => r :: firedRules es
  | .act _ :: es => firedRules es

/-- `execute_action`; `none` = the action returned `Err` (`field + k` on a missing field:
"Field not found in facts"), the store is left as it was by the earlier actions. -/
def execAction (st : St) : Action → Option St
  | .set f v => some { st with facts := fset st.facts f v }
  | .add f k =>
    match fget st.facts f with
    | some x => some { st with facts := fset st.facts f (x + k) }
    | none => none
  | .activate g => some { st with agenda := st.agenda.setFocus g }

def actEv : Action → List Ev
  | .activate g => [.act g]
  | _ => []

/-- the `for action in &rule.actions { self.execute_action(action, facts)?; }` loop:
(state, events, completed without error) -/
def execActions : St → List Action → St × List Ev × Bool
  | st, [] => (st, [], true)
  | st, a :: rest =>
    match execAction st a with
    | none => (st, [], false)
    | some st' =>
      let r := execActions st' rest
      (r.1, actEv a ++ r.2.1, r.2.2)

/-- `ActivationGroupManager::can_fire` -/
def actCanFire (fired : List Nat) (r : Rule) : Bool :=
  match r.actGroup with
  | some a => !fired.contains a
  | none => true

/-- the eligibility gate of the pass, in code order -/
def gate (st : St) (t : Nat) (r : Rule) : Bool :=
  r.enabled
  && st.agenda.shouldEvaluate r
  && r.activeAt t
  && st.agenda.canFire r
  && actCanFire st.actFired r
  && !(r.noLoop && st.firedGlobal.contains r.name)

/-- bookkeeping after the actions of a fired rule: `fired_rules_global.insert` (no-loop only),
`agenda_manager.mark_rule_fired`, `activation_group_manager.mark_fired` -/
def markAll (st : St) (r : Rule) : St :=
  { st with
    firedGlobal := if r.noLoop then (if st.firedGlobal.contains r.name then st.firedGlobal else r.name :: st.firedGlobal)
                   else st.firedGlobal,
    agenda := st.agenda.markFired r,
    actFired := match r.actGroup with
                | some a => if st.actFired.contains a then st.actFired else a :: st.actFired
                | none => st.actFired }

/-- outcome of (part of) a pass -/
structure PassOut where
  st : St
  evaluated : Nat          -- contribution to `rules_evaluated`
  fired : Nat              -- contribution to `rules_fired`
  log : List Ev
  ok : Bool                -- false: an action returned `Err` (propagated by `?`)
deriving Repr, DecidableEq

/-- the body of the `for &rule_index in &rule_indices` loop for one rule -/
def ruleStep (t : Nat) (st : St) (r : Rule) : PassOut :=
  if gate st t r then
    if r.cond.holds st.facts then
      let res := execActions st r.actions
      if res.2.2 then
        { st := markAll res.1 r, evaluated := 1, fired := 1, log := res.2.1 ++ [.fire r st.agenda.active], ok := true }
      else
        { st := res.1, evaluated := 1, fired := 0, log := res.2.1, ok := false }
    else { st := st, evaluated := 1, fired := 0, log := [], ok := true }
  else { st := st, evaluated := 0, fired := 0, log := [], ok := true }

/-- sequential composition of outcomes -/
def PassOut.andThen (a b : PassOut) : PassOut :=
  { st := b.st, evaluated := a.evaluated + b.evaluated, fired := a.fired + b.fired, log := a.log ++ b.log, ok := b.ok }

/-- one pass over the rule snapshot `rs` -/
def passLoop (t : Nat) : List Rule → St → PassOut
  | [], st => { st := st, evaluated := 0, fired := 0, log := [], ok := true }
  | r :: rs, st =>
    let o := ruleStep t st r
    if o.ok then o.andThen (passLoop t rs o.st) else o

/-! ### knowledge base order -/

/-- insert after every element whose salience is ≥ (what a stable descending sort does with the
element that was pushed last) -/
def insertSal (r : Rule) : List Rule → List Rule
  | [] => [r]
  | x :: xs => if r.salience ≤ x.salience then x :: insertSal r xs else r :: x :: xs

/-- stable sort by descending salience (`sort_by_key(Reverse(salience))`, and the stable index sort of
`get_rules_by_salience`) -/
def sortSal (l : List Rule) : List Rule := l.foldl (fun acc r => insertSal r acc) []

/-! ### execute -/

/-- `sync_workflow_agenda_activations`: drain the queue, applying `set_focus` to each entry -/
def sync (st : St) : St :=
  { st with agenda := st.queue.foldl Agenda.setFocus st.agenda, queue := [] }

structure ExecOut where
  st : St
  cycles : Nat             -- `cycle_count`
  evaluated : Nat          -- `rules_evaluated`
  fired : Nat              -- `rules_fired`
  passes : List (List Ev)  -- firing log, one list per pass started
  ok : Bool                -- false = `Err` returned
deriving Repr, DecidableEq

/-- the `for cycle in 0..max_cycles` loop (timeout = None); the argument is the number of cycles left,
so the recursion is structural on the code's own bound -/
def cycles (t : Nat) : Nat → St → ExecOut
  | 0, st => { st := st, cycles := 0, evaluated := 0, fired := 0, passes := [], ok := true }
  | n + 1, st =>
    let st0 := { st with actFired := [] }                       -- reset_cycle
    let p := passLoop t (sortSal st0.rules) st0
    if !p.ok then
      { st := p.st, cycles := 1, evaluated := p.evaluated, fired := p.fired, passes := [p.log], ok := false }
    else if p.fired = 0 then                                     -- !any_rule_fired → break
      { st := p.st, cycles := 1, evaluated := p.evaluated, fired := p.fired, passes := [p.log], ok := true }
    else
      let o := cycles t n (sync p.st)
      { st := o.st, cycles := o.cycles + 1, evaluated := p.evaluated + o.evaluated, fired := p.fired + o.fired,
        passes := p.log :: o.passes, ok := o.ok }

/-- `execute_at_time(facts, t)` / `execute_with_callback` (t = now) with `max_cycles = maxc` -/
def exec (maxc t : Nat) (st : St) : ExecOut := cycles t maxc (sync st)

/-! ### API operations of a history -/

inductive Op where
  | exec (t : Nat)
  | focus (g : Nat)                 -- set_agenda_focus
  | pop                             -- pop_agenda_focus
  | clear                           -- clear_agenda_focus
  | resetNoLoop                     -- reset_no_loop_tracking
  | activate (g : Nat)              -- RustRuleEngine::activate_agenda_group (queues AND focuses)
  | add (r : Rule)                  -- knowledge_base().add_rule
  | remove (n : Nat)                -- knowledge_base().remove_rule
  | enable (n : Nat) (b : Bool)     -- knowledge_base().set_rule_enabled
  | setFact (f : Nat) (v : Int)     -- facts.set between calls
deriving Repr, DecidableEq

/-- what an operation returns -/
inductive Res where
  | exec (o : ExecOut)
  | popped (g : Option Nat)
  | added (ok : Bool)               -- false: duplicate name (`Err`)
  | found (b : Bool)                -- remove_rule / set_rule_enabled result
  | unit
deriving Repr, DecidableEq

def hasName (rs : List Rule) (n : Nat) : Bool := rs.any (fun r => r.name == n)

def step (maxc : Nat) (st : St) : Op → St × Res
  | .exec t => let o := exec maxc t st; (o.st, .exec o)
  | .focus g => ({ st with agenda := st.agenda.setFocus g }, .unit)
  | .pop => let p := st.agenda.pop; ({ st with agenda := p.1 }, .popped p.2)
  | .clear => ({ st with agenda := st.agenda.clear }, .unit)
  | .resetNoLoop => ({ st with firedGlobal := [] }, .unit)
  | .activate g => ({ st with queue := st.queue ++ [g], agenda := st.agenda.setFocus g }, .unit)
  | .add r =>
    if hasName st.rules r.name then (st, .added false)
    else ({ st with rules := sortSal (st.rules ++ [r]) }, .added true)
  | .remove n => ({ st with rules := st.rules.filter (fun r => r.name ≠ n) }, .found (hasName st.rules n))
  | .enable n b =>
    ({ st with rules := st.rules.map (fun r => if r.name = n then { r with enabled := b } else r) },
     .found (hasName st.rules n))
  | .setFact f v => ({ st with facts := fset st.facts f v }, .unit)

/-- run a history, collecting the results -/
def run (maxc : Nat) : St → List Op → St × List Res
  | st, [] => (st, [])
  | st, op :: ops =>
    let s := step maxc st op
    let r := run maxc s.1 ops
    (r.1, s.2 :: r.2)

end C02
