import RreModel.C02.Model
/-
C02 — the property as decidable predicates over firing logs.

`Ref.scan` is the trace-level statement of "a no-loop rule fires at most once until its tracking is
reset" and "a lock-on-active rule fires at most once per activation of its group": it walks a history
of events (rule firings, user-level activations of agenda groups, resets) and fails exactly when a
no-loop rule fires a second time since the last reset or a lock-on-active rule fires a second time
since the last activation of its group. It is proved of every model history (Theorems.lean) and
evaluated on the implementation's firing log by the driver. The remaining predicates are the per-pass
clauses (order, one per activation group) in the form the driver evaluates them.
-/
namespace C02

/-- history-level events -/
inductive HEv where
  | fire (r : Rule)      -- a rule fired, with the attributes it had when it fired
  | focus (g : Nat)      -- user-level activation of agenda group `g`: `set_agenda_focus(g)`,
                         -- `activate_agenda_group(g)`, or an executed `ActivateAgendaGroup(g)` action
  | reset                -- `reset_no_loop_tracking`
deriving Repr, DecidableEq

def hevOfEv : Ev → HEv
  | .fire r _ => .fire r
  | .act g => .focus g

/-- reference bookkeeping: no-loop names fired since the last reset; (group, name) of lock-on-active
rules fired since the last activation of the group -/
structure Ref where
  nl : List Nat := []
  lk : List (Nat × Nat) := []
deriving Repr, DecidableEq

inductive Clause where
  | noLoopTwice | lockTwice
deriving Repr, DecidableEq

def Ref.step (R : Ref) : HEv → Except Clause Ref
  | .reset => .ok { R with nl := [] }
  | .focus g => .ok { R with lk := R.lk.filter (fun p => p.1 ≠ g) }
  | .fire r =>
    if r.noLoop && R.nl.contains r.name then .error .noLoopTwice
    else if r.lock && R.lk.contains (r.group, r.name) then .error .lockTwice
    else .ok { nl := if r.noLoop then r.name :: R.nl else R.nl,
               lk := if r.lock then (r.group, r.name) :: R.lk else R.lk }

def Ref.scan : Ref → List HEv → Except Clause Ref
  | R, [] => .ok R
  | R, e :: es =>
    match R.step e with
    | .error c => .error c
    | .ok R' => Ref.scan R' es

def Ref.accepts (R : Ref) (tr : List HEv) : Bool :=
  match R.scan tr with
  | .ok _ => true
  | .error _ => false

/-- the events an operation contributes to the history -/
def opTrace : Op → Res → List HEv
  | .focus g, _ => [.focus g]
  | .activate g, _ => [.focus g]
  | .resetNoLoop, _ => [.reset]
  | .exec _, .exec o => o.passes.flatten.map hevOfEv
  | _, _ => []

/-- the event history of a run of the model -/
def trace (maxc : Nat) : St → List Op → List HEv
  | _, [] => []
  | st, op :: ops => opTrace op (step maxc st op).2 ++ trace maxc (step maxc st op).1 ops

/-! ### counting readings of the scan (used to state the theorems in plain terms) -/

def isNoLoopFire (n : Nat) : HEv → Bool
  | .fire r => r.noLoop && r.name == n
  | _ => false

def isLockFire (g n : Nat) : HEv → Bool
  | .fire r => r.lock && r.group == g && r.name == n
  | _ => false

/-! ### per-pass clauses as evaluated on a log of rule names -/

/-- position-increasing runs: a log that is the concatenation of `k` passes has at most `k` runs -/
def runCount (pos : List Nat) : Nat :=
  match pos with
  | [] => 0
  | a :: rest => 1 + go a rest
where
  go : Nat → List Nat → Nat
    | _, [] => 0
    | a, b :: rest => (if a < b then 0 else 1) + go b rest

/-- no two entries share an activation group -/
def onePerActGroup : List Rule → Bool
  | [] => true
  | r :: rs =>
    (match r.actGroup with
     | some a => rs.all (fun r' => r'.actGroup != some a)
     | none => true) && onePerActGroup rs

end C02
