/-
Line-protocol helpers shared by every driver (`Driver/Cxx.lean`).
No Mathlib import: everything reachable from a driver must link as a `lean_exe`.
-/
namespace Proto

/-- split a protocol line into space-separated tokens (empty tokens dropped) -/
def tokens (line : String) : List String :=
  (line.trimAscii.toString.splitOn " ").filter (· ≠ "")

def natOf? (s : String) : Option Nat := s.toNat?
def intOf? (s : String) : Option Int := s.toInt?

/-- all tokens as naturals, or `none` if one is not -/
def nats? (ts : List String) : Option (List Nat) := ts.mapM natOf?

def hexDigit? (c : Char) : Option Nat :=
  if '0' ≤ c ∧ c ≤ '9' then some (c.toNat - '0'.toNat)
  else if 'a' ≤ c ∧ c ≤ 'f' then some (c.toNat - 'a'.toNat + 10)
  else none

/-- decode a hex string (lower case, even length) to bytes -/
def hexBytes? (s : String) : Option (List UInt8) :=
  let rec go : List Char → Option (List UInt8)
    | [] => some []
    | [_] => none
    | a :: b :: rest => do
      let x ← hexDigit? a
      let y ← hexDigit? b
      let r ← go rest
      pure (UInt8.ofNat (x * 16 + y) :: r)
  go s.toList

def hexOfByte (b : UInt8) : String :=
  let d (n : Nat) : Char := if n < 10 then Char.ofNat (n + 48) else Char.ofNat (n - 10 + 97)
  String.ofList [d (b.toNat / 16), d (b.toNat % 16)]

def hexOfBytes (bs : List UInt8) : String := String.join (bs.map hexOfByte)

/-- hex-encoded UTF-8 text; "-" encodes the empty string -/
def hexString? (s : String) : Option String :=
  if s = "-" then some "" else do
    let bs ← hexBytes? s
    String.fromUTF8? (ByteArray.mk bs.toArray)

def hexOfString (s : String) : String :=
  if s.isEmpty then "-" else hexOfBytes s.toUTF8.data.toList

def joinSp (ts : List String) : String := " ".intercalate ts

def showNats (ns : List Nat) : String :=
  if ns.isEmpty then "-" else ",".intercalate (ns.map toString)

def showInts (ns : List Int) : String :=
  if ns.isEmpty then "-" else ",".intercalate (ns.map toString)

def parseNats? (s : String) : Option (List Nat) :=
  if s = "-" then some [] else (s.splitOn ",").mapM natOf?

def parseInts? (s : String) : Option (List Int) :=
  if s = "-" then some [] else (s.splitOn ",").mapM intOf?

/-- run `f` on every stdin line, printing one output line per input line -/
partial def mapLines (f : String → String) : IO Unit := do
  let stdin ← IO.getStdin
  let stdout ← IO.getStdout
  let rec loop : IO Unit := do
    let line ← stdin.getLine
    if line.isEmpty then return ()
    stdout.putStrLn (f line)
    loop
  loop
  stdout.flush

/-- stateful variant -/
partial def foldLines {σ} (init : σ) (f : σ → String → σ × String) : IO Unit := do
  let stdin ← IO.getStdin
  let stdout ← IO.getStdout
  let rec loop (s : σ) : IO Unit := do
    let line ← stdin.getLine
    if line.isEmpty then return ()
    let (s', out) := f s line
    stdout.putStrLn out
    loop s'
  loop init
  stdout.flush

end Proto
