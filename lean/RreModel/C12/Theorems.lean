import RreModel.C12.Lemmas
/-
C12 — property theorems (only). "Windows hold exactly the events of their time span; aggregates follow."
Every statement quantifies over all window configurations (duration, start, cap, limits), all event
histories of any length in any arrival order, and — for the aggregates — every division function `div`.
`…_meets_spec` theorems say that every run of the model satisfies the observation-level predicate of
Spec.lean, which is the predicate the driver evaluates on the implementation's observations.
-/
namespace C12

/-! ## aligned intervals (pure arithmetic) -/

/-- `s = (t / d) * d` satisfies `s ≤ t < s + d` -/
theorem aligned_contains (d t : Nat) (hd : 1 ≤ d) : t / d * d ≤ t ∧ t < t / d * d + d :=
  ⟨al_le d t, al_lt d t hd⟩

/-- any aligned interval `[k*d, k*d + d)` that contains `t` is that one -/
theorem aligned_unique (d t k : Nat) (h1 : k * d ≤ t) (h2 : t < k * d + d) : k * d = t / d * d := by
  rw [al_unique d t k h1 h2]

example : (37 / 10 * 10 ≤ 37 ∧ 37 < 37 / 10 * 10 + 10) ∧ 3 * 10 = 37 / 10 * 10 := by decide

/-! ## TimeWindow: `add_event`, `record` -/

/-- Every run of `add_event`/`record` calls on a fresh `TimeWindow` satisfies the TimeWindow spec:
half-open span test, sliding boundary `[ts − d, ts + 1)`, no retained event older than the window,
nothing younger dropped except oldest-first by the cap, aggregates = folds over exactly the events. -/
theorem tw_model_meets_spec (div : Int → Nat → Nat) (t : WType) (d start cap : Nat) (ops : List TWOp) :
    twRunOk div t d cap (twInitObs start d) ops (twTrace div (TW.new t d start cap) ops) = true :=
  tw_trace_ok div ops (TW.new t d start cap) (twInitObs start d) ⟨rfl, rfl, rfl⟩ (tw_new_inv t d start cap)

/-- After `record e` on a sliding window in *any* state (any history, any arrival order): the window trails
`e` by the duration; no retained event is older than that; the retained list is the old list plus `e`,
filtered by that bound, minus a prefix that is dropped only when the cap is exceeded (then exactly down to
the cap, oldest-arrived first); `e` itself stays unless the cap is 0. -/
theorem record_retains_exactly (w : TW) (e : Ev) (hs : w.wtype = .sliding) :
    let w' := w.record e
    let young := (w.events ++ [e]).filter (fun x => decide (e.ts - w.dur ≤ x.ts))
    w'.start = e.ts - w.dur ∧ w'.stop = e.ts + 1
    ∧ (∀ x ∈ w'.events, e.ts - w.dur ≤ x.ts)
    ∧ (∃ k, w'.events = young.drop k ∧ (k = 0 ∨ w'.events.length = w.cap))
    ∧ w'.events.length ≤ w.cap
    ∧ (1 ≤ w.cap → e ∈ w'.events) := by
  have hst : (w.record e).start = e.ts - w.dur := by simp [TW.record, TW.slide, hs]
  have hev := record_events w e
  rw [hst] at hev
  refine ⟨hst, by simp [TW.record, TW.slide, hs], ?_, ?_, ?_, ?_⟩
  · intro x hx
    have := record_young w e x hx
    rw [hst] at this; simpa using this
  · refine ⟨_, by rw [hev, popOver_eq_drop], ?_⟩
    rw [hev, length_popOver]; omega
  · rw [hev, length_popOver]; omega
  · intro hc
    rw [hev, List.filter_append]
    have : List.filter (fun x => decide (e.ts - w.dur ≤ x.ts)) [e] = [e] := by simp
    rw [this]
    exact mem_popOver_last _ _ hc

/-- `add_event` accepts exactly the timestamps of the half-open span and never moves it -/
theorem add_event_half_open (w : TW) (e : Ev) :
    (w.addEvent e).2 = true ↔ (w.start ≤ e.ts ∧ e.ts < w.stop) := by
  simp only [TW.addEvent, TW.contains, Bool.and_eq_true, decide_eq_true_eq]
  split <;> simp_all

def exW : TW := { wtype := .sliding, dur := 50, start := 0, stop := 50, cap := 100, events := [] }
def ev (i t : Nat) : Ev := { id := i, ts := t, val := some (Int.ofNat t) }

/-- non-vacuity, and the F-C12 witness on the fixed semantics: arrivals 200, 290, 100, then record(300), d = 50 -/
example : ((((exW.record (ev 0 200)).record (ev 1 290)).record (ev 2 100)).record (ev 3 300)).events.map (·.id) = [1, 3] := by
  decide

/-- the statement "no retained event is older than the window" for the eviction as it was before fix-C12 -/
def record_front_only_full : Prop :=
  ∀ (w : TW) (e : Ev), w.wtype = .sliding → ∀ x ∈ (w.recordFrontOnly e).events, e.ts - w.dur ≤ x.ts

/-- … is false: front-only eviction keeps event 2 (ts 100) behind event 1 (ts 290) at record(300), d = 50.
This is defect F-C12, reproduced on the unchanged Rust code (corpus/C12/defects.case). -/
theorem record_front_only_counterexample : ¬ record_front_only_full := by
  intro h
  have := h (((exW.recordFrontOnly (ev 0 200)).recordFrontOnly (ev 1 290)).recordFrontOnly (ev 2 100)) (ev 3 300) rfl
    (ev 2 100) (by decide)
  exact absurd this (by decide)

/-! ## aggregates -/

/-- count, sum, average, min and max are the folds over exactly the listed events (spec form) -/
theorem aggregates_meet_spec (div : Int → Nat → Nat) (es : List Ev) : aggOk div es (aggregate div es) = true :=
  aggregate_ok div es

/-- … spelled out: count = number of events; sum = sum of the numeric values; average = `div sum n` over the
numeric values, `none` iff there is none; min/max are members of the values bounding all of them. -/
theorem aggregates_are_folds (div : Int → Nat → Nat) (es : List Ev) :
    (aggregate div es).count = es.length
    ∧ (aggregate div es).sum = (vals es).sum
    ∧ (aggregate div es).avg = (if (vals es).isEmpty then none else some (div (vals es).sum (vals es).length))
    ∧ ((aggregate div es).min = none ↔ vals es = [])
    ∧ (∀ m, (aggregate div es).min = some m → m ∈ vals es ∧ ∀ x ∈ vals es, m ≤ x)
    ∧ ((aggregate div es).max = none ↔ vals es = [])
    ∧ (∀ m, (aggregate div es).max = some m → m ∈ vals es ∧ ∀ x ∈ vals es, x ≤ m) := by
  have hmin := aggMin_ok es
  have hmax := aggMax_ok es
  refine ⟨rfl, aggSum_eq es, aggAvg_eq div es, ?_, ?_, ?_, ?_⟩
  · show aggMin es = none ↔ _
    cases h : aggMin es with
    | none => simpa [h, extremeOk] using hmin
    | some m =>
      rw [h] at hmin
      simp only [extremeOk, Bool.and_eq_true, List.contains_eq_mem, decide_eq_true_eq] at hmin
      constructor
      · intro h'; cases h'
      · intro h'; rw [h'] at hmin; simp at hmin
  · intro m h
    have h : aggMin es = some m := h
    rw [h] at hmin
    simpa [extremeOk] using hmin
  · show aggMax es = none ↔ _
    cases h : aggMax es with
    | none => simpa [h, extremeOk] using hmax
    | some m =>
      rw [h] at hmax
      simp only [extremeOk, Bool.and_eq_true, List.contains_eq_mem, decide_eq_true_eq] at hmax
      constructor
      · intro h'; cases h'
      · intro h'; rw [h'] at hmax; simp at hmax
  · intro m h
    have h : aggMax es = some m := h
    rw [h] at hmax
    simpa [extremeOk] using hmax

example : aggregate (fun s n => (s / n).toNat) [⟨0, 1, some 4⟩, ⟨1, 2, none⟩, ⟨2, 3, some (-2)⟩, ⟨3, 9, some 10⟩]
    = { count := 4, sum := 12, avg := some 4, min := some (-2), max := some 10 } := by decide

/-! ## WindowedStream::new, tumbling -/

/-- Tumbling `WindowedStream::new` partitions the events by aligned start: windows are listed by strictly
increasing (hence pairwise distinct) start; each is an aligned interval `[s, s + d)` holding exactly the
events whose aligned start is `s`, in arrival order, minus what the cap pushed out oldest-first; no window
is empty of such events; every event has its window. -/
theorem windowed_stream_partition (d cap : Nat) (es : List Ev) (ws : List TW) (hd : 1 ≤ d)
    (h : wsTumbling d cap es = some ws) :
    (ws.map (·.start)).Pairwise (· < ·)
    ∧ (∀ w ∈ ws, w.start / d * d = w.start ∧ w.stop = w.start + d
        ∧ w.events = popOver cap (es.filter (fun x => decide (x.ts / d * d = w.start)))
        ∧ ∃ x ∈ es, x.ts / d * d = w.start)
    ∧ (∀ x ∈ es, ∃ w ∈ ws, w.start = x.ts / d * d) :=
  ws_windows_spec d cap es ws hd h

theorem ws_model_meets_spec (div : Int → Nat → Nat) (d cap : Nat) (es : List Ev) (ws : List TW) (hd : 1 ≤ d)
    (h : wsTumbling d cap es = some ws) : wsOk div d cap es (ws.map (TW.wobs div)) = true :=
  ws_ok div d cap es ws hd h

/-- for `d ≥ 1` the constructor never fails; with a duration below 1 ms it divides by zero as soon as there is an event -/
theorem ws_defined_iff (d cap : Nat) (es : List Ev) :
    (wsTumbling d cap es = none) ↔ (d = 0 ∧ es ≠ []) := by
  unfold wsTumbling
  cases es with
  | nil => simp
  | cons e es => by_cases hd : d = 0 <;> simp [hd]

/-- non-vacuity: the hypotheses are met by a concrete out-of-order input (the resulting windows
`0:[1] 20:[2,3] 30:[4]` are what the driver prints for corpus case `WS T 10 2 25,5,27,21,30`) -/
example : ∃ ws, wsTumbling 10 2 [ev 0 25, ev 1 5, ev 2 27, ev 3 21, ev 4 30] = some ws ∧ (1 : Nat) ≤ 10 := by
  cases h : wsTumbling 10 2 [ev 0 25, ev 1 5, ev 2 27, ev 3 21, ev 4 30] with
  | none => exact absurd ((ws_defined_iff _ _ _).mp h).1 (by decide)
  | some ws => exact ⟨ws, rfl, by decide⟩

/-! ## WindowManager::process_event, tumbling -/

/-- One `process_event e` of a tumbling manager (`d ≥ 1`) in any reachable state: it does not fail; the
windows remain aligned intervals with strictly increasing — pairwise distinct — starts, at most `maxW`, none
ended at or before `e`; a window holds `e` only if it is the aligned interval of `e.ts`; and (unless
`maxW = 0` or `cap = 0`) that window exists and holds `e`. With distinct starts: exactly one window. -/
theorem manager_places_once {d : Nat} {m : WM} (hd : 1 ≤ d) (hm : MInv d m) (e : Ev) :
    ∃ m', m.process e = some m' ∧ MInv d m'
      ∧ (∀ w ∈ m'.windows, e.ts < w.stop)
      ∧ (∀ w ∈ m'.windows, ∀ x ∈ w.events, w.start = x.ts / d * d ∧ w.start ≤ x.ts ∧ x.ts < w.stop)
      ∧ (∀ w1 ∈ m'.windows, ∀ w2 ∈ m'.windows, e ∈ w1.events → e ∈ w2.events → w1.start = w2.start)
      ∧ (1 ≤ m.maxW → 1 ≤ m.cap → ∃ w ∈ m'.windows, w.start = e.ts / d * d ∧ e ∈ w.events) := by
  obtain ⟨m', h1, h2, _, _, h5, h6⟩ := process_spec hd hm e
  refine ⟨m', h1, h2, h5, ?_, ?_, h6⟩
  · intro w hw x hx
    have hs := holder_is_aligned h2 hw hx
    have := aligned_contains d x.ts hd
    rw [(h2.wins w hw).stop, hs]
    exact ⟨rfl, this.1, this.2⟩
  · intro w1 hw1 w2 hw2 he1 he2
    rw [holder_is_aligned h2 hw1 he1, holder_is_aligned h2 hw2 he2]

/-- the invariant holds initially and along every history: a tumbling manager never fails for `d ≥ 1` and
always holds aligned windows with strictly increasing starts, each holding only events of its own interval -/
theorem manager_invariant (d cap maxW : Nat) (hd : 1 ≤ d) (es : List Ev) :
    ∃ m', wmRun (WM.new .tumbling d cap maxW) es = some m' ∧ MInv d m' := by
  have h0 : MInv d (WM.new .tumbling d cap maxW) :=
    ⟨rfl, rfl, by simp [WM.new], by simp [WM.new], by simp [WM.new]⟩
  obtain ⟨m', h1, h2, _⟩ := wmRun_inv hd es _ h0
  exact ⟨m', h1, h2⟩

/-- **Every run of a tumbling manager (`d ≥ 1`) over distinct events satisfies every clause of the
observation-level step predicate `wmStepOk`** (the predicate the oracle evaluates on `active_windows` of the
implementation after each `process_event`): windows are aligned intervals listed by strictly increasing start,
at most `maxW`, none ended at or before the event; a window holds only events of its own interval; the aligned
window of `e` holds exactly its previous content plus `e` (last in arrival order), minus what the cap pushed
out oldest-first; every other window is an old window with its events untouched (none invented); unless
`maxW = 0` the aligned window exists; and `e` occurs exactly once over all windows (0 times iff `maxW = 0` or
`cap = 0`); aggregates of every window are the folds over its events. No hypothesis on `cap`, `maxW` or the
arrival order is needed: the `remove(0)`-before-sort quirk of the window limit removes whole old windows only
and never the one that just received `e`. -/
theorem wm_model_meets_spec (div : Int → Nat → Nat) (d cap maxW : Nat) (es : List Ev) (tr : List (List WObs))
    (hd : 1 ≤ d) (hnd : es.Nodup) (h : wmTrace div (WM.new .tumbling d cap maxW) es = some tr) :
    wmRunOk div d cap maxW [] es tr = true := by
  have h0 : MInv d (WM.new .tumbling d cap maxW) :=
    ⟨rfl, rfl, by simp [WM.new], by simp [WM.new], by simp [WM.new]⟩
  exact wm_trace_ok div hd es (WM.new .tumbling d cap maxW) [] tr h0
    (by intro w hw; simp [WM.new] at hw) hnd (by simp) h

/-- for `d ≥ 1` the trace is always defined (the manager never panics), so the theorem above is not vacuous -/
theorem wm_trace_defined (div : Int → Nat → Nat) (d cap maxW : Nat) (hd : 1 ≤ d) (es : List Ev) :
    ∃ tr, wmTrace div (WM.new .tumbling d cap maxW) es = some tr := by
  have h0 : MInv d (WM.new .tumbling d cap maxW) :=
    ⟨rfl, rfl, by simp [WM.new], by simp [WM.new], by simp [WM.new]⟩
  generalize WM.new .tumbling d cap maxW = m at h0
  induction es generalizing m with
  | nil => exact ⟨[], rfl⟩
  | cons e es ih =>
    obtain ⟨m', hp, hm', _⟩ := process_spec hd h0 e
    obtain ⟨rest, hr⟩ := ih m' hm'
    exact ⟨m'.windows.map (TW.wobs div) :: rest, by simp [wmTrace, hp, hr]⟩

def exM : WM :=
  { wtype := .tumbling, dur := 10, cap := 100, maxW := 100,
    windows := [ { wtype := .tumbling, dur := 10, start := 0, stop := 10, cap := 100, events := [ev 1 5] },
                 { wtype := .tumbling, dur := 10, start := 20, stop := 30, cap := 100, events := [ev 0 25] } ] }

/-- non-vacuity: a reachable state with two windows (a late event opened the older one) meets the invariant -/
example : MInv 10 exM := by
  refine ⟨rfl, rfl, ?_, by decide, by decide⟩
  intro w hw
  simp only [exM, List.mem_cons, List.not_mem_nil, or_false] at hw
  rcases hw with rfl | rfl
  · exact ⟨rfl, rfl, rfl, by decide, by decide, by decide⟩
  · exact ⟨rfl, rfl, rfl, by decide, by decide, by decide⟩

/-! ## StreamAlphaNode under an explicit clock -/

/-- Every run of `process_event` under any clock sequence (monotone or not) satisfies the node spec:
accepted iff stream/type match and the timestamp is in the window of `now`; nothing outside the window
is retained; nothing inside is missing except what the cap (counted on arrival) pushed out oldest-first. -/
theorem alpha_model_meets_spec (w : AWin) (cap : Nat) (hv : w.valid) (ops : List ANOp) (tr : List ANObs)
    (h : anTrace { window := w, cap := cap, events := [] } ops = some tr) :
    anRunOk w cap [] ops tr = true :=
  an_trace_ok ops { window := w, cap := cap, events := [] } tr hv h

/-- with a valid window (tumbling duration ≥ 1 ms) the node never divides by zero -/
theorem alpha_never_fails (w : AWin) (cap : Nat) (hv : w.valid) (ops : List ANOp) :
    ∃ tr, anTrace { window := w, cap := cap, events := [] } ops = some tr :=
  an_trace_some ops _ hv

/-- Sliding node, one accepted event at clock `now`, any prior buffer: the buffer afterwards is exactly the
capped arrival sequence filtered by `now − d ≤ ts`; in particular nothing older than the window stays. -/
theorem alpha_sliding_retains_exactly (d cap now : Nat) (buf : List Ev) (e : Ev)
    (hin : now - d ≤ e.ts ∧ e.ts ≤ now) :
    ∃ a', ({ window := .sliding d, cap := cap, events := buf } : Alpha).process now true e = some (a', true)
      ∧ a'.events = ((buf ++ [e]).drop ((buf ++ [e]).length - cap)).filter (fun x => decide (now - d ≤ x.ts))
      ∧ (∀ x ∈ a'.events, now - d ≤ x.ts)
      ∧ (1 ≤ cap → e ∈ a'.events) := by
  refine ⟨{ window := .sliding d, cap := cap,
            events := (popOver cap (buf ++ [e])).filter ((AWin.sliding d).keeps now) },
          by simp [Alpha.process, AWin.accepts, hin], ?_, ?_, ?_⟩
  · simp only [popOver_eq_drop]; rfl
  · intro x hx
    have := (List.mem_filter.mp hx).2
    simpa [AWin.keeps] using this
  · intro hc
    simp only
    rw [List.mem_filter]
    exact ⟨mem_popOver_last _ _ hc, by simp [AWin.keeps, hin.1]⟩

/-- Tumbling node (`d ≥ 1`): the accepted event is retained (cap ≥ 1) and the buffer holds only events of the
aligned interval of `now`. -/
theorem alpha_tumbling_holds_current (d cap now : Nat) (buf : List Ev) (e : Ev) (hd : 1 ≤ d)
    (hin : e.ts / d = now / d) :
    ∃ a', ({ window := .tumbling d, cap := cap, events := buf } : Alpha).process now true e = some (a', true)
      ∧ (∀ x ∈ a'.events, x.ts / d = now / d)
      ∧ (1 ≤ cap → e ∈ a'.events) := by
  have hacc := accepts_eq (w := .tumbling d) hd now e.ts
  have hin' : AWin.inSpan (.tumbling d) now e.ts = true := by simp [AWin.inSpan, hin]
  have hk := keeps_eq (w := .tumbling d) hd now
  refine ⟨{ window := .tumbling d, cap := cap,
            events := (popOver cap (buf ++ [e])).filter ((AWin.tumbling d).keeps now) },
          by simp only [Alpha.process, if_true, hacc, hin'], ?_, ?_⟩
  · intro x hx
    have := (List.mem_filter.mp hx).2
    rw [hk] at this
    simpa [AWin.live] using this
  · intro hc
    simp only
    rw [List.mem_filter, hk]
    exact ⟨mem_popOver_last _ _ hc, by simp [AWin.live, hin]⟩

/-- the sliding statement for the node as it was before fix-C12 … -/
def alpha_front_only_full : Prop :=
  ∀ (a : AlphaOld) (d now : Nat) (e : Ev) (a' : AlphaOld), a.window = .sliding d →
    a.process now true e = some (a', true) → ∀ x ∈ a'.events, now - d ≤ x.ts

def oldS : AlphaOld := { window := .sliding 50, cap := 100, events := [ev 0 290, ev 1 260], lastStart := 0 }

/-- … is false (F-C12 in `StreamAlphaNode`: 260 hides behind 290 when the clock reaches 340, d = 50) -/
theorem alpha_front_only_counterexample : ¬ alpha_front_only_full := by
  intro h
  have := h oldS 50 340 (ev 2 335) { oldS with events := [ev 0 290, ev 1 260, ev 2 335] } rfl (by decide)
    (ev 1 260) (by decide)
  exact absurd this (by decide)

/-- the tumbling statement for the node as it was before fix-C12b … -/
def alpha_tumbling_old_full : Prop :=
  ∀ (a : AlphaOld) (d now : Nat) (e : Ev) (a' : AlphaOld), a.window = .tumbling d → 1 ≤ d → 1 ≤ a.cap →
    a.process now true e = some (a', true) → e ∈ a'.events

def oldT : AlphaOld := { window := .tumbling 10, cap := 100, events := [ev 0 101, ev 1 103], lastStart := 100 }

/-- … is false (F-C12b: the first event of a new window is accepted and then cleared with the old window) -/
theorem alpha_tumbling_old_counterexample : ¬ alpha_tumbling_old_full := by
  intro h
  have := h oldT 10 111 (ev 2 112) { oldT with events := [], lastStart := 110 } rfl (by decide) (by decide) (by decide)
  exact absurd this (by decide)

example : (anTrace { window := .tumbling 10, cap := 100, events := [] }
    [⟨100, true, ev 0 101⟩, ⟨105, true, ev 1 103⟩, ⟨111, true, ev 2 112⟩, ⟨115, true, ev 3 99⟩]).map
    (·.map fun o => (o.ret, o.events.map (·.id)))
    = some [(true, [0]), (true, [0, 1]), (true, [2]), (false, [2])] := by decide

end C12
