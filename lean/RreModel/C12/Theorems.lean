import RreModel.C12.Lemmas
/-
C12 — property theorems (only). "Windows hold exactly the events of their time span; aggregates follow."
Every statement quantifies over all window configurations (duration, start, cap, limits), all event
histories of any length in any arrival order, and — for the aggregates — every division function `div`.
`…_meets_spec` theorems say that every run of the model satisfies the observation-level predicate of
Spec.lean, which is the predicate the driver evaluates on the implementation's observations.
-/
namespace C12

/-! ## aligned intervals (pure arithmetic) -/

/-- `s = (t / d) * d` satisfies `s ≤ t < s + d` -/
theorem aligned_contains (d t : Nat) (hd : 1 ≤ d) : t / d * d ≤ t ∧ t < t / d * d + d :=
  ⟨al_le d t, al_lt d t hd⟩

/-- any aligned interval `[k*d, k*d + d)` that contains `t` is that one -/
theorem aligned_unique (d t k : Nat) (h1 : k * d ≤ t) (h2 : t < k * d + d) : k * d = t / d * d := by
  rw [al_unique d t k h1 h2]

example : (37 / 10 * 10 ≤ 37 ∧ 37 < 37 / 10 * 10 + 10) ∧ 3 * 10 = 37 / 10 * 10 := by decide

/-! ## TimeWindow: `add_event`, `record` -/

/-- Every run of `add_event`/`record` calls on a fresh `TimeWindow` satisfies the TimeWindow spec:
half-open span test, sliding boundary `[ts − d, ts + 1)`, no retained event older than the window,
nothing younger dropped except oldest-first by the cap, aggregates = folds over exactly the events. -/
theorem tw_model_meets_spec (div : Int → Nat → Nat) (t : WType) (d start cap : Nat) (ops : List TWOp) :
    twRunOk div t d cap (twInitObs start d) ops (twTrace div (TW.new t d start cap) ops) = true :=
  tw_trace_ok div ops (TW.new t d start cap) (twInitObs start d) ⟨rfl, rfl, rfl⟩ (tw_new_inv t d start cap)

/-- After `record e` on a sliding window in *any* state (any history, any arrival order): the window trails
`e` by the duration; no retained event is older than that; the retained list is the old list plus `e`,
filtered by that bound, minus a prefix that is dropped only when the cap is exceeded (then exactly down to
the cap, oldest-arrived first); `e` itself stays unless the cap is 0. -/
theorem record_retains_exactly (w : TW) (e : Ev) (hs : w.wtype = .sliding) :
    let w' := w.record e
    let young := (w.events ++ [e]).filter (fun x => decide (e.ts - w.dur ≤ x.ts))
    w'.start = e.ts - w.dur ∧ w'.stop = e.ts + 1
    ∧ (∀ x ∈ w'.events, e.ts - w.dur ≤ x.ts)
    ∧ (∃ k, w'.events = young.drop k ∧ (k = 0 ∨ w'.events.length = w.cap))
    ∧ w'.events.length ≤ w.cap
    ∧ (1 ≤ w.cap → e ∈ w'.events) := by
  have hst : (w.record e).start = e.ts - w.dur := by simp [TW.record, TW.slide, hs]
  have hev := record_events w e
  rw [hst] at hev
  refine ⟨hst, by simp [TW.record, TW.slide, hs], ?_, ?_, ?_, ?_⟩
  · intro x hx
    have := record_young w e x hx
    rw [hst] at this; simpa using this
  · refine ⟨_, by rw [hev, popOver_eq_drop], ?_⟩
    rw [hev, length_popOver]; omega
  · rw [hev, length_popOver]; omega
  · intro hc
    rw [hev, List.filter_append]
    have : List.filter (fun x => decide (e.ts - w.dur ≤ x.ts)) [e] = [e] := by simp
    rw [this]
    exact mem_popOver_last _ _ hc

/-- `add_event` accepts exactly the timestamps of the half-open span and never moves it -/
theorem add_event_half_open (w : TW) (e : Ev) :
    (w.addEvent e).2 = true ↔ (w.start ≤ e.ts ∧ e.ts < w.stop) := by
  simp only [TW.addEvent, TW.contains, Bool.and_eq_true, decide_eq_true_eq]
  split <;> simp_all

def exW : TW := { wtype := .sliding, dur := 50, start := 0, stop := 50, cap := 100, events := [] }
def ev (i t : Nat) : Ev := { id := i, ts := t, val := some (Int.ofNat t) }

/-- non-vacuity, and the F-C12 witness on the fixed semantics: arrivals 200, 290, 100, then record(300), d = 50 -/
example : ((((exW.record (ev 0 200)).record (ev 1 290)).record (ev 2 100)).record (ev 3 300)).events.map (·.id) = [1, 3] := by
  decide

/-- the statement "no retained event is older than the window" for the eviction as it was before fix-C12 -/
def record_front_only_full : Prop :=
  ∀ (w : TW) (e : Ev), w.wtype = .sliding → ∀ x ∈ (w.recordFrontOnly e).events, e.ts - w.dur ≤ x.ts

/-- … is false: front-only eviction keeps event 2 (ts 100) behind event 1 (ts 290) at record(300), d = 50.
This is defect F-C12, reproduced on the unchanged Rust code (corpus/C12/defects.case). -/
theorem record_front_only_counterexample : ¬ record_front_only_full := by
  intro h
  have := h (((exW.recordFrontOnly (ev 0 200)).recordFrontOnly (ev 1 290)).recordFrontOnly (ev 2 100)) (ev 3 300) rfl
    (ev 2 100) (by decide)
  exact absurd this (by decide)

/-! ## aggregates -/

/-- count, sum, average, min and max are the folds over exactly the listed events (spec form) -/
theorem aggregates_meet_spec (div : Int → Nat → Nat) (es : List Ev) : aggOk div es (aggregate div es) = true :=
  aggregate_ok div es

/-- … spelled out: count = number of events; sum = sum of the numeric values; average = `div sum n` over the
numeric values, `none` iff there is none; min/max are members of the values bounding all of them. -/
theorem aggregates_are_folds (div : Int → Nat → Nat) (es : List Ev) :
    (aggregate div es).count = es.length
    ∧ (aggregate div es).sum = (vals es).sum
    ∧ (aggregate div es).avg = (if (vals es).isEmpty then none else some (div (vals es).sum (vals es).length))
    ∧ ((aggregate div es).min = none ↔ vals es = [])
    ∧ (∀ m, (aggregate div es).min = some m → m ∈ vals es ∧ ∀ x ∈ vals es, m ≤ x)
    ∧ ((aggregate div es).max = none ↔ vals es = [])
    ∧ (∀ m, (aggregate div es).max = some m → m ∈ vals es ∧ ∀ x ∈ vals es, x ≤ m) := by
  have hmin := aggMin_ok es
  have hmax := aggMax_ok es
  refine ⟨rfl, aggSum_eq es, aggAvg_eq div es, ?_, ?_, ?_, ?_⟩
  · show aggMin es = none ↔ _
    cases h : aggMin es with
    | none => simpa [h, extremeOk] using hmin
    | some m =>
      rw [h] at hmin
      simp only [extremeOk, Bool.and_eq_true, List.contains_eq_mem, decide_eq_true_eq] at hmin
      constructor
      · intro h'; cases h'
      · intro h'; rw [h'] at hmin; simp at hmin
  · intro m h
    have h : aggMin es = some m := h
    rw [h] at hmin
    simpa [extremeOk] using hmin
  · show aggMax es = none ↔ _
    cases h : aggMax es with
    | none => simpa [h, extremeOk] using hmax
    | some m =>
      rw [h] at hmax
      simp only [extremeOk, Bool.and_eq_true, List.contains_eq_mem, decide_eq_true_eq] at hmax
      constructor
      · intro h'; cases h'
      · intro h'; rw [h'] at hmax; simp at hmax
  · intro m h
    have h : aggMax es = some m := h
    rw [h] at hmax
    simpa [extremeOk] using hmax

example : aggregate (fun s n => (s / n).toNat) [⟨0, 1, some 4⟩, ⟨1, 2, none⟩, ⟨2, 3, some (-2)⟩, ⟨3, 9, some 10⟩]
    = { count := 4, sum := 12, avg := some 4, min := some (-2), max := some 10 } := by decide

/-! ## WindowedStream::new, tumbling -/

/-- Tumbling `WindowedStream::new` partitions the events by aligned start: windows are listed by strictly
increasing (hence pairwise distinct) start; each is an aligned interval `[s, s + d)` holding exactly the
events whose aligned start is `s`, in arrival order, minus what the cap pushed out oldest-first; no window
is empty of such events; every event has its window. -/
theorem windowed_stream_partition (d cap : Nat) (es : List Ev) (ws : List TW) (hd : 1 ≤ d)
    (h : wsTumbling d cap es = some ws) :
    (ws.map (·.start)).Pairwise (· < ·)
    ∧ (∀ w ∈ ws, w.start / d * d = w.start ∧ w.stop = w.start + d
        ∧ w.events = popOver cap (es.filter (fun x => decide (x.ts / d * d = w.start)))
        ∧ ∃ x ∈ es, x.ts / d * d = w.start)
    ∧ (∀ x ∈ es, ∃ w ∈ ws, w.start = x.ts / d * d) :=
  ws_windows_spec d cap es ws hd h

theorem ws_model_meets_spec (div : Int → Nat → Nat) (d cap : Nat) (es : List Ev) (ws : List TW) (hd : 1 ≤ d)
    (h : wsTumbling d cap es = some ws) : wsOk div d cap es (ws.map (TW.wobs div)) = true :=
  ws_ok div d cap es ws hd h

/-- for `d ≥ 1` the constructor never fails; with a duration below 1 ms it divides by zero as soon as there is an event -/
theorem ws_defined_iff (d cap : Nat) (es : List Ev) :
    (wsTumbling d cap es = none) ↔ (d = 0 ∧ es ≠ []) := by
  unfold wsTumbling
  cases es with
  | nil => simp
  | cons e es => by_cases hd : d = 0 <;> simp [hd]

/-- non-vacuity: the hypotheses are met by a concrete out-of-order input (the resulting windows
`0:[1] 20:[2,3] 30:[4]` are what the driver prints for corpus case `WS T 10 2 25,5,27,21,30`) -/
example : ∃ ws, wsTumbling 10 2 [ev 0 25, ev 1 5, ev 2 27, ev 3 21, ev 4 30] = some ws ∧ (1 : Nat) ≤ 10 := by
  cases h : wsTumbling 10 2 [ev 0 25, ev 1 5, ev 2 27, ev 3 21, ev 4 30] with
  | none => exact absurd ((ws_defined_iff _ _ _).mp h).1 (by decide)
  | some ws => exact ⟨ws, rfl, by decide⟩

/-! ## WindowManager::process_event, tumbling -/

/-- One `process_event e` of a tumbling manager (`d ≥ 1`) in any reachable state: it does not fail; the
windows remain aligned intervals with strictly increasing — pairwise distinct — starts, at most `maxW`, none
ended at or before `e`; a window holds `e` only if it is the aligned interval of `e.ts`; and (unless
`maxW = 0` or `cap = 0`) that window exists and holds `e`. With distinct starts: exactly one window. -/
theorem manager_places_once {d : Nat} {m : WM} (hd : 1 ≤ d) (hm : MInv d m) (e : Ev) :
    ∃ m', m.process e = some m' ∧ MInv d m'
      ∧ (∀ w ∈ m'.windows, e.ts < w.stop)
      ∧ (∀ w ∈ m'.windows, ∀ x ∈ w.events, w.start = x.ts / d * d ∧ w.start ≤ x.ts ∧ x.ts < w.stop)
      ∧ (∀ w1 ∈ m'.windows, ∀ w2 ∈ m'.windows, e ∈ w1.events → e ∈ w2.events → w1.start = w2.start)
      ∧ (1 ≤ m.maxW → 1 ≤ m.cap → ∃ w ∈ m'.windows, w.start = e.ts / d * d ∧ e ∈ w.events) := by
  obtain ⟨m', h1, h2, _, _, h5, h6⟩ := process_spec hd hm e
  refine ⟨m', h1, h2, h5, ?_, ?_, h6⟩
  · intro w hw x hx
    have hs := holder_is_aligned h2 hw hx
    have := aligned_contains d x.ts hd
    rw [(h2.wins w hw).stop, hs]
    exact ⟨rfl, this.1, this.2⟩
  · intro w1 hw1 w2 hw2 he1 he2
    rw [holder_is_aligned h2 hw1 he1, holder_is_aligned h2 hw2 he2]

/-- the invariant holds initially and along every history: a tumbling manager never fails for `d ≥ 1` and
always holds aligned windows with strictly increasing starts, each holding only events of its own interval -/
theorem manager_invariant (d cap maxW : Nat) (hd : 1 ≤ d) (es : List Ev) :
    ∃ m', wmRun (WM.new .tumbling d cap maxW) es = some m' ∧ MInv d m' := by
  have h0 : MInv d (WM.new .tumbling d cap maxW) :=
    ⟨rfl, rfl, by simp [WM.new], by simp [WM.new], by simp [WM.new]⟩
  obtain ⟨m', h1, h2, _⟩ := wmRun_inv hd es _ h0
  exact ⟨m', h1, h2⟩

/-- **Every run of a tumbling manager (`d ≥ 1`) over distinct events satisfies every clause of the
observation-level step predicate `wmStepOk`** (the predicate the oracle evaluates on `active_windows` of the
implementation after each `process_event`): windows are aligned intervals listed by strictly increasing start,
at most `maxW`, none ended at or before the event; a window holds only events of its own interval; the aligned
window of `e` holds exactly its previous content plus `e` (last in arrival order), minus what the cap pushed
out oldest-first; every other window is an old window with its events untouched (none invented); unless
`maxW = 0` the aligned window exists; and `e` occurs exactly once over all windows (0 times iff `maxW = 0` or
`cap = 0`); aggregates of every window are the folds over its events. No hypothesis on `cap`, `maxW` or the
arrival order is needed: the `remove(0)`-before-sort quirk of the window limit removes whole old windows only
and never the one that just received `e`. -/
theorem wm_model_meets_spec (div : Int → Nat → Nat) (d cap maxW : Nat) (es : List Ev) (tr : List (List WObs))
    (hd : 1 ≤ d) (hnd : es.Nodup) (h : wmTrace div (WM.new .tumbling d cap maxW) es = some tr) :
    wmRunOk div d cap maxW [] es tr = true := by
  have h0 : MInv d (WM.new .tumbling d cap maxW) :=
    ⟨rfl, rfl, by simp [WM.new], by simp [WM.new], by simp [WM.new]⟩
  exact wm_trace_ok div hd es (WM.new .tumbling d cap maxW) [] tr h0
    (by intro w hw; simp [WM.new] at hw) hnd (by simp) h

/-- for `d ≥ 1` the trace is always defined (the manager never panics), so the theorem above is not vacuous -/
theorem wm_trace_defined (div : Int → Nat → Nat) (d cap maxW : Nat) (hd : 1 ≤ d) (es : List Ev) :
    ∃ tr, wmTrace div (WM.new .tumbling d cap maxW) es = some tr := by
  have h0 : MInv d (WM.new .tumbling d cap maxW) :=
    ⟨rfl, rfl, by simp [WM.new], by simp [WM.new], by simp [WM.new]⟩
  generalize WM.new .tumbling d cap maxW = m at h0
  induction es generalizing m with
  | nil => exact ⟨[], rfl⟩
  | cons e es ih =>
    obtain ⟨m', hp, hm', _⟩ := process_spec hd h0 e
    obtain ⟨rest, hr⟩ := ih m' hm'
    exact ⟨m'.windows.map (TW.wobs div) :: rest, by simp [wmTrace, hp, hr]⟩

def exM : WM :=
  { wtype := .tumbling, dur := 10, cap := 100, maxW := 100,
    windows := [ { wtype := .tumbling, dur := 10, start := 0, stop := 10, cap := 100, events := [ev 1 5] },
                 { wtype := .tumbling, dur := 10, start := 20, stop := 30, cap := 100, events := [ev 0 25] } ] }

/-- non-vacuity: a reachable state with two windows (a late event opened the older one) meets the invariant -/
example : MInv 10 exM := by
  refine ⟨rfl, rfl, ?_, by decide, by decide⟩
  intro w hw
  simp only [exM, List.mem_cons, List.not_mem_nil, or_false] at hw
  rcases hw with rfl | rfl
  · exact ⟨rfl, rfl, rfl, by decide, by decide, by decide⟩
  · exact ⟨rfl, rfl, rfl, by decide, by decide, by decide⟩

/-! ## StreamAlphaNode under an explicit clock -/

/-- Every run of `process_event` under any clock sequence (monotone or not) satisfies the node spec:
accepted iff stream/type match and the timestamp is in the window of `now`; nothing outside the window
is retained; nothing inside is missing except what the cap (counted on arrival) pushed out oldest-first. -/
theorem alpha_model_meets_spec (w : AWin) (cap : Nat) (hv : w.valid) (ops : List ANOp) (tr : List ANObs)
    (h : anTrace { window := w, cap := cap, events := [] } ops = some tr) :
    anRunOk w cap [] ops tr = true :=
  an_trace_ok ops { window := w, cap := cap, events := [] } tr hv h

/-- with a valid window (tumbling duration ≥ 1 ms) the node never divides by zero -/
theorem alpha_never_fails (w : AWin) (cap : Nat) (hv : w.valid) (ops : List ANOp) :
    ∃ tr, anTrace { window := w, cap := cap, events := [] } ops = some tr :=
  an_trace_some ops _ hv

/-- Sliding node, one accepted event at clock `now`, any prior buffer: the buffer afterwards is exactly the
capped arrival sequence filtered by `now − d ≤ ts`; in particular nothing older than the window stays. -/
theorem alpha_sliding_retains_exactly (d cap now : Nat) (buf : List Ev) (e : Ev)
    (hin : now - d ≤ e.ts ∧ e.ts ≤ now) :
    ∃ a', ({ window := .sliding d, cap := cap, events := buf } : Alpha).process now true e = some (a', true)
      ∧ a'.events = ((buf ++ [e]).drop ((buf ++ [e]).length - cap)).filter (fun x => decide (now - d ≤ x.ts))
      ∧ (∀ x ∈ a'.events, now - d ≤ x.ts)
      ∧ (1 ≤ cap → e ∈ a'.events) := by
  refine ⟨{ window := .sliding d, cap := cap,
            events := (popOver cap (buf ++ [e])).filter ((AWin.sliding d).keeps now) },
          by simp [Alpha.process, AWin.accepts, hin], ?_, ?_, ?_⟩
  · simp only [popOver_eq_drop]; rfl
  · intro x hx
    have := (List.mem_filter.mp hx).2
    simpa [AWin.keeps] using this
  · intro hc
    simp only
    rw [List.mem_filter]
    exact ⟨mem_popOver_last _ _ hc, by simp [AWin.keeps, hin.1]⟩

/-- Tumbling node (`d ≥ 1`): the accepted event is retained (cap ≥ 1) and the buffer holds only events of the
aligned interval of `now`. -/
theorem alpha_tumbling_holds_current (d cap now : Nat) (buf : List Ev) (e : Ev) (hd : 1 ≤ d)
    (hin : e.ts / d = now / d) :
    ∃ a', ({ window := .tumbling d, cap := cap, events := buf } : Alpha).process now true e = some (a', true)
      ∧ (∀ x ∈ a'.events, x.ts / d = now / d)
      ∧ (1 ≤ cap → e ∈ a'.events) := by
  have hacc := accepts_eq (w := .tumbling d) hd now e.ts
  have hin' : AWin.inSpan (.tumbling d) now e.ts = true := by simp [AWin.inSpan, hin]
  have hk := keeps_eq (w := .tumbling d) hd now
  refine ⟨{ window := .tumbling d, cap := cap,
            events := (popOver cap (buf ++ [e])).filter ((AWin.tumbling d).keeps now) },
          by simp only [Alpha.process, if_true, hacc, hin'], ?_, ?_⟩
  · intro x hx
    have := (List.mem_filter.mp hx).2
    rw [hk] at this
    simpa [AWin.live] using this
  · intro hc
    simp only
    rw [List.mem_filter, hk]
    exact ⟨mem_popOver_last _ _ hc, by simp [AWin.live, hin]⟩

/-- the sliding statement for the node as it was before fix-C12 … -/
def alpha_front_only_full : Prop :=
  ∀ (a : AlphaOld) (d now : Nat) (e : Ev) (a' : AlphaOld), a.window = .sliding d →
    a.process now true e = some (a', true) → ∀ x ∈ a'.events, now - d ≤ x.ts

def oldS : AlphaOld := { window := .sliding 50, cap := 100, events := [ev 0 290, ev 1 260], lastStart := 0 }

/-- … is false (F-C12 in `StreamAlphaNode`: 260 hides behind 290 when the clock reaches 340, d = 50) -/
theorem alpha_front_only_counterexample : ¬ alpha_front_only_full := by
  intro h
  have := h oldS 50 340 (ev 2 335) { oldS with events := [ev 0 290, ev 1 260, ev 2 335] } rfl (by decide)
    (ev 1 260) (by decide)
  exact absurd this (by decide)

/-- the tumbling statement for the node as it was before fix-C12b … -/
def alpha_tumbling_old_full : Prop :=
  ∀ (a : AlphaOld) (d now : Nat) (e : Ev) (a' : AlphaOld), a.window = .tumbling d → 1 ≤ d → 1 ≤ a.cap →
    a.process now true e = some (a', true) → e ∈ a'.events

def oldT : AlphaOld := { window := .tumbling 10, cap := 100, events := [ev 0 101, ev 1 103], lastStart := 100 }

/-- … is false (F-C12b: the first event of a new window is accepted and then cleared with the old window) -/
theorem alpha_tumbling_old_counterexample : ¬ alpha_tumbling_old_full := by
  intro h
  have := h oldT 10 111 (ev 2 112) { oldT with events := [], lastStart := 110 } rfl (by decide) (by decide) (by decide)
  exact absurd this (by decide)

example : (anTrace { window := .tumbling 10, cap := 100, events := [] }
    [⟨100, true, ev 0 101⟩, ⟨105, true, ev 1 103⟩, ⟨111, true, ev 2 112⟩, ⟨115, true, ev 3 99⟩]).map
    (·.map fun o => (o.ret, o.events.map (·.id)))
    = some [(true, [0]), (true, [0, 1]), (true, [2]), (false, [2])] := by decide

/-! ## WindowManager::process_event, sliding and session mode (fixed windows, first fit) -/

theorem finv_new (t : WType) (ht : t ≠ .tumbling) (d cap maxW : Nat) : FInv t d (WM.new t d cap maxW) :=
  ⟨rfl, ht, rfl, by simp [WM.new], by simp [WM.new], by simp [WM.new]⟩

/-- **Every run of a sliding or session manager (`d ≥ 1`) over distinct events satisfies every clause of the
observation-level step predicate `wmfStepOk`**: windows have the fixed span `[start, start + d)`, are listed by
strictly increasing start, at most `maxW`; no window holds an event outside its span; windows that ended at or
before the event's time are gone; the event goes to exactly one window — the first (smallest start) previous
window whose span contains its timestamp, else a new window that starts at its timestamp — which afterwards
holds its previous content plus `e` minus what the cap pushed out oldest-first; every other window is an old
window, untouched; a window that has not ended is dropped only when the window limit is reached; aggregates of
every window are the folds over its events. `t` is `.sliding` or `.session` (the code treats them alike). -/
theorem wm_fixed_model_meets_spec (div : Int → Nat → Nat) (t : WType) (ht : t ≠ .tumbling) (d cap maxW : Nat)
    (es : List Ev) (tr : List (List WObs)) (hd : 1 ≤ d) (hnd : es.Nodup)
    (h : wmTrace div (WM.new t d cap maxW) es = some tr) :
    wmfRunOk div d cap maxW [] es tr = true :=
  wmf_trace_ok div hd es (WM.new t d cap maxW) [] tr (finv_new t ht d cap maxW)
    (by intro w hw; simp [WM.new] at hw) hnd (by simp) h

/-- … and the trace is always defined (these modes never panic), so the theorem above is not vacuous -/
theorem wm_fixed_trace_defined (div : Int → Nat → Nat) (t : WType) (ht : t ≠ .tumbling) (d cap maxW : Nat)
    (hd : 1 ≤ d) (es : List Ev) : ∃ tr, wmTrace div (WM.new t d cap maxW) es = some tr :=
  wmf_trace_defined div hd es _ (finv_new t ht d cap maxW)

/-- the first window whose span contains `ts` has the smallest start of all such windows -/
theorem tgt_min {ws : List TW} (hs : (ws.map (·.start)).Pairwise (· < ·)) (ts : Nat) {w0 : TW} (hw0 : w0 ∈ ws)
    (hc : w0.contains ts = true) : tgt ws ts ≤ w0.start := by
  unfold tgt
  cases hh : holder ws ts with
  | none =>
    unfold holder at hh
    rw [List.find?_eq_none] at hh
    exact absurd hc (by simpa using hh w0 hw0)
  | some h =>
    unfold holder at hh
    obtain ⟨_, as, bs, hl, hno⟩ := List.find?_eq_some_iff_append.mp hh
    rw [hl, List.mem_append] at hw0
    rcases hw0 with hw0 | hw0
    · exact absurd hc (by simpa using hno w0 hw0)
    · rcases List.mem_cons.mp hw0 with rfl | hw0
      · exact Nat.le_refl _
      · rw [hl, List.map_append, List.pairwise_append] at hs
        have := hs.2.1
        rw [List.map_cons, List.pairwise_cons] at this
        exact Nat.le_of_lt (this.1 _ (List.mem_map_of_mem hw0))

/-- One `process_event e` of a sliding/session manager (`d ≥ 1`) in any reachable state, `e` not seen before:
it does not fail and keeps the invariant; no window holds an event outside its span; no window has ended at or
before `e`; `e` sits in at most one window; and (unless `maxW = 0` or `cap = 0`) it sits in one whose span
contains its timestamp, which is — first fit — the earliest-starting previous window whose span contains the
timestamp, or a window that starts exactly at the timestamp when there was none. -/
theorem manager_fixed_places_once {t : WType} {d : Nat} {m : WM} (hd : 1 ≤ d) (hm : FInv t d m) (e : Ev)
    (hfresh : ∀ w ∈ m.windows, e ∉ w.events) :
    ∃ m', m.process e = some m' ∧ FInv t d m'
      ∧ (∀ w ∈ m'.windows, ∀ x ∈ w.events, w.start ≤ x.ts ∧ x.ts < w.stop)
      ∧ (∀ w ∈ m'.windows, e.ts < w.stop)
      ∧ (∀ w1 ∈ m'.windows, ∀ w2 ∈ m'.windows, e ∈ w1.events → e ∈ w2.events → w1 = w2)
      ∧ (1 ≤ m.maxW → 1 ≤ m.cap →
          ∃ w ∈ m'.windows, e ∈ w.events ∧ w.start ≤ e.ts ∧ e.ts < w.stop
            ∧ (∀ w0 ∈ m.windows, w0.start ≤ e.ts → e.ts < w0.stop → w.start ≤ w0.start)
            ∧ ((∀ w0 ∈ m.windows, ¬ (w0.start ≤ e.ts ∧ e.ts < w0.stop)) → w.start = e.ts)) := by
  obtain ⟨m', hp, hm', _, _, hexp, hcls, hex, _, hlo, hhi⟩ := fprocess_full hd hm e
  have hdist' := distinct_of_sorted hm'.sorted
  have hstart : ∀ w ∈ m'.windows, e ∈ w.events → w.start = tgt m.windows e.ts := by
    intro w hw he
    rcases hcls w hw with ⟨h1, _⟩ | ⟨_, h2⟩
    · exact h1
    · exact absurd he (hfresh w h2)
  refine ⟨m', hp, hm', fun w hw => (hm'.wins w hw).inside, hexp, ?_, ?_⟩
  · intro w1 hw1 w2 hw2 h1 h2
    exact eq_of_start_eq hdist' hw1 hw2 ((hstart w1 hw1 h1).trans (hstart w2 hw2 h2).symm)
  · intro hmax hcap
    obtain ⟨w, hw, hs⟩ := hex hmax
    have hst := (hm'.wins w hw).stop
    refine ⟨w, hw, ?_, by omega, by omega, ?_, ?_⟩
    · rcases hcls w hw with ⟨_, h2⟩ | ⟨h1, _⟩
      · rw [h2]; exact mem_popOver_last _ _ hcap
      · exact absurd hs h1
    · intro w0 hw0 h1 h2
      rw [hs]
      exact tgt_min hm.sorted e.ts hw0 (by simp [TW.contains, h1, h2])
    · intro hnone
      rw [hs]
      rcases tgt_cases m.windows e.ts with ⟨h, hmem, _, h2, _⟩ | ⟨_, h2, _⟩
      · exfalso
        apply hnone h hmem
        simpa [TW.contains] using h2
      · exact h2

/-- the invariant holds initially and along every history: a sliding/session manager never fails for `d ≥ 1` and
always holds fixed-span windows with strictly increasing starts, each holding only events of its own span -/
theorem manager_fixed_invariant (t : WType) (ht : t ≠ .tumbling) (d cap maxW : Nat) (hd : 1 ≤ d) (es : List Ev) :
    ∃ m', wmRun (WM.new t d cap maxW) es = some m' ∧ FInv t d m' := by
  have h0 := finv_new t ht d cap maxW
  generalize WM.new t d cap maxW = m at h0
  induction es generalizing m with
  | nil => exact ⟨m, rfl, h0⟩
  | cons e es ih =>
    obtain ⟨m1, h1, hm1, _⟩ := fprocess_full hd h0 e
    obtain ⟨m2, h2, hm2⟩ := ih m1 hm1
    exact ⟨m2, by simp [wmRun, h1, h2], hm2⟩

/-- a concrete run (the kernel does not unfold `mergeSort`, so it is computed by rewriting): late event 5 opens
`[5,15)` before the older `[10,20)`; 12 then goes to `[5,15)` — first fit -/
theorem run_sliding_10_5_12 : wmRun (WM.new .sliding 10 100 100) [ev 0 10, ev 1 5, ev 2 12] = some
    { wtype := .sliding, dur := 10, cap := 100, maxW := 100,
      windows := [ { wtype := .sliding, dur := 10, start := 5, stop := 15, cap := 100, events := [ev 1 5, ev 2 12] },
                   { wtype := .sliding, dur := 10, start := 10, stop := 20, cap := 100, events := [ev 0 10] } ] } := by
  simp [wmRun, WM.process, WM.place, WM.tidy, WM.new, offer, windowStart, TW.new, TW.addEvent, TW.contains, popOver,
    sortByStart, List.mergeSort, ev, List.MergeSort.Internal.splitInTwo]

theorem run_session_0_3_6 : wmRun (WM.new .session 5 100 100) ([ev 0 0] ++ [ev 1 3, ev 2 6]) = some
    { wtype := .session, dur := 5, cap := 100, maxW := 100,
      windows := [ { wtype := .session, dur := 5, start := 6, stop := 11, cap := 100, events := [ev 2 6] } ] } := by
  simp [wmRun, WM.process, WM.place, WM.tidy, WM.new, offer, windowStart, TW.new, TW.addEvent, TW.contains, popOver,
    sortByStart, ev]

/-- What the sliding manager does **not** guarantee — "a window holds every retained event of its span": -/
def manager_sliding_span_complete_full : Prop :=
  ∀ (d cap maxW : Nat) (es : List Ev) (m' : WM), 1 ≤ d → es.Nodup →
    wmRun (WM.new .sliding d cap maxW) es = some m' →
    ∀ w ∈ m'.windows, ∀ x ∈ es, w.start ≤ x.ts → x.ts < w.stop → (∃ w' ∈ m'.windows, x ∈ w'.events) → x ∈ w.events

/-- … is false: windows overlap but the offering loop stops at the first window that accepts. Arrivals 10, 5, 12
with d = 10: 12 lies in `[10,20)` and in `[5,15)` and is put into `[5,15)` only (replayed on the Rust code:
corpus case `WM S 10 100 100 10:n1,5:n2,12:n3`). -/
theorem manager_sliding_span_complete_counterexample : ¬ manager_sliding_span_complete_full := by
  intro h
  have := h 10 100 100 [ev 0 10, ev 1 5, ev 2 12]
    { wtype := .sliding, dur := 10, cap := 100, maxW := 100,
      windows := [ { wtype := .sliding, dur := 10, start := 5, stop := 15, cap := 100, events := [ev 1 5, ev 2 12] },
                   { wtype := .sliding, dur := 10, start := 10, stop := 20, cap := 100, events := [ev 0 10] } ] }
    (by decide) (by decide) run_sliding_10_5_12
    { wtype := .sliding, dur := 10, start := 10, stop := 20, cap := 100, events := [ev 0 10] } (by decide)
    (ev 2 12) (by decide) (by decide) (by decide)
    ⟨_, List.mem_cons_self, by decide⟩
  exact absurd this (by decide)

/-- What the *session* manager does not guarantee — "an event that follows the previous arrival by less than the
duration/timeout stays in the same window": -/
def manager_session_gap_full : Prop :=
  ∀ (d cap maxW : Nat) (pre : List Ev) (x y : Ev) (m' : WM), 1 ≤ d → (pre ++ [x, y]).Nodup →
    wmRun (WM.new .session d cap maxW) (pre ++ [x, y]) = some m' →
    x.ts ≤ y.ts → y.ts - x.ts < d → 1 ≤ cap → 1 ≤ maxW →
    ∀ w ∈ m'.windows, y ∈ w.events → x ∈ w.events

/-- … is false: `WindowManager` never reads the session timeout; a session window is the fixed span
`[first, first + d)`. Arrivals 0, 3, 6 with d = 5: 6 follows 3 by 3 ms but opens a new window `[6,11)`, and the
window holding 0 and 3 is dropped as expired (corpus case `WM N 5 100 100 0:n1,3:n2,6:n3`). -/
theorem manager_session_gap_counterexample : ¬ manager_session_gap_full := by
  intro h
  have := h 5 100 100 [ev 0 0] (ev 1 3) (ev 2 6)
    { wtype := .session, dur := 5, cap := 100, maxW := 100,
      windows := [ { wtype := .session, dur := 5, start := 6, stop := 11, cap := 100, events := [ev 2 6] } ] }
    (by decide) (by decide) run_session_0_3_6 (by decide) (by decide) (by decide) (by decide)
    _ List.mem_cons_self (by decide)
  exact absurd this (by decide)

/-! ## WindowedStream::new, sliding / session configuration -/

/-- The sliding/session constructor (any duration, cap, event list — after fix-C12c it always returns): windows
are listed by strictly increasing start; each is a point of the grid `min, min + step, … ≤ max`
(`step = max (d/2) 1`) with the span `[s, s + d)`; it holds **exactly** the events whose timestamp lies in its
span, in arrival order, minus what the cap pushed out oldest-first, and is not empty; every grid point whose span
holds an event has its window (cap ≥ 1); hence (d ≥ 1, cap ≥ 1) every event lies in the span of some window. -/
theorem windowed_stream_sliding_grid (t : WType) (d cap : Nat) (es : List Ev) :
    ((wsSliding t d cap es).map (·.start)).Pairwise (· < ·)
    ∧ (∀ w ∈ wsSliding t d cap es,
        minTs es ≤ w.start ∧ (w.start - minTs es) % wsStep d = 0 ∧ w.start ≤ maxTs es
        ∧ w.stop = w.start + d
        ∧ w.events = popOver cap (es.filter (inSpan w.start d))
        ∧ w.events ≠ [])
    ∧ (∀ s, minTs es ≤ s → s ≤ maxTs es → (s - minTs es) % wsStep d = 0 → 1 ≤ cap →
        (∃ x ∈ es, inSpan s d x = true) → ∃ w ∈ wsSliding t d cap es, w.start = s)
    ∧ (1 ≤ d → 1 ≤ cap → ∀ x ∈ es, ∃ w ∈ wsSliding t d cap es, w.start ≤ x.ts ∧ x.ts < w.stop) := by
  obtain ⟨h1, h2, h3⟩ := ws_sliding_spec t d cap es
  refine ⟨h1, h2, h3, ?_⟩
  intro hd hc x hx
  obtain ⟨s, b1, b2, b3, b4⟩ := grid_point_of_event hd hx
  obtain ⟨w, hw, hws⟩ := h3 s b1 b2 b3 hc ⟨x, hx, b4⟩
  refine ⟨w, hw, ?_⟩
  rw [(h2 w hw).2.2.2.1, hws]
  simpa [inSpan] using b4

/-- "every event is accepted by every window whose span contains its timestamp, and no window holds an event
outside its span" — the first half as long as the cap does not bind -/
theorem windowed_stream_sliding_exact (t : WType) (d cap : Nat) (es : List Ev) :
    (∀ w ∈ wsSliding t d cap es, ∀ x ∈ w.events, x ∈ es ∧ w.start ≤ x.ts ∧ x.ts < w.stop)
    ∧ (es.length ≤ cap → ∀ w ∈ wsSliding t d cap es, ∀ x ∈ es, w.start ≤ x.ts → x.ts < w.stop → x ∈ w.events) := by
  obtain ⟨_, h2, _⟩ := ws_sliding_spec t d cap es
  constructor
  · intro w hw x hx
    obtain ⟨_, _, _, a4, a5, _⟩ := h2 w hw
    rw [a5] at hx
    have := List.mem_filter.mp (mem_of_mem_popOver hx)
    refine ⟨this.1, ?_⟩
    rw [a4]
    simpa [inSpan] using this.2
  · intro hlen w hw x hx h1 h2'
    obtain ⟨_, _, _, a4, a5, _⟩ := h2 w hw
    rw [a5, popOver_of_le (Nat.le_trans (List.length_filter_le _ _) hlen), List.mem_filter]
    rw [a4] at h2'
    exact ⟨hx, by simp [inSpan, h1, h2']⟩

theorem wss_model_meets_spec (div : Int → Nat → Nat) (t : WType) (d cap : Nat) (es : List Ev) :
    wssOk div d cap es ((wsSliding t d cap es).map (TW.wobs div)) = true :=
  wss_ok div t d cap es

/-- termination, quantitatively: the loop of the fixed code runs at most `max_time − current_start + 1` times -/
theorem ws_grid_length (step : Nat) (hs : 0 < step) (cur mx : Nat) :
    (wsGrid step hs cur mx).length ≤ mx + 1 - cur := by
  fun_induction wsGrid step hs cur mx with
  | case1 cur h ih => simp only [List.length_cons]; omega
  | case2 cur h => simp

/-- **F-C12c** (before fix-C12c): with a duration of at most 1 ms — 1 ms is a legal `Duration` — the step
`window_ms / 2` is 0, the cursor never moves, and the loop guard `current_start <= max_time` still holds after
any number `n` of iterations: `WindowedStream::new` does not return for any non-empty input. -/
theorem ws_sliding_old_diverges (d : Nat) (es : List Ev) (n : Nat) (hd : d ≤ 1) :
    wsCursorOld d (minTs es) n ≤ maxTs es := by
  rw [wsCursorOld_stuck d _ n hd]; exact minTs_le_maxTs es

/-- non-vacuity: d = 1 (step 1 after the fix), d = 4 with overlap and a late event; d = 5 rounds the step down to 2 -/
example : (wsSliding .sliding 1 100 [ev 0 3, ev 1 5]).map (fun w => (w.start, w.stop, w.events.map (·.id)))
    = [(3, 4, [0]), (5, 6, [1])] := by decide +kernel
example : (wsSliding .session 4 100 [ev 0 7, ev 1 2, ev 2 5]).map (fun w => (w.start, w.stop, w.events.map (·.id)))
    = [(2, 6, [1, 2]), (4, 8, [0, 2]), (6, 10, [0])] := by decide +kernel
example : wsGrid (wsStep 5) (wsStep_pos 5) 1 9 = [1, 3, 5, 7, 9] := by decide +kernel

/-! ## StreamAlphaNode with a session window, explicit clock -/

/-- Every run of `process_event` of a session node under any clock sequence satisfies the session spec: every
event of the node's stream/type is accepted; closer than the timeout to the last arrival it joins the buffer
(cap: oldest out), a larger gap starts a new session holding it alone; and when the accepted event is itself older
than the timeout at the clock the buffer is emptied. -/
theorem alpha_session_model_meets_spec (timeout cap : Nat) (ops : List ANOp) :
    ansRunOk timeout cap none [] ops (ansTrace { timeout := timeout, cap := cap, events := [], last := none } ops) = true :=
  ans_trace_ok ops { timeout := timeout, cap := cap, events := [], last := none }

/-- In every reachable state the buffer is one session: consecutive retained events (arrival order) are at most
`timeout` apart (`saturating_sub`, as coded: a late event is 0 apart), the node's "last activity" is the timestamp
of the newest-arrived retained event, a closed session has an empty buffer, and the cap is respected. -/
theorem alpha_session_invariant (timeout cap : Nat) (ops : List ANOp) :
    let a := ansRun { timeout := timeout, cap := cap, events := [], last := none } ops
    (a.last = none → a.events = [])
    ∧ (∀ l, a.last = some l → ∀ x ∈ a.events.getLast?, x.ts = l)
    ∧ gapsOk timeout a.events = true
    ∧ a.events.length ≤ cap := by
  have h0 : SInv ({ timeout := timeout, cap := cap, events := [], last := none } : AlphaS) :=
    ⟨by simp, by simp, by simp [gapsOk], by simp⟩
  have hc : ∀ (ops : List ANOp) (a : AlphaS), (ansRun a ops).cap = a.cap ∧ (ansRun a ops).timeout = a.timeout := by
    intro ops
    induction ops with
    | nil => intro a; exact ⟨rfl, rfl⟩
    | cons op ops ih =>
      intro a
      obtain ⟨_, _, h3, h4⟩ := ans_step_ok a op
      have := ih (a.process op.now op.pass op.e).1
      simp only [ansRun]
      rw [this.1, this.2, h3, h4]; exact ⟨rfl, rfl⟩
  have h := sinv_run ops _ h0
  have hct := hc ops { timeout := timeout, cap := cap, events := [], last := none }
  refine ⟨h.closed, h.newest, ?_, ?_⟩
  · have := h.chain; rw [hct.2] at this; exact this
  · have := h.len; rw [hct.1] at this; exact this

/-- one accepted event, any prior state: a gap above the timeout leaves at most the new event; an event not older
than the timeout at the clock is retained (cap ≥ 1); an older one empties the buffer -/
theorem alpha_session_step (a : AlphaS) (now : Nat) (e : Ev) :
    (a.process now true e).2 = true
    ∧ (∀ l, a.last = some l → e.ts - l > a.timeout → ∀ x ∈ (a.process now true e).1.events, x = e)
    ∧ (now - e.ts ≤ a.timeout → 1 ≤ a.cap → e ∈ (a.process now true e).1.events)
    ∧ (now - e.ts > a.timeout → (a.process now true e).1.events = []) := by
  have hg : (a.gapReset e.ts).timeout = a.timeout ∧ (a.gapReset e.ts).cap = a.cap := by
    unfold AlphaS.gapReset
    cases a.last with
    | none => exact ⟨rfl, rfl⟩
    | some l => simp only; split <;> exact ⟨rfl, rfl⟩
  refine ⟨by simp [AlphaS.process], ?_, ?_, ?_⟩
  · intro l hl hgap x hx
    have hr : (a.gapReset e.ts).events = [] := by simp [AlphaS.gapReset, hl, hgap]
    simp only [AlphaS.process, if_true, AlphaS.expire, AlphaS.push, hr, List.nil_append] at hx
    split at hx
    · simp at hx
    · have := mem_of_mem_popOver hx
      simpa using this
  · intro hnow hcap
    have hno : ¬ now - e.ts > a.timeout := by omega
    simp only [AlphaS.process, if_true, AlphaS.expire, AlphaS.push, hg.1, hg.2, hno, if_false]
    exact mem_popOver_last _ _ hcap
  · intro hnow
    simp only [AlphaS.process, if_true, AlphaS.expire, AlphaS.push, hg.1, hnow, if_true]

/-- What the session node does **not** guarantee — "accepting an event never loses a live session": -/
def alpha_session_keeps_live_session_full : Prop :=
  ∀ (a : AlphaS) (now l : Nat) (e : Ev), SInv a → a.last = some l → now - l ≤ a.timeout → e.ts - l ≤ a.timeout →
    a.events.length < a.cap → ∀ x ∈ a.events, x ∈ (a.process now true e).1.events

def sessA : AlphaS := { timeout := 5, cap := 100, events := [ev 0 100, ev 1 101], last := some 101 }

/-- … is false: the node measures expiry from the timestamp of the event that *arrived* last. A late event
(ts 90 at clock 102, timeout 5) joins the live session 100, 101, becomes its "last activity", and the whole
session — the late event included — is then evicted as 12 ms idle
(replayed on the Rust code: corpus case `AN E 5 100 100@100:n1,101@101:n2,102@90:n3`). -/
theorem alpha_session_keeps_live_session_counterexample : ¬ alpha_session_keeps_live_session_full := by
  intro h
  have := h sessA 102 101 (ev 2 90) ⟨by decide, by decide, by decide, by decide⟩ rfl (by decide) (by decide) (by decide)
    (ev 0 100) (by decide)
  exact absurd this (by decide)

/-- non-vacuity: two sessions, a gap of exactly the timeout continues, timeout + 1 starts anew -/
example : (ansTrace { timeout := 5, cap := 100, events := [], last := none }
    [⟨100, true, ev 0 100⟩, ⟨105, true, ev 1 105⟩, ⟨111, true, ev 2 111⟩, ⟨112, true, ev 3 90⟩]).map
      (fun o => (o.ret, o.events.map (·.id)))
    = [(true, [0]), (true, [0, 1]), (true, [2]), (true, [])] := by decide

theorem wm_zero_process (t : WType) (ht : t ≠ .tumbling) (cap maxW : Nat) (e : Ev) :
    (WM.new t 0 cap maxW).process e = some (WM.new t 0 cap maxW) := by
  cases t with
  | tumbling => exact absurd rfl ht
  | sliding =>
    simp [WM.process, WM.place, WM.new, offer, windowStart, TW.new, TW.addEvent, TW.contains, WM.tidy, popOver, sortByStart]
  | session =>
    simp [WM.process, WM.place, WM.new, offer, windowStart, TW.new, TW.addEvent, TW.contains, WM.tidy, popOver, sortByStart]

/-- A sliding/session manager with a duration below 1 ms (`d = 0`) never holds a window — the window `[t, t)` opened
for an event refuses it and is cleaned up at once — and never panics; its runs satisfy `wmfRunOk` as well. -/
theorem wm_fixed_zero_duration (div : Int → Nat → Nat) (t : WType) (ht : t ≠ .tumbling) (cap maxW : Nat) (es : List Ev) :
    wmTrace div (WM.new t 0 cap maxW) es = some (es.map fun _ => [])
    ∧ wmfRunOk div 0 cap maxW [] es (es.map fun _ => []) = true := by
  induction es with
  | nil => exact ⟨rfl, rfl⟩
  | cons e es ih =>
    refine ⟨?_, ?_⟩
    · simp only [wmTrace, wm_zero_process t ht, ih.1, Option.map_some, List.map_cons]
      simp [WM.new]
    · simp only [List.map_cons, wmfRunOk, Bool.and_eq_true]
      refine ⟨?_, ih.2⟩
      simp [wmfStepOk, strictInc, occurrences]

/-! ## the other aggregates: First, Last, CountDistinct, CountBy, Percentile (0/25/50/75/100), StdDev-definedness -/

/-- the model of `Aggregator::aggregate` for these types meets the observation-level spec `agg2Ok` on every event list -/
theorem aggregates2_meet_spec (es : List AEv) : agg2Ok es (aggregate2 es) = true := aggregate2_ok es

/-- … spelled out: First/Last are the ids of the earliest/latest arrival; CountDistinct is the cardinality of the set
of values present (Number/Integer/String of one integer are three values); CountBy has exactly one entry per key that
occurs, carrying the number of its occurrences; a percentile `p ≤ 100` is `none` iff there is no numeric value and
otherwise the order statistic of rank `pctIndex p n`: a member of the values with at most that many values strictly
below it and more than that many at or below it. -/
theorem aggregates2_are_exact (es : List AEv) :
    aggFirst es = es.head?.map (·.id) ∧ aggLast es = es.getLast?.map (·.id)
    ∧ (∃ l : List FVal, l.Nodup ∧ (∀ v, v ∈ l ↔ (v ≠ .missing ∧ ∃ e ∈ es, e.v = v)) ∧ aggCountDistinct es = l.length)
    ∧ ((aggCountBy es).map (·.1)).Nodup
    ∧ (∀ p ∈ aggCountBy es, p.2 = (es.filterMap (·.v.key)).count p.1 ∧ 1 ≤ p.2)
    ∧ (∀ k ∈ es.filterMap (·.v.key), k ∈ (aggCountBy es).map (·.1))
    ∧ (∀ p, p ≤ 100 →
        (aggPercentile p es = none ↔ avals es = [])
        ∧ ∀ r, aggPercentile p es = some r →
            r ∈ avals es
            ∧ (avals es).countP (fun x => decide (x < r)) ≤ pctIndex p (avals es).length
            ∧ pctIndex p (avals es).length < (avals es).countP (fun x => decide (x ≤ r))) := by
  have hc := cinv_fold (es.filterMap (·.v.key)) [] [] ⟨by simp [ckeys], by simp, by simp⟩
  simp only [List.nil_append] at hc
  refine ⟨rfl, rfl, ?_, hc.nodup, hc.count, hc.cover, ?_⟩
  · refine ⟨dedup ((es.map (·.v)).filter (· ≠ .missing)), nodup_dedup _, ?_, rfl⟩
    intro v
    rw [mem_dedup, List.mem_filter, List.mem_map]
    constructor
    · rintro ⟨⟨e, he, rfl⟩, h2⟩
      exact ⟨by simpa using h2, e, he, rfl⟩
    · rintro ⟨h1, e, he, rfl⟩
      exact ⟨⟨e, he, rfl⟩, by simpa using h1⟩
  · intro p hp
    have hok := percentile_ok p hp es
    constructor
    · constructor
      · intro hn
        rw [hn] at hok
        simpa [pctOk] using hok
      · intro he
        simp [aggPercentile, he]
    · intro r hr
      rw [hr] at hok
      simp only [pctOk, rankOk, Bool.and_eq_true, List.contains_eq_mem, decide_eq_true_eq] at hok
      exact ⟨hok.2.1.1, hok.2.1.2, hok.2.2⟩

example : aggregate2 [⟨0, .num 3⟩, ⟨1, .int 3⟩, ⟨2, .str 3⟩, ⟨3, .missing⟩, ⟨4, .int (-2)⟩, ⟨5, .num 3⟩]
    = { first := some 0, last := some 5, distinct := 4, countBy := [(-2, 1), (3, 4)],
        pcts := [some (-2), some 3, some 3, some 3, some 3], stdDefined := true } := by
  simp [aggregate2, aggFirst, aggLast, aggCountDistinct, dedup, aggCountBy, bumpCount, FVal.key, sortByKey,
    aggPercentile, avals, FVal.numeric, sortInts, pctIndex, aggStdDevDefined, List.mergeSort,
    List.MergeSort.Internal.splitInTwo]

/-! ## min / max over all of f64 (`XV` cases): the fold meets the declarative oracle -/

/-- `TimeWindow::min` as coded (a left fold with `f64::min` from `None`, `xMin`) satisfies the oracle clause `xMinOk` that
the driver evaluates on the implementation's answers (`fail xv-min`, `xv-aggregator-min-max`, `xv-operators-min-max`), for EVERY
list of field views — any length, any mix of `±inf`, `±f64::MAX`, integers, NaN, non-numeric / missing fields:
`None` iff there is no numeric value, NaN iff every numeric value is NaN, otherwise a non-NaN member that is `≤` every
non-NaN member. -/
theorem xmin_meets_spec (vs : List (Option XNum)) : xMinOk vs (xMin vs) = true := xMin_ok vs

/-- the same for `TimeWindow::max` (`xMax`, fold with `f64::max`) and `xMaxOk` -/
theorem xmax_meets_spec (vs : List (Option XNum)) : xMaxOk vs (xMax vs) = true := xMax_ok vs

/-- the oracle clause determines the answer: whatever satisfies `xMinOk` / `xMaxOk` IS the model's answer (so the clause on
the implementation's observation is as strong as the diff against the fold) -/
theorem xextreme_unique (vs : List (Option XNum)) (r : Option XNum) :
    (xMinOk vs r = true → r = xMin vs) ∧ (xMaxOk vs r = true → r = xMax vs) :=
  ⟨fun h => xExtP_unique XNum.le_antisymm _ _ _ (by rwa [xMinOk, xExtremeOk_eq] at h)
      (by have := xMin_ok vs; rwa [xMinOk, xExtremeOk_eq] at this),
   fun h => xExtP_unique (fun a b h1 h2 => XNum.le_antisymm a b h2 h1) _ _ _ (by rwa [xMaxOk, xExtremeOk_eq] at h)
      (by have := xMax_ok vs; rwa [xMaxOk, xExtremeOk_eq] at this)⟩

-- non-vacuity: +inf, −inf, NaN, ±f64::MAX, a non-numeric field
example : xMin [some .pinf, some (.fin 3), none, some .nan, some .ninf, some .hi] = some .ninf
    ∧ xMax [some .pinf, some (.fin 3), none, some .nan, some .ninf, some .hi] = some .pinf := by decide
example : xMin [some .nan, some .pinf] = some .pinf ∧ xMax [some .ninf, some .nan] = some .ninf := by decide
example : xMin [some .nan, none, some .nan] = some .nan ∧ xMax [none] = none := by decide
example : xMin [some (.fin 1), some .lo, some (.fin (-2))] = some .lo ∧ xMax [some (.fin 1), some .hi] = some .hi := by decide
-- the clause rejects a wrong extreme, a NaN answer next to a number, and `None` for a window with a numeric value
example : xMinOk [some .pinf, some (.fin 3), some .nan] (some .pinf) = false
    ∧ xMinOk [some .pinf, some (.fin 3), some .nan] (some .nan) = false
    ∧ xMaxOk [some .ninf] none = false
    ∧ xMaxOk [some .ninf, some .nan] (some .ninf) = true := by decide

/-! ## durations that are not whole milliseconds -/

/-- The milliseconds the driver hands to the model for a duration token (`DurArg.ms`: `<n>` ↦ `n`, `u<n>` ↦ `n / 1000`) are
exactly `Duration::as_millis()` of the `Duration` the harness builds for that token (`from_millis(n)` / `from_micros(n)`), for
every `n`; and for `n : u64` the value fits the `as u64` cast every component applies. -/
theorem parseDur_truncates (a : DurArg) :
    a.ms = a.dur.asMillis ∧ (∀ n, (a = .millis n ∨ a = .micros n) → n < 2 ^ 64 → a.dur.asMillis < 2 ^ 64) := by
  cases a with
  | millis k =>
    refine ⟨(dur_millis_roundtrip k).symm, ?_⟩
    rintro n (h | h) hn
    · cases h; simp only [DurArg.dur]; rw [dur_millis_roundtrip]; exact hn
    · cases h
  | micros k =>
    refine ⟨(dur_micros_truncates k).symm, ?_⟩
    rintro n (h | h) hn
    · cases h
    · cases h; simp only [DurArg.dur]; rw [dur_micros_truncates]; omega

example : (DurArg.micros 2999).ms = 2 ∧ (DurArg.micros 2999).dur = ⟨0, 2999000⟩ ∧ (DurArg.micros 2999).dur.asMillis = 2
    ∧ (DurArg.micros 999).ms = 0 ∧ (DurArg.micros 1234567).dur = ⟨1, 234567000⟩ ∧ (DurArg.micros 1234567).ms = 1234
    ∧ (DurArg.millis 1500).dur = ⟨1, 500000000⟩ ∧ (DurArg.millis 1500).ms = 1500 := by decide

end C12
