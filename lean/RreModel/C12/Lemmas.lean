import RreModel.C12.Spec
/-
C12 — helper lemmas (core Lean only).
-/
namespace C12

/-! ### aligned intervals: `s = t / d * d` -/

theorem al_le (d t : Nat) : t / d * d ≤ t := Nat.div_mul_le_self t d

theorem al_lt (d t : Nat) (hd : 1 ≤ d) : t < t / d * d + d := by
  have h1 := Nat.div_add_mod t d
  have h2 := Nat.mod_lt t (show d > 0 by omega)
  rw [Nat.mul_comm]; omega

theorem al_unique (d t k : Nat) (h1 : k * d ≤ t) (h2 : t < k * d + d) : t / d = k := by
  have hd : 0 < d := by
    rcases Nat.eq_zero_or_pos d with h | h
    · subst h; omega
    · exact h
  apply Nat.div_eq_of_lt_le
  · exact h1
  · rw [Nat.add_mul]; simpa using h2

/-- a timestamp lies in the aligned interval of `now` iff both have the same quotient by `d` -/
theorem same_bucket_iff (d now ts : Nat) (hd : 1 ≤ d) :
    (now / d * d ≤ ts ∧ ts < now / d * d + d) ↔ ts / d = now / d := by
  constructor
  · intro ⟨h1, h2⟩; exact al_unique d ts (now / d) h1 h2
  · intro h; rw [← h]; exact ⟨al_le d ts, al_lt d ts hd⟩

theorem al_div (d t : Nat) (hd : 1 ≤ d) : t / d * d / d = t / d :=
  Nat.mul_div_cancel _ (by omega)

theorem al_mod (d t : Nat) : t / d * d % d = 0 := Nat.mul_mod_left _ _

theorem aligned_of_mod (d s : Nat) (h : s % d = 0) : s / d * d = s := by
  have := Nat.div_add_mod s d
  rw [Nat.mul_comm]; omega

/-! ### the cap loop -/

theorem popOver_eq_drop {α : Type} (cap : Nat) (l : List α) : popOver cap l = l.drop (l.length - cap) := by
  induction l with
  | nil => simp [popOver]
  | cons x xs ih =>
    simp only [popOver]
    split
    · rename_i h
      simp only [List.length_cons] at h ⊢
      have : xs.length + 1 - cap = (xs.length - cap) + 1 := by omega
      rw [ih, this, List.drop_succ_cons]
    · rename_i h
      simp only [List.length_cons] at h ⊢
      have : xs.length + 1 - cap = 0 := by omega
      rw [this]; rfl

theorem length_popOver {α : Type} (cap : Nat) (l : List α) : (popOver cap l).length = min cap l.length := by
  rw [popOver_eq_drop, List.length_drop]; omega

theorem popOver_sublist {α : Type} (cap : Nat) (l : List α) : (popOver cap l).Sublist l := by
  rw [popOver_eq_drop]; exact List.drop_sublist _ _

theorem mem_of_mem_popOver {α : Type} {cap : Nat} {l : List α} {x : α} (h : x ∈ popOver cap l) : x ∈ l :=
  (popOver_sublist cap l).subset h

theorem popOver_of_le {α : Type} {cap : Nat} {l : List α} (h : l.length ≤ cap) : popOver cap l = l := by
  rw [popOver_eq_drop]; have : l.length - cap = 0 := by omega
  rw [this]; rfl

theorem popOver_append_last {α : Type} {cap : Nat} (l : List α) (x : α) (h : 1 ≤ cap) :
    popOver cap (l ++ [x]) = popOver (cap - 1) l ++ [x] := by
  rw [popOver_eq_drop, popOver_eq_drop, List.length_append, List.length_singleton]
  have : l.length + 1 - cap = l.length - (cap - 1) := by omega
  rw [this, List.drop_append_of_le_length (by omega)]

theorem keptByCap_popOver (cap : Nat) (full : List Ev) : keptByCap cap full (popOver cap full) = true := by
  simp only [keptByCap, Bool.and_eq_true, beq_iff_eq, length_popOver, true_and]
  rw [popOver_eq_drop]; congr 1; omega

/-! ### aggregates -/

theorem foldl_add_eq (l : List Int) (a : Int) : l.foldl (· + ·) a = a + l.sum := by
  induction l generalizing a with
  | nil => simp
  | cons x xs ih => simp only [List.foldl_cons, List.sum_cons, ih]; omega

theorem aggSum_eq (es : List Ev) : aggSum es = (vals es).sum := by
  simp [aggSum, foldl_add_eq]

theorem aggAvg_eq (div : Int → Nat → Nat) (es : List Ev) :
    aggAvg div es = if (vals es).isEmpty then none else some (div (vals es).sum (vals es).length) := by
  simp [aggAvg, foldl_add_eq]

theorem foldMin_some (l : List Int) (m : Int) :
    ∃ r, l.foldl foldMin (some m) = some r ∧ r ≤ m ∧ (r = m ∨ r ∈ l) ∧ ∀ x ∈ l, r ≤ x := by
  induction l generalizing m with
  | nil => exact ⟨m, rfl, Int.le_refl _, Or.inl rfl, by simp⟩
  | cons x xs ih =>
    obtain ⟨r, h1, h2, h3, h4⟩ := ih (min m x)
    refine ⟨r, by simpa [foldMin] using h1, by omega, ?_, ?_⟩
    · rcases h3 with h3 | h3
      · by_cases hmx : m ≤ x
        · left; omega
        · right; simp; left; omega
      · right; simp [h3]
    · intro y hy
      rcases List.mem_cons.mp hy with rfl | hy
      · omega
      · exact h4 y hy

theorem foldMax_some (l : List Int) (m : Int) :
    ∃ r, l.foldl foldMax (some m) = some r ∧ m ≤ r ∧ (r = m ∨ r ∈ l) ∧ ∀ x ∈ l, x ≤ r := by
  induction l generalizing m with
  | nil => exact ⟨m, rfl, Int.le_refl _, Or.inl rfl, by simp⟩
  | cons x xs ih =>
    obtain ⟨r, h1, h2, h3, h4⟩ := ih (max m x)
    refine ⟨r, by simpa [foldMax] using h1, by omega, ?_, ?_⟩
    · rcases h3 with h3 | h3
      · by_cases hmx : x ≤ m
        · left; omega
        · right; simp; left; omega
      · right; simp [h3]
    · intro y hy
      rcases List.mem_cons.mp hy with rfl | hy
      · omega
      · exact h4 y hy

theorem aggMin_ok (es : List Ev) : extremeOk (fun m x => decide (m ≤ x)) (vals es) (aggMin es) = true := by
  unfold aggMin
  cases hv : vals es with
  | nil => simp [extremeOk]
  | cons x xs =>
    obtain ⟨r, h1, h2, h3, h4⟩ := foldMin_some xs x
    simp only [List.foldl_cons, foldMin, h1, extremeOk, Bool.and_eq_true, List.contains_eq_mem,
      decide_eq_true_eq, List.all_eq_true, List.mem_cons]
    refine ⟨?_, ?_⟩
    · rcases h3 with h3 | h3
      · exact Or.inl h3
      · exact Or.inr h3
    · intro y hy
      rcases hy with rfl | hy
      · exact h2
      · exact h4 y hy

theorem aggMax_ok (es : List Ev) : extremeOk (fun m x => decide (x ≤ m)) (vals es) (aggMax es) = true := by
  unfold aggMax
  cases hv : vals es with
  | nil => simp [extremeOk]
  | cons x xs =>
    obtain ⟨r, h1, h2, h3, h4⟩ := foldMax_some xs x
    simp only [List.foldl_cons, foldMax, h1, extremeOk, Bool.and_eq_true, List.contains_eq_mem,
      decide_eq_true_eq, List.all_eq_true, List.mem_cons]
    refine ⟨?_, ?_⟩
    · rcases h3 with h3 | h3
      · exact Or.inl h3
      · exact Or.inr h3
    · intro y hy
      rcases hy with rfl | hy
      · exact h2
      · exact h4 y hy

theorem aggregate_ok (div : Int → Nat → Nat) (es : List Ev) : aggOk div es (aggregate div es) = true := by
  simp only [aggOk, aggregate, Bool.and_eq_true, beq_iff_eq]
  exact ⟨⟨⟨⟨trivial, aggSum_eq es⟩, aggAvg_eq div es⟩, aggMin_ok es⟩, aggMax_ok es⟩

theorem aggregate_ok3 (div : Int → Nat → Nat) (es : List Ev) :
    aggOk3 div es (es.length, aggSum es, aggAvg div es) = true := by
  simp only [aggOk3, Bool.and_eq_true, beq_iff_eq]
  exact ⟨⟨trivial, aggSum_eq es⟩, aggAvg_eq div es⟩

/-! ### TimeWindow -/

structure TWInv (t : WType) (d cap : Nat) (w : TW) : Prop where
  wtype : w.wtype = t
  dur : w.dur = d
  cap : w.cap = cap

theorem tw_new_inv (t : WType) (d s cap : Nat) : TWInv t d cap (TW.new t d s cap) := ⟨rfl, rfl, rfl⟩

theorem tw_step_inv {t d cap w} (h : TWInv t d cap w) (op : TWOp) : TWInv t d cap (w.step op).1 := by
  obtain ⟨h1, h2, h3⟩ := h
  cases op with
  | add e =>
    simp only [TW.step, TW.addEvent]
    split <;> exact ⟨h1, h2, h3⟩
  | record e =>
    simp only [TW.step, TW.record, TW.slide]
    split <;> exact ⟨h1, h2, h3⟩

theorem slide_events (w : TW) (now : Nat) : (w.slide now).events = w.events := by
  unfold TW.slide; split <;> rfl

theorem slide_cap (w : TW) (now : Nat) : (w.slide now).cap = w.cap := by
  unfold TW.slide; split <;> rfl

theorem record_events (w : TW) (e : Ev) :
    (w.record e).events
      = popOver w.cap ((w.events ++ [e]).filter (fun x => decide ((w.record e).start ≤ x.ts))) := by
  simp only [TW.record, slide_events, slide_cap]

theorem record_young (w : TW) (e : Ev) : ∀ x ∈ (w.record e).events, decide ((w.record e).start ≤ x.ts) = true := by
  intro x hx
  rw [record_events] at hx
  exact (List.mem_filter.mp (mem_of_mem_popOver hx)).2

theorem obs_aggs_ok (div : Int → Nat → Nat) (r : Bool) (w : TW) :
    ((w.obs div r).aggs.all (aggOk div (w.obs div r).events) && aggOk3 div (w.obs div r).events (w.obs div r).agg3) = true := by
  simp [TW.obs, aggregate_ok, aggregate_ok3]

theorem tw_step_ok (div : Int → Nat → Nat) {t d cap w} (h : TWInv t d cap w) (o : TWObs)
    (ho : o.start = w.start ∧ o.stop = w.stop ∧ o.events = w.events) (op : TWOp) :
    twStepOk div t d cap o op ((w.step op).1.obs div (w.step op).2) = true := by
  obtain ⟨h1, h2, h3⟩ := h
  obtain ⟨e1, e2, e3⟩ := ho
  unfold twStepOk
  rw [Bool.and_assoc, obs_aggs_ok, Bool.and_true, e1, e2, e3]
  cases op with
  | add e =>
    simp only [TW.step, TW.addEvent, TW.contains, Bool.and_eq_true, decide_eq_true_eq]
    by_cases hc : w.start ≤ e.ts ∧ e.ts < w.stop
    · simp [hc, TW.obs, h3, keptByCap_popOver]
    · simp [hc, TW.obs]
  | record e =>
    subst h1 h2 h3
    simp only [TW.step, TW.obs, Bool.and_eq_true]
    refine ⟨⟨⟨trivial, ?_⟩, ?_⟩, ?_⟩
    · by_cases hs : w.wtype = .sliding
      · simp [TW.record, TW.slide, hs]
      · simp [TW.record, TW.slide, hs]
    · rw [List.all_eq_true]
      intro x hx
      exact record_young w e x hx
    · rw [record_events]; exact keptByCap_popOver _ _

theorem tw_trace_ok (div : Int → Nat → Nat) {t d cap} (ops : List TWOp) (w : TW) (o : TWObs)
    (ho : o.start = w.start ∧ o.stop = w.stop ∧ o.events = w.events)
    (h : TWInv t d cap w) : twRunOk div t d cap o ops (twTrace div w ops) = true := by
  induction ops generalizing w o with
  | nil => simp [twTrace, twRunOk]
  | cons op ops ih =>
    simp only [twTrace, twRunOk, Bool.and_eq_true]
    exact ⟨tw_step_ok div h o ho op, ih _ _ ⟨rfl, rfl, rfl⟩ (tw_step_inv h op)⟩

/-! ### StreamAlphaNode -/

/-- a tumbling window needs a duration of at least 1 ms (below that the code divides by zero) -/
def AWin.valid : AWin → Prop
  | .tumbling d => 1 ≤ d
  | _ => True

theorem accepts_eq {w : AWin} (hv : w.valid) (now ts : Nat) : w.accepts now ts = some (w.inSpan now ts) := by
  cases w with
  | none => rfl
  | sliding d => rfl
  | tumbling d =>
    have hd : 1 ≤ d := hv
    have hd0 : d ≠ 0 := by omega
    simp only [AWin.accepts, hd0, if_false, AWin.inSpan, Option.some.injEq]
    rw [Bool.eq_iff_iff]
    simp only [Bool.and_eq_true, decide_eq_true_eq, beq_iff_eq]
    exact same_bucket_iff d now ts hd

theorem keeps_eq {w : AWin} (hv : w.valid) (now : Nat) : w.keeps now = fun x => w.live now x.ts := by
  funext x
  cases w with
  | none => rfl
  | sliding d => rfl
  | tumbling d =>
    have hd : 1 ≤ d := hv
    simp only [AWin.keeps, AWin.live]
    rw [Bool.eq_iff_iff]
    simp only [Bool.and_eq_true, decide_eq_true_eq, beq_iff_eq]
    exact same_bucket_iff d now x.ts hd

theorem an_step_ok {a a' : Alpha} {r : Bool} (hv : a.window.valid) (op : ANOp)
    (h : a.process op.now op.pass op.e = some (a', r)) :
    anStepOk a.window a.cap a.events op { ret := r, events := a'.events } = true
    ∧ a'.window = a.window ∧ a'.cap = a.cap := by
  unfold Alpha.process at h
  rw [accepts_eq hv] at h
  unfold anStepOk
  cases hp : op.pass with
  | false =>
    simp only [hp] at h
    simp only [Bool.false_eq_true, if_false, Option.some.injEq, Prod.mk.injEq] at h
    obtain ⟨rfl, rfl⟩ := h
    simp
  | true =>
    simp only [hp, if_true] at h
    cases hin : a.window.inSpan op.now op.e.ts with
    | false =>
      simp only [hin, Option.some.injEq, Prod.mk.injEq] at h
      obtain ⟨rfl, rfl⟩ := h
      simp
    | true =>
      simp only [hin, Option.some.injEq, Prod.mk.injEq] at h
      obtain ⟨rfl, rfl⟩ := h
      simp only [Bool.and_self, beq_self_eq_true, if_true, Bool.true_and, and_self, and_true]
      rw [keeps_eq hv, popOver_eq_drop]
      simp

theorem an_trace_ok (ops : List ANOp) (a : Alpha) (tr : List ANObs) (hv : a.window.valid)
    (h : anTrace a ops = some tr) : anRunOk a.window a.cap a.events ops tr = true := by
  induction ops generalizing a tr with
  | nil => simp [anTrace] at h; subst h; simp [anRunOk]
  | cons op ops ih =>
    simp only [anTrace] at h
    cases hp : a.process op.now op.pass op.e with
    | none => simp [hp] at h
    | some p =>
      obtain ⟨a', r⟩ := p
      simp only [hp] at h
      cases ht : anTrace a' ops with
      | none => simp [ht] at h
      | some rest =>
        simp only [ht, Option.map_some, Option.some.injEq] at h
        subst h
        obtain ⟨h1, h2, h3⟩ := an_step_ok hv op hp
        simp only [anRunOk, Bool.and_eq_true]
        refine ⟨h1, ?_⟩
        have := ih a' rest (h2 ▸ hv) ht
        rw [h2, h3] at this
        exact this

theorem an_process_some {a : Alpha} (hv : a.window.valid) (op : ANOp) :
    ∃ p, a.process op.now op.pass op.e = some p := by
  unfold Alpha.process
  rw [accepts_eq hv]
  cases op.pass <;> cases a.window.inSpan op.now op.e.ts <;> simp

theorem an_trace_some (ops : List ANOp) (a : Alpha) (hv : a.window.valid) : ∃ tr, anTrace a ops = some tr := by
  induction ops generalizing a with
  | nil => exact ⟨[], rfl⟩
  | cons op ops ih =>
    obtain ⟨⟨a', r⟩, hp⟩ := an_process_some hv op
    have hw : a'.window = a.window := (an_step_ok hv op hp).2.1
    obtain ⟨rest, hr⟩ := ih a' (hw ▸ hv)
    exact ⟨{ ret := r, events := a'.events } :: rest, by simp [anTrace, hp, hr]⟩

/-! ### more on the cap loop; sorting -/

theorem popOver_popOver_append {α : Type} (cap : Nat) (l m : List α) :
    popOver cap (popOver cap l ++ m) = popOver cap (l ++ m) := by
  simp only [popOver_eq_drop, List.length_append, List.length_drop]
  rw [← List.drop_append_of_le_length (by omega : l.length - cap ≤ l.length), List.drop_drop]
  congr 1; omega

theorem strictInc_of_pairwise : ∀ (l : List Nat), l.Pairwise (· < ·) → strictInc l = true
  | [], _ => rfl
  | [_], _ => rfl
  | a :: b :: rest, h => by
    rw [List.pairwise_cons] at h
    simp only [strictInc, Bool.and_eq_true, decide_eq_true_eq]
    exact ⟨h.1 b (by simp), strictInc_of_pairwise (b :: rest) h.2⟩

theorem sortByStart_perm (ws : List TW) : (sortByStart ws).Perm ws := List.mergeSort_perm _ _

theorem mem_sortByStart {ws : List TW} {w : TW} : w ∈ sortByStart ws ↔ w ∈ ws :=
  (sortByStart_perm ws).mem_iff

/-- sorting windows with pairwise distinct starts lists them by strictly increasing start -/
theorem sortByStart_strict (ws : List TW) (hn : ws.Pairwise (fun a b => a.start ≠ b.start)) :
    ((sortByStart ws).map (·.start)).Pairwise (· < ·) := by
  have hs : (sortByStart ws).Pairwise (fun a b => decide (a.start ≤ b.start) = true) :=
    List.pairwise_mergeSort (le := fun a b : TW => decide (a.start ≤ b.start))
      (by intro a b c h1 h2; simp only [decide_eq_true_eq] at *; omega)
      (by intro a b; simp only [Bool.or_eq_true, decide_eq_true_eq]; omega) ws
  have hn' : (sortByStart ws).Pairwise (fun a b => a.start ≠ b.start) :=
    ((sortByStart_perm ws).pairwise_iff (fun h => Ne.symm h)).mpr hn
  rw [List.pairwise_map]
  refine (hs.and hn').imp ?_
  intro a b ⟨h1, h2⟩
  simp only [decide_eq_true_eq] at h1
  omega

/-! ### WindowedStream::new, tumbling -/

def keys (g : List (Nat × List Ev)) : List Nat := g.map (·.1)

theorem keys_addToGroup (k : Nat) (e : Ev) (g : List (Nat × List Ev)) :
    keys (addToGroup k e g) = if k ∈ keys g then keys g else keys g ++ [k] := by
  induction g with
  | nil => simp [addToGroup, keys]
  | cons p rest ih =>
    simp only [addToGroup]
    by_cases h : p.1 = k
    · simp [h, keys]
    · have h' : ¬ k = p.1 := fun h'' => h h''.symm
      simp only [h, if_false]
      simp only [keys, List.map_cons, List.mem_cons, h', false_or] at ih ⊢
      rw [ih]; by_cases hk : k ∈ List.map (fun x => x.fst) rest <;> simp [hk]

theorem addToGroup_other {k : Nat} {e : Ev} {g : List (Nat × List Ev)} {p : Nat × List Ev} (hp : p.1 ≠ k) :
    p ∈ addToGroup k e g ↔ p ∈ g := by
  induction g with
  | nil => simp only [addToGroup, List.mem_singleton, List.not_mem_nil, iff_false]; intro h; exact hp (h ▸ rfl)
  | cons q rest ih =>
    simp only [addToGroup]
    by_cases h : q.1 = k
    · simp only [h, if_true, List.mem_cons]
      constructor
      · rintro (h1 | h1)
        · exact absurd (h1 ▸ rfl : p.1 = k) hp
        · exact Or.inr h1
      · rintro (h1 | h1)
        · exact absurd (h1 ▸ h : p.1 = k) hp
        · exact Or.inr h1
    · simp only [h, if_false, List.mem_cons, ih]

theorem addToGroup_same {k : Nat} {e : Ev} {g : List (Nat × List Ev)} {p : Nat × List Ev}
    (hn : (keys g).Nodup) (hp : p.1 = k) (hm : p ∈ addToGroup k e g) :
    (∃ q ∈ g, q.1 = k ∧ p.2 = q.2 ++ [e]) ∨ (k ∉ keys g ∧ p.2 = [e]) := by
  induction g with
  | nil =>
    simp only [addToGroup, List.mem_singleton] at hm
    right; subst hm; simp [keys]
  | cons q rest ih =>
    simp only [keys, List.map_cons, List.nodup_cons] at hn
    simp only [addToGroup] at hm
    by_cases h : q.1 = k
    · simp only [h, if_true, List.mem_cons] at hm
      rcases hm with hm | hm
      · left; exact ⟨q, by simp, h, by rw [hm]⟩
      · exfalso; apply hn.1; rw [h, ← hp]; exact List.mem_map_of_mem hm
    · simp only [h, if_false, List.mem_cons] at hm
      rcases hm with hm | hm
      · exact absurd (hm ▸ hp) h
      · rcases ih hn.2 hm with ⟨q', hq', h1, h2⟩ | ⟨h1, h2⟩
        · left; exact ⟨q', List.mem_cons_of_mem _ hq', h1, h2⟩
        · right; refine ⟨?_, h2⟩
          simp only [keys, List.map_cons, List.mem_cons, not_or]
          exact ⟨fun hk => h hk.symm, h1⟩

/-- what the grouping loop maintains: one group per aligned start seen, holding exactly the events of that
interval in arrival order -/
structure GInv (d : Nat) (seen : List Ev) (g : List (Nat × List Ev)) : Prop where
  nodup : (keys g).Nodup
  content : ∀ p ∈ g, p.2 = seen.filter (fun x => decide (x.ts / d * d = p.1))
  cover : ∀ x ∈ seen, x.ts / d * d ∈ keys g
  used : ∀ p ∈ g, ∃ x ∈ seen, x.ts / d * d = p.1

theorem ginv_step {d : Nat} {seen : List Ev} {g : List (Nat × List Ev)} (h : GInv d seen g) (e : Ev) :
    GInv d (seen ++ [e]) (addToGroup (e.ts / d * d) e g) := by
  obtain ⟨hn, hc, hv, hu⟩ := h
  have hkeys := keys_addToGroup (e.ts / d * d) e g
  constructor
  · rw [hkeys]; split
    · exact hn
    · rename_i hk
      rw [List.nodup_append]
      exact ⟨hn, by simp, by intro a ha b hb; simp at hb; subst hb; intro hab; exact hk (hab ▸ ha)⟩
  · intro p hp
    by_cases hpk : p.1 = e.ts / d * d
    · rcases addToGroup_same hn hpk hp with ⟨q, hq, h1, h2⟩ | ⟨h1, h2⟩
      · rw [h2, hc q hq, List.filter_append, h1, hpk]; simp
      · rw [h2, List.filter_append, hpk]
        have : seen.filter (fun x => decide (x.ts / d * d = e.ts / d * d)) = [] := by
          rw [List.filter_eq_nil_iff]
          intro x hx; simp only [decide_eq_true_eq]; intro hxe; exact h1 (hxe ▸ hv x hx)
        rw [this]; simp
    · have hp' := (addToGroup_other hpk).mp hp
      rw [hc p hp', List.filter_append]
      have : ¬ e.ts / d * d = p.1 := fun h' => hpk h'.symm
      simp [this]
  · intro x hx
    rw [hkeys]
    rcases List.mem_append.mp hx with hx | hx
    · split
      · exact hv x hx
      · exact List.mem_append_left _ (hv x hx)
    · simp only [List.mem_singleton] at hx; subst hx
      split
      · assumption
      · simp
  · intro p hp
    by_cases hpk : p.1 = e.ts / d * d
    · exact ⟨e, by simp, hpk.symm⟩
    · obtain ⟨x, hx, hxp⟩ := hu p ((addToGroup_other hpk).mp hp)
      exact ⟨x, List.mem_append_left _ hx, hxp⟩

theorem ginv_fold {d : Nat} (es seen : List Ev) (g : List (Nat × List Ev)) (h : GInv d seen g) :
    GInv d (seen ++ es) (es.foldl (fun g e => addToGroup (e.ts / d * d) e g) g) := by
  induction es generalizing seen g with
  | nil => simpa using h
  | cons e es ih =>
    have := ih (seen ++ [e]) _ (ginv_step h e)
    simpa [List.append_assoc] using this

theorem ginv_group (d : Nat) (es : List Ev) : GInv d es (groupByStart d es) := by
  have := ginv_fold (d := d) es [] [] ⟨by simp [keys], by simp, by simp, by simp⟩
  simpa [groupByStart] using this

/-- filling a window with events of its own span: nothing is refused, the cap keeps the newest -/
theorem fillWindow_spec (es : List Ev) (w : TW) (h : ∀ e ∈ es, w.contains e.ts = true) :
    fillWindow w es = { w with events := popOver w.cap (w.events ++ es) } ∨ (es = [] ∧ fillWindow w es = w) := by
  induction es generalizing w with
  | nil => right; exact ⟨rfl, rfl⟩
  | cons e es ih =>
    left
    have he := h e (by simp)
    have hstep : (w.addEvent e).1 = { w with events := popOver w.cap (w.events ++ [e]) } := by
      simp [TW.addEvent, he]
    simp only [fillWindow, List.foldl_cons] at ih ⊢
    rw [hstep]
    rcases ih { w with events := popOver w.cap (w.events ++ [e]) } (fun x hx => by
        have := h x (List.mem_cons_of_mem _ hx); simpa [TW.contains] using this) with h1 | ⟨h1, h2⟩
    · rw [h1]; simp only [popOver_popOver_append, List.append_assoc, List.singleton_append]
    · subst h1; rw [h2]

theorem fillWindow_new (d s cap : Nat) (es : List Ev) (hd : 1 ≤ d)
    (h : ∀ e ∈ es, e.ts / d * d = s) :
    fillWindow (TW.new .tumbling d s cap) es
      = { wtype := .tumbling, dur := d, start := s, stop := s + d, cap := cap, events := popOver cap es } := by
  have hc : ∀ e ∈ es, (TW.new .tumbling d s cap).contains e.ts = true := by
    intro e he
    have h1 := al_le d e.ts
    have h2 := al_lt d e.ts hd
    rw [h e he] at h1 h2
    simp [TW.contains, TW.new, h1, h2]
  rcases fillWindow_spec es _ hc with h1 | ⟨h1, h2⟩
  · rw [h1]; simp [TW.new]
  · subst h1; rw [h2]; simp [TW.new, popOver]

theorem bucket_eq_iff (d s x : Nat) (hd : 1 ≤ d) (hs : s / d * d = s) : x / d * d = s ↔ x / d = s / d := by
  constructor
  · intro h; rw [← h, al_div d x hd]
  · intro h; rw [h, hs]

theorem filter_bucket (d s : Nat) (es : List Ev) (hd : 1 ≤ d) (hs : s / d * d = s) :
    es.filter (fun x => x.ts / d == s / d) = es.filter (fun x => decide (x.ts / d * d = s)) := by
  apply List.filter_congr
  intro x _
  rw [Bool.eq_iff_iff]
  simp only [beq_iff_eq, decide_eq_true_eq]
  exact (bucket_eq_iff d s x.ts hd hs).symm

theorem ws_windows_spec (d cap : Nat) (es : List Ev) (ws : List TW) (hd : 1 ≤ d)
    (h : wsTumbling d cap es = some ws) :
    (ws.map (·.start)).Pairwise (· < ·)
    ∧ (∀ w ∈ ws, w.start / d * d = w.start ∧ w.stop = w.start + d
        ∧ w.events = popOver cap (es.filter (fun x => decide (x.ts / d * d = w.start)))
        ∧ ∃ x ∈ es, x.ts / d * d = w.start)
    ∧ (∀ x ∈ es, ∃ w ∈ ws, w.start = x.ts / d * d) := by
  unfold wsTumbling at h
  by_cases he : es.isEmpty = true
  · simp only [he, if_true, Option.some.injEq] at h
    subst h
    have : es = [] := by simpa using he
    subst this
    simp
  · have hd0 : d ≠ 0 := by omega
    simp only [he, hd0, if_false, Bool.false_eq_true, Option.some.injEq] at h
    subst h
    have hG := ginv_group d es
    have hf : ∀ p ∈ groupByStart d es,
        fillWindow (TW.new .tumbling d p.1 cap) p.2
          = { wtype := .tumbling, dur := d, start := p.1, stop := p.1 + d, cap := cap, events := popOver cap p.2 } := by
      intro p hp
      apply fillWindow_new d p.1 cap p.2 hd
      intro e hem
      rw [hG.content p hp] at hem
      simpa using (List.mem_filter.mp hem).2
    refine ⟨?_, ?_, ?_⟩
    · apply sortByStart_strict
      rw [List.pairwise_map]
      have hk : (groupByStart d es).Pairwise (fun a b => a.1 ≠ b.1) := by
        have := hG.nodup
        simpa [keys, List.Nodup, List.pairwise_map] using this
      refine hk.imp_of_mem ?_
      intro a b ha hb hab
      rw [hf a ha, hf b hb]; exact hab
    · intro w hw
      rw [mem_sortByStart, List.mem_map] at hw
      obtain ⟨p, hp, rfl⟩ := hw
      rw [hf p hp]
      obtain ⟨x, hx, hxp⟩ := hG.used p hp
      refine ⟨?_, rfl, ?_, x, hx, hxp⟩
      · show p.1 / d * d = p.1
        rw [← hxp, al_div d x.ts hd]
      · show popOver cap p.2 = _
        rw [hG.content p hp]
    · intro x hx
      have := hG.cover x hx
      simp only [keys, List.mem_map] at this
      obtain ⟨p, hp, hpx⟩ := this
      refine ⟨_, mem_sortByStart.mpr (List.mem_map.mpr ⟨p, hp, rfl⟩), ?_⟩
      rw [hf p hp]; exact hpx

theorem ws_ok (div : Int → Nat → Nat) (d cap : Nat) (es : List Ev) (ws : List TW) (hd : 1 ≤ d)
    (h : wsTumbling d cap es = some ws) : wsOk div d cap es (ws.map (TW.wobs div)) = true := by
  obtain ⟨h1, h2, h3⟩ := ws_windows_spec d cap es ws hd h
  simp only [wsOk, Bool.and_eq_true, List.map_map]
  refine ⟨⟨?_, ?_⟩, ?_⟩
  · apply strictInc_of_pairwise
    simpa [Function.comp_def, TW.wobs] using h1
  · rw [List.all_eq_true]
    intro o ho
    rw [List.mem_map] at ho
    obtain ⟨w, hw, rfl⟩ := ho
    obtain ⟨ha, hb, hc, x, hx, hxw⟩ := h2 w hw
    simp only [TW.wobs, Bool.and_eq_true, beq_iff_eq, List.any_eq_true]
    refine ⟨⟨⟨⟨?_, hb⟩, ?_⟩, ?_⟩, aggregate_ok div _⟩
    · rw [← ha]; exact al_mod d _
    · rw [filter_bucket d w.start es hd ha, hc]; exact keptByCap_popOver _ _
    · exact ⟨x, hx, (bucket_eq_iff d w.start x.ts hd ha).mp hxw⟩
  · rw [List.all_eq_true]
    intro x hx
    obtain ⟨w, hw, hwx⟩ := h3 x hx
    rw [List.any_eq_true]
    refine ⟨TW.wobs div w, List.mem_map_of_mem hw, ?_⟩
    simp only [TW.wobs, beq_iff_eq]
    rw [hwx, al_div d x.ts hd]

/-! ### WindowManager (tumbling) -/

/-- a window of a tumbling manager with duration `d` and per-window cap `cap` -/
structure WInv (d cap : Nat) (w : TW) : Prop where
  wtype : w.wtype = .tumbling
  dur : w.dur = d
  cap : w.cap = cap
  aligned : w.start / d * d = w.start
  stop : w.stop = w.start + d
  inside : ∀ x ∈ w.events, x.ts / d * d = w.start

/-- an aligned window contains `t` iff it is *the* aligned interval of `t` -/
theorem contains_iff_aligned {d cap : Nat} {w : TW} (hw : WInv d cap w) (hd : 1 ≤ d) (t : Nat) :
    w.contains t = true ↔ t / d * d = w.start := by
  simp only [TW.contains, Bool.and_eq_true, decide_eq_true_eq, hw.stop]
  rw [bucket_eq_iff d w.start t hd hw.aligned, ← same_bucket_iff d w.start t hd, hw.aligned]

/-- what `add_event` does to the window that accepts -/
def bump (cap s : Nat) (e : Ev) (w : TW) : TW :=
  if w.start = s then { w with events := popOver cap (w.events ++ [e]) } else w

theorem bump_start (cap s : Nat) (e : Ev) (w : TW) : (bump cap s e w).start = w.start := by
  unfold bump; split <;> rfl

theorem map_bump_of_absent (cap s : Nat) (e : Ev) (ws : List TW) (h : ∀ w ∈ ws, w.start ≠ s) :
    ws.map (bump cap s e) = ws := by
  induction ws with
  | nil => rfl
  | cons w ws ih =>
    simp only [List.map_cons, bump, h w (by simp), if_false]
    rw [ih (fun w hw => h w (List.mem_cons_of_mem _ hw))]

/-- the offering loop of `process_event`, for aligned windows with pairwise distinct starts: the event goes
to the window whose start is the aligned start of its timestamp — to that one only — and `added` says
whether such a window existed -/
theorem offer_spec {d cap : Nat} (hd : 1 ≤ d) (e : Ev) (ws : List TW) (hw : ∀ w ∈ ws, WInv d cap w)
    (hn : ws.Pairwise (fun a b => a.start ≠ b.start)) :
    offer ws e = (ws.map (bump cap (e.ts / d * d) e), ws.any (fun w => decide (w.start = e.ts / d * d))) := by
  induction ws with
  | nil => rfl
  | cons w ws ih =>
    rw [List.pairwise_cons] at hn
    have hw0 := hw w (by simp)
    simp only [offer]
    by_cases hc : w.contains e.ts = true
    · have hs : w.start = e.ts / d * d := ((contains_iff_aligned hw0 hd e.ts).mp hc).symm
      have habs : ∀ w' ∈ ws, w'.start ≠ e.ts / d * d := fun w' hw' h' => hn.1 w' hw' (hs.trans h'.symm)
      simp only [hc, if_true, List.map_cons, List.any_cons, hs, decide_true, Bool.true_or]
      rw [map_bump_of_absent _ _ _ _ habs]
      simp [TW.addEvent, hc, bump, hs, hw0.cap]
    · have hs : ¬ w.start = e.ts / d * d := fun h' => hc ((contains_iff_aligned hw0 hd e.ts).mpr h'.symm)
      have := ih (fun w' hw' => hw w' (List.mem_cons_of_mem _ hw')) hn.2
      simp only [hc, if_false, Bool.false_eq_true, this, List.map_cons, List.any_cons, bump, hs, decide_false, Bool.false_or]

theorem winv_bump {d cap s : Nat} {e : Ev} {w : TW} (hw : WInv d cap w) (hs : e.ts / d * d = s) :
    WInv d cap (bump cap s e w) := by
  unfold bump
  split
  · rename_i h
    refine ⟨hw.wtype, hw.dur, hw.cap, hw.aligned, hw.stop, ?_⟩
    intro x hx
    have hx' := mem_of_mem_popOver hx
    rcases List.mem_append.mp hx' with hx' | hx'
    · exact hw.inside x hx'
    · simp only [List.mem_singleton] at hx'; subst hx'; rw [hs, h]
  · exact hw

theorem new_window (d s cap : Nat) (e : Ev) (hd : 1 ≤ d) (hs : e.ts / d * d = s) :
    ((TW.new .tumbling d s cap).addEvent e).1
      = { wtype := .tumbling, dur := d, start := s, stop := s + d, cap := cap, events := popOver cap [e] } := by
  have h1 := al_le d e.ts
  have h2 := al_lt d e.ts hd
  rw [hs] at h1 h2
  simp [TW.addEvent, TW.contains, TW.new, h1, h2]

/-- the state a tumbling manager maintains -/
structure MInv (d : Nat) (m : WM) : Prop where
  wtype : m.wtype = .tumbling
  dur : m.dur = d
  wins : ∀ w ∈ m.windows, WInv d m.cap w
  sorted : (m.windows.map (·.start)).Pairwise (· < ·)
  len : m.windows.length ≤ m.maxW

theorem distinct_of_sorted {ws : List TW} (h : (ws.map (·.start)).Pairwise (· < ·)) :
    ws.Pairwise (fun a b => a.start ≠ b.start) := by
  rw [List.pairwise_map] at h
  exact h.imp (fun hab => by omega)

/-- placement: the windows after the offering loop / after opening a new window -/
theorem place_spec {d : Nat} {m : WM} (hd : 1 ≤ d) (hm : MInv d m) (e : Ev) :
    ∃ ws, m.place e = some ws
      ∧ (∀ w ∈ ws, WInv d m.cap w)
      ∧ ws.Pairwise (fun a b => a.start ≠ b.start)
      ∧ ((m.windows.any (fun w => decide (w.start = e.ts / d * d)) = true ∧ ws = m.windows.map (bump m.cap (e.ts / d * d) e))
         ∨ ((∀ w ∈ m.windows, w.start ≠ e.ts / d * d)
            ∧ ws = m.windows ++ [{ wtype := .tumbling, dur := d, start := e.ts / d * d, stop := e.ts / d * d + d,
                                    cap := m.cap, events := popOver m.cap [e] }])) := by
  have hdist := distinct_of_sorted hm.sorted
  have hoff := offer_spec hd e m.windows hm.wins hdist
  unfold WM.place
  rw [hoff]
  by_cases hany : m.windows.any (fun w => decide (w.start = e.ts / d * d)) = true
  · refine ⟨_, by simp only [hany, if_true], ?_, ?_, Or.inl ⟨hany, rfl⟩⟩
    · intro w hw
      rw [List.mem_map] at hw
      obtain ⟨w0, hw0, rfl⟩ := hw
      exact winv_bump (hm.wins w0 hw0) rfl
    · rw [List.pairwise_map]
      exact hdist.imp (fun hab => by rw [bump_start, bump_start]; exact hab)
  · have habs : ∀ w ∈ m.windows, w.start ≠ e.ts / d * d := by
      intro w hw h'
      apply hany
      rw [List.any_eq_true]
      exact ⟨w, hw, by simpa using h'⟩
    have hd0 : d ≠ 0 := by omega
    refine ⟨_, by simp only [hany, Bool.false_eq_true, if_false, windowStart, hm.wtype, hm.dur, hd0, Option.map_some,
                     new_window d _ m.cap e hd rfl], ?_, ?_, Or.inr ⟨habs, rfl⟩⟩
    · intro w hw
      rcases List.mem_append.mp hw with hw | hw
      · exact hm.wins w hw
      · simp only [List.mem_singleton] at hw
        subst hw
        refine ⟨rfl, rfl, rfl, by show e.ts / d * d / d * d = e.ts / d * d; rw [al_div d e.ts hd], rfl, ?_⟩
        intro x hx
        have := mem_of_mem_popOver hx
        simp only [List.mem_singleton] at this
        subst this; rfl
    · rw [List.pairwise_append]
      refine ⟨hdist, by simp, ?_⟩
      intro a ha b hb
      simp only [List.mem_singleton] at hb
      subst hb
      exact habs a ha

theorem mem_tidy {m : WM} {now : Nat} {ws : List TW} {w : TW} (h : w ∈ m.tidy now ws) : w ∈ ws ∧ now < w.stop := by
  unfold WM.tidy at h
  have := List.mem_filter.mp (mem_of_mem_popOver (mem_sortByStart.mp h))
  exact ⟨this.1, by simpa using this.2⟩

theorem mem_popOver_last {α : Type} {cap : Nat} (l : List α) (x : α) (h : 1 ≤ cap) : x ∈ popOver cap (l ++ [x]) := by
  rw [popOver_append_last l x h]; simp

/-- `process_event` of a tumbling manager never fails for `d ≥ 1`, keeps the invariant (aligned windows,
strictly increasing starts, at most `maxW`), leaves `e` in no window but its aligned one, and — unless the
manager or its windows may hold nothing — leaves it in that one -/
theorem process_spec {d : Nat} {m : WM} (hd : 1 ≤ d) (hm : MInv d m) (e : Ev) :
    ∃ m', m.process e = some m' ∧ MInv d m' ∧ m'.cap = m.cap ∧ m'.maxW = m.maxW
      ∧ (∀ w ∈ m'.windows, e.ts < w.stop)
      ∧ (1 ≤ m.maxW → 1 ≤ m.cap →
          ∃ w ∈ m'.windows, w.start = e.ts / d * d ∧ e ∈ w.events) := by
  obtain ⟨ws, hplace, hwins, hdist, hcase⟩ := place_spec hd hm e
  refine ⟨{ m with windows := m.tidy e.ts ws }, by simp [WM.process, hplace], ?_, rfl, rfl, ?_, ?_⟩
  · refine ⟨hm.wtype, hm.dur, ?_, ?_, ?_⟩
    · intro w hw; exact hwins w (mem_tidy hw).1
    · apply sortByStart_strict
      exact hdist.sublist ((popOver_sublist _ _).trans List.filter_sublist)
    · show (m.tidy e.ts ws).length ≤ m.maxW
      unfold WM.tidy
      rw [(sortByStart_perm _).length_eq, length_popOver]; omega
  · intro w hw; exact (mem_tidy hw).2
  · intro hmax hcap
    have hlast : ∀ (old : List Ev), e ∈ popOver m.cap (old ++ [e]) := fun old => mem_popOver_last old e hcap
    rcases hcase with ⟨hany, hws⟩ | ⟨habs, hws⟩
    · rw [List.any_eq_true] at hany
      obtain ⟨w0, hw0, hs0⟩ := hany
      have hs0 : w0.start = e.ts / d * d := by simpa using hs0
      refine ⟨bump m.cap (e.ts / d * d) e w0, ?_, by rw [bump_start, hs0], by simp [bump, hs0, hlast]⟩
      show _ ∈ m.tidy e.ts ws
      unfold WM.tidy
      rw [mem_sortByStart, popOver_of_le]
      · rw [List.mem_filter]
        refine ⟨by rw [hws]; exact List.mem_map_of_mem hw0, ?_⟩
        have hst : (bump m.cap (e.ts / d * d) e w0).stop = w0.stop := by unfold bump; split <;> rfl
        have := al_lt d e.ts hd
        rw [hst, (hm.wins w0 hw0).stop, hs0]; simpa using this
      · have h1 : (ws.filter fun w => decide (e.ts < w.stop)).length ≤ ws.length := List.length_filter_le _ _
        have h2 : ws.length = m.windows.length := by rw [hws, List.length_map]
        have := hm.len
        omega
    · refine ⟨{ wtype := .tumbling, dur := d, start := e.ts / d * d, stop := e.ts / d * d + d,
                cap := m.cap, events := popOver m.cap [e] }, ?_, rfl, hlast []⟩
      show _ ∈ m.tidy e.ts ws
      unfold WM.tidy
      rw [mem_sortByStart, hws, List.filter_append]
      have := al_lt d e.ts hd
      simp only [List.filter_cons, this, decide_true, if_true, List.filter_nil]
      exact mem_popOver_last _ _ hmax

/-- a window of a tumbling manager holds an event only if it is the aligned interval of its timestamp,
and two windows holding the same event are the same interval -/
theorem holder_is_aligned {d : Nat} {m : WM} (hm : MInv d m) {w : TW} (hw : w ∈ m.windows) {x : Ev}
    (hx : x ∈ w.events) : w.start = x.ts / d * d := ((hm.wins w hw).inside x hx).symm

/-- running a manager over a whole history; `none` = the code panicked -/
def wmRun : WM → List Ev → Option WM
  | m, [] => some m
  | m, e :: es => (m.process e).bind fun m' => wmRun m' es

theorem wmRun_inv {d : Nat} (hd : 1 ≤ d) (es : List Ev) (m : WM) (hm : MInv d m) :
    ∃ m', wmRun m es = some m' ∧ MInv d m' ∧ m'.cap = m.cap ∧ m'.maxW = m.maxW := by
  induction es generalizing m with
  | nil => exact ⟨m, rfl, hm, rfl, rfl⟩
  | cons e es ih =>
    obtain ⟨m1, h1, hm1, hc1, hx1, _⟩ := process_spec hd hm e
    obtain ⟨m2, h2, hm2, hc2, hx2⟩ := ih m1 hm1
    exact ⟨m2, by simp [wmRun, h1, h2], hm2, by rw [hc2, hc1], by rw [hx2, hx1]⟩

/-! ### WindowManager: every clause of the step predicate -/

/-- events of the window that starts at `s` (model side of `eventsAt`) -/
def evAt (ws : List TW) (s : Nat) : List Ev :=
  match ws.find? (fun w => w.start == s) with
  | some w => w.events
  | none => []

theorem eventsAt_wobs (div : Int → Nat → Nat) (ws : List TW) (s : Nat) :
    eventsAt (ws.map (TW.wobs div)) s = evAt ws s := by
  induction ws with
  | nil => rfl
  | cons w ws ih =>
    unfold eventsAt evAt at ih ⊢
    cases h : (w.start == s) with
    | true => simp [TW.wobs, h]
    | false => simpa [List.find?_cons, TW.wobs, h] using ih

theorem evAt_of_mem {ws : List TW} (hn : ws.Pairwise (fun a b => a.start ≠ b.start)) {w0 : TW} (h0 : w0 ∈ ws) :
    evAt ws w0.start = w0.events := by
  induction ws with
  | nil => cases h0
  | cons w ws ih =>
    rw [List.pairwise_cons] at hn
    rcases List.mem_cons.mp h0 with rfl | h0
    · simp [evAt]
    · have hne : ¬ w.start = w0.start := hn.1 w0 h0
      have := ih hn.2 h0
      unfold evAt at this ⊢
      simpa [List.find?_cons, hne] using this

theorem evAt_of_absent {ws : List TW} {s : Nat} (h : ∀ w ∈ ws, w.start ≠ s) : evAt ws s = [] := by
  unfold evAt
  have : ws.find? (fun w => w.start == s) = none := by
    rw [List.find?_eq_none]; intro w hw; simpa using h w hw
  rw [this]

theorem evAt_subset {ws : List TW} {s : Nat} {x : Ev} (h : x ∈ evAt ws s) : ∃ w ∈ ws, x ∈ w.events := by
  unfold evAt at h
  cases hf : ws.find? (fun w => w.start == s) with
  | none => simp [hf] at h
  | some w => rw [hf] at h; exact ⟨w, List.mem_of_find?_eq_some hf, h⟩

theorem sum_map_single (s c : Nat) (f : TW → Nat) (l : List TW)
    (hn : l.Pairwise (fun a b => a.start ≠ b.start))
    (h0 : ∀ w ∈ l, w.start ≠ s → f w = 0) (h1 : ∀ w ∈ l, w.start = s → f w = c) :
    (l.map f).sum = if l.any (fun w => decide (w.start = s)) = true then c else 0 := by
  induction l with
  | nil => simp
  | cons w l ih =>
    rw [List.pairwise_cons] at hn
    have ih' := ih hn.2 (fun w' hw' => h0 w' (List.mem_cons_of_mem _ hw')) (fun w' hw' => h1 w' (List.mem_cons_of_mem _ hw'))
    simp only [List.map_cons, List.sum_cons, List.any_cons, ih']
    by_cases hs : w.start = s
    · have habs : l.any (fun w => decide (w.start = s)) = false := by
        rw [List.any_eq_false]; intro w' hw'; simpa using fun h' => hn.1 w' hw' (hs.trans h'.symm)
      simp [hs, habs, h1 w (by simp) hs]
    · simp [hs, h0 w (by simp) hs]

theorem count_popOver_last (cap : Nat) (old : List Ev) (e : Ev) (he : e ∉ old) :
    (popOver cap (old ++ [e])).count e = if 1 ≤ cap then 1 else 0 := by
  by_cases hc : 1 ≤ cap
  · rw [popOver_append_last old e hc, List.count_append]
    have : (popOver (cap - 1) old).count e = 0 :=
      List.count_eq_zero_of_not_mem (fun h => he (mem_of_mem_popOver h))
    simp [this, hc]
  · have : cap = 0 := by omega
    subst this
    rw [popOver_eq_drop]; simp

/-- `process_event` of a tumbling manager, window by window: every window afterwards is either the aligned
window of `e` — holding the old content of that window (nothing if it is new) plus `e`, capped — or an old
window, untouched; and unless `maxW = 0` the aligned window is there. -/
theorem process_full {d : Nat} {m : WM} (hd : 1 ≤ d) (hm : MInv d m) (e : Ev) :
    ∃ m', m.process e = some m' ∧ MInv d m' ∧ m'.cap = m.cap ∧ m'.maxW = m.maxW
      ∧ (∀ w ∈ m'.windows, e.ts < w.stop)
      ∧ (∀ w ∈ m'.windows,
          (w.start = e.ts / d * d ∧ w.events = popOver m.cap (evAt m.windows (e.ts / d * d) ++ [e]))
          ∨ (w.start ≠ e.ts / d * d ∧ w ∈ m.windows))
      ∧ (1 ≤ m.maxW → ∃ w ∈ m'.windows, w.start = e.ts / d * d) := by
  obtain ⟨m', hp, hm', hc, hx, hexp, _⟩ := process_spec hd hm e
  obtain ⟨ws, hplace, hwins, hdist, hcase⟩ := place_spec hd hm e
  have hm'w : m'.windows = m.tidy e.ts ws := by
    simp only [WM.process, hplace, Option.map_some, Option.some.injEq] at hp
    rw [← hp]
  have hdist0 := distinct_of_sorted hm.sorted
  refine ⟨m', hp, hm', hc, hx, hexp, ?_, ?_⟩
  · intro w hw
    rw [hm'w] at hw
    have hw' := (mem_tidy hw).1
    rcases hcase with ⟨_, hws⟩ | ⟨habs, hws⟩
    · rw [hws, List.mem_map] at hw'
      obtain ⟨w1, hw1, rfl⟩ := hw'
      by_cases h1 : w1.start = e.ts / d * d
      · left
        refine ⟨by rw [bump_start, h1], ?_⟩
        rw [← h1, evAt_of_mem hdist0 hw1]
        simp [bump, h1]
      · right
        have : bump m.cap (e.ts / d * d) e w1 = w1 := by simp [bump, h1]
        rw [this]; exact ⟨h1, hw1⟩
    · rw [hws] at hw'
      rcases List.mem_append.mp hw' with hw' | hw'
      · right; exact ⟨habs w hw', hw'⟩
      · left
        simp only [List.mem_singleton] at hw'
        subst hw'
        exact ⟨rfl, by rw [evAt_of_absent habs]; rfl⟩
  · intro hmax
    rw [hm'w]
    rcases hcase with ⟨hany, hws⟩ | ⟨habs, hws⟩
    · rw [List.any_eq_true] at hany
      obtain ⟨w0, hw0, hs0⟩ := hany
      have hs0 : w0.start = e.ts / d * d := by simpa using hs0
      refine ⟨bump m.cap (e.ts / d * d) e w0, ?_, by rw [bump_start, hs0]⟩
      unfold WM.tidy
      rw [mem_sortByStart, popOver_of_le]
      · rw [List.mem_filter]
        refine ⟨by rw [hws]; exact List.mem_map_of_mem hw0, ?_⟩
        have hst : (bump m.cap (e.ts / d * d) e w0).stop = w0.stop := by unfold bump; split <;> rfl
        have := al_lt d e.ts hd
        rw [hst, (hm.wins w0 hw0).stop, hs0]; simpa using this
      · have h1 : (ws.filter fun w => decide (e.ts < w.stop)).length ≤ ws.length := List.length_filter_le _ _
        have h2 : ws.length = m.windows.length := by rw [hws, List.length_map]
        have := hm.len
        omega
    · refine ⟨{ wtype := .tumbling, dur := d, start := e.ts / d * d, stop := e.ts / d * d + d,
                cap := m.cap, events := popOver m.cap [e] }, ?_, rfl⟩
      unfold WM.tidy
      rw [mem_sortByStart, hws, List.filter_append]
      have := al_lt d e.ts hd
      simp only [List.filter_cons, this, decide_true, if_true, List.filter_nil]
      exact mem_popOver_last _ _ hmax

theorem cond_iff {d : Nat} (hd : 1 ≤ d) {s0 t : Nat} (hs : s0 / d * d = s0) :
    (s0 / d == t / d) = true ↔ s0 = t / d * d := by
  rw [beq_iff_eq]
  constructor
  · intro h; rw [← h, hs]
  · intro h; rw [h, al_div d t hd]

theorem occurrences_wobs (div : Int → Nat → Nat) (e : Ev) (ws : List TW) :
    occurrences e (ws.map (TW.wobs div)) = (ws.map fun w => w.events.count e).sum := by
  simp [occurrences, List.map_map, Function.comp_def, TW.wobs]

theorem wm_step_ok (div : Int → Nat → Nat) {d : Nat} {m m' : WM} (hd : 1 ≤ d) (hm : MInv d m) (e : Ev)
    (hfresh : ∀ w ∈ m.windows, e ∉ w.events) (hp : m.process e = some m') :
    wmStepOk div d m.cap m.maxW (m.windows.map (TW.wobs div)) e (m'.windows.map (TW.wobs div)) = true := by
  obtain ⟨m2, hp2, hm', hc, hx, hexp, hcls, hex⟩ := process_full hd hm e
  rw [hp] at hp2
  cases hp2
  have hdist := distinct_of_sorted hm.sorted
  have hdist' := distinct_of_sorted hm'.sorted
  simp only [wmStepOk, Bool.and_eq_true]
  refine ⟨⟨⟨⟨?_, ?_⟩, ?_⟩, ?_⟩, ?_⟩
  · apply strictInc_of_pairwise
    simpa [List.map_map, Function.comp_def, TW.wobs] using hm'.sorted
  · simp only [List.length_map, decide_eq_true_eq]; rw [← hx]; exact hm'.len
  · rw [List.all_eq_true]
    intro o ho
    rw [List.mem_map] at ho
    obtain ⟨w, hw, rfl⟩ := ho
    have hwi := hm'.wins w hw
    simp only [Bool.and_eq_true]
    refine ⟨⟨⟨⟨⟨?_, ?_⟩, ?_⟩, ?_⟩, ?_⟩, aggregate_ok div _⟩
    · simp only [TW.wobs, beq_iff_eq]; rw [← hwi.aligned]; exact al_mod d _
    · simp only [TW.wobs, beq_iff_eq]; exact hwi.stop
    · simp only [TW.wobs, List.all_eq_true, beq_iff_eq]
      intro x hx'; exact (bucket_eq_iff d w.start x.ts hd hwi.aligned).mp (hwi.inside x hx')
    · exact decide_eq_true (hexp w hw)
    · rw [eventsAt_wobs]
      rcases hcls w hw with ⟨h1, h2⟩ | ⟨h1, h2⟩
      · have hcond : (w.start / d == e.ts / d) = true := (cond_iff hd hwi.aligned).mpr h1
        simp only [TW.wobs, hcond, ↓reduceIte]
        rw [h1, h2]; exact keptByCap_popOver _ _
      · have hcond : (w.start / d == e.ts / d) = false := by
          rw [Bool.eq_false_iff]; exact fun h => h1 ((cond_iff hd hwi.aligned).mp h)
        simp only [TW.wobs, hcond, Bool.false_eq_true, ↓reduceIte]
        rw [evAt_of_mem hdist h2]
        simp only [Bool.and_eq_true, beq_self_eq_true, true_and, List.any_eq_true]
        exact ⟨TW.wobs div w, List.mem_map_of_mem h2, by simp [TW.wobs]⟩
  · by_cases h0 : m.maxW = 0
    · simp [h0]
    · simp only [Bool.or_eq_true, List.any_eq_true]
      right
      obtain ⟨w, hw, hs⟩ := hex (by omega)
      exact ⟨TW.wobs div w, List.mem_map_of_mem hw, (cond_iff hd (hm'.wins w hw).aligned).mpr hs⟩
  · rw [beq_iff_eq, occurrences_wobs]
    have hold : e ∉ evAt m.windows (e.ts / d * d) := by
      intro h
      obtain ⟨w, hw, hxw⟩ := evAt_subset h
      exact hfresh w hw hxw
    rw [sum_map_single (e.ts / d * d) ((popOver m.cap (evAt m.windows (e.ts / d * d) ++ [e])).count e)
          (fun w => w.events.count e) m'.windows hdist'
          (by
            intro w hw hne
            rcases hcls w hw with ⟨h1, _⟩ | ⟨_, h2⟩
            · exact absurd h1 hne
            · exact List.count_eq_zero_of_not_mem (hfresh w h2))
          (by
            intro w hw heq
            rcases hcls w hw with ⟨_, h2⟩ | ⟨h1, _⟩
            · rw [h2]
            · exact absurd heq h1),
        count_popOver_last _ _ _ hold]
    by_cases h0 : 1 ≤ m.maxW
    · obtain ⟨w, hw, hs⟩ := hex h0
      have hany : m'.windows.any (fun w => decide (w.start = e.ts / d * d)) = true := by
        rw [List.any_eq_true]; exact ⟨w, hw, by simpa using hs⟩
      simp [hany, h0]
    · have hlen := hm'.len
      have : m'.windows = [] := by
        cases hmw : m'.windows with
        | nil => rfl
        | cons a l => rw [hmw] at hlen; simp at hlen; omega
      simp [this, h0]

/-- every event sitting in a window has been offered before -/
def Seen (seen : List Ev) (m : WM) : Prop := ∀ w ∈ m.windows, ∀ x ∈ w.events, x ∈ seen

theorem seen_step {d : Nat} {m m' : WM} {seen : List Ev} (hd : 1 ≤ d) (hm : MInv d m) (e : Ev)
    (hs : Seen seen m) (hp : m.process e = some m') : Seen (e :: seen) m' := by
  obtain ⟨m2, hp2, _, _, _, _, hcls, _⟩ := process_full hd hm e
  rw [hp] at hp2
  cases hp2
  intro w hw x hx
  rcases hcls w hw with ⟨_, h2⟩ | ⟨_, h2⟩
  · rw [h2] at hx
    rcases List.mem_append.mp (mem_of_mem_popOver hx) with hx | hx
    · obtain ⟨w0, hw0, hxw⟩ := evAt_subset hx
      exact List.mem_cons_of_mem _ (hs w0 hw0 x hxw)
    · simp only [List.mem_singleton] at hx; subst hx; simp
  · exact List.mem_cons_of_mem _ (hs w h2 x hx)

theorem wm_trace_ok (div : Int → Nat → Nat) {d : Nat} (hd : 1 ≤ d) (es : List Ev) (m : WM) (seen : List Ev)
    (tr : List (List WObs)) (hm : MInv d m) (hs : Seen seen m) (hnd : es.Nodup) (hdisj : ∀ x ∈ es, x ∉ seen)
    (h : wmTrace div m es = some tr) :
    wmRunOk div d m.cap m.maxW (m.windows.map (TW.wobs div)) es tr = true := by
  induction es generalizing m seen tr with
  | nil => simp [wmTrace] at h; subst h; simp [wmRunOk]
  | cons e es ih =>
    simp only [wmTrace] at h
    cases hp : m.process e with
    | none => simp [hp] at h
    | some m' =>
      simp only [hp] at h
      cases ht : wmTrace div m' es with
      | none => simp [ht] at h
      | some rest =>
        simp only [ht, Option.map_some, Option.some.injEq] at h
        subst h
        obtain ⟨m2, hp2, hm', hc, hx, _⟩ := process_full hd hm e
        rw [hp] at hp2
        cases hp2
        rw [List.nodup_cons] at hnd
        have hfresh : ∀ w ∈ m.windows, e ∉ w.events :=
          fun w hw hew => hdisj e (by simp) (hs w hw e hew)
        simp only [wmRunOk, Bool.and_eq_true]
        refine ⟨wm_step_ok div hd hm e hfresh hp, ?_⟩
        have := ih m' (e :: seen) rest hm' (seen_step hd hm e hs hp) hnd.2
          (by
            intro x hx hmem
            rcases List.mem_cons.mp hmem with rfl | hmem
            · exact hnd.1 hx
            · exact hdisj x (List.mem_cons_of_mem _ hx) hmem)
          ht
        rw [hc, hx] at this
        exact this

/-! ### StreamAlphaNode, session window -/

theorem ans_step_ok (a : AlphaS) (op : ANOp) :
    ansStepOk a.timeout a.cap a.last a.events op
        { ret := (a.process op.now op.pass op.e).2, events := (a.process op.now op.pass op.e).1.events } = true
      ∧ (a.process op.now op.pass op.e).1.last = sessLast a.timeout a.last op
      ∧ (a.process op.now op.pass op.e).1.timeout = a.timeout
      ∧ (a.process op.now op.pass op.e).1.cap = a.cap := by
  unfold AlphaS.process ansStepOk sessLast
  cases hp : op.pass with
  | false => simp
  | true =>
    simp only [if_true, beq_self_eq_true, Bool.true_and]
    have hg : (a.gapReset op.e.ts).timeout = a.timeout ∧ (a.gapReset op.e.ts).cap = a.cap
        ∧ (a.gapReset op.e.ts).events = (if continues a.timeout a.last op.e.ts then a.events else []) := by
      unfold AlphaS.gapReset continues
      cases a.last with
      | none => simp
      | some l =>
        by_cases h : op.e.ts - l > a.timeout
        · have : ¬ (op.e.ts - l ≤ a.timeout) := by omega
          simp [h, this]
        · have : op.e.ts - l ≤ a.timeout := by omega
          simp [h, this]
    obtain ⟨hg1, hg2, hg3⟩ := hg
    unfold AlphaS.expire AlphaS.push
    simp only [hg1, hg2, hg3]
    by_cases hx : op.now - op.e.ts > a.timeout
    · simp [hx]
    · simp [hx, keptByCap_popOver]

theorem ans_trace_ok (ops : List ANOp) (a : AlphaS) :
    ansRunOk a.timeout a.cap a.last a.events ops (ansTrace a ops) = true := by
  induction ops generalizing a with
  | nil => simp [ansTrace, ansRunOk]
  | cons op ops ih =>
    obtain ⟨h1, h2, h3, h4⟩ := ans_step_ok a op
    simp only [ansTrace, ansRunOk, Bool.and_eq_true]
    refine ⟨h1, ?_⟩
    have := ih (a.process op.now op.pass op.e).1
    rw [h2, h3, h4] at this
    exact this

/-- consecutive events (arrival order) are at most `t` apart, `saturating_sub` as in the code -/
def gapsOk (t : Nat) : List Ev → Bool
  | [] => true
  | [_] => true
  | x :: y :: rest => decide (y.ts - x.ts ≤ t) && gapsOk t (y :: rest)

theorem gapsOk_tail {t : Nat} {x : Ev} {l : List Ev} (h : gapsOk t (x :: l) = true) : gapsOk t l = true := by
  cases l with
  | nil => rfl
  | cons y r => simp only [gapsOk, Bool.and_eq_true] at h; exact h.2

theorem gapsOk_drop {t : Nat} (k : Nat) {l : List Ev} (h : gapsOk t l = true) : gapsOk t (l.drop k) = true := by
  induction k generalizing l with
  | zero => simpa using h
  | succ k ih =>
    cases l with
    | nil => simp [gapsOk]
    | cons x r => simpa using ih (gapsOk_tail h)

theorem gapsOk_snoc {t : Nat} {l : List Ev} {e : Ev} (h : gapsOk t l = true)
    (hl : ∀ x ∈ l.getLast?, e.ts - x.ts ≤ t) : gapsOk t (l ++ [e]) = true := by
  induction l with
  | nil => rfl
  | cons x r ih =>
    cases r with
    | nil =>
      simp only [List.cons_append, List.nil_append, gapsOk, Bool.and_true, decide_eq_true_eq]
      exact hl x (by simp)
    | cons y r' =>
      simp only [List.cons_append, gapsOk, Bool.and_eq_true] at h ⊢
      refine ⟨h.1, ?_⟩
      apply ih h.2
      intro z hz
      apply hl z
      simpa [List.getLast?_cons_cons] using hz

/-- what a session node maintains -/
structure SInv (a : AlphaS) : Prop where
  closed : a.last = none → a.events = []
  newest : ∀ l, a.last = some l → ∀ x ∈ a.events.getLast?, x.ts = l
  chain : gapsOk a.timeout a.events = true
  len : a.events.length ≤ a.cap

theorem getLast?_popOver_snoc (cap : Nat) (l : List Ev) (e : Ev) :
    ∀ x ∈ (popOver cap (l ++ [e])).getLast?, x = e := by
  intro x hx
  by_cases hc : 1 ≤ cap
  · rw [popOver_append_last l e hc] at hx
    simpa using hx.symm
  · have : cap = 0 := by omega
    subst this
    rw [popOver_eq_drop] at hx
    simp at hx

theorem sinv_step {a : AlphaS} (h : SInv a) (now : Nat) (pass : Bool) (e : Ev) : SInv (a.process now pass e).1 := by
  unfold AlphaS.process
  cases pass with
  | false => simpa using h
  | true =>
    simp only [if_true]
    -- after the gap test
    have hg : SInv (a.gapReset e.ts) ∧ (∀ x ∈ (a.gapReset e.ts).events.getLast?, e.ts - x.ts ≤ a.timeout)
        ∧ (a.gapReset e.ts).timeout = a.timeout := by
      unfold AlphaS.gapReset
      cases hl : a.last with
      | none =>
        have := h.closed hl
        simp only
        exact ⟨h, by rw [this]; simp, trivial⟩
      | some l =>
        simp only
        by_cases hgap : e.ts - l > a.timeout
        · simp only [hgap, if_true]
          exact ⟨⟨by simp, by simp, by simp [gapsOk], by simp⟩, by simp, trivial⟩
        · simp only [hgap, if_false]
          refine ⟨h, ?_, trivial⟩
          intro x hx
          rw [h.newest l hl x hx]; omega
    obtain ⟨hg1, hg2, hg3⟩ := hg
    generalize a.gapReset e.ts = b at hg1 hg2 hg3
    -- after the push
    have hp : SInv (b.push e) := by
      unfold AlphaS.push
      refine ⟨by simp, ?_, ?_, ?_⟩
      · intro l hl x hx
        simp only [Option.some.injEq] at hl
        rw [getLast?_popOver_snoc _ _ _ x hx]; exact hl
      · show gapsOk b.timeout (popOver b.cap (b.events ++ [e])) = true
        rw [popOver_eq_drop]
        apply gapsOk_drop
        apply gapsOk_snoc hg1.chain
        rw [hg3]; exact hg2
      · show (popOver b.cap (b.events ++ [e])).length ≤ b.cap
        rw [length_popOver]; omega
    generalize b.push e = c at hp
    unfold AlphaS.expire
    cases hl : c.last with
    | none => exact hp
    | some l =>
      simp only
      by_cases hx : now - l > c.timeout
      · simp only [hx, if_true]
        exact ⟨by simp, by simp, by simp [gapsOk], by simp⟩
      · simp only [hx, if_false]; exact hp

/-- running the node over a history -/
def ansRun : AlphaS → List ANOp → AlphaS
  | a, [] => a
  | a, op :: ops => ansRun (a.process op.now op.pass op.e).1 ops

theorem sinv_run (ops : List ANOp) (a : AlphaS) (h : SInv a) : SInv (ansRun a ops) := by
  induction ops generalizing a with
  | nil => exact h
  | cons op ops ih => exact ih _ (sinv_step h op.now op.pass op.e)

/-! ### WindowedStream::new, sliding / session -/

theorem mem_wsGrid (step : Nat) (hs : 0 < step) (cur mx s : Nat) :
    s ∈ wsGrid step hs cur mx ↔ cur ≤ s ∧ s ≤ mx ∧ (s - cur) % step = 0 := by
  fun_induction wsGrid step hs cur mx with
  | case1 cur h ih =>
    rw [List.mem_cons, ih]
    constructor
    · rintro (rfl | ⟨h1, h2, h3⟩)
      · exact ⟨Nat.le_refl _, h, by simp⟩
      · refine ⟨by omega, h2, ?_⟩
        have : s - cur = (s - (cur + step)) + step := by omega
        rw [this, Nat.add_mod_right]; exact h3
    · rintro ⟨h1, h2, h3⟩
      by_cases he : s = cur
      · exact Or.inl he
      · right
        have hge : step ≤ s - cur := by
          rcases Nat.lt_or_ge (s - cur) step with hlt | hge
          · rw [Nat.mod_eq_of_lt hlt] at h3; omega
          · exact hge
        refine ⟨by omega, h2, ?_⟩
        have : s - cur = (s - (cur + step)) + step := by omega
        rw [this, Nat.add_mod_right] at h3; exact h3
  | case2 cur h =>
    simp only [List.not_mem_nil, false_iff]
    omega

theorem wsGrid_pairwise (step : Nat) (hs : 0 < step) (cur mx : Nat) :
    (wsGrid step hs cur mx).Pairwise (· < ·) := by
  fun_induction wsGrid step hs cur mx with
  | case1 cur h ih =>
    rw [List.pairwise_cons]
    refine ⟨?_, ih⟩
    intro s hs'
    have := (mem_wsGrid step hs (cur + step) mx s).mp hs'
    omega
  | case2 cur h => exact List.Pairwise.nil

theorem foldl_min_le (l : List Ev) (m : Nat) :
    l.foldl (fun m x => min m x.ts) m ≤ m ∧ ∀ x ∈ l, l.foldl (fun m x => min m x.ts) m ≤ x.ts := by
  induction l generalizing m with
  | nil => simp
  | cons y r ih =>
    obtain ⟨h1, h2⟩ := ih (min m y.ts)
    simp only [List.foldl_cons]
    refine ⟨by omega, ?_⟩
    intro x hx
    rcases List.mem_cons.mp hx with rfl | hx
    · omega
    · exact h2 x hx

theorem foldl_max_ge (l : List Ev) (m : Nat) :
    m ≤ l.foldl (fun m x => max m x.ts) m ∧ ∀ x ∈ l, x.ts ≤ l.foldl (fun m x => max m x.ts) m := by
  induction l generalizing m with
  | nil => simp
  | cons y r ih =>
    obtain ⟨h1, h2⟩ := ih (max m y.ts)
    simp only [List.foldl_cons]
    refine ⟨by omega, ?_⟩
    intro x hx
    rcases List.mem_cons.mp hx with rfl | hx
    · omega
    · exact h2 x hx

/-- `minTs` / `maxTs` bound every timestamp -/
theorem minTs_le {es : List Ev} {x : Ev} (h : x ∈ es) : minTs es ≤ x.ts := by
  cases es with
  | nil => cases h
  | cons e r =>
    obtain ⟨h1, h2⟩ := foldl_min_le r e.ts
    rcases List.mem_cons.mp h with rfl | h
    · exact h1
    · exact h2 x h

theorem le_maxTs {es : List Ev} {x : Ev} (h : x ∈ es) : x.ts ≤ maxTs es := by
  cases es with
  | nil => cases h
  | cons e r =>
    obtain ⟨h1, h2⟩ := foldl_max_ge r e.ts
    rcases List.mem_cons.mp h with rfl | h
    · exact h1
    · exact h2 x h

theorem minTs_le_maxTs (es : List Ev) : minTs es ≤ maxTs es := by
  cases es with
  | nil => exact Nat.le_refl _
  | cons e r =>
    have h1 := (foldl_min_le r e.ts).1
    have h2 := (foldl_max_ge r e.ts).1
    exact Nat.le_trans h1 h2

theorem wsWindowAt_eq (t : WType) (d cap : Nat) (es : List Ev) (s : Nat) :
    wsWindowAt t d cap es s
      = { wtype := t, dur := d, start := s, stop := s + d, cap := cap, events := popOver cap (es.filter (inSpan s d)) } := by
  unfold wsWindowAt
  have hc : ∀ e ∈ es.filter (inSpan s d), (TW.new t d s cap).contains e.ts = true := by
    intro e he
    have := (List.mem_filter.mp he).2
    simp only [TW.contains, TW.new, inSpan] at this ⊢
    exact this
  rcases fillWindow_spec _ _ hc with h1 | ⟨h1, h2⟩
  · rw [h1]; simp [TW.new]
  · rw [h2, h1]; simp [TW.new, popOver]

theorem wsStep_le (d : Nat) (hd : 1 ≤ d) : wsStep d ≤ d := by unfold wsStep; omega

/-- the sliding / session branch of `WindowedStream::new`, window by window -/
theorem ws_sliding_spec (t : WType) (d cap : Nat) (es : List Ev) :
    ((wsSliding t d cap es).map (·.start)).Pairwise (· < ·)
    ∧ (∀ w ∈ wsSliding t d cap es,
        minTs es ≤ w.start ∧ (w.start - minTs es) % wsStep d = 0 ∧ w.start ≤ maxTs es
        ∧ w.stop = w.start + d
        ∧ w.events = popOver cap (es.filter (inSpan w.start d))
        ∧ w.events ≠ [])
    ∧ (∀ s, minTs es ≤ s → s ≤ maxTs es → (s - minTs es) % wsStep d = 0 → 1 ≤ cap →
        (∃ x ∈ es, inSpan s d x = true) → ∃ w ∈ wsSliding t d cap es, w.start = s) := by
  unfold wsSliding
  by_cases he : es.isEmpty = true
  · have : es = [] := by simpa using he
    subst this
    simp
  · simp only [he, Bool.false_eq_true, if_false]
    refine ⟨?_, ?_, ?_⟩
    · have hg := wsGrid_pairwise (wsStep d) (wsStep_pos d) (minTs es) (maxTs es)
      have hm : (((wsGrid (wsStep d) (wsStep_pos d) (minTs es) (maxTs es)).map (wsWindowAt t d cap es)).map (·.start))
          = wsGrid (wsStep d) (wsStep_pos d) (minTs es) (maxTs es) := by
        rw [List.map_map]
        conv => rhs; rw [← List.map_id (wsGrid (wsStep d) (wsStep_pos d) (minTs es) (maxTs es))]
        apply List.map_congr_left
        intro s _
        simp [wsWindowAt_eq]
      have hsub : ((((wsGrid (wsStep d) (wsStep_pos d) (minTs es) (maxTs es)).map (wsWindowAt t d cap es)).filter
          fun w => decide (0 < w.events.length)).map (·.start)).Sublist
          (((wsGrid (wsStep d) (wsStep_pos d) (minTs es) (maxTs es)).map (wsWindowAt t d cap es)).map (·.start)) :=
        List.filter_sublist.map _
      rw [hm] at hsub
      exact hg.sublist hsub
    · intro w hw
      rw [List.mem_filter, List.mem_map] at hw
      obtain ⟨⟨s, hs, rfl⟩, hne⟩ := hw
      obtain ⟨h1, h2, h3⟩ := (mem_wsGrid _ _ _ _ s).mp hs
      rw [wsWindowAt_eq] at hne ⊢
      refine ⟨h1, h3, h2, rfl, rfl, ?_⟩
      intro h0
      simp only at h0
      simp [h0] at hne
    · intro s h1 h2 h3 hc ⟨x, hx, hxs⟩
      refine ⟨wsWindowAt t d cap es s, ?_, by rw [wsWindowAt_eq]⟩
      rw [List.mem_filter]
      refine ⟨List.mem_map_of_mem ((mem_wsGrid _ _ _ _ s).mpr ⟨h1, h2, h3⟩), ?_⟩
      rw [wsWindowAt_eq]
      simp only [decide_eq_true_eq, length_popOver]
      have : 0 < (es.filter (inSpan s d)).length :=
        List.length_pos_of_mem (List.mem_filter.mpr ⟨hx, hxs⟩)
      omega

/-- every event lies in the span of some window of the grid (duration ≥ 1 ms) -/
theorem grid_point_of_event {d : Nat} {es : List Ev} {x : Ev} (hd : 1 ≤ d) (hx : x ∈ es) :
    ∃ s, minTs es ≤ s ∧ s ≤ maxTs es ∧ (s - minTs es) % wsStep d = 0 ∧ inSpan s d x = true := by
  have hlo := minTs_le hx
  have hhi := le_maxTs hx
  have hpos := wsStep_pos d
  have hle := wsStep_le d hd
  have h1 := al_le (wsStep d) (x.ts - minTs es)
  have h2 := al_lt (wsStep d) (x.ts - minTs es) hpos
  refine ⟨minTs es + (x.ts - minTs es) / wsStep d * wsStep d, by omega, by omega, ?_, ?_⟩
  · rw [Nat.add_sub_cancel_left]; exact al_mod _ _
  · simp only [inSpan, Bool.and_eq_true, decide_eq_true_eq]; omega

theorem wss_ok (div : Int → Nat → Nat) (t : WType) (d cap : Nat) (es : List Ev) :
    wssOk div d cap es ((wsSliding t d cap es).map (TW.wobs div)) = true := by
  obtain ⟨h1, h2, h3⟩ := ws_sliding_spec t d cap es
  have hstep : max (d / 2) 1 = wsStep d := rfl
  simp only [wssOk, Bool.and_eq_true, hstep]
  refine ⟨⟨⟨?_, ?_⟩, ?_⟩, ?_⟩
  · apply strictInc_of_pairwise
    simpa [List.map_map, Function.comp_def, TW.wobs] using h1
  · rw [List.all_eq_true]
    intro o ho
    rw [List.mem_map] at ho
    obtain ⟨w, hw, rfl⟩ := ho
    obtain ⟨a1, a2, a3, a4, a5, a6⟩ := h2 w hw
    simp only [TW.wobs, Bool.and_eq_true, beq_iff_eq, Bool.not_eq_true', List.isEmpty_eq_false_iff]
    refine ⟨⟨⟨⟨⟨⟨decide_eq_true a1, a2⟩, decide_eq_true a3⟩, a4⟩, ?_⟩, a6⟩, aggregate_ok div _⟩
    rw [a5]
    exact keptByCap_popOver _ _
  · by_cases hc : cap = 0
    · simp [hc]
    · simp only [Bool.or_eq_true, beq_iff_eq, hc, false_or, List.all_eq_true, List.mem_range, bne_iff_ne, ne_eq,
        Bool.not_eq_true', List.any_eq_true]
      intro k hk
      have hmm := minTs_le_maxTs es
      by_cases hk0 : k % wsStep d = 0
      · by_cases hany : (es.any fun x => decide (minTs es + k ≤ x.ts) && decide (x.ts < minTs es + k + d)) = true
        · right
          rw [List.any_eq_true] at hany
          obtain ⟨x, hx, hxs⟩ := hany
          obtain ⟨w, hw, hws⟩ := h3 (minTs es + k) (by omega) (by omega)
            (by rw [Nat.add_sub_cancel_left]; exact hk0) (by omega) ⟨x, hx, by simpa [inSpan] using hxs⟩
          exact ⟨TW.wobs div w, List.mem_map_of_mem hw, by simp [TW.wobs, hws]⟩
        · left; right
          simpa using hany
      · left; left; exact hk0
  · by_cases hc : cap = 0
    · simp [hc]
    · by_cases hd : d = 0
      · simp [hd]
      · simp only [Bool.or_eq_true, beq_iff_eq, hc, hd, false_or, List.all_eq_true, List.any_eq_true]
        intro x hx
        obtain ⟨s, b1, b2, b3, b4⟩ := grid_point_of_event (d := d) (by omega) hx
        obtain ⟨w, hw, hws⟩ := h3 s b1 b2 b3 (by omega) ⟨x, hx, b4⟩
        refine ⟨TW.wobs div w, List.mem_map_of_mem hw, ?_⟩
        have hst := (h2 w hw).2.2.2.1
        simp only [TW.wobs, hst, hws]
        simpa [inSpan] using b4

/-- before fix-C12c: with a duration of at most 1 ms the loop's cursor never moves, so its guard
`current_start <= max_time` holds after any number of iterations — the constructor does not return -/
theorem wsCursorOld_stuck (d start n : Nat) (hd : d ≤ 1) : wsCursorOld d start n = start := by
  induction n with
  | zero => rfl
  | succ n ih =>
    have : d / 2 = 0 := by omega
    simp [wsCursorOld, ih, this]

/-! ### WindowManager, sliding / session mode (fixed windows, first fit) -/

/-- a window of a sliding/session manager with duration `d` and per-window cap `cap` -/
structure FWInv (t : WType) (d cap : Nat) (w : TW) : Prop where
  wtype : w.wtype = t
  dur : w.dur = d
  cap : w.cap = cap
  stop : w.stop = w.start + d
  inside : ∀ x ∈ w.events, w.start ≤ x.ts ∧ x.ts < w.stop

/-- the first window (list order = start order) whose span contains `ts` -/
def holder (ws : List TW) (ts : Nat) : Option TW := ws.find? (fun w => w.contains ts)

/-- the start of the window that receives an event with timestamp `ts` (model side of `recvStart`) -/
def tgt (ws : List TW) (ts : Nat) : Nat :=
  match holder ws ts with
  | some h => h.start
  | none => ts

theorem firstHolder_wobs (div : Int → Nat → Nat) (ws : List TW) (ts : Nat) :
    firstHolder (ws.map (TW.wobs div)) ts = (holder ws ts).map (TW.wobs div) := by
  induction ws with
  | nil => rfl
  | cons w ws ih =>
    unfold firstHolder holder at ih ⊢
    simp only [List.map_cons, List.find?_cons]
    have : (decide ((TW.wobs div w).start ≤ ts) && decide (ts < (TW.wobs div w).stop)) = w.contains ts := rfl
    rw [this]
    cases w.contains ts with
    | true => rfl
    | false => exact ih

theorem recvStart_wobs (div : Int → Nat → Nat) (ws : List TW) (ts : Nat) :
    recvStart (ws.map (TW.wobs div)) ts = tgt ws ts := by
  unfold recvStart tgt
  rw [firstHolder_wobs]
  cases holder ws ts <;> rfl

theorem tgt_cases (ws : List TW) (ts : Nat) :
    (∃ h ∈ ws, h.start = tgt ws ts ∧ h.contains ts = true ∧ holder ws ts = some h)
    ∨ ((∀ w ∈ ws, w.contains ts = false) ∧ tgt ws ts = ts ∧ holder ws ts = none) := by
  unfold tgt
  cases hh : holder ws ts with
  | some h =>
    left
    unfold holder at hh
    exact ⟨h, List.mem_of_find?_eq_some hh, rfl, by have := List.find?_some hh; simpa using this, rfl⟩
  | none =>
    right
    unfold holder at hh
    rw [List.find?_eq_none] at hh
    exact ⟨fun w hw => by simpa using hh w hw, rfl, rfl⟩

/-- a window that starts at `ts` contains `ts` (duration ≥ 1 ms) -/
theorem contains_start {t : WType} {d cap : Nat} {w : TW} (hw : FWInv t d cap w) (hd : 1 ≤ d) :
    w.contains w.start = true := by
  simp only [TW.contains, hw.stop, Bool.and_eq_true, decide_eq_true_eq]; omega

/-- the offering loop for fixed windows with pairwise distinct starts: the event goes to the first window whose
span contains its timestamp — to that one only -/
theorem offer_first {t : WType} {d cap : Nat} (hd : 1 ≤ d) (e : Ev) (ws : List TW)
    (hw : ∀ w ∈ ws, FWInv t d cap w) (hn : ws.Pairwise (fun a b => a.start ≠ b.start)) :
    offer ws e = (ws.map (bump cap (tgt ws e.ts) e), (holder ws e.ts).isSome) := by
  induction ws with
  | nil => rfl
  | cons w ws ih =>
    rw [List.pairwise_cons] at hn
    have hw0 := hw w (by simp)
    simp only [offer]
    by_cases hc : w.contains e.ts = true
    · have hh : holder (w :: ws) e.ts = some w := by simp [holder, hc]
      have ht : tgt (w :: ws) e.ts = w.start := by simp [tgt, hh]
      have habs : ∀ w' ∈ ws, w'.start ≠ w.start := fun w' hw' h' => hn.1 w' hw' h'.symm
      simp only [hc, if_true, List.map_cons, hh, ht, Option.isSome_some]
      rw [map_bump_of_absent _ _ _ _ habs]
      simp [TW.addEvent, hc, bump, hw0.cap]
    · have hcf : w.contains e.ts = false := by simpa using hc
      have hh : holder (w :: ws) e.ts = holder ws e.ts := by simp [holder, hcf]
      have ht : tgt (w :: ws) e.ts = tgt ws e.ts := by simp [tgt, hh]
      have hne : ¬ w.start = tgt ws e.ts := by
        intro h'
        rcases tgt_cases ws e.ts with ⟨h, hm, h1, _, _⟩ | ⟨_, h1, _⟩
        · exact hn.1 h hm (h'.trans h1.symm)
        · rw [h1] at h'
          have := contains_start hw0 hd
          rw [h'] at this
          exact hc this
      have := ih (fun w' hw' => hw w' (List.mem_cons_of_mem _ hw')) hn.2
      simp only [hc, if_false, Bool.false_eq_true, this, List.map_cons, hh, ht, bump, hne]

theorem fwinv_bump {t : WType} {d cap s : Nat} {e : Ev} {w : TW} (hw : FWInv t d cap w)
    (hs : w.start = s → w.contains e.ts = true) : FWInv t d cap (bump cap s e w) := by
  unfold bump
  split
  · rename_i h
    refine ⟨hw.wtype, hw.dur, hw.cap, hw.stop, ?_⟩
    intro x hx
    have hx' := mem_of_mem_popOver hx
    rcases List.mem_append.mp hx' with hx' | hx'
    · exact hw.inside x hx'
    · simp only [List.mem_singleton] at hx'; subst hx'
      have := hs h
      simpa [TW.contains] using this
  · exact hw

theorem eq_of_start_eq {ws : List TW} (hn : ws.Pairwise (fun a b => a.start ≠ b.start)) {a b : TW}
    (ha : a ∈ ws) (hb : b ∈ ws) (h : a.start = b.start) : a = b := by
  induction ws with
  | nil => cases ha
  | cons w ws ih =>
    rw [List.pairwise_cons] at hn
    rcases List.mem_cons.mp ha with rfl | ha' <;> rcases List.mem_cons.mp hb with rfl | hb'
    · rfl
    · exact absurd h (hn.1 b hb')
    · exact absurd h.symm (hn.1 a ha')
    · exact ih hn.2 ha' hb'

/-- the state a sliding / session manager maintains -/
structure FInv (t : WType) (d : Nat) (m : WM) : Prop where
  wtype : m.wtype = t
  nt : t ≠ .tumbling
  dur : m.dur = d
  wins : ∀ w ∈ m.windows, FWInv t d m.cap w
  sorted : (m.windows.map (·.start)).Pairwise (· < ·)
  len : m.windows.length ≤ m.maxW

/-- the window opened for an event no window's span contains -/
def freshWin (t : WType) (d cap : Nat) (e : Ev) : TW :=
  { wtype := t, dur := d, start := e.ts, stop := e.ts + d, cap := cap, events := popOver cap [e] }

theorem fresh_window (t : WType) (d cap : Nat) (e : Ev) (hd : 1 ≤ d) :
    ((TW.new t d e.ts cap).addEvent e).1 = freshWin t d cap e := by
  have : e.ts < e.ts + d := by omega
  simp [TW.addEvent, TW.contains, TW.new, freshWin, this]

theorem windowStart_fixed {t : WType} (ht : t ≠ .tumbling) (d ts : Nat) : windowStart t d ts = some ts := by
  cases t with
  | tumbling => exact absurd rfl ht
  | sliding => rfl
  | session => rfl

/-- placement: the windows after the offering loop / after opening a new window -/
theorem fplace_spec {t : WType} {d : Nat} {m : WM} (hd : 1 ≤ d) (hm : FInv t d m) (e : Ev) :
    ∃ ws, m.place e = some ws
      ∧ (∀ w ∈ ws, FWInv t d m.cap w)
      ∧ ws.Pairwise (fun a b => a.start ≠ b.start)
      ∧ tgt m.windows e.ts ≤ e.ts ∧ e.ts < tgt m.windows e.ts + d
      ∧ ((m.windows.any (fun w => decide (w.start = tgt m.windows e.ts)) = true
            ∧ ws = m.windows.map (bump m.cap (tgt m.windows e.ts) e))
         ∨ ((∀ w ∈ m.windows, w.start ≠ tgt m.windows e.ts)
            ∧ tgt m.windows e.ts = e.ts
            ∧ ws = m.windows ++ [freshWin t d m.cap e])) := by
  have hdist := distinct_of_sorted hm.sorted
  have hoff := offer_first hd e m.windows hm.wins hdist
  unfold WM.place
  rw [hoff]
  rcases tgt_cases m.windows e.ts with ⟨h, hmem, h1, h2, h3⟩ | ⟨h1, h2, h3⟩
  · have hsp : tgt m.windows e.ts ≤ e.ts ∧ e.ts < tgt m.windows e.ts + d := by
      have := h2
      simp only [TW.contains, Bool.and_eq_true, decide_eq_true_eq, (hm.wins h hmem).stop] at this
      rw [← h1]; exact this
    refine ⟨_, by simp only [h3, Option.isSome_some, if_true], ?_, ?_, hsp.1, hsp.2, Or.inl ⟨?_, rfl⟩⟩
    · intro w hw
      rw [List.mem_map] at hw
      obtain ⟨w0, hw0, rfl⟩ := hw
      apply fwinv_bump (hm.wins w0 hw0)
      intro hs
      -- distinct starts: the window that starts at the target is the holder
      have : w0 = h := eq_of_start_eq hdist hw0 hmem (hs.trans h1.symm)
      rw [this]; exact h2
    · rw [List.pairwise_map]
      exact hdist.imp (fun hab => by rw [bump_start, bump_start]; exact hab)
    · rw [List.any_eq_true]; exact ⟨h, hmem, by simpa using h1⟩
  · have habs : ∀ w ∈ m.windows, w.start ≠ tgt m.windows e.ts := by
      intro w hw h'
      rw [h2] at h'
      have := contains_start (hm.wins w hw) hd
      rw [h', h1 w hw] at this
      cases this
    refine ⟨_, by simp only [h3, Option.isSome_none, Bool.false_eq_true, if_false, hm.wtype, hm.dur,
                     windowStart_fixed hm.nt, Option.map_some, fresh_window t d m.cap e hd],
            ?_, ?_, by omega, by omega, Or.inr ⟨habs, h2, rfl⟩⟩
    · intro w hw
      rcases List.mem_append.mp hw with hw | hw
      · exact hm.wins w hw
      · simp only [List.mem_singleton] at hw
        subst hw
        refine ⟨rfl, rfl, rfl, rfl, ?_⟩
        intro x hx
        have := mem_of_mem_popOver hx
        simp only [List.mem_singleton] at this
        subst this
        simp only [freshWin]; omega
    · rw [List.pairwise_append]
      refine ⟨hdist, by simp, ?_⟩
      intro a ha b hb
      simp only [List.mem_singleton] at hb
      subst hb
      show a.start ≠ e.ts
      rw [← h2]; exact habs a ha

theorem bump_stop (cap s : Nat) (e : Ev) (w : TW) : (bump cap s e w).stop = w.stop := by
  unfold bump; split <;> rfl

/-- `process_event` of a sliding / session manager (`d ≥ 1`), window by window -/
theorem fprocess_full {t : WType} {d : Nat} {m : WM} (hd : 1 ≤ d) (hm : FInv t d m) (e : Ev) :
    ∃ m', m.process e = some m' ∧ FInv t d m' ∧ m'.cap = m.cap ∧ m'.maxW = m.maxW
      ∧ (∀ w ∈ m'.windows, e.ts < w.stop)
      ∧ (∀ w ∈ m'.windows,
          (w.start = tgt m.windows e.ts ∧ w.events = popOver m.cap (evAt m.windows (tgt m.windows e.ts) ++ [e]))
          ∨ (w.start ≠ tgt m.windows e.ts ∧ w ∈ m.windows))
      ∧ (1 ≤ m.maxW → ∃ w ∈ m'.windows, w.start = tgt m.windows e.ts)
      ∧ (m'.windows.length = m.maxW
          ∨ ∀ w0 ∈ m.windows, e.ts < w0.stop → ∃ w ∈ m'.windows, w.start = w0.start)
      ∧ tgt m.windows e.ts ≤ e.ts ∧ e.ts < tgt m.windows e.ts + d := by
  obtain ⟨ws, hplace, hwins, hdist, hlo, hhi, hcase⟩ := fplace_spec hd hm e
  have hdist0 := distinct_of_sorted hm.sorted
  refine ⟨{ m with windows := m.tidy e.ts ws }, by simp [WM.process, hplace], ?_, rfl, rfl, ?_, ?_, ?_, ?_, hlo, hhi⟩
  · refine ⟨hm.wtype, hm.nt, hm.dur, ?_, ?_, ?_⟩
    · intro w hw; exact hwins w (mem_tidy hw).1
    · apply sortByStart_strict
      exact hdist.sublist ((popOver_sublist _ _).trans List.filter_sublist)
    · show (m.tidy e.ts ws).length ≤ m.maxW
      unfold WM.tidy
      rw [(sortByStart_perm _).length_eq, length_popOver]; omega
  · intro w hw; exact (mem_tidy hw).2
  · intro w hw
    have hw' := (mem_tidy hw).1
    rcases hcase with ⟨_, hws⟩ | ⟨habs, _, hws⟩
    · rw [hws, List.mem_map] at hw'
      obtain ⟨w1, hw1, rfl⟩ := hw'
      by_cases h1 : w1.start = tgt m.windows e.ts
      · left
        refine ⟨by rw [bump_start, h1], ?_⟩
        rw [← h1, evAt_of_mem hdist0 hw1]
        simp [bump, h1]
      · right
        have : bump m.cap (tgt m.windows e.ts) e w1 = w1 := by simp [bump, h1]
        rw [this]; exact ⟨h1, hw1⟩
    · rw [hws] at hw'
      rcases List.mem_append.mp hw' with hw' | hw'
      · right; exact ⟨habs w hw', hw'⟩
      · left
        simp only [List.mem_singleton] at hw'
        subst hw'
        rename_i h2
        exact ⟨h2.symm, by rw [evAt_of_absent habs]; rfl⟩
  · intro hmax
    show ∃ w ∈ m.tidy e.ts ws, _
    rcases hcase with ⟨hany, hws⟩ | ⟨habs, h2, hws⟩
    · rw [List.any_eq_true] at hany
      obtain ⟨w0, hw0, hs0⟩ := hany
      have hs0 : w0.start = tgt m.windows e.ts := by simpa using hs0
      refine ⟨bump m.cap (tgt m.windows e.ts) e w0, ?_, by rw [bump_start, hs0]⟩
      unfold WM.tidy
      rw [mem_sortByStart, popOver_of_le]
      · rw [List.mem_filter]
        refine ⟨by rw [hws]; exact List.mem_map_of_mem hw0, ?_⟩
        rw [bump_stop, (hm.wins w0 hw0).stop, hs0]; simpa using hhi
      · have h1 : (ws.filter fun w => decide (e.ts < w.stop)).length ≤ ws.length := List.length_filter_le _ _
        have h2 : ws.length = m.windows.length := by rw [hws, List.length_map]
        have := hm.len
        omega
    · refine ⟨freshWin t d m.cap e, ?_, h2.symm⟩
      unfold WM.tidy
      rw [mem_sortByStart, hws, List.filter_append]
      have : e.ts < (freshWin t d m.cap e).stop := by simp only [freshWin]; omega
      simp only [List.filter_cons, this, decide_true, if_true, List.filter_nil]
      exact mem_popOver_last _ _ hmax
  · show (m.tidy e.ts ws).length = m.maxW ∨ _
    by_cases hl : (ws.filter fun w => decide (e.ts < w.stop)).length ≤ m.maxW
    · right
      intro w0 hw0 hlive
      have hex : ∃ w ∈ ws, w.start = w0.start ∧ w.stop = w0.stop := by
        rcases hcase with ⟨_, hws⟩ | ⟨_, _, hws⟩
        · exact ⟨bump m.cap (tgt m.windows e.ts) e w0, by rw [hws]; exact List.mem_map_of_mem hw0,
                 bump_start _ _ _ _, bump_stop _ _ _ _⟩
        · exact ⟨w0, by rw [hws]; exact List.mem_append_left _ hw0, rfl, rfl⟩
      obtain ⟨w, hw, h1, h2⟩ := hex
      refine ⟨w, ?_, h1⟩
      unfold WM.tidy
      rw [mem_sortByStart, popOver_of_le hl, List.mem_filter]
      exact ⟨hw, by rw [h2]; simpa using hlive⟩
    · left
      unfold WM.tidy
      rw [(sortByStart_perm _).length_eq, length_popOver]; omega

theorem wmf_step_ok (div : Int → Nat → Nat) {t : WType} {d : Nat} {m m' : WM} (hd : 1 ≤ d) (hm : FInv t d m) (e : Ev)
    (hfresh : ∀ w ∈ m.windows, e ∉ w.events) (hp : m.process e = some m') :
    wmfStepOk div d m.cap m.maxW (m.windows.map (TW.wobs div)) e (m'.windows.map (TW.wobs div)) = true := by
  obtain ⟨m2, hp2, hm', hc, hx, hexp, hcls, hex, hsurv, hlo, hhi⟩ := fprocess_full hd hm e
  rw [hp] at hp2
  cases hp2
  have hdist := distinct_of_sorted hm.sorted
  have hdist' := distinct_of_sorted hm'.sorted
  simp only [wmfStepOk, Bool.and_eq_true, recvStart_wobs]
  refine ⟨⟨⟨⟨⟨⟨?_, ?_⟩, ?_⟩, ?_⟩, ?_⟩, ?_⟩, ?_⟩
  · apply strictInc_of_pairwise
    simpa [List.map_map, Function.comp_def, TW.wobs] using hm'.sorted
  · simp only [List.length_map, decide_eq_true_eq]; rw [← hx]; exact hm'.len
  · rw [List.all_eq_true]
    intro o ho
    rw [List.mem_map] at ho
    obtain ⟨w, hw, rfl⟩ := ho
    have hwi := hm'.wins w hw
    simp only [Bool.and_eq_true]
    refine ⟨⟨⟨⟨?_, ?_⟩, ?_⟩, ?_⟩, aggregate_ok div _⟩
    · simp only [TW.wobs, beq_iff_eq]; exact hwi.stop
    · simp only [TW.wobs, List.all_eq_true, Bool.and_eq_true]
      intro x hx'; exact ⟨decide_eq_true (hwi.inside x hx').1, decide_eq_true (hwi.inside x hx').2⟩
    · exact decide_eq_true (hexp w hw)
    · rw [eventsAt_wobs]
      rcases hcls w hw with ⟨h1, h2⟩ | ⟨h1, h2⟩
      · have hcond : (w.start == tgt m.windows e.ts) = true := by simpa using h1
        simp only [TW.wobs, hcond, ↓reduceIte]
        rw [h1, h2]; exact keptByCap_popOver _ _
      · have hcond : (w.start == tgt m.windows e.ts) = false := by simpa using h1
        simp only [TW.wobs, hcond, Bool.false_eq_true, ↓reduceIte]
        rw [evAt_of_mem hdist h2]
        simp only [Bool.and_eq_true, beq_self_eq_true, true_and, List.any_eq_true]
        exact ⟨TW.wobs div w, List.mem_map_of_mem h2, by simp [TW.wobs]⟩
  · by_cases h0 : m.maxW = 0
    · simp [h0]
    · simp only [Bool.or_eq_true, List.any_eq_true]
      right
      obtain ⟨w, hw, hs⟩ := hex (by omega)
      exact ⟨TW.wobs div w, List.mem_map_of_mem hw, by simpa [TW.wobs] using hs⟩
  · rw [List.all_eq_true]
    intro o ho
    rw [List.mem_map] at ho
    obtain ⟨w, hw, rfl⟩ := ho
    by_cases h1 : w.start = tgt m.windows e.ts
    · have hst := (hm'.wins w hw).stop
      simp only [TW.wobs, Bool.or_eq_true, Bool.and_eq_true, bne_iff_ne, ne_eq]
      right
      exact ⟨decide_eq_true (by rw [h1]; exact hlo), decide_eq_true (by rw [hst, h1]; exact hhi)⟩
    · simp only [TW.wobs, Bool.or_eq_true, bne_iff_ne, ne_eq]
      left; exact h1
  · rw [beq_iff_eq, occurrences_wobs]
    have hold : e ∉ evAt m.windows (tgt m.windows e.ts) := by
      intro h
      obtain ⟨w, hw, hxw⟩ := evAt_subset h
      exact hfresh w hw hxw
    rw [sum_map_single (tgt m.windows e.ts) ((popOver m.cap (evAt m.windows (tgt m.windows e.ts) ++ [e])).count e)
          (fun w => w.events.count e) m'.windows hdist'
          (by
            intro w hw hne
            rcases hcls w hw with ⟨h1, _⟩ | ⟨_, h2⟩
            · exact absurd h1 hne
            · exact List.count_eq_zero_of_not_mem (hfresh w h2))
          (by
            intro w hw heq
            rcases hcls w hw with ⟨_, h2⟩ | ⟨h1, _⟩
            · rw [h2]
            · exact absurd heq h1),
        count_popOver_last _ _ _ hold]
    by_cases h0 : 1 ≤ m.maxW
    · obtain ⟨w, hw, hs⟩ := hex h0
      have hany : m'.windows.any (fun w => decide (w.start = tgt m.windows e.ts)) = true := by
        rw [List.any_eq_true]; exact ⟨w, hw, by simpa using hs⟩
      simp [hany, h0, hd]
    · have hlen := hm'.len
      have : m'.windows = [] := by
        cases hmw : m'.windows with
        | nil => rfl
        | cons a l => rw [hmw] at hlen; simp at hlen; omega
      simp [this, h0]
  · rcases hsurv with h | h
    · simp only [Bool.or_eq_true, beq_iff_eq, List.length_map]
      left; exact h
    · simp only [Bool.or_eq_true, List.all_eq_true]
      right
      intro o ho
      rw [List.mem_map] at ho
      obtain ⟨w0, hw0, rfl⟩ := ho
      by_cases hl : e.ts < w0.stop
      · obtain ⟨w, hw, hs⟩ := h w0 hw0 hl
        right
        rw [List.any_eq_true]
        exact ⟨TW.wobs div w, List.mem_map_of_mem hw, by simpa [TW.wobs] using hs⟩
      · left; simp [TW.wobs, hl]

theorem fseen_step {t : WType} {d : Nat} {m m' : WM} {seen : List Ev} (hd : 1 ≤ d) (hm : FInv t d m) (e : Ev)
    (hs : Seen seen m) (hp : m.process e = some m') : Seen (e :: seen) m' := by
  obtain ⟨m2, hp2, _, _, _, _, hcls, _⟩ := fprocess_full hd hm e
  rw [hp] at hp2
  cases hp2
  intro w hw x hx
  rcases hcls w hw with ⟨_, h2⟩ | ⟨_, h2⟩
  · rw [h2] at hx
    rcases List.mem_append.mp (mem_of_mem_popOver hx) with hx | hx
    · obtain ⟨w0, hw0, hxw⟩ := evAt_subset hx
      exact List.mem_cons_of_mem _ (hs w0 hw0 x hxw)
    · simp only [List.mem_singleton] at hx; subst hx; simp
  · exact List.mem_cons_of_mem _ (hs w h2 x hx)

theorem wmf_trace_ok (div : Int → Nat → Nat) {t : WType} {d : Nat} (hd : 1 ≤ d) (es : List Ev) (m : WM) (seen : List Ev)
    (tr : List (List WObs)) (hm : FInv t d m) (hs : Seen seen m) (hnd : es.Nodup) (hdisj : ∀ x ∈ es, x ∉ seen)
    (h : wmTrace div m es = some tr) :
    wmfRunOk div d m.cap m.maxW (m.windows.map (TW.wobs div)) es tr = true := by
  induction es generalizing m seen tr with
  | nil => simp [wmTrace] at h; subst h; simp [wmfRunOk]
  | cons e es ih =>
    simp only [wmTrace] at h
    cases hp : m.process e with
    | none => simp [hp] at h
    | some m' =>
      simp only [hp] at h
      cases ht : wmTrace div m' es with
      | none => simp [ht] at h
      | some rest =>
        simp only [ht, Option.map_some, Option.some.injEq] at h
        subst h
        obtain ⟨m2, hp2, hm', hc, hx, _⟩ := fprocess_full hd hm e
        rw [hp] at hp2
        cases hp2
        rw [List.nodup_cons] at hnd
        have hfresh : ∀ w ∈ m.windows, e ∉ w.events :=
          fun w hw hew => hdisj e (by simp) (hs w hw e hew)
        simp only [wmfRunOk, Bool.and_eq_true]
        refine ⟨wmf_step_ok div hd hm e hfresh hp, ?_⟩
        have := ih m' (e :: seen) rest hm' (fseen_step hd hm e hs hp) hnd.2
          (by
            intro x hx hmem
            rcases List.mem_cons.mp hmem with rfl | hmem
            · exact hnd.1 hx
            · exact hdisj x (List.mem_cons_of_mem _ hx) hmem)
          ht
        rw [hc, hx] at this
        exact this

theorem wmf_trace_defined (div : Int → Nat → Nat) {t : WType} {d : Nat} (hd : 1 ≤ d) (es : List Ev) (m : WM)
    (hm : FInv t d m) : ∃ tr, wmTrace div m es = some tr := by
  induction es generalizing m with
  | nil => exact ⟨[], rfl⟩
  | cons e es ih =>
    obtain ⟨m', hp, hm', _⟩ := fprocess_full hd hm e
    obtain ⟨rest, hr⟩ := ih m' hm'
    exact ⟨m'.windows.map (TW.wobs div) :: rest, by simp [wmTrace, hp, hr]⟩

/-! ### First, Last, CountDistinct, CountBy, Percentile -/

theorem dedup_length (l : List FVal) : (dedup l).length = distinctCount l := by
  induction l with
  | nil => rfl
  | cons x xs ih =>
    by_cases h : x ∈ xs
    · simp [dedup, distinctCount, h, ih]
    · simp [dedup, distinctCount, h, ih]; omega

theorem mem_dedup (l : List FVal) (v : FVal) : v ∈ dedup l ↔ v ∈ l := by
  induction l with
  | nil => simp [dedup]
  | cons x xs ih =>
    by_cases h : x ∈ xs
    · simp only [dedup, h, if_true, ih, List.mem_cons]
      constructor
      · exact Or.inr
      · rintro (rfl | h')
        · exact h
        · exact h'
    · simp only [dedup, h, if_false, List.mem_cons, ih]

theorem nodup_dedup (l : List FVal) : (dedup l).Nodup := by
  induction l with
  | nil => simp [dedup]
  | cons x xs ih =>
    by_cases h : x ∈ xs
    · simp only [dedup, h, if_true]; exact ih
    · simp only [dedup, h, if_false, List.nodup_cons]
      exact ⟨fun h' => h ((mem_dedup xs x).mp h'), ih⟩

def ckeys (m : List (Int × Nat)) : List Int := m.map (·.1)

theorem ckeys_bump (k : Int) (m : List (Int × Nat)) :
    ckeys (bumpCount k m) = if k ∈ ckeys m then ckeys m else ckeys m ++ [k] := by
  induction m with
  | nil => simp [bumpCount, ckeys]
  | cons p rest ih =>
    simp only [bumpCount]
    by_cases h : p.1 = k
    · simp [h, ckeys]
    · have h' : ¬ k = p.1 := fun h'' => h h''.symm
      simp only [h, if_false]
      simp only [ckeys, List.map_cons, List.mem_cons, h', false_or] at ih ⊢
      rw [ih]; by_cases hk : k ∈ List.map (fun x => x.fst) rest <;> simp [hk]

theorem bump_other {k : Int} {m : List (Int × Nat)} {p : Int × Nat} (hp : p.1 ≠ k) :
    p ∈ bumpCount k m ↔ p ∈ m := by
  induction m with
  | nil => simp only [bumpCount, List.mem_singleton, List.not_mem_nil, iff_false]; intro h; exact hp (h ▸ rfl)
  | cons q rest ih =>
    simp only [bumpCount]
    by_cases h : q.1 = k
    · simp only [h, if_true, List.mem_cons]
      constructor
      · rintro (h1 | h1)
        · exact absurd (h1 ▸ rfl : p.1 = k) hp
        · exact Or.inr h1
      · rintro (h1 | h1)
        · exact absurd (h1 ▸ h : p.1 = k) hp
        · exact Or.inr h1
    · simp only [h, if_false, List.mem_cons, ih]

theorem bump_same {k : Int} {m : List (Int × Nat)} {p : Int × Nat}
    (hn : (ckeys m).Nodup) (hp : p.1 = k) (hm : p ∈ bumpCount k m) :
    (∃ q ∈ m, q.1 = k ∧ p.2 = q.2 + 1) ∨ (k ∉ ckeys m ∧ p.2 = 1) := by
  induction m with
  | nil =>
    simp only [bumpCount, List.mem_singleton] at hm
    right; subst hm; simp [ckeys]
  | cons q rest ih =>
    simp only [ckeys, List.map_cons, List.nodup_cons] at hn
    simp only [bumpCount] at hm
    by_cases h : q.1 = k
    · simp only [h, if_true, List.mem_cons] at hm
      rcases hm with hm | hm
      · left; exact ⟨q, by simp, h, by rw [hm]⟩
      · exfalso; apply hn.1; rw [h, ← hp]; exact List.mem_map_of_mem hm
    · simp only [h, if_false, List.mem_cons] at hm
      rcases hm with hm | hm
      · exact absurd (hm ▸ hp) h
      · rcases ih hn.2 hm with ⟨q', hq', h1, h2⟩ | ⟨h1, h2⟩
        · left; exact ⟨q', List.mem_cons_of_mem _ hq', h1, h2⟩
        · right; refine ⟨?_, h2⟩
          simp only [ckeys, List.map_cons, List.mem_cons, not_or]
          exact ⟨fun hk => h hk.symm, h1⟩

/-- what the counting loop maintains: one entry per key seen, carrying the number of its occurrences -/
structure CInv (seen : List Int) (m : List (Int × Nat)) : Prop where
  nodup : (ckeys m).Nodup
  count : ∀ p ∈ m, p.2 = seen.count p.1 ∧ 1 ≤ p.2
  cover : ∀ k ∈ seen, k ∈ ckeys m

theorem cinv_step {seen : List Int} {m : List (Int × Nat)} (h : CInv seen m) (k : Int) :
    CInv (seen ++ [k]) (bumpCount k m) := by
  obtain ⟨hn, hc, hv⟩ := h
  have hkeys := ckeys_bump k m
  constructor
  · rw [hkeys]; split
    · exact hn
    · rename_i hk
      rw [List.nodup_append]
      exact ⟨hn, by simp, by intro a ha b hb; simp at hb; subst hb; intro hab; exact hk (hab ▸ ha)⟩
  · intro p hp
    by_cases hpk : p.1 = k
    · rcases bump_same hn hpk hp with ⟨q, hq, h1, h2⟩ | ⟨h1, h2⟩
      · have := hc q hq
        rw [h2, this.1, List.count_append, hpk, h1]; simp
      · have h0 : seen.count k = 0 := List.count_eq_zero_of_not_mem (fun hk => h1 (hv k hk))
        rw [h2, List.count_append, hpk, h0]; simp
    · have hp' := (bump_other hpk).mp hp
      have := hc p hp'
      refine ⟨?_, this.2⟩
      rw [this.1, List.count_append]
      have : List.count p.1 [k] = 0 := by
        rw [List.count_eq_zero]; simp; exact fun h => hpk h
      omega
  · intro x hx
    rw [hkeys]
    rcases List.mem_append.mp hx with hx | hx
    · split
      · exact hv x hx
      · exact List.mem_append_left _ (hv x hx)
    · simp only [List.mem_singleton] at hx; subst hx
      split
      · assumption
      · simp

theorem cinv_fold (ks seen : List Int) (m : List (Int × Nat)) (h : CInv seen m) :
    CInv (seen ++ ks) (ks.foldl (fun m k => bumpCount k m) m) := by
  induction ks generalizing seen m with
  | nil => simpa using h
  | cons k ks ih =>
    have := ih (seen ++ [k]) _ (cinv_step h k)
    simpa [List.append_assoc] using this

theorem strictIncInt_of_pairwise : ∀ (l : List Int), l.Pairwise (· < ·) → strictIncInt l = true
  | [], _ => rfl
  | [_], _ => rfl
  | a :: b :: rest, h => by
    rw [List.pairwise_cons] at h
    simp only [strictIncInt, Bool.and_eq_true, decide_eq_true_eq]
    exact ⟨h.1 b (by simp), strictIncInt_of_pairwise (b :: rest) h.2⟩

theorem sortByKey_perm (l : List (Int × Nat)) : (sortByKey l).Perm l := List.mergeSort_perm _ _

theorem sortByKey_strict (l : List (Int × Nat)) (hn : (ckeys l).Nodup) :
    ((sortByKey l).map (·.1)).Pairwise (· < ·) := by
  have hs : (sortByKey l).Pairwise (fun a b => decide (a.1 ≤ b.1) = true) :=
    List.pairwise_mergeSort (le := fun a b : Int × Nat => decide (a.1 ≤ b.1))
      (by intro a b c h1 h2; simp only [decide_eq_true_eq] at *; omega)
      (by intro a b; simp only [Bool.or_eq_true, decide_eq_true_eq]; omega) l
  have hn0 : l.Pairwise (fun a b => a.1 ≠ b.1) := by
    simpa [ckeys, List.Nodup, List.pairwise_map] using hn
  have hn' : (sortByKey l).Pairwise (fun a b => a.1 ≠ b.1) :=
    ((sortByKey_perm l).pairwise_iff (fun h => Ne.symm h)).mpr hn0
  rw [List.pairwise_map]
  refine (hs.and hn').imp ?_
  intro a b ⟨h1, h2⟩
  simp only [decide_eq_true_eq] at h1
  omega

theorem countBy_ok (ks : List Int) : countByOk ks (sortByKey (ks.foldl (fun m k => bumpCount k m) [])) = true := by
  have h := cinv_fold ks [] [] ⟨by simp [ckeys], by simp, by simp⟩
  simp only [List.nil_append] at h
  generalize ks.foldl (fun m k => bumpCount k m) [] = m at h
  simp only [countByOk, Bool.and_eq_true]
  refine ⟨⟨?_, ?_⟩, ?_⟩
  · exact strictIncInt_of_pairwise _ (sortByKey_strict m h.nodup)
  · rw [List.all_eq_true]
    intro p hp
    have := h.count p ((sortByKey_perm m).mem_iff.mp hp)
    simp [this.1.symm, this.2]
  · rw [List.all_eq_true]
    intro k hk
    have := h.cover k hk
    simp only [ckeys, List.mem_map] at this
    obtain ⟨p, hp, hpk⟩ := this
    rw [List.any_eq_true]
    exact ⟨p, (sortByKey_perm m).mem_iff.mpr hp, by simp [hpk]⟩

/-! order statistics of a sorted list -/

theorem sortInts_perm (l : List Int) : (sortInts l).Perm l := List.mergeSort_perm _ _

theorem sortInts_sorted (l : List Int) : (sortInts l).Pairwise (· ≤ ·) := by
  have hs : (sortInts l).Pairwise (fun a b => decide (a ≤ b) = true) :=
    List.pairwise_mergeSort (le := fun a b : Int => decide (a ≤ b))
      (by intro a b c h1 h2; simp only [decide_eq_true_eq] at *; omega)
      (by intro a b; simp only [Bool.or_eq_true, decide_eq_true_eq]; omega) l
  exact hs.imp (fun h => by simpa using h)

theorem countP_eq_zero_of {p : Int → Bool} {l : List Int} (h : ∀ x ∈ l, p x = false) : l.countP p = 0 := by
  rw [List.countP_eq_zero]; intro x hx; simp [h x hx]

theorem countP_eq_length_of {p : Int → Bool} {l : List Int} (h : ∀ x ∈ l, p x = true) : l.countP p = l.length := by
  rw [List.countP_eq_length]; exact h

/-- in a sorted list the element at position `i` has at most `i` elements strictly below it and more than `i`
elements at or below it -/
theorem sorted_rank {s : List Int} (hs : s.Pairwise (· ≤ ·)) {i : Nat} {r : Int} (hi : s[i]? = some r) :
    s.countP (fun x => decide (x < r)) ≤ i ∧ i < s.countP (fun x => decide (x ≤ r)) := by
  obtain ⟨hlt, hget⟩ := List.getElem?_eq_some_iff.mp hi
  have hsplit : s = s.take i ++ r :: s.drop (i + 1) := by
    rw [← hget]; simp
  have hlen : (s.take i).length = i := by rw [List.length_take]; omega
  rw [hsplit] at hs
  rw [List.pairwise_append] at hs
  obtain ⟨_, hb, hab⟩ := hs
  rw [List.pairwise_cons] at hb
  have ha_le : ∀ x ∈ s.take i, x ≤ r := fun x hx => hab x hx r (by simp)
  have hb_ge : ∀ y ∈ s.drop (i + 1), r ≤ y := hb.1
  constructor
  · rw [hsplit, List.countP_append, List.countP_cons]
    have h1 : (s.take i).countP (fun x => decide (x < r)) ≤ i := by
      have := List.countP_le_length (p := fun x => decide (x < r)) (l := s.take i)
      omega
    have h2 : (s.drop (i + 1)).countP (fun x => decide (x < r)) = 0 :=
      countP_eq_zero_of (fun y hy => by have := hb_ge y hy; simp; omega)
    simp only [h2, Int.lt_irrefl, decide_false, Bool.false_eq_true, if_false]
    omega
  · rw [hsplit, List.countP_append, List.countP_cons]
    have h1 : (s.take i).countP (fun x => decide (x ≤ r)) = i := by
      rw [countP_eq_length_of (fun x hx => by simpa using ha_le x hx), hlen]
    simp only [h1, Int.le_refl, decide_true, if_true]
    omega

theorem pctIndex_lt (p n : Nat) (hp : p ≤ 100) (hn : 1 ≤ n) : pctIndex p n < n := by
  unfold pctIndex
  have : p * (n - 1) ≤ 100 * (n - 1) := Nat.mul_le_mul_right _ hp
  omega

theorem percentile_ok (p : Nat) (hp : p ≤ 100) (es : List AEv) : pctOk (avals es) p (aggPercentile p es) = true := by
  unfold aggPercentile
  by_cases he : (avals es).isEmpty = true
  · simp [he, pctOk]
  · simp only [he, Bool.false_eq_true, if_false]
    have hne : (avals es) ≠ [] := by simpa using he
    have hlen : 1 ≤ (avals es).length := List.length_pos_iff.mpr hne
    have hidx := pctIndex_lt p (avals es).length hp hlen
    have hl : (sortInts (avals es)).length = (avals es).length := (sortInts_perm _).length_eq
    have hsome : (sortInts (avals es))[pctIndex p (avals es).length]?
        = some ((sortInts (avals es))[pctIndex p (avals es).length]'(by omega)) :=
      List.getElem?_eq_getElem (by omega)
    rw [hsome]
    obtain ⟨h1, h2⟩ := sorted_rank (sortInts_sorted (avals es)) hsome
    rw [(sortInts_perm (avals es)).countP_eq] at h1 h2
    simp only [pctOk, he, Bool.not_false, Bool.true_and, rankOk, Bool.and_eq_true, List.contains_eq_mem,
      decide_eq_true_eq]
    refine ⟨⟨?_, h1⟩, h2⟩
    exact (sortInts_perm (avals es)).mem_iff.mp (List.getElem_mem _)

theorem aggregate2_ok (es : List AEv) : agg2Ok es (aggregate2 es) = true := by
  simp only [agg2Ok, aggregate2, Bool.and_eq_true, beq_iff_eq, aggFirst, aggLast, aggCountDistinct, dedup_length,
    aggCountBy, countBy_ok, aggStdDevDefined, List.length_map, List.length_cons, List.length_nil, true_and, and_true]
  simp only [List.map_cons, List.map_nil, List.zip_cons_cons, List.zip_nil_right, List.all_cons, List.all_nil,
    Bool.and_true, Bool.and_eq_true]
  exact ⟨percentile_ok 0 (by omega) es, percentile_ok 25 (by omega) es, percentile_ok 50 (by omega) es,
         percentile_ok 75 (by omega) es, percentile_ok 100 (by omega) es⟩

/-! ### extremes over the extended reals -/

/-- `xExtremeOk` on the list of numeric values itself -/
def xExtP (le : XNum → XNum → Bool) (v : List XNum) (r : Option XNum) : Bool :=
  match r with
  | none => v.isEmpty
  | some .nan => !v.isEmpty && (v.filter (· != .nan)).isEmpty
  | some x => (v.filter (· != .nan)).contains x && (v.filter (· != .nan)).all (fun y => le x y)

theorem xExtremeOk_eq (le : XNum → XNum → Bool) (vs : List (Option XNum)) (r : Option XNum) :
    xExtremeOk le vs r = xExtP le (vs.filterMap id) r := by
  unfold xExtremeOk xExtP
  rfl

theorem XNum.le_refl (a : XNum) : a.le a = true := by
  simp [XNum.le]

theorem XNum.le_total (a b : XNum) : a.le b = true ∨ b.le a = true := by
  simp only [XNum.le, Bool.or_eq_true, Bool.and_eq_true, decide_eq_true_eq]
  omega

theorem XNum.le_trans (a b c : XNum) (h1 : a.le b = true) (h2 : b.le c = true) : a.le c = true := by
  simp only [XNum.le, Bool.or_eq_true, Bool.and_eq_true, decide_eq_true_eq] at *
  omega

/-- what the step lemma needs of `(le, op)`: `op` skips NaN, picks an operand, and the pick is `le` both -/
structure ExtOp (le : XNum → XNum → Bool) (op : XNum → XNum → XNum) : Prop where
  nanL : ∀ b, op .nan b = b
  nanR : ∀ a, op a .nan = a
  refl : ∀ a, le a a = true
  trans : ∀ a b c, le a b = true → le b c = true → le a c = true
  pick : ∀ a b, a ≠ .nan → b ≠ .nan → (op a b = a ∧ le a b = true) ∨ (op a b = b ∧ le b a = true)

theorem extOp_min : ExtOp XNum.le XNum.fmin where
  nanL := by intro b; cases b <;> rfl
  nanR := by intro a; cases a <;> rfl
  refl := XNum.le_refl
  trans := XNum.le_trans
  pick := by
    intro a b ha hb
    have h : XNum.fmin a b = if a.le b then a else b := by
      cases a <;> cases b <;> first | rfl | contradiction
    rw [h]
    cases hab : a.le b
    · right; refine ⟨by simp, ?_⟩
      rcases XNum.le_total a b with h' | h'
      · rw [hab] at h'; contradiction
      · exact h'
    · left; simp

theorem extOp_max : ExtOp (fun a b => XNum.le b a) XNum.fmax where
  nanL := by intro b; cases b <;> rfl
  nanR := by intro a; cases a <;> rfl
  refl := XNum.le_refl
  trans := fun a b c h1 h2 => XNum.le_trans c b a h2 h1
  pick := by
    intro a b ha hb
    have h : XNum.fmax a b = if a.le b then b else a := by
      cases a <;> cases b <;> first | rfl | contradiction
    rw [h]
    cases hab : a.le b
    · left; refine ⟨by simp, ?_⟩
      rcases XNum.le_total a b with h' | h'
      · rw [hab] at h'; contradiction
      · exact h'
    · right; simp

theorem nn_append (p : List XNum) (x : XNum) :
    (p ++ [x]).filter (· != .nan) = p.filter (· != .nan) ++ (if x = .nan then [] else [x]) := by
  rw [List.filter_append]
  by_cases hx : x = .nan <;> simp [hx]

theorem xExtP_step {le op} (H : ExtOp le op) (p : List XNum) (acc : Option XNum) (x : XNum)
    (h : xExtP le p acc = true) : xExtP le (p ++ [x]) (xFold op acc x) = true := by
  cases acc with
  | none =>
    have hp : p = [] := by simpa [xExtP] using h
    subst hp
    by_cases hx : x = .nan
    · subst hx; simp [xFold, xExtP]
    · have : xExtP le [x] (some x) = ((([x].filter (· != .nan)).contains x) && (([x].filter (· != .nan)).all (fun y => le x y))) := by
        cases x <;> first | rfl | contradiction
      simp [xFold, this, hx, H.refl]
  | some m =>
    by_cases hm : m = .nan
    · subst hm
      have hp : p ≠ [] ∧ p.filter (· != .nan) = [] := by simpa [xExtP] using h
      simp only [xFold, H.nanL]
      by_cases hx : x = .nan
      · subst hx
        simp [xExtP, hp.2]
      · have : ∀ q, xExtP le q (some x) = (((q.filter (· != .nan)).contains x) && ((q.filter (· != .nan)).all (fun y => le x y))) := by
          intro q; cases x <;> first | rfl | contradiction
        rw [this, nn_append, hp.2]
        simp [hx, H.refl]
    · have hE : ∀ (y : XNum), y ≠ .nan → ∀ q, xExtP le q (some y) = (((q.filter (· != .nan)).contains y) && ((q.filter (· != .nan)).all (fun z => le y z))) := by
        intro y hy q; cases y <;> first | rfl | contradiction
      rw [hE m hm] at h
      simp only [Bool.and_eq_true, List.contains_eq_mem, decide_eq_true_eq, List.all_eq_true] at h
      obtain ⟨hmem, hall⟩ := h
      simp only [xFold]
      by_cases hx : x = .nan
      · subst hx
        rw [H.nanR, hE m hm, nn_append]
        simp only [if_true, List.append_nil, Bool.and_eq_true, List.contains_eq_mem, decide_eq_true_eq, List.all_eq_true]
        exact ⟨hmem, hall⟩
      · rcases H.pick m x hm hx with ⟨ho, hle⟩ | ⟨ho, hle⟩
        · rw [ho, hE m hm, nn_append, if_neg hx]
          simp only [Bool.and_eq_true, List.contains_eq_mem, decide_eq_true_eq, List.all_eq_true, List.mem_append,
            List.mem_singleton]
          refine ⟨Or.inl hmem, ?_⟩
          rintro y (hy | rfl)
          · exact hall y hy
          · exact hle
        · rw [ho, hE x hx, nn_append, if_neg hx]
          simp only [Bool.and_eq_true, List.contains_eq_mem, decide_eq_true_eq, List.all_eq_true, List.mem_append,
            List.mem_singleton]
          refine ⟨Or.inr trivial, ?_⟩
          rintro y (hy | rfl)
          · exact H.trans _ _ _ hle (hall y hy)
          · exact H.refl _

theorem xExtP_foldl {le op} (H : ExtOp le op) (v p : List XNum) (acc : Option XNum)
    (h : xExtP le p acc = true) : xExtP le (p ++ v) (v.foldl (xFold op) acc) = true := by
  induction v generalizing p acc with
  | nil => simpa using h
  | cons x v ih =>
    have := ih (p ++ [x]) (xFold op acc x) (xExtP_step H p acc x h)
    simpa using this

theorem xMin_ok (vs : List (Option XNum)) : xMinOk vs (xMin vs) = true := by
  unfold xMinOk xMin
  rw [xExtremeOk_eq]
  simpa using xExtP_foldl extOp_min (vs.filterMap id) [] none rfl

theorem xMax_ok (vs : List (Option XNum)) : xMaxOk vs (xMax vs) = true := by
  unfold xMaxOk xMax
  rw [xExtremeOk_eq]
  simpa using xExtP_foldl extOp_max (vs.filterMap id) [] none rfl

theorem XNum.key_inj (a b : XNum) (h1 : a.key.1 = b.key.1) (h2 : a.key.2 = b.key.2) : a = b := by
  cases a <;> cases b <;> simp_all [XNum.key]

theorem XNum.le_antisymm (a b : XNum) (h1 : a.le b = true) (h2 : b.le a = true) : a = b := by
  simp only [XNum.le, Bool.or_eq_true, Bool.and_eq_true, decide_eq_true_eq] at h1 h2
  exact XNum.key_inj a b (by omega) (by omega)

theorem xExtP_some {le} (y : XNum) (hy : y ≠ .nan) (q : List XNum) :
    xExtP le q (some y) = (((q.filter (· != .nan)).contains y) && ((q.filter (· != .nan)).all (fun z => le y z))) := by
  cases y <;> first | rfl | contradiction

/-- the clause determines the answer -/
theorem xExtP_unique {le : XNum → XNum → Bool} (anti : ∀ a b, le a b = true → le b a = true → a = b)
    (v : List XNum) (r r' : Option XNum) (h : xExtP le v r = true) (h' : xExtP le v r' = true) : r = r' := by
  have key : ∀ (s t : Option XNum), xExtP le v s = true → xExtP le v t = true → s = none → t = none := by
    intro s t hs ht e
    subst e
    have hv : v = [] := by simpa [xExtP] using hs
    subst hv
    cases t with
    | none => rfl
    | some y =>
      by_cases hy : y = .nan
      · subst hy; simp [xExtP] at ht
      · rw [xExtP_some y hy] at ht; simp at ht
  have key2 : ∀ (s t : Option XNum), xExtP le v s = true → xExtP le v t = true → s = some .nan → t ≠ none → t = some .nan := by
    intro s t hs ht e hn
    subst e
    have hv : v ≠ [] ∧ v.filter (· != .nan) = [] := by simpa [xExtP] using hs
    cases t with
    | none => contradiction
    | some y =>
      by_cases hy : y = .nan
      · subst hy; rfl
      · rw [xExtP_some y hy, hv.2] at ht; simp at ht
  cases r with
  | none => exact (key _ _ h h' rfl).symm
  | some x =>
    cases r' with
    | none => exact key _ _ h' h rfl
    | some y =>
      by_cases hx : x = .nan
      · subst hx; exact (key2 _ _ h h' rfl (by simp)).symm
      · by_cases hy : y = .nan
        · subst hy; exact key2 _ _ h' h rfl (by simp)
        · rw [xExtP_some x hx] at h
          rw [xExtP_some y hy] at h'
          simp only [Bool.and_eq_true, List.contains_eq_mem, decide_eq_true_eq, List.all_eq_true] at h h'
          rw [anti x y (h.2 y h'.1) (h'.2 x h.1)]

/-! ### durations -/

theorem dur_millis_roundtrip (n : Nat) : (Dur.fromMillis n).asMillis = n := by
  simp only [Dur.fromMillis, Dur.asMillis]
  omega

theorem dur_micros_truncates (n : Nat) : (Dur.fromMicros n).asMillis = n / 1000 := by
  simp only [Dur.fromMicros, Dur.asMillis]
  omega

end C12
