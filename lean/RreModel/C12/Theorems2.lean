import RreModel.C12.Lemmas2
import RreModel.C12.Theorems
/-
C12 — property theorems for the second part of the model (`Model2.lean`): sums as folds in the code's order, StdDev and
percentiles over abstract float operations, the stream operators of operators.rs (keyed / grouped / windowed), moving
average and window statistics, field extraction. All statements are for every event list / history; floats are a parameter.
-/
namespace C12

/-! ## sums -/

/-- `TimeWindow::sum` over all of f64 (`XV` cases): the fold the code performs — left to right over the numeric values in the
order the deque holds them, from zero, with IEEE addition on the value classes (`xSumFold`) — equals the sum of exactly the
window's numeric values as the oracle states it (`xSum`: NaN iff both infinities occur, else the infinity that occurs, else
the integer sum), for EVERY value list without NaN and `±f64::MAX` (the values for which the order of addition matters;
there the oracle clause is the fold itself). -/
theorem xsum_meets_spec (vs : List (Option XNum)) (h : xSumComparable vs = true) : xSumFold vs = xSum vs := by
  have hv : ∀ x ∈ vs.filterMap id, x.comparable = true := by
    intro x hx
    unfold xSumComparable at h
    exact List.all_eq_true.mp h x hx
  rw [xSum_eq_xSumL, xSumFold, xfoldl_add_eq (by rfl) _ hv, add_zero_plain (xSumL_plain _)]

example : xSumFold [some (.fin 3), none, some .pinf, some (.fin (-5))] = .pinf
    ∧ xSumFold [some .ninf, some (.fin 1), some .pinf] = .nan
    ∧ xSumFold [some (.fin 3), none, some (.fin (-5))] = .fin (-2) := by decide

/-- where the order matters the fold shows it: `MAX + MAX + (-MAX) = +inf` but `MAX + (-MAX) + MAX = MAX` -/
example : xSumFold [some .hi, some .hi, some .lo] = .pinf ∧ xSumFold [some .hi, some .lo, some .hi] = .hi := by decide

/-- The sum over abstract floats (`TimeWindow::sum`, `Aggregator` Sum, `operators::Sum`, and the numerator of every average) is
the left fold of `add` from `zero` over the numeric views of exactly the given events, in their order, non-numeric events
skipped; appending an event (the only way a window grows) adds its value last — the invariant of any incremental use. -/
theorem sum_is_fold {F : Type} (ops : FOps F) (es : List Ev) :
    sumF ops es = es.foldl (fun acc e => match e.val with | none => acc | some v => ops.add acc (ops.ofInt v)) ops.zero
    ∧ ∀ e, sumF ops (es ++ [e]) = (match e.val with | none => sumF ops es | some v => ops.add (sumF ops es) (ops.ofInt v)) := by
  constructor
  · unfold sumF fsum vals
    generalize ops.zero = z
    induction es generalizing z with
    | nil => rfl
    | cons e es ih =>
      cases hv : e.val with
      | none => simpa [List.filterMap_cons, hv] using ih z
      | some v => simpa [List.filterMap_cons, hv] using ih (ops.add z (ops.ofInt v))
  · intro e
    unfold sumF fsum vals
    cases hv : e.val with
    | none => simp [List.filterMap_append, hv]
    | some v => simp [List.filterMap_append, hv, List.foldl_append]

/-- after `record` the sum is the fold over exactly the events the window retains: the young ones, newest `cap` of them -/
theorem record_sum_is_fold {F : Type} (ops : FOps F) (w : TW) (e : Ev) :
    sumF ops (w.record e).events
      = fsum ops ((vals (popOver (w.slide e.ts).cap
          (((w.slide e.ts).events ++ [e]).filter fun x => decide ((w.slide e.ts).start ≤ x.ts)))).map ops.ofInt) := rfl

example : sumF (F := Int) ⟨0, id, Int.ofNat, (· + ·), (· - ·), (· * ·), (· / ·), id⟩
    [⟨0, 1, some 4⟩, ⟨1, 2, none⟩, ⟨2, 3, some (-2)⟩] = 2 := by decide

/-! ## StdDev and percentiles -/

/-- `calculate_std_dev`: defined exactly from two numeric values on; its value is `sqrt (Σ (v − mean)² / n)` with
`mean = Σ v / n`, every `Σ` the left fold from zero over the numeric values of exactly the window's events in the order the
deque holds them, every operation the float parameter's. What is left to that parameter: rounding (the oracle `stdOk` bounds
it: the square of the answer is the exact variance up to `2^-20`). -/
theorem stddev_is_fold {F : Type} (ops : FOps F) (es : List AEv) :
    (aggStdDev ops es = none ↔ (avals es).length < 2)
    ∧ ∀ r, aggStdDev ops es = some r →
        let vs := (avals es).map ops.ofInt
        let n := ops.ofNat (avals es).length
        let mean := ops.div (vs.foldl ops.add ops.zero) n
        r = ops.sqrt (ops.div ((vs.map fun v => ops.mul (ops.sub v mean) (ops.sub v mean)).foldl ops.add ops.zero) n) := by
  unfold aggStdDev stdDevF fsum
  simp only [List.length_map]
  by_cases h : (avals es).length < 2
  · simp [h]
  · simp only [h, if_false, reduceCtorEq, true_and, Option.some.injEq]
    intro r hr
    exact hr.symm

example : aggStdDev (F := Int) ⟨0, id, Int.ofNat, (· + ·), (· - ·), (· * ·), (· / ·), id⟩
    [⟨0, .num 2⟩, ⟨1, .str 9⟩, ⟨2, .int 4⟩, ⟨3, .num 6⟩] = some 2 := by decide

/-- The oracle clause for StdDev states the letter: `varNum vs / n²` is the mean of the squared deviations from the exact mean
`Σv / n` — over the integers, every term scaled by `n`: `Σ (n·v − Σv)² = n · varNum vs` — so `stdOk` accepts an answer exactly
when its square is that population variance up to the stated relative error `2^-20`. What remains between `stddev_is_fold`
(the formula the code evaluates, over abstract operations) and `stdOk` is the rounding of the float operations: checked on
every generated case, not proved. -/
theorem stddev_oracle_is_variance (vs : List Int) :
    (vs.map fun v => (Int.ofNat vs.length * v - vs.sum) * (Int.ofNat vs.length * v - vs.sum)).sum
      = Int.ofNat vs.length * varNum vs := by
  rw [sq_dev_sum, varNum]
  grind

/-- 2.0 (and its neighbour) is accepted for values of variance 4, nothing but +0.0 for equal values, `None` below two values -/
example : stdOk [2, 4, 4, 4, 5, 5, 7, 9] (some 4611686018427387904) = true
    ∧ stdOk [2, 4, 4, 4, 5, 5, 7, 9] (some 4611686018427387905) = true
    ∧ stdOk [2, 4, 4, 4, 5, 5, 7, 9] (some 4611996969317966890) = false   -- the sample deviation sqrt(32/7)
    ∧ stdOk [1, 1] (some 0) = true ∧ stdOk [1, 3] (some 0) = false ∧ stdOk [5] none = true ∧ stdOk [5, 6] none = false := by
  decide +kernel

/-- `calculate_percentile` for ANY percentile: with `idx n` the index the code computes from the percentile and the number `n`
of numeric values, the answer is the element at that index of the ascending sort of exactly the window's numeric values —
`None` iff there is no numeric value or the index lies beyond the end; otherwise a member with at most `idx` values strictly
below and more than `idx` values at or below it. -/
theorem percentile_picks_sorted_index (idx : Nat → Nat) (es : List AEv) :
    (sortInts (avals es)).Perm (avals es) ∧ (sortInts (avals es)).Pairwise (· ≤ ·)
    ∧ (aggPercentileAt idx es = none ↔ (avals es = [] ∨ (avals es).length ≤ idx (avals es).length))
    ∧ ∀ r, aggPercentileAt idx es = some r →
        (sortInts (avals es))[idx (avals es).length]? = some r
        ∧ r ∈ avals es
        ∧ (avals es).countP (fun x => decide (x < r)) ≤ idx (avals es).length
        ∧ idx (avals es).length < (avals es).countP (fun x => decide (x ≤ r)) := by
  obtain ⟨h1, h2⟩ := percentileAt_spec idx es
  refine ⟨sortInts_perm _, sortInts_sorted _, h1, ?_⟩
  intro r hr
  obtain ⟨a, _, c⟩ := h2 r hr
  simp only [rankOk, Bool.and_eq_true, List.contains_eq_mem, decide_eq_true_eq] at c
  exact ⟨a, c.1.1, c.1.2, c.2⟩

/-- … hence the oracle clause for the percentile `k / 10`: whenever the index the float computation yields is one of the
admissible ranks (within one half of `k/1000 · (n − 1)`; negative reads as 0) the model's answer satisfies `pctOkQ`. That
premise is what is left to the float parameter. -/
theorem percentile_index_meets_spec (idx : Nat → Nat) (k : Int) (es : List AEv)
    (hidx : idx (avals es).length ∈ pctRanks k (avals es).length) :
    pctOkQ (avals es) k (aggPercentileAt idx es) = true := by
  obtain ⟨h1, h2⟩ := percentileAt_spec idx es
  cases hr : aggPercentileAt idx es with
  | none =>
    rcases h1.mp hr with h | h
    · simp [pctOkQ, h]
    · simp only [pctOkQ, Bool.or_eq_true, List.any_eq_true, decide_eq_true_eq]
      exact Or.inr ⟨_, hidx, h⟩
  | some r =>
    obtain ⟨_, b, c⟩ := h2 r hr
    have hne : (avals es).isEmpty = false := by
      cases hl : avals es with
      | nil => rw [hl] at b; simp at b
      | cons _ _ => rfl
    simp only [pctOkQ, hne, Bool.not_false, Bool.true_and, List.any_eq_true, Bool.and_eq_true, decide_eq_true_eq]
    exact ⟨_, hidx, b, c⟩

/-- the exact index of the quarters (`Model.pctIndex`) is an admissible rank: the earlier `aggregates2_are_exact` is an instance -/
example : pctIndex 50 4 ∈ pctRanks 500 4 ∧ pctIndex 25 9 ∈ pctRanks 250 9 ∧ pctRanks 333 10 = [3, 3] ∧ pctRanks 500 4 = [1, 2]
    ∧ pctRanks (-50) 7 = [0, 0] := by decide

example : aggPercentileAt (fun _ => 2) [⟨0, .num 7⟩, ⟨1, .str 1⟩, ⟨2, .int (-4)⟩, ⟨3, .num 5⟩, ⟨4, .int 9⟩] = some 7
    ∧ aggPercentileAt (fun n => n) [⟨0, .num 7⟩] = none := by
  constructor <;> simp [aggPercentileAt, avals, FVal.numeric, sortInts, List.mergeSort, List.MergeSort.Internal.splitInTwo]

/-! ## operators.rs: keyed, grouped and windowed streams -/

/-- `key_by` / `group_by` partition the events by key: one group per key that occurs (keys pairwise distinct), holding exactly
the events of that key in arrival order, none empty; every event's key has its group. -/
theorem keyBy_partition (k : Ev → Nat) (es : List Ev) :
    ((keyBy k es).map (·.1)).Nodup
    ∧ (∀ p ∈ keyBy k es, p.2 = es.filter (fun x => decide (k x = p.1)) ∧ ∃ x ∈ es, k x = p.1)
    ∧ (∀ x ∈ es, k x ∈ (keyBy k es).map (·.1)) := by
  obtain ⟨a, b, c, d⟩ := kinv_keyBy k es
  exact ⟨a, fun p hp => ⟨b p hp, d p hp⟩, c⟩

example : keyBy (fun e => e.id % 2) [ev 0 5, ev 1 7, ev 2 6, ev 3 1] = [(0, [ev 0 5, ev 2 6]), (1, [ev 1 7, ev 3 1])] := by decide

/-- Keyed windowing is the single-stream constructor applied to each key's events on their own:
`key_by(k).window(cfg)` has one entry per key that occurs, and the entry of key `q` is `WindowedStream::new` of exactly the
events of key `q` (arrival order); it fails (division by zero) exactly for a tumbling configuration below 1 ms with at least
one event. -/
theorem keyed_windowed_per_key (k : Ev → Nat) (t : WType) (d cap : Nat) (es : List Ev) :
    (keyedWindowed k t d cap es = none ↔ (t = .tumbling ∧ d = 0 ∧ es ≠ []))
    ∧ ∀ r, keyedWindowed k t d cap es = some r →
        (r.map (·.1)).Nodup
        ∧ (∀ p ∈ r, windowedStream t d cap (es.filter fun x => decide (k x = p.1)) = some p.2 ∧ ∃ x ∈ es, k x = p.1)
        ∧ (∀ x ∈ es, k x ∈ r.map (·.1)) := by
  obtain ⟨hn, hc, hv, hu⟩ := kinv_keyBy k es
  constructor
  · unfold keyedWindowed
    rw [windowEach_none]
    constructor
    · rintro ⟨g, hg, hw⟩
      obtain ⟨x, hx, _⟩ := hu g hg
      have hne : g.2 ≠ [] := by
        rw [hc g hg]; intro h
        have := List.filter_eq_nil_iff.mp h x hx
        simp_all
      cases t with
      | tumbling =>
        have := (ws_defined_iff d cap g.2).mp (by simpa [windowedStream] using hw)
        exact ⟨rfl, this.1, fun h => by subst h; cases hx⟩
      | sliding => simp [windowedStream] at hw
      | session => simp [windowedStream] at hw
    · rintro ⟨rfl, rfl, hne⟩
      obtain ⟨x, xs, rfl⟩ := List.exists_cons_of_ne_nil hne
      have hk := hv x (by simp)
      obtain ⟨g, hg, hgk⟩ := List.mem_map.mp hk
      refine ⟨g, hg, ?_⟩
      have hne : g.2 ≠ [] := by
        rw [hc g hg]; intro h
        have := List.filter_eq_nil_iff.mp h x (by simp)
        simp [hgk] at this
      exact (ws_defined_iff 0 cap g.2).mpr ⟨rfl, hne⟩
  · intro r hr
    obtain ⟨e1, e2⟩ := windowEach_spec t d cap _ r hr
    have hkeys : r.map (·.1) = keys (keyBy k es) := e1
    refine ⟨hkeys ▸ hn, ?_, fun x hx => hkeys ▸ hv x hx⟩
    intro p hp
    obtain ⟨g, hg, g1, g2⟩ := e2 p hp
    rw [← g1, ← hc g hg]
    exact ⟨g2, hu g hg⟩

/-- … so every key's windows satisfy the single-stream theorem `windowed_stream_partition` on that key's events: tumbling keyed
windowing (`d ≥ 1`) places each event in exactly one window of its own key, the aligned one; an aggregate over a key's window
is the aggregate over exactly the events of that key and that aligned interval (cap: newest kept). -/
theorem keyed_windowed_stream_partition (div : Int → Nat → Nat) (k : Ev → Nat) (d cap : Nat) (es : List Ev)
    (r : List (Nat × List TW)) (hd : 1 ≤ d) (h : keyedWindowed k .tumbling d cap es = some r) :
    ∀ p ∈ r,
      (p.2.map (·.start)).Pairwise (· < ·)
      ∧ (∀ w ∈ p.2, w.start / d * d = w.start ∧ w.stop = w.start + d
          ∧ w.events = popOver cap ((es.filter fun x => decide (k x = p.1)).filter fun x => decide (x.ts / d * d = w.start))
          ∧ ∃ x ∈ es, k x = p.1 ∧ x.ts / d * d = w.start)
      ∧ (∀ x ∈ es, k x = p.1 → ∃ w ∈ p.2, w.start = x.ts / d * d)
      ∧ wsAggregate (aggregate div) p.2 = p.2.map fun w => aggregate div
          (popOver cap ((es.filter fun x => decide (k x = p.1)).filter fun x => decide (x.ts / d * d = w.start))) := by
  intro p hp
  obtain ⟨hw, _⟩ := ((keyed_windowed_per_key k .tumbling d cap es).2 r h).2.1 p hp
  obtain ⟨a, b, c⟩ := windowed_stream_partition d cap _ p.2 hd hw
  refine ⟨a, ?_, ?_, ?_⟩
  · intro w hw'
    obtain ⟨b1, b2, b3, x, hx, b4⟩ := b w hw'
    have := List.mem_filter.mp hx
    exact ⟨b1, b2, b3, x, this.1, by simpa using this.2, b4⟩
  · intro x hx hk
    exact c x (List.mem_filter.mpr ⟨hx, by simpa using hk⟩)
  · unfold wsAggregate
    apply List.map_congr_left
    intro w hw'
    rw [(b w hw').2.2.1]

/-- the sliding / session twin: a key's windows are the grid windows (`windowed_stream_sliding_grid/_exact`) of that key's events -/
theorem keyed_windowed_stream_sliding (k : Ev → Nat) (t : WType) (ht : t ≠ .tumbling) (d cap : Nat) (es : List Ev) :
    ∃ r, keyedWindowed k t d cap es = some r
      ∧ ∀ p ∈ r, p.2 = wsSliding t d cap (es.filter fun x => decide (k x = p.1)) := by
  cases hr : keyedWindowed k t d cap es with
  | none => exact absurd ((keyed_windowed_per_key k t d cap es).1.mp hr).1 ht
  | some r =>
    refine ⟨r, rfl, ?_⟩
    intro p hp
    have := (((keyed_windowed_per_key k t d cap es).2 r hr).2.1 p hp).1
    cases t with
    | tumbling => exact absurd rfl ht
    | sliding => simpa [windowedStream] using this.symm
    | session => simpa [windowedStream] using this.symm

example : ∃ r, keyedWindowed (fun e => e.id % 2) .tumbling 10 100 [ev 0 5, ev 1 7, ev 2 16, ev 3 1] = some r ∧ (1 : Nat) ≤ 10 := by
  cases h : keyedWindowed (fun e => e.id % 2) .tumbling 10 100 [ev 0 5, ev 1 7, ev 2 16, ev 3 1] with
  | none => exact absurd ((keyed_windowed_per_key _ _ _ _ _).1.mp h).2.1 (by decide)
  | some r => exact ⟨r, rfl, by decide⟩

example : (keyedWindowed (fun e => e.id % 2) .sliding 4 100 [ev 0 5, ev 1 7, ev 2 6, ev 3 1]).map
      (fun r => r.map fun p => (p.1, p.2.map fun w => (w.start, w.events.map (·.id))))
    = some [(0, [(5, [0, 2])]), (1, [(1, [3]), (5, [1]), (7, [1])])] := by decide +kernel

/-- `WindowedStream::aggregate` / `reduce` / `flatten` on a tumbling stream (`d ≥ 1`): one aggregate per window, computed over
exactly the events of that aligned interval in arrival order (cap: newest kept); `reduce` folds exactly these events left to
right starting from the first and skips windows holding nothing; `flatten` returns exactly the windows' events. With
`aggregates_are_folds` each aggregate is the count / sum / average / min / max of exactly these events. -/
theorem windowed_aggregate_is_fold {R α : Type} (agg : List Ev → R) (view : Ev → α) (f : α → α → α) (d cap : Nat) (es : List Ev)
    (ws : List TW) (hd : 1 ≤ d) (h : windowedStream .tumbling d cap es = some ws) :
    wsAggregate agg ws = ws.map (fun w => agg (popOver cap (es.filter fun x => decide (x.ts / d * d = w.start))))
    ∧ wsReduce view f ws = ws.filterMap (fun w =>
        reduceL f ((popOver cap (es.filter fun x => decide (x.ts / d * d = w.start))).map view))
    ∧ wsFlatten ws = ws.flatMap (fun w => popOver cap (es.filter fun x => decide (x.ts / d * d = w.start))) := by
  obtain ⟨_, b, _⟩ := windowed_stream_partition d cap es ws hd h
  refine ⟨?_, ?_, ?_⟩
  · unfold wsAggregate
    apply List.map_congr_left
    intro w hw; rw [(b w hw).2.2.1]
  · unfold wsReduce
    exact filterMap_congr' (fun w hw => by rw [(b w hw).2.2.1])
  · unfold wsFlatten
    rw [List.flatMap_def, List.flatMap_def]
    congr 1
    apply List.map_congr_left
    intro w hw; rw [(b w hw).2.2.1]

/-- `Iterator::reduce`: `None` on nothing, otherwise the left fold from the first element; on the trace carrier (the reducer of
the harness appends ids) the result is exactly the list it was given — every event once, in order. -/
theorem reduce_is_fold {α : Type} (f : α → α → α) (l : List α) :
    (reduceL f l = none ↔ l = [])
    ∧ (∀ x xs, l = x :: xs → reduceL f l = some (xs.foldl f x))
    ∧ ∀ es : List Ev, traceReduce es = someIfNonempty es := by
  refine ⟨?_, ?_, ?_⟩
  · cases l <;> simp [reduceL]
  · rintro x xs rfl; rfl
  · intro es
    cases es with
    | nil => rfl
    | cons e es =>
      have : ∀ (acc : List Ev) (l : List Ev), (l.map fun e => [e]).foldl (· ++ ·) acc = acc ++ l := by
        intro acc l
        induction l generalizing acc with
        | nil => simp
        | cons x xs ih => simp [List.foldl_cons, ih]
      simp [traceReduce, reduceL, someIfNonempty, this]

example : traceReduce [ev 0 5, ev 1 7, ev 2 6] = some [ev 0 5, ev 1 7, ev 2 6] := by decide

/-- The model's observation of a `KW` case — every stream operator of operators.rs on one event list — meets every clause of
the oracle `kwOk` (whenever the code does not divide by zero: `d ≥ 1` for a tumbling configuration): the keys are exactly the
keys that occur; each key's windows, and the windows of the whole stream, hold exactly the events the specification
enumerates by set comprehension (`expWindows`), every aggregate is the fold over exactly its window's events, every reduce
visits exactly its window's events in order, flatten returns exactly the windows' events; `KeyedStream` / `GroupedStream` /
`DataStream` count, aggregate, reduce, first, last over exactly each key's (the stream's) events. -/
theorem kw_model_meets_spec (div : Int → Nat → Nat) (k : Ev → Nat) (t : WType) (d cap : Nat) (es : List Ev) (o : KWObs)
    (hd : t = .tumbling → 1 ≤ d) (h : kwModel div k t d cap es = some o) : kwOk div k t d cap es o = true := by
  unfold kwModel at h
  cases hk : keyedWindowed k t d cap es with
  | none => simp [hk] at h
  | some kws =>
    cases hw : windowedStream t d cap es with
    | none => simp [hk, hw] at h
    | some ws =>
      simp only [hk, hw, Option.some.injEq] at h
      subst h
      obtain ⟨kn, kc, kv, ku⟩ := kinv_keyBy k es
      obtain ⟨rn, rp, _⟩ := (keyed_windowed_per_key k t d cap es).2 kws hk
      have hraw : kws.map (·.1) = (keyBy k es).map (·.1) := (windowEach_spec t d cap _ kws hk).1
      have hkeys : (sortGroups kws).map (·.1) = (sortGroups (keyBy k es)).map (·.1) := by
        apply pairwise_lt_ext _ _ (sortGroups_strict _ rn) (sortGroups_strict _ kn)
        intro x
        rw [((sortGroups_perm kws).map _).mem_iff, ((sortGroups_perm (keyBy k es)).map _).mem_iff, hraw]
      have memK : ∀ p ∈ sortGroups kws, p.2.map (·.events) = expWindows t d cap (ofKey k p.1 es) := by
        intro p hp
        have hp' := (sortGroups_perm kws).mem_iff.mp hp
        exact windows_events_eq t d cap _ p.2 hd (rp p hp').1
      have memG : ∀ g ∈ sortGroups (keyBy k es), g.2 = ofKey k g.1 es := by
        intro g hg
        exact kc g ((sortGroups_perm _).mem_iff.mp hg)
      have hws := windows_events_eq t d cap es ws hd hw
      have hagg : ∀ l : List TW, (wsAggregate (winOf div) l).map (·.events) = l.map (·.events) := by
        intro l; simp [wsAggregate, winOf, Function.comp_def]
      have haggok : ∀ l : List TW, (wsAggregate (winOf div) l).all (fun w => aggOk div w.events w.agg) = true := by
        intro l
        rw [List.all_eq_true]
        intro w hw'
        obtain ⟨w0, _, rfl⟩ := List.mem_map.mp hw'
        exact aggregate_ok div w0.events
      simp only [kwOk, Bool.and_eq_true]
      and_intros
      · -- the keys
        simp only [keysOk, Bool.and_eq_true]
        refine ⟨⟨strictInc_of_pairwise _ (sortGroups_strict _ kn), ?_⟩, ?_⟩
        · rw [List.all_eq_true]
          intro q hq
          obtain ⟨g, hg, rfl⟩ := List.mem_map.mp hq
          obtain ⟨x, hx, hxk⟩ := ku g ((sortGroups_perm _).mem_iff.mp hg)
          rw [List.any_eq_true]
          exact ⟨x, hx, by simpa using hxk⟩
        · rw [List.all_eq_true]
          intro x hx
          have : k x ∈ (sortGroups (keyBy k es)).map (·.1) := ((sortGroups_perm _).map _).mem_iff.mpr (kv x hx)
          simpa using this
      · simp only [List.map_map, Function.comp_def, beq_iff_eq]; exact hkeys
      · rw [List.all_eq_true]
        intro p' hp'
        obtain ⟨p, hp, rfl⟩ := List.mem_map.mp hp'
        rw [Bool.and_eq_true]
        exact ⟨winsOk_of_eq t (by rw [hagg]; exact memK p hp), haggok p.2⟩
      · simp only [List.map_map, Function.comp_def, beq_iff_eq]; exact hkeys
      · rw [List.all_eq_true]
        intro p' hp'
        obtain ⟨p, hp, rfl⟩ := List.mem_map.mp hp'
        exact winsOk_of_eq t (by rw [wsReduce_trace, memK p hp])
      · exact winsOk_of_eq t (by rw [hagg]; exact hws)
      · exact haggok ws
      · exact winsOk_of_eq t (by rw [wsReduce_trace, hws])
      · have hf : wsFlatten ws = (expWindows t d cap es).flatten := by
          rw [← hws]; unfold wsFlatten; rw [List.flatMap_def]
        rw [hf]
        split
        · exact sameMultiset_refl _
        · simp
      · simp only [List.map_map, Function.comp_def, beq_iff_eq]
      · rw [List.all_eq_true]
        intro p' hp'
        obtain ⟨g, hg, rfl⟩ := List.mem_map.mp hp'
        simp only [winOf, memG g hg, traceReduce_eq, aggregate_ok, beq_self_eq_true, Bool.and_self]
      · rw [beq_iff_eq]
        exact flatMap_groups _ _ memG
      · simp only [List.map_map, Function.comp_def, beq_iff_eq]
      · rw [List.all_eq_true]
        intro p' hp'
        obtain ⟨g, hg, rfl⟩ := List.mem_map.mp hp'
        simp only [winOf, memG g hg, aggregate_ok, beq_self_eq_true, Bool.and_self]
      · simp
      · simp
      · simp [winOf]
      · exact aggregate_ok div es
      · simp [traceReduce_eq]

/-- non-vacuity: a keyed sliding stream with two keys, overlapping windows and a late event is a defined observation -/
example : (kwModel (fun s n => (s / n).toNat) (fun e => e.id % 2) .sliding 4 100 [ev 0 5, ev 1 7, ev 2 6, ev 3 1]).isSome = true := by
  decide +kernel

/-! ## moving average, manager statistics, window statistics, field extraction -/

/-- `StreamAnalytics::moving_average(windows, field, k)` is the sum of the numeric values over the NUMBER OF EVENTS of exactly the
events the last `k` windows hold (all windows when there are at most `k`); undefined when there is no window or these windows
hold no event. (The divisor counts non-numeric events too — as coded; `TimeWindow::average` does not.) -/
theorem moving_average_is_fold (div : Int → Nat → Nat) (ws : List (List Ev)) (k : Nat) :
    movingAverage div ws k =
      (if (ws.drop (ws.length - k)).flatten.isEmpty then none
       else some (div (vals (ws.drop (ws.length - k)).flatten).sum (ws.drop (ws.length - k)).flatten.length)) := by
  unfold movingAverage
  rw [lastN_eq_drop, sum_map_aggSum, sum_map_length]
  by_cases he : ws.isEmpty = true
  · have : ws = [] := by simpa using he
    subst this; simp
  · rw [if_neg he]
    by_cases h : (ws.drop (ws.length - k)).flatten = []
    · rw [h]; simp
    · have h2 : (ws.drop (ws.length - k)).flatten.length ≠ 0 := by
        intro h'; exact h (List.eq_nil_of_length_eq_zero h')
      have h3 : (ws.drop (ws.length - k)).flatten.isEmpty = false := by
        cases hh : (ws.drop (ws.length - k)).flatten with
        | nil => exact absurd hh h
        | cons _ _ => rfl
      rw [if_neg h2, h3]; rfl

example : movingAverage (fun s n => (s / n).toNat) [[ev 0 100], [ev 1 4, ⟨2, 5, none⟩], [ev 3 8]] 2 = some 4 := by decide

/-- `StreamAnalytics::detect_anomalies`: nothing with fewer than 3 windows or fewer than 10 numeric values before the last window;
otherwise the ids, in arrival order, of exactly the events of the LAST window whose numeric value `v` has
`|(v − mean) / std| > threshold`, where `mean` and `std` are `Σ/n` and `sqrt(Σ(v − mean)²/n)` folded (window order, then arrival
order) over the numeric values of exactly the events of all windows but the last. The float operations and the comparison are
parameters: the oracle `anomaliesOk` decides the same test in exact integer arithmetic (`4(nv − S)² > t2²·varNum`). -/
theorem detect_anomalies_exact {F : Type} (ops : FOps F) (c : FCmp F) (thr : F) (ws : List (List AEv)) :
    ((ws.length < 3 ∨ (avals (ws.take (ws.length - 1)).flatten).length < 10) → detectAnomalies ops c thr ws = [])
    ∧ ∀ cur, ws.getLast? = some cur → ¬ ws.length < 3 → ¬ (avals (ws.take (ws.length - 1)).flatten).length < 10 →
        let values := (avals (ws.take (ws.length - 1)).flatten).map ops.ofInt
        let mean := ops.div (values.foldl ops.add ops.zero) (ops.ofNat values.length)
        let std := ops.sqrt (ops.div ((values.map fun v => ops.mul (ops.sub v mean) (ops.sub v mean)).foldl ops.add ops.zero)
          (ops.ofNat values.length))
        detectAnomalies ops c thr ws = (cur.filter fun e =>
            match e.v.numeric with
            | none => false
            | some v => c.gt (c.abs (ops.div (ops.sub (ops.ofInt v) mean) std)) thr).map (·.id) := by
  constructor
  · rintro (h | h)
    · simp [detectAnomalies, h]
    · unfold detectAnomalies
      split
      · rfl
      · simp [h]
  · intro cur hc h3 h10
    simp only [detectAnomalies, h3, if_false, List.length_map, h10, hc, fsum]
    apply filterMap_eq_filter_map
    intro e
    cases e.v.numeric <;> simp

example : detectAnomalies (F := Int) ⟨0, id, Int.ofNat, (· + ·), (· - ·), (· * ·), (· / ·), id⟩
    ⟨fun x => Int.ofNat x.natAbs, fun a b => decide (a > b), fun a b => decide (a < b), 100, 5, -5⟩ 0
    [ (List.range 10).map (fun i => ⟨i, .num (if i % 2 = 0 then 8 else 12)⟩), [], [⟨10, .int 10⟩, ⟨11, .str 50⟩, ⟨12, .num 15⟩] ] = [12] := by
  decide

/-- `StreamAnalytics::calculate_trend`: Stable with fewer than 2 windows or fewer than 2 windows that have a numeric value (a
window's average is defined exactly when it holds one); otherwise decided by the change, in percent, of the mean of the later
window averages against the mean of the first `len / 2`, each average and mean a fold over exactly its window's (its half's)
values in order. The oracle `trendOk` decides the same comparison in exact rational arithmetic. -/
theorem calculate_trend_exact {F : Type} (ops : FOps F) (c : FCmp F) (ws : List (List AEv)) :
    ((ws.length < 2 ∨ (ws.filterMap (avgF ops)).length < 2) → calcTrend ops c ws = .stable)
    ∧ (∀ w, avgF ops w = none ↔ avals w = [])
    ∧ (¬ ws.length < 2 → ¬ (ws.filterMap (avgF ops)).length < 2 →
        let avgs := ws.filterMap (avgF ops)
        let a := ops.div ((avgs.take (avgs.length / 2)).foldl ops.add ops.zero) (ops.ofNat (avgs.take (avgs.length / 2)).length)
        let b := ops.div ((avgs.drop (avgs.length / 2)).foldl ops.add ops.zero) (ops.ofNat (avgs.drop (avgs.length / 2)).length)
        let ch := ops.mul (ops.div (ops.sub b a) a) c.hundred
        calcTrend ops c ws = if c.gt ch c.five then .increasing else if c.lt ch c.negFive then .decreasing else .stable) := by
  refine ⟨?_, ?_, ?_⟩
  · rintro (h | h)
    · simp [calcTrend, h]
    · unfold calcTrend
      split
      · rfl
      · simp [h]
  · intro w
    unfold avgF
    cases h : avals w <;> simp
  · intro h2 h2'
    simp only [calcTrend, h2, if_false, h2', fsum]
    rfl

example : calcTrend (F := Int) ⟨0, id, Int.ofNat, (· + ·), (· - ·), (· * ·), (· / ·), id⟩
    ⟨fun x => Int.ofNat x.natAbs, fun a b => decide (a > b), fun a b => decide (a < b), 100, 5, -5⟩
    [[⟨0, .num 10⟩], [⟨1, .str 3⟩], [⟨2, .int 20⟩, ⟨3, .num 22⟩]] = .increasing := by decide

/-- the model's observation of a manager run meets every clause of the oracle `msOk` (total = events of the active windows,
latest / oldest / newest, mean, moving average over exactly the last `k` active windows) -/
theorem ms_model_meets_spec (div : Int → Nat → Nat) (m : WM) (k : Nat) (es : List Ev) (o : MSObs)
    (h : msModel div m k es = some o) : msOk div k o = true := by
  unfold msModel at h
  cases hm : m.run es with
  | none => simp [hm] at h
  | some m' =>
    simp only [hm, Option.map_some, Option.some.injEq] at h
    subst h
    have hev : ∀ l : List TW, (l.map (TW.wobs div)).map (·.events) = l.map (·.events) := by
      intro l; simp [TW.wobs, Function.comp_def]
    have hst : ∀ l : List TW, (l.map (TW.wobs div)).getLast?.map (·.start) = l.getLast?.map (·.start) := by
      intro l; simp [List.getLast?_map, TW.wobs, Function.comp_def]
    have hhd : ∀ l : List TW, (l.map (TW.wobs div)).head?.map (·.start) = l.head?.map (·.start) := by
      intro l; cases l <;> simp [TW.wobs]
    have htot : m'.totalCount = (m'.windows.map (·.events)).flatten.length := by
      unfold WM.totalCount; rw [List.length_flatten, List.map_map]; rfl
    have hsum : m'.across (fun w => aggSum w.events) = (vals (m'.windows.map (·.events)).flatten).sum := by
      unfold WM.across; rw [← sum_map_aggSum, List.map_map]; rfl
    have hcnt : m'.across (fun w => Int.ofNat w.events.length) = Int.ofNat (m'.windows.map (·.events)).flatten.length := by
      unfold WM.across
      rw [sum_map_ofNat m'.windows (fun w => w.events.length), List.length_flatten, List.map_map]; rfl
    simp only [msOk, ← List.map_drop, hev, hst, hhd, WM.stats, List.length_map, moving_average_is_fold, htot,
      List.isEmpty_map, Bool.and_eq_true, beq_iff_eq, and_self, hsum, hcnt]

/-- `TimeWindow::latest_timestamp` is the greatest timestamp among exactly the retained events (`None` iff there is none);
`events_in_range` returns exactly the retained events of `[a, b)`; the model's observation meets the oracle `tsOk`. -/
theorem window_statistics_exact (w : TW) (a b : Nat) (ops : List TWOp) :
    (w.latestTs = none ↔ w.events = [])
    ∧ (∀ m, w.latestTs = some m → (∃ x ∈ w.events, x.ts = m) ∧ ∀ x ∈ w.events, x.ts ≤ m)
    ∧ (∀ x, x ∈ w.inRange a b ↔ (x ∈ w.events ∧ a ≤ x.ts ∧ x.ts < b))
    ∧ tsOk w.dur a b (tsModel w a b ops) = true := by
  have key : ∀ w : TW, (w.latestTs = none ↔ w.events = [])
      ∧ (∀ m, w.latestTs = some m → (∃ x ∈ w.events, x.ts = m) ∧ ∀ x ∈ w.events, x.ts ≤ m) := by
    intro w
    unfold TW.latestTs
    cases hw : w.events with
    | nil => simp
    | cons e es =>
      simp only [reduceCtorEq, true_and, Option.some.injEq, List.mem_cons, exists_eq_or_imp, forall_eq_or_imp]
      intro m hm
      obtain ⟨h1, h2, h3⟩ := foldl_max_spec es e.ts
      rw [hm] at h1 h2 h3
      refine ⟨?_, h1, h2⟩
      rcases h3 with h3 | ⟨x, hx, h3⟩
      · left; exact h3.symm
      · right; exact ⟨x, hx, h3⟩
  refine ⟨(key w).1, (key w).2, ?_, ?_⟩
  · intro x; simp [TW.inRange, List.mem_filter]
  · have hdur : ∀ (ops : List TWOp) (w : TW), (w.runOps ops).dur = w.dur := by
      intro ops
      induction ops with
      | nil => intro w; rfl
      | cons op ops ih =>
        intro w
        show (TW.runOps (w.step op).1 ops).dur = w.dur
        rw [ih]
        cases op <;> simp [TW.step, TW.addEvent, TW.record, TW.slide] <;> split <;> rfl
    simp only [tsOk, tsModel, TW.clear, TW.inRange, hdur, List.length_nil, beq_self_eq_true, Bool.and_true]
    obtain ⟨k1, k2⟩ := key (w.runOps ops)
    cases hl : (w.runOps ops).latestTs with
    | none => simpa using k1.mp hl
    | some m =>
      obtain ⟨⟨x, hx, hxm⟩, hall⟩ := k2 m hl
      show (((w.runOps ops).events.any fun x => x.ts == m) && (w.runOps ops).events.all fun x => decide (x.ts ≤ m)) = true
      rw [Bool.and_eq_true, List.any_eq_true, List.all_eq_true]
      exact ⟨⟨x, hx, by simpa using hxm⟩, fun y hy => by simpa using hall y hy⟩

example : (TW.latestTs { exW with events := [ev 0 5, ev 1 9, ev 2 7] }) = some 9
    ∧ (TW.inRange { exW with events := [ev 0 5, ev 1 9, ev 2 7] } 5 9).map (·.id) = [0, 2] := by decide

/-- `StreamAlphaNode::event_count` / `window_stats` / `clear` after any history of `process_event` under any clock: the
statistics describe exactly the retained events (the model's observation meets the oracle `asOk`) -/
theorem alpha_statistics_exact (a : Alpha) (ops : List ANOp) (o : ASObs) (h : asModel a ops = some o) :
    asOk a.window o = true := by
  have hwin : ∀ (ops : List ANOp) (a a' : Alpha), a.run ops = some a' → a'.window = a.window := by
    intro ops
    induction ops with
    | nil => intro a a' h; simp only [Alpha.run, Option.some.injEq] at h; rw [h]
    | cons op ops ih =>
      intro a a' h
      simp only [Alpha.run] at h
      cases hp : a.process op.now op.pass op.e with
      | none => simp [hp] at h
      | some r =>
        simp only [hp] at h
        rw [ih r.1 a' h]
        unfold Alpha.process at hp
        split at hp
        · split at hp
          · cases hp
          · simp only [Option.some.injEq] at hp; rw [← hp]
          · simp only [Option.some.injEq] at hp; rw [← hp]
        · simp only [Option.some.injEq] at hp; rw [← hp]
  unfold asModel at h
  cases hr : a.run ops with
  | none => simp [hr] at h
  | some a' =>
    simp only [hr, Option.map_some, Option.some.injEq] at h
    subst h
    simp [asOk, Alpha.stats, Alpha.clear, hwin ops a a' hr]

example : (asModel { window := .sliding 5, cap := 100, events := [] }
    [⟨20, true, ev 0 18⟩, ⟨21, true, ev 1 16⟩, ⟨22, true, ev 2 22⟩]).map (fun o => (o.events.map (·.id), o.stats))
    = some ([0, 2], ⟨2, some 18, some 22, some 5⟩) := by decide

/-- `get_numeric` / `get_string` / `get_boolean` for every class of `Value`: the model's readings meet the oracle `evOk`, and a
field never reads as two kinds at once -/
theorem field_extraction_exact (v : EVal) :
    evOk v v.numeric v.str v.bool = true
    ∧ (v.numeric.isSome → v.str = none ∧ v.bool = none)
    ∧ (v.str.isSome → v.numeric = none ∧ v.bool = none)
    ∧ (v.bool.isSome → v.numeric = none ∧ v.str = none) := by
  cases v <;> simp [evOk, EVal.numeric, EVal.str, EVal.bool]

example : (EVal.integer 3).numeric = some (.fin 3) ∧ (EVal.string 3).numeric = none ∧ (EVal.boolean true).bool = some true := by
  decide

end C12
