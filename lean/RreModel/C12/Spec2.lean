import RreModel.C12.Model2
import RreModel.C12.Spec
/-
C12, second part of the specification — decidable predicates over the observations of the entry points of `Model2.lean`
(`DataStream` / `KeyedStream` / `KeyedWindowedStream` / `GroupedStream` / `WindowedStream::{aggregate,reduce,flatten}`,
`Aggregator` StdDev and Percentile, `StreamAnalytics::moving_average`, `WindowManager::get_statistics`, `TimeWindow`
statistics, `StreamEvent::get_*`). They state the property's letter — an aggregate is the fold over exactly the events the
window holds; a keyed stream windows each key's events on their own — not the algorithm: windows are described by set
comprehension over the input (`expWindows`), the standard deviation by exact integer arithmetic on the inputs.
-/
namespace C12

/-! ### one group of events handed to an aggregator, with the five aggregates computed on it -/

structure WinO where
  events : List Ev
  agg : Agg
deriving Repr, DecidableEq

def winOf (div : Int → Nat → Nat) (es : List Ev) : WinO := { events := es, agg := aggregate div es }

/-- insertion into an ascending duplicate-free list -/
def insertKey (a : Nat) : List Nat → List Nat
  | [] => [a]
  | b :: l => if a < b then a :: b :: l else if a = b then b :: l else b :: insertKey a l

/-- the distinct values of a list, ascending -/
def sortedKeys (l : List Nat) : List Nat := l.foldr insertKey []

/-- `ks` lists, in ascending order and once each, exactly the keys that occur among the events -/
def keysOk (k : Ev → Nat) (es : List Ev) (ks : List Nat) : Bool :=
  strictInc ks && ks.all (fun q => es.any fun x => k x == q) && es.all (fun x => ks.contains (k x))

/-- the newest `cap` elements of a list in arrival order (what a retention cap leaves) -/
def capLast {α : Type} (cap : Nat) (l : List α) : List α := l.drop (l.length - cap)

/-- The windows `WindowedStream::new` must produce, as event lists, by set comprehension:
tumbling (`d ≥ 1`): one window per quotient `ts / d` that occurs, holding exactly the events of that quotient (arrival order,
the cap keeps the newest); sliding / session: one window per grid point `min + i·step ≤ max` (`step = max (d/2) 1`) holding
exactly the events of `[s, s + d)`, windows left empty are not produced. -/
def expWindows (t : WType) (d cap : Nat) (es : List Ev) : List (List Ev) :=
  match t with
  | .tumbling => (sortedKeys (es.map fun x => x.ts / d)).map fun q => capLast cap (es.filter fun x => x.ts / d == q)
  | _ =>
    if es.isEmpty then []
    else
      (((List.range (maxTs es - minTs es + 1)).filter fun i => i % (max (d / 2) 1) == 0).map fun i =>
        capLast cap (es.filter fun x => decide (minTs es + i ≤ x.ts) && decide (x.ts < minTs es + i + d))).filter
        fun w => !w.isEmpty

def sameMultiset {α : Type} [BEq α] (a b : List α) : Bool :=
  a.length == b.length && a.all fun x => a.count x == b.count x

/-- tumbling windows come out of a `HashMap` (any order): compared as multisets; sliding / session windows in grid order -/
def winsOk (t : WType) (exp obs : List (List Ev)) : Bool :=
  if t = .tumbling then sameMultiset exp obs else exp == obs

/-- does a tumbling configuration divide by zero on these events? -/
def wsPanics (t : WType) (d : Nat) (es : List Ev) : Bool := decide (t = .tumbling) && d == 0 && !es.isEmpty

structure KWObs where
  /-- `key_by(k).window(cfg).aggregate(a)`, entries by ascending key -/
  ka : List (Nat × List WinO)
  /-- `key_by(k).window(cfg).reduce(f)`; a reduced value is the trace of the events `f` was applied to, in order -/
  kr : List (Nat × List (List Ev))
  /-- `window(cfg).aggregate(a)` -/
  wa : List WinO
  /-- `window(cfg).reduce(f)` -/
  wr : List (List Ev)
  /-- `window(cfg).flatten().collect()` -/
  wf : List Ev
  /-- `key_by(k)`: `.count()`, `.aggregate(a)`, `.reduce(f)` per key; `.keys()` are the keys of these entries -/
  ks : List (Nat × Nat × WinO × Option (List Ev))
  /-- `key_by(k).keys()`, ascending -/
  kk : List Nat
  /-- `key_by(k).flatten().collect()`, groups by ascending key -/
  kf : List Ev
  /-- `group_by(k)`: `.count()`, `.aggregate(a)`, `.first()`, `.last()` per key -/
  gs : List (Nat × Nat × WinO × Option Nat × Option Nat)
  /-- the plain stream: `.count()`, `.len()`, `.aggregate(a)`, `.reduce(f)` -/
  ds : Nat × Nat × WinO × Option (List Ev)
deriving Repr, DecidableEq

/-- the events of key `q` -/
def ofKey (k : Ev → Nat) (q : Nat) (es : List Ev) : List Ev := es.filter fun x => decide (k x = q)

def someIfNonempty (l : List Ev) : Option (List Ev) := if l.isEmpty then none else some l

/-- The letter for the stream operators (`d ≥ 1` or not tumbling):
every key that occurs has exactly one entry; a key's windows are the windows of that key's events alone; an aggregate sees
exactly the events of its window (`aggOk`); a reduce folds exactly the events of its window, in order; flatten returns exactly
the windows' events. -/
def kwOk (div : Int → Nat → Nat) (k : Ev → Nat) (t : WType) (d cap : Nat) (es : List Ev) (o : KWObs) : Bool :=
  let keys := o.kk
  keysOk k es keys
  && o.ka.map (·.1) == keys
  && o.ka.all (fun p => winsOk t (expWindows t d cap (ofKey k p.1 es)) (p.2.map (·.events))
                        && p.2.all fun w => aggOk div w.events w.agg)
  && o.kr.map (·.1) == keys
  && o.kr.all (fun p => winsOk t ((expWindows t d cap (ofKey k p.1 es)).filter fun w => !w.isEmpty) p.2)
  && winsOk t (expWindows t d cap es) (o.wa.map (·.events))
  && o.wa.all (fun w => aggOk div w.events w.agg)
  && winsOk t ((expWindows t d cap es).filter fun w => !w.isEmpty) o.wr
  && (if t = .tumbling then sameMultiset (expWindows t d cap es).flatten o.wf else (expWindows t d cap es).flatten == o.wf)
  && o.ks.map (·.1) == keys
  && o.ks.all (fun p => p.2.1 == (ofKey k p.1 es).length && p.2.2.1.events == ofKey k p.1 es
                        && aggOk div p.2.2.1.events p.2.2.1.agg && p.2.2.2 == someIfNonempty (ofKey k p.1 es))
  && o.kf == keys.flatMap (fun q => ofKey k q es)
  && o.gs.map (·.1) == keys
  && o.gs.all (fun p => p.2.1 == (ofKey k p.1 es).length && p.2.2.1.events == ofKey k p.1 es
                        && aggOk div p.2.2.1.events p.2.2.1.agg
                        && p.2.2.2.1 == (ofKey k p.1 es).head?.map (·.id) && p.2.2.2.2 == (ofKey k p.1 es).getLast?.map (·.id))
  && o.ds.1 == es.length && o.ds.2.1 == es.length && o.ds.2.2.1.events == es
  && aggOk div o.ds.2.2.1.events o.ds.2.2.1.agg && o.ds.2.2.2 == someIfNonempty es

def sortGroups {β : Type} (g : List (Nat × β)) : List (Nat × β) := g.mergeSort fun a b => decide (a.1 ≤ b.1)

/-- the reducer of the harness on the carrier "trace of events": concatenation -/
def traceReduce (es : List Ev) : Option (List Ev) := reduceL (· ++ ·) (es.map fun e => [e])

/-- the model's observation of a `KW` case; `none` = the code panics -/
def kwModel (div : Int → Nat → Nat) (k : Ev → Nat) (t : WType) (d cap : Nat) (es : List Ev) : Option KWObs :=
  match keyedWindowed k t d cap es, windowedStream t d cap es with
  | some kws, some ws =>
    let groups := sortGroups (keyBy k es)
    some
      { ka := (sortGroups kws).map fun p => (p.1, wsAggregate (winOf div) p.2),
        kr := (sortGroups kws).map fun p => (p.1, wsReduce (fun e => [e]) (· ++ ·) p.2),
        wa := wsAggregate (winOf div) ws,
        wr := wsReduce (fun e => [e]) (· ++ ·) ws,
        wf := wsFlatten ws,
        ks := groups.map fun g => (g.1, g.2.length, winOf div g.2, traceReduce g.2),
        kk := groups.map (·.1),
        kf := groups.flatMap (·.2),
        gs := groups.map fun g => (g.1, g.2.length, winOf div g.2, g.2.head?.map (·.id), g.2.getLast?.map (·.id)),
        ds := (es.length, es.length, winOf div es, traceReduce es) }
  | _, _ => none

/-! ### StdDev and percentiles of one window -/

/-- a non-negative finite f64 bit pattern as `m · 2^e` -/
def f64Decode (bits : Nat) : Option (Nat × Int) :=
  if bits ≥ 2 ^ 63 then none
  else if bits / 2 ^ 52 = 2047 then none
  else if bits / 2 ^ 52 = 0 then some (bits % 2 ^ 52, -1074)
  else some (2 ^ 52 + bits % 2 ^ 52, Int.ofNat (bits / 2 ^ 52) - 1075)

/-- `n² · variance` of integer values, exactly: `n · Σ v² − (Σ v)²` -/
def varNum (vs : List Int) : Int := (Int.ofNat vs.length) * (vs.map fun v => v * v).sum - vs.sum * vs.sum

/-- The letter for StdDev: undefined below two numeric values; otherwise the answer `r` (an f64 bit pattern) is a non-negative
finite number whose square is the population variance of exactly the window's numeric values, up to a relative error of
`2^-20` — checked in exact integer arithmetic (`r = m·2^e`, variance `= varNum / n²`), whatever the order of the additions. -/
def stdOk (vs : List Int) : Option Nat → Bool
  | none => decide (vs.length < 2)
  | some bits =>
    decide (2 ≤ vs.length) &&
    match f64Decode bits with
    | none => false
    | some (m, e) =>
      let n : Int := Int.ofNat vs.length
      let ap : Int := varNum vs * 4 ^ (-e).toNat
      decide (((Int.ofNat m) * (Int.ofNat m) * 4 ^ e.toNat * n * n - ap).natAbs * 2 ^ 20 ≤ ap.natAbs)

/-- the ranks admissible for the percentile `k / 10` (`k` in tenths of a percent) among `n ≥ 1` values: the integers within
one half of `k/1000 · (n − 1)` (both neighbours at an exact tie, where the f64 product decides), negative ranks read as 0 -/
def pctRanks (k : Int) (n : Nat) : List Nat :=
  [((2 * k * (Int.ofNat n - 1) - 1000 + 1999) / 2000).toNat, ((2 * k * (Int.ofNat n - 1) + 1000) / 2000).toNat]

/-- The letter for a percentile: `None` only without numeric values or when the rank lies beyond the last value; otherwise the
order statistic of an admissible rank -/
def pctOkQ (v : List Int) (k : Int) : Option Int → Bool
  | none => v.isEmpty || (pctRanks k v.length).any fun i => decide (v.length ≤ i)
  | some r => !v.isEmpty && (pctRanks k v.length).any fun i => decide (i < v.length) && rankOk v i r

structure STObs where
  std : Option Nat
  pcts : List (Option Int)
deriving Repr, DecidableEq

def stOk (ks : List Int) (es : List AEv) (o : STObs) : Bool :=
  stdOk (avals es) o.std && o.pcts.length == ks.length && (o.pcts.zip ks).all fun q => pctOkQ (avals es) q.2 q.1

/-! ### `WindowManager` statistics and `StreamAnalytics::moving_average` over the manager's active windows -/

structure MSObs where
  windows : List WObs
  total : Nat
  latest : Option Nat
  stats : WStats
  ma : Option Nat
  /-- `aggregate_across_windows(|w| w.sum(field))` and `(|w| w.count() as f64)` -/
  acrossSum : Int
  acrossCount : Int
deriving Repr, DecidableEq

/-- The letter: every statistic is a function of exactly the active windows: the total is the number of events they hold, the
latest window is the last one, oldest / newest are the first / last start, the mean is total over windows; the moving average
over `k` windows is the sum of the numeric values over the number of events of exactly the last `k` active windows, undefined
when these hold no event. -/
def msOk (div : Int → Nat → Nat) (k : Nat) (o : MSObs) : Bool :=
  let evs := (o.windows.map (·.events)).flatten
  let recent := ((o.windows.drop (o.windows.length - k)).map (·.events)).flatten
  o.total == evs.length
  && o.latest == o.windows.getLast?.map (·.start)
  && o.stats.totalWindows == o.windows.length && o.stats.totalEvents == evs.length
  && o.stats.oldest == o.windows.head?.map (·.start) && o.stats.newest == o.windows.getLast?.map (·.start)
  && o.stats.avg == (if o.windows.isEmpty then 0 else div (Int.ofNat evs.length) o.windows.length)
  && o.ma == (if recent.isEmpty then none else some (div (vals recent).sum recent.length))
  -- an aggregate across the windows is the aggregate over exactly the events they hold
  && o.acrossSum == (vals evs).sum && o.acrossCount == Int.ofNat evs.length

/-- `WindowManager::process_event` over a list; `none` = panic -/
def WM.run : WM → List Ev → Option WM
  | m, [] => some m
  | m, e :: es => match m.process e with
    | none => none
    | some m' => m'.run es

def msModel (div : Int → Nat → Nat) (m : WM) (k : Nat) (es : List Ev) : Option MSObs :=
  (m.run es).map fun m' =>
    { windows := m'.windows.map (TW.wobs div), total := m'.totalCount, latest := m'.windows.getLast?.map (·.start),
      stats := m'.stats div, ma := movingAverage div (m'.windows.map (·.events)) k,
      acrossSum := m'.across (fun w => aggSum w.events), acrossCount := m'.across (fun w => Int.ofNat w.events.length) }

/-! ### `TimeWindow` statistics -/

structure TSObs where
  events : List Ev
  latest : Option Nat
  inRange : List Ev
  durMs : Nat
  afterClear : Nat
deriving Repr, DecidableEq

/-- The letter: the latest timestamp is the greatest timestamp among exactly the retained events; the sub-range query returns
exactly the retained events of `[a, b)` in arrival order; `clear` leaves nothing -/
def tsOk (d a b : Nat) (o : TSObs) : Bool :=
  (match o.latest with
   | none => o.events.isEmpty
   | some m => o.events.any (fun x => x.ts == m) && o.events.all fun x => decide (x.ts ≤ m))
  && o.inRange == o.events.filter (fun x => decide (a ≤ x.ts) && decide (x.ts < b))
  && o.durMs == d && o.afterClear == 0

def TW.runOps (w : TW) (ops : List TWOp) : TW := ops.foldl (fun w op => (w.step op).1) w

def tsModel (w : TW) (a b : Nat) (ops : List TWOp) : TSObs :=
  let w' := w.runOps ops
  { events := w'.events, latest := w'.latestTs, inRange := w'.inRange a b, durMs := w'.dur, afterClear := w'.clear.events.length }

/-! ### `StreamAnalytics::detect_anomalies` / `calculate_trend`, in exact arithmetic -/

/-- the sign of the exact comparison `|z-score of v| > t2 / 2` against the historical integer values `h` (`n = |h|`, `S = Σh`,
`A = n·Σh² − S²`): `z = (n·v − S) / sqrt A`, so the test is `4·(n·v − S)² > t2²·A`; with `A = 0` the score is infinite unless
`n·v = S` (0/0, never above anything); a negative threshold is exceeded by every score that is a number.
`some true` / `some false` = decided, `none` = an exact tie (the f64 computation may fall either way) -/
def anomalous (h : List Int) (t2 : Int) (v : Int) : Option Bool :=
  let n : Int := Int.ofNat h.length
  let dev := n * v - h.sum
  if varNum h = 0 then some (decide (dev ≠ 0))
  else if t2 < 0 then some true
  else if 4 * dev * dev > t2 * t2 * varNum h then some true
  else if 4 * dev * dev < t2 * t2 * varNum h then some false
  else none

/-- The letter for `detect_anomalies`: nothing with fewer than 3 windows or fewer than 10 numeric values in the windows before
the last; otherwise exactly the events of the last window whose value lies more than `t2/2` standard deviations (of exactly the
historical values) from their mean, in arrival order -/
def anomaliesOk (t2 : Int) (ws : List (List AEv)) (obs : List Nat) : Bool :=
  let h := avals (ws.take (ws.length - 1)).flatten
  if ws.length < 3 || h.length < 10 then obs.isEmpty
  else
    obs == ((ws.getLast?.getD []).filter fun e =>
      match e.v.numeric with
      | none => false
      | some v => match anomalous h t2 v with
        | some b => b
        | none => obs.contains e.id).map (·.id)

/-- a rational `num / den`, `den > 0` -/
abbrev Q := Int × Int
def Q.add (a b : Q) : Q := (a.1 * b.2 + b.1 * a.2, a.2 * b.2)
def Q.sub (a b : Q) : Q := (a.1 * b.2 - b.1 * a.2, a.2 * b.2)
def Q.scale (k : Int) (a : Q) : Q := (k * a.1, a.2)
/-- sign of `a − b` -/
def Q.cmp (a b : Q) : Int := (a.1 * b.2 - b.1 * a.2).sign
def Q.mean (l : List Q) : Q := let s := l.foldl Q.add (0, 1); (s.1, s.2 * Int.ofNat l.length)

/-- The letter for `calculate_trend`, exactly: `A`, `B` = the means of the first `len/2` / the remaining window averages (windows
without numeric value do not count); Increasing iff `(B − A)/A · 100 > 5`, Decreasing iff `< −5`; with `A = 0` the change is
`±inf` by the sign of `B` (0/0: stable). `none` = an exact tie at ±5 -/
def trendExact (ws : List (List AEv)) : Option Trend :=
  if ws.length < 2 then some .stable
  else
    let avgs : List Q := ws.filterMap fun w => if (avals w).isEmpty then none else some ((avals w).sum, Int.ofNat (avals w).length)
    if avgs.length < 2 then some .stable
    else
      let a := Q.mean (avgs.take (avgs.length / 2))
      let b := Q.mean (avgs.drop (avgs.length / 2))
      let sa := Q.cmp a (0, 1)
      if sa = 0 then
        -- a first half of several averages that cancel exactly need not cancel in f64: undecided
        if avgs.length / 2 ≥ 2 then none
        else (if Q.cmp b (0, 1) > 0 then some .increasing else if Q.cmp b (0, 1) < 0 then some .decreasing else some .stable)
      else
        -- (B − A)/A > 1/20  ⇔  sign(A) · (20·(B − A) − A) > 0 ;  (B − A)/A < −1/20  ⇔  sign(A) · (20·(B − A) + A) < 0
        let up := sa * Q.cmp (Q.scale 20 (Q.sub b a)) a
        let down := sa * Q.cmp (Q.scale 20 (Q.sub b a)) (Q.scale (-1) a)
        if up > 0 then some .increasing
        else if down < 0 then some .decreasing
        else if up = 0 ∨ down = 0 then none
        else some .stable

def trendOk (ws : List (List AEv)) (obs : Trend) : Bool :=
  match trendExact ws with
  | some t => obs == t
  | none => true

/-- the windows of an `SA` case: event `i` goes to window `idx[i]`; windows `0 .. max idx` in order (some may be empty) -/
def windowsByIndex (idx : List Nat) (es : List AEv) : List (List AEv) :=
  if idx.isEmpty then []
  else (List.range (idx.foldl max 0 + 1)).map fun j => ((idx.zip es).filter fun p => p.1 == j).map (·.2)

/-! ### `StreamAlphaNode` statistics -/

structure ASObs where
  events : List Ev
  stats : AStats
  afterClear : Nat
deriving Repr, DecidableEq

/-- The letter: the node's statistics describe exactly the events it retains — their number, the timestamps of the first and
the last of them in arrival order, the configured window length; `clear` leaves nothing -/
def asOk (w : AWin) (o : ASObs) : Bool :=
  o.stats.count == o.events.length
  && o.stats.oldest == o.events.head?.map (·.ts) && o.stats.newest == o.events.getLast?.map (·.ts)
  && o.stats.durMs == w.durMs && o.afterClear == 0

/-- `process_event` over a list of operations; `none` = panic -/
def Alpha.run : Alpha → List ANOp → Option Alpha
  | a, [] => some a
  | a, op :: ops => match a.process op.now op.pass op.e with
    | none => none
    | some r => r.1.run ops

def asModel (a : Alpha) (ops : List ANOp) : Option ASObs :=
  (a.run ops).map fun a' => { events := a'.events, stats := a'.stats, afterClear := a'.clear.events.length }

/-! ### field extraction -/

/-- The letter: a field reads as a number exactly when it holds a `Number` or an `Integer` (with that value), as a string
exactly when it holds a `String`, as a boolean exactly when it holds a `Boolean`; a missing field reads as nothing -/
def evOk (v : EVal) (n : Option XNum) (s : Option Int) (b : Option Bool) : Bool :=
  match v with
  | .number x => n == some x && s == none && b == none
  | .integer i => n == some (.fin i) && s == none && b == none
  | .string i => n == none && s == some i && b == none
  | .boolean c => n == none && s == none && b == some c
  | .null => n == none && s == none && b == none
  | .missing => n == none && s == none && b == none

end C12
