import RreModel.C12.Lemmas
import RreModel.C12.Spec2
/-
C12 — helper lemmas for `Model2.lean` / `Spec2.lean` (core Lean only).
-/
namespace C12

/-! ### the f64 sum over `XNum`: the fold in the code's order against the closed form -/

/-- the closed form of `Model.xSum` on the list of numeric values -/
def xSumL (v : List XNum) : XNum :=
  if v.contains .pinf && v.contains .ninf then .nan
  else if v.contains .pinf then .pinf
  else if v.contains .ninf then .ninf
  else .fin ((v.filterMap fun x => match x with | .fin i => some i | _ => none).foldl (· + ·) 0)

theorem xSum_eq_xSumL (vs : List (Option XNum)) : xSum vs = xSumL (vs.filterMap id) := rfl

/-- neither `±f64::MAX` (the values that make the sum depend on the order of addition) -/
def XNum.plain : XNum → Bool
  | .lo => false
  | .hi => false
  | _ => true

theorem add_plain {a b : XNum} (ha : a.plain = true) (hb : b.plain = true) : (a.add b).plain = true := by
  cases a <;> cases b <;> simp_all [XNum.add, XNum.plain]

theorem add_assoc_plain {a b c : XNum} (ha : a.plain = true) (hb : b.plain = true) (hc : c.plain = true) :
    (a.add b).add c = a.add (b.add c) := by
  cases a <;> cases b <;> cases c <;> simp_all [XNum.add, XNum.plain, Int.add_assoc]

theorem add_zero_plain {a : XNum} (ha : a.plain = true) : (XNum.fin 0).add a = a := by
  cases a <;> simp_all [XNum.add, XNum.plain]

theorem foldl_add_shift (a : Int) (l : List Int) : l.foldl (· + ·) a = a + l.foldl (· + ·) 0 := by
  induction l generalizing a with
  | nil => simp
  | cons x xs ih => rw [List.foldl_cons, List.foldl_cons, ih (a + x), ih (0 + x)]; omega

theorem xSumL_plain (v : List XNum) : (xSumL v).plain = true := by
  unfold xSumL; split
  · rfl
  · split
    · rfl
    · split <;> rfl

/-- a comparable value: no NaN, no `±f64::MAX` -/
def XNum.comparable (x : XNum) : Bool := x != .nan && x != .lo && x != .hi

theorem xSumL_cons {x : XNum} (hx : x.comparable = true) (v : List XNum) : xSumL (x :: v) = x.add (xSumL v) := by
  cases x with
  | nan => simp [XNum.comparable] at hx
  | lo => simp [XNum.comparable] at hx
  | hi => simp [XNum.comparable] at hx
  | fin i =>
    by_cases hp : XNum.pinf ∈ v <;> by_cases hn : XNum.ninf ∈ v <;>
      simp [xSumL, hp, hn, XNum.add]
    rw [foldl_add_shift]
  | pinf =>
    by_cases hp : XNum.pinf ∈ v <;> by_cases hn : XNum.ninf ∈ v <;>
      simp [xSumL, hp, hn, XNum.add]
  | ninf =>
    by_cases hp : XNum.pinf ∈ v <;> by_cases hn : XNum.ninf ∈ v <;>
      simp [xSumL, hp, hn, XNum.add]

theorem comparable_plain {x : XNum} (h : x.comparable = true) : x.plain = true := by
  cases x <;> simp_all [XNum.comparable, XNum.plain]

theorem xfoldl_add_eq {acc : XNum} (hacc : acc.plain = true) (v : List XNum) (hv : ∀ x ∈ v, x.comparable = true) :
    v.foldl XNum.add acc = acc.add (xSumL v) := by
  induction v generalizing acc with
  | nil =>
    cases acc <;> simp_all [xSumL, XNum.add, XNum.plain]
  | cons x xs ih =>
    have hx := hv x (by simp)
    rw [List.foldl_cons, ih (add_plain hacc (comparable_plain hx)) (fun y hy => hv y (by simp [hy])),
      xSumL_cons hx, add_assoc_plain hacc (comparable_plain hx) (xSumL_plain xs)]

/-! ### grouping by an arbitrary key (`DataStream::key_by` / `group_by`) -/

/-- what the grouping loop maintains: one group per key seen, holding exactly the events of that key in arrival order -/
structure KInv (k : Ev → Nat) (seen : List Ev) (g : List (Nat × List Ev)) : Prop where
  nodup : (keys g).Nodup
  content : ∀ p ∈ g, p.2 = seen.filter (fun x => decide (k x = p.1))
  cover : ∀ x ∈ seen, k x ∈ keys g
  used : ∀ p ∈ g, ∃ x ∈ seen, k x = p.1

theorem kinv_step {k : Ev → Nat} {seen : List Ev} {g : List (Nat × List Ev)} (h : KInv k seen g) (e : Ev) :
    KInv k (seen ++ [e]) (addToGroup (k e) e g) := by
  obtain ⟨hn, hc, hv, hu⟩ := h
  have hkeys := keys_addToGroup (k e) e g
  constructor
  · rw [hkeys]; split
    · exact hn
    · rename_i hk
      rw [List.nodup_append]
      exact ⟨hn, by simp, by intro a ha b hb; simp at hb; subst hb; intro hab; exact hk (hab ▸ ha)⟩
  · intro p hp
    by_cases hpk : p.1 = k e
    · rcases addToGroup_same hn hpk hp with ⟨q, hq, h1, h2⟩ | ⟨h1, h2⟩
      · rw [h2, hc q hq, List.filter_append, h1, hpk]; simp
      · rw [h2, List.filter_append, hpk]
        have : seen.filter (fun x => decide (k x = k e)) = [] := by
          rw [List.filter_eq_nil_iff]
          intro x hx; simp only [decide_eq_true_eq]; intro hxe; exact h1 (hxe ▸ hv x hx)
        rw [this]; simp
    · have hp' := (addToGroup_other hpk).mp hp
      rw [hc p hp', List.filter_append]
      have : ¬ k e = p.1 := fun h' => hpk h'.symm
      simp [this]
  · intro x hx
    rw [hkeys]
    rcases List.mem_append.mp hx with hx | hx
    · split
      · exact hv x hx
      · exact List.mem_append_left _ (hv x hx)
    · simp only [List.mem_singleton] at hx; subst hx
      split
      · assumption
      · simp
  · intro p hp
    by_cases hpk : p.1 = k e
    · exact ⟨e, by simp, hpk.symm⟩
    · obtain ⟨x, hx, hxp⟩ := hu p ((addToGroup_other hpk).mp hp)
      exact ⟨x, List.mem_append_left _ hx, hxp⟩

theorem kinv_fold {k : Ev → Nat} (es seen : List Ev) (g : List (Nat × List Ev)) (h : KInv k seen g) :
    KInv k (seen ++ es) (es.foldl (fun g e => addToGroup (k e) e g) g) := by
  induction es generalizing seen g with
  | nil => simpa using h
  | cons e es ih =>
    have := ih (seen ++ [e]) _ (kinv_step h e)
    simpa [List.append_assoc] using this

theorem kinv_keyBy (k : Ev → Nat) (es : List Ev) : KInv k es (keyBy k es) := by
  have := kinv_fold (k := k) es [] [] ⟨by simp [keys], by simp, by simp, by simp⟩
  simpa [keyBy] using this

/-- `windowEach` keeps the keys and windows each group on its own -/
theorem windowEach_spec (t : WType) (d cap : Nat) (gs : List (Nat × List Ev)) (r : List (Nat × List TW))
    (h : windowEach t d cap gs = some r) :
    r.map (·.1) = gs.map (·.1)
    ∧ ∀ p ∈ r, ∃ g ∈ gs, g.1 = p.1 ∧ windowedStream t d cap g.2 = some p.2 := by
  induction gs generalizing r with
  | nil =>
    simp only [windowEach, Option.some.injEq] at h
    subst h; simp
  | cons g gs ih =>
    simp only [windowEach] at h
    cases hw : windowedStream t d cap g.2 with
    | none => simp [hw] at h
    | some ws =>
      cases hr : windowEach t d cap gs with
      | none => simp [hw, hr] at h
      | some r' =>
        simp only [hw, hr, Option.some.injEq] at h
        subst h
        obtain ⟨i1, i2⟩ := ih r' hr
        refine ⟨by simp [i1], ?_⟩
        intro p hp
        rcases List.mem_cons.mp hp with hp | hp
        · subst hp; exact ⟨g, by simp, rfl, hw⟩
        · obtain ⟨g', hg', e1, e2⟩ := i2 p hp
          exact ⟨g', List.mem_cons_of_mem _ hg', e1, e2⟩

/-- `windowEach` fails exactly when one group's constructor fails -/
theorem windowEach_none (t : WType) (d cap : Nat) (gs : List (Nat × List Ev)) :
    windowEach t d cap gs = none ↔ ∃ g ∈ gs, windowedStream t d cap g.2 = none := by
  induction gs with
  | nil => simp [windowEach]
  | cons g gs ih =>
    simp only [windowEach]
    cases hw : windowedStream t d cap g.2 with
    | none => simp [hw]
    | some ws =>
      cases hr : windowEach t d cap gs with
      | none =>
        simp only [true_iff]
        obtain ⟨g', hg', e⟩ := ih.mp hr
        exact ⟨g', List.mem_cons_of_mem _ hg', e⟩
      | some r' =>
        simp only [reduceCtorEq, false_iff]
        rintro ⟨g', hg', e⟩
        rcases List.mem_cons.mp hg' with h | h
        · subst h; rw [hw] at e; cases e
        · have := ih.mpr ⟨g', h, e⟩
          rw [hr] at this; cases this

/-! ### the exact variance of integer values -/

theorem sq_dev_sum (c S : Int) (l : List Int) :
    (l.map fun v => (c * v - S) * (c * v - S)).sum
      = c * c * (l.map fun v => v * v).sum - 2 * c * S * l.sum + (Int.ofNat l.length) * S * S := by
  induction l with
  | nil => simp
  | cons x xs ih =>
    simp only [List.map_cons, List.sum_cons, List.length_cons, ih]
    have : (Int.ofNat (xs.length + 1)) = Int.ofNat xs.length + 1 := rfl
    rw [this]
    grind

/-! ### order statistics at an arbitrary index -/

theorem percentileAt_spec (idx : Nat → Nat) (es : List AEv) :
    (aggPercentileAt idx es = none ↔ (avals es = [] ∨ (avals es).length ≤ idx (avals es).length))
    ∧ ∀ r, aggPercentileAt idx es = some r →
        (sortInts (avals es))[idx (avals es).length]? = some r
        ∧ idx (avals es).length < (avals es).length
        ∧ rankOk (avals es) (idx (avals es).length) r = true := by
  have hl : (sortInts (avals es)).length = (avals es).length := (sortInts_perm _).length_eq
  unfold aggPercentileAt
  by_cases he : (avals es).isEmpty = true
  · have : avals es = [] := by simpa using he
    simp [this]
  · have hne : avals es ≠ [] := by simpa using he
    simp only [he, Bool.false_eq_true, if_false]
    constructor
    · rw [List.getElem?_eq_none_iff, hl]
      constructor
      · intro h; exact Or.inr h
      · rintro (h | h)
        · exact absurd h hne
        · exact h
    · intro r hr
      obtain ⟨hlt, _⟩ := List.getElem?_eq_some_iff.mp hr
      obtain ⟨h1, h2⟩ := sorted_rank (sortInts_sorted (avals es)) hr
      rw [(sortInts_perm (avals es)).countP_eq] at h1 h2
      refine ⟨hr, by omega, ?_⟩
      simp only [rankOk, Bool.and_eq_true, List.contains_eq_mem, decide_eq_true_eq]
      exact ⟨⟨(sortInts_perm (avals es)).mem_iff.mp (List.mem_of_getElem? hr), h1⟩, h2⟩

/-! ### sums over several windows -/

theorem vals_append (a b : List Ev) : vals (a ++ b) = vals a ++ vals b := by simp [vals]

theorem sum_map_aggSum (ws : List (List Ev)) : (ws.map aggSum).sum = (vals ws.flatten).sum := by
  induction ws with
  | nil => simp [vals]
  | cons w ws ih =>
    rw [List.map_cons, List.sum_cons, ih, List.flatten_cons, vals_append, List.sum_append, aggSum_eq]

theorem sum_map_length (ws : List (List Ev)) : (ws.map List.length).sum = ws.flatten.length := by
  rw [List.length_flatten]

theorem sum_map_ofNat {α : Type} (l : List α) (g : α → Nat) :
    (l.map fun x => Int.ofNat (g x)).sum = Int.ofNat (l.map g).sum := by
  induction l with
  | nil => rfl
  | cons x xs ih => rw [List.map_cons, List.sum_cons, ih, List.map_cons, List.sum_cons]; rfl

theorem lastN_eq_drop {α : Type} (k : Nat) (l : List α) : lastN k l = l.drop (l.length - k) := by
  unfold lastN
  split
  · rfl
  · have : l.length - k = 0 := by omega
    simp [this]

theorem filterMap_congr' {α β : Type} {f g : α → Option β} {l : List α} (h : ∀ x ∈ l, f x = g x) :
    l.filterMap f = l.filterMap g := by
  induction l with
  | nil => rfl
  | cons x xs ih =>
    rw [List.filterMap_cons, List.filterMap_cons, h x (by simp), ih (fun y hy => h y (by simp [hy]))]

/-! ### ascending duplicate-free key lists; the windows by set comprehension (`expWindows`) against the model -/

theorem mem_insertKey (a x : Nat) (l : List Nat) : x ∈ insertKey a l ↔ x = a ∨ x ∈ l := by
  induction l with
  | nil => simp [insertKey]
  | cons b l ih =>
    simp only [insertKey]
    split
    · simp
    · split
      · rename_i h; subst h; simp
      · simp only [List.mem_cons, ih]
        constructor
        · rintro (h | h | h)
          · exact Or.inr (Or.inl h)
          · exact Or.inl h
          · exact Or.inr (Or.inr h)
        · rintro (h | h | h)
          · exact Or.inr (Or.inl h)
          · exact Or.inl h
          · exact Or.inr (Or.inr h)

theorem insertKey_sorted (a : Nat) (l : List Nat) (h : l.Pairwise (· < ·)) : (insertKey a l).Pairwise (· < ·) := by
  induction l with
  | nil => simp [insertKey]
  | cons b l ih =>
    rw [List.pairwise_cons] at h
    simp only [insertKey]
    split
    · rename_i hab
      rw [List.pairwise_cons]
      refine ⟨?_, List.pairwise_cons.mpr h⟩
      intro y hy
      rcases List.mem_cons.mp hy with e | hy
      · omega
      · have := h.1 y hy; omega
    · split
      · exact List.pairwise_cons.mpr h
      · rename_i h1 h2
        rw [List.pairwise_cons]
        refine ⟨?_, ih h.2⟩
        intro y hy
        rcases (mem_insertKey a y l).mp hy with e | hy
        · omega
        · exact h.1 y hy

theorem sortedKeys_sorted (l : List Nat) : (sortedKeys l).Pairwise (· < ·) := by
  induction l with
  | nil => simp [sortedKeys]
  | cons a l ih => exact insertKey_sorted a _ ih

theorem mem_sortedKeys (x : Nat) (l : List Nat) : x ∈ sortedKeys l ↔ x ∈ l := by
  induction l with
  | nil => simp [sortedKeys]
  | cons a l ih =>
    show x ∈ insertKey a (sortedKeys l) ↔ _
    rw [mem_insertKey, ih, List.mem_cons]

/-- two strictly ascending lists with the same members are equal -/
theorem pairwise_lt_ext : ∀ (l1 l2 : List Nat), l1.Pairwise (· < ·) → l2.Pairwise (· < ·) → (∀ x, x ∈ l1 ↔ x ∈ l2) → l1 = l2
  | [], [], _, _, _ => rfl
  | [], b :: _, _, _, h => absurd ((h b).mpr (by simp)) (by simp)
  | a :: _, [], _, _, h => absurd ((h a).mp (by simp)) (by simp)
  | a :: l1, b :: l2, h1, h2, h => by
    rw [List.pairwise_cons] at h1 h2
    have hab : a = b := by
      have ha := (h a).mp (by simp)
      have hb := (h b).mpr (by simp)
      rcases List.mem_cons.mp ha with e | ha'
      · exact e
      · rcases List.mem_cons.mp hb with e | hb'
        · exact e.symm
        · have := h2.1 a ha'; have := h1.1 b hb'; omega
    subst hab
    congr 1
    apply pairwise_lt_ext l1 l2 h1.2 h2.2
    intro x
    constructor
    · intro hx
      rcases List.mem_cons.mp ((h x).mp (List.mem_cons_of_mem _ hx)) with e | hx'
      · have := h1.1 x hx; omega
      · exact hx'
    · intro hx
      rcases List.mem_cons.mp ((h x).mpr (List.mem_cons_of_mem _ hx)) with e | hx'
      · have := h2.1 x hx; omega
      · exact hx'

/-- tumbling `WindowedStream::new` (`d ≥ 1`), listed by start, holds exactly the windows the specification enumerates -/
theorem tumbling_events_eq (d cap : Nat) (es : List Ev) (ws : List TW) (hd : 1 ≤ d) (h : wsTumbling d cap es = some ws) :
    ws.map (·.events) = expWindows .tumbling d cap es := by
  obtain ⟨a, b, c⟩ := ws_windows_spec d cap es ws hd h
  have hstarts : ws.map (·.start) = (sortedKeys (es.map fun x => x.ts / d)).map (· * d) := by
    apply pairwise_lt_ext _ _ a
    · rw [List.pairwise_map]
      exact (sortedKeys_sorted _).imp (fun h => Nat.mul_lt_mul_of_pos_right h (by omega))
    · intro s
      simp only [List.mem_map, mem_sortedKeys]
      constructor
      · rintro ⟨w, hw, rfl⟩
        obtain ⟨_, _, _, x, hx, hxs⟩ := b w hw
        exact ⟨x.ts / d, ⟨x, hx, rfl⟩, hxs⟩
      · rintro ⟨q, ⟨x, hx, rfl⟩, rfl⟩
        obtain ⟨w, hw, hws⟩ := c x hx
        exact ⟨w, hw, hws⟩
  have hev : ws.map (·.events)
      = (ws.map (·.start)).map (fun s => popOver cap (es.filter fun x => decide (x.ts / d * d = s))) := by
    rw [List.map_map]; apply List.map_congr_left; intro w hw; exact (b w hw).2.2.1
  rw [hev, hstarts, List.map_map]
  show _ = (sortedKeys (es.map fun x => x.ts / d)).map fun q => capLast cap (es.filter fun x => x.ts / d == q)
  apply List.map_congr_left
  intro q _
  have hf : es.filter (fun x => decide (x.ts / d * d = q * d)) = es.filter (fun x => x.ts / d == q) := by
    apply List.filter_congr
    intro x _
    have : (x.ts / d * d = q * d) ↔ (x.ts / d = q) :=
      ⟨fun h => Nat.eq_of_mul_eq_mul_right (by omega) h, fun h => by rw [h]⟩
    simp only [this]
    by_cases hq : x.ts / d = q <;> simp [hq]
  simp only [Function.comp, popOver_eq_drop, capLast, hf]

theorem grid_eq_range (step : Nat) (hs : 0 < step) (lo hi : Nat) (hle : lo ≤ hi) :
    wsGrid step hs lo hi = ((List.range (hi - lo + 1)).filter fun i => i % step == 0).map (lo + ·) := by
  apply pairwise_lt_ext _ _ (wsGrid_pairwise step hs lo hi)
  · rw [List.pairwise_map]
    exact (List.pairwise_lt_range.filter _).imp (fun h => by omega)
  · intro s
    rw [mem_wsGrid]
    simp only [List.mem_map, List.mem_filter, List.mem_range, beq_iff_eq]
    constructor
    · rintro ⟨h1, h2, h3⟩; exact ⟨s - lo, ⟨by omega, h3⟩, by omega⟩
    · rintro ⟨i, ⟨h1, h2⟩, rfl⟩
      refine ⟨by omega, by omega, ?_⟩
      rw [Nat.add_sub_cancel_left]; exact h2

theorem map_filter_events (l : List TW) :
    (l.filter fun w => decide (0 < w.events.length)).map (·.events) = (l.map (·.events)).filter (fun e => !e.isEmpty) := by
  induction l with
  | nil => rfl
  | cons w l ih =>
    simp only [List.filter_cons, List.map_cons]
    by_cases hw : w.events = []
    · simp [hw, ih]
    · have h1 : 0 < w.events.length := List.length_pos_iff.mpr hw
      have h2 : w.events.isEmpty = false := by simpa using hw
      simp [h1, h2, ih]

/-- sliding / session `WindowedStream::new` holds exactly the windows the specification enumerates, in grid order -/
theorem sliding_events_eq (t : WType) (ht : t ≠ .tumbling) (d cap : Nat) (es : List Ev) :
    (wsSliding t d cap es).map (·.events) = expWindows t d cap es := by
  have hexp : expWindows t d cap es =
      if es.isEmpty then []
      else
        (((List.range (maxTs es - minTs es + 1)).filter fun i => i % (max (d / 2) 1) == 0).map fun i =>
          capLast cap (es.filter fun x => decide (minTs es + i ≤ x.ts) && decide (x.ts < minTs es + i + d))).filter
          fun w => !w.isEmpty := by
    cases t with
    | tumbling => exact absurd rfl ht
    | sliding => rfl
    | session => rfl
  rw [hexp]
  unfold wsSliding
  by_cases he : es.isEmpty = true
  · simp [he]
  · simp only [he, Bool.false_eq_true, if_false]
    rw [map_filter_events, grid_eq_range _ _ _ _ (minTs_le_maxTs es), List.map_map, List.map_map]
    congr 1
    apply List.map_congr_left
    intro i _
    simp only [Function.comp, wsWindowAt_eq, popOver_eq_drop, capLast]
    rfl

theorem windows_events_eq (t : WType) (d cap : Nat) (es : List Ev) (ws : List TW) (hd : t = .tumbling → 1 ≤ d)
    (h : windowedStream t d cap es = some ws) : ws.map (·.events) = expWindows t d cap es := by
  cases t with
  | tumbling => exact tumbling_events_eq d cap es ws (hd rfl) h
  | sliding =>
    simp only [windowedStream, Option.some.injEq] at h
    subst h; exact sliding_events_eq .sliding (by decide) d cap es
  | session =>
    simp only [windowedStream, Option.some.injEq] at h
    subst h; exact sliding_events_eq .session (by decide) d cap es

theorem sameMultiset_refl {α : Type} [BEq α] [LawfulBEq α] (a : List α) : sameMultiset a a = true := by
  simp [sameMultiset]

theorem flatMap_groups {β : Type} (G : List (Nat × List β)) (f : Nat → List β) (hc : ∀ g ∈ G, g.2 = f g.1) :
    G.flatMap (·.2) = (G.map (·.1)).flatMap f := by
  induction G with
  | nil => rfl
  | cons g G ih =>
    rw [List.flatMap_cons, List.map_cons, List.flatMap_cons, hc g (by simp), ih (fun g' hg' => hc g' (by simp [hg']))]

theorem winsOk_refl (t : WType) (a : List (List Ev)) : winsOk t a a = true := by
  unfold winsOk; split
  · exact sameMultiset_refl a
  · simp

theorem winsOk_of_eq (t : WType) {a b : List (List Ev)} (h : b = a) : winsOk t a b = true := h ▸ winsOk_refl t a

/-- the reduce of the trace carrier keeps exactly the non-empty windows -/
theorem wsReduce_trace (ws : List TW) :
    wsReduce (fun e => [e]) (· ++ ·) ws = (ws.map (·.events)).filter (fun w => !w.isEmpty) := by
  have hfold : ∀ (acc l : List Ev), (l.map fun e => [e]).foldl (· ++ ·) acc = acc ++ l := by
    intro acc l
    induction l generalizing acc with
    | nil => simp
    | cons x xs ih => simp [List.foldl_cons, ih]
  unfold wsReduce
  induction ws with
  | nil => rfl
  | cons w ws ih =>
    rw [List.filterMap_cons, List.map_cons, List.filter_cons, ih]
    cases hw : w.events with
    | nil => simp [reduceL]
    | cons e es => simp [reduceL, hfold]

theorem traceReduce_eq (es : List Ev) : traceReduce es = someIfNonempty es := by
  have hfold : ∀ (acc l : List Ev), (l.map fun e => [e]).foldl (· ++ ·) acc = acc ++ l := by
    intro acc l
    induction l generalizing acc with
    | nil => simp
    | cons x xs ih => simp [List.foldl_cons, ih]
  cases es with
  | nil => rfl
  | cons e es => simp [traceReduce, reduceL, someIfNonempty, hfold]

theorem sortGroups_perm {β : Type} (g : List (Nat × β)) : (sortGroups g).Perm g := List.mergeSort_perm _ _

theorem sortGroups_strict {β : Type} (g : List (Nat × β)) (hn : (g.map (·.1)).Nodup) :
    ((sortGroups g).map (·.1)).Pairwise (· < ·) := by
  have hs : (sortGroups g).Pairwise (fun a b => decide (a.1 ≤ b.1) = true) :=
    List.pairwise_mergeSort (le := fun a b : Nat × β => decide (a.1 ≤ b.1))
      (by intro a b c h1 h2; simp only [decide_eq_true_eq] at *; omega)
      (by intro a b; simp only [Bool.or_eq_true, decide_eq_true_eq]; omega) g
  have hn0 : g.Pairwise (fun a b => a.1 ≠ b.1) := by
    simpa [List.Nodup, List.pairwise_map] using hn
  have hn' : (sortGroups g).Pairwise (fun a b => a.1 ≠ b.1) :=
    ((sortGroups_perm g).pairwise_iff (fun h => Ne.symm h)).mpr hn0
  rw [List.pairwise_map]
  refine (hs.and hn').imp ?_
  intro a b ⟨h1, h2⟩
  simp only [decide_eq_true_eq] at h1
  omega

theorem filterMap_eq_filter_map {α β : Type} (l : List α) (p : α → Bool) (g : α → β) (f : α → Option β)
    (h : ∀ x, f x = if p x then some (g x) else none) : l.filterMap f = (l.filter p).map g := by
  induction l with
  | nil => rfl
  | cons x xs ih =>
    rw [List.filterMap_cons, h x, List.filter_cons]
    cases hp : p x <;> simp [ih]

/-! ### the newest timestamp -/

theorem foldl_max_spec (es : List Ev) (a : Nat) :
    a ≤ es.foldl (fun m x => max m x.ts) a
    ∧ (∀ x ∈ es, x.ts ≤ es.foldl (fun m x => max m x.ts) a)
    ∧ (es.foldl (fun m x => max m x.ts) a = a ∨ ∃ x ∈ es, x.ts = es.foldl (fun m x => max m x.ts) a) := by
  induction es generalizing a with
  | nil => simp
  | cons e es ih =>
    obtain ⟨h1, h2, h3⟩ := ih (max a e.ts)
    simp only [List.foldl_cons, List.mem_cons, forall_eq_or_imp]
    refine ⟨by omega, ⟨by omega, h2⟩, ?_⟩
    rcases h3 with h3 | ⟨x, hx, h3⟩
    · by_cases hle : e.ts ≤ a
      · left; rw [h3]; omega
      · right; exact ⟨e, Or.inl rfl, by rw [h3]; omega⟩
    · right; exact ⟨x, Or.inr hx, h3⟩

end C12
