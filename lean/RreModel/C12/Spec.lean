import RreModel.C12.Model
/-
C12 — the property as decidable predicates over API-level observations
(`TimeWindow::events/count/sum/average/min/max`, `WindowManager::active_windows`,
`WindowedStream::windows/counts`, `StreamAlphaNode::process_event/get_events`).
The same predicates are proved of the model (Theorems.lean) and evaluated by the driver on the
implementation's observations (oracle mode). They are phrased declaratively — a tumbling span is
"same quotient by the duration", retention is "the longest suffix the cap allows of exactly the young events" —
not as the algorithm of the code.
-/
namespace C12

/-! ### aggregates: the fold over exactly the listed events -/

def extremeOk (le : Int → Int → Bool) (v : List Int) : Option Int → Bool
  | none => v.isEmpty
  | some m => v.contains m && v.all (le m)

def aggOk (div : Int → Nat → Nat) (es : List Ev) (a : Agg) : Bool :=
  a.count == es.length
  && a.sum == (vals es).sum
  && a.avg == (if (vals es).isEmpty then none else some (div (vals es).sum (vals es).length))
  && extremeOk (fun m x => decide (m ≤ x)) (vals es) a.min
  && extremeOk (fun m x => decide (x ≤ m)) (vals es) a.max

/-- the three-valued family (`Aggregator::aggregate_events`: count, sum, average) -/
def aggOk3 (div : Int → Nat → Nat) (es : List Ev) (a : Nat × Int × Option Nat) : Bool :=
  a.1 == es.length
  && a.2.1 == (vals es).sum
  && a.2.2 == (if (vals es).isEmpty then none else some (div (vals es).sum (vals es).length))

/-- `kept` is `full` minus the shortest prefix that brings it under the cap: nothing is dropped unless the
cap is exceeded, and then the oldest-arrived go first -/
def keptByCap (cap : Nat) (full kept : List Ev) : Bool :=
  kept.length == min cap full.length && kept == full.drop (full.length - kept.length)

def strictInc : List Nat → Bool
  | [] => true
  | [_] => true
  | a :: b :: rest => decide (a < b) && strictInc (b :: rest)

/-! ### TimeWindow -/

structure TWObs where
  ret : Bool
  start : Nat
  stop : Nat
  events : List Ev
  aggs : List Agg                    -- the same five aggregates through every API family that offers all five
  agg3 : Nat × Int × Option Nat     -- `aggregate_events`
deriving Repr, DecidableEq

inductive TWOp where
  | add (e : Ev)
  | record (e : Ev)
deriving Repr, DecidableEq

def TWOp.ev : TWOp → Ev
  | .add e => e
  | .record e => e

def TW.obs (div : Int → Nat → Nat) (ret : Bool) (w : TW) : TWObs :=
  { ret := ret, start := w.start, stop := w.stop, events := w.events,
    aggs := [aggregate div w.events, aggregate div w.events, aggregate div w.events],
    agg3 := (w.events.length, aggSum w.events, aggAvg div w.events) }

/-- what is known of a fresh `TimeWindow::new(_, d, start, _)`: span `[start, start + d)`, no events -/
def twInitObs (start d : Nat) : TWObs :=
  { ret := false, start := start, stop := start + d, events := [], aggs := [], agg3 := (0, 0, none) }

def TW.step (w : TW) : TWOp → TW × Bool
  | .add e => w.addEvent e
  | .record e => (w.record e, true)

def twStepOk (div : Int → Nat → Nat) (t : WType) (d cap : Nat) (o : TWObs) (op : TWOp) (o' : TWObs) : Bool :=
  (match op with
   | .add e =>
     -- the span never moves; inside the half-open span the event is appended (cap: oldest out), outside it is refused
     o'.start == o.start && o'.stop == o.stop
     && (if o.start ≤ e.ts ∧ e.ts < o.stop then o'.ret && keptByCap cap (o.events ++ [e]) o'.events
         else !o'.ret && o'.events == o.events)
   | .record e =>
     o'.ret
     -- a sliding window trails the recorded event by the duration
     && (if t = .sliding then o'.start == e.ts - d && o'.stop == e.ts + 1
         else o'.start == o.start && o'.stop == o.stop)
     -- no retained event is older than the window
     && o'.events.all (fun x => decide (o'.start ≤ x.ts))
     -- and nothing young enough was dropped, except oldest-first by the cap
     && keptByCap cap ((o.events ++ [e]).filter (fun x => decide (o'.start ≤ x.ts))) o'.events)
  && o'.aggs.all (aggOk div o'.events) && aggOk3 div o'.events o'.agg3

def twRunOk (div : Int → Nat → Nat) (t : WType) (d cap : Nat) : TWObs → List TWOp → List TWObs → Bool
  | _, [], [] => true
  | o, op :: ops, o' :: os => twStepOk div t d cap o op o' && twRunOk div t d cap o' ops os
  | _, _, _ => false

def twTrace (div : Int → Nat → Nat) : TW → List TWOp → List TWObs
  | _, [] => []
  | w, op :: ops => (w.step op).1.obs div (w.step op).2 :: twTrace div (w.step op).1 ops

/-! ### windows of a manager / a windowed stream -/

structure WObs where
  start : Nat
  stop : Nat
  events : List Ev
  agg : Agg
deriving Repr, DecidableEq

def TW.wobs (div : Int → Nat → Nat) (w : TW) : WObs :=
  { start := w.start, stop := w.stop, events := w.events, agg := aggregate div w.events }

/-- events of the window that starts at `s` (none: no events) -/
def eventsAt (o : List WObs) (s : Nat) : List Ev :=
  match o.find? (fun w => w.start == s) with
  | some w => w.events
  | none => []

/-- in how many windows (with multiplicity) does `e` sit -/
def occurrences (e : Ev) (o : List WObs) : Nat := (o.map fun w => w.events.count e).sum

/-- One `process_event e` of a *tumbling* manager with duration `d ≥ 1`; `o`/`o'` = `active_windows` before/after.
`e` is a new event (does not occur in `o`). -/
def wmStepOk (div : Int → Nat → Nat) (d cap maxW : Nat) (o : List WObs) (e : Ev) (o' : List WObs) : Bool :=
  -- windows are aligned intervals, listed by strictly increasing start, at most `maxW`
  strictInc (o'.map (·.start))
  && decide (o'.length ≤ maxW)
  && o'.all (fun w =>
      w.start % d == 0 && w.stop == w.start + d
      -- a window holds only events of its own interval
      && w.events.all (fun x => x.ts / d == w.start / d)
      -- windows that ended at or before the event's time are gone
      && decide (e.ts < w.stop)
      -- the aligned window of `e` received it (last in arrival order; cap: oldest out),
      -- every other window is an old one, untouched
      && (if w.start / d == e.ts / d then keptByCap cap (eventsAt o w.start ++ [e]) w.events
          else w.events == eventsAt o w.start && o.any (fun w0 => w0.start == w.start))
      && aggOk div w.events w.agg)
  -- the aligned window exists (unless the manager may keep no window at all) …
  && (maxW == 0 || o'.any (fun w => w.start / d == e.ts / d))
  -- … and `e` sits in exactly one window
  && occurrences e o' == (if maxW ≥ 1 ∧ cap ≥ 1 then 1 else 0)

def wmRunOk (div : Int → Nat → Nat) (d cap maxW : Nat) : List WObs → List Ev → List (List WObs) → Bool
  | _, [], [] => true
  | o, e :: es, o' :: os => wmStepOk div d cap maxW o e o' && wmRunOk div d cap maxW o' es os
  | _, _, _ => false

/-- model trace of a manager; `none` once the code would have panicked -/
def wmTrace (div : Int → Nat → Nat) : WM → List Ev → Option (List (List WObs))
  | _, [] => some []
  | m, e :: es =>
    match m.process e with
    | none => none
    | some m' => (wmTrace div m' es).map fun rest => m'.windows.map (TW.wobs div) :: rest

/-- `WindowedStream::new(es, tumbling d, cap)` with `d ≥ 1`: `o` = `windows()` listed by start,
`counts` = `counts()` as a sorted multiset -/
def wsOk (div : Int → Nat → Nat) (d cap : Nat) (es : List Ev) (o : List WObs) : Bool :=
  strictInc (o.map (·.start))
  && o.all (fun w =>
      w.start % d == 0 && w.stop == w.start + d
      -- exactly the events of its interval, in arrival order (cap: oldest out)
      && keptByCap cap (es.filter fun x => x.ts / d == w.start / d) w.events
      -- no window without an event
      && es.any (fun x => x.ts / d == w.start / d)
      && aggOk div w.events w.agg)
  -- every event has its aligned window
  && es.all (fun x => o.any fun w => w.start / d == x.ts / d)

/-! ### StreamAlphaNode -/

/-- the documented window of the node at clock `now` -/
def AWin.inSpan : AWin → Nat → Nat → Bool
  | .none, _, _ => true
  | .sliding d, now, ts => decide (now - d ≤ ts) && decide (ts ≤ now)
  | .tumbling d, now, ts => ts / d == now / d

/-- what may stay in the buffer at clock `now` -/
def AWin.live : AWin → Nat → Nat → Bool
  | .none, _, _ => true
  | .sliding d, now, ts => decide (now - d ≤ ts)
  | .tumbling d, now, ts => ts / d == now / d

structure ANObs where
  ret : Bool
  events : List Ev
deriving Repr, DecidableEq

structure ANOp where
  now : Nat
  pass : Bool
  e : Ev
deriving Repr, DecidableEq

/-- one `process_event` at clock `now` (window duration ≥ 1 for tumbling) -/
def anStepOk (w : AWin) (cap : Nat) (o : List Ev) (op : ANOp) (o' : ANObs) : Bool :=
  -- accepted iff stream/type match and the timestamp lies in the window of `now`
  o'.ret == (op.pass && w.inSpan op.now op.e.ts)
  && (if o'.ret then
        -- nothing outside the window is retained
        o'.events.all (fun x => w.live op.now x.ts)
        -- nothing inside it is missing, except what the cap (counted on arrival) pushed out oldest-first
        && o'.events == ((o ++ [op.e]).drop ((o ++ [op.e]).length - cap)).filter (fun x => w.live op.now x.ts)
      else o'.events == o)

def anRunOk (w : AWin) (cap : Nat) : List Ev → List ANOp → List ANObs → Bool
  | _, [], [] => true
  | o, op :: ops, o' :: os => anStepOk w cap o op o' && anRunOk w cap o'.events ops os
  | _, _, _ => false

def anTrace : Alpha → List ANOp → Option (List ANObs)
  | _, [] => some []
  | a, op :: ops =>
    match a.process op.now op.pass op.e with
    | none => none
    | some (a', r) => (anTrace a' ops).map fun rest => { ret := r, events := a'.events } :: rest

end C12
