import RreModel.C12.Model
/-
C12 — the property as decidable predicates over API-level observations
(`TimeWindow::events/count/sum/average/min/max`, `WindowManager::active_windows`,
`WindowedStream::windows/counts`, `StreamAlphaNode::process_event/get_events`).
The same predicates are proved of the model (Theorems.lean) and evaluated by the driver on the
implementation's observations (oracle mode). They are phrased declaratively — a tumbling span is
"same quotient by the duration", retention is "the longest suffix the cap allows of exactly the young events" —
not as the algorithm of the code.
-/
namespace C12

/-! ### aggregates: the fold over exactly the listed events -/

def extremeOk (le : Int → Int → Bool) (v : List Int) : Option Int → Bool
  | none => v.isEmpty
  | some m => v.contains m && v.all (le m)

def aggOk (div : Int → Nat → Nat) (es : List Ev) (a : Agg) : Bool :=
  a.count == es.length
  && a.sum == (vals es).sum
  && a.avg == (if (vals es).isEmpty then none else some (div (vals es).sum (vals es).length))
  && extremeOk (fun m x => decide (m ≤ x)) (vals es) a.min
  && extremeOk (fun m x => decide (x ≤ m)) (vals es) a.max

/-- the three-valued family (`Aggregator::aggregate_events`: count, sum, average) -/
def aggOk3 (div : Int → Nat → Nat) (es : List Ev) (a : Nat × Int × Option Nat) : Bool :=
  a.1 == es.length
  && a.2.1 == (vals es).sum
  && a.2.2 == (if (vals es).isEmpty then none else some (div (vals es).sum (vals es).length))

/-- `kept` is `full` minus the shortest prefix that brings it under the cap: nothing is dropped unless the
cap is exceeded, and then the oldest-arrived go first -/
def keptByCap (cap : Nat) (full kept : List Ev) : Bool :=
  kept.length == min cap full.length && kept == full.drop (full.length - kept.length)

def strictInc : List Nat → Bool
  | [] => true
  | [_] => true
  | a :: b :: rest => decide (a < b) && strictInc (b :: rest)

/-! ### TimeWindow -/

structure TWObs where
  ret : Bool
  start : Nat
  stop : Nat
  events : List Ev
  aggs : List Agg                    -- the same five aggregates through every API family that offers all five
  agg3 : Nat × Int × Option Nat     -- `aggregate_events`
deriving Repr, DecidableEq

inductive TWOp where
  | add (e : Ev)
  | record (e : Ev)
deriving Repr, DecidableEq

def TWOp.ev : TWOp → Ev
  | .add e => e
  | .record e => e

def TW.obs (div : Int → Nat → Nat) (ret : Bool) (w : TW) : TWObs :=
  { ret := ret, start := w.start, stop := w.stop, events := w.events,
    aggs := [aggregate div w.events, aggregate div w.events, aggregate div w.events],
    agg3 := (w.events.length, aggSum w.events, aggAvg div w.events) }

/-- what is known of a fresh `TimeWindow::new(_, d, start, _)`: span `[start, start + d)`, no events -/
def twInitObs (start d : Nat) : TWObs :=
  { ret := false, start := start, stop := start + d, events := [], aggs := [], agg3 := (0, 0, none) }

def TW.step (w : TW) : TWOp → TW × Bool
  | .add e => w.addEvent e
  | .record e => (w.record e, true)

def twStepOk (div : Int → Nat → Nat) (t : WType) (d cap : Nat) (o : TWObs) (op : TWOp) (o' : TWObs) : Bool :=
  (match op with
   | .add e =>
     -- the span never moves; inside the half-open span the event is appended (cap: oldest out), outside it is refused
     o'.start == o.start && o'.stop == o.stop
     && (if o.start ≤ e.ts ∧ e.ts < o.stop then o'.ret && keptByCap cap (o.events ++ [e]) o'.events
         else !o'.ret && o'.events == o.events)
   | .record e =>
     o'.ret
     -- a sliding window trails the recorded event by the duration
     && (if t = .sliding then o'.start == e.ts - d && o'.stop == e.ts + 1
         else o'.start == o.start && o'.stop == o.stop)
     -- no retained event is older than the window
     && o'.events.all (fun x => decide (o'.start ≤ x.ts))
     -- and nothing young enough was dropped, except oldest-first by the cap
     && keptByCap cap ((o.events ++ [e]).filter (fun x => decide (o'.start ≤ x.ts))) o'.events)
  && o'.aggs.all (aggOk div o'.events) && aggOk3 div o'.events o'.agg3

def twRunOk (div : Int → Nat → Nat) (t : WType) (d cap : Nat) : TWObs → List TWOp → List TWObs → Bool
  | _, [], [] => true
  | o, op :: ops, o' :: os => twStepOk div t d cap o op o' && twRunOk div t d cap o' ops os
  | _, _, _ => false

def twTrace (div : Int → Nat → Nat) : TW → List TWOp → List TWObs
  | _, [] => []
  | w, op :: ops => (w.step op).1.obs div (w.step op).2 :: twTrace div (w.step op).1 ops

/-! ### windows of a manager / a windowed stream -/

structure WObs where
  start : Nat
  stop : Nat
  events : List Ev
  agg : Agg
deriving Repr, DecidableEq

def TW.wobs (div : Int → Nat → Nat) (w : TW) : WObs :=
  { start := w.start, stop := w.stop, events := w.events, agg := aggregate div w.events }

/-- events of the window that starts at `s` (none: no events) -/
def eventsAt (o : List WObs) (s : Nat) : List Ev :=
  match o.find? (fun w => w.start == s) with
  | some w => w.events
  | none => []

/-- in how many windows (with multiplicity) does `e` sit -/
def occurrences (e : Ev) (o : List WObs) : Nat := (o.map fun w => w.events.count e).sum

/-- One `process_event e` of a *tumbling* manager with duration `d ≥ 1`; `o`/`o'` = `active_windows` before/after.
`e` is a new event (does not occur in `o`). -/
def wmStepOk (div : Int → Nat → Nat) (d cap maxW : Nat) (o : List WObs) (e : Ev) (o' : List WObs) : Bool :=
  -- windows are aligned intervals, listed by strictly increasing start, at most `maxW`
  strictInc (o'.map (·.start))
  && decide (o'.length ≤ maxW)
  && o'.all (fun w =>
      w.start % d == 0 && w.stop == w.start + d
      -- a window holds only events of its own interval
      && w.events.all (fun x => x.ts / d == w.start / d)
      -- windows that ended at or before the event's time are gone
      && decide (e.ts < w.stop)
      -- the aligned window of `e` received it (last in arrival order; cap: oldest out),
      -- every other window is an old one, untouched
      && (if w.start / d == e.ts / d then keptByCap cap (eventsAt o w.start ++ [e]) w.events
          else w.events == eventsAt o w.start && o.any (fun w0 => w0.start == w.start))
      && aggOk div w.events w.agg)
  -- the aligned window exists (unless the manager may keep no window at all) …
  && (maxW == 0 || o'.any (fun w => w.start / d == e.ts / d))
  -- … and `e` sits in exactly one window
  && occurrences e o' == (if maxW ≥ 1 ∧ cap ≥ 1 then 1 else 0)

def wmRunOk (div : Int → Nat → Nat) (d cap maxW : Nat) : List WObs → List Ev → List (List WObs) → Bool
  | _, [], [] => true
  | o, e :: es, o' :: os => wmStepOk div d cap maxW o e o' && wmRunOk div d cap maxW o' es os
  | _, _, _ => false

/-- model trace of a manager; `none` once the code would have panicked -/
def wmTrace (div : Int → Nat → Nat) : WM → List Ev → Option (List (List WObs))
  | _, [] => some []
  | m, e :: es =>
    match m.process e with
    | none => none
    | some m' => (wmTrace div m' es).map fun rest => m'.windows.map (TW.wobs div) :: rest

/-- `WindowedStream::new(es, tumbling d, cap)` with `d ≥ 1`: `o` = `windows()` listed by start,
`counts` = `counts()` as a sorted multiset -/
def wsOk (div : Int → Nat → Nat) (d cap : Nat) (es : List Ev) (o : List WObs) : Bool :=
  strictInc (o.map (·.start))
  && o.all (fun w =>
      w.start % d == 0 && w.stop == w.start + d
      -- exactly the events of its interval, in arrival order (cap: oldest out)
      && keptByCap cap (es.filter fun x => x.ts / d == w.start / d) w.events
      -- no window without an event
      && es.any (fun x => x.ts / d == w.start / d)
      && aggOk div w.events w.agg)
  -- every event has its aligned window
  && es.all (fun x => o.any fun w => w.start / d == x.ts / d)

/-! ### StreamAlphaNode -/

/-- the documented window of the node at clock `now` -/
def AWin.inSpan : AWin → Nat → Nat → Bool
  | .none, _, _ => true
  | .sliding d, now, ts => decide (now - d ≤ ts) && decide (ts ≤ now)
  | .tumbling d, now, ts => ts / d == now / d

/-- what may stay in the buffer at clock `now` -/
def AWin.live : AWin → Nat → Nat → Bool
  | .none, _, _ => true
  | .sliding d, now, ts => decide (now - d ≤ ts)
  | .tumbling d, now, ts => ts / d == now / d

structure ANObs where
  ret : Bool
  events : List Ev
deriving Repr, DecidableEq

structure ANOp where
  now : Nat
  pass : Bool
  e : Ev
deriving Repr, DecidableEq

/-- one `process_event` at clock `now` (window duration ≥ 1 for tumbling) -/
def anStepOk (w : AWin) (cap : Nat) (o : List Ev) (op : ANOp) (o' : ANObs) : Bool :=
  -- accepted iff stream/type match and the timestamp lies in the window of `now`
  o'.ret == (op.pass && w.inSpan op.now op.e.ts)
  && (if o'.ret then
        -- nothing outside the window is retained
        o'.events.all (fun x => w.live op.now x.ts)
        -- nothing inside it is missing, except what the cap (counted on arrival) pushed out oldest-first
        && o'.events == ((o ++ [op.e]).drop ((o ++ [op.e]).length - cap)).filter (fun x => w.live op.now x.ts)
      else o'.events == o)

def anRunOk (w : AWin) (cap : Nat) : List Ev → List ANOp → List ANObs → Bool
  | _, [], [] => true
  | o, op :: ops, o' :: os => anStepOk w cap o op o' && anRunOk w cap o'.events ops os
  | _, _, _ => false

def anTrace : Alpha → List ANOp → Option (List ANObs)
  | _, [] => some []
  | a, op :: ops =>
    match a.process op.now op.pass op.e with
    | none => none
    | some (a', r) => (anTrace a' ops).map fun rest => { ret := r, events := a'.events } :: rest

/-! ### WindowManager, sliding and session mode

In these two modes the manager keeps *fixed* windows `[t₀, t₀ + d)` that start at the timestamp of the event they
were opened for (`calculate_window_start = event_time`; a `Session { timeout }` is treated exactly like `Sliding`,
the timeout is never read). An event goes to ONE window — the code's loop `break`s at the first window that accepts:
the earliest-starting live window whose span contains the timestamp — or opens a new window at its own timestamp. -/

/-- the windows of `o` whose half-open span contains `t`, first = smallest start (`o` is listed by start) -/
def firstHolder (o : List WObs) (t : Nat) : Option WObs :=
  o.find? (fun w => decide (w.start ≤ t) && decide (t < w.stop))

/-- where the receiving window starts: at the first holder, or — if no window's span contains `e` — at `e.ts` -/
def recvStart (o : List WObs) (t : Nat) : Nat :=
  match firstHolder o t with
  | some h => h.start
  | none => t

/-- One `process_event e` of a sliding/session manager; `o`/`o'` = `active_windows` before/after, `e` a new event. -/
def wmfStepOk (div : Int → Nat → Nat) (d cap maxW : Nat) (o : List WObs) (e : Ev) (o' : List WObs) : Bool :=
  -- windows are listed by strictly increasing start, at most `maxW`
  strictInc (o'.map (·.start))
  && decide (o'.length ≤ maxW)
  && o'.all (fun w =>
      -- fixed span of the configured duration
      w.stop == w.start + d
      -- no window holds an event outside its span
      && w.events.all (fun x => decide (w.start ≤ x.ts) && decide (x.ts < w.stop))
      -- windows that ended at or before the event's time are gone
      && decide (e.ts < w.stop)
      -- the receiving window holds its previous content plus `e` (last in arrival order; cap: oldest out);
      -- every other window is an old one, untouched
      && (if w.start == recvStart o e.ts then keptByCap cap (eventsAt o w.start ++ [e]) w.events
          else w.events == eventsAt o w.start && o.any (fun w0 => w0.start == w.start))
      && aggOk div w.events w.agg)
  -- the receiving window exists (unless the manager may keep no window, or the duration is below 1 ms) …
  && (maxW == 0 || d == 0 || o'.any (fun w => w.start == recvStart o e.ts))
  -- … its span contains `e` …
  && o'.all (fun w => w.start != recvStart o e.ts || (decide (w.start ≤ e.ts) && decide (e.ts < w.stop)))
  -- … `e` sits in exactly one window
  && occurrences e o' == (if maxW ≥ 1 ∧ cap ≥ 1 ∧ d ≥ 1 then 1 else 0)
  -- and a window that has not ended yet is only ever dropped by the window limit
  && (o'.length == maxW || o.all (fun w0 => !(decide (e.ts < w0.stop)) || o'.any (fun w => w.start == w0.start)))

def wmfRunOk (div : Int → Nat → Nat) (d cap maxW : Nat) : List WObs → List Ev → List (List WObs) → Bool
  | _, [], [] => true
  | o, e :: es, o' :: os => wmfStepOk div d cap maxW o e o' && wmfRunOk div d cap maxW o' es os
  | _, _, _ => false

/-! ### WindowedStream::new, sliding / session configuration

Overlapping windows on a grid: starts `lo, lo + step, lo + 2·step, … ≤ hi` (`lo`/`hi` = oldest/newest timestamp,
`step` = half the duration, at least 1 ms); every window holds every event whose timestamp lies in its span. -/

def wssOk (div : Int → Nat → Nat) (d cap : Nat) (es : List Ev) (o : List WObs) : Bool :=
  -- windows are listed by strictly increasing start
  strictInc (o.map (·.start))
  && o.all (fun w =>
      -- a point of the grid, not beyond the newest event
      decide (minTs es ≤ w.start) && (w.start - minTs es) % (max (d / 2) 1) == 0 && decide (w.start ≤ maxTs es)
      && w.stop == w.start + d
      -- exactly the events of its span, in arrival order (cap: oldest out)
      && keptByCap cap (es.filter fun x => decide (w.start ≤ x.ts) && decide (x.ts < w.start + d)) w.events
      -- no empty window
      && !w.events.isEmpty
      && aggOk div w.events w.agg)
  -- every grid point whose span holds an event has its window (unless windows may hold nothing)
  && (cap == 0 || (List.range (maxTs es - minTs es + 1)).all (fun k =>
        k % (max (d / 2) 1) != 0
        || !(es.any fun x => decide (minTs es + k ≤ x.ts) && decide (x.ts < minTs es + k + d))
        || o.any (fun w => w.start == minTs es + k)))
  -- so (duration ≥ 1 ms) every event lies in the span of at least one window
  && (cap == 0 || d == 0 || es.all (fun x => o.any fun w => decide (w.start ≤ x.ts) && decide (x.ts < w.stop)))

/-! ### StreamAlphaNode, session window

The node keeps the events of the open session. Its notion of "last activity" is the timestamp of the event that
*arrived* last (not the newest timestamp): `last` below is that ghost value, reconstructed from the history. -/

/-- does an event with timestamp `ts` continue the open session? (`saturating_sub`: a late event always does) -/
def continues (timeout : Nat) (last : Option Nat) (ts : Nat) : Bool :=
  match last with
  | none => true
  | some l => decide (ts - l ≤ timeout)

/-- the ghost after one `process_event` -/
def sessLast (timeout : Nat) (last : Option Nat) (op : ANOp) : Option Nat :=
  if op.pass then (if op.now - op.e.ts > timeout then none else some op.e.ts) else last

/-- one `process_event` at clock `now` of a node with a session window -/
def ansStepOk (timeout cap : Nat) (last : Option Nat) (o : List Ev) (op : ANOp) (o' : ANObs) : Bool :=
  -- every event of the node's stream/type is accepted (a session never refuses)
  o'.ret == op.pass
  && (if op.pass then
        -- the accepted event is itself older than the timeout at the clock: the session is closed, nothing is kept
        if op.now - op.e.ts > timeout then o'.events.isEmpty
        -- closer than the timeout to the last arrival: same session; a larger gap starts a new one with `e` alone
        else keptByCap cap ((if continues timeout last op.e.ts then o else []) ++ [op.e]) o'.events
      else o'.events == o)

def ansRunOk (timeout cap : Nat) : Option Nat → List Ev → List ANOp → List ANObs → Bool
  | _, _, [], [] => true
  | last, o, op :: ops, o' :: os =>
    ansStepOk timeout cap last o op o' && ansRunOk timeout cap (sessLast timeout last op) o'.events ops os
  | _, _, _, _ => false

def ansTrace : AlphaS → List ANOp → List ANObs
  | _, [] => []
  | a, op :: ops =>
    { ret := (a.process op.now op.pass op.e).2, events := (a.process op.now op.pass op.e).1.events }
      :: ansTrace (a.process op.now op.pass op.e).1 ops

/-! ### First, Last, CountDistinct, CountBy, Percentile, StdDev-definedness over exactly the listed events -/

structure Agg2 where
  first : Option Nat
  last : Option Nat
  distinct : Nat
  countBy : List (Int × Nat)          -- entries listed by increasing key
  pcts : List (Option Int)            -- percentiles 0, 25, 50, 75, 100
  stdDefined : Bool
deriving Repr, DecidableEq

/-- how many values do not occur again later in the list = the number of distinct values -/
def distinctCount : List FVal → Nat
  | [] => 0
  | x :: xs => (if x ∈ xs then 0 else 1) + distinctCount xs

def strictIncInt : List Int → Bool
  | [] => true
  | [_] => true
  | a :: b :: rest => decide (a < b) && strictIncInt (b :: rest)

/-- the count map has one entry per key that occurs, carrying the number of its occurrences -/
def countByOk (keys : List Int) (o : List (Int × Nat)) : Bool :=
  strictIncInt (o.map (·.1))
  && o.all (fun p => p.2 == keys.count p.1 && decide (1 ≤ p.2))
  && keys.all (fun k => o.any (fun p => p.1 == k))

/-- `r` is the order statistic of rank `idx` (0-based) of `v`: fewer than or exactly `idx` values lie strictly below it,
more than `idx` values are ≤ it -/
def rankOk (v : List Int) (idx : Nat) (r : Int) : Bool :=
  v.contains r && decide (v.countP (fun x => decide (x < r)) ≤ idx) && decide (idx < v.countP (fun x => decide (x ≤ r)))

def pctOk (v : List Int) (p : Nat) : Option Int → Bool
  | none => v.isEmpty
  | some r => !v.isEmpty && rankOk v ((p * (v.length - 1) + 50) / 100) r

def agg2Ok (es : List AEv) (a : Agg2) : Bool :=
  a.first == es.head?.map (·.id)
  && a.last == es.getLast?.map (·.id)
  && a.distinct == distinctCount ((es.map (·.v)).filter (· ≠ .missing))
  && countByOk (es.filterMap (·.v.key)) a.countBy
  && a.pcts.length == 5
  && (a.pcts.zip [0, 25, 50, 75, 100]).all (fun q => pctOk (avals es) q.2 q.1)
  && a.stdDefined == decide (2 ≤ (avals es).length)

def sortByKey (l : List (Int × Nat)) : List (Int × Nat) := l.mergeSort (fun a b => decide (a.1 ≤ b.1))

def aggregate2 (es : List AEv) : Agg2 :=
  { first := aggFirst es, last := aggLast es, distinct := aggCountDistinct es,
    countBy := sortByKey (aggCountBy es),
    pcts := [0, 25, 50, 75, 100].map (fun p => aggPercentile p es),
    stdDefined := aggStdDevDefined es }

/-! ### min / max over the extended reals (`XV` cases): the property's letter, not the fold -/

/-- `r` is the least (`le := XNum.le`) / greatest (`le := flip XNum.le`) numeric value of the window: `none` exactly when the
window has no numeric value; NaN exactly when every numeric value is NaN; otherwise a non-NaN member that bounds every
non-NaN member. -/
def xExtremeOk (le : XNum → XNum → Bool) (vs : List (Option XNum)) (r : Option XNum) : Bool :=
  let v := vs.filterMap id
  let nn := v.filter (· != .nan)
  match r with
  | none => v.isEmpty
  | some .nan => !v.isEmpty && nn.isEmpty
  | some x => nn.contains x && nn.all (fun y => le x y)

def xMinOk (vs : List (Option XNum)) (r : Option XNum) : Bool := xExtremeOk XNum.le vs r
def xMaxOk (vs : List (Option XNum)) (r : Option XNum) : Bool := xExtremeOk (fun a b => XNum.le b a) vs r

end C12
