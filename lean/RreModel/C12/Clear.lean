import RreModel.C12.Spec
import RreModel.C12.Model2
/-
C12 — windows REUSED after `clear()`.
`TimeWindow::clear` (src/streaming/window.rs) empties the event deque and leaves span, duration, type and cap alone;
`StreamAlphaNode::clear` (src/rete/stream_alpha_node.rs) empties the buffer and resets `last_window_start` (never observable)
and `last_session_event_timestamp`. A history with clears is a list of `COp`: the component's own operation or `clear`.
The spec of a clear step: the window is empty afterwards (aggregates = folds over nothing), its span has not moved; the steps
after it are judged against the EMPTY window (`o.events = []`), i.e. whatever the window held or evicted before the clear
has no influence on what it retains afterwards.
-/
namespace C12

inductive COp (α : Type) where
  | op (a : α)
  | clear
deriving Repr, DecidableEq

/-! ### TimeWindow -/

/- `TimeWindow::clear` is `TW.clear` (Model2.lean): `{ w with events := [] }` -/

def TW.stepC (w : TW) : COp TWOp → TW × Bool
  | .op x => w.step x
  | .clear => (w.clear, true)

/-- after `clear()`: no events, the span where it was, every aggregate the fold over nothing -/
def twClearOk (div : Int → Nat → Nat) (o o' : TWObs) : Bool :=
  o'.ret && o'.start == o.start && o'.stop == o.stop && o'.events.isEmpty
  && o'.aggs.all (aggOk div o'.events) && aggOk3 div o'.events o'.agg3

def twStepOkC (div : Int → Nat → Nat) (t : WType) (d cap : Nat) (o : TWObs) : COp TWOp → TWObs → Bool
  | .op x, o' => twStepOk div t d cap o x o'
  | .clear, o' => twClearOk div o o'

def twRunOkC (div : Int → Nat → Nat) (t : WType) (d cap : Nat) : TWObs → List (COp TWOp) → List TWObs → Bool
  | _, [], [] => true
  | o, op :: ops, o' :: os => twStepOkC div t d cap o op o' && twRunOkC div t d cap o' ops os
  | _, _, _ => false

def twTraceC (div : Int → Nat → Nat) : TW → List (COp TWOp) → List TWObs
  | _, [] => []
  | w, op :: ops => (w.stepC op).1.obs div (w.stepC op).2 :: twTraceC div (w.stepC op).1 ops

/-! ### StreamAlphaNode (no window / sliding / tumbling) -/

/- `StreamAlphaNode::clear` is `Alpha.clear` (Model2.lean): `{ a with events := [] }` (the reset `last_window_start` is written
but never decides anything) -/

def anTraceC : Alpha → List (COp ANOp) → Option (List ANObs)
  | _, [] => some []
  | a, .clear :: ops => (anTraceC a.clear ops).map fun rest => { ret := true, events := [] } :: rest
  | a, .op op :: ops =>
    match a.process op.now op.pass op.e with
    | none => none
    | some (a', r) => (anTraceC a' ops).map fun rest => { ret := r, events := a'.events } :: rest

def anRunOkC (w : AWin) (cap : Nat) : List Ev → List (COp ANOp) → List ANObs → Bool
  | _, [], [] => true
  | o, .op op :: ops, o' :: os => anStepOk w cap o op o' && anRunOkC w cap o'.events ops os
  | _, .clear :: ops, o' :: os => o'.ret && o'.events.isEmpty && anRunOkC w cap [] ops os
  | _, _, _ => false

/-! ### StreamAlphaNode, session window -/

/-- `StreamAlphaNode::clear`: buffer and `last_session_event_timestamp` -/
def AlphaS.clear (a : AlphaS) : AlphaS := { a with events := [], last := none }

def ansTraceC : AlphaS → List (COp ANOp) → List ANObs
  | _, [] => []
  | a, .clear :: ops => { ret := true, events := [] } :: ansTraceC a.clear ops
  | a, .op op :: ops =>
    { ret := (a.process op.now op.pass op.e).2, events := (a.process op.now op.pass op.e).1.events }
      :: ansTraceC (a.process op.now op.pass op.e).1 ops

/-- after a clear there is no open session: the ghost `last` starts again at `none` -/
def ansRunOkC (timeout cap : Nat) : Option Nat → List Ev → List (COp ANOp) → List ANObs → Bool
  | _, _, [], [] => true
  | last, o, .op op :: ops, o' :: os =>
    ansStepOk timeout cap last o op o' && ansRunOkC timeout cap (sessLast timeout last op) o'.events ops os
  | _, _, .clear :: ops, o' :: os => o'.ret && o'.events.isEmpty && ansRunOkC timeout cap none [] ops os
  | _, _, _, _ => false

end C12
