/-
C12 — model of the windowing code *after* fix-C12 / fix-C12b:
  `src/streaming/window.rs`        TimeWindow (new, contains_timestamp, add_event, record, count/sum/average/min/max),
                                   WindowManager (process_event, calculate_window_start, cleanup_expired_windows)
  `src/streaming/operators.rs`     WindowedStream::new (tumbling branch); Count/Sum/Average/Min/Max
  `src/streaming/aggregator.rs`    Aggregator::aggregate / aggregate_events (Count, Sum, Average, Min, Max)
  `src/rete/stream_alpha_node.rs`  StreamAlphaNode::process_event (no window / sliding / tumbling), the clock an argument
  `src/streaming/event.rs`         StreamEvent::get_numeric
Timestamps and durations are `Nat` milliseconds (`saturating_sub` = `Nat` subtraction; u64 overflow is outside
the model). An event is its caller-assigned id, its timestamp and the numeric view of the aggregated field.
Numeric fields are integer valued (`Int`), so the f64 sum/min/max are exact; the one inexact operation,
the division of `average`, is a parameter `div` (the driver instantiates it with IEEE division on bit patterns).
A `VecDeque` is a `List` (front = head). `Option` results: `none` = the Rust code panics (division by zero for a
tumbling window shorter than 1 ms). Added later (end of this file): the sliding/session branch of
`WindowedStream::new` after fix-C12c (`wsSliding`) and session windows of `StreamAlphaNode` (`AlphaS`); the sliding and
session modes of `WindowManager` are the same `WM.process` below with `windowStart = event_time`.
-/
namespace C12

structure Ev where
  id : Nat
  ts : Nat
  /-- `get_numeric(field)`: `Value::Number`/`Value::Integer` ↦ `some`, other types / missing field ↦ `none` -/
  val : Option Int
deriving Repr, DecidableEq

inductive WType where
  | sliding | tumbling | session
deriving Repr, DecidableEq

/-- `while q.len() > cap { q.pop_front(); }` — the retention cap drops the oldest-arrived first -/
def popOver {α : Type} (cap : Nat) : List α → List α
  | [] => []
  | x :: xs => if (x :: xs).length > cap then popOver cap xs else x :: xs

/-! ### TimeWindow -/

structure TW where
  wtype : WType
  dur : Nat
  start : Nat
  stop : Nat
  cap : Nat
  events : List Ev
deriving Repr, DecidableEq

/-- `TimeWindow::new` -/
def TW.new (t : WType) (d start cap : Nat) : TW :=
  { wtype := t, dur := d, start := start, stop := start + d, cap := cap, events := [] }

/-- `contains_timestamp`: half-open span -/
def TW.contains (w : TW) (t : Nat) : Bool := decide (w.start ≤ t) && decide (t < w.stop)

/-- `add_event` -/
def TW.addEvent (w : TW) (e : Ev) : TW × Bool :=
  if w.contains e.ts then ({ w with events := popOver w.cap (w.events ++ [e]) }, true) else (w, false)

/-- the boundary advance at the top of `record` (sliding windows only) -/
def TW.slide (w : TW) (now : Nat) : TW :=
  if w.wtype = .sliding then { w with start := now - w.dur, stop := now + 1 } else w

/-- `record` (after fix-C12): push, `retain(ts >= start_time)`, then the cap -/
def TW.record (w : TW) (e : Ev) : TW :=
  let w1 := w.slide e.ts
  { w1 with events := popOver w1.cap ((w1.events ++ [e]).filter (fun x => decide (w1.start ≤ x.ts))) }

/-- `record` as it was before fix-C12: eviction pops only from the *front* of the arrival-ordered deque -/
def TW.recordFrontOnly (w : TW) (e : Ev) : TW :=
  let w1 := w.slide e.ts
  { w1 with events := popOver w1.cap ((w1.events ++ [e]).dropWhile (fun x => decide (x.ts < w1.start))) }

/-! ### aggregates (`TimeWindow::{count,sum,average,min,max}`, `Aggregator`, operators `Count`…`Max`) -/

/-- `events.iter().filter_map(|e| e.get_numeric(field))` -/
def vals (es : List Ev) : List Int := es.filterMap (·.val)

def foldMin : Option Int → Int → Option Int
  | none, x => some x
  | some m, x => some (min m x)

def foldMax : Option Int → Int → Option Int
  | none, x => some x
  | some m, x => some (max m x)

structure Agg where
  count : Nat
  sum : Int
  avg : Option Nat      -- bit pattern of the f64 quotient
  min : Option Int
  max : Option Int
deriving Repr, DecidableEq

def aggSum (es : List Ev) : Int := (vals es).foldl (· + ·) 0

def aggAvg (div : Int → Nat → Nat) (es : List Ev) : Option Nat :=
  if (vals es).isEmpty then none else some (div ((vals es).foldl (· + ·) 0) (vals es).length)

def aggMin (es : List Ev) : Option Int := (vals es).foldl foldMin none
def aggMax (es : List Ev) : Option Int := (vals es).foldl foldMax none

def aggregate (div : Int → Nat → Nat) (es : List Ev) : Agg :=
  { count := es.length, sum := aggSum es, avg := aggAvg div es, min := aggMin es, max := aggMax es }

/-! ### WindowManager -/

structure WM where
  wtype : WType
  dur : Nat
  cap : Nat
  maxW : Nat
  windows : List TW
deriving Repr, DecidableEq

def WM.new (t : WType) (d cap maxW : Nat) : WM := { wtype := t, dur := d, cap := cap, maxW := maxW, windows := [] }

/-- the `for window in &mut self.windows { if window.add_event(..) { added = true; break } }` loop -/
def offer : List TW → Ev → List TW × Bool
  | [], _ => ([], false)
  | w :: ws, e =>
    if w.contains e.ts then ((w.addEvent e).1 :: ws, true)
    else ((w :: (offer ws e).1), (offer ws e).2)

/-- `calculate_window_start`; `none` = division by zero -/
def windowStart (t : WType) (d ts : Nat) : Option Nat :=
  match t with
  | .tumbling => if d = 0 then none else some (ts / d * d)
  | _ => some ts

/-- `sort_by_key(|w| w.start_time)` (stable) -/
def sortByStart (ws : List TW) : List TW := ws.mergeSort (fun a b => decide (a.start ≤ b.start))

/-- the windows after the event was offered / a new window was opened for it -/
def WM.place (m : WM) (e : Ev) : Option (List TW) :=
  if (offer m.windows e).2 then some (offer m.windows e).1
  else (windowStart m.wtype m.dur e.ts).map fun s =>
    m.windows ++ [((TW.new m.wtype m.dur s m.cap).addEvent e).1]

/-- `cleanup_expired_windows(event_time)`, the `max_windows` limit (`remove(0)`), the sort -/
def WM.tidy (m : WM) (now : Nat) (ws : List TW) : List TW :=
  sortByStart (popOver m.maxW (ws.filter fun w => decide (now < w.stop)))

/-- `WindowManager::process_event` -/
def WM.process (m : WM) (e : Ev) : Option WM :=
  (m.place e).map fun ws => { m with windows := m.tidy e.ts ws }

/-! ### WindowedStream::new, tumbling -/

/-- `window_map.entry(window_start).or_default().push(event)` -/
def addToGroup (k : Nat) (e : Ev) : List (Nat × List Ev) → List (Nat × List Ev)
  | [] => [(k, [e])]
  | g :: rest => if g.1 = k then (g.1, g.2 ++ [e]) :: rest else g :: addToGroup k e rest

def groupByStart (d : Nat) (es : List Ev) : List (Nat × List Ev) :=
  es.foldl (fun g e => addToGroup (e.ts / d * d) e g) []

/-- `for event in window_events.drain(..) { window.add_event(event); }` -/
def fillWindow (w : TW) (es : List Ev) : TW := es.foldl (fun w e => (w.addEvent e).1) w

/-- the tumbling branch of `WindowedStream::new`. The windows come out of a `HashMap` in arbitrary order;
the observable is the set of windows, here listed by start time. `none` = division by zero. -/
def wsTumbling (d cap : Nat) (es : List Ev) : Option (List TW) :=
  if es.isEmpty then some []
  else if d = 0 then none
  else some (sortByStart ((groupByStart d es).map fun g => fillWindow (TW.new .tumbling d g.1 cap) g.2))

/-! ### StreamAlphaNode (clock = argument `now`) -/

inductive AWin where
  | none
  | sliding (d : Nat)
  | tumbling (d : Nat)
deriving Repr, DecidableEq

/-- `is_in_window`; `none` = division by zero -/
def AWin.accepts : AWin → Nat → Nat → Option Bool
  | .none, _, _ => some true
  | .sliding d, now, ts => some (decide (now - d ≤ ts) && decide (ts ≤ now))
  | .tumbling d, now, ts =>
    if d = 0 then Option.none
    else some (decide (now / d * d ≤ ts) && decide (ts < now / d * d + d))

/-- the predicate `evict_expired_events` retains by (after fix-C12 / fix-C12b) -/
def AWin.keeps : AWin → Nat → Ev → Bool
  | .none, _, _ => true
  | .sliding d, now, x => decide (now - d ≤ x.ts)
  | .tumbling d, now, x => decide (now / d * d ≤ x.ts) && decide (x.ts < now / d * d + d)

structure Alpha where
  window : AWin
  cap : Nat
  events : List Ev
deriving Repr, DecidableEq

/-- `process_event`: `pass` = stream name and event type match. The buffer is capped first
(`add_event`), then evicted (`evict_expired_events`). -/
def Alpha.process (a : Alpha) (now : Nat) (pass : Bool) (e : Ev) : Option (Alpha × Bool) :=
  if pass then
    match a.window.accepts now e.ts with
    | Option.none => Option.none
    | some false => some (a, false)
    | some true => some ({ a with events := (popOver a.cap (a.events ++ [e])).filter (a.window.keeps now) }, true)
  else some (a, false)

/-! #### the alpha node before the fixes (kept for the counterexample theorems) -/

structure AlphaOld where
  window : AWin
  cap : Nat
  events : List Ev
  lastStart : Nat     -- `last_window_start`, 0 = unset
deriving Repr, DecidableEq

def AlphaOld.evict (a : AlphaOld) (now : Nat) : AlphaOld :=
  match a.window with
  | .none => a
  | .sliding d => { a with events := a.events.dropWhile (fun x => decide (x.ts < now - d)) }
  | .tumbling d =>
    let s := now / d * d
    let a1 : AlphaOld :=
      if a.lastStart ≠ 0 ∧ s ≠ a.lastStart then { a with events := [], lastStart := s }
      else if a.lastStart = 0 then { a with lastStart := s } else a
    { a1 with events := a1.events.dropWhile (fun x => decide (x.ts < s)) }

def AlphaOld.process (a : AlphaOld) (now : Nat) (pass : Bool) (e : Ev) : Option (AlphaOld × Bool) :=
  if pass then
    match a.window.accepts now e.ts with
    | Option.none => Option.none
    | some false => some (a, false)
    | some true => some (({ a with events := popOver a.cap (a.events ++ [e]) } : AlphaOld).evict now, true)
  else some (a, false)

/-! ### WindowedStream::new, sliding / session branch (after fix-C12c)

```
let window_ms = config.duration.as_millis() as u64;
let step = (window_ms / 2).max(1);            // fix-C12c; before: `current_start += window_ms / 2`
let mut current_start = min_time;
while current_start <= max_time {
    let mut window = TimeWindow::new(type, duration, current_start, max_events);
    for event in &events { if ts >= current_start && ts < current_start + window_ms { window.add_event(event.clone()); } }
    if window.count() > 0 { windows.push(window); }
    current_start += step;
}
```
The `Session { timeout }` configuration takes the same branch (the timeout is not read; `WindowConfig::session`
sets `duration = timeout`). -/

/-- `events.iter().map(|e| e.metadata.timestamp).min().unwrap()` (the list is not empty where the code calls it) -/
def minTs : List Ev → Nat
  | [] => 0
  | e :: es => es.foldl (fun m x => min m x.ts) e.ts

/-- `events.iter().map(|e| e.metadata.timestamp).max().unwrap()` -/
def maxTs : List Ev → Nat
  | [] => 0
  | e :: es => es.foldl (fun m x => max m x.ts) e.ts

/-- the distance between two window starts: half the duration, at least 1 ms (fix-C12c) -/
def wsStep (d : Nat) : Nat := max (d / 2) 1

theorem wsStep_pos (d : Nat) : 0 < wsStep d := by unfold wsStep; omega

/-- the starts visited by `while current_start <= max_time { …; current_start += step; }`.
The loop terminates because — and only because — the step is positive: the definition takes the proof
`0 < step` and its termination measure `mx + 1 - cur` decreases by it. -/
def wsGrid (step : Nat) (hstep : 0 < step) (cur mx : Nat) : List Nat :=
  if cur ≤ mx then cur :: wsGrid step hstep (cur + step) mx else []
termination_by mx + 1 - cur
decreasing_by omega

/-- the test in the body of the loop (the same test `add_event` repeats: `stop = start + d`) -/
def inSpan (s d : Nat) (x : Ev) : Bool := decide (s ≤ x.ts) && decide (x.ts < s + d)

/-- one pass of the loop body: the window that starts at `s` -/
def wsWindowAt (t : WType) (d cap : Nat) (es : List Ev) (s : Nat) : TW :=
  fillWindow (TW.new t d s cap) (es.filter (inSpan s d))

/-- the sliding / session branch of `WindowedStream::new` (windows in the order they are pushed) -/
def wsSliding (t : WType) (d cap : Nat) (es : List Ev) : List TW :=
  if es.isEmpty then []
  else ((wsGrid (wsStep d) (wsStep_pos d) (minTs es) (maxTs es)).map (wsWindowAt t d cap es)).filter
         fun w => decide (0 < w.events.length)

/-- the cursor of the loop as it was *before* fix-C12c, after `n` iterations: `current_start += window_ms / 2` -/
def wsCursorOld (d : Nat) (start : Nat) : Nat → Nat
  | 0 => start
  | n + 1 => wsCursorOld d start n + d / 2

/-! ### StreamAlphaNode, session windows (clock = argument `now`)

`is_in_window` answers `true` in all three session branches, so every event of the right stream/type is accepted;
`spec.duration` is not read in session mode. `last` = `last_session_event_timestamp`. -/

structure AlphaS where
  timeout : Nat
  cap : Nat
  events : List Ev
  last : Option Nat
deriving Repr, DecidableEq

/-- `process_event`, the block before `add_event`: a gap above the timeout (measured from the event that *arrived*
last, `saturating_sub`) closes the session -/
def AlphaS.gapReset (a : AlphaS) (ts : Nat) : AlphaS :=
  match a.last with
  | some l => if ts - l > a.timeout then { a with events := [], last := none } else a
  | none => a

/-- `add_event`: push, remember the timestamp, cap -/
def AlphaS.push (a : AlphaS) (e : Ev) : AlphaS :=
  { a with events := popOver a.cap (a.events ++ [e]), last := some e.ts }

/-- `evict_expired_events`, session branch: the whole session goes when its last event is older than the timeout -/
def AlphaS.expire (a : AlphaS) (now : Nat) : AlphaS :=
  match a.last with
  | some l => if now - l > a.timeout then { a with events := [], last := none } else a
  | none => a

/-- `StreamAlphaNode::process_event` with a session window -/
def AlphaS.process (a : AlphaS) (now : Nat) (pass : Bool) (e : Ev) : AlphaS × Bool :=
  if pass then ((((a.gapReset e.ts).push e).expire now), true) else (a, false)

/-! ### the other aggregates of `Aggregator::aggregate` (`src/streaming/aggregator.rs`):
First, Last, CountDistinct, CountBy, Percentile, and when StdDev is defined. The view of the aggregated field is finer
here than `Ev.val`: CountDistinct tells `Value::Number(3.0)` from `Value::Integer(3)` (it hashes the `{:?}` rendering),
CountBy does not (both render as "3" with `to_string`, and so does the string "3"). -/

/-- the aggregated field of an event: `Value::Number(v as f64)`, `Value::Integer(v)`, `Value::String(v.to_string())`, absent -/
inductive FVal where
  | num (v : Int) | int (v : Int) | str (v : Int) | missing
deriving Repr, DecidableEq

structure AEv where
  id : Nat
  v : FVal
deriving Repr, DecidableEq

/-- `get_numeric` -/
def FVal.numeric : FVal → Option Int
  | .num v => some v
  | .int v => some v
  | _ => none

/-- the key `count_by_field` files a value under (`to_string` of the payload; rendered as the integer it spells) -/
def FVal.key : FVal → Option Int
  | .num v => some v
  | .int v => some v
  | .str v => some v
  | .missing => none

def avals (es : List AEv) : List Int := es.filterMap (·.v.numeric)

/-- `AggregationType::First` / `Last`: the id of the event at the front / back of the deque -/
def aggFirst (es : List AEv) : Option Nat := es.head?.map (·.id)
def aggLast (es : List AEv) : Option Nat := es.getLast?.map (·.id)

/-- a `HashSet` as a duplicate-free list (one representative per value) -/
def dedup : List FVal → List FVal
  | [] => []
  | x :: xs => if x ∈ xs then dedup xs else x :: dedup xs

/-- `count_distinct_values`: the size of the set of `{:?}` renderings of the values present -/
def aggCountDistinct (es : List AEv) : Nat := (dedup ((es.map (·.v)).filter (· ≠ .missing))).length

/-- `*counts.entry(key).or_insert(0) += 1` on an association list -/
def bumpCount (k : Int) : List (Int × Nat) → List (Int × Nat)
  | [] => [(k, 1)]
  | p :: rest => if p.1 = k then (p.1, p.2 + 1) :: rest else p :: bumpCount k rest

/-- `count_by_field` (a `HashMap<String, usize>`; the observable is the set of entries) -/
def aggCountBy (es : List AEv) : List (Int × Nat) := (es.filterMap (·.v.key)).foldl (fun m k => bumpCount k m) []

def sortInts (l : List Int) : List Int := l.mergeSort (fun a b => decide (a ≤ b))

/-- the index `calculate_percentile` reads: `(percentile / 100.0 * (len - 1) as f64).round() as usize`. For the
percentiles 0, 25, 50, 75, 100 (quarters are exact in binary, `round` = half away from zero) this is
`(p * (len - 1) + 50) / 100`; other percentiles are outside the model. -/
def pctIndex (p n : Nat) : Nat := (p * (n - 1) + 50) / 100

/-- `calculate_percentile`: sort the numeric values, read the index; `None` without numeric values -/
def aggPercentile (p : Nat) (es : List AEv) : Option Int :=
  if (avals es).isEmpty then none else (sortInts (avals es))[pctIndex p (avals es).length]?

/-- `calculate_std_dev` answers `None` with fewer than two numeric values (its value is not modelled) -/
def aggStdDevDefined (es : List AEv) : Bool := decide (2 ≤ (avals es).length)

/-! ### min / max / sum over the extended reals (`XV` cases)

`Value::Number` may hold any f64: `±inf`, NaN, `±f64::MAX`. `XNum` is that ordered type (`ninf < lo < fin i < hi < pinf`,
`lo`/`hi` = `∓f64::MAX`; `nan` unordered). `TimeWindow::min`/`max` fold with `f64::min`/`f64::max` from `None`
(`None => Some(x)`, `Some(m) => Some(m.min(x))`); `f64::min(a, b)` returns the other argument when one is NaN. -/

inductive XNum where
  | ninf | lo | fin (i : Int) | hi | pinf | nan
deriving Repr, DecidableEq

/-- position in the order of the non-NaN values: (tier, value) compared lexicographically -/
def XNum.key : XNum → Int × Int
  | .ninf => (-2, 0) | .lo => (-1, 0) | .fin i => (0, i) | .hi => (1, 0) | .pinf => (2, 0) | .nan => (3, 0)

/-- `a <= b` for non-NaN values -/
def XNum.le (a b : XNum) : Bool := decide (a.key.1 < b.key.1) || (decide (a.key.1 = b.key.1) && decide (a.key.2 ≤ b.key.2))

/-- `f64::min` -/
def XNum.fmin : XNum → XNum → XNum
  | .nan, b => b
  | a, .nan => a
  | a, b => if a.le b then a else b

/-- `f64::max` -/
def XNum.fmax : XNum → XNum → XNum
  | .nan, b => b
  | a, .nan => a
  | a, b => if a.le b then b else a

def xFold (op : XNum → XNum → XNum) : Option XNum → XNum → Option XNum
  | none, x => some x
  | some m, x => some (op m x)

/-- `TimeWindow::min` over the numeric values of the window (`none` entries = non-numeric / missing field) -/
def xMin (vs : List (Option XNum)) : Option XNum := (vs.filterMap id).foldl (xFold XNum.fmin) none
/-- `TimeWindow::max` -/
def xMax (vs : List (Option XNum)) : Option XNum := (vs.filterMap id).foldl (xFold XNum.fmax) none

/-- is the f64 sum independent of the order of addition (and therefore comparable)? Not with NaN payloads or
`±f64::MAX` (overflow to infinity depends on the order) among the values. -/
def xSumComparable (vs : List (Option XNum)) : Bool :=
  (vs.filterMap id).all fun x => x != .nan && x != .lo && x != .hi

/-- `TimeWindow::sum` for comparable value lists: `inf + -inf = NaN`, an infinity absorbs every finite value -/
def xSum (vs : List (Option XNum)) : XNum :=
  let v := vs.filterMap id
  if v.contains .pinf && v.contains .ninf then .nan
  else if v.contains .pinf then .pinf
  else if v.contains .ninf then .ninf
  else .fin ((v.filterMap fun x => match x with | .fin i => some i | _ => none).foldl (· + ·) 0)

/-! ### durations on the wire (`std::time::Duration`, read everywhere with `as_millis() as u64`)

The harness builds a case's duration with `Duration::from_millis(n)` (token `<n>`) or `Duration::from_micros(n)` (token `u<n>`,
durations that are not whole milliseconds); `n : u64`. Every component reads it with `duration.as_millis() as u64`
(window.rs:45/91/128/279, operators.rs:413/440, stream_alpha_node.rs:135/179/195/226/257/317). `Dur` is the std representation
(whole seconds + sub-second nanoseconds), `DurArg.ms` is the number of milliseconds the model works with. -/

/-- `std::time::Duration { secs: u64, nanos: u32 }` (`nanos < 10^9`) -/
structure Dur where
  secs : Nat
  nanos : Nat
deriving Repr, DecidableEq

/-- `Duration::from_millis`: `secs = ms / 1000`, `nanos = (ms % 1000) * 1_000_000` -/
def Dur.fromMillis (ms : Nat) : Dur := { secs := ms / 1000, nanos := ms % 1000 * 1000000 }
/-- `Duration::from_micros`: `secs = us / 1_000_000`, `nanos = (us % 1_000_000) * 1000` -/
def Dur.fromMicros (us : Nat) : Dur := { secs := us / 1000000, nanos := us % 1000000 * 1000 }
/-- `Duration::as_millis`: `secs * 1000 + nanos / 1_000_000` (a `u128`: no overflow) -/
def Dur.asMillis (d : Dur) : Nat := d.secs * 1000 + d.nanos / 1000000

/-- the duration token of a case line -/
inductive DurArg where
  | millis (n : Nat)
  | micros (n : Nat)
deriving Repr, DecidableEq

/-- the `Duration` the harness constructs for the token -/
def DurArg.dur : DurArg → Dur
  | .millis n => Dur.fromMillis n
  | .micros n => Dur.fromMicros n

/-- the whole milliseconds the model (and the oracle) works with: micros are truncated -/
def DurArg.ms : DurArg → Nat
  | .millis n => n
  | .micros n => n / 1000

end C12
